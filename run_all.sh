#!/bin/sh
# run every claimed check (quick tier) and report
cd "$(dirname "$0")"
for id in $(python3 -c "import json;print(' '.join(c['property_id'] for c in json.load(open('MANIFEST.json'))['checks']))"); do
  ./check $id --tier ${1:-quick} 2>&1 | tail -3
done
