#!/bin/sh
# run every claimed check (quick tier by default) and report; first the hygiene scan of the Coq development
cd "$(dirname "$0")"
if grep -rnE '\b(Admitted|admit|Axiom|Parameter|Conjecture|Admit Obligations)\b|Unset Guard|bypass_check|type-in-type|impredicative-set' coq --include='*.v' | grep -v '^coq/[^:]*:[0-9]*: *(\*' ; then
  echo "HYGIENE: forbidden declaration found in coq/"; fi
for id in $(python3 -c "import json;print(' '.join(c['property_id'] for c in json.load(open('MANIFEST.json'))['checks']))"); do
  ./check $id --tier ${1:-quick} 2>&1 | tail -3
done
