#!/usr/bin/env python3
"""Writes coq/props/Tie_C02_*.v (committed)."""
import os
OUT = os.path.join(os.path.dirname(os.path.abspath(__file__)), "..", "coq", "props")
S = "s0 s1 s2 s3"; SC = "s0r s0i s1r s1i s2r s2i s3r s3i"
J = lambda p: " ".join("%s%s%s" % (p, rc, c) for rc in ("00", "01", "10", "11") for c in "ri")
HDR = """(* %s -- GENERATED ONCE by harness/gen_tie_C02.py and committed.
   %s *)
From Coq Require Import Reals Lra List.
From Epsic Require Import Scalar SpecPauli SpecJones Gen_C02.
Import ListNotations.
Local Open Scope R_scope.

Definition halves_eq (n : nat) (l : list R) : Prop := firstn n l = skipn n l.

(* abstract cos x / sin x to variables c, s with s*s = 1 - c*c *)
Ltac trig_abs :=
  repeat match goal with
  | |- context [cos ?x] => let c := fresh "c" in let s := fresh "s" in let H := fresh "Htrig" in
       assert (H : sin x * sin x = 1 - cos x * cos x) by (pose proof (sin2_cos2 x) as H; unfold Rsqr in H; lra);
       set (c := cos x) in *; set (s := sin x) in *; clearbody c s
  end.
Ltac trig_ring := match goal with
  | H1 : _ * _ = 1 - _, H2 : _ * _ = 1 - _ |- _ => first [ring [H1 H2] | field [H1 H2] | (field_simplify_eq; ring [H1 H2])]
  | H1 : _ * _ = 1 - _ |- _ => first [ring [H1] | field [H1] | (field_simplify_eq; ring [H1])]
  end.
Ltac solve_entry := first [ field | ring | trig_ring | lazymatch goal with |- ?a = ?a => reflexivity end ].
Ltac pc_zero := intros; autounfold with gen; ops_R; trig_abs; repeat split;
  (let H := fresh "H" in intro H;
   match type of H with ?b < ?a =>
     let E := fresh "E" in assert (E : a = 0) by solve_entry; rewrite E in H; lra end).
Ltac law := intros; unfold halves_eq; autounfold with gen; ops_R; cbn [firstn skipn]; trig_abs; list_eq solve_entry.
"""
NOPC = ("roundtrip_complex", "roundtrip_natural", "trace_det", "roundtrip_jones", "basis_history")
def lawlem(name, args, half):
    if not name.startswith(NOPC):
        return lawlem0(name, args, half) + "\n" + pclem(name, args)
    return lawlem0(name, args, half)
def lawlem0(name, args, half):
    return "Lemma law_%s %s :\n  halves_eq %d (%s (OO:=ROps) %s).\nProof. law. Qed.\n" % (name, args, half, name, args)
def pclem(name, args):
    # the only branch on these paths is coherency()'s sanity test "imaginary part negligible":
    # the imaginary part vanishes identically, so the path condition holds for every input
    return "Lemma pc_%s %s : %s_pc (OO:=ROps) %s.\nProof. pc_zero. Qed.\n" % (name, args, name, args)
def write(fname, doc, body):
    open(os.path.join(OUT, fname), "w").write(HDR % (fname, doc) + "\n" + "\n".join(body))

b = []
for bs, pre in (("lin", ""), ("circ", ""), ("ell", "o e ")):
    b.append(lawlem("roundtrip_" + bs, pre + S, 4))
    b.append(lawlem("roundtrip_natural_" + bs, pre + S, 4))
    b.append(lawlem("trace_det_" + bs, pre + S, 4))
write("Tie_C02_basic.v", "Round trips, trace/det.", b)
b = []
for bs in ("lin", "circ"):
    b.append(lawlem("transform_mueller_" + bs, S + " " + J("j"), 4))
    b.append(lawlem("transform_congruence_" + bs, S + " " + J("j"), 8))
    b.append(lawlem("invariant_scaling_" + bs, S + " " + J("j"), 1))
b.append(lawlem("spinor_lin", "xr xi yr yi " + J("j"), 4))
b.append(lawlem("detect_lin", "xr xi yr yi", 4))
write("Tie_C02_xform.v", "transform = Mueller.S = congruence, invariant scaling, field picture.", b)

b = []
for bs, pre in (("lin", ""), ("circ", ""), ("ell", "o e ")):
    b.append(lawlem("roundtrip_complex_" + bs, pre + SC, 8))
for bs, pre in (("lin", ""), ("circ", ""), ("ell", "o e ")):
    b.append(lawlem("roundtrip_jones_" + bs, pre + J("j"), 8))
write("Tie_C02_cplx.v", "Complex Stokes parameters: round trips and congruence.", b)

for bs in ("lin", "circ"):
    for row in range(4):
        b = [lawlem("mueller_compose_%s_row%d" % (bs, row), J("a") + " " + J("b"), 4),
             lawlem("mueller_derivative_%s_row%d" % (bs, row), J("j") + " " + J("g") + " t", 4)]
        write("Tie_C02_mu_%s%d.v" % (bs, row), "Mueller composition and directional derivative, %s basis, row %d." % (bs, row), b)

# Mueller(J) in the linear basis is the trace formula
b = ["""Definition mueller_spec (j : M2) (r c : nat) : R :=
  cre (cscale (/2) (m2trace (m2mul (sigma c) (m2mul (m2herm j) (m2mul (sigma r) j))))).
Lemma pc_mueller_lin %s : mueller_lin_pc (OO:=ROps) %s.
Proof. pc_zero. Qed.
Lemma tie_mueller_lin %s :
  mueller_lin (OO:=ROps) %s = grid16 (mueller_spec (M2of %s)).
Proof.
  intros; autounfold with gen; ops_R; unfold grid16, idx4, mueller_spec, M2of, sigma; spec_cbv; list_eq solve_entry.
Qed.
""" % (J("j"), J("j"), J("j"), J("j"), J("j"))]
write("Tie_C02_mueller_spec.v", "Mueller(J)[r][c] = 1/2 tr(sigma_c J^dagger sigma_r J) in the linear basis.", b)

# basis matrices
b = ["""(* into (9 entries, row major) followed by the columns of outof (9 entries) *)
Definition basis_ok (l : list R) : Prop :=
  match l with
  | [a00; a01; a02; a10; a11; a12; a20; a21; a22; c00; c01; c02; c10; c11; c12; c20; c21; c22] =>
      (* outof = into^T: column j of outof (c_j0 c_j1 c_j2) is row j of into *)
      [c00; c01; c02; c10; c11; c12; c20; c21; c22] = [a00; a01; a02; a10; a11; a12; a20; a21; a22] /\\
      (* rows orthonormal *)
      a00*a00 + a01*a01 + a02*a02 = 1 /\\ a10*a10 + a11*a11 + a12*a12 = 1 /\\ a20*a20 + a21*a21 + a22*a22 = 1 /\\
      a00*a10 + a01*a11 + a02*a12 = 0 /\\ a00*a20 + a01*a21 + a02*a22 = 0 /\\ a10*a20 + a11*a21 + a12*a22 = 0 /\\
      (* determinant +1 *)
      a00*(a11*a22 - a12*a21) - a01*(a10*a22 - a12*a20) + a02*(a10*a21 - a11*a20) = 1
  | _ => False
  end.
Ltac basis := intros; autounfold with gen; ops_R; unfold basis_ok; trig_abs;
  repeat split; lazymatch goal with |- cons _ _ = _ => list_eq solve_entry | |- _ => solve_entry end.
Lemma tie_basis_lin : basis_ok (basis_lin (OO:=ROps)).
Proof. basis. Qed.
Lemma tie_basis_circ : basis_ok (basis_circ (OO:=ROps)).
Proof. basis. Qed.
Lemma tie_basis_ell o e : basis_ok (basis_ell (OO:=ROps) o e).
Proof. basis. Qed.
"""]
for a in "LCE":
    for bb in "LCE":
        for c in "LCE":
            h = a + bb + c
            b.append("Lemma law_basis_history_%s o1 e1 o2 e2 o3 e3 :\n  halves_eq 18 (basis_history_%s (OO:=ROps) o1 e1 o2 e2 o3 e3) /\\ basis_ok (firstn 18 (basis_history_%s (OO:=ROps) o1 e1 o2 e2 o3 e3)).\nProof. split; [ law | autounfold with gen; ops_R; cbn [firstn]; unfold basis_ok; trig_abs; repeat split; lazymatch goal with |- cons _ _ = _ => list_eq solve_entry | |- _ => solve_entry end ]. Qed.\n" % (h, h, h))
write("Tie_C02_basis.v", "Every basis setting, and every history of settings of length 3, leaves into orthonormal with det +1 and outof = into^T; the state depends on the last call only.", b)
print("ok")
