#!/usr/bin/env python3
"""Writes coq/props/Tie_C07.v (committed)."""
import os
OUT = os.path.join(os.path.dirname(os.path.abspath(__file__)), "..", "coq", "props")
b = ["""(* Tie_C07.v -- GENERATED ONCE by harness/gen_tie_C07.py and committed.
   Ties of the amplitude-modulation code (modulated.h, square_modulated_mode.cpp)
   to the filter models of FilterModels.v and the log-normal model of LogNormal.v. *)
From Coq Require Import Reals Lra List Arith.
From Epsic Require Import Scalar SampleModel FilterModels LogNormal Gen_C07.
Import ListNotations.
Local Open Scope R_scope.

Definition seqf (l : list R) : nat -> R := fun k => nth k l 0.
Definition halves_eq (n : nat) (l : list R) : Prop := firstn n l = skipn n l.
Ltac deep := first [ ring | field; nz_auto | (apply f_equal; deep) | (apply f_equal2; deep) ].

(* (a) |sqrt m e|^2 = m |e|^2 for m >= 0 *)
Lemma law_transform_scales_stokes xr xi yr yi d0 : 0 <= d0 ->
  halves_eq 4 (transform_scales_stokes (OO:=ROps) xr xi yr yi d0).
Proof.
  intros H. unfold halves_eq; autounfold with gen; ops_R; cbn [firstn skipn].
  assert (E : sqrt d0 * sqrt d0 = d0) by (apply sqrt_sqrt; exact H).
  set (r := sqrt d0) in *. clearbody r.
  list_eq ltac:(first [ ring [E] | (rewrite <- E; ring) ]).
Qed.

(* (b) predicted mean mu S and covariance (mu^2 + v) C + v S S^T *)
Definition grid16 {T} (f : nat -> nat -> T) : list T :=
  flat_map (fun i => map (fun j => f i j) [0;1;2;3]%nat) [0;1;2;3]%nat.
Lemma tie_modulated_prediction s0 s1 s2 s3 mu v :
  let S := fun i => nth i [s0; s1; s2; s3] 0 in
  let C := fun i j => nth (4 * i + j) (skipn 20 (modulated_prediction (OO:=ROps) s0 s1 s2 s3 mu v)) 0 in
  firstn 20 (modulated_prediction (OO:=ROps) s0 s1 s2 s3 mu v)
  = [mu * s0; mu * s1; mu * s2; mu * s3] ++ grid16 (fun i j => (mu * mu + v) * C i j + v * (S i * S j)).
Proof.
  intros S C; subst S C. autounfold with gen; ops_R. unfold grid16.
  cbv beta iota delta [firstn skipn nth flat_map map app Nat.mul Nat.add]. list_eq deep.
Qed.

(* (c) the log-normal factor is exp(sigma (g - sigma/2)), mean 1, variance exp(sigma^2) - 1 *)
Lemma tie_lognormal_factor beta g0 :
  lognormal_factor (OO:=ROps) beta g0
  = [lnf (log_sigma beta) g0; 1; exp (log_sigma beta * log_sigma beta) - 1; log_sigma beta;
     sqrt (exp (log_sigma beta * log_sigma beta) - 1); 1].
Proof. autounfold with gen; ops_R; unfold lnf, log_sigma. list_eq deep. Qed.
(* the same after set_beta: only the last modulation index matters *)
Lemma tie_lognormal_rebeta beta1 beta g0 :
  lognormal_rebeta (OO:=ROps) beta1 beta g0 = lognormal_factor (OO:=ROps) beta g0.
Proof. autounfold with gen; ops_R. list_eq deep. Qed.
"""]
# (d) boxcar
for w in range(1, 6):
    n = w + 12
    ds = " ".join("d%d" % i for i in range(n)); dl = "; ".join("d%d" % i for i in range(n))
    b.append("""Lemma tie_boxcar_w%d %s :
  boxcar_w%d (OO:=ROps) %s = map (boxcar_out %d (seqf [%s])) (seq 0 13) ++ [%d].
Proof.
  intros. rewrite (map_ext _ (fun t => sumf (fun i => seqf [%s] (t + i)) %d / INR %d)) by (intros; apply boxcar_is_moving_average; auto with arith).
  autounfold with gen; ops_R. unfold seqf.
  cbv beta iota delta [map seq app sumf nth Nat.add INR]. list_eq deep.
Qed.
""" % (w, ds, w, ds, w, dl, n, dl, w, w))
b.append("""(* reported statistics of the boxcar: mean mu, variance v / w, lag covariance v (w - l) / w^2 below w, 0 beyond
   (source mean Stokes (1,0,0,0), entry [0][0]) *)
Lemma tie_boxcar_stats mu v :
  boxcar_stats (OO:=ROps) mu v =
  flat_map (fun w => [mu; v / INR w] ++ map (fun l => if Nat.ltb l w then v * INR (overlap w l) / (INR w * INR w) else 0) [1;2;3;4]%nat) [1;2;3;4]%nat.
Proof.
  autounfold with gen; ops_R. unfold overlap.
  cbv beta iota delta [flat_map map app Nat.ltb Nat.leb Nat.sub INR]. list_eq deep.
Qed.
""")
# (e) square
for w in range(1, 5):
    ds = " ".join("d%d" % i for i in range(13)); dl = "; ".join("d%d" % i for i in range(13))
    ndraws = (12 // w) + 1
    b.append("""Lemma tie_square_w%d %s :
  square_w%d (OO:=ROps) %s = map (hold_out %d (seqf [%s])) (seq 0 13) ++ [IZR (Z.of_nat (12 / %d + 1))].
Proof.
  intros. rewrite (map_ext _ (fun t => seqf [%s] (t / %d))) by (intros; apply hold_is_block_constant; auto with arith).
  autounfold with gen; ops_R. unfold seqf.
  cbv beta iota delta [map seq app nth Nat.div Nat.divmod fst snd Nat.add Z.of_nat Pos.of_succ_nat Pos.succ]. list_eq ltac:(reflexivity).
Qed.
""" % (w, ds, w, ds, w, dl, w, dl, w))
open(os.path.join(OUT, "Tie_C07.v"), "w").write("\n".join(b))
print("ok")
