"""C19 correspondence: the TextIO model (run inside Coq by vm_compute) against the real extraction
operators, on seeded valid prints and grammar-based malformed mutations.  Numbers are short decimals
that binary64 represents exactly, so both sides agree on the value."""
import os, re, subprocess, random
from fractions import Fraction

def sh(cmd, cwd, timeout=900):
    p = subprocess.run(cmd, cwd=cwd, stdout=subprocess.PIPE, stderr=subprocess.STDOUT, timeout=timeout, text=True)
    return p.returncode, p.stdout

NUMS = ["0", "1", "-1", "2.5", "-0.25", "1e3", "3e-2".replace("3e-2", "0.03125"), "1.5e2", "-7", "0.5", "1024", "-3.75", "6.25e-2".replace("6.25e-2", "0.0625"),
        "2e0", "+4", "12.125", "-1e2", "0.001953125", "1.25E1", "00.5", "5."]
def num(r): return r.choice(NUMS)
def posnum(r): return r.choice([n for n in NUMS if not n.startswith("-")])
def ws(r): return r.choice(["", "", "", " ", "  ", "\t"])

def gen_valid(r, kind):
    if kind == "vec3": return "%s(%s%s,%s%s,%s%s)" % (ws(r), ws(r), num(r), ws(r), num(r), ws(r), num(r))
    if kind == "stokes": return "(%s,%s,%s,%s)" % (num(r), num(r), num(r), num(r))
    if kind == "est": return r.choice(["(%s+-%s)", "%s+-%s", " (%s+-%s)"]) % (num(r), posnum(r))
    if kind == "vecest": return "((%s+-%s),(%s+-%s))" % (num(r), posnum(r), num(r), posnum(r))
    if kind == "vec2c": return r.choice(["((%s,%s),(%s,%s))", "((%s,%s), (%s,%s))"]) % (num(r), num(r), num(r), num(r))
    if kind == "basis": return ws(r) + r.choice(["lin", "Linear", "cir", "circ", "Circular", "ell", "Elliptical", "0", "1", "2"])
    if kind in ("hand", "arg"): return ws(r) + r.choice(["+1", "-1", "1"])

def mutate(r, s, kind):
    ops = ["del", "swap", "subst", "trunc", "code"]
    op = r.choice(ops)
    struct = [i for i, c in enumerate(s) if c in "(),+-"]
    if op == "del" and struct:
        i = r.choice(struct); return s[:i] + s[i+1:]
    if op == "swap" and len(struct) >= 2:
        i, j = sorted(r.sample(struct, 2)); l = list(s); l[i], l[j] = l[j], l[i]; return "".join(l)
    if op == "subst" and struct:
        i = r.choice(struct); return s[:i] + r.choice(";:[]x") + s[i+1:]
    if op == "trunc" and len(s) > 1:
        return s[:r.randrange(1, len(s))]
    if kind == "basis": return r.choice(["7", "3", "-1", "li", "Lin", "circular", "elliptical", "", "x1", "10", "linear"])
    if kind in ("hand", "arg"): return r.choice(["0", "2", "-2", "+", "x", "", "11", "+ 1"])
    return s + "x" if r.random() < 0.5 else "x" + s

def coq_string(s):
    out = []
    for c in s:
        if c == '"': out.append('""')
        elif c == "\t": out.append('" ++ String "009"%char "')
        else: out.append(c)
    return '("' + "".join(out) + '")%string'

RUN = {"vec3": "run_vec 3", "stokes": "run_vec 4", "est": "run_est", "vecest": "run_vecest", "vec2c": "run_vec2c", "basis": "run_basis", "hand": "run_pm1", "arg": "run_pm1"}

def parse_coq_value(block):
    b = " ".join(block.split())
    if b.startswith("None"): return None
    nums = [Fraction(int(n.replace(" ", "")), int(d)) for n, d in re.findall(r"\(\(?(- ?\d+|\d+)\)?%?Z?, (\d+)\)", b.replace("%Z", ""))]
    m = re.search(r'"((?:[^"]|"")*)"%string\)', b)
    rest = m.group(1).replace('""', '"') if m else ""
    return nums, b, rest


# ---- output side: the model's printers against the real insertion operators, and the real round trip ----
PNUMS_SHORT = ["0", "1", "-1", "2.5", "-0.25", "1000", "0.03125", "150", "-7", "0.5", "1024", "-3.75", "0.0625", "12.125", "-100", "3e+20", "-2e-10"]
PNUMS_LONG = ["0.1", "-0.3", "0.7", "1e-300", "-1.7976931348623157e308", "5e-324", "123456789.12345679", "0.33333333333333331", "2.2250738585072014e-308", "-9007199254740993", "6.02214076e23", "1e22", "1e23", "-4.9406564584124654e-324"]
PERR_LONG = ["0.1", "0.3", "1e-100", "1e100", "123456789.12345679", "0.33333333333333331", "0", "3"]
PKINDS = {"vec2": 2, "vec3": 3, "vec4": 4, "stokes": 4, "est": 2, "vecest": 4, "vecest3": 6, "vec2c": 4}

def gen_print_cases(r, n):
    cases = [("basis", 6, ["0"]), ("basis", 6, ["1"]), ("basis", 6, ["2"]), ("hand", 6, ["1"]), ("hand", 6, ["-1"]), ("arg", 6, ["1"]), ("arg", 6, ["-1"])]
    while len(cases) < n:
        k = r.choice(sorted(PKINDS)); prec = r.choice([6, 17])
        pool = PNUMS_SHORT if prec == 6 else PNUMS_LONG + PNUMS_SHORT
        vals = [r.choice(pool) for _ in range(PKINDS[k])]
        if k in ("est", "vecest", "vecest3"):
            for i in range(1, len(vals), 2):
                vals[i] = r.choice([x for x in PNUMS_SHORT if not x.startswith("-")] if prec == 6 else PERR_LONG)
        cases.append((k, prec, vals))
    return cases

def model_print_expr(kind, elems):
    q = lambda s: '"%s"' % s
    if kind in ("vec2", "vec3", "vec4", "stokes"):
        return "print_vec string (fun x => x) [%s]" % "; ".join(q(e) for e in elems)
    tab = "(fun i : Q => nth (Z.to_nat (Qnum i)) [%s] \"\")" % "; ".join(q(e) for e in elems)
    pairs = ["(%d # 1, %d # 1)" % (i, i + 1) for i in range(0, len(elems), 2)]
    if kind == "est": return "print_estimate %s %s" % (tab, pairs[0])
    if kind in ("vecest", "vecest3"): return "print_vec (Q * Q) (print_estimate %s) [%s]" % (tab, "; ".join(pairs))
    if kind == "vec2c": return "print_vec (Q * Q) (print_complex %s) [%s]" % (tab, "; ".join(pairs))
    if kind == "basis": return "print_basis %s" % ["Circular", "Linear", "Elliptical"][int(elems[0])]
    return "print_pm1 (%s)" % elems[0]

def run_print(bdir, repo, coqlib, r, n, note):
    util = os.path.join(repo, "src/util")
    exe = os.path.join(bdir, "c19_print")
    rc, out = sh(["g++", "-std=gnu++17", "-w", "-I" + bdir, "-I" + util, os.path.join(os.path.dirname(__file__), "c19", "print.C"),
                  os.path.join(util, "Conventions.C"), os.path.join(util, "random.C"), "-o", exe], bdir)
    if rc != 0:
        return 0, [{"what": "print harness does not compile", "detail": out[-800:]}], []
    cases = gen_print_cases(r, n)
    open(os.path.join(bdir, "c19_print_cases.txt"), "w").write("".join("%s\t%d\t%s\n" % (k, p, ",".join(v)) for k, p, v in cases))
    try:
        rc, out = sh([exe, os.path.join(bdir, "c19_print_cases.txt")], bdir, timeout=120)
    except subprocess.TimeoutExpired:
        return 0, [{"what": "the insertion operators do not terminate on the print cases (c19_print_cases.txt)"}], []
    impl = [l.split("\t") for l in out.split("\n") if l]
    if rc != 0 or len(impl) != len(cases):
        return 0, [{"what": "print harness failed", "rc": rc, "lines": len(impl), "cases": len(cases), "detail": out[-400:]}], []
    v = os.path.join(bdir, "C19_print_cases.v")
    body = ["From Coq Require Import String Ascii List ZArith QArith.", "From Epsic Require Import TextIO.", "Import ListNotations.", "Set Printing Depth 100000.", "Set Printing Width 100000.", "Local Open Scope string_scope."]
    for (k, prec, vals), im in zip(cases, impl):
        elems = im[2].split("|") if im[2] else vals
        body.append("Eval vm_compute in (%s)." % model_print_expr(k, elems))
    open(v, "w").write("\n".join(body) + "\n")
    rc, out = sh(["coqc", "-Q", coqlib, "Epsic", v], bdir)
    if rc != 0:
        return 0, [{"what": "print model run failed", "detail": out[-800:]}], []
    model = [re.match(r'\s*"((?:[^"]|"")*)"', b).group(1) for b in re.split(r"\n\s*= ", "\n" + out)[1:]]
    if len(model) != len(cases):
        return 0, [{"what": "print model result count mismatch", "model": len(model), "cases": len(cases)}], []
    mism, dist = [], {}
    for (k, prec, vals), im, mo in zip(cases, impl, model):
        dist[(k, prec)] = dist.get((k, prec), 0) + 1
        bad = None
        if im[1] != mo: bad = "printed text differs from the model's print of the same scalars"
        elif im[3] != "1": bad = "the printed text does not read back to the same value"
        if bad: mism.append({"kind": "print " + k, "precision": prec, "values": vals, "why": bad, "impl": im[1], "model": mo, "reads_back": im[3]})
    note("C19 print distribution", sorted(dist.items()))
    return len(cases), mism, ["print %s prec %d %s -> %s" % (cases[i][0], cases[i][1], ",".join(cases[i][2]), impl[i][1]) for i in (7, 8, 9) if i < len(cases)] + ["print distribution: " + ", ".join("%s/%d=%d" % (k[0], k[1], c) for k, c in sorted(dist.items()))]

def run(pid, cfg, bdir, repo, coqlib, note):
    seed = int(os.environ.get("VERIF_SEED", "1")); tier = os.environ.get("VERIF_TIER", "quick")
    r = random.Random(seed)
    n = 600 if tier == "quick" else 6000
    kinds = ["vec3", "stokes", "est", "vecest", "vec2c", "basis", "hand", "arg"]
    cases = []
    corpus = [("est", "(1.5+-0.25)"), ("est", "(1.5+0.25)"), ("basis", "7"), ("basis", "lin"), ("vec3", "(1,2,3"), ("vecest", "((1+-0.5),(2+-0.25))"),
              ("basis", "1abc"), ("est", "-7+-"), ("est", "0.0625+- tail"), ("est", " +1024+-(4) tail"), ("est", "-3.75+-x"), ("vecest", "(1+-,2+-0.5)"), ("hand", "-1"), ("arg", "0"), ("vec3", "(1;2,3)"), ("est", ""), ("basis", ""), ("vec2c", "((1,2),(3,4))")]
    cases += corpus
    dist = {}
    while len(cases) < n:
        k = r.choice(kinds); s = gen_valid(r, k)
        tail = r.choice(["", "", " tail", " 5"])
        if r.random() < 0.45: s = mutate(r, s, k); tag = "malformed"
        else: tag = "valid"
        if '"' in s or "\n" in s: continue
        cases.append((k, s + tail)); dist[(k, tag)] = dist.get((k, tag), 0) + 1
    util = os.path.join(repo, "src/util")
    exe = os.path.join(bdir, "c19_parse")
    rc, out = sh(["g++", "-std=gnu++17", "-w", "-I" + bdir, "-I" + util, os.path.join(os.path.dirname(__file__), "c19", "parse.C"),
                  os.path.join(util, "Conventions.C"), os.path.join(util, "random.C"), "-o", exe], bdir)
    if rc != 0:
        return 0, [{"what": "parse harness does not compile", "detail": out[-800:]}], []
    open(os.path.join(bdir, "c19_cases.txt"), "w").write("".join("%s\t%s\n" % c for c in cases))
    rc, out = sh([exe, os.path.join(bdir, "c19_cases.txt")], bdir)
    impl = [l.split("\t") for l in out.split("\n") if l]
    # the model, inside Coq
    mism, samples = [], []
    shard = 300
    model = []
    for s0 in range(0, len(cases), shard):
        v = os.path.join(bdir, "C19_cases_%d.v" % s0)
        body = ["From Coq Require Import String Ascii List ZArith QArith.", "From Epsic Require Import TextIO.", "Import ListNotations.", "Set Printing Depth 100000.",
                "Definition qz (q : Q) : Z * Z := (Qnum q, Zpos (Qden q)).",
                "Definition qz2 (p : Q * Q) : list (Z * Z) := [qz (fst p); qz (snd p)].",
                "Definition run_vec n s := option_map (fun r => (map qz (fst r), snd r)) (parse_vec Q parse_num n s).",
                "Definition run_est s := option_map (fun r => (qz2 (fst r), snd r)) (parse_estimate s).",
                "Definition run_vecest s := option_map (fun r => (flat_map qz2 (fst r), snd r)) (parse_vec (Q * Q) parse_estimate 2 s).",
                "Definition run_vec2c s := option_map (fun r => (flat_map qz2 (fst r), snd r)) (parse_vec (Q * Q) parse_complex 2 s).",
                "Definition run_basis s := option_map (fun r => ([(match fst r with Some b => basis_code b | None => (-9)%Z end, 1%Z)], snd r)) (parse_basis s).",
                "Definition run_pm1 s := option_map (fun r => ([(fst r, 1%Z)], snd r)) (parse_pm1 s)."]
        for k, s in cases[s0:s0 + shard]:
            body.append("Eval vm_compute in (%s %s)." % (RUN[k], coq_string(s)))
        open(v, "w").write("\n".join(body) + "\n")
        rc, out = sh(["coqc", "-Q", coqlib, "Epsic", v], bdir)
        if rc != 0:
            return 0, [{"what": "model run failed", "detail": out[-800:]}], []
        model += [b for b in re.split(r"\n\s*= ", "\n" + out)[1:]]
    if len(model) != len(cases) or len(impl) != len(cases):
        return 0, [{"what": "result count mismatch", "model": len(model), "impl": len(impl), "cases": len(cases)}], []
    for (k, s), blk, im in zip(cases, model, impl):
        mv = parse_coq_value(blk)
        ok_impl = im[1] == "1"
        rec = {"kind": k, "text": s, "impl_ok": ok_impl, "model_ok": mv is not None}
        bad = None
        if ok_impl != (mv is not None):
            bad = "fail state differs"
        elif ok_impl:
            # the implementation holds binary64 values: each must be the correctly rounded image of the model's
            # exact rational (istream >> double rounds correctly; Estimate stores err*err and reports its square
            # root, which returns err exactly in radix 2 barring over/underflow)
            ivals = [float(x) for x in im[2].split(",") if x]
            nums, raw, rest = mv
            if ivals != [float(q) for q in nums]: bad = "value differs"
            if not bad and (im[3] if len(im) > 3 else "") != rest:
                bad = "stream position differs"
        elif k == "est" and im[2] != "7,3":
            bad = "failed Estimate extraction changed the destination"
        if bad:
            rec["why"] = bad; rec["impl"] = im[1:]; rec["model"] = " ".join(blk.split())[:200]
            mism.append(rec)
        elif len(samples) < 6 and (len(samples) % 2 == 0) == ok_impl:
            samples.append("%s %r -> %s" % (k, s, "ok " + im[2] if ok_impl else "fail"))
    note("C19 input distribution", sorted(dist.items()))
    samples.append("distribution: " + ", ".join("%s/%s=%d" % (k[0], k[1], v) for k, v in sorted(dist.items())))
    np, pm, ps = run_print(bdir, repo, coqlib, r, 300 if tier == "quick" else 3000, note)
    return len(cases) + np, mism + pm, samples + ps
