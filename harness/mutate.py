#!/usr/bin/env python3
"""Mutation sweep (a test of the checks, not a check): single-token mutants of the library sources that
still compile and pass the 18 unit tests are run through the quick checks of the properties anchored in
the mutated file.  Phase 1 (filter) works in a scratch worktree; phase 2 applies each surviving mutant to
/repo, runs the checks and reverts.  Usage: mutate.py filter <n> <seed> | mutate.py eval"""
import os, re, sys, random, subprocess, json
WT = "/tmp/wt_mut"; OUT = "/tmp/mut"
TARGETS = [("src/util/Jones.h", ["C16", "C20", "C04", "C19"]), ("src/util/Quaternion.h", ["C16", "C03", "C09", "C10"]), ("src/util/Pauli.h", ["C15", "C03", "C09", "C02"]),
           ("src/util/Estimate.h", ["C11", "C12", "C16", "C20", "C19"]), ("src/util/Matrix.h", ["C14", "C13", "C10"]), ("src/util/Vector.h", ["C16", "C20", "C11", "C19", "C13"]),
           ("src/util/Minkowski.h", ["C15", "C01"]), ("src/util/Jacobi.h", ["C10"]), ("src/util/Stokes.h", ["C18", "C16", "C11", "C02"]), ("src/util/Basis.h", ["C14", "C02"]),
           ("src/util/BoxMuller.C", ["C18"]), ("src/util/random.C", ["C18"]), ("src/util/Conventions.C", ["C19"]), ("src/util/Spinor.h", ["C16", "C01", "C02"]), ("src/util/Traits.h", ["C04", "C13"]),
           ("src/util/complex_math.h", ["C20"]), ("src/util/Dirac.C", ["C13"]), ("src/util/Pauli.C", ["C02"]),
           ("src/mode.cpp", ["C01"]), ("src/mode.h", ["C01", "C06"]), ("src/sample.cpp", ["C06"]), ("src/sample.h", ["C06", "C17"]), ("src/smoothed.h", ["C17", "C06"]), ("src/modulated.h", ["C08", "C07", "C06"]),
           ("src/covariant.cpp", ["C08"]), ("src/square_modulated_mode.cpp", ["C07"]), ("src/epsic.cpp", ["C17"]),
           ("src/superposed.cpp", ["C05"]), ("src/composite.cpp", ["C05"]), ("src/disjoint.cpp", ["C05"]), ("src/coherent.cpp", ["C05"])]
MAXLINE = {"src/epsic.cpp": 380}     # below: the simulation loop and its running statistics, which no property observes
OPS = [(r" \+ ", " - "), (r" - ", " + "), (r" \* ", " / "), (r" < ", " <= "), (r" <= ", " < "), (r" > ", " >= "), (r" >= ", " > "), (r" == ", " != "), (r" != ", " == "),
       (r"\+=", "-="), (r"-=", "+="), (r"\*=", "/="), (r"\b0\.5\b", "0.25"), (r"\b2\.0\b", "1.0"), (r"\b1\.0\b", "2.0"), (r"\[0\]", "[1]"), (r"\[1\]", "[0]"), (r"\[i\]\[j\]", "[j][i]"),
       (r"\bs1\b", "s2"), (r"\bs2\b", "s3"), (r"\bj01\b", "j10"), (r"\bj10\b", "j01"), (r"\.real\(\)", ".imag()"), (r"\bi<", "i<="), (r"\+\+", "--"), (r"\bconj\b", ""), (r"-1\.0", "1.0"), (r"\bsin\b", "cos")]

def sh(cmd, cwd=None, timeout=1800):
    p = subprocess.run(cmd, cwd=cwd, shell=isinstance(cmd, str), stdout=subprocess.PIPE, stderr=subprocess.STDOUT, text=True, timeout=timeout)
    return p.returncode, p.stdout

def candidates(path):
    src = open(os.path.join(WT, path)).read().split("\n"); c = []; incomment = False
    for ln, line in enumerate(src):
        st = line.strip()
        if "/*" in st and "*/" not in st: incomment = True
        if incomment:
            if "*/" in st: incomment = False
            continue
        if not st or st.startswith("//") or st.startswith("#") or st.startswith("*") or "cerr" in st or "throw" in st or "include" in st: continue
        code = line.split("//")[0]
        if ln + 1 > MAXLINE.get(path, 10**9): continue
        for oi, (pat, rep) in enumerate(OPS):
            for m in re.finditer(pat, code):
                c.append((ln, m.start(), m.end(), oi))
    return src, c

def main():
    mode = sys.argv[1]
    if mode == "filter":
        n, seed = int(sys.argv[2]), int(sys.argv[3]); r = random.Random(seed); kept = int(sys.argv[4]) if len(sys.argv) > 4 else 0; n += kept; tried = 0
        pool = []
        only = os.environ.get("VERIF_MUT_ONLY", "").split(",") if os.environ.get("VERIF_MUT_ONLY") else None
        for path, props in TARGETS:
            if only and not any(path.endswith(o) for o in only): continue
            src, c = candidates(path)
            for x in c: pool.append((path, props, x))
        r.shuffle(pool)
        for path, props, (ln, a, b, oi) in pool:
            if kept >= n: break
            tried += 1
            full = os.path.join(WT, path); orig = open(full).read(); lines = orig.split("\n")
            lines[ln] = lines[ln][:a] + OPS[oi][1] + lines[ln][b:]
            open(full, "w").write("\n".join(lines))
            rc, out = sh("timeout 200 make -j8 -C src check 2>&1 | grep -E '^# (PASS|FAIL|ERROR)|error:' | head -5", cwd=WT)
            sh("pkill -f '^\\./test_' || true")
            ok = "# PASS:  18" in out and "error:" not in out
            if ok:
                rc2, diff = sh(["git", "-C", WT, "diff", "--", path])
                name = "m%03d" % kept
                open(os.path.join(OUT, name + ".diff"), "w").write(diff)
                json.dump({"file": path, "props": props, "line": ln + 1, "op": OPS[oi][0] + " -> " + OPS[oi][1], "text": lines[ln].strip()[:160]}, open(os.path.join(OUT, name + ".json"), "w"))
                kept += 1; print("kept", name, path, ln + 1, OPS[oi], flush=True)
            open(full, "w").write(orig)
        print("tried", tried, "kept", kept)
    elif mode == "eval":
        import shutil, tempfile
        # the checks rewrite /verif/evidence on every run: keep the clean-tree records and put them back afterwards
        keep = tempfile.mkdtemp(prefix="evidence_keep_"); shutil.copytree("/verif/evidence", os.path.join(keep, "evidence"))
        res = []
        for f in sorted(os.listdir(OUT)):
            if not f.endswith(".diff") or (len(sys.argv) > 2 and f < sys.argv[2]): continue
            meta = json.load(open(os.path.join(OUT, f[:-5] + ".json")))
            rc, out = sh(["git", "-C", "/repo", "apply", os.path.join(OUT, f)])
            if rc != 0: print(f, "does not apply"); continue
            det = {}
            for pid in meta["props"]:
                rc, out = sh(["./check", pid], cwd="/verif", timeout=3600)
                det[pid] = ("VIOLATION" in out, "VIOLATION" in out and out.count("VIOLATION") == out.count("no-failing-input-found"))
                if det[pid][0]: break
            sh(["git", "-C", "/repo", "checkout", "--", "."])
            meta["detected"] = det; res.append(meta)
            print(f, meta["file"], meta["line"], meta["op"], "|", meta["text"][:80], "|", det, flush=True)
        json.dump(res, open(os.path.join(OUT, "results.json"), "w"), indent=1)
        shutil.rmtree("/verif/evidence"); shutil.copytree(os.path.join(keep, "evidence"), "/verif/evidence"); shutil.rmtree(keep)
main()
