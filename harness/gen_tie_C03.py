#!/usr/bin/env python3
"""Writes coq/props/Tie_C03.v (committed): LAW lemmas `quaternion-side image =
Jones-side result` for every operation, and TIE lemmas convert = phi."""
BQ = lambda p: " ".join("%s%d%s" % (p, i, c) for i in range(4) for c in "ri")
Q = lambda p: " ".join("%s%d" % (p, i) for i in range(4))
J = "j00r j00i j01r j01i j10r j10i j11r j11i"
args = {"BH": BQ, "BU": BQ, "QH": Q, "QU": Q}
def cpx(p, t):
    if t in ("BH", "BU"): return " ".join("(%s%dr, %s%di)" % (p, i, p, i) for i in range(4))
    return " ".join("(cofR %s%d)" % (p, i) for i in range(4))
phi = {"BH": "phiHc", "BU": "phiUc", "QH": "phiHc", "QU": "phiUc"}
laws = []  # name, args, half, hyps
for t in ("BH", "BU", "QH", "QU"):
    a, b = args[t]("a"), args[t]("b")
    laws += [("add_" + t, a + " " + b, 8, []), ("sub_" + t, a + " " + b, 8, []), ("neg_" + t, a, 8, []),
             ("det_" + t, a, 2, []), ("trace_" + t, a, 2, []), ("norm_" + t, a, 1, []),
             ("conj_" + t, a, 8, []), ("herm_" + t, a, 8, []),
             ("inv_" + t, a, 8, ["cnz (m2det (%s %s))" % (phi[t], cpx("a", t))] if t in ("BH", "BU") else
                                  (["a0 * a0 - a1 * a1 - a2 * a2 - a3 * a3 <> 0"] if t == "QH" else ["a0 * a0 + a1 * a1 + a2 * a2 + a3 * a3 <> 0"])),
             ("jones_times_" + t, J + " " + a, 8, [])]
laws += [("identity_QH", "", 8, []), ("identity_QU", "", 8, []),
         ("mul_BH", BQ("a") + " " + BQ("b"), 8, []), ("mul_BU", BQ("a") + " " + BQ("b"), 8, []), ("mul_QU", Q("a") + " " + Q("b"), 8, []),
         ("scale_BH", BQ("a") + " zr zi", 8, []), ("scale_BU", BQ("a") + " zr zi", 8, []),
         ("scale_QH", Q("a") + " r", 8, []), ("scale_QU", Q("a") + " r", 8, []),
         ("div_QU", Q("a") + " r", 8, ["r <> 0"]), ("div_BH", BQ("a") + " zr zi", 8, ["zr * zr + zi * zi <> 0"]),
         ("QH_times_jones", Q("a") + " " + J, 8, []), ("QU_times_jones", Q("a") + " " + J, 8, []),
         ("QH_times_QU", Q("a") + " " + Q("b"), 8, []), ("QU_times_QH", Q("a") + " " + Q("b"), 8, []),
         ("QH_times_QH", Q("a") + " " + Q("b"), 8, []), ("QH_times_BU", Q("a") + " " + BQ("b"), 8, []),
         ("roundtrip_jones_H", J, 8, []), ("roundtrip_jones_U", J, 8, []),
         ("roundtrip_BH", BQ("a"), 8, []), ("roundtrip_BU", BQ("a"), 8, [])]
out = ["""(* Tie_C03.v -- GENERATED ONCE by harness/gen_tie_C03.py and committed.
   LAW: for every operation the Jones image of the quaternion-side result (first
   half of the generated list) equals the same operation on the Jones images
   (second half), for all component values.  TIE: convert(q) is the spec map
   phiHc / phiUc of SpecJones. *)
From Coq Require Import Reals Lra List.
From Epsic Require Import Scalar SpecPauli SpecJones Gen_C03.
Import ListNotations.
Local Open Scope R_scope.

Definition halves_eq (n : nat) (l : list R) : Prop := firstn n l = skipn n l.

Ltac prep := intros; unfold cnz, phiHc, phiUc in *;
  repeat match goal with H : _ <> _ |- _ => progress spec_cbv_in H end.
Ltac nz_sq := repeat split;
  match goal with |- _ <> _ =>
    first [ assumption | lra | match goal with H : _ <> _ |- _ => solve [nz_from H] end
          | match goal with H : _ <> _ |- _ => let E := fresh "E" in intro E; apply H; nra end ] end.
Ltac solve_entry := first [ reflexivity | ring | field; nz_sq ].
Ltac law := prep; unfold halves_eq; autounfold with gen; ops_R; cbn [firstn skipn]; list_eq solve_entry.
Ltac tie := prep; autounfold with gen; ops_R; unfold sigma; spec_cbv; list_eq solve_entry.
"""]
for name, a, half, hyps in laws:
    h = "".join(" (H%d : %s)" % (i, hy) for i, hy in enumerate(hyps))
    out.append("Lemma law_%s %s%s :\n  halves_eq %d (%s (OO:=ROps) %s).\nProof. law. Qed.\n" % (name, a, h, half, name, a))
for t in ("BH", "BU", "QH", "QU"):
    out.append("Lemma tie_conv_%s %s :\n  conv_%s (OO:=ROps) %s = m2list (%s %s).\nProof. tie. Qed.\n" % (t, args[t]("a"), t, args[t]("a"), phi[t], cpx("a", t)))
for k in range(4):
    out.append("Lemma tie_unit_H%d : unit_H%d (OO:=ROps) = m2list (sigma %d).\nProof. tie. Qed.\n" % (k, k, k))
    out.append("Lemma tie_unit_U%d : unit_U%d (OO:=ROps) = m2list (%s).\nProof. tie. Qed.\n" % (k, k, "sigma 0" if k == 0 else "m2scale ci (sigma %d)" % k))
    out.append("Lemma tie_pauli_matrix%d : pauli_matrix%d (OO:=ROps) = m2list (sigma %d).\nProof. tie. Qed.\n" % (k, k, k))
out.append("Lemma tie_ci_complex zr zi : ci_complex (OO:=ROps) zr zi = clist (cmul ci (zr, zi)).\nProof. tie. Qed.\n")
out.append("Lemma tie_ci_real r : ci_real (OO:=ROps) r = clist (cmul ci (cofR r)).\nProof. tie. Qed.\n")
import os
open(os.path.join(os.path.dirname(os.path.abspath(__file__)), "..", "coq", "props", "Tie_C03.v"), "w").write("\n".join(out))
print(len(laws), "laws")
