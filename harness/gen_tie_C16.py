#!/usr/bin/env python3
"""Writes coq/props/Tie_C16.v: one LAW lemma per (type, operator, alias shape).
The statement list is fixed here (committed); the terms come from Gen_C16."""
V4 = "x0 x1 x2 x3"; M2 = "m00 m01 m10 m11"
J = "j00r j00i j01r j01i j10r j10i j11r j11i"; Q = "q0 q1 q2 q3"
BQ = "q0r q0i q1r q1i q2r q2i q3r q3i"
cases = []   # (name, args, half, hyps)
xs = V4.split(); ms = M2.split(); js = J.split(); qs = Q.split()
for k in range(4):
    cases.append(("vec4_mul_elem%d" % k, V4, 4, []))
    cases.append(("vec4_div_elem%d" % k, V4, 4, ["%s <> 0" % xs[k]]))
    cases.append(("stokes_div_elem%d" % k, V4, 4, ["%s <> 0" % xs[k]]))
    cases.append(("stokes_mul_elem%d" % k, V4, 4, []))
cases += [("vec4_add_self", V4, 4, []), ("vec4_sub_self", V4, 4, []),
          ("vec4_mul_distinct", V4 + " c", 4, []), ("vec4_div_distinct", V4 + " c", 4, ["c <> 0"]),
          ("stokes_fractional", V4, 4, ["x0 <> 0"])]
for k in range(4):
    cases.append(("mat2_mul_elem%d" % k, M2, 4, []))
    cases.append(("mat2_div_elem%d" % k, M2, 4, ["%s <> 0" % ms[k]]))
cases.append(("mat2_add_self", M2, 4, []))
cases += [("jones_mul_self", J, 8, []), ("jones_add_self", J, 8, []), ("jones_sub_self", J, 8, [])]
for k in range(4):
    cases.append(("jones_mul_celem%d" % k, J, 8, []))
    cases.append(("jones_div_celem%d" % k, J, 8, ["%s * %s + %s * %s <> 0" % (js[2*k], js[2*k], js[2*k+1], js[2*k+1])]))
cases.append(("jones_mul_distinct", J + " b00r b00i b01r b01i b10r b10i b11r b11i", 8, []))
for k in range(4):
    cases.append(("quat_mul_elem%d" % k, Q, 4, []))
    cases.append(("quat_div_elem%d" % k, Q, 4, ["%s <> 0" % qs[k]]))
cases += [("quat_addscalar_s0", Q, 4, []), ("quat_subscalar_s0", Q, 4, []), ("quat_mul_self_U", Q, 4, []),
          ("quat_add_self", Q, 4, []), ("quat_sub_self", Q, 4, []), ("biquat_mul_self_H", BQ, 8, [])]
cases += [("est_add_self", "ev es", 2, []), ("est_sub_self", "ev es", 2, []), ("est_mul_self", "ev es", 2, []),
          ("est_div_self", "ev es", 2, ["ev <> 0"]), ("meanest_add_self", "nv iv", 2, [])]
cases += [("spinor_add_self", "xr xi yr yi", 4, []), ("spinor_mul_own_x", "xr xi yr yi", 4, []),
          ("spinor_div_own_re", "xr xi yr yi", 4, ["xr <> 0"])]

out = ["""(* Tie_C16.v -- GENERATED ONCE by harness/gen_tie_C16.py and committed.
   LAW obligations of C16: for every (type, compound operator, alias shape) the
   components left in the destination by the real in-place operator (first half
   of the generated list) equal those of the binary operator applied to copies
   of the operands' original values (second half), for all values. *)
From Coq Require Import Reals Lra List.
From Epsic Require Import Scalar Gen_C16.
Import ListNotations.
Local Open Scope R_scope.

Definition halves_eq (n : nat) (l : list R) : Prop := firstn n l = skipn n l.

Ltac law := intros; unfold halves_eq; autounfold with gen; ops_R; cbn [firstn skipn];
  list_eq ltac:(first [ring | field; auto; try lra]).
"""]
for name, args, half, hyps in cases:
    h = "".join(" (H%d : %s)" % (i, hy) for i, hy in enumerate(hyps))
    out.append("Lemma law_%s %s%s :\n  halves_eq %d (%s (OO:=ROps) %s).\nProof. law. Qed.\n" % (name, args, h, half, name, args))
open(__file__.rsplit("/", 2)[0] + "/coq/props/Tie_C16.v", "w").write("\n".join(out))
print(len(cases), "cases")
