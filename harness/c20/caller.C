// C20 correspondence: caller of the non-finite detection library, compiled with the flag set under
// test.  Special values are materialised from their kind at run time through a volatile, because a
// -ffast-math caller may fold literals (e.g. -0.0 -> +0.0) before the library is ever called.
#include "Jones.h"
#include "Vector.h"
#include "Estimate.h"
#include "complex_math.h"
#include <cstdio>
#include <cstring>
#include <limits>
#include <cstdint>

enum Kind { QNAN, PINF, NINF, PZERO, NZERO, PDENORM, NDENORM, PMAX, NMAX, PONE, NONE_, NKINDS };
static const char* kname[] = { "qnan", "pinf", "ninf", "pzero", "nzero", "pdenorm", "ndenorm", "pmax", "nmax", "pone", "none" };

template<class T> static T make (int k)
{
  volatile T one = 1, zero = 0;
  T v;
  switch (k) {
    case QNAN: { volatile T q = std::numeric_limits<T>::quiet_NaN (); v = q; break; }
    case PINF: { volatile T q = std::numeric_limits<T>::infinity (); v = q; break; }
    case NINF: { volatile T q = std::numeric_limits<T>::infinity (); v = -q; break; }
    case PZERO: v = zero; break;
    case NZERO: { T z; std::memset (&z, 0, sizeof (T)); unsigned char* b = (unsigned char*) &z;
                  // sign bit of an all-zero pattern (little endian; x87 long double: bit 79)
                  int top = (sizeof (T) == 16) ? 9 : int (sizeof (T)) - 1; b[top] = 0x80; volatile T q = z; v = q; break; }
    case PDENORM: { volatile T q = std::numeric_limits<T>::denorm_min (); v = q; break; }
    case NDENORM: { volatile T q = std::numeric_limits<T>::denorm_min (); v = -q; break; }
    case PMAX: { volatile T q = std::numeric_limits<T>::max (); v = q; break; }
    case NMAX: { volatile T q = std::numeric_limits<T>::max (); v = -q; break; }
    case PONE: v = one; break;
    default: v = -one; break;
  }
  return v;
}

template<class T> static void run (const char* tname)
{
  for (int k=0; k<NKINDS; k++) {
    T x = make<T> (k);
    std::printf ("%s scalar 0 %s finite=%d signbit=%d\n", tname, kname[k], true_math::finite (x) ? 1 : 0, true_math::signbit (x) ? 1 : 0);
    for (int pos=0; pos<2; pos++) { T re = make<T> (PONE), im = make<T> (PONE); (pos ? im : re) = x;
      std::complex<T> z (re, im); std::printf ("%s complex %d %s finite=%d\n", tname, pos, kname[k], true_math::finite (z) ? 1 : 0); }
    for (int pos=0; pos<3; pos++) { Vector<3,T> v; for (int i=0; i<3; i++) v[i] = make<T> (PONE); v[pos] = x;
      std::printf ("%s vector %d %s finite=%d\n", tname, pos, kname[k], true_math::finite (v) ? 1 : 0); }
    for (int pos=0; pos<8; pos++) { T e[8]; for (int i=0; i<8; i++) e[i] = make<T> (PONE); e[pos] = x;
      Jones<T> j (std::complex<T> (e[0], e[1]), std::complex<T> (e[2], e[3]), std::complex<T> (e[4], e[5]), std::complex<T> (e[6], e[7]));
      std::printf ("%s jones %d %s finite=%d\n", tname, pos, kname[k], true_math::finite (j) ? 1 : 0); }
    { Estimate<T> a (x, make<T> (PONE)); std::printf ("%s estimate 0 %s finite=%d\n", tname, kname[k], finite (a) ? 1 : 0); }
    { Estimate<T> a (make<T> (PONE), x); std::printf ("%s estimate 1 %s finite=%d\n", tname, kname[k], finite (a) ? 1 : 0); }
  }
}

int main ()
{
  run<float> ("float"); run<double> ("double"); run<long double> ("longdouble");
  return 0;
}
