#!/usr/bin/env python3
"""Rewrites /verif/MANIFEST.json from harness/props.py (claimed = configured)."""
import json, os, sys
HERE = os.path.dirname(os.path.abspath(__file__)); VERIF = os.path.dirname(HERE)
sys.path.insert(0, HERE)
import props
plist = [json.loads(l) for l in open(os.path.join(VERIF, "properties.jsonl"))]
claimed = sorted(props.PROPS)
checks = []
for p in plist:
    pid = p["id"]
    if pid not in props.PROPS: continue
    cfg = props.PROPS[pid]
    checks.append({
        "property_id": pid,
        "quick_cmd": "./check %s --tier quick" % pid,
        "thorough_cmd": "./check %s --tier thorough" % pid,
        "evidence_file": "/verif/evidence/%s.json" % pid,
        "replay_cmd_template": "./check %s --replay {path}" % pid,
        "engine": "symx+coq",
        "level_claimed": {"category": "proof",
                          "text": cfg.get("level_text", "Coq theorems (all inputs, over the reals) about Gallina terms regenerated on every run from the current source by symbolic execution of the real C++ (symx)."),
                          "design_ref": "DESIGN.md section 0 (as built: 0.2, 0.3, 0.8) and section 4, " + pid},
        "level_note": cfg.get("level_note", "Trusted: Coq kernel; Reals axioms (sig_forall_dec, sig_not_dec, functional_extensionality_dep, classic); the symx translator (validated each run against the plain-double build and by PrimFloat re-evaluation); real-number semantics (rounding not modelled)."),
        "technique": cfg.get("technique", "machine-checked proof in Coq (ring/field/nra over Reals) of terms generated from the source"),
    })
src_commits = ["64b2d4c"]
m = {"version": 1, "setup_cmd": "./setup.sh",
     "hooks": {"guard": "EPSIC_VERIF",
               "enable": "-DEPSIC_VERIF on every compile line of the checks (they compile /repo/src sources themselves and never use in-tree objects)",
               "baseline_off_cmd": "make -C /repo/src check", "source_commits": src_commits, "add_only": True},
     "engines": [{"name": "symx+coq", "path": "/verif/check", "serves_properties": claimed,
                  "kind_free_text": "C++-to-Gallina translator by concolic execution (symx) + Coq 8.16 proofs; correspondence harnesses for the I/O-bound properties"}],
     "checks": checks,
     "not_applicable": [{"property_id": p["id"], "reason": props.NOT_YET.get(p["id"], "check not built yet (work in progress; DESIGN.md section 4 lists the planned obligations)")}
                        for p in plist if p["id"] not in props.PROPS],
     "notes": "See DESIGN.md. One entry point: ./check <id> [--tier quick|thorough] [--replay path]. Genuine defects repaired in /repo by fix: commits are listed in known_findings.json."}
json.dump(m, open(os.path.join(VERIF, "MANIFEST.json"), "w"), indent=1)
print("claimed:", claimed)
