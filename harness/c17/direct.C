// C17 correspondence: assembles a model directly from the library by executing the program emitted
// by the Coq model (Cli.build) and prints its theory in the simulator's own text format.
#include "mode.h"
#include "modulated.h"
#include "smoothed.h"
#include "sample.h"
#include "covariant.h"
#include <iostream>
#include <sstream>
#include <fstream>
#include <vector>
using namespace std;
using namespace epsic;

int main (int argc, char** argv)
{
  ifstream in (argv[1]); string line;
  vector<mode*> stack; vector<modulated_mode*> mods;   // mods[i]: the modulated form of stack[i], if any
  bivariate_lognormal_modes* coord = 0; combination* dual = 0; sample* smp = 0; unsigned nlag = 0;
  try {
    while (getline (in, line)) {
      istringstream is (line); string op; is >> op;
      if (op == "base") { double i, q, u, v; is >> i >> q >> u >> v; mode* m = new mode; m->set_Stokes (Stokes<double> (i, q, u, v)); stack.push_back (m); mods.push_back (0); }
      else if (op == "lognormal") { double b; is >> b; lognormal_mode* m = new lognormal_mode (stack.back (), b); stack.back () = m; mods.back () = m; }
      else if (op == "covariant") { unsigned idx; double b; is >> idx >> b; if (b) coord->set_beta (idx, b);
        modulated_mode* m = coord->get_modulated_mode (idx, stack.back ()); stack.back () = m; mods.back () = m; }
      else if (op == "boxcar") { unsigned w; is >> w; stack.back () = new boxcar_modulated_mode (mods.back (), w); }
      else if (op == "square") { unsigned w, n; is >> w >> n; stack.back () = new square_modulated_mode (mods.back (), w, n); }
      else if (op == "coordinator") { double rho; is >> rho; coord = new bivariate_lognormal_modes (rho); }
      else if (op == "single") { smp = new single (stack.at (0)); }
      else if (op == "superposed" || op == "composite" || op == "disjoint" || op == "coherent") {
        double f = 0; is >> f;
        if (op == "superposed") dual = new superposed; else if (op == "composite") dual = new composite (f);
        else if (op == "disjoint") dual = new disjoint (f); else dual = new coherent (f);
        // the combination owns two default modes; the simulator re-uses them as the base modes
        mode* a = dual->A; mode* b = dual->B; (void) a; (void) b;
        dual->A = stack.at (0); dual->B = stack.at (1); smp = dual; }
      else if (op == "intensitycov") { dual->set_intensity_covariance (coord->get_intensity_covariance ()); }
      else if (op == "samplesize") { unsigned n; is >> n; smp->sample_size = n; }
      else if (op == "lags") { is >> nlag; }
    }
    Vector<4,double> mean = smp->get_mean (); Matrix<4,4,double> cov = smp->get_covariance ();
    cout << "expected=" << mean << endl;
    cout << "expected=\n" << cov << endl;
    for (unsigned l=0; l<nlag; l++) cout << "expected=" << smp->get_crosscovariance (l) << endl;
  }
  catch (std::exception& e) { cout << "EXCEPTION " << e.what () << endl; return 3; }
  return 0;
}
