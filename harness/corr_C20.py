"""C20 correspondence: the finite model's verdicts (evaluated inside Coq by vm_compute) against the
real library (true_math.c + the header templates) called from code compiled under every flag set.
The space (special value kind x component position x container x scalar type x caller flags x
library flags) is finite and enumerated completely."""
import os, re, subprocess, itertools

CALLER_FLAGS = [["-O0"], ["-O2"], ["-O3", "-ffast-math"], ["-Ofast"]]
LIB_FLAGS = [[], ["-O2"], ["-O3", "-ffast-math"], ["-Ofast"]]     # [] = the repository's own CFLAGS (no optimisation flag)
KN = ["qnan", "pinf", "ninf", "pzero", "nzero", "pdenorm", "ndenorm", "pmax", "nmax", "pone", "none"]
ARITY = {"scalar": 1, "complex": 2, "vector": 3, "jones": 8}

def sh(cmd, cwd, timeout=600):
    p = subprocess.run(cmd, cwd=cwd, stdout=subprocess.PIPE, stderr=subprocess.STDOUT, timeout=timeout, text=True)
    return p.returncode, p.stdout

def coq_tables(bdir, coqlib):
    v = os.path.join(bdir, "C20_tables.v")
    open(v, "w").write("From Coq Require Import List.\nImport ListNotations.\nFrom Epsic Require Import FiniteModel.\nSet Printing Depth 1000000.\n"
                       "Eval vm_compute in expected_table.\nEval vm_compute in expected_scalar.\nEval vm_compute in expected_estimate.\n")
    rc, out = sh(["coqc", "-Q", coqlib, "Epsic", v], bdir)
    if rc != 0:
        raise RuntimeError(out)
    blocks = re.split(r"\n\s*:\s*list[^\n]*", out)
    def parse(b, arity=None):
        items = re.findall(r"\(([^()]+)\)", b)
        ts = [tuple(x.strip() for x in it.split(",")) for it in items]
        return [t for t in ts if all(re.fullmatch(r"\d+|true|false", x) for x in t)]
    return parse(blocks[0]), parse(blocks[1]), parse(blocks[2])

def run(pid, cfg, bdir, repo, coqlib, note):
    table, scalar, estimate = coq_tables(bdir, coqlib)
    exp = {}
    for n, pos, k, f in table:
        exp[(int(n), int(pos), KN[int(k)])] = (f == "true")
    exps = {KN[int(k)]: (f == "true", s == "true") for k, f, s in scalar}
    expe = {(int(p), KN[int(k)]): (f == "true") for p, k, f in estimate}
    util = os.path.join(repo, "src/util")
    cases, mism, samples = 0, [], []
    for li, lf in enumerate(LIB_FLAGS):
        lib = os.path.join(bdir, "true_math_%d.o" % li)
        rc, out = sh(["gcc", "-w"] + lf + ["-I" + util, "-c", os.path.join(util, "true_math.c"), "-o", lib], bdir)
        if rc != 0:
            return 0, [{"what": "true_math.c does not compile with %s" % lf, "detail": out[-500:]}], []
        for ci, cf in enumerate(CALLER_FLAGS):
            exe = os.path.join(bdir, "caller_%d_%d" % (li, ci))
            rc, out = sh(["g++", "-std=gnu++17", "-w"] + cf + ["-I" + bdir, "-I" + util, os.path.join(os.path.dirname(__file__), "c20", "caller.C"), lib, "-o", exe], bdir)
            if rc != 0:
                return 0, [{"what": "caller does not compile with %s" % cf, "detail": out[-800:]}], []
            rc, out = sh([exe], bdir)
            for line in out.splitlines():
                f = line.split()
                if len(f) < 5: continue
                ty, cont, pos, kind = f[0], f[1], int(f[2]), f[3]
                got = dict(x.split("=") for x in f[4:])
                cases += 1
                if cont == "estimate":
                    want = {"finite": expe[(pos, kind)]}
                elif cont == "scalar":
                    want = {"finite": exps[kind][0], "signbit": exps[kind][1]}
                else:
                    want = {"finite": exp[(ARITY[cont], pos, kind)]}
                for key, w in want.items():
                    if (got.get(key) == "1") != w:
                        mism.append({"scalar_type": ty, "container": cont, "position": pos, "special_value": kind, "predicate": key,
                                     "library_flags": lf or ["(repository default)"], "caller_flags": cf, "got": got.get(key), "expected": int(w)})
                if len(samples) < 6 and kind in ("nzero", "qnan") and cont in ("jones", "scalar"):
                    samples.append(line + "   [lib %s, caller %s]" % (" ".join(lf) or "default", " ".join(cf)))
    return cases, mism, samples
