#!/usr/bin/env python3
"""Writes coq/props/Tie_C08_pairing.v (+ _thorough): for every request word of
the two consumers, the values delivered by the real covariant_mode /
covariant_coordinator classes are those of the Queues model."""
import os, itertools
OUT = os.path.join(os.path.dirname(os.path.abspath(__file__)), "..", "coq", "props")
HDR = """(* %s -- GENERATED ONCE by harness/gen_tie_C08.py and committed.
   Exhaustive over request words of the stated lengths: the factors delivered by
   the real classes, in request order, and the number of joint draws made, are
   those of the Queues model run on the same word with symbolic draws (a_k, b_k). *)
From Coq Require Import Reals List ZArith.
From Epsic Require Import Scalar Queues Gen_C08.
Import ListNotations.

Ltac pairing := intros; autounfold with gen; ops_R; cbn [nth firstn]; split; [ reflexivity | apply f_equal; reflexivity ].
"""
def lemmas(lengths):
    b = []
    for L in lengths:
        for w in range(1 << L):
            word = "".join("B" if (w >> i) & 1 else "A" for i in range(L))
            args = " ".join("a%d b%d" % (i, i) for i in range(L))
            dr = "; ".join("(a%d, b%d)" % (i, i) for i in range(L))
            reqs = "; ".join("ReqA" if c == "A" else "ReqB" for c in word)
            b.append("Lemma tie_pair_w%s %s :\n  let draws := fun k => nth k [%s] (a0, b0) in\n  firstn %d (pair_w%s (OO:=ROps) %s) = deliveries draws st0 [%s] /\\\n  nth %d (pair_w%s (OO:=ROps) %s) 0%%R = IZR (Z.of_nat (drawn (run draws [%s]))).\nProof. pairing. Qed.\n" % (word, args, dr, L, word, args, reqs, L, word, args, reqs))
    return b
open(os.path.join(OUT, "Tie_C08_pairing.v"), "w").write(HDR % "Tie_C08_pairing.v" + "\n" + "\n".join(lemmas(range(1, 7))))
open(os.path.join(OUT, "Tie_C08_pairing_thorough.v"), "w").write(HDR % "Tie_C08_pairing_thorough.v" + "\n" + "\n".join(lemmas(range(7, 9))))
print("ok")
