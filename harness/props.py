# per-property configuration of ./check (drivers, Coq files, trusted base)

COMMON_TRUSTED = [
    "Coq 8.16.1 kernel + vm_compute (no native_compute, no extraction)",
    "symx translator: g++ 12 instantiating the unmodified sources at the concolic scalar Sym "
    "(sym.h, emit.h, sympre.h `#define double Sym`), validated on every run against the plain-double "
    "build of the same driver and by PrimFloat re-evaluation of the generated terms inside Coq",
    "libstdc++ std::complex<T> generic arithmetic = textbook formulas",
    "theorems are over the real numbers (Coq Reals); rounding is not modelled",
]

REALS_AXIOMS = ["ClassicalDedekindReals.sig_forall_dec", "ClassicalDedekindReals.sig_not_dec",
                "FunctionalExtensionality.functional_extensionality_dep"]

PROPS = {
    "C03": {
        "drivers": [{"src": "drv_C03.C", "repo_sources": ["util/Pauli.C"]}],
        "coq": ["Tie_C03.v", "Properties_C03.v"],
        "thm_files": ["SpecJones.v"],
        "assumptions": ["inverse requires det <> 0; scalar division requires a non-zero divisor",
                        "mixed operator Quaternion<complex<T>,B> * Jones<U> does not instantiate in the library (declared to return Jones<complex<..>>); the combinations that compile are covered",
                        "biquaternion identity() is initialised from int literals and cannot be instantiated at the symbolic scalar; checked by a plain-build oracle"],
        "trusted_base": [],
    },
    "C04": {
        "drivers": [{"src": "drv_C04.C", "repo_sources": ["util/Pauli.C"]}],
        "coq": ["Tie_C04.v", "Properties_C04.v"],
        "thm_files": ["SpecJones.v"],
        "assumptions": ["division by a complex scalar z requires z <> 0, inverse requires det <> 0",
                        "mixed precision: the promoted type is fixed by static_asserts in the driver; single-precision stores are the identity over R",
                        "Jones::identity() cannot be instantiated at the symbolic scalar (int -> complex needs two user conversions); covered by the scalar constructor tie and a plain-build oracle"],
        "trusted_base": [],
    },
    "C16": {
        "drivers": [{"src": "drv_C16.C", "repo_sources": ["util/Pauli.C"]}],
        "coq": ["Tie_C16.v", "Properties_C16.v"],
        "thm_files": [],
        "assumptions": ["alias shapes enumerated: distinct copy, the object itself, each element/component of the destination",
                        "divisors non-zero"],
        "trusted_base": [],
    },
    "C15": {
        "drivers": [{"src": "drv_C15.C", "repo_sources": ["util/Pauli.C"]}],
        "coq": ["Tie_C15.v", "Tie_C15_tr0.v", "Tie_C15_tr1.v", "Tie_C15_tr2.v", "Tie_C15_tr3.v", "Properties_C15.v"],
        "thm_files": ["SpecPauli.v"],
        "assumptions": ["default (linear) Pauli basis, as constructed by Pauli::basis()"],
        "trusted_base": [],
    },
}
NOT_YET = {}
