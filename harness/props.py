# per-property configuration of ./check (drivers, Coq files, trusted base)

COMMON_TRUSTED = [
    "Coq 8.16.1 kernel + vm_compute (no native_compute, no extraction)",
    "symx translator: g++ 12 instantiating the unmodified sources at the concolic scalar Sym "
    "(sym.h, emit.h, sympre.h `#define double Sym`), validated on every run against the plain-double "
    "build of the same driver and by PrimFloat re-evaluation of the generated terms inside Coq",
    "libstdc++ std::complex<T> generic arithmetic = textbook formulas",
    "theorems are over the real numbers (Coq Reals); rounding is not modelled",
]

REALS_AXIOMS = ["ClassicalDedekindReals.sig_forall_dec", "ClassicalDedekindReals.sig_not_dec",
                "FunctionalExtensionality.functional_extensionality_dep"]

PROPS = {
    "C07": {
        "drivers": [{"src": "drv_C07.C", "repo_sources": ["mode.cpp", "sample.cpp", "square_modulated_mode.cpp", "util/Pauli.C"]}],
        "coq": ["Tie_C07.v", "Properties_C07.v"],
        "thm_files": ["FilterModels.v", "LogNormal.v", "SampleModel.v"],
        "assumptions": ["log-normal clauses: for every expectation functional with the Gaussian mgf (hypothesis of the closed theorem)",
                        "boxcar and sample-and-hold: all widths and call indices by induction on the models; the real classes are tied at widths 1..5 / 1..4 over 13 calls",
                        "modulation factor m >= 0 for the Stokes scaling law",
                        "rectangular impulses: the reported lag statistics are REFUTED off (and on) alignment -- known finding"],
        "trusted_base": [],
        "level_note": "Trusted: Coq kernel; Reals axioms; symx translator; Gaussian mgf as a hypothesis. The rectangular model's lag statistics are refuted (known findings), everything else is proved.",
    },
    "C08": {
        "drivers": [{"src": "drv_C08.C", "repo_sources": ["covariant.cpp", "mode.cpp", "util/Pauli.C"]}],
        "coq": ["Tie_C08_pairing.v", "Tie_C08_stats.v", "Properties_C08.v"],
        "coq_thorough": ["Tie_C08_pairing_thorough.v"],
        "thm_files": ["Queues.v", "LogNormal.v"],
        "assumptions": ["statistics: for every expectation functional E2 over two independent deviates that is extensional and has the Gaussian moment generating function E2[exp(a x + b y + c)] = exp(c + a^2/2 + b^2/2) (Section hypotheses, no axiom)",
                        "modulation indices non-zero; requests inside [rmin, rmax] (outside they are rejected: proved on every path)",
                        "pairing: all interleavings by induction on the model; the real classes are run on every request word of length <= 6 (quick) / <= 8 (thorough)",
                        "finiteness at the very edge of the admissible range is a floating-point clause: checked by a plain-build oracle over a (beta0, beta1) grid, not proved"],
        "trusted_base": [],
        "level_note": "Trusted: Coq kernel; Reals axioms; symx translator. The Gaussian mgf enters as a hypothesis of the closed theorems (named in evidence). Partial: finiteness at the edge of the admissible range in binary64 is explored by an oracle only.",
    },
    "C18": {
        "drivers": [{"src": "drv_C18a.C", "tag": "C18a", "repo_sources": ["util/BoxMuller.C", "util/random.C"], "cxxflags": ["-DSYMX_SCRIPT_RANDOM"]},
                    {"src": "drv_C18b.C", "tag": "C18b", "repo_sources": []}],
        "coq": ["Tie_C18a.v", "Tie_C18b.v", "Properties_C18.v"],
        "thm_files": ["BoxMullerModel.v"],
        "assumptions": ["drand48() and random() deliver the uniform variables of the scripted stream (link-time substitution through the preamble's #define)",
                        "'independent standard normal' follows from the classical theorem on the polar method for i.i.d. uniforms: cited, not proved",
                        "float arithmetic of BoxMuller.C is the identity over R (rnd32 nodes)"],
        "trusted_base": [],
    },
    "C12": {
        "drivers": [{"src": "drv_C12.C", "repo_sources": []}],
        "coq": ["Tie_C12.v", "Properties_C12.v"],
        "thm_files": ["Accum.v"],
        "assumptions": ["order/grouping independence is proved over the reals; the floating-point discrepancy between orders is not bounded here",
                        "zero-variance entries carry no weight by convention (as the property states)"],
        "trusted_base": [],
        "level_note": "Trusted: Coq kernel; Reals axioms; symx translator (validated each run). Partial: the rounding-aware comparison of different insertion orders is not proved (reals only). One clause is REFUTED and listed as a known finding: the circular mean at multiples of pi/2.",
    },
    "C06": {
        "drivers": [{"src": "drv_C06.C", "repo_sources": ["mode.cpp", "sample.cpp", "square_modulated_mode.cpp", "util/Pauli.C"]}],
        "coq": ["Tie_C06.v", "Properties_C06.v"],
        "coq_thorough": ["Tie_C06_thorough.v"],
        "thm_files": ["SampleModel.v"],
        "assumptions": ["pattern G: the loops of sample::get_covariance/get_crosscovariance are tied to the all-n formulas at n = 1..6 (quick) / 1..10 (thorough), sample lags 0..3; uniformity of the loop in n between grid points is read off the source",
                        "sample_size*sample_size is computed in unsigned arithmetic; the model is stated for n < 65536 (no wrap)",
                        "stub mode with arbitrary symbolic stationary sequence c, x_l times a fixed pattern matrix (the matrix operations are entrywise)"],
        "trusted_base": [],
    },
    "C14": {
        "drivers": [{"src": "drv_C14.C", "repo_sources": []}],
        "coq": ["Tie_C14.v", "Properties_C14.v"],
        "thm_files": [],
        "assumptions": ["unit axis: v0^2+v1^2+v2^2 = 1 (orthogonality, determinant, fixed axis, additivity); Rodrigues' formula holds for every axis",
                        "sin/cos abstracted to (s,c) with s*s = 1 - c*c; sin_plus/cos_plus for the angle sum; the literal 0.25*M_PI is read as PI/4",
                        "basis histories enumerated exhaustively to length 3 with symbolic angles"],
        "trusted_base": ["the C constant M_PI (and 2*M_PI, M_PI/2, M_PI/4) is interpreted as the real number PI (resp. 2PI, PI/2, PI/4)"],
    },
    "C02": {
        "drivers": [{"src": "drv_C02.C", "repo_sources": ["util/Pauli.C"]}],
        "coq": ["Tie_C02_basic.v", "Tie_C02_xform.v", "Tie_C02_cplx.v", "Tie_C02_basis.v", "Tie_C02_mueller_spec.v"]
               + ["Tie_C02_mu_%s%d.v" % (b, r) for b in ("lin", "circ") for r in range(4)] + ["Properties_C02.v"],
        "thm_files": ["SpecJones.v"],
        "assumptions": ["elliptical bases: cos/sin of the symbolic angles abstracted to (c,s) with s*s = 1 - c*c (sin2_cos2)",
                        "Mueller composition/derivative and transform=Mueller.S proved for the linear and circular bases (as the property states); elliptical bases: round trips, trace/det, orthonormality and histories",
                        "basis histories enumerated exhaustively to length 3 over {Linear, Circular, Elliptical(o,e)} with symbolic angles; each call overwrites the whole state"],
        "trusted_base": [],
        "coq_timeout": {"quick": 1500, "thorough": 3000},
    },
    "C03": {
        "drivers": [{"src": "drv_C03.C", "repo_sources": ["util/Pauli.C"]}],
        "coq": ["Tie_C03.v", "Properties_C03.v"],
        "thm_files": ["SpecJones.v"],
        "assumptions": ["inverse requires det <> 0; scalar division requires a non-zero divisor",
                        "mixed operator Quaternion<complex<T>,B> * Jones<U> does not instantiate in the library (declared to return Jones<complex<..>>); the combinations that compile are covered",
                        "biquaternion identity() is initialised from int literals and cannot be instantiated at the symbolic scalar; checked by a plain-build oracle"],
        "trusted_base": [],
    },
    "C04": {
        "drivers": [{"src": "drv_C04.C", "repo_sources": ["util/Pauli.C"]}],
        "coq": ["Tie_C04.v", "Properties_C04.v"],
        "thm_files": ["SpecJones.v"],
        "assumptions": ["division by a complex scalar z requires z <> 0, inverse requires det <> 0",
                        "mixed precision: the promoted type is fixed by static_asserts in the driver; single-precision stores are the identity over R",
                        "Jones::identity() cannot be instantiated at the symbolic scalar (int -> complex needs two user conversions); covered by the scalar constructor tie and a plain-build oracle"],
        "trusted_base": [],
    },
    "C16": {
        "drivers": [{"src": "drv_C16.C", "repo_sources": ["util/Pauli.C"]}],
        "coq": ["Tie_C16.v", "Properties_C16.v"],
        "thm_files": [],
        "assumptions": ["alias shapes enumerated: distinct copy, the object itself, each element/component of the destination",
                        "divisors non-zero"],
        "trusted_base": [],
    },
    "C15": {
        "drivers": [{"src": "drv_C15.C", "repo_sources": ["util/Pauli.C"]}],
        "coq": ["Tie_C15.v", "Tie_C15_tr0.v", "Tie_C15_tr1.v", "Tie_C15_tr2.v", "Tie_C15_tr3.v", "Properties_C15.v"],
        "thm_files": ["SpecPauli.v"],
        "assumptions": ["default (linear) Pauli basis, as constructed by Pauli::basis()"],
        "trusted_base": [],
    },
}
NOT_YET = {}
