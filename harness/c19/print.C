// C19 correspondence, output side: runs the real insertion operators on each line
// "kind<TAB>precision<TAB>n1,n2,..." and prints: kind <TAB> composite text <TAB> the scalars printed
// alone at the same precision, separated by '|' <TAB> 1 if the text, read back with the real extraction
// operator, gives bitwise the same values (for estimates: value and standard error) and a good stream
#include "Vector.h"
#include "Stokes.h"
#include "Estimate.h"
#include "Conventions.h"
#include <sstream>
#include <fstream>
#include <iostream>
#include <iomanip>
#include <cstdlib>
#include <cstring>
#include <vector>
using namespace std;

static string one (double x, int prec) { ostringstream os; os << setprecision (prec) << x; return os.str (); }
static bool same (double a, double b) { return memcmp (&a, &b, sizeof (double)) == 0 || (a == 0 && b == 0); }
template<class V> static string text (const V& v, int prec) { ostringstream os; os << setprecision (prec) << v; return os.str (); }

int main (int argc, char** argv)
{
  ifstream in (argv[1]); string line;
  while (getline (in, line)) {
    size_t t1 = line.find ('\t'), t2 = line.find ('\t', t1 + 1); if (t1 == string::npos || t2 == string::npos) continue;
    string kind = line.substr (0, t1); int prec = atoi (line.substr (t1 + 1, t2 - t1 - 1).c_str ());
    vector<double> x; { string rest = line.substr (t2 + 1); size_t p = 0; while (p < rest.size ()) { size_t q = rest.find (',', p); if (q == string::npos) q = rest.size (); x.push_back (strtod (rest.substr (p, q - p).c_str (), 0)); p = q + 1; } }
    string comp; bool back = false; vector<double> shown = x;
    if (kind == "vec2" && x.size () == 2) { Vector<2,double> v (x[0], x[1]), w (7, 7); comp = text (v, prec); istringstream is (comp); is >> w; back = !is.fail () && same (v[0], w[0]) && same (v[1], w[1]); }
    else if (kind == "vec3" && x.size () == 3) { Vector<3,double> v (x[0], x[1], x[2]), w (7, 7, 7); comp = text (v, prec); istringstream is (comp); is >> w; back = !is.fail (); for (unsigned i=0; i<3; i++) back = back && same (v[i], w[i]); }
    else if (kind == "vec4" && x.size () == 4) { Vector<4,double> v (x[0], x[1], x[2], x[3]), w (7, 7, 7, 7); comp = text (v, prec); istringstream is (comp); is >> w; back = !is.fail (); for (unsigned i=0; i<4; i++) back = back && same (v[i], w[i]); }
    else if (kind == "stokes" && x.size () == 4) { Stokes<double> v (x[0], x[1], x[2], x[3]), w (7, 7, 7, 7); comp = text (v, prec); istringstream is (comp); is >> w; back = !is.fail (); for (unsigned i=0; i<4; i++) back = back && same (v[i], w[i]); }
    else if (kind == "est" && x.size () == 2) { Estimate<double> v (x[0], x[1] * x[1]), w (7, 9); comp = text (v, prec); istringstream is (comp); is >> w; shown[1] = sqrt (v.var);
      back = !is.fail () && same (v.val, w.val) && same (sqrt (v.var), sqrt (w.var)); }
    else if (kind == "vecest" && x.size () == 4) { Vector<2,Estimate<double> > v, w; v[0] = Estimate<double> (x[0], x[1] * x[1]); v[1] = Estimate<double> (x[2], x[3] * x[3]); w[0] = w[1] = Estimate<double> (7, 9);
      comp = text (v, prec); istringstream is (comp); is >> w; shown[1] = sqrt (v[0].var); shown[3] = sqrt (v[1].var);
      back = !is.fail (); for (unsigned i=0; i<2; i++) back = back && same (v[i].val, w[i].val) && same (sqrt (v[i].var), sqrt (w[i].var)); }
    else if (kind == "vecest3" && x.size () == 6) { Vector<3,Estimate<double> > v, w; for (unsigned i=0; i<3; i++) { v[i] = Estimate<double> (x[2*i], x[2*i+1] * x[2*i+1]); w[i] = Estimate<double> (7, 9); shown[2*i+1] = sqrt (v[i].var); }
      comp = text (v, prec); istringstream is (comp); is >> w;
      back = !is.fail (); for (unsigned i=0; i<3; i++) back = back && same (v[i].val, w[i].val) && same (sqrt (v[i].var), sqrt (w[i].var)); }
    else if (kind == "vec2c" && x.size () == 4) { Vector<2,complex<double> > v, w; v[0] = complex<double> (x[0], x[1]); v[1] = complex<double> (x[2], x[3]); comp = text (v, prec); istringstream is (comp); is >> w;
      back = !is.fail (); for (unsigned i=0; i<2; i++) back = back && same (v[i].real (), w[i].real ()) && same (v[i].imag (), w[i].imag ()); }
    else if (kind == "basis" && x.size () == 1) { Signal::Basis v = Signal::Basis (int (x[0])), w = Signal::Basis ((int (x[0]) + 1) % 3); comp = text (v, prec); istringstream is (comp); is >> w; back = !is.fail () && v == w; shown.clear (); }
    else if (kind == "hand" && x.size () == 1) { Signal::Hand v = Signal::Hand (int (x[0])), w = Signal::Hand (-int (x[0])); comp = text (v, prec); istringstream is (comp); is >> w; back = !is.fail () && v == w; shown.clear (); }
    else if (kind == "arg" && x.size () == 1) { Signal::Argument v = Signal::Argument (int (x[0])), w = Signal::Argument (-int (x[0])); comp = text (v, prec); istringstream is (comp); is >> w; back = !is.fail () && v == w; shown.clear (); }
    else continue;
    cout << kind << "\t" << comp << "\t";
    for (size_t i=0; i<shown.size (); i++) cout << (i ? "|" : "") << one (shown[i], prec);
    cout << "\t" << (back ? 1 : 0) << "\n";
  }
  return 0;
}
