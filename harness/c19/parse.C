// C19 correspondence: runs the real extraction operators on each line "kind<TAB>text" of the input
// file and prints: kind <TAB> ok <TAB> values (%.17g, comma separated) <TAB> rest-of-stream
#include "Vector.h"
#include "Stokes.h"
#include "Estimate.h"
#include "Conventions.h"
#include <sstream>
#include <fstream>
#include <iostream>
#include <cstdio>
using namespace std;

static string rest_of (istringstream& is, const string& text)
{
  if (is.fail ()) return "";
  if (is.eof ()) { is.clear (); }
  streampos p = is.tellg ();
  if (p < 0) return "";
  return text.substr (size_t (p));
}
static string num (double x) { char b[64]; snprintf (b, 64, "%.17g", x); return b; }

int main (int argc, char** argv)
{
  ifstream in (argv[1]); string line;
  while (getline (in, line)) {
    size_t t = line.find ('\t'); if (t == string::npos) continue;
    string kind = line.substr (0, t), text = line.substr (t + 1);
    istringstream is (text); string vals;
    if (kind == "vec3") { Vector<3,double> v (7, 7, 7); is >> v; vals = num (v[0]) + "," + num (v[1]) + "," + num (v[2]); }
    else if (kind == "stokes") { Stokes<double> v (7, 7, 7, 7); is >> v; vals = num (v[0]) + "," + num (v[1]) + "," + num (v[2]) + "," + num (v[3]); }
    else if (kind == "est") { Estimate<double> e (7, 9); is >> e; vals = num (e.val) + "," + num (sqrt (e.var)); }
    else if (kind == "vecest") { Vector<2,Estimate<double> > v; v[0] = Estimate<double> (7, 9); v[1] = Estimate<double> (7, 9); is >> v;
      vals = num (v[0].val) + "," + num (sqrt (v[0].var)) + "," + num (v[1].val) + "," + num (sqrt (v[1].var)); }
    else if (kind == "vec2c") { Vector<2,complex<double> > v; is >> v; vals = num (v[0].real ()) + "," + num (v[0].imag ()) + "," + num (v[1].real ()) + "," + num (v[1].imag ()); }
    else if (kind == "basis") { Signal::Basis b = Signal::Elliptical; is >> b; vals = num (int (b)); }
    else if (kind == "hand") { Signal::Hand h = Signal::Right; is >> h; vals = num (int (h)); }
    else if (kind == "arg") { Signal::Argument a = Signal::Conventional; is >> a; vals = num (int (a)); }
    else continue;
    bool ok = !is.fail ();
    cout << kind << "\t" << (ok ? 1 : 0) << "\t" << vals << "\t" << rest_of (is, text) << "\n";
  }
  return 0;
}
