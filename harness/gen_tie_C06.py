#!/usr/bin/env python3
"""Writes coq/props/Tie_C06.v and Tie_C06_thorough.v (committed)."""
import os
OUT = os.path.join(os.path.dirname(os.path.abspath(__file__)), "..", "coq", "props")
HDR = """(* %s -- GENERATED ONCE by harness/gen_tie_C06.py and committed.
   Pattern G ties: the unrolled code of sample::get_covariance /
   get_crosscovariance at concrete sample sizes n and lags L, run on a stub mode
   with symbolic per-instance statistics c, x0, x1, ..., equals the spec formulas
   of SampleModel at that (n, L), entry by entry. *)
From Coq Require Import Reals Lra List.
From Epsic Require Import Scalar SampleModel Gen_C06.
Import ListNotations.
Local Open Scope R_scope.

Definition pat (i j : nat) : R := 1 + 4 * INR i + INR j.
Definition seqf (l : list R) : nat -> R := fun k => nth k l 0.
Definition grid16 {T} (f : nat -> nat -> T) : list T :=
  flat_map (fun i => map (fun j => f i j) [0;1;2;3]%%nat) [0;1;2;3]%%nat.
Definition halves_eq (n : nat) (l : list R) : Prop := firstn n l = skipn n l.

Ltac tie := intros; autounfold with gen; ops_R;
  unfold grid16, pat, seqf, cov_formula, xcov_formula, brute;
  cbv beta iota delta [sumf absdiff nth Nat.leb Nat.sub Nat.add Nat.mul INR flat_map map app];
  list_eq ltac:(first [field | ring]).
Ltac law := intros; unfold halves_eq; autounfold with gen; ops_R; cbn [firstn skipn]; list_eq ltac:(first [ring | field]).
"""
def xs(k): return " ".join("x%d" % i for i in range(k + 1))
def xl(k): return "; ".join("x%d" % i for i in range(k + 1))
def ties(ns):
    b = []
    for n in ns:
        b.append("Lemma tie_cov_n%d c %s :\n  cov_n%d (OO:=ROps) c %s = grid16 (fun i j => pat i j * cov_formula c (seqf [%s]) %d).\nProof. tie. Qed.\n" % (n, xs(n), n, xs(n), xl(n), n))
        for L in range(4):
            k = L * n + n
            b.append("Lemma tie_xcov_n%d_L%d c %s :\n  xcov_n%d_L%d (OO:=ROps) c %s = grid16 (fun i j => pat i j * xcov_formula (seqf [%s]) %d %d).\nProof. tie. Qed.\n" % (n, L, xs(k), n, L, xs(k), xl(k), n, L))
    return b
b = ties(range(1, 7))
for n in range(1, 5):
    e = " ".join("ex%dr ex%di ey%dr ey%di" % (k, k, k, k) for k in range(n + 2))
    b.append("Lemma law_stokes_n%d %s mu0 mu1 mu2 mu3 :\n  hd 0 (stokes_n%d (OO:=ROps) %s mu0 mu1 mu2 mu3) = %d /\\ halves_eq 8 (tl (stokes_n%d (OO:=ROps) %s mu0 mu1 mu2 mu3)).\nProof. split; [ autounfold with gen; ops_R; reflexivity | intros; unfold halves_eq; autounfold with gen; ops_R; cbn [tl firstn skipn]; list_eq ltac:(first [field | ring]) ]. Qed.\n" % (n, e, n, e, n, n, e))
b.append("""(* lag zero: the per-instance cross-covariance at lag 0 is the covariance, for every mode type *)
Definition lag0_ok (l : list R) : Prop := firstn 16 l = firstn 16 (skipn 16 l).
Ltac lag0 := intros; unfold lag0_ok; autounfold with gen; ops_R; cbn [firstn skipn]; list_eq ltac:(first [ring | field]).
Lemma law_lag0_mode s0 s1 s2 s3 : lag0_ok (lag0_mode (OO:=ROps) s0 s1 s2 s3) /\\ skipn 32 (lag0_mode (OO:=ROps) s0 s1 s2 s3) = repeat 0 16.
Proof. split; [ lag0 | autounfold with gen; ops_R; cbn [skipn repeat]; list_eq ltac:(ring) ]. Qed.
Lemma law_lag0_lognormal s0 s1 s2 s3 beta : lag0_ok (lag0_lognormal (OO:=ROps) s0 s1 s2 s3 beta) /\\ skipn 32 (lag0_lognormal (OO:=ROps) s0 s1 s2 s3 beta) = repeat 0 16.
Proof. split; [ lag0 | autounfold with gen; ops_R; cbn [skipn repeat]; list_eq ltac:(ring) ]. Qed.
""")
for w in (1, 2, 3):
    b.append("Lemma law_lag0_boxcar_w%d s0 s1 s2 s3 beta : lag0_ok (lag0_boxcar_w%d (OO:=ROps) s0 s1 s2 s3 beta).\nProof. lag0. Qed.\n" % (w, w))
    b.append("Lemma law_lag0_square_w%d s0 s1 s2 s3 beta : lag0_ok (lag0_square_w%d (OO:=ROps) s0 s1 s2 s3 beta).\nProof. lag0. Qed.\n" % (w, w))
b.append("Lemma law_lag0_single c x0 x1 x2 x3 : lag0_ok (lag0_single (OO:=ROps) c x0 x1 x2 x3).\nProof. lag0. Qed.\n")
open(os.path.join(OUT, "Tie_C06.v"), "w").write(HDR % ("Tie_C06.v",) + "\n" + "\n".join(b))
open(os.path.join(OUT, "Tie_C06_thorough.v"), "w").write(HDR % ("Tie_C06_thorough.v",) + "\n" + "\n".join(ties(range(7, 11))))
print("ok")
