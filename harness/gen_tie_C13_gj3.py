#!/usr/bin/env python3
"""Writes coq/props/Tie_C13_gj3_s<k>.v (k = 0..5): Gauss-Jordan at N = 3, one lemma per pivot order.
The driver (symx/drv_C13.C, gj3_o<s><t>) steers the concolic run into each of the 36 orders in which full
pivoting can visit the rows and columns of a 3 x 3 matrix; each lemma says: on that path (all three pivots
non-zero), the generated inverse is a two-sided inverse.  Run once; the output is committed."""
import os
A = "a00 a01 a02 a10 a11 a12 a20 a21 a22"
out = os.path.join(os.path.dirname(os.path.abspath(__file__)), "..", "coq", "props")
for s in range(6):
    t = ["(* Tie_C13_gj3_s%d.v -- GENERATED ONCE by harness/gen_tie_C13_gj3.py and committed. *)" % s,
         "From Coq Require Import Reals Lra List.", "From Epsic Require Import Scalar SpecPauli Gen_C13 Tie_C13.",
         "Import ListNotations.", "Local Open Scope R_scope.", ""]
    for k in range(6):
        n = "gj3_o%d%d" % (s, k)
        t.append("Lemma tie_%s %s : %s_pc (OO:=ROps) %s -> gj3_ok (%s (OO:=ROps) %s).\nProof. gj3. Qed." % (n, A, n, A, n, A))
    open(os.path.join(out, "Tie_C13_gj3_s%d.v" % s), "w").write("\n".join(t) + "\n")
