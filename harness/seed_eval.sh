#!/bin/bash
# seed_eval.sh <seed-name> <property-id> : apply /verif/seeded/<seed-name>/patch.diff to /repo, run the
# property's quick check, undo the patch, and record whether the check raised a VIOLATION.
# The evidence file written by the run against the changed tree is kept beside the seed
# (evidence_with_change.json); /verif/evidence/<id>.json is restored to the clean-tree run.
name=$1; id=$2; d=/verif/seeded/$name
[ -f /verif/evidence/$id.json ] && cp /verif/evidence/$id.json /verif/evidence/.$id.clean
cd /repo && git apply $d/patch.diff || { echo "patch does not apply"; rm -f /verif/evidence/.$id.clean; exit 2; }
cd /verif && ./check $id > $d/check_output.txt 2>&1; rc=$?
git -C /repo checkout -- .
[ -f /verif/evidence/$id.json ] && mv /verif/evidence/$id.json $d/evidence_with_change.json
[ -f /verif/evidence/.$id.clean ] && mv /verif/evidence/.$id.clean /verif/evidence/$id.json
echo "[$name] check $id exit=$rc: $(grep -c VIOLATION $d/check_output.txt) VIOLATION line(s)"; grep VIOLATION $d/check_output.txt | head -3; tail -1 $d/check_output.txt
