#!/bin/bash
# seed_eval.sh <seed-name> <property-id> : apply /verif/seeded/<seed-name>/patch.diff to /repo, run the
# property's quick check, undo the patch, and record whether the check raised a VIOLATION.
name=$1; id=$2; d=/verif/seeded/$name
cd /repo && git apply $d/patch.diff || { echo "patch does not apply"; exit 2; }
cd /verif && ./check $id > $d/check_output.txt 2>&1; rc=$?
git -C /repo checkout -- .
echo "[$name] check $id exit=$rc: $(grep -c VIOLATION $d/check_output.txt) VIOLATION line(s)"; grep VIOLATION $d/check_output.txt | head -3; tail -1 $d/check_output.txt
