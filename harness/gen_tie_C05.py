#!/usr/bin/env python3
"""Writes coq/props/Tie_C05.v and Tie_C05_gen.v (run once; the output is committed)."""
import os
OUT = os.path.join(os.path.dirname(os.path.abspath(__file__)), "..", "coq", "props")
hdr = '''(* %s -- GENERATED ONCE by harness/gen_tie_C05.py and committed.
   %s *)
From Coq Require Import Reals Lra List.
From Epsic Require Import Scalar SpecPauli SampleModel DualModel Gen_C05.
Import ListNotations.
Local Open Scope R_scope.
'''
common = '''
Definition patA (i j : nat) : R := 1 + 4 * INR i + INR j.
Definition patB (i j : nat) : R := 2 + INR i + 3 * INR j.
Definition seqf (l : list R) : nat -> R := fun k => nth k l 0.
Definition grid4 {T} (f : nat -> T) : list T := map f [0;1;2;3]%nat.
Definition grid16 {T} (f : nat -> nat -> T) : list T :=
  flat_map (fun i => map (fun j => f i j) [0;1;2;3]%nat) [0;1;2;3]%nat.
Definition scaled (p : R) (X : nat -> R) : nat -> R := fun l => p * X l.

Ltac rmin := repeat match goal with |- context [Rmin ?a ?b] => unfold Rmin; destruct (Rle_dec a b) end.
Ltac tie := intros; autounfold with gen; ops_R;
  unfold grid4, grid16, patA, patB, seqf, scaled, sup_cov, comp_cov, comp_mean, part_cov, dis_cov, dis_xcov, dis_mean, cov_formula, xcov_formula, brute,
         mink_outer_spec, mink_inner_spec, eta;
  cbv beta iota zeta delta [sumf absdiff nth Nat.leb Nat.eqb Nat.sub Nat.add Nat.mul INR flat_map map app v4nth v0 v1 v2 v3];
  rmin; list_eq ltac:(first [ring | field | exfalso; lra]).
'''
def args_stats(n_x):
    return " ".join(["am0 am1 am2 am3 ac"] + ["ax%d" % l for l in range(n_x + 1)] + ["bm0 bm1 bm2 bm3 bc"] + ["bx%d" % l for l in range(n_x + 1)])
def seq(tag, n_x): return "[" + "; ".join("%sx%d" % (tag, l) for l in range(n_x + 1)) + "]"
A = "(mkV4 am0 am1 am2 am3)"; B = "(mkV4 bm0 bm1 bm2 bm3)"

pred = [hdr % ("Tie_C05.v", "Predictions of superposed / composite / disjoint on stub modes with symbolic per-instance statistics (mean vectors am, bm; covariance c * P and cross-covariances x[l] * P for fixed pattern matrices P): each entry of the predicted mean, covariance and lag-0/lag-1 cross-covariance equals the DualModel formula, at sample sizes 1..3 (composite: the listed (n, n_A) splits)."), common]
for n in (1, 2, 3):
    a = args_stats(n) + " ic"
    cov = ("(fun i j => sup_cov %d (patA i j * ac) (scaled (patA i j) (seqf %s)) (patB i j * bc) (scaled (patB i j) (seqf %s)) (mink_outer_spec %s %s i j) (mink_outer_spec %s %s j i) (v4nth %s i * v4nth %s j) (v4nth %s j * v4nth %s i) ic)"
           % (n, seq("a", n), seq("b", n), A, B, A, B, A, B, A, B))
    pred.append("Lemma tie_pred_sup_n%d %s :\n  pred_sup_n%d (OO:=ROps) %s =\n  grid4 (fun i => v4nth %s i + v4nth %s i) ++ grid16 %s ++ grid16 %s.\nProof. tie. Qed.\n" % (n, a, n, a, A, B, cov, cov))
    nx = 2 * n
    a = "f " + args_stats(nx)
    cov = ("(fun i j => dis_cov f %d (patA i j * ac) (scaled (patA i j) (seqf %s)) (patB i j * bc) (scaled (patB i j) (seqf %s)) (v4nth %s i) (v4nth %s j) (v4nth %s i) (v4nth %s j))"
           % (n, seq("a", nx), seq("b", nx), A, A, B, B))
    x1 = "(fun i j => dis_xcov f %d 1 (scaled (patA i j) (seqf %s)) (scaled (patB i j) (seqf %s)))" % (n, seq("a", nx), seq("b", nx))
    pred.append("Lemma tie_pred_dis_n%d %s :\n  pred_dis_n%d (OO:=ROps) %s =\n  grid4 (fun i => dis_mean f (v4nth %s i) (v4nth %s i)) ++ grid16 %s ++ grid16 %s ++ grid16 %s.\nProof. tie. Qed.\n" % (n, a, n, a, A, B, cov, cov, x1))
pairs = [(1, 0), (1, 1), (2, 0), (2, 1), (2, 2), (3, 1), (3, 2), (4, 2)]
for n, na in pairs:
    a = "f " + args_stats(n) + " ic"
    cov = ("(fun i j => comp_cov %d %d (patA i j * ac) (scaled (patA i j) (seqf %s)) (patB i j * bc) (scaled (patB i j) (seqf %s)) (v4nth %s i * v4nth %s j) (v4nth %s j * v4nth %s i) ic)"
           % (n, na, seq("a", n), seq("b", n), A, B, A, B))
    pred.append("Lemma tie_pred_comp_n%d_a%d %s :\n  pred_comp_n%d_a%d (OO:=ROps) %s =\n  grid4 (fun i => comp_mean %d %d (v4nth %s i) (v4nth %s i)) ++ grid16 %s ++ grid16 %s.\nProof. tie. Qed.\n" % (n, na, a, n, na, a, n, na, A, B, cov, cov))
open(os.path.join(OUT, "Tie_C05.v"), "w").write("\n".join(pred))

gen = [hdr % ("Tie_C05_gen.v", "The generators on stub modes with scripted fields: the sample is the mean of exactly the instances the prediction assumes (first half of each list: what get_Stokes returns and the number of get_field calls per mode; second half: the reference built from the same fields with the library's compute_stokes), and disjoint selects mode A exactly when random () / RAND_MAX < f."),
       "\nDefinition halves_eq (n : nat) (l : list R) : Prop := firstn n l = skipn n l.\nLtac law := intros; unfold halves_eq; autounfold with gen; ops_R; cbn [firstn skipn]; list_eq ltac:(first [reflexivity | ring | field]).\n"]
def fields(count):
    out = []
    for tag in ("ea", "eb"):
        for k in range(count):
            out += ["%sx%dr %sx%di %sy%dr %sy%di" % (tag, k, tag, k, tag, k, tag, k)]
    return " ".join(out)
for n, na in pairs:
    a = "f " + fields(n + 1)
    gen.append("Lemma law_gen_comp_n%d_a%d %s : halves_eq 6 (gen_comp_n%d_a%d (OO:=ROps) %s).\nProof. law. Qed.\n" % (n, na, a, n, na, a))
for n in (1, 2):
    a = fields(n + 1)
    gen.append("Lemma law_gen_sup_n%d %s : halves_eq 6 (gen_sup_n%d (OO:=ROps) %s).\nProof. law. Qed.\n" % (n, a, n, a))
a = "f " + fields(2) + " rnd"
gen.append('''(* outputs: g (4), calls of A, calls of B, reference from A's fields (4), reference from B's fields (4) *)
Definition selects_A (l : list R) : Prop := firstn 4 l = firstn 4 (skipn 6 l) /\\ nth 4 l 0 = 2 /\\ nth 5 l 0 = 0.
Definition selects_B (l : list R) : Prop := firstn 4 l = skipn 10 l /\\ nth 4 l 0 = 0 /\\ nth 5 l 0 = 2.
Lemma tie_gen_dis_n2 %s :
  Forall (fun c : Prop * list R => fst c -> (rnd / 2147483647 < f /\\ selects_A (snd c)) \\/ (~ rnd / 2147483647 < f /\\ selects_B (snd c)))
         (gen_dis_n2_cases (OO:=ROps) %s)
  /\\ Exists (fun c : Prop * list R => fst c) (gen_dis_n2_cases (OO:=ROps) %s).
Proof.
  split.
  - unfold gen_dis_n2_cases. repeat apply Forall_cons; try apply Forall_nil; cbn [fst snd]; unfold selects_A, selects_B; autounfold with gen; ops_R; cbn [firstn skipn nth]; intros Hpc.
    + left. conj_split; first [ exact Hpc | reflexivity | list_eq ltac:(first [reflexivity | ring | field]) ].
    + right. conj_split; first [ exact Hpc | reflexivity | list_eq ltac:(first [reflexivity | ring | field]) ].
  - autounfold with gen; ops_R. destruct (Rlt_dec (rnd / 2147483647) f) as [L|G]; [ apply Exists_cons_hd; exact L | apply Exists_cons_tl; apply Exists_cons_hd; exact G ].
Qed.
''' % (a, a, a))
open(os.path.join(OUT, "Tie_C05_gen.v"), "w").write("\n".join(gen))
print("written")
