#!/usr/bin/env python3
"""Writes coq/props/Tie_C13.v (committed)."""
import os
OUT = os.path.join(os.path.dirname(os.path.abspath(__file__)), "..", "coq", "props")
def M(p, R, C): return [["%s%d%d" % (p, i, j) for j in range(C)] for i in range(R)]
def V(p, N): return ["%s%d" % (p, i) for i in range(N)]
def flat(m): return [x for r in m for x in r]
def args(*ms): return " ".join(" ".join(flat(m) if isinstance(m[0], list) else m) for m in ms)
def mul(a, b): return [[" + ".join("%s * %s" % (a[i][k], b[k][j]) for k in range(len(b))) for j in range(len(b[0]))] for i in range(len(a))]
def lst(xs): return "[" + "; ".join(xs) + "]"
b = ["""(* Tie_C13.v -- GENERATED ONCE by harness/gen_tie_C13.py and committed.
   Vector.h / Matrix.h as generated at representative (rectangular) shapes: entries tied to
   the defining sums, laws with both sides computed by the code, Gauss-Jordan on every pivot path. *)
From Coq Require Import Reals Lra List.
From Epsic Require Import Scalar SpecPauli Gen_C13.
Import ListNotations.
Local Open Scope R_scope.

Definition halves_eq (n : nat) (l : list R) : Prop := firstn n l = skipn n l.
Ltac solve_entry := first [ ring | field; nz_auto ].
Ltac tie := intros; autounfold with gen; ops_R; list_eq solve_entry.
(* |x| <= |y| as x^2 <= y^2, so that nra can use the pivot comparisons *)
Lemma abs_sq_eq x : Rabs x * Rabs x = x * x.
Proof. unfold Rabs; destruct (Rcase_abs x); ring. Qed.
Lemma abs_le_sq x y : Rabs x <= Rabs y -> x * x <= y * y.
Proof. intros H. rewrite <- (abs_sq_eq x), <- (abs_sq_eq y). pose proof (Rabs_pos x). nra. Qed.
Lemma abs_nle_sq x y : ~ (Rabs y <= Rabs x) -> x * x < y * y.
Proof. intros H. apply Rnot_le_lt in H. rewrite <- (abs_sq_eq x), <- (abs_sq_eq y). pose proof (Rabs_pos x). nra. Qed.
Ltac abs_sq := repeat match goal with
  | H : Rabs _ <= Rabs _ |- _ => apply abs_le_sq in H
  | H : ~ (Rabs _ <= Rabs _) |- _ => apply abs_nle_sq in H
  end.
(* det = 0 on a throwing path: either every candidate pivot is zero, or det = +- pivot * (reduced element) *)
Ltac zero_prop := repeat match goal with
  | E : ?x = 0 |- _ => is_var x; subst x
  | H : ?y * ?y <= 0 * 0 |- _ => assert (y = 0) by nra; clear H
  | H : _ * _ < 0 * 0 |- _ => exfalso; nra
  end.
Ltac gj_zero :=
  first [ solve [ abs_sq; zero_prop; first [ ring | nra ] ]
        | match goal with E : ?e = 0, P : ?p <> 0 |- ?d = 0 =>
            first [ replace d with (p * e) by (field; exact P) | replace d with (- p * e) by (field; exact P) ]; rewrite E; ring end ].
Ltac gj_nonzero D :=
  match type of D with ?d = 0 =>
    match goal with H2 : ?e <> 0, P : ?p <> 0 |- _ =>
      apply H2; first [ replace e with (d / p) by (field; exact P) | replace e with (- d / p) by (field; exact P) ]; rewrite D; field; exact P end end.
(* side conditions of field on an elimination path: the cleared-denominator form of a pivot *)
Ltac nz_pivot := repeat split; try assumption;
  let E := fresh "E" in intro E;
  match goal with H : ?q <> 0 |- _ =>
    apply H; field_simplify_eq; [ first [ lra | nra | (rewrite <- E; ring) | (etransitivity; [ | exact E ]; ring) ] | repeat split; assumption ] end.
Ltac law := intros; unfold halves_eq; autounfold with gen; ops_R; cbn [firstn skipn]; list_eq solve_entry.
"""]
A23, B32, C23 = M("a", 2, 3), M("b", 3, 2), M("c", 2, 3)
def tie(name, a, rhs): b.append("Lemma tie_%s %s :\n  %s (OO:=ROps) %s = %s.\nProof. tie. Qed.\n" % (name, a, name, a, rhs))
tie("mul_2x3_3x2", args(A23, B32), lst(flat(mul(A23, B32))))
tie("mulvec_2x3", args(A23, V("v", 3)), lst([" + ".join("%s * v%d" % (A23[i][k], k) for k in range(3)) for i in range(2)]))
tie("vecmul_2x3", args(A23, V("v", 2)), lst([" + ".join("%s * v%d" % (A23[i][j], i) for i in range(2)) for j in range(3)]))
tie("transpose_2x3", args(A23), lst([A23[i][j] for j in range(3) for i in range(2)]))
tie("herm_2x2c", "a00r a00i a01r a01i a10r a10i a11r a11i", "[a00r; - a00i; a10r; - a10i; a01r; - a01i; a11r; - a11i]")
A33 = M("a", 3, 3)
tie("trace_3", args(A33), "[a00 + a11 + a22]")
tie("outer_2_3", args(V("a", 2), V("b", 3)), lst(["a%d * b%d" % (i, j) for i in range(2) for j in range(3)]))
tie("dot_cross_3", args(V("a", 3), V("b", 3)), "[a0 * b0 + a1 * b1 + a2 * b2; a1 * b2 - a2 * b1; a2 * b0 - a0 * b2; a0 * b1 - a1 * b0; a0 * a0 + a1 * a1 + a2 * a2]")
A22, B22 = M("a", 2, 2), M("b", 2, 2)
tie("direct_2x2_2x2", args(A22, B22), lst(["%s * %s" % (A22[r // 2][c // 2], B22[r % 2][c % 2]) for r in range(4) for c in range(4)]))
B12 = M("b", 1, 2)
tie("direct_2x3_1x2", args(A23, B12), lst(["%s * %s" % (A23[r][c // 2], B12[0][c % 2]) for r in range(2) for c in range(6)]))
tie("scalar_ctor_2x3", "s", "[s; 0; 0; 0; s; 0]")
tie("scalar_ctor_3x3", "s", "[s; 0; 0; 0; s; 0; 0; 0; s]")
b.append("Lemma tie_identity_3 : identity_3 (OO:=ROps) = [1; 0; 0; 0; 1; 0; 0; 0; 1].\nProof. tie. Qed.\n")
tie("vector_ops_3", args(V("a", 3), V("b", 3)) + " c",
    "[a0 + b0; a1 + b1; a2 + b2; a0 - b0; a1 - b1; a2 - b2; a0 * c; a1 * c; a2 * c; a0 * c; a1 * c; a2 * c; a0 / c; a1 / c; a2 / c; - a0; - a1; - a2]".replace("Lemma", ""))
b[-1] = b[-1].replace("Lemma tie_vector_ops_3 a0 a1 a2 b0 b1 b2 c :", "Lemma tie_vector_ops_3 a0 a1 a2 b0 b1 b2 c (Hc : c <> 0) :")
# Dirac matrix = Kronecker product of Pauli matrices sigma_1 (x) sigma_2
b.append("""Lemma tie_dirac_12 :
  dirac_12 (OO:=ROps) =
  flat_map (fun r => flat_map (fun c => clist (cmul (nth (c / 2) (nth (r / 2) [[m00 (sigma 1); m01 (sigma 1)]; [m10 (sigma 1); m11 (sigma 1)]] []) c0)
                                                    (nth (c mod 2) (nth (r mod 2) [[m00 (sigma 2); m01 (sigma 2)]; [m10 (sigma 2); m11 (sigma 2)]] []) c0))) [0;1;2;3]%nat) [0;1;2;3]%nat.
Proof.
  autounfold with gen; ops_R. unfold sigma.
  cbv beta iota delta [flat_map nth Nat.div Nat.modulo Nat.divmod fst snd Nat.sub app clist cmul cre cim cneg c0 c1 ci m00 m01 m10 m11].
  list_eq solve_entry.
Qed.
""")
def law(name, a, half, hyp=""): b.append("Lemma %s %s%s :\n  halves_eq %d (%s (OO:=ROps) %s).\nProof. law. Qed.\n" % (name, a, hyp, half, name, a))
law("law_assoc", args(A23, B32, C23), 6)
law("law_distrib", args(A23, B32, M("c", 3, 2)), 4)
law("law_matvec", args(A23, B32, V("v", 2)), 2)
law("law_vecmat_transpose", args(A23, V("v", 2)), 3)
law("law_transpose_product", args(A23, B32), 4)
law("law_herm_product", "a00r a00i a01r a01i a10r a10i a11r a11i b00r b00i b01r b01i b10r b10i b11r b11i", 8)
law("law_trace_cyclic", args(A23, B32), 1)
law("law_outer_trace_dot", args(V("a", 3), V("b", 3)), 1)
law("law_cross", args(V("a", 3), V("b", 3), V("c", 3)), 7)
law("law_kronecker_mixed", args(A22, B22, M("c", 2, 2), M("d", 2, 2)), 16)
law("law_kronecker_rect", args(M("a", 1, 2), M("b", 2, 1), M("c", 2, 1), M("d", 1, 2)), 4)
A34 = M("a", 3, 4)
b.append("""Lemma law_partition_compose %s :
  let l := law_partition_compose (OO:=ROps) %s in
  firstn 12 l = firstn 12 (skipn 12 l) /\\
  skipn 24 l = [a00; a01; a02] ++ [a03] ++ [a10; a11; a12; a20; a21; a22] ++ [a13; a23].
Proof. intros l; subst l. autounfold with gen; ops_R; cbn [firstn skipn app]. split; list_eq solve_entry. Qed.
""" % (args(A34), args(A34)))
b.append("""Lemma law_partition_compose_sym %s : a01 = a10 -> a02 = a20 ->
  law_partition_compose_sym (OO:=ROps) %s = [a00] ++ [a01; a02] ++ [a11; a12; a21; a22] ++ [a00; a01; a02; a10; a11; a12; a20; a21; a22].
Proof. intros H1 H2. autounfold with gen; ops_R; cbn [app]. subst. list_eq solve_entry. Qed.
""" % (args(A33), args(A33)))
# Gauss-Jordan N = 2
b.append("""(* Gauss-Jordan, N = 2: on every pivot path that does not throw, inv(A) A = A inv(A) = 1;
   a path throws exactly when det A = 0 *)
Definition gj_ok (l : list R) : Prop :=
  l = [] \\/ (firstn 4 (skipn 4 l) = [1; 0; 0; 1] /\\ firstn 4 (skipn 8 l) = [1; 0; 0; 1]).
Lemma tie_gj2 a00 a01 a10 a11 :
  Forall (fun c : Prop * list R => fst c -> gj_ok (snd c)) (gj2_cases (OO:=ROps) a00 a01 a10 a11).
Proof.
  unfold gj_ok. autounfold with gen; ops_R.
  repeat (apply Forall_cons; [ cbn [fst snd firstn skipn]; intros PC;
    first [ left; reflexivity
          | right; decompose [and] PC; split; list_eq ltac:(first [ ring | field; nz_auto | field; nz_pivot ]) ] | ]).
  apply Forall_nil.
Qed.
Lemma tie_gj2_singular a00 a01 a10 a11 :
  Forall (fun c : Prop * bool => fst c -> (snd c = true <-> a00 * a11 - a01 * a10 = 0)) (gj2_throwcases (OO:=ROps) a00 a01 a10 a11).
Proof.
  autounfold with gen; ops_R.
  repeat (apply Forall_cons; [ cbn [fst snd]; intros PC; decompose [and] PC; clear PC; split;
    [ intros E; first [ (vm_compute in E; discriminate E) | gj_zero ]
    | intros D; first [ reflexivity | exfalso; gj_nonzero D ] ] | ]).
  apply Forall_nil.
Qed.
""")
open(os.path.join(OUT, "Tie_C13.v"), "w").write("\n".join(b))
print("ok")
