"""C17 correspondence: for each option list of a grid, the real `epsic` binary (built from the working
tree) prints its theory; the Coq model Cli.parse / Cli.build (run by vm_compute) yields either a
rejection or a program that a small interpreter executes against the library; the printed theory, the
exit status and the rejection must agree."""
import os, re, subprocess, random, shutil, itertools
from fractions import Fraction

def sh(cmd, cwd, timeout=900):
    p = subprocess.run(cmd, cwd=cwd, stdout=subprocess.PIPE, stderr=subprocess.PIPE, timeout=timeout, text=True, errors="replace")
    return p.returncode, p.stdout, p.stderr

def q(s):
    f = Fraction(s); return "(%d # %d)" % (f.numerator, f.denominator)

STOKES = ["1,0,0,0", "2,0.5,0,0", "1,0,0.5,0.5", "3,-1,2,0.5", "1,1,0,0", "2,0,-2,0", "1,0.6,0,0.8", "0,0,0,0", "1,0.75,0.75,0", "1,1,1,0", "-1,0,0,0", "2,1,1,1", "1,0.3,0.2,0.1", "1.7,-0.9,0.1,0.7"]
BETAS = ["0.5", "1", "0.25", "2", "0.3", "1.7"]
WIDTHS = ["2", "3", "4", "1", "8", "5", "12"]
FRACS = ["0", "0.25", "0.5", "1", "0.75", "0.7", "0.9", "0.35", "0.1", "0.3", "0.45", "0.95"]   # decimal fractions are not exactly representable: the parsed value decides trunc(f n)
RHOS = ["0", "0.25", "-0.25", "0.5", "0.1", "-0.3"]

def gen_case(r, force=None):
    """returns (argv list, coq opt list)"""
    argv, coq = [], []
    kind = r.choice(["none", "S", "C", "D", "c"]) if force is None else force
    if kind == "S": argv += ["-S"]; coq.append("OptS")
    elif kind == "C": f = r.choice(FRACS); argv += ["-C", f]; coq.append("OptC %s" % q(f))
    elif kind == "D": f = r.choice(FRACS); argv += ["-D", f]; coq.append("OptD %s" % q(f))
    elif kind == "c": f = r.choice(["0", "0.5", "1"]); argv += ["-c", f]; coq.append("Optc %s" % q(f))
    opts = []
    for b in (False, True):
        pre = "B" if b else ""
        if r.random() < 0.6:
            s = r.choice(STOKES); v = s.split(",")
            opts.append((["-s", pre + s], "Opts %s %s %s %s %s" % ("true" if b else "false", q(v[0]), q(v[1]), q(v[2]), q(v[3]))))
        if r.random() < 0.5:
            x = r.choice(BETAS); opts.append((["-l", pre + x], "Optl %s %s" % ("true" if b else "false", q(x))))
        if r.random() < 0.35:
            w = r.choice(WIDTHS); opts.append((["-b", pre + w], "Optb %s %s%%nat" % ("true" if b else "false", w)))
        if r.random() < 0.35:
            w = r.choice(WIDTHS); opts.append((["-r", pre + w], "Optr %s %s%%nat" % ("true" if b else "false", w)))
    if r.random() < 0.3:
        x = r.choice(RHOS); opts.append((["-k", x], "Optk %s" % q(x)))
    if r.random() < 0.7:
        n = r.choice(["1", "2", "3", "4", "6", "5", "10", "20"]); opts.append((["-n", n], "Optn %s%%nat" % n))
    r.shuffle(opts)
    for a, c in opts: argv += a; coq.append(c)
    nl = r.choice(["1", "2", "3"]); argv += ["-X", nl]; coq.append("OptX %s%%nat" % nl)
    return argv, coq

OPS = {1: "base", 2: "lognormal", 3: "covariant", 4: "boxcar", 5: "square", 6: "coordinator", 7: "single", 8: "superposed", 9: "composite", 10: "disjoint",
       11: "coherent", 12: "intensitycov", 13: "samplesize", 14: "lags"}

COQ_PRELUDE = """From Coq Require Import List ZArith QArith.
From Epsic Require Import Cli.
Import ListNotations.
Set Printing Depth 100000.
Definition qz (x : Q) : Z * Z := (Qnum x, Zpos (Qden x)).
Definition zz (n : nat) : Z * Z := (Z.of_nat n, 1%Z).
Definition o : Z * Z := (0%Z, 1%Z).
Definition enc (i : instr) : list (Z * Z) :=
  match i with
  | IBase (a, b, c, d) => [(1%Z,1%Z); qz a; qz b; qz c; qz d]
  | ILognormal b => [(2%Z,1%Z); qz b] | ICovariant k b => [(3%Z,1%Z); zz k; qz b]
  | IBoxcar w => [(4%Z,1%Z); zz w] | ISquare w n => [(5%Z,1%Z); zz w; zz n]
  | ICoordinator r => [(6%Z,1%Z); qz r] | ISingle => [(7%Z,1%Z)] | ISuperposed => [(8%Z,1%Z)]
  | IComposite f => [(9%Z,1%Z); qz f] | IDisjoint f => [(10%Z,1%Z); qz f] | ICoherent c => [(11%Z,1%Z); qz c]
  | IIntensityCov => [(12%Z,1%Z)] | ISampleSize n => [(13%Z,1%Z); zz n] | ILags n => [(14%Z,1%Z); zz n]
  end.
Definition run (os : list opt) : option (bool * list (list (Z * Z))) :=
  option_map (fun c => (meaningful c, map enc (build c))) (parse os).
"""

def expected_blocks(text):
    """the theory a run printed: every 'expected=' block (vector or matrix)"""
    blocks = []
    for m in re.finditer(r"expected=\s*(\[[^\]]*\]|\([^\)]*\))", text):
        blocks.append(re.sub(r"\s+", "", m.group(1)))
    return blocks

def run(pid, cfg, bdir, repo, coqlib, note):
    seed = int(os.environ.get("VERIF_SEED", "1")); tier = os.environ.get("VERIF_TIER", "quick")
    r = random.Random(seed)
    n = 240 if tier == "quick" else 3000
    src = os.path.join(repo, "src"); util = os.path.join(src, "util")
    libsrc = [os.path.join(src, f) for f in ("mode.cpp", "sample.cpp", "superposed.cpp", "composite.cpp", "disjoint.cpp", "coherent.cpp", "covariant.cpp", "square_modulated_mode.cpp")] \
           + [os.path.join(util, f) for f in ("BoxMuller.C", "Pauli.C", "Dirac.C", "random.C", "Conventions.C")]
    inc = ["-I" + bdir, "-I" + src, "-I" + util]
    # the library objects, once
    objs = []
    for f in libsrc:
        o = os.path.join(bdir, "c17_" + os.path.basename(f) + ".o")
        rc, out, err = sh(["g++", "-std=gnu++17", "-O1", "-w"] + inc + ["-c", f, "-o", o], bdir)
        if rc != 0: return 0, [{"what": "library source does not compile", "file": f, "detail": err[-600:]}], []
        objs.append(o)
    rc, out, err = sh(["gcc", "-w", "-I" + util, "-c", os.path.join(util, "true_math.c"), "-o", os.path.join(bdir, "c17_tm.o")], bdir); objs.append(os.path.join(bdir, "c17_tm.o"))
    epsic = os.path.join(bdir, "c17_epsic"); direct = os.path.join(bdir, "c17_direct")
    rc, out, err = sh(["g++", "-std=gnu++17", "-O1", "-w"] + inc + [os.path.join(src, "epsic.cpp")] + objs + ["-o", epsic], bdir)
    if rc != 0: return 0, [{"what": "epsic.cpp does not compile", "detail": err[-800:]}], []
    rc, out, err = sh(["g++", "-std=gnu++17", "-O1", "-w"] + inc + [os.path.join(os.path.dirname(__file__), "c17", "direct.C")] + objs + ["-o", direct], bdir)
    if rc != 0: return 0, [{"what": "interpreter does not compile", "detail": err[-800:]}], []
    # cases: every sample type with every single option alone (presence grid), then seeded combinations
    cases = []
    for k in ["none", "S", "C", "D", "c"]:
        for _ in range(6): cases.append(gen_case(r, k))
    while len(cases) < n: cases.append(gen_case(r))
    # boundary corpus
    cases += [(["-s", "1,0.6,0,0.8", "-X", "1"], ["Opts false %s %s %s %s" % (q("1"), q("0.6"), q("0"), q("0.8")), "OptX 1%nat"]),
              (["-s", "1,1,1,0", "-X", "1"], ["Opts false %s %s %s %s" % (q("1"), q("1"), q("1"), q("0")), "OptX 1%nat"]),
              (["-S", "-s", "B1,1,1,0", "-X", "1"], ["OptS", "Opts true %s %s %s %s" % (q("1"), q("1"), q("1"), q("0")), "OptX 1%nat"]),
              (["-C", "0", "-n", "4", "-X", "2"], ["OptC %s" % q("0"), "Optn 4%nat", "OptX 2%nat"]),
              (["-C", "0.7", "-n", "10", "-X", "2"], ["OptC %s" % q("0.7"), "Optn 10%nat", "OptX 2%nat"]),
              (["-C", "0.9", "-n", "10", "-s", "2,1,0,0", "-s", "B1,0,0.5,0", "-X", "2"], ["OptC %s" % q("0.9"), "Optn 10%nat", "Opts false %s %s %s %s" % (q("2"), q("1"), q("0"), q("0")), "Opts true %s %s %s %s" % (q("1"), q("0"), q("0.5"), q("0")), "OptX 2%nat"]),
              (["-C", "0.35", "-n", "20", "-l", "0.5", "-X", "1"], ["OptC %s" % q("0.35"), "Optn 20%nat", "Optl false %s" % q("0.5"), "OptX 1%nat"]),
              (["-D", "0.7", "-n", "10", "-X", "2"], ["OptD %s" % q("0.7"), "Optn 10%nat", "OptX 2%nat"]),
              (["-D", "1", "-l", "0.5", "-b", "4", "-n", "4", "-X", "2"], ["OptD %s" % q("1"), "Optl false %s" % q("0.5"), "Optb false 4%nat", "Optn 4%nat", "OptX 2%nat"])]
    # the model, inside Coq
    v = os.path.join(bdir, "C17_cases.v")
    open(v, "w").write(COQ_PRELUDE + "".join("Eval vm_compute in run [%s].\n" % "; ".join(c) for _, c in cases))
    rc, out, err = sh(["coqc", "-Q", coqlib, "Epsic", v], bdir)
    if rc != 0: return 0, [{"what": "model run failed", "detail": (out + err)[-800:]}], []
    blocks = re.split(r"\n\s*= ", "\n" + out)[1:]
    if len(blocks) != len(cases): return 0, [{"what": "result count mismatch", "model": len(blocks), "cases": len(cases)}], []
    mism, samples, stats = [], [], {"rejected": 0, "accepted": 0, "meaningful": 0, "exceptions": 0}
    work = os.path.join(bdir, "c17_work"); os.makedirs(work, exist_ok=True)
    for idx, ((argv, coq), blk) in enumerate(zip(cases, blocks)):
        b = " ".join(blk.split())
        rc, out, err = sh([epsic] + argv + ["-N", "0"], work, timeout=60)
        acf = open(os.path.join(work, "acf.txt")).read() if os.path.exists(os.path.join(work, "acf.txt")) else ""
        if os.path.exists(os.path.join(work, "acf.txt")): os.remove(os.path.join(work, "acf.txt"))
        rec = {"argv": " ".join(argv), "exit_status": rc}
        if b.startswith("None"):
            stats["rejected"] += 1
            if rc != 255 or "Invalid Stokes parameters" not in err:
                rec["why"] = "model rejects (|p| > I) but the program did not exit with the error"; mism.append(rec)
            continue
        stats["accepted"] += 1
        meaningful = b.startswith("Some (true")
        stats["meaningful"] += meaningful
        prog = []
        flat = re.sub(r"\s+|%Z", "", blk)
        for ins in re.findall(r"\[((?:\(\(?-?\d+\)?,\d+\);?)+)\]", flat):
            nums = [Fraction(int(a), int(d)) for a, d in re.findall(r"\(\(?(-?\d+)\)?,(\d+)\)", ins)]
            prog.append(OPS[int(nums[0])] + " " + " ".join(repr(float(x)) if x.denominator != 1 else str(x.numerator) for x in nums[1:]))
        pf = os.path.join(work, "prog.txt"); open(pf, "w").write("\n".join(prog) + "\n")
        rc2, out2, err2 = sh([direct, pf], work, timeout=60)
        rec["program"] = prog
        if rc == 255:
            rec["why"] = "the program rejected an option list the model accepts"; mism.append(rec); continue
        if rc2 == 3:
            stats["exceptions"] += 1
            if rc == 0: rec["why"] = "direct assembly throws but the program terminated normally"; mism.append(rec)
            elif meaningful and "correlation exceeded" not in out2: rec["why"] = "a meaningful combination does not terminate normally: " + out2.strip()[:120]; mism.append(rec)
            continue
        if rc != 0:
            rec["why"] = "the program terminated abnormally (exit %d) on an accepted option list" % rc; rec["stderr"] = err[-300:]; mism.append(rec); continue
        theory_prog = expected_blocks(err)[:2] + expected_blocks(acf)
        theory_direct = expected_blocks(out2)
        if theory_prog != theory_direct:
            rec["why"] = "printed theory differs from direct assembly"; rec["program_theory"] = theory_prog[:3]; rec["direct_theory"] = theory_direct[:3]; mism.append(rec)
        elif meaningful and re.search(r"nan|inf", "".join(theory_direct)):
            rec["why"] = "a meaningful combination reports non-finite statistics"; rec["theory"] = theory_direct[:3]; mism.append(rec)
        elif len(samples) < 5:
            samples.append("epsic %s  ==>  %s" % (" ".join(argv), "; ".join(prog)))
    samples.append("cases: %s" % stats)
    shutil.rmtree(work, ignore_errors=True)
    return len(cases), mism, samples
