(* FilterModels.v -- C07 spec: the boxcar (ring buffer) and rectangular
   (sample-and-hold) modulation filters as functions of the underlying draw
   sequence d_0, d_1, ..., for every width and every call index. *)
From Coq Require Import Reals Lra Lia List Arith.
From Epsic Require Import SampleModel.
Local Open Scope R_scope.

(* ---------------- boxcar ---------------- *)
Section Boxcar.
Variable w : nat.                 (* smoothing width, >= 1 *)
Hypothesis Hw : (1 <= w)%nat.
Variable d : nat -> R.            (* the underlying modulation draws, in call order *)

Definition upd (f : nat -> R) (j : nat) (v : R) : nat -> R := fun i => if Nat.eqb i j then v else f i.

(* lazy setup(): slots 1..w-1 receive draws 0..w-2; slot 0 is overwritten by the first call *)
Definition buf0 : nat -> R := fun i => match i with O => 0 | S k => d k end.
(* state after t calls: the buffer; call t stores draw (w-1+t) in slot (t mod w) *)
Fixpoint buf (t : nat) : nat -> R :=
  match t with O => buf0 | S k => upd (buf k) (k mod w) (d (w - 1 + k)) end.
(* value returned by call t (t = 0, 1, ...) *)
Definition boxcar_out (t : nat) : R := sumf (buf (S t)) w / INR w.

Lemma sumf_upd f j v n : (j < n)%nat -> sumf (upd f j v) n = sumf f n - f j + v.
Proof.
  induction n as [|n IH]; intros H; [lia|]. cbn [sumf]. unfold upd at 2.
  destruct (Nat.eqb_spec n j) as [E|E].
  - subst. assert (sumf (upd f j v) j = sumf f j).
    { apply sumf_ext; intros i Hi; unfold upd. destruct (Nat.eqb_spec i j); [lia | reflexivity]. }
    lra.
  - rewrite IH by lia. ring.
Qed.

(* every slot holds the most recent draw of its residue class: slot ((k+1) mod w) holds d k
   for every k in the window of the last w draws *)
Definition window_inv (t : nat) : Prop :=
  forall k, (t <= k + 1)%nat -> (k < w - 1 + t)%nat -> buf t ((k + 1) mod w) = d k.

Lemma window_inv_all t : window_inv t.
Proof.
  induction t as [|t IH]; unfold window_inv; intros k H1 H2.
  - cbn [buf]. rewrite Nat.mod_small by lia. unfold buf0. replace (k + 1)%nat with (S k) by lia. reflexivity.
  - cbn [buf]. unfold upd.
    destruct (Nat.eqb_spec ((k + 1) mod w) (t mod w)) as [E|E].
    + (* same residue as the new draw: then k is the new draw itself *)
      assert (k = (w - 1 + t)%nat \/ (k < w - 1 + t)%nat) as [->|Hlt] by lia; [reflexivity|].
      exfalso. (* t <= k < w-1+t and k+1 = t (mod w): impossible unless k+1 = t+w *)
      assert (Hk : (t <= k + 1)%nat) by lia.
      assert (((k + 1 - t) mod w) = 0)%nat.
      { replace (k + 1)%nat with ((k + 1 - t) + t)%nat in E by lia.
        rewrite Nat.add_mod in E by lia.
        destruct (Nat.eq_dec ((k + 1 - t) mod w) 0) as [Z|Z]; [exact Z|].
        exfalso. set (a := ((k + 1 - t) mod w)%nat) in *. set (b := (t mod w)%nat) in *.
        assert (a < w)%nat by (apply Nat.mod_upper_bound; lia). assert (b < w)%nat by (apply Nat.mod_upper_bound; lia). clearbody a b.
        destruct (Nat.lt_ge_cases (a + b) w).
        - rewrite Nat.mod_small in E by lia. lia.
        - replace (a + b)%nat with ((a + b - w) + 1 * w)%nat in E by lia. rewrite Nat.mod_add in E by lia.
          rewrite Nat.mod_small in E by lia. lia. }
      assert ((k + 1 - t) < w)%nat by lia. rewrite Nat.mod_small in H by lia. 
      (* k + 1 = t, but then slot is t mod w and k = t - 1 is outside [t+1-1 ...]: H1 says S t <= k+1 *)
      lia.
    + assert (k <> (w - 1 + t)%nat).
      { intro; subst k; apply E. replace (w - 1 + t + 1)%nat with (t + 1 * w)%nat by lia. apply Nat.mod_add; lia. }
      apply IH; lia.
Qed.

(* the sum over the ring buffer after call t is the sum of the last w draws *)
Lemma buf_sum t : sumf (buf (S t)) w = sumf (fun i => d (t + i)) w.
Proof.
  induction t as [|t IH].
  - cbn [buf]. rewrite Nat.mod_0_l by lia. rewrite sumf_upd by lia. replace (w - 1 + 0)%nat with (w - 1)%nat by lia.
    destruct w as [|n]; [lia|]. rewrite sumf_first. unfold buf0 at 1 2. cbn [Nat.add].
    replace (S n - 1)%nat with n by lia. cbn [sumf]. unfold buf0. ring.
  - change (buf (S (S t))) with (upd (buf (S t)) (S t mod w) (d (w - 1 + S t))).
    rewrite sumf_upd by (apply Nat.mod_upper_bound; lia). rewrite IH.
    (* the overwritten slot held d t *)
    assert (O : buf (S t) (S t mod w) = d t).
    { replace (S t) with (t + 1)%nat at 2 by lia. apply (window_inv_all (S t) t); lia. }
    rewrite O.
    (* window sums: [t, t+w) minus d t plus d (t+w) = [t+1, t+1+w) *)
    destruct w as [|n]; [lia|]. rewrite (sumf_first (fun i => d (t + i))). cbn [sumf].
    replace (t + 0)%nat with t by lia. replace (S n - 1 + S t)%nat with (S t + n)%nat by lia.
    assert (E : sumf (fun i => d (t + S i)) n = sumf (fun i => d (S t + i)) n) by (apply sumf_ext; intros; f_equal; lia).
    rewrite E. ring.
Qed.

(* C07, boxcar: for every width and every call, the value returned is the mean of w consecutive draws *)
Theorem boxcar_is_moving_average t : boxcar_out t = sumf (fun i => d (t + i)) w / INR w.
Proof. unfold boxcar_out. rewrite buf_sum. reflexivity. Qed.
End Boxcar.

(* number of draws shared by the windows of calls t and t + l *)
Definition overlap (w l : nat) : nat := (w - l)%nat.
(* covariance of two moving averages of uncorrelated draws of variance s2: s2 * overlap / w^2.
   Here as a statement about coefficient sequences: sum_k a_k b_k with a, b the window indicators / w *)
Definition ind (t w k : nat) : R := if (Nat.leb t k && Nat.ltb k (t + w))%bool then 1 else 0.
Lemma ind_sum_shift t w l N : (t + l + w <= N)%nat ->
  sumf (fun k => ind t w k * ind (t + l) w k) N = INR (overlap w l).
Proof.
  intros HN. unfold overlap.
  (* count k with t + l <= k < t + w *)
  assert (G : forall N, sumf (fun k => ind t w k * ind (t + l) w k) N = INR (Nat.min N (t + w) - Nat.min N (t + l))).
  { clear HN N. induction N as [|N IH]; [reflexivity|]. cbn [sumf]. rewrite IH. unfold ind.
    destruct (Nat.leb_spec t N), (Nat.ltb_spec N (t + w)), (Nat.leb_spec (t + l) N), (Nat.ltb_spec N (t + l + w)); cbn [andb];
    try (replace (Nat.min (S N) (t + w) - Nat.min (S N) (t + l))%nat with (S (Nat.min N (t + w) - Nat.min N (t + l))) by lia; rewrite S_INR; ring);
    try (replace (Nat.min (S N) (t + w) - Nat.min (S N) (t + l))%nat with (Nat.min N (t + w) - Nat.min N (t + l))%nat by lia; ring). }
  rewrite G. f_equal. lia.
Qed.

(* ---------------- rectangular (sample and hold) ---------------- *)
Section Hold.
Variable w : nat.
Hypothesis Hw : (1 <= w)%nat.
Variable d : nat -> R.
(* state: (current, value, number of draws made); initially current = width *)
Definition hstate : Type := (nat * R * nat)%type.
Definition hstep (s : hstate) : hstate * R :=
  let '(cur, v, k) := s in
  let '(cur1, v1, k1) := if Nat.eqb cur w then (O, d k, S k) else (cur, v, k) in
  ((S cur1, v1, k1), v1).
Fixpoint hrun (t : nat) : hstate :=
  match t with O => (w, 0, O) | S n => fst (hstep (hrun n)) end.
Definition hold_out (t : nat) : R := snd (hstep (hrun t)).

Lemma hrun_inv t : hrun (S t) = (S (t mod w), d (t / w), S (t / w)).
Proof.
  induction t as [|t IH].
  - cbn [hrun hstep fst]. rewrite Nat.eqb_refl. rewrite Nat.mod_0_l, Nat.div_0_l by lia. reflexivity.
  - change (hrun (S (S t))) with (fst (hstep (hrun (S t)))). rewrite IH. unfold hstep.
    assert (M : (t mod w < w)%nat) by (apply Nat.mod_upper_bound; lia).
    pose proof (Nat.div_mod t w ltac:(lia)) as DM.
    destruct (Nat.eqb_spec (S (t mod w)) w) as [E|E]; cbn [fst].
    + (* block boundary: S t is a multiple of w *)
      assert (S t = w * S (t / w))%nat by nia.
      assert (S t mod w = 0)%nat by (rewrite H, Nat.mul_comm; apply Nat.mod_mul; lia).
      assert (S t / w = S (t / w))%nat by (rewrite H, Nat.mul_comm; apply Nat.div_mul; lia).
      rewrite H0, H1. reflexivity.
    + assert (S t = w * (t / w) + S (t mod w))%nat by lia.
      assert (S t mod w = S (t mod w))%nat.
      { rewrite H, Nat.add_comm, Nat.mul_comm, Nat.mod_add by lia. apply Nat.mod_small; lia. }
      assert (S t / w = t / w)%nat.
      { rewrite H, Nat.add_comm, Nat.mul_comm, Nat.div_add by lia. rewrite Nat.div_small by lia. reflexivity. }
      rewrite H0, H1. reflexivity.
Qed.

(* C07, rectangular: the t-th value generated is draw number floor(t / w) *)
Theorem hold_is_block_constant t : hold_out t = d (t / w).
Proof.
  unfold hold_out. destruct t as [|t].
  - cbn [hrun hstep snd]. rewrite Nat.eqb_refl. rewrite Nat.div_0_l by lia. reflexivity.
  - rewrite hrun_inv. unfold hstep.
    assert (M : (t mod w < w)%nat) by (apply Nat.mod_upper_bound; lia).
    pose proof (Nat.div_mod t w ltac:(lia)) as DM.
    destruct (Nat.eqb_spec (S (t mod w)) w) as [E|E]; cbn [snd].
    + assert (S t = w * S (t / w))%nat by nia. f_equal. rewrite H, Nat.mul_comm. symmetry. apply Nat.div_mul; lia.
    + assert (S t = w * (t / w) + S (t mod w))%nat by lia. f_equal.
      rewrite H, Nat.add_comm, Nat.mul_comm, Nat.div_add by lia. rewrite (Nat.div_small (S (t mod w)) w) by lia. reflexivity.
Qed.
End Hold.

(* ---------------- a modulated instance ---------------- *)
(* covariance of m * s for a factor m (mean mu, variance v) independent of the
   Stokes instance s (mean S_i, covariance C_ij): E[m^2] E[s_i s_j] - mu^2 S_i S_j *)
Theorem modulated_covariance mu v Cij Si Sj :
  (mu * mu + v) * (Cij + Si * Sj) - (mu * Si) * (mu * Sj) = (mu * mu + v) * Cij + v * (Si * Sj).
Proof. ring. Qed.
(* cross-covariance at a lag where the field instances are independent but the factors covary by k *)
Theorem modulated_crosscovariance mu k Si Sj :
  (mu * mu + k) * (Si * Sj) - (mu * Si) * (mu * Sj) = k * (Si * Sj).
Proof. ring. Qed.

Example boxcar_example : boxcar_out 2 (fun k => INR k) 1 = (1 + 2) / 2.
Proof. unfold boxcar_out. cbn. lra. Qed.

(* ---------------- exact second moments of sample means under sample-and-hold ---------------- *)
(* factors are constant over blocks of w instances (block boundary at instance 0) and
   uncorrelated between blocks; a sample is n consecutive instances.  The exact covariance
   (in units of the factor variance) between the means of sample k and sample k + L: *)
Definition same_block (w a b : nat) : R := if Nat.eqb (a / w) (b / w) then 1 else 0.
Definition pair_count (w n k L : nat) : R :=
  sumf (fun i => sumf (fun j => same_block w (k * n + i) ((k + L) * n + j)) n) n.
(* averaged over the w sample phases a long run visits *)
Definition exact_hold_xcov (w n L : nat) : R :=
  sumf (fun k => pair_count w n k L) w / (INR w * (INR n * INR n)).
