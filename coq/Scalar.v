(* Scalar.v -- the operations a generated term is parametric in, and the
   interpretations over R (proofs), Q (exact evaluation) and the notations /
   tactics shared by all tie files. *)
From Coq Require Import ZArith QArith Qround Qabs Reals Lra Lia List.
Import ListNotations.

Class Ops (T : Type) := {
  oadd : T -> T -> T;
  osub : T -> T -> T;
  omul : T -> T -> T;
  odiv : T -> T -> T;
  oneg : T -> T;
  oint : Z -> T;
  osqrt : T -> T;
  oexp : T -> T;
  olog : T -> T;
  osin : T -> T;
  ocos : T -> T;
  oacos : T -> T;
  oatan : T -> T;
  osinh : T -> T;
  ocosh : T -> T;
  oatanh : T -> T;
  ofabs : T -> T;
  ofloor : T -> T;
  oatan2 : T -> T -> T;
  ocopysign : T -> T -> T;
  ornd32 : T -> T;
  ocsqrt_re : T -> T -> T;
  ocsqrt_im : T -> T -> T;
  opi : T;
  onan : T;
  oinf : T;
  olt : T -> T -> Prop;
  ole : T -> T -> Prop;
  oeq : T -> T -> Prop;
  otrunc : T -> Z -> Prop;
  ofinite : T -> T -> Prop;
  osignbit : T -> T -> Prop;
}.

Definition one {T} {O : Ops T} (a b : T) : Prop := ~ oeq a b.
Definition ogt {T} {O : Ops T} (a b : T) : Prop := olt b a.
Definition oge {T} {O : Ops T} (a b : T) : Prop := ole b a.

(* ------------------------------------------------------------------ *)
(* Real numbers                                                        *)
Local Open Scope R_scope.

Definition Ratanh (x : R) : R := / 2 * ln ((1 + x) / (1 - x)).
Definition Ratan2 (s c : R) : R :=
  if Rlt_dec 0 c then atan (s / c)
  else if Rlt_dec c 0 then (if Rle_dec 0 s then atan (s / c) + PI else atan (s / c) - PI)
  else if Rlt_dec 0 s then PI / 2 else if Rlt_dec s 0 then - PI / 2 else 0.
Definition Rcopysign (a b : R) : R := if Rle_dec 0 b then Rabs a else - Rabs a.
(* principal complex square root, real and imaginary part *)
Definition Rcsqrt_re (x y : R) : R := sqrt ((sqrt (x * x + y * y) + x) / 2).
Definition Rcsqrt_im (x y : R) : R :=
  (if Rle_dec 0 y then 1 else -1) * sqrt ((sqrt (x * x + y * y) - x) / 2).
Definition Rfloor (x : R) : R := IZR (Int_part x).

#[export] Instance ROps : Ops R := {|
  oadd := Rplus; osub := Rminus; omul := Rmult; odiv := Rdiv; oneg := Ropp;
  oint := IZR;
  osqrt := sqrt; oexp := exp; olog := ln; osin := sin; ocos := cos;
  oacos := acos; oatan := atan; osinh := sinh; ocosh := cosh; oatanh := Ratanh;
  ofabs := Rabs; ofloor := Rfloor; oatan2 := Ratan2; ocopysign := Rcopysign;
  ornd32 := fun x => x;
  ocsqrt_re := Rcsqrt_re; ocsqrt_im := Rcsqrt_im;
  opi := PI; onan := 0; oinf := 0;
  olt := Rlt; ole := Rle; oeq := @eq R;
  otrunc := fun x k => (IZR k <= x < IZR k + 1 /\ (0 <= k)%Z) \/ (IZR k - 1 < x <= IZR k /\ (k <= 0)%Z);
  ofinite := fun _ _ => True;
  osignbit := fun x _ => x < 0;
|}.

(* Unfold a generated definition over R down to Rplus/Rmult/... *)
Ltac ops_R :=
  cbv beta iota zeta delta
    [ROps oadd osub omul odiv oneg oint osqrt oexp olog osin ocos oacos oatan
     osinh ocosh oatanh ofabs ofloor oatan2 ocopysign ornd32 ocsqrt_re ocsqrt_im
     opi onan oinf olt ole oeq one ogt oge otrunc ofinite osignbit].

Ltac ops_R_in H :=
  cbv beta iota zeta delta
    [ROps oadd osub omul odiv oneg oint osqrt oexp olog osin ocos oacos oatan
     osinh ocosh oatanh ofabs ofloor oatan2 ocopysign ornd32 ocsqrt_re ocsqrt_im
     opi onan oinf olt ole oeq one ogt oge otrunc ofinite osignbit] in H.

(* discharge a non-zero side condition of `field` from a hypothesis stating that
   the same polynomial (possibly written differently) is non-zero *)
Ltac nz_from H :=
  let E := fresh "E" in intro E; apply H; etransitivity; [ | exact E ]; ring.
Ltac nz_auto :=
  repeat split;
  match goal with
  | |- _ <> _ => first [ assumption | lra
        | match goal with H : _ <> _ |- _ => solve [nz_from H] end ]
  end.

(* split conjunctions only (never an equality: `split` on an equation asks the
   kernel to convert both sides, which can diverge on real-number terms) *)
Ltac conj_split := repeat match goal with |- _ /\ _ => split end.

(* equality of generated lists, component by component *)
Ltac list_eq tac :=
  repeat match goal with
  | |- cons _ _ = cons _ _ => apply f_equal2; [ tac | ]
  | |- nil = nil => reflexivity
  end.

(* ------------------------------------------------------------------ *)
(* Rationals (exact evaluation, counterexample search)                 *)
Local Open Scope Q_scope.
#[export] Instance QOps : Ops Q := {|
  oadd := Qplus; osub := Qminus; omul := Qmult; odiv := Qdiv; oneg := Qopp;
  oint := fun z => inject_Z z;
  osqrt := fun x => x; oexp := fun x => x; olog := fun x => x; osin := fun x => x;
  ocos := fun x => x; oacos := fun x => x; oatan := fun x => x; osinh := fun x => x;
  ocosh := fun x => x; oatanh := fun x => x;
  ofabs := Qabs.Qabs; ofloor := fun x => inject_Z (Qfloor x);
  oatan2 := fun x _ => x; ocopysign := fun x _ => x;
  ornd32 := fun x => x;
  ocsqrt_re := fun x _ => x; ocsqrt_im := fun x _ => x;
  opi := 0; onan := 0; oinf := 0;
  olt := Qlt; ole := Qle; oeq := Qeq;
  otrunc := fun x k => Qfloor x = k;
  ofinite := fun _ _ => True;
  osignbit := fun x _ => x < 0;
|}.
