(* Quadrature.v -- exact Gaussian expectations of low-degree polynomials.
   E1 is the 3-node Gauss-Hermite rule for the standard normal weight; it
   reproduces the moments 1, 0, 1, 0, 3, 0 of N(0,1) up to degree 5, hence the
   N(0,1) expectation of every polynomial of degree <= 5.  E4 iterates it over four
   independent deviates (per-variable degree <= 5). *)
From Coq Require Import Reals Lra.
Local Open Scope R_scope.

Definition r3 : R := sqrt 3.
Lemma r3_sq : r3 * r3 = 3.
Proof. apply sqrt_sqrt; lra. Qed.

Definition E1 (h : R -> R) : R := 2 / 3 * h 0 + 1 / 6 * h r3 + 1 / 6 * h (- r3).
Definition E2 (h : R -> R -> R) : R := E1 (fun a => E1 (fun b => h a b)).
Definition E4 (h : R -> R -> R -> R -> R) : R :=
  E1 (fun a => E1 (fun b => E1 (fun c => E1 (fun d => h a b c d)))).

Theorem E1_moments :
  E1 (fun _ => 1) = 1 /\ E1 (fun x => x) = 0 /\ E1 (fun x => x * x) = 1 /\
  E1 (fun x => x * x * x) = 0 /\ E1 (fun x => x * x * x * x) = 3 /\ E1 (fun x => x * x * x * x * x) = 0.
Proof.
  pose proof r3_sq as H. unfold E1. repeat split; try (field_simplify; try ring [H]; nra).
Qed.
Theorem E1_linear a b f g : E1 (fun x => a * f x + b * g x) = a * E1 f + b * E1 g.
Proof. unfold E1. ring. Qed.
(* independence (Fubini for the iterated rule): a product of functions of disjoint deviates *)
Theorem E2_product f g : E2 (fun a b => f a * g b) = E1 f * E1 g.
Proof. unfold E2, E1. ring. Qed.

(* the rule is symmetric in its variables (the deviates are exchangeable) *)
Theorem E4_swap h : E4 (fun a b c d => h b a d c) = E4 h.
Proof. unfold E4, E1. ring. Qed.
Theorem E4_ext h h' : (forall a b c d, h a b c d = h' a b c d) -> E4 h = E4 h'.
Proof. intros H. unfold E4, E1. rewrite !H. reflexivity. Qed.
