(* Cli.v -- C17 spec: the option fold of the command-line simulator (epsic.cpp main) and the model
   it assembles, as a program for a small stack machine over the library's classes.
   Options carry their already-parsed numeric values (exact rationals / naturals). *)
From Coq Require Import List ZArith QArith Bool Lia.
Import ListNotations.
Local Open Scope Q_scope.

Inductive opt :=
  | OptS | OptC (f : Q) | OptD (f : Q) | Optc (coh : Q)          (* sample type: last one wins *)
  | Opts (forB : bool) (i q u v : Q)                               (* -s [B]i,q,u,v *)
  | Optl (forB : bool) (beta : Q) | Optb (forB : bool) (w : nat) | Optr (forB : bool) (w : nat)
  | Optk (rho : Q) | Optn (n : nat) | OptX (n : nat).

Record setup := { mean : Q * Q * Q * Q; beta : Q; smooth : nat; square : nat }.
Definition setup0 : setup := {| mean := (1, 0, 0, 0); beta := 0; smooth := 0%nat; square := 0%nat |}.
Inductive skind := KSingle | KSuperposed | KComposite (f : Q) | KDisjoint (f : Q) | KCoherent (c : Q).
Record config := { kind : skind; sA : setup; sB : setup; cov : option Q; nint : nat; nlag : nat }.
Definition config0 : config := {| kind := KSingle; sA := setup0; sB := setup0; cov := None; nint := 1%nat; nlag := 0%nat |}.

(* stokes.abs_vect() > i : sqrt(q^2+u^2+v^2) > i *)
Definition invalid_stokes (i q u v : Q) : bool := negb (Qle_bool 0 i) || negb (Qle_bool (q * q + u * u + v * v) (i * i)).

Definition upd_setup (c : config) (forB : bool) (f : setup -> setup) : config :=
  if forB then {| kind := kind c; sA := sA c; sB := f (sB c); cov := cov c; nint := nint c; nlag := nlag c |}
  else {| kind := kind c; sA := f (sA c); sB := sB c; cov := cov c; nint := nint c; nlag := nlag c |}.
Definition set_kind (c : config) (k : skind) : config :=
  {| kind := k; sA := sA c; sB := sB c; cov := cov c; nint := nint c; nlag := nlag c |}.

(* one option; None = the program exits with an error (invalid Stokes parameters) *)
Definition step (c : config) (o : opt) : option config :=
  match o with
  | OptS => Some (set_kind c KSuperposed) | OptC f => Some (set_kind c (KComposite f))
  | OptD f => Some (set_kind c (KDisjoint f)) | Optc h => Some (set_kind c (KCoherent h))
  | Opts b i q u v => if invalid_stokes i q u v then None
                      else Some (upd_setup c b (fun s => {| mean := (i, q, u, v); beta := beta s; smooth := smooth s; square := square s |}))
  | Optl b x => Some (upd_setup c b (fun s => {| mean := mean s; beta := x; smooth := smooth s; square := square s |}))
  | Optb b w => Some (upd_setup c b (fun s => {| mean := mean s; beta := beta s; smooth := w; square := square s |}))
  | Optr b w => Some (upd_setup c b (fun s => {| mean := mean s; beta := beta s; smooth := smooth s; square := w |}))
  | Optk rho => Some {| kind := kind c; sA := sA c; sB := sB c; cov := Some rho; nint := nint c; nlag := nlag c |}
  | Optn n => Some {| kind := kind c; sA := sA c; sB := sB c; cov := cov c; nint := n; nlag := nlag c |}
  | OptX n => Some {| kind := kind c; sA := sA c; sB := sB c; cov := cov c; nint := nint c; nlag := n |}
  end.
Fixpoint parse_from (c : config) (os : list opt) : option config :=
  match os with [] => Some c | o :: r => match step c o with Some c' => parse_from c' r | None => None end end.
Definition parse (os : list opt) : option config := parse_from config0 os.

(* ---- the program that assembles the model from the library ---- *)
Inductive instr :=
  | IBase (m : Q * Q * Q * Q)            (* push: new mode with this mean *)
  | ILognormal (beta : Q)                  (* top := lognormal_mode (top, beta) *)
  | ICovariant (index : nat) (beta : Q)    (* if beta <> 0: coordinator.set_beta(index, beta); top := coordinator.get_modulated_mode (index, top) *)
  | IBoxcar (w : nat) | ISquare (w n : nat)
  | ICoordinator (rho : Q)
  | ISingle | ISuperposed | IComposite (f : Q) | IDisjoint (f : Q) | ICoherent (c : Q)   (* consume the mode(s) *)
  | IIntensityCov                          (* dual.set_intensity_covariance (coordinator.get_intensity_covariance()) *)
  | ISampleSize (n : nat) | ILags (n : nat).

Definition is_modulated (s : setup) (covariant : bool) : bool := covariant || negb (Qeq_bool (beta s) 0).
Definition mode_program (s : setup) (covariant : bool) (index n : nat) : list instr :=
  [IBase (mean s)]
  ++ (if covariant then [ICovariant index (beta s)] else if negb (Qeq_bool (beta s) 0) then [ILognormal (beta s)] else [])
  ++ (if (Nat.ltb 1 (smooth s) && is_modulated s covariant)%bool then [IBoxcar (smooth s)] else [])
  ++ (if (Nat.ltb 1 (square s) && is_modulated s covariant)%bool then [ISquare (square s) n] else []).
Definition build (c : config) : list instr :=
  let covariant := match cov c with Some _ => true | None => false end in
  (match cov c with Some rho => [ICoordinator rho] | None => [] end)
  ++ match kind c with
     | KSingle => mode_program (sA c) covariant 0 (nint c) ++ [ISingle]
     | k => mode_program (sA c) covariant 0 (nint c) ++ mode_program (sB c) covariant 1 (nint c)
            ++ [match k with KSuperposed => ISuperposed | KComposite f => IComposite f | KDisjoint f => IDisjoint f
                            | KCoherent h => ICoherent h | KSingle => ISingle end]
            ++ (if covariant then [IIntensityCov] else [])
     end
  ++ [ISampleSize (nint c); ILags (nlag c)].

(* ---- theorems ---- *)
Definition forB (o : opt) : bool :=
  match o with Opts b _ _ _ _ | Optl b _ | Optb b _ | Optr b _ => b | _ => false end.
Definition forA (o : opt) : bool :=
  match o with Opts b _ _ _ _ | Optl b _ | Optb b _ | Optr b _ => negb b | _ => false end.

Lemma step_frame c o c' : step c o = Some c' ->
  (forA o = false -> sA c' = sA c) /\ (forB o = false -> sB c' = sB c).
Proof.
  destruct o; cbn [step forA forB]; intros H;
  try (injection H as <-; split; intros; reflexivity);
  try (destruct (invalid_stokes _ _ _ _); [discriminate|]);
  injection H as <-; destruct forB0; cbn; split; intros E; try reflexivity; discriminate.
Qed.

(* arguments prefixed by B configure the second mode only, unprefixed ones the first only:
   dropping every option that is not addressed to mode A leaves mode A's setup unchanged (and dually) *)
Theorem frame_A os : forall c c', parse_from c os = Some c' ->
  exists c'', parse_from c (filter forA os) = Some c'' /\ sA c'' = sA c'.
Proof.
  induction os as [|o os IH]; intros c c' H; cbn [parse_from filter] in *.
  - exists c. injection H as <-. split; reflexivity.
  - destruct (step c o) as [c1|] eqn:E; [|discriminate].
    destruct (IH c1 c' H) as [c2 [P S]].
    destruct (forA o) eqn:F.
    + cbn [parse_from]. rewrite E. exists c2. split; assumption.
    + (* o does not touch A: run the filtered tail from c instead of c1 *)
      destruct (step_frame c o c1 E) as [SA _]. specialize (SA F).
      clear IH H E. revert c c1 SA c2 P S. induction (filter forA os) as [|p ps IHp]; intros c c1 SA c2 P S; cbn [parse_from] in *.
      * injection P as <-. exists c. split; [reflexivity | congruence].
      * destruct (step c1 p) as [d1|] eqn:E1; [|discriminate].
        assert (exists d, step c p = Some d /\ sA d = sA d1) as [d [Ed Sd]].
        { destruct p; cbn [step] in *; try (eexists; split; [reflexivity|]; injection E1 as <-; cbn; congruence);
          try (destruct (invalid_stokes _ _ _ _); [discriminate|]; eexists; split; [reflexivity|];
               injection E1 as <-; unfold upd_setup; destruct forB0; cbn; congruence);
          (eexists; split; [reflexivity|]; injection E1 as <-; unfold upd_setup; destruct forB0; cbn; congruence). }
        rewrite Ed. apply (IHp d d1 (eq_sym Sd) c2 P S).
Qed.

(* rejection: the program exits with an error exactly when some -s option carries |p| > I *)
Theorem rejected_iff os : forall c, parse_from c os = None <->
  exists b i q u v, In (Opts b i q u v) os /\ invalid_stokes i q u v = true.
Proof.
  induction os as [|o os IH]; intros c; cbn [parse_from].
  - split; [discriminate | intros [b [i [q [u [v [[] _]]]]]]].
  - destruct (step c o) as [c1|] eqn:E.
    + rewrite IH. split; intros [b [i [q [u [v [I V]]]]]]; exists b, i, q, u, v; split; auto.
      * right; exact I.
      * destruct I as [->|I]; [|exact I]. cbn [step] in E. rewrite V in E. discriminate.
    + split; [|reflexivity]. intros _. destruct o; cbn [step] in E; try discriminate.
      destruct (invalid_stokes i q u v) eqn:V; [|discriminate]. exists forB0, i, q, u, v. split; [left; reflexivity | exact V].
Qed.

(* "meaningful" combinations: covariant intensities only with a dual-mode sample; then the program
   gives the coordinator both of its outputs, so generating samples cannot fail for a missing mode *)
Definition meaningful (c : config) : bool :=
  match cov c, kind c with Some _, KSingle => false | _, _ => true end.
Fixpoint count_cov (p : list instr) (index : nat) : nat :=
  match p with [] => O | ICovariant k _ :: r => (if Nat.eqb k index then 1 else 0) + count_cov r index | _ :: r => count_cov r index end.
Lemma count_cov_app a b i : count_cov (a ++ b) i = (count_cov a i + count_cov b i)%nat.
Proof. induction a as [|x a IH]; cbn; [reflexivity|]. destruct x; rewrite ?IH; lia. Qed.
Lemma count_cov_mode s k n i : count_cov (mode_program s true k n) i = if Nat.eqb k i then 1%nat else 0%nat.
Proof.
  unfold mode_program. rewrite !count_cov_app. cbn [count_cov].
  destruct (Nat.ltb 1 (smooth s) && is_modulated s true)%bool, (Nat.ltb 1 (square s) && is_modulated s true)%bool; cbn [count_cov]; lia.
Qed.
Theorem meaningful_has_both_outputs c rho : cov c = Some rho -> meaningful c = true ->
  count_cov (build c) 0 = 1%nat /\ count_cov (build c) 1 = 1%nat.
Proof.
  intros Hc Hm. unfold meaningful in Hm. rewrite Hc in Hm. unfold build. rewrite Hc.
  destruct (kind c); try discriminate; rewrite !count_cov_app, !count_cov_mode; cbn; split; reflexivity.
Qed.

Example parse_example :
  option_map build (parse [OptS; Opts false 1 (1#2) 0 0; Opts true 2 0 0 1; Optl true (1#2); Optb true 3%nat; Optn 4%nat; OptX 2%nat])
  = Some [IBase (1, 1#2, 0, 0); IBase (2, 0, 0, 1); ILognormal (1#2); IBoxcar 3; ISuperposed; ISampleSize 4; ILags 2].
Proof. vm_compute. reflexivity. Qed.
