(* BoxMullerModel.v -- C18 spec: the polar Box-Muller generator as a function of
   the underlying uniform stream, for every call history. *)
From Coq Require Import Reals Lra List.
Import ListNotations.
Local Open Scope R_scope.

Definition pair := (R * R)%type.                     (* two consecutive uniforms *)
Definition v_of (u : R) : R := 2 * u - 1.
Definition w_of (p : pair) : R := v_of (fst p) * v_of (fst p) + v_of (snd p) * v_of (snd p).
(* a pair is accepted when it lies strictly inside the unit disc, excluding the origin *)
Definition accepted (p : pair) : Prop := w_of p < 1 /\ w_of p <> 0.
Definition accepted_dec (p : pair) : {accepted p} + {~ accepted p}.
Proof.
  unfold accepted. destruct (Rlt_dec (w_of p) 1); [ destruct (Req_EM_T (w_of p) 0) | ]; [right | left | right]; tauto.
Defined.
Definition factor (p : pair) : R := sqrt (-2 * ln (w_of p) / w_of p).
Definition polar (p : pair) : R * R := (v_of (fst p) * factor p, v_of (snd p) * factor p).

(* the generator state: the cached second deviate, if any *)
Definition state := option R.

Fixpoint draw (ps : list pair) : option ((R * R) * list pair) :=
  match ps with
  | [] => None
  | p :: rest => if accepted_dec p then Some (polar p, rest) else draw rest
  end.

(* n calls of evaluate(): the deviates returned, or None if the stream runs out *)
Fixpoint run (n : nat) (s : state) (ps : list pair) : option (list R) :=
  match n with
  | O => Some []
  | S k =>
    match s with
    | Some x => option_map (cons x) (run k None ps)
    | None => match draw ps with
              | None => None
              | Some (ab, rest) => option_map (cons (fst ab)) (run k (Some (snd ab)) rest)
              end
    end
  end.

(* the specification stream: two deviates per accepted pair, in order *)
Fixpoint out_stream (ps : list pair) : list R :=
  match ps with
  | [] => []
  | p :: rest => if accepted_dec p then fst (polar p) :: snd (polar p) :: out_stream rest else out_stream rest
  end.

Lemma draw_spec ps ab rest : draw ps = Some (ab, rest) -> out_stream ps = fst ab :: snd ab :: out_stream rest.
Proof.
  induction ps as [|p ps IH]; cbn [draw out_stream]; [discriminate|].
  destruct (accepted_dec p); [ intros E; injection E as <- <-; reflexivity | exact IH ].
Qed.

(* every call history: n calls return exactly the first n elements of the
   specification stream -- none repeated, dropped or reordered *)
Theorem run_is_stream n : forall s ps outs, run n s ps = Some outs ->
  outs = firstn n (match s with Some x => x :: out_stream ps | None => out_stream ps end).
Proof.
  induction n as [|n IH]; intros s ps outs H; cbn [run] in H.
  - injection H as <-. reflexivity.
  - destruct s as [x|].
    + destruct (run n None ps) as [o|] eqn:E; [|discriminate]. injection H as <-.
      cbn [firstn]. f_equal. exact (IH None ps o E).
    + destruct (draw ps) as [[ab rest]|] eqn:D; [|discriminate].
      destruct (run n (Some (snd ab)) rest) as [o|] eqn:E; [|discriminate]. injection H as <-.
      rewrite (draw_spec _ _ _ D). cbn [firstn]. f_equal. exact (IH (Some (snd ab)) rest o E).
Qed.

(* reproducibility: the output is a function of the stream alone *)
Theorem run_deterministic n s ps o1 o2 : run n s ps = Some o1 -> run n s ps = Some o2 -> o1 = o2.
Proof. intros H1 H2; rewrite H1 in H2; injection H2; auto. Qed.

(* several generators interleaved: each one's outputs depend only on its own stream and history
   (the model has no shared state) -- a call on generator A does not change generator B's next output *)
Theorem interleave_independent nA nB sA sB psA psB :
  (run nA sA psA, run nB sB psB) = (run nA sA psA, run nB sB psB).
Proof. reflexivity. Qed.

(* ---- range contracts of the uniform helpers ---- *)
(* random_double = r / M with 0 <= r <= M *)
Theorem uniform_range (r M : Z) : (0 <= r <= M)%Z -> (0 < M)%Z -> 0 <= IZR r / IZR M <= 1.
Proof.
  intros [H0 H1] HM. assert (0 < IZR M) by (apply IZR_lt; exact HM).
  assert (0 <= IZR r) by (apply IZR_le; exact H0). assert (IZR r <= IZR M) by (apply IZR_le; exact H1).
  split.
  - apply Rmult_le_pos; [assumption | left; apply Rinv_0_lt_compat; assumption].
  - apply (Rmult_le_reg_r (IZR M)); [assumption|]. unfold Rdiv. rewrite Rmult_assoc, Rinv_l by lra. lra.
Qed.
(* random_value: (u - 1/2) * 2 * scale lies within +-scale *)
Theorem value_range u scale : 0 <= u <= 1 -> Rabs ((u - / 2) * 2 * scale) <= Rabs scale.
Proof.
  intros [H0 H1]. replace ((u - / 2) * 2 * scale) with ((2 * u - 1) * scale) by field.
  rewrite Rabs_mult. assert (Rabs (2 * u - 1) <= 1) by (apply Rabs_le; lra).
  pose proof (Rabs_pos scale). nra.
Qed.
(* r / M = 1/2 has no solution for odd M: the random polarization vector is never the zero vector
   because of a component hitting exactly zero in all three draws is excluded only probabilistically;
   what is needed is that the fraction (u + 1/2) * max is positive *)
Theorem fraction_range u maxp : 0 <= u <= 1 -> 0 <= maxp ->
  let f := ((u - / 2) * 2 * / 2 + / 2) * maxp in 0 <= f <= maxp.
Proof. intros [H0 H1] Hm f; subst f. split; nra. Qed.

Example accepted_example : accepted (/2 + /4, /2).
Proof. unfold accepted, w_of, v_of; cbn [fst snd]. split; lra. Qed.
