(* TextIO.v -- C19 spec: printers and parsers of the text formats of Vector, Estimate, complex,
   Basis, Hand and Argument, over character strings.  The parsers mirror the extraction operators'
   use of the stream (skip white space, read a character, peek, unget, fail state); numbers are
   decimal literals with an exact rational value. *)
From Coq Require Import String Ascii List ZArith QArith Bool Lia.
Import ListNotations.
Local Open Scope string_scope.

Definition is_ws (c : ascii) : bool :=
  match c with " "%char => true | "009"%char => true | "010"%char => true | "013"%char => true | _ => false end.
Fixpoint skip_ws (s : string) : string :=
  match s with String c r => if is_ws c then skip_ws r else s | EmptyString => s end.
Definition is_digit (c : ascii) : bool := let n := nat_of_ascii c in Nat.leb 48 n && Nat.leb n 57.
Definition digit_val (c : ascii) : Z := Z.of_nat (nat_of_ascii c - 48).

(* read a maximal run of digits: value, number of digits, rest *)
Fixpoint digits (s : string) (acc : Z) (n : nat) : Z * nat * string :=
  match s with
  | String c r => if is_digit c then digits r (10 * acc + digit_val c) (S n) else (acc, n, s)
  | EmptyString => (acc, n, s)
  end.
Definition sign_of (s : string) : bool * string :=       (* true = negative *)
  match s with String "-"%char r => (true, r) | String "+"%char r => (false, r) | _ => (false, s) end.

(* operator>>(istream&, int&) *)
Definition parse_int (s : string) : option (Z * string) :=
  let s := skip_ws s in let '(neg, s1) := sign_of s in
  let '(v, n, r) := digits s1 0 0 in
  match n with O => None | _ => Some ((if neg then - v else v)%Z, r) end.

(* operator>>(istream&, double&): [sign] digits [. digits] [(e|E) [sign] digits], at least one digit *)
Definition qpow10 (e : Z) : Q := match e with Z0 => 1 | Zpos p => inject_Z (Z.pow 10 (Zpos p)) | Zneg p => 1 # (Pos.pow 10 p) end.
Definition parse_num (s : string) : option (Q * string) :=
  let s := skip_ws s in let '(neg, s1) := sign_of s in
  let '(ip, ni, r1) := digits s1 0 0 in
  let '(fp, nf, r2) := match r1 with String "."%char r => digits r 0 0 | _ => (0%Z, O, r1) end in
  let r2 := match r1 with String "."%char r => r2 | _ => r1 end in
  match (ni + nf)%nat with
  | O => None
  | _ =>
    let mant : Q := (inject_Z ip + inject_Z fp * qpow10 (- Z.of_nat nf))%Q in
    let '(ex, r3, ok) :=
      match r2 with
      | String c r => if (Ascii.eqb c "e" || Ascii.eqb c "E")%bool then
                        let '(eneg, re) := sign_of r in let '(ev, ne, rr) := digits re 0 0 in
                        match ne with O => (0%Z, r2, false) | _ => ((if eneg then - ev else ev)%Z, rr, true) end
                      else (0%Z, r2, true)
      | EmptyString => (0%Z, r2, true)
      end in
    if ok then Some (Qred ((if neg then - mant else mant) * qpow10 ex)%Q, r3) else None
  end.

Definition expect (c : ascii) (s : string) : option string :=
  match s with String d r => if Ascii.eqb c d then Some r else None | EmptyString => None end.

Section Vector.
Variable E : Type.
Variable ps : string -> option (E * string).
(* Vector<N,T>: '(' elem {',' elem} ')' ; each `is >> c` skips white space; a wrong separator is
   detected only after the following element has been extracted *)
Fixpoint parse_elems (n : nat) (s : string) (acc : list E) : option (list E * string) :=
  match n with
  | O => Some (rev acc, s)
  | S k =>
    match skip_ws s with
    | String c r =>
        match ps r with
        | Some (x, r') => if Ascii.eqb c ","%char then parse_elems k r' (x :: acc) else None
        | None => None
        end
    | EmptyString => None
    end
  end.
Definition parse_vec (n : nat) (s : string) : option (list E * string) :=
  match skip_ws s with
  | String "("%char r =>
      match ps r with
      | Some (x, r1) =>
          match parse_elems (n - 1) r1 [x] with
          | Some (l, r2) => match skip_ws r2 with String ")"%char r3 => Some (l, r3) | _ => None end
          | None => None
          end
      | None => None
      end
  | _ => None
  end.
Variable pr : E -> string.
Fixpoint print_tail (l : list E) : string :=
  match l with [] => ")" | x :: t => "," ++ pr x ++ print_tail t end.
Definition print_vec (l : list E) : string :=
  match l with [] => "()" | x :: t => "(" ++ pr x ++ print_tail t end.

(* an element printer / parser pair that round-trips before the separators a vector uses *)
Definition follows_ok (rest : string) : Prop :=
  match rest with String c _ => c = ","%char \/ c = ")"%char | EmptyString => False end.
Hypothesis ps_pr : forall x rest, follows_ok rest -> ps (pr x ++ rest) = Some (x, rest).

Lemma app_assoc_s (a b c : string) : (a ++ b) ++ c = a ++ (b ++ c).
Proof. induction a as [|x a IH]; cbn; [reflexivity | rewrite IH; reflexivity]. Qed.
Lemma tail_follows t rest : follows_ok (print_tail t ++ rest).
Proof. destruct t; cbn; [right | left]; reflexivity. Qed.

Lemma parse_elems_print t : forall acc rest,
  parse_elems (length t) (print_tail t ++ rest) acc = Some ((rev acc ++ t)%list, ")" ++ rest).
Proof.
  induction t as [|x t IH]; intros acc rest; cbn [length parse_elems print_tail].
  - rewrite app_nil_r. reflexivity.
  - cbn [append skip_ws is_ws]. rewrite !app_assoc_s. rewrite (ps_pr x _ (tail_follows t rest)).
    cbn [Ascii.eqb Bool.eqb]. rewrite IH. cbn [rev]. rewrite <- app_assoc. reflexivity.
Qed.

(* C19, vectors of any length over any element type whose own text round-trips *)
Theorem parse_print_vec x t rest :
  parse_vec (length (x :: t)) (print_vec (x :: t) ++ rest) = Some (x :: t, rest).
Proof.
  unfold parse_vec, print_vec. cbn [append skip_ws is_ws]. rewrite !app_assoc_s.
  rewrite (ps_pr x _ (tail_follows t rest)). cbn [length Nat.sub]. rewrite Nat.sub_0_r.
  rewrite (parse_elems_print t [x] rest). cbn [rev app append skip_ws is_ws]. reflexivity.
Qed.
End Vector.

(* ---------------- complex: "(re,im)", "(re)" or "re" ---------------- *)
Definition parse_complex (s : string) : option ((Q * Q) * string) :=
  match skip_ws s with
  | String "("%char r =>
      match parse_num r with
      | Some (re, r1) =>
          match skip_ws r1 with
          | String ","%char r2 =>
              match parse_num r2 with
              | Some (im, r3) => match skip_ws r3 with String ")"%char r4 => Some ((re, im), r4) | _ => None end
              | None => None
              end
          | String ")"%char r2 => Some ((re, 0%Q), r2)
          | _ => None
          end
      | None => None
      end
  | _ => match parse_num s with Some (re, r) => Some ((re, 0%Q), r) | None => None end
  end.

(* ---------------- Estimate: [ '(' ] value "+-" error [ ')' ] ---------------- *)
(* the destination is updated only when the whole extraction succeeds *)
Definition parse_estimate (s : string) : option ((Q * Q) * string) :=      (* (value, error), rest *)
  let s0 := skip_ws s in
  let '(bracketed, s1) := match s0 with String "("%char r => (true, r) | _ => (false, s0) end in
  match s0 with
  | EmptyString => None
  | _ =>
    match parse_num s1 with
    | Some (v, r1) =>
        match expect "+" r1 with
        | Some r2 =>
            match expect "-" r2 with
            | Some r3 =>
                match parse_num r3 with
                | Some (e, r4) =>
                    if bracketed then match expect ")" r4 with Some r5 => Some ((v, e), r5) | None => None end
                    else Some ((v, e), r4)
                | None => None
                end
            | None => None
            end
        | None => None
        end
    | None => None
    end
  end.
(* the variance stored is error^2 and the error printed is sqrt(variance): the round trip keeps the
   standard error because sqrt(e*e) = e for e >= 0 *)

(* ---------------- conventions ---------------- *)
Inductive basis := Circular | Linear | Elliptical.
Definition basis_code (b : basis) : Z := match b with Circular => 0 | Linear => 1 | Elliptical => 2 end.
Definition print_basis (b : basis) : string := match b with Linear => "lin" | Circular => "cir" | Elliptical => "ell" end.
Fixpoint token (s : string) : string * string :=
  match s with
  | String c r => if is_ws c then (EmptyString, s) else let '(t, r') := token r in (String c t, r')
  | EmptyString => (EmptyString, s)
  end.
Definition spelled (t : string) : option basis :=
  if String.eqb t "lin" || String.eqb t "Linear" then Some Linear
  else if String.eqb t "cir" || String.eqb t "circ" || String.eqb t "Circular" then Some Circular
  else if String.eqb t "ell" || String.eqb t "Elliptical" then Some Elliptical
  else None.
(* result: None = fail state; Some (None, rest) = stream good but the destination unchanged *)
Definition parse_basis (s : string) : option (option basis * string) :=
  let '(t, r) := token (skip_ws s) in
  match spelled t with
  | Some b => Some (Some b, r)
  | None =>
    match parse_int s with
    | Some (code, r') =>
        if Z.eqb code 0 then Some (Some Circular, r') else if Z.eqb code 1 then Some (Some Linear, r')
        else if Z.eqb code 2 then Some (Some Elliptical, r') else None      (* out-of-range code: fail *)
    | None => None
    end
  end.
(* Hand / Argument: the integers +1 and -1 only *)
Definition parse_pm1 (s : string) : option (Z * string) :=
  match parse_int s with
  | Some (code, r) => if Z.eqb (Z.abs code) 1 then Some (code, r) else None
  | None => None
  end.
Definition print_pm1 (z : Z) : string := if Z.ltb z 0 then "-1" else "+1".

Definition ws_or_end (s : string) : bool := match s with EmptyString => true | String c _ => is_ws c end.
Fixpoint no_ws (s : string) : bool := match s with EmptyString => true | String c r => negb (is_ws c) && no_ws r end.
Lemma token_app t rest : no_ws t = true -> ws_or_end rest = true -> token (t ++ rest) = (t, rest).
Proof.
  induction t as [|c t IH]; cbn [append token no_ws]; intros Ht Hr.
  - destruct rest as [|d r]; [reflexivity|]. cbn [ws_or_end] in Hr. cbn [token]. rewrite Hr. reflexivity.
  - apply andb_prop in Ht. destruct Ht as [Hc Ht]. apply negb_true_iff in Hc. rewrite Hc, (IH Ht Hr). reflexivity.
Qed.

(* every documented spelling maps to its enumerator; in particular the printed form parses back *)
Theorem basis_spellings rest : ws_or_end rest = true ->
  parse_basis ("lin" ++ rest) = Some (Some Linear, rest) /\ parse_basis ("Linear" ++ rest) = Some (Some Linear, rest) /\
  parse_basis ("cir" ++ rest) = Some (Some Circular, rest) /\ parse_basis ("circ" ++ rest) = Some (Some Circular, rest) /\
  parse_basis ("Circular" ++ rest) = Some (Some Circular, rest) /\
  parse_basis ("ell" ++ rest) = Some (Some Elliptical, rest) /\ parse_basis ("Elliptical" ++ rest) = Some (Some Elliptical, rest).
Proof.
  intros H. unfold parse_basis.
  repeat split;
  match goal with |- context [skip_ws (?t ++ rest)] =>
    change (skip_ws (t ++ rest)) with (t ++ rest); rewrite (token_app t rest eq_refl H); reflexivity end.
Qed.
Theorem basis_roundtrip b rest : ws_or_end rest = true -> parse_basis (print_basis b ++ rest) = Some (Some b, rest).
Proof. intros H. destruct (basis_spellings rest H) as [A [_ [B [_ [_ [C _]]]]]]. destruct b; assumption. Qed.
(* numeric codes 0, 1, 2 are accepted; any other integer sets the fail state *)
Theorem basis_codes :
  parse_basis "0" = Some (Some Circular, "") /\ parse_basis "1" = Some (Some Linear, "") /\ parse_basis "2" = Some (Some Elliptical, "") /\
  parse_basis "7" = None /\ parse_basis "-1" = None /\ parse_basis "li" = None.
Proof. repeat split; reflexivity. Qed.
Theorem pm1_roundtrip : parse_pm1 (print_pm1 1) = Some (1%Z, "") /\ parse_pm1 (print_pm1 (-1)) = Some ((-1)%Z, "") /\
  parse_pm1 "1" = Some (1%Z, "") /\ parse_pm1 "0" = None /\ parse_pm1 "2" = None /\ parse_pm1 "x" = None.
Proof. repeat split; reflexivity. Qed.

(* decimal literals: a printed integer parses back (non-vacuity of the element hypothesis of parse_print_vec) *)
Example num_examples :
  parse_num "1.5," = Some (3 # 2, ",") /\ parse_num "-0.25)" = Some (- (1 # 4), ")") /\ parse_num " 3e2 x" = Some (300 # 1, " x") /\
  parse_num "2.5e-1+-" = Some (1 # 4, "+-") /\ parse_num "abc" = None /\ parse_num "." = None.
Proof. repeat split; vm_compute; reflexivity. Qed.
Example estimate_examples :
  parse_estimate "(1.5+-0.25) rest" = Some ((3 # 2, 1 # 4), " rest") /\ parse_estimate "2+-1" = Some ((2 # 1, 1 # 1), "") /\
  parse_estimate "(1.5+0.25)" = None /\ parse_estimate "(1.5+-0.25" = None /\ parse_estimate "1.5-+0.25" = None.
Proof. repeat split; vm_compute; reflexivity. Qed.
Example vec_examples :
  parse_vec Q parse_num 3 "(1,2.5,-3) tail" = Some ([1 # 1; 5 # 2; - (3 # 1)], " tail") /\
  parse_vec Q parse_num 3 "(1;2.5,-3)" = None /\ parse_vec Q parse_num 3 "(1,2.5)" = None /\ parse_vec Q parse_num 2 "1,2)" = None /\
  parse_vec (Q * Q) parse_estimate 2 "((1+-0.5),(2+-0.25))" = Some ([(1 # 1, 1 # 2); (2 # 1, 1 # 4)], "").
Proof. repeat split; vm_compute; reflexivity. Qed.

(* ---------------- nested element types ---------------- *)
Section Nested.
(* a number printer of sufficient precision: what it prints parses back to the same value whenever
   the text that follows starts with a character that cannot continue a number *)
Variable pn : Q -> string.
Definition stops_number (rest : string) : Prop :=
  match rest with String c _ => c = ","%char \/ c = ")"%char \/ c = "+"%char | EmptyString => False end.
Hypothesis pn_roundtrip : forall q rest, stops_number rest -> parse_num (pn q ++ rest) = Some (q, rest).
(* the printed number does not start with white space or a bracket *)
Hypothesis pn_head : forall q rest, skip_ws (pn q ++ rest) = pn q ++ rest /\
  match pn q ++ rest with String "("%char _ => False | EmptyString => False | _ => True end.

Definition print_estimate (ve : Q * Q) : string := "(" ++ pn (fst ve) ++ "+-" ++ pn (snd ve) ++ ")".

Theorem parse_print_estimate ve rest : parse_estimate (print_estimate ve ++ rest) = Some (ve, rest).
Proof.
  destruct ve as [v e]. unfold print_estimate; cbn [fst snd]. rewrite !app_assoc_s.
  change ("(" ++ pn v ++ "+-" ++ pn e ++ ")" ++ rest) with (String "("%char (pn v ++ ("+-" ++ (pn e ++ (")" ++ rest))))).
  unfold parse_estimate. cbn [skip_ws is_ws].
  rewrite (pn_roundtrip v ("+-" ++ (pn e ++ (")" ++ rest)))) by (cbn; tauto).
  cbn [expect append Ascii.eqb Bool.eqb].
  rewrite (pn_roundtrip e (String ")"%char rest)) by (cbn; tauto).
  cbn [expect append Ascii.eqb Bool.eqb]. reflexivity.
Qed.

(* std::complex: "(re,im)" *)
Definition print_complex (z : Q * Q) : string := "(" ++ pn (fst z) ++ "," ++ pn (snd z) ++ ")".
Theorem parse_print_complex z rest : parse_complex (print_complex z ++ rest) = Some (z, rest).
Proof.
  destruct z as [re im]. unfold print_complex; cbn [fst snd]. rewrite !app_assoc_s.
  change ("(" ++ pn re ++ "," ++ pn im ++ ")" ++ rest) with (String "("%char (pn re ++ ("," ++ (pn im ++ (")" ++ rest))))).
  unfold parse_complex. cbn [skip_ws is_ws].
  rewrite (pn_roundtrip re ("," ++ (pn im ++ (")" ++ rest)))) by (cbn; tauto).
  cbn [append skip_ws is_ws].
  rewrite (pn_roundtrip im (String ")"%char rest)) by (cbn; tauto).
  cbn [skip_ws is_ws]. reflexivity.
Qed.
(* Vector<complex> *)
Theorem parse_print_vector_of_complex x t rest :
  parse_vec (Q * Q) parse_complex (length (x :: t)) (print_vec (Q * Q) print_complex (x :: t) ++ rest) = Some (x :: t, rest).
Proof. apply parse_print_vec. intros z r _. apply parse_print_complex. Qed.

(* Vector<Estimate>: same value and same standard error for every element, any length *)
Theorem parse_print_vector_of_estimates x t rest :
  parse_vec (Q * Q) parse_estimate (length (x :: t)) (print_vec (Q * Q) print_estimate (x :: t) ++ rest) = Some (x :: t, rest).
Proof. apply parse_print_vec. intros ve r _. apply parse_print_estimate. Qed.
(* Vector<double> / Stokes *)
Theorem parse_print_vector_of_numbers x t rest :
  parse_vec Q parse_num (length (x :: t)) (print_vec Q pn (x :: t) ++ rest) = Some (x :: t, rest).
Proof.
  apply parse_print_vec. intros q r H. apply pn_roundtrip. destruct r; cbn in *; [exact H | tauto].
Qed.
End Nested.
