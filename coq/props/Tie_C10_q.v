(* Tie_C10_q.v -- eigen (Quaternion<T,Hermitian>), every path *)
From Coq Require Import Reals Lra List.
From Epsic Require Import Scalar Gen_C10 Tie_C10.
Import ListNotations.
Local Open Scope R_scope.

(* first branch: m = 1/sqrt(2p(p - s1)) *)
Ltac branch_minus q1 q2 q3 :=
  pose proof (pnorm_sq q1 q2 q3) as Sp; pose proof (pnorm_ge q1 q2 q3) as Pp;
  set (p := pnorm q1 q2 q3) in *;
  assert (Hr0 : 0 < 2 * p * (p - q1)) by nra;
  pose proof (sqrt_sqrt (2 * p * (p - q1)) (Rlt_le _ _ Hr0)) as Sr;
  pose proof (sqrt_lt_R0 _ Hr0) as Pr; set (r := sqrt (2 * p * (p - q1))) in *;
  assert (Nr : r <> 0) by lra;
  assert (E2 : q2 * q2 = p * p - q1 * q1 - q3 * q3) by lra;
  assert (Er : r * r = 2 * p * p - 2 * p * q1) by lra;
  list_eq ltac:(first [ reflexivity | field_simplify_eq; [ ring [E2 Er] | exact Nr ] ]).

(* second branch: m = 1/(sqrt(2p) sqrt(d)), d = p + s1 (Hd : 0 < p + q1 in context, goal mentions sqrt (p + q1)) *)
Ltac branch_plus q1 q2 q3 :=
  match goal with Sp : pnorm q1 q2 q3 * pnorm q1 q2 q3 = _, Hd : 0 < pnorm q1 q2 q3 + q1, PP : 0 < pnorm q1 q2 q3 |- _ =>
  set (p := pnorm q1 q2 q3) in *;
  assert (Ha0 : 0 < 2 * p) by lra;
  pose proof (sqrt_sqrt (2 * p) (Rlt_le _ _ Ha0)) as Sa; pose proof (sqrt_lt_R0 _ Ha0) as Pa; set (a := sqrt (2 * p)) in *;
  pose proof (sqrt_sqrt (p + q1) (Rlt_le _ _ Hd)) as Sb; pose proof (sqrt_lt_R0 _ Hd) as Pb; set (b := sqrt (p + q1)) in *;
  assert (Na : a <> 0) by lra; assert (Nb : b <> 0) by lra;
  assert (E2 : q2 * q2 = p * p - q1 * q1 - q3 * q3) by lra;
  assert (Ea : a * a = 2 * p) by lra; assert (Eb : b * b = p + q1) by lra;
  list_eq ltac:(first [ reflexivity | field_simplify_eq; [ ring [E2 Ea Eb] | split; assumption ] ])
  end.

Lemma tie_qeigen_p00 q0 q1 q2 q3 : qeigen_p00_pc (OO:=ROps) q0 q1 q2 q3 -> eigen_spec q0 q1 q2 q3 (qeigen_p00 (OO:=ROps) q0 q1 q2 q3).
Proof.
  unfold eigen_spec. autounfold with gen; ops_R. cbn [skipn]. rewrite ?(hyp_pnorm q1 q2 q3).
  intros [Hp Hq]. pose proof (pnorm_sq q1 q2 q3) as Sp. pose proof (pnorm_ge q1 q2 q3) as Pp.
  assert (PP : 0 < pnorm q1 q2 q3) by lra. assert (Hd : 0 < pnorm q1 q2 q3 + q1) by lra.
  branch_plus q1 q2 q3.
Qed.

Lemma tie_qeigen_p011 q0 q1 q2 q3 : qeigen_p011_pc (OO:=ROps) q0 q1 q2 q3 -> eigen_spec q0 q1 q2 q3 (qeigen_p011 (OO:=ROps) q0 q1 q2 q3).
Proof.
  unfold eigen_spec. autounfold with gen; ops_R. cbn [skipn]. rewrite ?(hyp_pnorm q1 q2 q3).
  intros [Hp [Hq _]]. branch_minus q1 q2 q3.
Qed.

Lemma tie_qeigen_p0100 q0 q1 q2 q3 : qeigen_p0100_pc (OO:=ROps) q0 q1 q2 q3 -> eigen_spec q0 q1 q2 q3 (qeigen_p0100 (OO:=ROps) q0 q1 q2 q3).
Proof.
  unfold eigen_spec. autounfold with gen; ops_R. cbn [skipn]. rewrite ?(hyp_pnorm q1 q2 q3).
  intros [Hp [Hq [_ H2]]]. assert (Hax : ~ (q2 = 0 /\ q3 = 0)) by tauto. destruct (d_stable q1 q2 q3 Hq Hax) as [Ed [Hd PP]].
  rewrite !Ed. pose proof (pnorm_sq q1 q2 q3) as Sp. branch_plus q1 q2 q3.
Qed.
Lemma tie_qeigen_p01010 q0 q1 q2 q3 : qeigen_p01010_pc (OO:=ROps) q0 q1 q2 q3 -> eigen_spec q0 q1 q2 q3 (qeigen_p01010 (OO:=ROps) q0 q1 q2 q3).
Proof.
  unfold eigen_spec. autounfold with gen; ops_R. cbn [skipn]. rewrite ?(hyp_pnorm q1 q2 q3).
  intros [Hp [Hq [_ [_ H3]]]]. assert (Hax : ~ (q2 = 0 /\ q3 = 0)) by tauto. destruct (d_stable q1 q2 q3 Hq Hax) as [Ed [Hd PP]].
  rewrite !Ed. pose proof (pnorm_sq q1 q2 q3) as Sp. branch_plus q1 q2 q3.
Qed.
Lemma tie_qeigen_p01011 q0 q1 q2 q3 : qeigen_p01011_pc (OO:=ROps) q0 q1 q2 q3 -> eigen_spec q0 q1 q2 q3 (qeigen_p01011 (OO:=ROps) q0 q1 q2 q3).
Proof.
  unfold eigen_spec. autounfold with gen; ops_R. cbn [skipn]. rewrite ?(hyp_pnorm q1 q2 q3).
  intros [Hp [Hq _]]. branch_minus q1 q2 q3.
Qed.
Lemma tie_qeigen_p1 q0 q1 q2 q3 : qeigen_p1_pc (OO:=ROps) q0 q1 q2 q3 -> eigen_spec q0 q1 q2 q3 (qeigen_p1 (OO:=ROps) q0 q1 q2 q3).
Proof.
  unfold eigen_spec. autounfold with gen; ops_R. cbn [skipn]. rewrite ?(hyp_pnorm q1 q2 q3).
  intros Hp. pose proof (pnorm_sq q1 q2 q3) as Sp. rewrite Hp in *.
  assert (Z1 : q1 = 0) by nra. assert (Z2 : q2 = 0) by nra. assert (Z3 : q3 = 0) by nra. subst q1 q2 q3.
  list_eq ltac:(first [ reflexivity | ring ]).
Qed.

Lemma tie_qeigen q0 q1 q2 q3 :
  Forall (fun c : Prop * list R => fst c -> eigen_spec q0 q1 q2 q3 (snd c)) (qeigen_cases (OO:=ROps) q0 q1 q2 q3).
Proof.
  unfold qeigen_cases.
  apply Forall_cons; [ exact (tie_qeigen_p00 q0 q1 q2 q3) | ]. apply Forall_cons; [ exact (tie_qeigen_p011 q0 q1 q2 q3) | ].
  apply Forall_cons; [ exact (tie_qeigen_p0100 q0 q1 q2 q3) | ]. apply Forall_cons; [ exact (tie_qeigen_p01010 q0 q1 q2 q3) | ].
  apply Forall_cons; [ exact (tie_qeigen_p01011 q0 q1 q2 q3) | ]. apply Forall_cons; [ exact (tie_qeigen_p1 q0 q1 q2 q3) | apply Forall_nil ].
Qed.
Lemma qeigen_total q0 q1 q2 q3 : Exists (fun c : Prop * list R => fst c) (qeigen_cases (OO:=ROps) q0 q1 q2 q3).
Proof.
  autounfold with gen; ops_R. rewrite ?(hyp_pnorm q1 q2 q3).
  destruct (Req_dec (pnorm q1 q2 q3) 0) as [Zp|Np]; [ do 5 apply Exists_cons_tl; apply Exists_cons_hd; exact Zp | ].
  destruct (Rlt_dec q1 0) as [L|G]; [ | apply Exists_cons_hd; cbn [fst]; tauto ].
  destruct (Req_dec q0 0) as [Z0|N0]; [ | apply Exists_cons_tl; apply Exists_cons_hd; cbn [fst]; tauto ].
  destruct (Req_dec q2 0) as [Z2|N2]; [ | do 2 apply Exists_cons_tl; apply Exists_cons_hd; cbn [fst]; tauto ].
  destruct (Req_dec q3 0) as [Z3|N3]; [ do 4 apply Exists_cons_tl | do 3 apply Exists_cons_tl ]; apply Exists_cons_hd; cbn [fst]; tauto.
Qed.
