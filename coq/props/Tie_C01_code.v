(* Tie_C01_code.v -- the real epsic::mode (mode.cpp, mode.h) as generated:
   - set_Stokes: on every path of the quaternion square root the polarizer P is Hermitian
     with P P = S0 + S.sigma = 2 rho, for every valid mean (S0 >= 0, S0^2 >= |p|^2, incl. |p| = S0 and S = 0);
   - get_field: P applied to (g0 + i g1, g2 + i g3)/2, four fresh deviates per instance;
   - get_mean / get_covariance / get_crosscovariance. *)
From Coq Require Import Reals Lra List.
From Epsic Require Import Scalar SpecPauli Gen_C01.
Import ListNotations.
Local Open Scope R_scope.

Ltac deep := first [ ring | field; nz_auto | (apply f_equal; deep) | (apply f_equal2; deep) ].

(* outputs of `polarizer`: P (8), P*P (8), 2 rho (8), P^dagger (8) *)
Definition polarizer_ok (l : list R) : Prop :=
  firstn 8 (skipn 8 l) = firstn 8 (skipn 16 l) /\ firstn 8 l = firstn 8 (skipn 24 l).

Lemma tie_polarizer s0 s1 s2 s3 : 0 <= s0 -> 0 <= s0 * s0 - s1 * s1 - s2 * s2 - s3 * s3 ->
  Forall (fun c : Prop * list R => fst c -> polarizer_ok (snd c)) (polarizer_cases (OO:=ROps) s0 s1 s2 s3).
Proof.
  intros H0 Hdet. unfold polarizer_ok. autounfold with gen; ops_R.
  (* in the linear basis natural(S) = (S0, 0 + 1*S1 + 0*S2 + 0*S3, ...): name the permuted components *)
  set (n1 := 0 + 1 * s1 + 0 * s2 + 0 * s3) in *. set (n2 := 0 + 0 * s1 + 1 * s2 + 0 * s3) in *. set (n3 := 0 + 0 * s1 + 0 * s2 + 1 * s3) in *.
  assert (N1 : n1 = s1) by (unfold n1; ring). assert (N2 : n2 = s2) by (unfold n2; ring). assert (N3 : n3 = s3) by (unfold n3; ring).
  clearbody n1 n2 n3. subst n1 n2 n3.
  assert (Hrd : sqrt (s0 * s0 - s1 * s1 - s2 * s2 - s3 * s3) * sqrt (s0 * s0 - s1 * s1 - s2 * s2 - s3 * s3)
                = s0 * s0 - s1 * s1 - s2 * s2 - s3 * s3) by (apply sqrt_sqrt; exact Hdet).
  assert (Prd : 0 <= sqrt (s0 * s0 - s1 * s1 - s2 * s2 - s3 * s3)) by apply sqrt_pos.
  set (rd := sqrt (s0 * s0 - s1 * s1 - s2 * s2 - s3 * s3)) in *.
  assert (Ha : sqrt (1 / 2 * (s0 + rd)) * sqrt (1 / 2 * (s0 + rd)) = 1 / 2 * (s0 + rd)) by (apply sqrt_sqrt; lra).
  set (a := sqrt (1 / 2 * (s0 + rd))) in *.
  clearbody rd a.
  repeat (apply Forall_cons; [ cbn [fst snd firstn skipn]; intros PC | ]); [ .. | apply Forall_nil ].
  all: try solve [exfalso; lra].
  - destruct PC as [_ PCa].
    assert (E0 : s0 = 2 * (a * a) - rd) by lra.
    assert (E1 : s1 * s1 = 4 * (a * a * a * a) - 4 * (a * a) * rd - s2 * s2 - s3 * s3) by (subst s0; nra).
    clear Ha Hrd Hdet H0. subst s0. split;
    list_eq ltac:(first [ ring | field; exact PCa | (field_simplify_eq; [ ring [E1] | exact PCa ]) ]).
  - destruct PC as [_ PCa].
    assert (Z0 : s0 = 0) by (rewrite PCa in Ha; lra).
    assert (Zr : rd = 0) by (rewrite PCa in Ha; lra).
    assert (Z1 : s1 = 0) by (rewrite Z0, Zr in Hrd; nra).
    assert (Z2 : s2 = 0) by (rewrite Z0, Zr in Hrd; nra).
    assert (Z3 : s3 = 0) by (rewrite Z0, Zr in Hrd; nra).
    subst s0 s1 s2 s3. split; list_eq ltac:(first [ring | field]).
Qed.

(* get_field on the generic path (root scalar a <> 0): the instantaneous Stokes parameters are
   those of the polarizer with root quaternion (a, S1/2a, S2/2a, S3/2a) applied to the deviates;
   exactly four fresh deviates are consumed.  (g++ evaluates the two arguments of the complex
   constructor right to left, so the first deviate drawn is the imaginary part: the instance is the
   root-form instance at (g1, g0, g3, g2); the deviates are exchangeable.) *)
Lemma tie_instance s0 s1 s2 s3 g0 g1 g2 g3 :
  let a := sqrt (1 / 2 * (s0 + sqrt (s0 * s0 - s1 * s1 - s2 * s2 - s3 * s3))) in
  a <> 0 -> instance_pc (OO:=ROps) s0 s1 s2 s3 g0 g1 g2 g3 ->
  skipn 4 (instance (OO:=ROps) s0 s1 s2 s3 g0 g1 g2 g3)
  = instance_from_root (OO:=ROps) a (s1 / (2 * a)) (s2 / (2 * a)) (s3 / (2 * a)) g1 g0 g3 g2 ++ [4].
Proof.
  intros a Ha PC. subst a. autounfold with gen; ops_R; cbn [skipn app].
  replace (0 + 1 * s1 + 0 * s2 + 0 * s3) with s1 by ring.
  replace (0 + 0 * s1 + 1 * s2 + 0 * s3) with s2 by ring.
  replace (0 + 0 * s1 + 0 * s2 + 1 * s3) with s3 by ring.
  set (a := sqrt (1 / 2 * (s0 + sqrt (s0 * s0 - s1 * s1 - s2 * s2 - s3 * s3)))) in *. clearbody a.
  list_eq ltac:(first [ ring | field; exact Ha ]).
Qed.

(* the instance of the zero-intensity mode is the zero field *)
(* successive instances use disjoint deviates: the second instance is the same function of g4..g7 *)
Lemma tie_two_instances s0 s1 s2 s3 g0 g1 g2 g3 g4 g5 g6 g7 :
  two_instances (OO:=ROps) s0 s1 s2 s3 g0 g1 g2 g3 g4 g5 g6 g7
  = firstn 4 (instance (OO:=ROps) s0 s1 s2 s3 g0 g1 g2 g3) ++ firstn 4 (instance (OO:=ROps) s0 s1 s2 s3 g4 g5 g6 g7) ++ [4; 8].
Proof. autounfold with gen; ops_R; cbn [firstn app]. list_eq deep. Qed.

(* what the mode reports: mean S, covariance = Minkowski outer(S,S), cross-covariance = covariance at
   lag 0 and zero at lags 1, 2, 3 *)
Lemma tie_reported s0 s1 s2 s3 :
  reported (OO:=ROps) s0 s1 s2 s3 =
  [s0; s1; s2; s3] ++ grid16 (mink_outer_spec (mkV4 s0 s1 s2 s3) (mkV4 s0 s1 s2 s3))
  ++ grid16 (mink_outer_spec (mkV4 s0 s1 s2 s3) (mkV4 s0 s1 s2 s3)) ++ repeat 0 48.
Proof.
  autounfold with gen; ops_R. unfold grid16, idx4, mink_outer_spec, mink_inner_spec, eta.
  cbn [v4nth v0 v1 v2 v3 Nat.eqb flat_map map app repeat]. list_eq deep.
Qed.

(* ... and on every path of set_Stokes (any input, zero intensity and |p| = I included), also on an
   object that carried another mean before: nothing is left over from the previous state *)
Lemma tie_reported_paths s0 s1 s2 s3 :
  Forall (fun c : Prop * list R => fst c -> snd c =
            [s0; s1; s2; s3] ++ grid16 (mink_outer_spec (mkV4 s0 s1 s2 s3) (mkV4 s0 s1 s2 s3))
            ++ grid16 (mink_outer_spec (mkV4 s0 s1 s2 s3) (mkV4 s0 s1 s2 s3)) ++ repeat 0 16)
         (reported_paths_cases (OO:=ROps) s0 s1 s2 s3).
Proof.
  autounfold with gen; ops_R. unfold grid16, idx4, mink_outer_spec, mink_inner_spec, eta.
  cbn [v4nth v0 v1 v2 v3 Nat.eqb flat_map map app repeat].
  repeat (apply Forall_cons; [ cbn [fst snd]; intros PC; list_eq deep | ]). apply Forall_nil.
Qed.
