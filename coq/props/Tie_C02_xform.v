(* Tie_C02_xform.v -- GENERATED ONCE by harness/gen_tie_C02.py and committed.
   transform = Mueller.S = congruence, invariant scaling, field picture. *)
From Coq Require Import Reals Lra List.
From Epsic Require Import Scalar SpecPauli SpecJones Gen_C02.
Import ListNotations.
Local Open Scope R_scope.

Definition halves_eq (n : nat) (l : list R) : Prop := firstn n l = skipn n l.

(* abstract cos x / sin x to variables c, s with s*s = 1 - c*c *)
Ltac trig_abs :=
  repeat match goal with
  | |- context [cos ?x] => let c := fresh "c" in let s := fresh "s" in let H := fresh "Htrig" in
       assert (H : sin x * sin x = 1 - cos x * cos x) by (pose proof (sin2_cos2 x) as H; unfold Rsqr in H; lra);
       set (c := cos x) in *; set (s := sin x) in *; clearbody c s
  end.
Ltac trig_ring := match goal with
  | H1 : _ * _ = 1 - _, H2 : _ * _ = 1 - _ |- _ => first [ring [H1 H2] | field [H1 H2] | (field_simplify_eq; ring [H1 H2])]
  | H1 : _ * _ = 1 - _ |- _ => first [ring [H1] | field [H1] | (field_simplify_eq; ring [H1])]
  end.
Ltac solve_entry := first [ field | ring | trig_ring | lazymatch goal with |- ?a = ?a => reflexivity end ].
Ltac pc_zero := intros; autounfold with gen; ops_R; trig_abs; repeat split;
  (let H := fresh "H" in intro H;
   match type of H with ?b < ?a =>
     let E := fresh "E" in assert (E : a = 0) by solve_entry; rewrite E in H; lra end).
Ltac law := intros; unfold halves_eq; autounfold with gen; ops_R; cbn [firstn skipn]; trig_abs; list_eq solve_entry.

Lemma law_transform_mueller_lin s0 s1 s2 s3 j00r j00i j01r j01i j10r j10i j11r j11i :
  halves_eq 4 (transform_mueller_lin (OO:=ROps) s0 s1 s2 s3 j00r j00i j01r j01i j10r j10i j11r j11i).
Proof. law. Qed.

Lemma pc_transform_mueller_lin s0 s1 s2 s3 j00r j00i j01r j01i j10r j10i j11r j11i : transform_mueller_lin_pc (OO:=ROps) s0 s1 s2 s3 j00r j00i j01r j01i j10r j10i j11r j11i.
Proof. pc_zero. Qed.

Lemma law_transform_congruence_lin s0 s1 s2 s3 j00r j00i j01r j01i j10r j10i j11r j11i :
  halves_eq 8 (transform_congruence_lin (OO:=ROps) s0 s1 s2 s3 j00r j00i j01r j01i j10r j10i j11r j11i).
Proof. law. Qed.

Lemma pc_transform_congruence_lin s0 s1 s2 s3 j00r j00i j01r j01i j10r j10i j11r j11i : transform_congruence_lin_pc (OO:=ROps) s0 s1 s2 s3 j00r j00i j01r j01i j10r j10i j11r j11i.
Proof. pc_zero. Qed.

Lemma law_invariant_scaling_lin s0 s1 s2 s3 j00r j00i j01r j01i j10r j10i j11r j11i :
  halves_eq 1 (invariant_scaling_lin (OO:=ROps) s0 s1 s2 s3 j00r j00i j01r j01i j10r j10i j11r j11i).
Proof. law. Qed.

Lemma pc_invariant_scaling_lin s0 s1 s2 s3 j00r j00i j01r j01i j10r j10i j11r j11i : invariant_scaling_lin_pc (OO:=ROps) s0 s1 s2 s3 j00r j00i j01r j01i j10r j10i j11r j11i.
Proof. pc_zero. Qed.

Lemma law_transform_mueller_circ s0 s1 s2 s3 j00r j00i j01r j01i j10r j10i j11r j11i :
  halves_eq 4 (transform_mueller_circ (OO:=ROps) s0 s1 s2 s3 j00r j00i j01r j01i j10r j10i j11r j11i).
Proof. law. Qed.

Lemma pc_transform_mueller_circ s0 s1 s2 s3 j00r j00i j01r j01i j10r j10i j11r j11i : transform_mueller_circ_pc (OO:=ROps) s0 s1 s2 s3 j00r j00i j01r j01i j10r j10i j11r j11i.
Proof. pc_zero. Qed.

Lemma law_transform_congruence_circ s0 s1 s2 s3 j00r j00i j01r j01i j10r j10i j11r j11i :
  halves_eq 8 (transform_congruence_circ (OO:=ROps) s0 s1 s2 s3 j00r j00i j01r j01i j10r j10i j11r j11i).
Proof. law. Qed.

Lemma pc_transform_congruence_circ s0 s1 s2 s3 j00r j00i j01r j01i j10r j10i j11r j11i : transform_congruence_circ_pc (OO:=ROps) s0 s1 s2 s3 j00r j00i j01r j01i j10r j10i j11r j11i.
Proof. pc_zero. Qed.

Lemma law_invariant_scaling_circ s0 s1 s2 s3 j00r j00i j01r j01i j10r j10i j11r j11i :
  halves_eq 1 (invariant_scaling_circ (OO:=ROps) s0 s1 s2 s3 j00r j00i j01r j01i j10r j10i j11r j11i).
Proof. law. Qed.

Lemma pc_invariant_scaling_circ s0 s1 s2 s3 j00r j00i j01r j01i j10r j10i j11r j11i : invariant_scaling_circ_pc (OO:=ROps) s0 s1 s2 s3 j00r j00i j01r j01i j10r j10i j11r j11i.
Proof. pc_zero. Qed.

Lemma law_spinor_lin xr xi yr yi j00r j00i j01r j01i j10r j10i j11r j11i :
  halves_eq 4 (spinor_lin (OO:=ROps) xr xi yr yi j00r j00i j01r j01i j10r j10i j11r j11i).
Proof. law. Qed.

Lemma pc_spinor_lin xr xi yr yi j00r j00i j01r j01i j10r j10i j11r j11i : spinor_lin_pc (OO:=ROps) xr xi yr yi j00r j00i j01r j01i j10r j10i j11r j11i.
Proof. pc_zero. Qed.

Lemma law_detect_lin xr xi yr yi :
  halves_eq 4 (detect_lin (OO:=ROps) xr xi yr yi).
Proof. law. Qed.

Lemma pc_detect_lin xr xi yr yi : detect_lin_pc (OO:=ROps) xr xi yr yi.
Proof. pc_zero. Qed.
