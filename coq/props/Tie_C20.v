(* Tie_C20.v -- container logic of true_math::finite as generated from complex_math.h, Vector.h,
   Jones.h, Estimate.h: on every path (every outcome of the scalar predicate on each component)
   the container is reported finite exactly when every component is.  The statements are generic
   in the scalar interpretation: `ofinite x` is the scalar predicate, whatever it computes. *)
From Coq Require Import ZArith List.
From Epsic Require Import Scalar Gen_C20.
Import ListNotations.

Section Generic.
Context {TT : Type} {OO : Ops TT}.
Notation fin x := (@ofinite TT OO x (@oint TT OO 0)).
Ltac cases_tie :=
  autounfold with gen;
  repeat (apply Forall_cons; [ cbn [fst snd]; intros PC; first [ left; split; [reflexivity | tauto] | right; split; [reflexivity | tauto] ] | ]);
  apply Forall_nil.

Lemma tie_fin_complex zr zi :
  Forall (fun c : Prop * list TT => fst c -> (snd c = [oint 1] /\ (fin zr /\ fin zi)) \/ (snd c = [oint 0] /\ ~ (fin zr /\ fin zi)))
         (fin_complex_cases (OO:=OO) zr zi).
Proof. cases_tie. Qed.
Lemma tie_fin_vector v0 v1 v2 :
  Forall (fun c : Prop * list TT => fst c -> (snd c = [oint 1] /\ (fin v0 /\ fin v1 /\ fin v2)) \/ (snd c = [oint 0] /\ ~ (fin v0 /\ fin v1 /\ fin v2)))
         (fin_vector_cases (OO:=OO) v0 v1 v2).
Proof. cases_tie. Qed.
Lemma tie_fin_jones a b c d e f g h :
  Forall (fun k : Prop * list TT => fst k ->
            (snd k = [oint 1] /\ (fin a /\ fin b /\ fin c /\ fin d /\ fin e /\ fin f /\ fin g /\ fin h))
            \/ (snd k = [oint 0] /\ ~ (fin a /\ fin b /\ fin c /\ fin d /\ fin e /\ fin f /\ fin g /\ fin h)))
         (fin_jones_cases (OO:=OO) a b c d e f g h).
Proof. cases_tie. Qed.
(* an estimate is finite exactly when its value is (the variance is not consulted) *)
Lemma tie_fin_estimate val var :
  Forall (fun c : Prop * list TT => fst c -> (snd c = [oint 1] /\ fin val) \/ (snd c = [oint 0] /\ ~ fin val))
         (fin_estimate_cases (OO:=OO) val var).
Proof. cases_tie. Qed.
End Generic.
