(* Tie_C10_r.v -- one real Jacobi rotation, every path *)
From Coq Require Import Reals Lra List.
From Epsic Require Import Scalar Gen_C10 Tie_C10.
Import ListNotations.
Local Open Scope R_scope.

Lemma tie_jrot2_p00 p q x : jrot2_p00_pc (OO:=ROps) p q x -> jrot_spec p q x (jrot2_p00 (OO:=ROps) p q x).
Proof.
  unfold jrot_spec. autounfold with gen; ops_R. intros [Hx Hth].
  assert (Nx : x <> 0). { intro E; apply Hx; rewrite E, Rabs_R0; ring. }
  set (th := 1 / 2 * (q - p) / x) in *.
  assert (Ep : p = q - 2 * x * th) by (unfold th; field; exact Nx).
  clearbody th. subst p. clear Hx.
  assert (Hth' : 0 <= th) by lra. rewrite (Rabs_right th) by lra.
  assert (PR : 0 < 1 + th * th) by nra.
  pose proof (sqrt_sqrt _ (Rlt_le _ _ PR)) as SR. pose proof (sqrt_lt_R0 _ PR) as PR'.
  set (RR := sqrt (1 + th * th)) in *.
  set (t := 1 / (th + RR)).
  assert (Et : t = RR - th). { unfold t. field_simplify_eq; [ | lra ]. lra. }
  assert (Pt : 0 < t). { unfold t. apply Rdiv_lt_0_compat; lra. }
  assert (Eth : th = (1 - t * t) / (2 * t)). { field_simplify_eq; [ | lra ]. rewrite Et. ring [SR]. }
  clearbody t. clear Et SR PR' PR Hth Hth'. subst th. clear RR.
  assert (PC : 0 < 1 + t * t) by nra.
  pose proof (sqrt_sqrt _ (Rlt_le _ _ PC)) as SC. pose proof (sqrt_lt_R0 _ PC) as PC'.
  set (CC := sqrt (1 + t * t)) in *.
  set (c := 1 / CC).
  assert (Pc : 0 < c). { unfold c. apply Rdiv_lt_0_compat; lra. }
  assert (Ec : c * c * t * t = 1 - c * c). { unfold c. field_simplify_eq; [ | lra ]. ring [SC]. }
  clearbody c. clear SC PC' PC CC.
  assert (N1 : 1 + c <> 0) by lra. assert (Nt : t <> 0) by lra.
  conj_split; try reflexivity; (field_simplify_eq; [ ring [Ec] | auto ]).
Qed.

Lemma tie_jrot2_p01 p q x : jrot2_p01_pc (OO:=ROps) p q x -> jrot_spec p q x (jrot2_p01 (OO:=ROps) p q x).
Proof.
  unfold jrot_spec. autounfold with gen; ops_R. intros [Hx Hth].
  assert (Nx : x <> 0). { intro E; apply Hx; rewrite E, Rabs_R0; ring. }
  set (th := 1 / 2 * (q - p) / x) in *.
  assert (Ep : p = q - 2 * x * th) by (unfold th; field; exact Nx).
  clearbody th. subst p. clear Hx.
  rewrite (Rabs_left th) by lra.
  assert (PR : 0 < 1 + th * th) by nra.
  pose proof (sqrt_sqrt _ (Rlt_le _ _ PR)) as SR. pose proof (sqrt_lt_R0 _ PR) as PR'.
  set (RR := sqrt (1 + th * th)) in *.
  set (t := - (1 / (- th + RR))).
  assert (Et : t = - RR - th). { unfold t. field_simplify_eq; [ | lra ]. ring [SR]. }
  assert (Pt : t < 0). { rewrite Et. nra. }
  assert (Eth : th = (1 - t * t) / (2 * t)). { field_simplify_eq; [ | lra ]. rewrite Et. ring [SR]. }
  clearbody t. clear Et SR PR' PR Hth. subst th. clear RR.
  assert (PC : 0 < 1 + t * t) by nra.
  pose proof (sqrt_sqrt _ (Rlt_le _ _ PC)) as SC. pose proof (sqrt_lt_R0 _ PC) as PC'.
  set (CC := sqrt (1 + t * t)) in *.
  set (c := 1 / CC).
  assert (Pc : 0 < c). { unfold c. apply Rdiv_lt_0_compat; lra. }
  assert (Ec : c * c * t * t = 1 - c * c). { unfold c. field_simplify_eq; [ | lra ]. ring [SC]. }
  clearbody c. clear SC PC' PC CC.
  assert (N1 : 1 + c <> 0) by lra. assert (Nt : t <> 0) by lra.
  conj_split; try reflexivity; (field_simplify_eq; [ ring [Ec] | auto ]).
Qed.

(* the branch taken when the off-diagonal element does not change |q - p|: over the reals that is x = 0 and nothing moves *)
Lemma tie_jrot2_p1 p q x : jrot2_p1_pc (OO:=ROps) p q x -> jrot_spec p q x (jrot2_p1 (OO:=ROps) p q x).
Proof.
  unfold jrot_spec. autounfold with gen; ops_R. intros Hx.
  assert (Zx : x = 0). { destruct (Req_dec x 0) as [E|N]; [exact E|]. pose proof (Rabs_pos_lt x N). lra. }
  subst x. clear Hx.
  replace (0 / (q - p)) with 0 by (unfold Rdiv; ring).
  replace (1 + 0 * 0) with 1 by ring. rewrite sqrt_1.
  conj_split; try reflexivity; field.
Qed.

Lemma jrot2_paths_total p q x : Exists (fun c : Prop * list R => fst c) (jrot2_cases (OO:=ROps) p q x).
Proof.
  autounfold with gen; ops_R.
  destruct (Req_dec (Rabs (q - p) + 100 * Rabs x) (Rabs (q - p))) as [E|N].
  - do 2 apply Exists_cons_tl. apply Exists_cons_hd. exact E.
  - destruct (Rlt_dec (1 / 2 * (q - p) / x) 0) as [L|G].
    + apply Exists_cons_hd. cbn [fst]. tauto.
    + apply Exists_cons_tl. apply Exists_cons_hd. cbn [fst]. tauto.
Qed.

