(* Tie_C06_thorough.v -- GENERATED ONCE by harness/gen_tie_C06.py and committed.
   Pattern G ties: the unrolled code of sample::get_covariance /
   get_crosscovariance at concrete sample sizes n and lags L, run on a stub mode
   with symbolic per-instance statistics c, x0, x1, ..., equals the spec formulas
   of SampleModel at that (n, L), entry by entry. *)
From Coq Require Import Reals Lra List.
From Epsic Require Import Scalar SampleModel Gen_C06.
Import ListNotations.
Local Open Scope R_scope.

Definition pat (i j : nat) : R := 1 + 4 * INR i + INR j.
Definition seqf (l : list R) : nat -> R := fun k => nth k l 0.
Definition grid16 {T} (f : nat -> nat -> T) : list T :=
  flat_map (fun i => map (fun j => f i j) [0;1;2;3]%nat) [0;1;2;3]%nat.
Definition halves_eq (n : nat) (l : list R) : Prop := firstn n l = skipn n l.

Ltac tie := intros; autounfold with gen; ops_R;
  unfold grid16, pat, seqf, cov_formula, xcov_formula, brute;
  cbv beta iota delta [sumf absdiff nth Nat.leb Nat.sub Nat.add Nat.mul INR flat_map map app];
  list_eq ltac:(first [field | ring]).
Ltac law := intros; unfold halves_eq; autounfold with gen; ops_R; cbn [firstn skipn]; list_eq ltac:(first [ring | field]).

Lemma tie_cov_n7 c x0 x1 x2 x3 x4 x5 x6 x7 :
  cov_n7 (OO:=ROps) c x0 x1 x2 x3 x4 x5 x6 x7 = grid16 (fun i j => pat i j * cov_formula c (seqf [x0; x1; x2; x3; x4; x5; x6; x7]) 7).
Proof. tie. Qed.

Lemma tie_xcov_n7_L0 c x0 x1 x2 x3 x4 x5 x6 x7 :
  xcov_n7_L0 (OO:=ROps) c x0 x1 x2 x3 x4 x5 x6 x7 = grid16 (fun i j => pat i j * xcov_formula (seqf [x0; x1; x2; x3; x4; x5; x6; x7]) 7 0).
Proof. tie. Qed.

Lemma tie_xcov_n7_L1 c x0 x1 x2 x3 x4 x5 x6 x7 x8 x9 x10 x11 x12 x13 x14 :
  xcov_n7_L1 (OO:=ROps) c x0 x1 x2 x3 x4 x5 x6 x7 x8 x9 x10 x11 x12 x13 x14 = grid16 (fun i j => pat i j * xcov_formula (seqf [x0; x1; x2; x3; x4; x5; x6; x7; x8; x9; x10; x11; x12; x13; x14]) 7 1).
Proof. tie. Qed.

Lemma tie_xcov_n7_L2 c x0 x1 x2 x3 x4 x5 x6 x7 x8 x9 x10 x11 x12 x13 x14 x15 x16 x17 x18 x19 x20 x21 :
  xcov_n7_L2 (OO:=ROps) c x0 x1 x2 x3 x4 x5 x6 x7 x8 x9 x10 x11 x12 x13 x14 x15 x16 x17 x18 x19 x20 x21 = grid16 (fun i j => pat i j * xcov_formula (seqf [x0; x1; x2; x3; x4; x5; x6; x7; x8; x9; x10; x11; x12; x13; x14; x15; x16; x17; x18; x19; x20; x21]) 7 2).
Proof. tie. Qed.

Lemma tie_xcov_n7_L3 c x0 x1 x2 x3 x4 x5 x6 x7 x8 x9 x10 x11 x12 x13 x14 x15 x16 x17 x18 x19 x20 x21 x22 x23 x24 x25 x26 x27 x28 :
  xcov_n7_L3 (OO:=ROps) c x0 x1 x2 x3 x4 x5 x6 x7 x8 x9 x10 x11 x12 x13 x14 x15 x16 x17 x18 x19 x20 x21 x22 x23 x24 x25 x26 x27 x28 = grid16 (fun i j => pat i j * xcov_formula (seqf [x0; x1; x2; x3; x4; x5; x6; x7; x8; x9; x10; x11; x12; x13; x14; x15; x16; x17; x18; x19; x20; x21; x22; x23; x24; x25; x26; x27; x28]) 7 3).
Proof. tie. Qed.

Lemma tie_cov_n8 c x0 x1 x2 x3 x4 x5 x6 x7 x8 :
  cov_n8 (OO:=ROps) c x0 x1 x2 x3 x4 x5 x6 x7 x8 = grid16 (fun i j => pat i j * cov_formula c (seqf [x0; x1; x2; x3; x4; x5; x6; x7; x8]) 8).
Proof. tie. Qed.

Lemma tie_xcov_n8_L0 c x0 x1 x2 x3 x4 x5 x6 x7 x8 :
  xcov_n8_L0 (OO:=ROps) c x0 x1 x2 x3 x4 x5 x6 x7 x8 = grid16 (fun i j => pat i j * xcov_formula (seqf [x0; x1; x2; x3; x4; x5; x6; x7; x8]) 8 0).
Proof. tie. Qed.

Lemma tie_xcov_n8_L1 c x0 x1 x2 x3 x4 x5 x6 x7 x8 x9 x10 x11 x12 x13 x14 x15 x16 :
  xcov_n8_L1 (OO:=ROps) c x0 x1 x2 x3 x4 x5 x6 x7 x8 x9 x10 x11 x12 x13 x14 x15 x16 = grid16 (fun i j => pat i j * xcov_formula (seqf [x0; x1; x2; x3; x4; x5; x6; x7; x8; x9; x10; x11; x12; x13; x14; x15; x16]) 8 1).
Proof. tie. Qed.

Lemma tie_xcov_n8_L2 c x0 x1 x2 x3 x4 x5 x6 x7 x8 x9 x10 x11 x12 x13 x14 x15 x16 x17 x18 x19 x20 x21 x22 x23 x24 :
  xcov_n8_L2 (OO:=ROps) c x0 x1 x2 x3 x4 x5 x6 x7 x8 x9 x10 x11 x12 x13 x14 x15 x16 x17 x18 x19 x20 x21 x22 x23 x24 = grid16 (fun i j => pat i j * xcov_formula (seqf [x0; x1; x2; x3; x4; x5; x6; x7; x8; x9; x10; x11; x12; x13; x14; x15; x16; x17; x18; x19; x20; x21; x22; x23; x24]) 8 2).
Proof. tie. Qed.

Lemma tie_xcov_n8_L3 c x0 x1 x2 x3 x4 x5 x6 x7 x8 x9 x10 x11 x12 x13 x14 x15 x16 x17 x18 x19 x20 x21 x22 x23 x24 x25 x26 x27 x28 x29 x30 x31 x32 :
  xcov_n8_L3 (OO:=ROps) c x0 x1 x2 x3 x4 x5 x6 x7 x8 x9 x10 x11 x12 x13 x14 x15 x16 x17 x18 x19 x20 x21 x22 x23 x24 x25 x26 x27 x28 x29 x30 x31 x32 = grid16 (fun i j => pat i j * xcov_formula (seqf [x0; x1; x2; x3; x4; x5; x6; x7; x8; x9; x10; x11; x12; x13; x14; x15; x16; x17; x18; x19; x20; x21; x22; x23; x24; x25; x26; x27; x28; x29; x30; x31; x32]) 8 3).
Proof. tie. Qed.

Lemma tie_cov_n9 c x0 x1 x2 x3 x4 x5 x6 x7 x8 x9 :
  cov_n9 (OO:=ROps) c x0 x1 x2 x3 x4 x5 x6 x7 x8 x9 = grid16 (fun i j => pat i j * cov_formula c (seqf [x0; x1; x2; x3; x4; x5; x6; x7; x8; x9]) 9).
Proof. tie. Qed.

Lemma tie_xcov_n9_L0 c x0 x1 x2 x3 x4 x5 x6 x7 x8 x9 :
  xcov_n9_L0 (OO:=ROps) c x0 x1 x2 x3 x4 x5 x6 x7 x8 x9 = grid16 (fun i j => pat i j * xcov_formula (seqf [x0; x1; x2; x3; x4; x5; x6; x7; x8; x9]) 9 0).
Proof. tie. Qed.

Lemma tie_xcov_n9_L1 c x0 x1 x2 x3 x4 x5 x6 x7 x8 x9 x10 x11 x12 x13 x14 x15 x16 x17 x18 :
  xcov_n9_L1 (OO:=ROps) c x0 x1 x2 x3 x4 x5 x6 x7 x8 x9 x10 x11 x12 x13 x14 x15 x16 x17 x18 = grid16 (fun i j => pat i j * xcov_formula (seqf [x0; x1; x2; x3; x4; x5; x6; x7; x8; x9; x10; x11; x12; x13; x14; x15; x16; x17; x18]) 9 1).
Proof. tie. Qed.

Lemma tie_xcov_n9_L2 c x0 x1 x2 x3 x4 x5 x6 x7 x8 x9 x10 x11 x12 x13 x14 x15 x16 x17 x18 x19 x20 x21 x22 x23 x24 x25 x26 x27 :
  xcov_n9_L2 (OO:=ROps) c x0 x1 x2 x3 x4 x5 x6 x7 x8 x9 x10 x11 x12 x13 x14 x15 x16 x17 x18 x19 x20 x21 x22 x23 x24 x25 x26 x27 = grid16 (fun i j => pat i j * xcov_formula (seqf [x0; x1; x2; x3; x4; x5; x6; x7; x8; x9; x10; x11; x12; x13; x14; x15; x16; x17; x18; x19; x20; x21; x22; x23; x24; x25; x26; x27]) 9 2).
Proof. tie. Qed.

Lemma tie_xcov_n9_L3 c x0 x1 x2 x3 x4 x5 x6 x7 x8 x9 x10 x11 x12 x13 x14 x15 x16 x17 x18 x19 x20 x21 x22 x23 x24 x25 x26 x27 x28 x29 x30 x31 x32 x33 x34 x35 x36 :
  xcov_n9_L3 (OO:=ROps) c x0 x1 x2 x3 x4 x5 x6 x7 x8 x9 x10 x11 x12 x13 x14 x15 x16 x17 x18 x19 x20 x21 x22 x23 x24 x25 x26 x27 x28 x29 x30 x31 x32 x33 x34 x35 x36 = grid16 (fun i j => pat i j * xcov_formula (seqf [x0; x1; x2; x3; x4; x5; x6; x7; x8; x9; x10; x11; x12; x13; x14; x15; x16; x17; x18; x19; x20; x21; x22; x23; x24; x25; x26; x27; x28; x29; x30; x31; x32; x33; x34; x35; x36]) 9 3).
Proof. tie. Qed.

Lemma tie_cov_n10 c x0 x1 x2 x3 x4 x5 x6 x7 x8 x9 x10 :
  cov_n10 (OO:=ROps) c x0 x1 x2 x3 x4 x5 x6 x7 x8 x9 x10 = grid16 (fun i j => pat i j * cov_formula c (seqf [x0; x1; x2; x3; x4; x5; x6; x7; x8; x9; x10]) 10).
Proof. tie. Qed.

Lemma tie_xcov_n10_L0 c x0 x1 x2 x3 x4 x5 x6 x7 x8 x9 x10 :
  xcov_n10_L0 (OO:=ROps) c x0 x1 x2 x3 x4 x5 x6 x7 x8 x9 x10 = grid16 (fun i j => pat i j * xcov_formula (seqf [x0; x1; x2; x3; x4; x5; x6; x7; x8; x9; x10]) 10 0).
Proof. tie. Qed.

Lemma tie_xcov_n10_L1 c x0 x1 x2 x3 x4 x5 x6 x7 x8 x9 x10 x11 x12 x13 x14 x15 x16 x17 x18 x19 x20 :
  xcov_n10_L1 (OO:=ROps) c x0 x1 x2 x3 x4 x5 x6 x7 x8 x9 x10 x11 x12 x13 x14 x15 x16 x17 x18 x19 x20 = grid16 (fun i j => pat i j * xcov_formula (seqf [x0; x1; x2; x3; x4; x5; x6; x7; x8; x9; x10; x11; x12; x13; x14; x15; x16; x17; x18; x19; x20]) 10 1).
Proof. tie. Qed.

Lemma tie_xcov_n10_L2 c x0 x1 x2 x3 x4 x5 x6 x7 x8 x9 x10 x11 x12 x13 x14 x15 x16 x17 x18 x19 x20 x21 x22 x23 x24 x25 x26 x27 x28 x29 x30 :
  xcov_n10_L2 (OO:=ROps) c x0 x1 x2 x3 x4 x5 x6 x7 x8 x9 x10 x11 x12 x13 x14 x15 x16 x17 x18 x19 x20 x21 x22 x23 x24 x25 x26 x27 x28 x29 x30 = grid16 (fun i j => pat i j * xcov_formula (seqf [x0; x1; x2; x3; x4; x5; x6; x7; x8; x9; x10; x11; x12; x13; x14; x15; x16; x17; x18; x19; x20; x21; x22; x23; x24; x25; x26; x27; x28; x29; x30]) 10 2).
Proof. tie. Qed.

Lemma tie_xcov_n10_L3 c x0 x1 x2 x3 x4 x5 x6 x7 x8 x9 x10 x11 x12 x13 x14 x15 x16 x17 x18 x19 x20 x21 x22 x23 x24 x25 x26 x27 x28 x29 x30 x31 x32 x33 x34 x35 x36 x37 x38 x39 x40 :
  xcov_n10_L3 (OO:=ROps) c x0 x1 x2 x3 x4 x5 x6 x7 x8 x9 x10 x11 x12 x13 x14 x15 x16 x17 x18 x19 x20 x21 x22 x23 x24 x25 x26 x27 x28 x29 x30 x31 x32 x33 x34 x35 x36 x37 x38 x39 x40 = grid16 (fun i j => pat i j * xcov_formula (seqf [x0; x1; x2; x3; x4; x5; x6; x7; x8; x9; x10; x11; x12; x13; x14; x15; x16; x17; x18; x19; x20; x21; x22; x23; x24; x25; x26; x27; x28; x29; x30; x31; x32; x33; x34; x35; x36; x37; x38; x39; x40]) 10 3).
Proof. tie. Qed.
