(* Tie_C10_c00.v -- complex Jacobi rotation, descending or equal diagonal (p >= q) *)
From Coq Require Import Reals Lra List.
From Epsic Require Import Scalar Gen_C10 Tie_C10.
Import ListNotations.
Local Open Scope R_scope.

Lemma tie_jrot2c_p00 p q x y : jrot2c_p00_pc (OO:=ROps) p q x y -> jc_spec p q x y (jrot2c_p00 (OO:=ROps) p q x y).
Proof.
  unfold jc_spec. autounfold with gen; ops_R. cbv beta iota zeta delta [nth firstn skipn].
  set (sq := 1 / 2 * (p - q)) in *. rewrite ?(hyp_pnorm sq x (- y)). intros [Hp Hq].
  assert (Ep : p = q + 2 * sq) by (unfold sq; field). clearbody sq. subst p.
  pose proof (pnorm_sq sq x (- y)) as Sp. pose proof (pnorm_ge sq x (- y)) as Pp.
  assert (PP : 0 < pnorm sq x (- y)) by lra. assert (Hd : 0 < pnorm sq x (- y) + sq) by lra.
  jc_plus sq x y.
Qed.
