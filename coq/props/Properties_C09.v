(* Properties_C09.v -- C09: polar decomposition and Hermitian square root. *)
From Coq Require Import Reals Lra List.
From Epsic Require Import Scalar SpecPauli SpecJones CSqrt Gen_C09 Tie_C09_sqrt Tie_C09_polar.
Import ListNotations.
Local Open Scope R_scope.

(* every positive semi-definite Hermitian quaternion (h0 >= 0, det >= 0), singular ones included:
   on every path of the code the root r satisfies phi(r)^2 = phi(h), r0 >= 0, det r >= 0 *)
Theorem C09_hermitian_square_root h0 h1 h2 h3 : 0 <= h0 -> 0 <= h0 * h0 - h1 * h1 - h2 * h2 - h3 * h3 ->
  Forall (fun c : Prop * list R => fst c -> hsqrt_ok (snd c)) (hsqrt_cases (OO:=ROps) h0 h1 h2 h3)
  /\ Exists (fun c : Prop * list R => fst c) (hsqrt_cases (OO:=ROps) h0 h1 h2 h3).
Proof.
  intros H0 Hd. split; [apply tie_hsqrt; assumption|].
  autounfold with gen; ops_R.
  set (det := h0 * h0 - h1 * h1 - h2 * h2 - h3 * h3) in *.
  destruct (Req_dec (sqrt (1 / 2 * (h0 + sqrt det))) 0) as [E|E];
  repeat first [ apply Exists_cons_hd; cbn [fst]; split; [ lra | first [exact E | tauto] ] | apply Exists_cons_tl ].
Qed.
Print Assumptions C09_hermitian_square_root.
Example C09_singular_psd_example : 0 <= 1 /\ 0 <= 1 * 1 - (3/5) * (3/5) - 0 * 0 - (4/5) * (4/5).
Proof. lra. Qed.

(* polar decomposition, stage A: d^2 = det J; for det J <> 0: d (J/d) = J and det (J/d) = 1 *)
Theorem C09_polar_scalar_factor j00r j00i j01r j01i j10r j10i j11r j11i :
  let J := M2of j00r j00i j01r j01i j10r j10i j11r j11i in
  let l := polar_stageA (OO:=ROps) j00r j00i j01r j01i j10r j10i j11r j11i in
  let d : C := (nth 0 l 0, nth 1 l 0) in
  cmul d d = m2det J /\
  (cnz (m2det J) ->
     m2scale d (m2scale (cinv d) J) = J /\ m2det (m2scale (cinv d) J) = c1 /\
     skipn 2 l = clist (cmul d d) ++ clist (m2det J) ++ m2list (m2scale (cinv d) J)
                 ++ clist (m2det (m2scale (cinv d) J)) ++ m2list (m2scale d (m2scale (cinv d) J)) ++ m2list J).
Proof.
  intros J l d.
  pose proof (tie_stageA_d_squared j00r j00i j01r j01i j10r j10i j11r j11i) as Hd. fold J l d in Hd.
  split; [exact Hd|]. intros Hnz.
  assert (Hdnz : cnz d) by (apply cnz_sq_inv; rewrite Hd; exact Hnz).
  conj_split.
  - rewrite m2scale_scale, cmul_inv by exact Hdnz. apply m2scale_id.
  - rewrite m2det_scale, <- cinv_mul by exact Hdnz. rewrite Hd, cmul_comm. apply cmul_inv. exact Hnz.
  - apply (tie_stageA j00r j00i j01r j01i j10r j10i j11r j11i Hdnz).
Qed.
Print Assumptions C09_polar_scalar_factor.

(* stage B: the Hermitian quaternion of j j^dagger is real (nothing is lost by real()) and
   its determinant is |det j|^2 -- so it is 1 for the unimodular j of stage A *)
Theorem C09_polar_hermitian_input p00r p00i p01r p01i p10r p10i p11r p11i :
  let l := polar_stageB (OO:=ROps) p00r p00i p01r p01i p10r p10i p11r p11i in
  firstn 4 (skipn 4 l) = [0; 0; 0; 0] /\
  nth 8 l 0 = nth 9 l 0 * nth 9 l 0 + nth 10 l 0 * nth 10 l 0 /\
  clist (m2det (M2of p00r p00i p01r p01i p10r p10i p11r p11i)) = [nth 9 l 0; nth 10 l 0] /\
  m2list (phiHc (cofR (nth 0 l 0)) (cofR (nth 1 l 0)) (cofR (nth 2 l 0)) (cofR (nth 3 l 0)))
  = m2list (m2mul (M2of p00r p00i p01r p01i p10r p10i p11r p11i) (m2herm (M2of p00r p00i p01r p01i p10r p10i p11r p11i))).
Proof. exact (tie_stageB p00r p00i p01r p01i p10r p10i p11r p11i). Qed.
Print Assumptions C09_polar_hermitian_input.

(* FULL STATEMENT, proved only in part: "d h u reproduces J, h positive definite with det 1, u with det 1".
   Proved: d^2 = det J and unimodularity (stage A), the Hermitian factor's input is lossless with
   determinant 1 (stage B), h = its square root with h^2 = that input, h0 >= 0, det h >= 0
   (C09_hermitian_square_root).  NOT proved here: the unitary factor (u = real(unitary(h^-1 j)) drops
   nothing, det u = 1) and the composition of the stages inside polar(); those are checked on every
   run by the plain-build oracle polar_reconstruct_plain over structure classes and scales. *)
Theorem C09_polar_reconstruction_partial j00r j00i j01r j01i j10r j10i j11r j11i :
  let J := M2of j00r j00i j01r j01i j10r j10i j11r j11i in
  let l := polar_stageA (OO:=ROps) j00r j00i j01r j01i j10r j10i j11r j11i in
  let d : C := (nth 0 l 0, nth 1 l 0) in
  cnz (m2det J) ->
  cmul d d = m2det J /\ m2scale d (m2scale (cinv d) J) = J /\ m2det (m2scale (cinv d) J) = c1.
Proof.
  intros J l d Hnz.
  destruct (C09_polar_scalar_factor j00r j00i j01r j01i j10r j10i j11r j11i) as [A B].
  destruct (B Hnz) as [B1 [B2 _]]. conj_split; assumption.
Qed.
