(* Properties_C09.v -- C09: polar decomposition and Hermitian square root. *)
From Coq Require Import Reals Lra List.
From Epsic Require Import Scalar SpecPauli SpecJones CSqrt PolarModel Gen_C09 Tie_C09_sqrt Tie_C09_polar Tie_C09_polarD.
Import ListNotations.
Local Open Scope R_scope.

(* every positive semi-definite Hermitian quaternion (h0 >= 0, det >= 0), singular ones included:
   on every path of the code the root r satisfies phi(r)^2 = phi(h), r0 >= 0, det r >= 0 *)
Theorem C09_hermitian_square_root h0 h1 h2 h3 : 0 <= h0 -> 0 <= h0 * h0 - h1 * h1 - h2 * h2 - h3 * h3 ->
  Forall (fun c : Prop * list R => fst c -> hsqrt_ok (snd c)) (hsqrt_cases (OO:=ROps) h0 h1 h2 h3)
  /\ Exists (fun c : Prop * list R => fst c) (hsqrt_cases (OO:=ROps) h0 h1 h2 h3).
Proof.
  intros H0 Hd. split; [apply tie_hsqrt; assumption|].
  autounfold with gen; ops_R.
  set (det := h0 * h0 - h1 * h1 - h2 * h2 - h3 * h3) in *.
  destruct (Req_dec (sqrt (1 / 2 * (h0 + sqrt det))) 0) as [E|E];
  repeat first [ apply Exists_cons_hd; cbn [fst]; split; [ lra | first [exact E | tauto] ] | apply Exists_cons_tl ].
Qed.
Print Assumptions C09_hermitian_square_root.
Example C09_singular_psd_example : 0 <= 1 /\ 0 <= 1 * 1 - (3/5) * (3/5) - 0 * 0 - (4/5) * (4/5).
Proof. lra. Qed.

(* polar decomposition, stage A: d^2 = det J; for det J <> 0: d (J/d) = J and det (J/d) = 1 *)
Theorem C09_polar_scalar_factor j00r j00i j01r j01i j10r j10i j11r j11i :
  let J := M2of j00r j00i j01r j01i j10r j10i j11r j11i in
  let l := polar_stageA (OO:=ROps) j00r j00i j01r j01i j10r j10i j11r j11i in
  let d : C := (nth 0 l 0, nth 1 l 0) in
  cmul d d = m2det J /\
  (cnz (m2det J) ->
     m2scale d (m2scale (cinv d) J) = J /\ m2det (m2scale (cinv d) J) = c1 /\
     skipn 2 l = clist (cmul d d) ++ clist (m2det J) ++ m2list (m2scale (cinv d) J)
                 ++ clist (m2det (m2scale (cinv d) J)) ++ m2list (m2scale d (m2scale (cinv d) J)) ++ m2list J).
Proof.
  intros J l d.
  pose proof (tie_stageA_d_squared j00r j00i j01r j01i j10r j10i j11r j11i) as Hd. fold J l d in Hd.
  split; [exact Hd|]. intros Hnz.
  assert (Hdnz : cnz d) by (apply cnz_sq_inv; rewrite Hd; exact Hnz).
  conj_split.
  - rewrite m2scale_scale, cmul_inv by exact Hdnz. apply m2scale_id.
  - rewrite m2det_scale, <- cinv_mul by exact Hdnz. rewrite Hd, cmul_comm. apply cmul_inv. exact Hnz.
  - apply (tie_stageA j00r j00i j01r j01i j10r j10i j11r j11i Hdnz).
Qed.
Print Assumptions C09_polar_scalar_factor.

(* stage B: the Hermitian quaternion of j j^dagger is real (nothing is lost by real()) and
   its determinant is |det j|^2 -- so it is 1 for the unimodular j of stage A *)
Theorem C09_polar_hermitian_input p00r p00i p01r p01i p10r p10i p11r p11i :
  let l := polar_stageB (OO:=ROps) p00r p00i p01r p01i p10r p10i p11r p11i in
  firstn 4 (skipn 4 l) = [0; 0; 0; 0] /\
  nth 8 l 0 = nth 9 l 0 * nth 9 l 0 + nth 10 l 0 * nth 10 l 0 /\
  clist (m2det (M2of p00r p00i p01r p01i p10r p10i p11r p11i)) = [nth 9 l 0; nth 10 l 0] /\
  m2list (phiHc (cofR (nth 0 l 0)) (cofR (nth 1 l 0)) (cofR (nth 2 l 0)) (cofR (nth 3 l 0)))
  = m2list (m2mul (M2of p00r p00i p01r p01i p10r p10i p11r p11i) (m2herm (M2of p00r p00i p01r p01i p10r p10i p11r p11i))).
Proof. exact (tie_stageB p00r p00i p01r p01i p10r p10i p11r p11i). Qed.
Print Assumptions C09_polar_hermitian_input.

(* the four stages composed.  d and the unimodular k = J/d are stage A's (generated); r is any real
   Hermitian quaternion with phi(r)^2 = k k^dagger and det r >= 0 -- the contract C09_hermitian_square_root
   proves for the code's sqrt on every path, applied to the lossless real part of stage B
   (C09_polar_hermitian_input); u and the dropped imaginary parts are stage D's (generated).
   Then: det h = 1, real() drops nothing, u has unit determinant, and d h u = J. *)
Lemma m2_eta a : M2of (fst (m00 a)) (snd (m00 a)) (fst (m01 a)) (snd (m01 a)) (fst (m10 a)) (snd (m10 a)) (fst (m11 a)) (snd (m11 a)) = a.
Proof. destruct a as [[? ?] [? ?] [? ?] [? ?]]. reflexivity. Qed.

Lemma firstn8_spec (l : list R) a0 a1 a2 a3 a4 a5 a6 a7 : firstn 8 l = [a0; a1; a2; a3; a4; a5; a6; a7] ->
  nth 0 l 0 = a0 /\ nth 1 l 0 = a1 /\ nth 2 l 0 = a2 /\ nth 3 l 0 = a3 /\ firstn 4 (skipn 4 l) = [a4; a5; a6; a7].
Proof.
  intros H. do 8 (destruct l as [|? l]; [ discriminate H | ]). cbn [firstn] in H.
  injection H as H0 H1 H2 H3 H4 H5 H6 H7. subst. cbn [nth firstn skipn]. conj_split; reflexivity.
Qed.

Theorem C09_polar_decomposition j00r j00i j01r j01i j10r j10i j11r j11i r0 r1 r2 r3 :
  let J := M2of j00r j00i j01r j01i j10r j10i j11r j11i in
  let lA := polar_stageA (OO:=ROps) j00r j00i j01r j01i j10r j10i j11r j11i in
  let d : C := (nth 0 lA 0, nth 1 lA 0) in
  let k := m2scale (cinv d) J in
  let Hm := phiHc (cofR r0) (cofR r1) (cofR r2) (cofR r3) in
  let lD := polar_stageD (OO:=ROps) r0 r1 r2 r3 (fst (m00 k)) (snd (m00 k)) (fst (m01 k)) (snd (m01 k)) (fst (m10 k)) (snd (m10 k)) (fst (m11 k)) (snd (m11 k)) in
  let u := phiUc (cofR (nth 0 lD 0)) (cofR (nth 1 lD 0)) (cofR (nth 2 lD 0)) (cofR (nth 3 lD 0)) in
  cnz (m2det J) -> m2mul Hm Hm = m2mul k (m2herm k) -> 0 <= r0 * r0 - r1 * r1 - r2 * r2 - r3 * r3 ->
  cmul d d = m2det J /\ m2det Hm = c1 /\
  firstn 4 (skipn 4 lD) = [0; 0; 0; 0] /\
  nth 0 lD 0 * nth 0 lD 0 + nth 1 lD 0 * nth 1 lD 0 + nth 2 lD 0 * nth 2 lD 0 + nth 3 lD 0 * nth 3 lD 0 = 1 /\
  m2scale d (m2mul Hm u) = J.
Proof.
  intros J lA d k Hm lD u Hnz Hsq Hpos.
  pose proof (tie_stageA_d_squared j00r j00i j01r j01i j10r j10i j11r j11i) as Hd. fold J lA d in Hd.
  assert (HH : m2herm Hm = Hm) by apply phiH_real_hermitian.
  assert (Hk : m2det k = c1) by (apply (polar_j_unimodular J d Hd Hnz)).
  pose proof (detH_spec r0 r1 r2 r3) as HdetS. fold Hm in HdetS.
  assert (HdetH : m2det Hm = c1).
  { apply (det_of_hermitian_root Hm k HH Hsq Hk). rewrite HdetS. cbn [cofR fst]. exact Hpos. }
  assert (Hone : r0 * r0 - r1 * r1 - r2 * r2 - r3 * r3 <> 0).
  { rewrite HdetS in HdetH. pose proof (f_equal fst HdetH) as E. cbn [cofR c1 fst] in E. lra. }
  destruct (tie_stageD r0 r1 r2 r3 (fst (m00 k)) (snd (m00 k)) (fst (m01 k)) (snd (m01 k)) (fst (m10 k)) (snd (m10 k)) (fst (m11 k)) (snd (m11 k)) Hone)
    as [TD _]. fold lD in TD. rewrite m2_eta in TD. fold Hm in TD.
  destruct (polar_reconstruction J Hm d Hd Hnz HH Hsq HdetH) as [R1 [I0 [I1 [I2 [I3 [RU RN]]]]]].
  fold k in R1, I0, I1, I2, I3, RU, RN.
  set (w := m2mul (m2inv Hm) k) in *.
  destruct (firstn8_spec lD _ _ _ _ _ _ _ _ TD) as [T0 [T1 [T2 [T3 T4]]]].
  subst u. conj_split.
  - exact Hd.
  - exact HdetH.
  - rewrite T4, I0, I1, I2, I3. reflexivity.
  - rewrite T0, T1, T2, T3. exact RN.
  - rewrite T0, T1, T2, T3, RU. exact R1.
Qed.
Print Assumptions C09_polar_decomposition.
