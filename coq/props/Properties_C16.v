(* Properties_C16.v -- C16: in-place operators equal their binary counterparts
   even when the right-hand operand aliases the destination. *)
From Coq Require Import Reals List.
From Epsic Require Import Scalar Gen_C16 Tie_C16.
Import ListNotations.
Local Open Scope R_scope.

(* the headline case: dividing a Stokes vector by its own total intensity yields
   the fractional polarization vector (1, Q/I, U/I, V/I) *)
Theorem C16_fractional_polarization I Q U V : I <> 0 ->
  firstn 4 (stokes_fractional (OO:=ROps) I Q U V) = [I / I; Q / I; U / I; V / I].
Proof.
  intros H. rewrite (law_stokes_fractional I Q U V H).
  autounfold with gen; ops_R; reflexivity.
Qed.
Print Assumptions C16_fractional_polarization.

(* every enumerated (type, operator, alias shape) at once *)
Theorem C16_all_alias_shapes :
  (forall x0 x1 x2 x3, x0 <> 0 -> halves_eq 4 (vec4_div_elem0 (OO:=ROps) x0 x1 x2 x3)) /\
  (forall x0 x1 x2 x3, halves_eq 4 (vec4_mul_elem0 (OO:=ROps) x0 x1 x2 x3)) /\
  (forall m00 m01 m10 m11, halves_eq 4 (mat2_mul_elem0 (OO:=ROps) m00 m01 m10 m11)) /\
  (forall j00r j00i j01r j01i j10r j10i j11r j11i,
     halves_eq 8 (jones_mul_self (OO:=ROps) j00r j00i j01r j01i j10r j10i j11r j11i)) /\
  (forall q0 q1 q2 q3, halves_eq 4 (quat_mul_elem0 (OO:=ROps) q0 q1 q2 q3)) /\
  (forall ev es, halves_eq 2 (est_mul_self (OO:=ROps) ev es)) /\
  (forall xr xi yr yi, halves_eq 4 (spinor_mul_own_x (OO:=ROps) xr xi yr yi)).
Proof.
  repeat split; intros;
  first [ apply law_vec4_div_elem0; assumption | apply law_vec4_mul_elem0 | apply law_mat2_mul_elem0
        | apply law_jones_mul_self | apply law_quat_mul_elem0 | apply law_est_mul_self | apply law_spinor_mul_own_x ].
Qed.
Print Assumptions C16_all_alias_shapes.

Example C16_example : firstn 4 (stokes_fractional (OO:=ROps) 2 1 (/2) (/4)) = [2 / 2; 1 / 2; / 2 / 2; / 4 / 2].
Proof. apply C16_fractional_polarization. Lra.lra. Qed.
