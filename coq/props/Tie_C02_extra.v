(* Tie_C02_extra.v -- hand-written (added after the mutation sweep, DESIGN 0.6b): accessors of Stokes, the
   coherency-vector constructor, and the path conditions of transform (Mueller (J), rho), whose value is
   compared with J rho J^dagger numerically (the symbolic identity takes Coq's ring more than ten minutes). *)
From Coq Require Import Reals Lra List.
From Epsic Require Import Scalar SpecPauli SpecJones Gen_C02 Tie_C02_xform.
Import ListNotations.
Local Open Scope R_scope.

Lemma tie_stokes_accessors s0 s1 s2 s3 v0 v1 v2 t :
  stokes_accessors (OO:=ROps) s0 s1 s2 s3 v0 v1 v2 t =
  [s0; s1; s2; s3; s1*s1 + s2*s2 + s3*s3; s1*s1 + s2*s2 + s3*s3; s0*s0 - (s1*s1 + s2*s2 + s3*s3); t; s1; s2; s3; s0; v0; v1; v2].
Proof. intros; autounfold with gen; ops_R; list_eq ltac:(first [ ring | (rewrite sqrt_sqrt by nra; ring) ]). Qed.
Lemma law_coherency_vector_convert c0 c1 c2 c3 :
  halves_eq 8 (coherency_vector_convert (OO:=ROps) c0 c1 c2 c3).
Proof. law. Qed.
Lemma tie_coherency_vector_convert c0 c1 c2 c3 :
  firstn 8 (coherency_vector_convert (OO:=ROps) c0 c1 c2 c3) = [c0; 0; c2; - c3; c2; c3; c1; 0].
Proof. intros; autounfold with gen; ops_R; cbn [firstn]; list_eq ltac:(ring). Qed.
Lemma pc_transform_coherency_mueller_lin j00r j00i j01r j01i j10r j10i j11r j11i p00r p00i p01r p01i p10r p10i p11r p11i :
  transform_coherency_mueller_lin_pc (OO:=ROps) j00r j00i j01r j01i j10r j10i j11r j11i p00r p00i p01r p01i p10r p10i p11r p11i.
Proof. pc_zero. Qed.
Lemma pc_transform_coherency_mueller_circ j00r j00i j01r j01i j10r j10i j11r j11i p00r p00i p01r p01i p10r p10i p11r p11i :
  transform_coherency_mueller_circ_pc (OO:=ROps) j00r j00i j01r j01i j10r j10i j11r j11i p00r p00i p01r p01i p10r p10i p11r p11i.
Proof. pc_zero. Qed.
Lemma law_spinor_linear_ops xr xi yr yi ur ui vr vi a : a <> 0 ->
  halves_eq 16 (spinor_linear_ops (OO:=ROps) xr xi yr yi ur ui vr vi a).
Proof. intros Ha; unfold halves_eq; autounfold with gen; ops_R; cbn [firstn skipn]; list_eq ltac:(first [ ring | (field; exact Ha) ]). Qed.
