(* Tie_C13_gj3_s1.v -- GENERATED ONCE by harness/gen_tie_C13_gj3.py and committed. *)
From Coq Require Import Reals Lra List.
From Epsic Require Import Scalar SpecPauli Gen_C13 Tie_C13.
Import ListNotations.
Local Open Scope R_scope.

Lemma tie_gj3_o10 a00 a01 a02 a10 a11 a12 a20 a21 a22 : gj3_o10_pc (OO:=ROps) a00 a01 a02 a10 a11 a12 a20 a21 a22 -> gj3_ok (gj3_o10 (OO:=ROps) a00 a01 a02 a10 a11 a12 a20 a21 a22).
Proof. gj3. Qed.
Lemma tie_gj3_o11 a00 a01 a02 a10 a11 a12 a20 a21 a22 : gj3_o11_pc (OO:=ROps) a00 a01 a02 a10 a11 a12 a20 a21 a22 -> gj3_ok (gj3_o11 (OO:=ROps) a00 a01 a02 a10 a11 a12 a20 a21 a22).
Proof. gj3. Qed.
Lemma tie_gj3_o12 a00 a01 a02 a10 a11 a12 a20 a21 a22 : gj3_o12_pc (OO:=ROps) a00 a01 a02 a10 a11 a12 a20 a21 a22 -> gj3_ok (gj3_o12 (OO:=ROps) a00 a01 a02 a10 a11 a12 a20 a21 a22).
Proof. gj3. Qed.
Lemma tie_gj3_o13 a00 a01 a02 a10 a11 a12 a20 a21 a22 : gj3_o13_pc (OO:=ROps) a00 a01 a02 a10 a11 a12 a20 a21 a22 -> gj3_ok (gj3_o13 (OO:=ROps) a00 a01 a02 a10 a11 a12 a20 a21 a22).
Proof. gj3. Qed.
Lemma tie_gj3_o14 a00 a01 a02 a10 a11 a12 a20 a21 a22 : gj3_o14_pc (OO:=ROps) a00 a01 a02 a10 a11 a12 a20 a21 a22 -> gj3_ok (gj3_o14 (OO:=ROps) a00 a01 a02 a10 a11 a12 a20 a21 a22).
Proof. gj3. Qed.
Lemma tie_gj3_o15 a00 a01 a02 a10 a11 a12 a20 a21 a22 : gj3_o15_pc (OO:=ROps) a00 a01 a02 a10 a11 a12 a20 a21 a22 -> gj3_ok (gj3_o15 (OO:=ROps) a00 a01 a02 a10 a11 a12 a20 a21 a22).
Proof. gj3. Qed.
