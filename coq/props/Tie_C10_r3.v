(* Tie_C10_r3.v -- one real Jacobi rotation in the (0,1) plane of a symmetric 3x3 matrix [[p,x,y],[x,q,z],[y,z,r]],
   every path of the generated code: the rotated matrix is v A v^T (a similarity), v is orthogonal, the (0,1)
   element is annihilated, the diagonal carries the updated eigenvalues, the trace is preserved and the
   off-diagonal norm decreases by exactly 2 x^2 (a02'^2 + a12'^2 = y^2 + z^2). *)
From Coq Require Import Reals Lra List.
From Epsic Require Import Scalar Gen_C10 Tie_C10.
Import ListNotations.
Local Open Scope R_scope.

(* outputs: a (9), v (9), d (3), v A v^T (9), v v^T (9) *)
Definition jrot3_spec (p q r x y z : R) (l : list R) : Prop :=
  let a := fun (i j : nat) => nth (3 * i + j)%nat l 0 in let d := fun (k : nat) => nth (18 + k)%nat l 0 in
  a 0%nat 1%nat = 0 /\ a 1%nat 0%nat = 0 /\ a 0%nat 2%nat = a 2%nat 0%nat /\ a 1%nat 2%nat = a 2%nat 1%nat /\
  a 0%nat 0%nat = d 0%nat /\ a 1%nat 1%nat = d 1%nat /\ a 2%nat 2%nat = r /\ d 2%nat = r /\
  firstn 9 (skipn 21 l) = firstn 9 l /\
  firstn 9 (skipn 30 l) = [1; 0; 0; 0; 1; 0; 0; 0; 1] /\
  d 0%nat + d 1%nat = p + q /\
  a 0%nat 2%nat * a 0%nat 2%nat + a 1%nat 2%nat * a 1%nat 2%nat = y * y + z * z.

Ltac finish Ec := conj_split; lazymatch goal with
  | |- cons _ _ = _ => list_eq ltac:(first [ ring | field_simplify_eq; [ ring [Ec] | auto ] ])
  | |- ?a = ?a => reflexivity
  | |- _ => first [ ring | field_simplify_eq; [ ring [Ec] | auto ] ] end.

Lemma tie_jrot3_p00 p q r x y z : jrot3_p00_pc (OO:=ROps) p q r x y z -> jrot3_spec p q r x y z (jrot3_p00 (OO:=ROps) p q r x y z).
Proof.
  unfold jrot3_spec. autounfold with gen; ops_R. cbv beta iota zeta delta [nth firstn skipn Nat.add Nat.mul]. intros [Hx Hth].
  assert (Nx : x <> 0). { intro E; apply Hx; rewrite E, Rabs_R0; ring. }
  set (th := 1 / 2 * (q - p) / x) in *.
  assert (Ep : p = q - 2 * x * th) by (unfold th; field; exact Nx).
  clearbody th. subst p. clear Hx.
  rewrite (Rabs_right th) by lra.
  assert (PR : 0 < 1 + th * th) by nra.
  pose proof (sqrt_sqrt _ (Rlt_le _ _ PR)) as SR. pose proof (sqrt_lt_R0 _ PR) as PR'.
  set (RR := sqrt (1 + th * th)) in *.
  set (t := 1 / (th + RR)).
  assert (Et : t = RR - th). { unfold t. field_simplify_eq; [ | lra ]. lra. }
  assert (Pt : 0 < t). { unfold t. apply Rdiv_lt_0_compat; lra. }
  assert (Eth : th = (1 - t * t) / (2 * t)). { field_simplify_eq; [ | lra ]. rewrite Et. ring [SR]. }
  clearbody t. clear Et SR PR' PR Hth. subst th. clear RR.
  assert (PC : 0 < 1 + t * t) by nra.
  pose proof (sqrt_sqrt _ (Rlt_le _ _ PC)) as SC. pose proof (sqrt_lt_R0 _ PC) as PC'.
  set (CC := sqrt (1 + t * t)) in *.
  set (c := 1 / CC).
  assert (Pc : 0 < c). { unfold c. apply Rdiv_lt_0_compat; lra. }
  assert (Ec : c * c * t * t = 1 - c * c). { unfold c. field_simplify_eq; [ | lra ]. ring [SC]. }
  clearbody c. clear SC PC' PC CC.
  assert (N1 : 1 + c <> 0) by lra. assert (Nt : t <> 0) by lra.
  finish Ec.
Qed.

Lemma tie_jrot3_p01 p q r x y z : jrot3_p01_pc (OO:=ROps) p q r x y z -> jrot3_spec p q r x y z (jrot3_p01 (OO:=ROps) p q r x y z).
Proof.
  unfold jrot3_spec. autounfold with gen; ops_R. cbv beta iota zeta delta [nth firstn skipn Nat.add Nat.mul]. intros [Hx Hth].
  assert (Nx : x <> 0). { intro E; apply Hx; rewrite E, Rabs_R0; ring. }
  set (th := 1 / 2 * (q - p) / x) in *.
  assert (Ep : p = q - 2 * x * th) by (unfold th; field; exact Nx).
  clearbody th. subst p. clear Hx.
  rewrite (Rabs_left th) by lra.
  assert (PR : 0 < 1 + th * th) by nra.
  pose proof (sqrt_sqrt _ (Rlt_le _ _ PR)) as SR. pose proof (sqrt_lt_R0 _ PR) as PR'.
  set (RR := sqrt (1 + th * th)) in *.
  set (t := - (1 / (- th + RR))).
  assert (Et : t = - RR - th). { unfold t. field_simplify_eq; [ | lra ]. ring [SR]. }
  assert (Pt : t < 0). { rewrite Et. nra. }
  assert (Eth : th = (1 - t * t) / (2 * t)). { field_simplify_eq; [ | lra ]. rewrite Et. ring [SR]. }
  clearbody t. clear Et SR PR' PR Hth. subst th. clear RR.
  assert (PC : 0 < 1 + t * t) by nra.
  pose proof (sqrt_sqrt _ (Rlt_le _ _ PC)) as SC. pose proof (sqrt_lt_R0 _ PC) as PC'.
  set (CC := sqrt (1 + t * t)) in *.
  set (c := 1 / CC).
  assert (Pc : 0 < c). { unfold c. apply Rdiv_lt_0_compat; lra. }
  assert (Ec : c * c * t * t = 1 - c * c). { unfold c. field_simplify_eq; [ | lra ]. ring [SC]. }
  clearbody c. clear SC PC' PC CC.
  assert (N1 : 1 + c <> 0) by lra. assert (Nt : t <> 0) by lra.
  finish Ec.
Qed.

(* over the reals the first branch of calculate_Jacobi is x = 0: nothing moves *)
Lemma tie_jrot3_p1 p q r x y z : jrot3_p1_pc (OO:=ROps) p q r x y z -> jrot3_spec p q r x y z (jrot3_p1 (OO:=ROps) p q r x y z).
Proof.
  unfold jrot3_spec. autounfold with gen; ops_R. cbv beta iota zeta delta [nth firstn skipn Nat.add Nat.mul]. intros Hx.
  assert (Zx : x = 0). { destruct (Req_dec x 0) as [E|N]; [exact E|]. pose proof (Rabs_pos_lt x N). lra. }
  subst x. clear Hx.
  replace (0 / (q - p)) with 0 by (unfold Rdiv; ring).
  replace (1 + 0 * 0) with 1 by ring. rewrite sqrt_1.
  conj_split; lazymatch goal with |- cons _ _ = _ => list_eq ltac:(first [ ring | field ]) | |- _ => first [ ring | field ] end.
Qed.

Lemma jrot3_paths_total p q r x y z : Exists (fun c : Prop * list R => fst c) (jrot3_cases (OO:=ROps) p q r x y z).
Proof.
  autounfold with gen; ops_R.
  destruct (Req_dec (Rabs (q - p) + 100 * Rabs x) (Rabs (q - p))) as [E|N].
  - do 2 apply Exists_cons_tl. apply Exists_cons_hd. exact E.
  - destruct (Rlt_dec (1 / 2 * (q - p) / x) 0) as [L|G].
    + apply Exists_cons_tl. apply Exists_cons_hd. cbn [fst]. tauto.
    + apply Exists_cons_hd. cbn [fst]. tauto.
Qed.
