(* Properties_C05.v -- C05: predicted moments of dual-mode samples equal the moments of what is generated.

   Layers (all over the reals):
   (1) instance level, on the term generated from superposed::get_Stokes with two real modes: the exact Gaussian
       ensemble mean and covariance of S (e_A + e_B) are S_A + S_B and C_A + C_B + M(A,B) + M(A,B)^T  (Eq. 42-43),
       for every pair of Hermitian polarizer roots (every valid pair of Stokes vectors);
   (2) sample level, in DualModel: the closed forms of superposed / composite / disjoint equal the double sums of
       pairwise instance covariances (bilinearity) / the mixture moments, for every sample size, split and fraction;
   (3) code = model: Tie_C05 (predictions on stub modes, n = 1..3 and the listed composite splits) and Tie_C05_gen
       (the generators draw exactly the instances the prediction assumes; disjoint selects A iff random()/RAND_MAX < f);
   (4) the always-on exact-cubature oracles of drv_C05.C compare prediction and ensemble end to end on the real
       classes (including covariant and boxcar/square modulation, coherent combinations and lag 1). *)
From Coq Require Import Reals Lra List.
From Epsic Require Import Scalar SpecPauli SampleModel DualModel Quadrature Quadrature8 Gen_C05 Tie_C05 Tie_C05_gen Tie_C05_ens Tie_C05_ens_mean Tie_C05_ens_00 Tie_C05_ens_01 Tie_C05_ens_02 Tie_C05_ens_03 Tie_C05_ens_11 Tie_C05_ens_12 Tie_C05_ens_13 Tie_C05_ens_22 Tie_C05_ens_23 Tie_C05_ens_33.
Import ListNotations.
Local Open Scope R_scope.

(* (1) one superposed instance: ensemble mean *)
Theorem C05_superposed_instance_mean ra0 ra1 ra2 ra3 rb0 rb1 rb2 rb3 :
  E8 (F0 ra0 ra1 ra2 ra3 rb0 rb1 rb2 rb3) = v4nth (SA ra0 ra1 ra2 ra3 rb0 rb1 rb2 rb3) 0 + v4nth (SB ra0 ra1 ra2 ra3 rb0 rb1 rb2 rb3) 0 /\ E8 (F1 ra0 ra1 ra2 ra3 rb0 rb1 rb2 rb3) = v4nth (SA ra0 ra1 ra2 ra3 rb0 rb1 rb2 rb3) 1 + v4nth (SB ra0 ra1 ra2 ra3 rb0 rb1 rb2 rb3) 1 /\
  E8 (F2 ra0 ra1 ra2 ra3 rb0 rb1 rb2 rb3) = v4nth (SA ra0 ra1 ra2 ra3 rb0 rb1 rb2 rb3) 2 + v4nth (SB ra0 ra1 ra2 ra3 rb0 rb1 rb2 rb3) 2 /\ E8 (F3 ra0 ra1 ra2 ra3 rb0 rb1 rb2 rb3) = v4nth (SA ra0 ra1 ra2 ra3 rb0 rb1 rb2 rb3) 3 + v4nth (SB ra0 ra1 ra2 ra3 rb0 rb1 rb2 rb3) 3.
Proof. conj_split; [ apply ens_sup_mean0 | apply ens_sup_mean1 | apply ens_sup_mean2 | apply ens_sup_mean3 ]. Qed.
Print Assumptions C05_superposed_instance_mean.

(* (1) one superposed instance: ensemble covariance, entries i <= j (the covariance is symmetric) *)
Definition sup_instance_cov_spec ra0 ra1 ra2 ra3 rb0 rb1 rb2 rb3 (i j : nat) : R :=
  mink_outer_spec (SA ra0 ra1 ra2 ra3 rb0 rb1 rb2 rb3) (SA ra0 ra1 ra2 ra3 rb0 rb1 rb2 rb3) i j + mink_outer_spec (SB ra0 ra1 ra2 ra3 rb0 rb1 rb2 rb3) (SB ra0 ra1 ra2 ra3 rb0 rb1 rb2 rb3) i j
  + (mink_outer_spec (SA ra0 ra1 ra2 ra3 rb0 rb1 rb2 rb3) (SB ra0 ra1 ra2 ra3 rb0 rb1 rb2 rb3) i j + mink_outer_spec (SA ra0 ra1 ra2 ra3 rb0 rb1 rb2 rb3) (SB ra0 ra1 ra2 ra3 rb0 rb1 rb2 rb3) j i).
Theorem C05_superposed_instance_covariance ra0 ra1 ra2 ra3 rb0 rb1 rb2 rb3 :
  E8 (fun p0 p1 p2 p3 q0 q1 q2 q3 => F0 ra0 ra1 ra2 ra3 rb0 rb1 rb2 rb3 p0 p1 p2 p3 q0 q1 q2 q3 * F0 ra0 ra1 ra2 ra3 rb0 rb1 rb2 rb3 p0 p1 p2 p3 q0 q1 q2 q3) - E8 (F0 ra0 ra1 ra2 ra3 rb0 rb1 rb2 rb3) * E8 (F0 ra0 ra1 ra2 ra3 rb0 rb1 rb2 rb3) = sup_instance_cov_spec ra0 ra1 ra2 ra3 rb0 rb1 rb2 rb3 0 0 /\
  E8 (fun p0 p1 p2 p3 q0 q1 q2 q3 => F0 ra0 ra1 ra2 ra3 rb0 rb1 rb2 rb3 p0 p1 p2 p3 q0 q1 q2 q3 * F1 ra0 ra1 ra2 ra3 rb0 rb1 rb2 rb3 p0 p1 p2 p3 q0 q1 q2 q3) - E8 (F0 ra0 ra1 ra2 ra3 rb0 rb1 rb2 rb3) * E8 (F1 ra0 ra1 ra2 ra3 rb0 rb1 rb2 rb3) = sup_instance_cov_spec ra0 ra1 ra2 ra3 rb0 rb1 rb2 rb3 0 1 /\
  E8 (fun p0 p1 p2 p3 q0 q1 q2 q3 => F0 ra0 ra1 ra2 ra3 rb0 rb1 rb2 rb3 p0 p1 p2 p3 q0 q1 q2 q3 * F2 ra0 ra1 ra2 ra3 rb0 rb1 rb2 rb3 p0 p1 p2 p3 q0 q1 q2 q3) - E8 (F0 ra0 ra1 ra2 ra3 rb0 rb1 rb2 rb3) * E8 (F2 ra0 ra1 ra2 ra3 rb0 rb1 rb2 rb3) = sup_instance_cov_spec ra0 ra1 ra2 ra3 rb0 rb1 rb2 rb3 0 2 /\
  E8 (fun p0 p1 p2 p3 q0 q1 q2 q3 => F0 ra0 ra1 ra2 ra3 rb0 rb1 rb2 rb3 p0 p1 p2 p3 q0 q1 q2 q3 * F3 ra0 ra1 ra2 ra3 rb0 rb1 rb2 rb3 p0 p1 p2 p3 q0 q1 q2 q3) - E8 (F0 ra0 ra1 ra2 ra3 rb0 rb1 rb2 rb3) * E8 (F3 ra0 ra1 ra2 ra3 rb0 rb1 rb2 rb3) = sup_instance_cov_spec ra0 ra1 ra2 ra3 rb0 rb1 rb2 rb3 0 3 /\
  E8 (fun p0 p1 p2 p3 q0 q1 q2 q3 => F1 ra0 ra1 ra2 ra3 rb0 rb1 rb2 rb3 p0 p1 p2 p3 q0 q1 q2 q3 * F1 ra0 ra1 ra2 ra3 rb0 rb1 rb2 rb3 p0 p1 p2 p3 q0 q1 q2 q3) - E8 (F1 ra0 ra1 ra2 ra3 rb0 rb1 rb2 rb3) * E8 (F1 ra0 ra1 ra2 ra3 rb0 rb1 rb2 rb3) = sup_instance_cov_spec ra0 ra1 ra2 ra3 rb0 rb1 rb2 rb3 1 1 /\
  E8 (fun p0 p1 p2 p3 q0 q1 q2 q3 => F1 ra0 ra1 ra2 ra3 rb0 rb1 rb2 rb3 p0 p1 p2 p3 q0 q1 q2 q3 * F2 ra0 ra1 ra2 ra3 rb0 rb1 rb2 rb3 p0 p1 p2 p3 q0 q1 q2 q3) - E8 (F1 ra0 ra1 ra2 ra3 rb0 rb1 rb2 rb3) * E8 (F2 ra0 ra1 ra2 ra3 rb0 rb1 rb2 rb3) = sup_instance_cov_spec ra0 ra1 ra2 ra3 rb0 rb1 rb2 rb3 1 2 /\
  E8 (fun p0 p1 p2 p3 q0 q1 q2 q3 => F1 ra0 ra1 ra2 ra3 rb0 rb1 rb2 rb3 p0 p1 p2 p3 q0 q1 q2 q3 * F3 ra0 ra1 ra2 ra3 rb0 rb1 rb2 rb3 p0 p1 p2 p3 q0 q1 q2 q3) - E8 (F1 ra0 ra1 ra2 ra3 rb0 rb1 rb2 rb3) * E8 (F3 ra0 ra1 ra2 ra3 rb0 rb1 rb2 rb3) = sup_instance_cov_spec ra0 ra1 ra2 ra3 rb0 rb1 rb2 rb3 1 3 /\
  E8 (fun p0 p1 p2 p3 q0 q1 q2 q3 => F2 ra0 ra1 ra2 ra3 rb0 rb1 rb2 rb3 p0 p1 p2 p3 q0 q1 q2 q3 * F2 ra0 ra1 ra2 ra3 rb0 rb1 rb2 rb3 p0 p1 p2 p3 q0 q1 q2 q3) - E8 (F2 ra0 ra1 ra2 ra3 rb0 rb1 rb2 rb3) * E8 (F2 ra0 ra1 ra2 ra3 rb0 rb1 rb2 rb3) = sup_instance_cov_spec ra0 ra1 ra2 ra3 rb0 rb1 rb2 rb3 2 2 /\
  E8 (fun p0 p1 p2 p3 q0 q1 q2 q3 => F2 ra0 ra1 ra2 ra3 rb0 rb1 rb2 rb3 p0 p1 p2 p3 q0 q1 q2 q3 * F3 ra0 ra1 ra2 ra3 rb0 rb1 rb2 rb3 p0 p1 p2 p3 q0 q1 q2 q3) - E8 (F2 ra0 ra1 ra2 ra3 rb0 rb1 rb2 rb3) * E8 (F3 ra0 ra1 ra2 ra3 rb0 rb1 rb2 rb3) = sup_instance_cov_spec ra0 ra1 ra2 ra3 rb0 rb1 rb2 rb3 2 3 /\
  E8 (fun p0 p1 p2 p3 q0 q1 q2 q3 => F3 ra0 ra1 ra2 ra3 rb0 rb1 rb2 rb3 p0 p1 p2 p3 q0 q1 q2 q3 * F3 ra0 ra1 ra2 ra3 rb0 rb1 rb2 rb3 p0 p1 p2 p3 q0 q1 q2 q3) - E8 (F3 ra0 ra1 ra2 ra3 rb0 rb1 rb2 rb3) * E8 (F3 ra0 ra1 ra2 ra3 rb0 rb1 rb2 rb3) = sup_instance_cov_spec ra0 ra1 ra2 ra3 rb0 rb1 rb2 rb3 3 3.
Proof. unfold sup_instance_cov_spec. conj_split; [ apply ens_sup_cov_00 | apply ens_sup_cov_01 | apply ens_sup_cov_02 | apply ens_sup_cov_03 | apply ens_sup_cov_11 | apply ens_sup_cov_12 | apply ens_sup_cov_13 | apply ens_sup_cov_22 | apply ens_sup_cov_23 | apply ens_sup_cov_33 ]. Qed.
Print Assumptions C05_superposed_instance_covariance.

(* (2) sample level *)
Theorem C05_superposed_sample_covariance n CA XA CB XB Mij Mji ab ba ic : (1 <= n)%nat ->
  sup_cov n CA XA CB XB Mij Mji ab ba ic
  = brute (withC (CA + CB + ((1 + ic) * (Mij + Mji) + ic * (ab + ba))) (fun l => XA l + XB l)) n 0.
Proof. exact (superposed_covariance_is_ensemble n CA XA CB XB Mij Mji ab ba ic). Qed.
Theorem C05_composite_sample_moments n nA CA XA CB XB ab ba ic a b : (1 <= n)%nat -> (nA <= n)%nat ->
  comp_cov n nA CA XA CB XB ab ba ic = comp_ensemble n nA (withC CA XA) (withC CB XB) ab ba ic /\
  comp_mean n nA a b = (sumf (fun _ => a) nA + sumf (fun _ => b) (n - nA)) / INR n.
Proof. intros Hn Ha. split; [ apply composite_covariance_is_ensemble; assumption | apply composite_mean_is_ensemble; assumption ]. Qed.
Theorem C05_disjoint_sample_moments f CA CB XA XB ai aj bi bj :
  (f * (CA + ai * aj) + (1 - f) * (CB + bi * bj)) - (f * ai + (1 - f) * bi) * (f * aj + (1 - f) * bj)
    = f * CA + (1 - f) * CB + f * (1 - f) * ((ai - bi) * (aj - bj)) /\
  (f * f * (XA + ai * aj) + (1 - f) * (1 - f) * (XB + bi * bj) + f * (1 - f) * (ai * bj) + (1 - f) * f * (bi * aj))
    - (f * ai + (1 - f) * bi) * (f * aj + (1 - f) * bj) = f * f * XA + (1 - f) * (1 - f) * XB.
Proof. split; [ exact (disjoint_covariance_is_mixture f CA CB ai aj bi bj) | exact (disjoint_crosscovariance_is_mixture f XA XB ai aj bi bj) ]. Qed.
(* mode A is selected with probability within 1/N of f, N = RAND_MAX + 1 the number of values of random () *)
Theorem C05_selection_probability f N : (2 <= N)%nat -> 0 <= f <= 1 ->
  Rabs (INR (count_below (f * INR (N - 1)) N) / INR N - f) <= 1 / INR N.
Proof. exact (selection_probability f N). Qed.
Print Assumptions C05_superposed_sample_covariance.
Print Assumptions C05_composite_sample_moments.
Print Assumptions C05_disjoint_sample_moments.
Print Assumptions C05_selection_probability.

(* (3) code = model, restated for one configuration of each kind (the other sizes are the lemmas of Tie_C05 / Tie_C05_gen) *)
Theorem C05_disjoint_generator_selects f eax0r eax0i eay0r eay0i eax1r eax1i eay1r eay1i ebx0r ebx0i eby0r eby0i ebx1r ebx1i eby1r eby1i rnd :
  Forall (fun c : Prop * list R => fst c -> (rnd / 2147483647 < f /\ selects_A (snd c)) \/ (~ rnd / 2147483647 < f /\ selects_B (snd c)))
         (gen_dis_n2_cases (OO:=ROps) f eax0r eax0i eay0r eay0i eax1r eax1i eay1r eay1i ebx0r ebx0i eby0r eby0i ebx1r ebx1i eby1r eby1i rnd)
  /\ Exists (fun c : Prop * list R => fst c) (gen_dis_n2_cases (OO:=ROps) f eax0r eax0i eay0r eay0i eax1r eax1i eay1r eay1i ebx0r ebx0i eby0r eby0i ebx1r ebx1i eby1r eby1i rnd).
Proof. apply tie_gen_dis_n2. Qed.
Print Assumptions C05_disjoint_generator_selects.
