(* Tie_C02_basis.v -- GENERATED ONCE by harness/gen_tie_C02.py and committed.
   Every basis setting, and every history of settings of length 3, leaves into orthonormal with det +1 and outof = into^T; the state depends on the last call only. *)
From Coq Require Import Reals Lra List.
From Epsic Require Import Scalar SpecPauli SpecJones Gen_C02.
Import ListNotations.
Local Open Scope R_scope.

Definition halves_eq (n : nat) (l : list R) : Prop := firstn n l = skipn n l.

(* abstract cos x / sin x to variables c, s with s*s = 1 - c*c *)
Ltac trig_abs :=
  repeat match goal with
  | |- context [cos ?x] => let c := fresh "c" in let s := fresh "s" in let H := fresh "Htrig" in
       assert (H : sin x * sin x = 1 - cos x * cos x) by (pose proof (sin2_cos2 x) as H; unfold Rsqr in H; lra);
       set (c := cos x) in *; set (s := sin x) in *; clearbody c s
  end.
Ltac trig_ring := match goal with
  | H1 : _ * _ = 1 - _, H2 : _ * _ = 1 - _ |- _ => first [ring [H1 H2] | field [H1 H2] | (field_simplify_eq; ring [H1 H2])]
  | H1 : _ * _ = 1 - _ |- _ => first [ring [H1] | field [H1] | (field_simplify_eq; ring [H1])]
  end.
Ltac solve_entry := first [ field | ring | trig_ring | lazymatch goal with |- ?a = ?a => reflexivity end ].
Ltac pc_zero := intros; autounfold with gen; ops_R; trig_abs; repeat split;
  (let H := fresh "H" in intro H;
   match type of H with ?b < ?a =>
     let E := fresh "E" in assert (E : a = 0) by solve_entry; rewrite E in H; lra end).
Ltac law := intros; unfold halves_eq; autounfold with gen; ops_R; cbn [firstn skipn]; trig_abs; list_eq solve_entry.

(* into (9 entries, row major) followed by the columns of outof (9 entries) *)
Definition basis_ok (l : list R) : Prop :=
  match l with
  | [a00; a01; a02; a10; a11; a12; a20; a21; a22; c00; c01; c02; c10; c11; c12; c20; c21; c22] =>
      (* outof = into^T: column j of outof (c_j0 c_j1 c_j2) is row j of into *)
      [c00; c01; c02; c10; c11; c12; c20; c21; c22] = [a00; a01; a02; a10; a11; a12; a20; a21; a22] /\
      (* rows orthonormal *)
      a00*a00 + a01*a01 + a02*a02 = 1 /\ a10*a10 + a11*a11 + a12*a12 = 1 /\ a20*a20 + a21*a21 + a22*a22 = 1 /\
      a00*a10 + a01*a11 + a02*a12 = 0 /\ a00*a20 + a01*a21 + a02*a22 = 0 /\ a10*a20 + a11*a21 + a12*a22 = 0 /\
      (* determinant +1 *)
      a00*(a11*a22 - a12*a21) - a01*(a10*a22 - a12*a20) + a02*(a10*a21 - a11*a20) = 1
  | _ => False
  end.
Ltac basis := intros; autounfold with gen; ops_R; unfold basis_ok; trig_abs;
  repeat split; lazymatch goal with |- cons _ _ = _ => list_eq solve_entry | |- _ => solve_entry end.
Lemma tie_basis_lin : basis_ok (basis_lin (OO:=ROps)).
Proof. basis. Qed.
Lemma tie_basis_circ : basis_ok (basis_circ (OO:=ROps)).
Proof. basis. Qed.
Lemma tie_basis_ell o e : basis_ok (basis_ell (OO:=ROps) o e).
Proof. basis. Qed.

Lemma law_basis_history_LLL o1 e1 o2 e2 o3 e3 :
  halves_eq 18 (basis_history_LLL (OO:=ROps) o1 e1 o2 e2 o3 e3) /\ basis_ok (firstn 18 (basis_history_LLL (OO:=ROps) o1 e1 o2 e2 o3 e3)).
Proof. split; [ law | autounfold with gen; ops_R; cbn [firstn]; unfold basis_ok; trig_abs; repeat split; lazymatch goal with |- cons _ _ = _ => list_eq solve_entry | |- _ => solve_entry end ]. Qed.

Lemma law_basis_history_LLC o1 e1 o2 e2 o3 e3 :
  halves_eq 18 (basis_history_LLC (OO:=ROps) o1 e1 o2 e2 o3 e3) /\ basis_ok (firstn 18 (basis_history_LLC (OO:=ROps) o1 e1 o2 e2 o3 e3)).
Proof. split; [ law | autounfold with gen; ops_R; cbn [firstn]; unfold basis_ok; trig_abs; repeat split; lazymatch goal with |- cons _ _ = _ => list_eq solve_entry | |- _ => solve_entry end ]. Qed.

Lemma law_basis_history_LLE o1 e1 o2 e2 o3 e3 :
  halves_eq 18 (basis_history_LLE (OO:=ROps) o1 e1 o2 e2 o3 e3) /\ basis_ok (firstn 18 (basis_history_LLE (OO:=ROps) o1 e1 o2 e2 o3 e3)).
Proof. split; [ law | autounfold with gen; ops_R; cbn [firstn]; unfold basis_ok; trig_abs; repeat split; lazymatch goal with |- cons _ _ = _ => list_eq solve_entry | |- _ => solve_entry end ]. Qed.

Lemma law_basis_history_LCL o1 e1 o2 e2 o3 e3 :
  halves_eq 18 (basis_history_LCL (OO:=ROps) o1 e1 o2 e2 o3 e3) /\ basis_ok (firstn 18 (basis_history_LCL (OO:=ROps) o1 e1 o2 e2 o3 e3)).
Proof. split; [ law | autounfold with gen; ops_R; cbn [firstn]; unfold basis_ok; trig_abs; repeat split; lazymatch goal with |- cons _ _ = _ => list_eq solve_entry | |- _ => solve_entry end ]. Qed.

Lemma law_basis_history_LCC o1 e1 o2 e2 o3 e3 :
  halves_eq 18 (basis_history_LCC (OO:=ROps) o1 e1 o2 e2 o3 e3) /\ basis_ok (firstn 18 (basis_history_LCC (OO:=ROps) o1 e1 o2 e2 o3 e3)).
Proof. split; [ law | autounfold with gen; ops_R; cbn [firstn]; unfold basis_ok; trig_abs; repeat split; lazymatch goal with |- cons _ _ = _ => list_eq solve_entry | |- _ => solve_entry end ]. Qed.

Lemma law_basis_history_LCE o1 e1 o2 e2 o3 e3 :
  halves_eq 18 (basis_history_LCE (OO:=ROps) o1 e1 o2 e2 o3 e3) /\ basis_ok (firstn 18 (basis_history_LCE (OO:=ROps) o1 e1 o2 e2 o3 e3)).
Proof. split; [ law | autounfold with gen; ops_R; cbn [firstn]; unfold basis_ok; trig_abs; repeat split; lazymatch goal with |- cons _ _ = _ => list_eq solve_entry | |- _ => solve_entry end ]. Qed.

Lemma law_basis_history_LEL o1 e1 o2 e2 o3 e3 :
  halves_eq 18 (basis_history_LEL (OO:=ROps) o1 e1 o2 e2 o3 e3) /\ basis_ok (firstn 18 (basis_history_LEL (OO:=ROps) o1 e1 o2 e2 o3 e3)).
Proof. split; [ law | autounfold with gen; ops_R; cbn [firstn]; unfold basis_ok; trig_abs; repeat split; lazymatch goal with |- cons _ _ = _ => list_eq solve_entry | |- _ => solve_entry end ]. Qed.

Lemma law_basis_history_LEC o1 e1 o2 e2 o3 e3 :
  halves_eq 18 (basis_history_LEC (OO:=ROps) o1 e1 o2 e2 o3 e3) /\ basis_ok (firstn 18 (basis_history_LEC (OO:=ROps) o1 e1 o2 e2 o3 e3)).
Proof. split; [ law | autounfold with gen; ops_R; cbn [firstn]; unfold basis_ok; trig_abs; repeat split; lazymatch goal with |- cons _ _ = _ => list_eq solve_entry | |- _ => solve_entry end ]. Qed.

Lemma law_basis_history_LEE o1 e1 o2 e2 o3 e3 :
  halves_eq 18 (basis_history_LEE (OO:=ROps) o1 e1 o2 e2 o3 e3) /\ basis_ok (firstn 18 (basis_history_LEE (OO:=ROps) o1 e1 o2 e2 o3 e3)).
Proof. split; [ law | autounfold with gen; ops_R; cbn [firstn]; unfold basis_ok; trig_abs; repeat split; lazymatch goal with |- cons _ _ = _ => list_eq solve_entry | |- _ => solve_entry end ]. Qed.

Lemma law_basis_history_CLL o1 e1 o2 e2 o3 e3 :
  halves_eq 18 (basis_history_CLL (OO:=ROps) o1 e1 o2 e2 o3 e3) /\ basis_ok (firstn 18 (basis_history_CLL (OO:=ROps) o1 e1 o2 e2 o3 e3)).
Proof. split; [ law | autounfold with gen; ops_R; cbn [firstn]; unfold basis_ok; trig_abs; repeat split; lazymatch goal with |- cons _ _ = _ => list_eq solve_entry | |- _ => solve_entry end ]. Qed.

Lemma law_basis_history_CLC o1 e1 o2 e2 o3 e3 :
  halves_eq 18 (basis_history_CLC (OO:=ROps) o1 e1 o2 e2 o3 e3) /\ basis_ok (firstn 18 (basis_history_CLC (OO:=ROps) o1 e1 o2 e2 o3 e3)).
Proof. split; [ law | autounfold with gen; ops_R; cbn [firstn]; unfold basis_ok; trig_abs; repeat split; lazymatch goal with |- cons _ _ = _ => list_eq solve_entry | |- _ => solve_entry end ]. Qed.

Lemma law_basis_history_CLE o1 e1 o2 e2 o3 e3 :
  halves_eq 18 (basis_history_CLE (OO:=ROps) o1 e1 o2 e2 o3 e3) /\ basis_ok (firstn 18 (basis_history_CLE (OO:=ROps) o1 e1 o2 e2 o3 e3)).
Proof. split; [ law | autounfold with gen; ops_R; cbn [firstn]; unfold basis_ok; trig_abs; repeat split; lazymatch goal with |- cons _ _ = _ => list_eq solve_entry | |- _ => solve_entry end ]. Qed.

Lemma law_basis_history_CCL o1 e1 o2 e2 o3 e3 :
  halves_eq 18 (basis_history_CCL (OO:=ROps) o1 e1 o2 e2 o3 e3) /\ basis_ok (firstn 18 (basis_history_CCL (OO:=ROps) o1 e1 o2 e2 o3 e3)).
Proof. split; [ law | autounfold with gen; ops_R; cbn [firstn]; unfold basis_ok; trig_abs; repeat split; lazymatch goal with |- cons _ _ = _ => list_eq solve_entry | |- _ => solve_entry end ]. Qed.

Lemma law_basis_history_CCC o1 e1 o2 e2 o3 e3 :
  halves_eq 18 (basis_history_CCC (OO:=ROps) o1 e1 o2 e2 o3 e3) /\ basis_ok (firstn 18 (basis_history_CCC (OO:=ROps) o1 e1 o2 e2 o3 e3)).
Proof. split; [ law | autounfold with gen; ops_R; cbn [firstn]; unfold basis_ok; trig_abs; repeat split; lazymatch goal with |- cons _ _ = _ => list_eq solve_entry | |- _ => solve_entry end ]. Qed.

Lemma law_basis_history_CCE o1 e1 o2 e2 o3 e3 :
  halves_eq 18 (basis_history_CCE (OO:=ROps) o1 e1 o2 e2 o3 e3) /\ basis_ok (firstn 18 (basis_history_CCE (OO:=ROps) o1 e1 o2 e2 o3 e3)).
Proof. split; [ law | autounfold with gen; ops_R; cbn [firstn]; unfold basis_ok; trig_abs; repeat split; lazymatch goal with |- cons _ _ = _ => list_eq solve_entry | |- _ => solve_entry end ]. Qed.

Lemma law_basis_history_CEL o1 e1 o2 e2 o3 e3 :
  halves_eq 18 (basis_history_CEL (OO:=ROps) o1 e1 o2 e2 o3 e3) /\ basis_ok (firstn 18 (basis_history_CEL (OO:=ROps) o1 e1 o2 e2 o3 e3)).
Proof. split; [ law | autounfold with gen; ops_R; cbn [firstn]; unfold basis_ok; trig_abs; repeat split; lazymatch goal with |- cons _ _ = _ => list_eq solve_entry | |- _ => solve_entry end ]. Qed.

Lemma law_basis_history_CEC o1 e1 o2 e2 o3 e3 :
  halves_eq 18 (basis_history_CEC (OO:=ROps) o1 e1 o2 e2 o3 e3) /\ basis_ok (firstn 18 (basis_history_CEC (OO:=ROps) o1 e1 o2 e2 o3 e3)).
Proof. split; [ law | autounfold with gen; ops_R; cbn [firstn]; unfold basis_ok; trig_abs; repeat split; lazymatch goal with |- cons _ _ = _ => list_eq solve_entry | |- _ => solve_entry end ]. Qed.

Lemma law_basis_history_CEE o1 e1 o2 e2 o3 e3 :
  halves_eq 18 (basis_history_CEE (OO:=ROps) o1 e1 o2 e2 o3 e3) /\ basis_ok (firstn 18 (basis_history_CEE (OO:=ROps) o1 e1 o2 e2 o3 e3)).
Proof. split; [ law | autounfold with gen; ops_R; cbn [firstn]; unfold basis_ok; trig_abs; repeat split; lazymatch goal with |- cons _ _ = _ => list_eq solve_entry | |- _ => solve_entry end ]. Qed.

Lemma law_basis_history_ELL o1 e1 o2 e2 o3 e3 :
  halves_eq 18 (basis_history_ELL (OO:=ROps) o1 e1 o2 e2 o3 e3) /\ basis_ok (firstn 18 (basis_history_ELL (OO:=ROps) o1 e1 o2 e2 o3 e3)).
Proof. split; [ law | autounfold with gen; ops_R; cbn [firstn]; unfold basis_ok; trig_abs; repeat split; lazymatch goal with |- cons _ _ = _ => list_eq solve_entry | |- _ => solve_entry end ]. Qed.

Lemma law_basis_history_ELC o1 e1 o2 e2 o3 e3 :
  halves_eq 18 (basis_history_ELC (OO:=ROps) o1 e1 o2 e2 o3 e3) /\ basis_ok (firstn 18 (basis_history_ELC (OO:=ROps) o1 e1 o2 e2 o3 e3)).
Proof. split; [ law | autounfold with gen; ops_R; cbn [firstn]; unfold basis_ok; trig_abs; repeat split; lazymatch goal with |- cons _ _ = _ => list_eq solve_entry | |- _ => solve_entry end ]. Qed.

Lemma law_basis_history_ELE o1 e1 o2 e2 o3 e3 :
  halves_eq 18 (basis_history_ELE (OO:=ROps) o1 e1 o2 e2 o3 e3) /\ basis_ok (firstn 18 (basis_history_ELE (OO:=ROps) o1 e1 o2 e2 o3 e3)).
Proof. split; [ law | autounfold with gen; ops_R; cbn [firstn]; unfold basis_ok; trig_abs; repeat split; lazymatch goal with |- cons _ _ = _ => list_eq solve_entry | |- _ => solve_entry end ]. Qed.

Lemma law_basis_history_ECL o1 e1 o2 e2 o3 e3 :
  halves_eq 18 (basis_history_ECL (OO:=ROps) o1 e1 o2 e2 o3 e3) /\ basis_ok (firstn 18 (basis_history_ECL (OO:=ROps) o1 e1 o2 e2 o3 e3)).
Proof. split; [ law | autounfold with gen; ops_R; cbn [firstn]; unfold basis_ok; trig_abs; repeat split; lazymatch goal with |- cons _ _ = _ => list_eq solve_entry | |- _ => solve_entry end ]. Qed.

Lemma law_basis_history_ECC o1 e1 o2 e2 o3 e3 :
  halves_eq 18 (basis_history_ECC (OO:=ROps) o1 e1 o2 e2 o3 e3) /\ basis_ok (firstn 18 (basis_history_ECC (OO:=ROps) o1 e1 o2 e2 o3 e3)).
Proof. split; [ law | autounfold with gen; ops_R; cbn [firstn]; unfold basis_ok; trig_abs; repeat split; lazymatch goal with |- cons _ _ = _ => list_eq solve_entry | |- _ => solve_entry end ]. Qed.

Lemma law_basis_history_ECE o1 e1 o2 e2 o3 e3 :
  halves_eq 18 (basis_history_ECE (OO:=ROps) o1 e1 o2 e2 o3 e3) /\ basis_ok (firstn 18 (basis_history_ECE (OO:=ROps) o1 e1 o2 e2 o3 e3)).
Proof. split; [ law | autounfold with gen; ops_R; cbn [firstn]; unfold basis_ok; trig_abs; repeat split; lazymatch goal with |- cons _ _ = _ => list_eq solve_entry | |- _ => solve_entry end ]. Qed.

Lemma law_basis_history_EEL o1 e1 o2 e2 o3 e3 :
  halves_eq 18 (basis_history_EEL (OO:=ROps) o1 e1 o2 e2 o3 e3) /\ basis_ok (firstn 18 (basis_history_EEL (OO:=ROps) o1 e1 o2 e2 o3 e3)).
Proof. split; [ law | autounfold with gen; ops_R; cbn [firstn]; unfold basis_ok; trig_abs; repeat split; lazymatch goal with |- cons _ _ = _ => list_eq solve_entry | |- _ => solve_entry end ]. Qed.

Lemma law_basis_history_EEC o1 e1 o2 e2 o3 e3 :
  halves_eq 18 (basis_history_EEC (OO:=ROps) o1 e1 o2 e2 o3 e3) /\ basis_ok (firstn 18 (basis_history_EEC (OO:=ROps) o1 e1 o2 e2 o3 e3)).
Proof. split; [ law | autounfold with gen; ops_R; cbn [firstn]; unfold basis_ok; trig_abs; repeat split; lazymatch goal with |- cons _ _ = _ => list_eq solve_entry | |- _ => solve_entry end ]. Qed.

Lemma law_basis_history_EEE o1 e1 o2 e2 o3 e3 :
  halves_eq 18 (basis_history_EEE (OO:=ROps) o1 e1 o2 e2 o3 e3) /\ basis_ok (firstn 18 (basis_history_EEE (OO:=ROps) o1 e1 o2 e2 o3 e3)).
Proof. split; [ law | autounfold with gen; ops_R; cbn [firstn]; unfold basis_ok; trig_abs; repeat split; lazymatch goal with |- cons _ _ = _ => list_eq solve_entry | |- _ => solve_entry end ]. Qed.
