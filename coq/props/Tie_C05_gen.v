(* Tie_C05_gen.v -- GENERATED ONCE by harness/gen_tie_C05.py and committed.
   The generators on stub modes with scripted fields: the sample is the mean of exactly the instances the prediction assumes (first half of each list: what get_Stokes returns and the number of get_field calls per mode; second half: the reference built from the same fields with the library's compute_stokes), and disjoint selects mode A exactly when random () / RAND_MAX < f. *)
From Coq Require Import Reals Lra List.
From Epsic Require Import Scalar SpecPauli SampleModel DualModel Gen_C05.
Import ListNotations.
Local Open Scope R_scope.


Definition halves_eq (n : nat) (l : list R) : Prop := firstn n l = skipn n l.
Ltac law := intros; unfold halves_eq; autounfold with gen; ops_R; cbn [firstn skipn]; list_eq ltac:(first [reflexivity | ring | field]).

Lemma law_gen_comp_n1_a0 f eax0r eax0i eay0r eay0i eax1r eax1i eay1r eay1i ebx0r ebx0i eby0r eby0i ebx1r ebx1i eby1r eby1i : halves_eq 6 (gen_comp_n1_a0 (OO:=ROps) f eax0r eax0i eay0r eay0i eax1r eax1i eay1r eay1i ebx0r ebx0i eby0r eby0i ebx1r ebx1i eby1r eby1i).
Proof. law. Qed.

Lemma law_gen_comp_n1_a1 f eax0r eax0i eay0r eay0i eax1r eax1i eay1r eay1i ebx0r ebx0i eby0r eby0i ebx1r ebx1i eby1r eby1i : halves_eq 6 (gen_comp_n1_a1 (OO:=ROps) f eax0r eax0i eay0r eay0i eax1r eax1i eay1r eay1i ebx0r ebx0i eby0r eby0i ebx1r ebx1i eby1r eby1i).
Proof. law. Qed.

Lemma law_gen_comp_n2_a0 f eax0r eax0i eay0r eay0i eax1r eax1i eay1r eay1i eax2r eax2i eay2r eay2i ebx0r ebx0i eby0r eby0i ebx1r ebx1i eby1r eby1i ebx2r ebx2i eby2r eby2i : halves_eq 6 (gen_comp_n2_a0 (OO:=ROps) f eax0r eax0i eay0r eay0i eax1r eax1i eay1r eay1i eax2r eax2i eay2r eay2i ebx0r ebx0i eby0r eby0i ebx1r ebx1i eby1r eby1i ebx2r ebx2i eby2r eby2i).
Proof. law. Qed.

Lemma law_gen_comp_n2_a1 f eax0r eax0i eay0r eay0i eax1r eax1i eay1r eay1i eax2r eax2i eay2r eay2i ebx0r ebx0i eby0r eby0i ebx1r ebx1i eby1r eby1i ebx2r ebx2i eby2r eby2i : halves_eq 6 (gen_comp_n2_a1 (OO:=ROps) f eax0r eax0i eay0r eay0i eax1r eax1i eay1r eay1i eax2r eax2i eay2r eay2i ebx0r ebx0i eby0r eby0i ebx1r ebx1i eby1r eby1i ebx2r ebx2i eby2r eby2i).
Proof. law. Qed.

Lemma law_gen_comp_n2_a2 f eax0r eax0i eay0r eay0i eax1r eax1i eay1r eay1i eax2r eax2i eay2r eay2i ebx0r ebx0i eby0r eby0i ebx1r ebx1i eby1r eby1i ebx2r ebx2i eby2r eby2i : halves_eq 6 (gen_comp_n2_a2 (OO:=ROps) f eax0r eax0i eay0r eay0i eax1r eax1i eay1r eay1i eax2r eax2i eay2r eay2i ebx0r ebx0i eby0r eby0i ebx1r ebx1i eby1r eby1i ebx2r ebx2i eby2r eby2i).
Proof. law. Qed.

Lemma law_gen_comp_n3_a1 f eax0r eax0i eay0r eay0i eax1r eax1i eay1r eay1i eax2r eax2i eay2r eay2i eax3r eax3i eay3r eay3i ebx0r ebx0i eby0r eby0i ebx1r ebx1i eby1r eby1i ebx2r ebx2i eby2r eby2i ebx3r ebx3i eby3r eby3i : halves_eq 6 (gen_comp_n3_a1 (OO:=ROps) f eax0r eax0i eay0r eay0i eax1r eax1i eay1r eay1i eax2r eax2i eay2r eay2i eax3r eax3i eay3r eay3i ebx0r ebx0i eby0r eby0i ebx1r ebx1i eby1r eby1i ebx2r ebx2i eby2r eby2i ebx3r ebx3i eby3r eby3i).
Proof. law. Qed.

Lemma law_gen_comp_n3_a2 f eax0r eax0i eay0r eay0i eax1r eax1i eay1r eay1i eax2r eax2i eay2r eay2i eax3r eax3i eay3r eay3i ebx0r ebx0i eby0r eby0i ebx1r ebx1i eby1r eby1i ebx2r ebx2i eby2r eby2i ebx3r ebx3i eby3r eby3i : halves_eq 6 (gen_comp_n3_a2 (OO:=ROps) f eax0r eax0i eay0r eay0i eax1r eax1i eay1r eay1i eax2r eax2i eay2r eay2i eax3r eax3i eay3r eay3i ebx0r ebx0i eby0r eby0i ebx1r ebx1i eby1r eby1i ebx2r ebx2i eby2r eby2i ebx3r ebx3i eby3r eby3i).
Proof. law. Qed.

Lemma law_gen_comp_n4_a2 f eax0r eax0i eay0r eay0i eax1r eax1i eay1r eay1i eax2r eax2i eay2r eay2i eax3r eax3i eay3r eay3i eax4r eax4i eay4r eay4i ebx0r ebx0i eby0r eby0i ebx1r ebx1i eby1r eby1i ebx2r ebx2i eby2r eby2i ebx3r ebx3i eby3r eby3i ebx4r ebx4i eby4r eby4i : halves_eq 6 (gen_comp_n4_a2 (OO:=ROps) f eax0r eax0i eay0r eay0i eax1r eax1i eay1r eay1i eax2r eax2i eay2r eay2i eax3r eax3i eay3r eay3i eax4r eax4i eay4r eay4i ebx0r ebx0i eby0r eby0i ebx1r ebx1i eby1r eby1i ebx2r ebx2i eby2r eby2i ebx3r ebx3i eby3r eby3i ebx4r ebx4i eby4r eby4i).
Proof. law. Qed.

Lemma law_gen_sup_n1 eax0r eax0i eay0r eay0i eax1r eax1i eay1r eay1i ebx0r ebx0i eby0r eby0i ebx1r ebx1i eby1r eby1i : halves_eq 6 (gen_sup_n1 (OO:=ROps) eax0r eax0i eay0r eay0i eax1r eax1i eay1r eay1i ebx0r ebx0i eby0r eby0i ebx1r ebx1i eby1r eby1i).
Proof. law. Qed.

Lemma law_gen_sup_n2 eax0r eax0i eay0r eay0i eax1r eax1i eay1r eay1i eax2r eax2i eay2r eay2i ebx0r ebx0i eby0r eby0i ebx1r ebx1i eby1r eby1i ebx2r ebx2i eby2r eby2i : halves_eq 6 (gen_sup_n2 (OO:=ROps) eax0r eax0i eay0r eay0i eax1r eax1i eay1r eay1i eax2r eax2i eay2r eay2i ebx0r ebx0i eby0r eby0i ebx1r ebx1i eby1r eby1i ebx2r ebx2i eby2r eby2i).
Proof. law. Qed.

(* outputs: g (4), calls of A, calls of B, reference from A's fields (4), reference from B's fields (4) *)
Definition selects_A (l : list R) : Prop := firstn 4 l = firstn 4 (skipn 6 l) /\ nth 4 l 0 = 2 /\ nth 5 l 0 = 0.
Definition selects_B (l : list R) : Prop := firstn 4 l = skipn 10 l /\ nth 4 l 0 = 0 /\ nth 5 l 0 = 2.
Lemma tie_gen_dis_n2 f eax0r eax0i eay0r eay0i eax1r eax1i eay1r eay1i ebx0r ebx0i eby0r eby0i ebx1r ebx1i eby1r eby1i rnd :
  Forall (fun c : Prop * list R => fst c -> (rnd / 2147483647 < f /\ selects_A (snd c)) \/ (~ rnd / 2147483647 < f /\ selects_B (snd c)))
         (gen_dis_n2_cases (OO:=ROps) f eax0r eax0i eay0r eay0i eax1r eax1i eay1r eay1i ebx0r ebx0i eby0r eby0i ebx1r ebx1i eby1r eby1i rnd)
  /\ Exists (fun c : Prop * list R => fst c) (gen_dis_n2_cases (OO:=ROps) f eax0r eax0i eay0r eay0i eax1r eax1i eay1r eay1i ebx0r ebx0i eby0r eby0i ebx1r ebx1i eby1r eby1i rnd).
Proof.
  split.
  - unfold gen_dis_n2_cases. repeat apply Forall_cons; try apply Forall_nil; cbn [fst snd]; unfold selects_A, selects_B; autounfold with gen; ops_R; cbn [firstn skipn nth]; intros Hpc.
    + left. conj_split; first [ exact Hpc | reflexivity | list_eq ltac:(first [reflexivity | ring | field]) ].
    + right. conj_split; first [ exact Hpc | reflexivity | list_eq ltac:(first [reflexivity | ring | field]) ].
  - autounfold with gen; ops_R. destruct (Rlt_dec (rnd / 2147483647) f) as [L|G]; [ apply Exists_cons_hd; exact L | apply Exists_cons_tl; apply Exists_cons_hd; exact G ].
Qed.
