(* Tie_C09_sqrt.v -- sqrt(Quaternion<T,Hermitian>) as generated from Quaternion.h,
   on every path: for a positive semi-definite argument (h0 >= 0, det >= 0,
   singular ones included) the result r satisfies phi(r) phi(r) = phi(h),
   r0 >= 0 and det r >= 0. *)
From Coq Require Import Reals Lra List.
From Epsic Require Import Scalar Gen_C09.
Import ListNotations.
Local Open Scope R_scope.

(* outputs: r (4), rr = phi(r)*phi(r) (8), hh = phi(h) (8), det r (1) *)
Definition hsqrt_ok (l : list R) : Prop :=
  firstn 8 (skipn 4 l) = firstn 8 (skipn 12 l) /\ 0 <= nth 0 l 0 /\ 0 <= nth 20 l 0.

Lemma tie_hsqrt h0 h1 h2 h3 : 0 <= h0 -> 0 <= h0 * h0 - h1 * h1 - h2 * h2 - h3 * h3 ->
  Forall (fun c : Prop * list R => fst c -> hsqrt_ok (snd c)) (hsqrt_cases (OO:=ROps) h0 h1 h2 h3).
Proof.
  intros H0 Hdet. unfold hsqrt_ok. autounfold with gen; ops_R.
  assert (Hrd : sqrt (h0 * h0 - h1 * h1 - h2 * h2 - h3 * h3) * sqrt (h0 * h0 - h1 * h1 - h2 * h2 - h3 * h3)
                = h0 * h0 - h1 * h1 - h2 * h2 - h3 * h3) by (apply sqrt_sqrt; exact Hdet).
  assert (Prd : 0 <= sqrt (h0 * h0 - h1 * h1 - h2 * h2 - h3 * h3)) by apply sqrt_pos.
  set (rd := sqrt (h0 * h0 - h1 * h1 - h2 * h2 - h3 * h3)) in *.
  assert (Ha : sqrt (1 / 2 * (h0 + rd)) * sqrt (1 / 2 * (h0 + rd)) = 1 / 2 * (h0 + rd)) by (apply sqrt_sqrt; lra).
  assert (Pa : 0 <= sqrt (1 / 2 * (h0 + rd))) by apply sqrt_pos.
  set (a := sqrt (1 / 2 * (h0 + rd))) in *.
  clearbody rd a.
  repeat (apply Forall_cons; [ cbn [fst snd firstn skipn nth]; intros PC | ]); [ .. | apply Forall_nil ].
  all: try solve [exfalso; lra].
  - (* generic path: a <> 0 *)
    destruct PC as [_ PCa].
    assert (E0 : h0 = 2 * (a * a) - rd) by lra.
    assert (E1 : h1 * h1 = 4 * (a * a * a * a) - 4 * (a * a) * rd - h2 * h2 - h3 * h3) by (subst h0; nra).
    clear Ha Hrd Hdet H0. subst h0. conj_split.
    + list_eq ltac:(first [ ring | field; exact PCa | (field_simplify_eq; [ ring [E1] | exact PCa ]) ]).
    + exact Pa.
    + (* det r = rd >= 0 *)
      replace (a * a - h1 / (2 * a) * (h1 / (2 * a)) - h2 / (2 * a) * (h2 / (2 * a)) - h3 / (2 * a) * (h3 / (2 * a)))
        with ((4 * (a * a * a * a) - (h1 * h1) - h2 * h2 - h3 * h3) / (4 * (a * a))) by (field; exact PCa).
      rewrite E1. replace ((4 * (a * a * a * a) - (4 * (a * a * a * a) - 4 * (a * a) * rd - h2 * h2 - h3 * h3) - h2 * h2 - h3 * h3) / (4 * (a * a)))
        with rd by (field; exact PCa). exact Prd.
  - (* a = 0: the argument is the zero quaternion *)
    destruct PC as [_ PCa].
    assert (Z0 : h0 = 0) by (rewrite PCa in Ha; lra).
    assert (Zr : rd = 0) by (rewrite PCa in Ha; lra).
    assert (Z1 : h1 = 0) by (rewrite Z0, Zr in Hrd; nra).
    assert (Z2 : h2 = 0) by (rewrite Z0, Zr in Hrd; nra).
    assert (Z3 : h3 = 0) by (rewrite Z0, Zr in Hrd; nra).
    subst h0 h1 h2 h3. conj_split; [ list_eq ltac:(first [ring | field]) | lra | lra ].
Qed.
