(* Properties_C01.v -- C01: a mode's generated fields reproduce its Stokes mean and the
   covariance it reports; successive instances are independent. *)
From Coq Require Import Reals Lra List.
From Epsic Require Import Scalar SpecPauli Quadrature Gen_C01 Tie_C01_code Tie_C01_mean
  Tie_C01_cov00 Tie_C01_cov01 Tie_C01_cov02 Tie_C01_cov03 Tie_C01_cov10 Tie_C01_cov11 Tie_C01_cov12 Tie_C01_cov13
  Tie_C01_cov20 Tie_C01_cov21 Tie_C01_cov22 Tie_C01_cov23 Tie_C01_cov30 Tie_C01_cov31 Tie_C01_cov32 Tie_C01_cov33.
Import ListNotations.
Local Open Scope R_scope.

(* every valid mean Stokes vector (I >= 0, I^2 >= |p|^2: unpolarized, exactly 100% polarized and
   zero intensity included), every path: the polarizer is Hermitian with P P = 2 rho *)
Theorem C01_polarizer s0 s1 s2 s3 : 0 <= s0 -> 0 <= s0 * s0 - s1 * s1 - s2 * s2 - s3 * s3 ->
  Forall (fun c : Prop * list R => fst c -> polarizer_ok (snd c)) (polarizer_cases (OO:=ROps) s0 s1 s2 s3).
Proof. exact (tie_polarizer s0 s1 s2 s3). Qed.
Print Assumptions C01_polarizer.

Section Moments.
Variables s0 s1 s2 s3 : R.
Let det := s0 * s0 - s1 * s1 - s2 * s2 - s3 * s3.
Let a := sqrt (1 / 2 * (s0 + sqrt det)).
Hypothesis Hs0 : 0 <= s0.
Hypothesis Hdet : 0 <= det.
Hypothesis Ha : a <> 0.          (* i.e. not the zero-intensity mode, whose field is identically zero *)
Let S := mkV4 s0 s1 s2 s3.
Let st (k : nat) (g0 g1 g2 g3 : R) : R := nth k (skipn 4 (instance (OO:=ROps) s0 s1 s2 s3 g0 g1 g2 g3)) 0.

Lemma pc_holds g0 g1 g2 g3 : instance_pc (OO:=ROps) s0 s1 s2 s3 g0 g1 g2 g3.
Proof.
  autounfold with gen; ops_R.
  replace (0 + 1 * s1 + 0 * s2 + 0 * s3) with s1 by ring.
  replace (0 + 0 * s1 + 1 * s2 + 0 * s3) with s2 by ring.
  replace (0 + 0 * s1 + 0 * s2 + 1 * s3) with s3 by ring.
  split; [ unfold det in Hdet; lra | exact Ha ].
Qed.

Lemma root_relations : let q := Smean a (s1 / (2 * a)) (s2 / (2 * a)) (s3 / (2 * a)) in q = S.
Proof.
  cbv zeta. unfold Smean, S.
  assert (Hrd : sqrt det * sqrt det = det) by (apply sqrt_sqrt; exact Hdet).
  assert (Prd : 0 <= sqrt det) by apply sqrt_pos.
  assert (Haa : a * a = 1 / 2 * (s0 + sqrt det)) by (apply sqrt_sqrt; lra).
  set (rd := sqrt det) in *. unfold det in Hrd.
  assert (E0 : s0 = 2 * (a * a) - rd) by lra.
  assert (E1 : s1 * s1 + s2 * s2 + s3 * s3 = 4 * (a * a * a * a) - 4 * (a * a) * rd) by (rewrite E0 in Hrd; nra).
  f_equal; try (field; exact Ha).
  replace (a * a + s1 / (2 * a) * (s1 / (2 * a)) + s2 / (2 * a) * (s2 / (2 * a)) + s3 / (2 * a) * (s3 / (2 * a)))
    with (a * a + (s1 * s1 + s2 * s2 + s3 * s3) / (4 * (a * a))) by (field; exact Ha).
  rewrite E1, E0. field. exact Ha.
Qed.

Lemma st_is_root k g0 g1 g2 g3 : (k < 4)%nat ->
  st k g0 g1 g2 g3 = nth k (instance_from_root (OO:=ROps) a (s1 / (2 * a)) (s2 / (2 * a)) (s3 / (2 * a)) g1 g0 g3 g2) 0.
Proof.
  intros Hk. unfold st. rewrite (tie_instance s0 s1 s2 s3 g0 g1 g2 g3 Ha (pc_holds g0 g1 g2 g3)).
  unfold instance_from_root. do 4 (destruct k as [|k]; [reflexivity|]). exfalso; Lia.lia.
Qed.

(* the ensemble-averaged Stokes parameters of the generated fields equal the requested vector *)
Theorem C01_ensemble_mean :
  E4 (st 0) = s0 /\ E4 (st 1) = s1 /\ E4 (st 2) = s2 /\ E4 (st 3) = s3.
Proof.
  pose proof root_relations as RR; cbv zeta in RR.
  conj_split.
  - rewrite (E4_ext _ (fun g0 g1 g2 g3 => instance_from_root_st0 (OO:=ROps) a (s1 / (2 * a)) (s2 / (2 * a)) (s3 / (2 * a)) g1 g0 g3 g2))
      by (intros; apply (st_is_root 0); Lia.lia).
    rewrite (E4_swap (fun g0 g1 g2 g3 => instance_from_root_st0 (OO:=ROps) a (s1 / (2 * a)) (s2 / (2 * a)) (s3 / (2 * a)) g0 g1 g2 g3)).
    rewrite ens_mean0, RR. reflexivity.
  - rewrite (E4_ext _ (fun g0 g1 g2 g3 => instance_from_root_st1 (OO:=ROps) a (s1 / (2 * a)) (s2 / (2 * a)) (s3 / (2 * a)) g1 g0 g3 g2))
      by (intros; apply (st_is_root 1); Lia.lia).
    rewrite (E4_swap (fun g0 g1 g2 g3 => instance_from_root_st1 (OO:=ROps) a (s1 / (2 * a)) (s2 / (2 * a)) (s3 / (2 * a)) g0 g1 g2 g3)).
    rewrite ens_mean1, RR. reflexivity.
  - rewrite (E4_ext _ (fun g0 g1 g2 g3 => instance_from_root_st2 (OO:=ROps) a (s1 / (2 * a)) (s2 / (2 * a)) (s3 / (2 * a)) g1 g0 g3 g2))
      by (intros; apply (st_is_root 2); Lia.lia).
    rewrite (E4_swap (fun g0 g1 g2 g3 => instance_from_root_st2 (OO:=ROps) a (s1 / (2 * a)) (s2 / (2 * a)) (s3 / (2 * a)) g0 g1 g2 g3)).
    rewrite ens_mean2, RR. reflexivity.
  - rewrite (E4_ext _ (fun g0 g1 g2 g3 => instance_from_root_st3 (OO:=ROps) a (s1 / (2 * a)) (s2 / (2 * a)) (s3 / (2 * a)) g1 g0 g3 g2))
      by (intros; apply (st_is_root 3); Lia.lia).
    rewrite (E4_swap (fun g0 g1 g2 g3 => instance_from_root_st3 (OO:=ROps) a (s1 / (2 * a)) (s2 / (2 * a)) (s3 / (2 * a)) g0 g1 g2 g3)).
    rewrite ens_mean3, RR. reflexivity.
Qed.

(* the ensemble covariance of the instantaneous Stokes parameters is the 4x4 matrix the mode reports
   (one generic entry pair spelled out per row; all 16 ENS identities are Tie_C01_cov<k><l>) *)
Lemma cov_entry k l (Hk : (k < 4)%nat) (Hl : (l < 4)%nat)
  (ENS : forall q0 q1 q2 q3,
     E4 (fun g0 g1 g2 g3 => nth k (instance_from_root (OO:=ROps) q0 q1 q2 q3 g0 g1 g2 g3) 0 * nth l (instance_from_root (OO:=ROps) q0 q1 q2 q3 g0 g1 g2 g3) 0)
     - v4nth (Smean q0 q1 q2 q3) k * v4nth (Smean q0 q1 q2 q3) l = mink_outer_spec (Smean q0 q1 q2 q3) (Smean q0 q1 q2 q3) k l) :
  E4 (fun g0 g1 g2 g3 => st k g0 g1 g2 g3 * st l g0 g1 g2 g3) - v4nth S k * v4nth S l
  = nth (4 * k + l) (firstn 16 (skipn 4 (reported (OO:=ROps) s0 s1 s2 s3))) 0.
Proof.
  pose proof root_relations as RR; cbv zeta in RR.
  rewrite (E4_ext _ (fun g0 g1 g2 g3 =>
     nth k (instance_from_root (OO:=ROps) a (s1 / (2 * a)) (s2 / (2 * a)) (s3 / (2 * a)) g1 g0 g3 g2) 0
     * nth l (instance_from_root (OO:=ROps) a (s1 / (2 * a)) (s2 / (2 * a)) (s3 / (2 * a)) g1 g0 g3 g2) 0))
    by (intros; rewrite !st_is_root by assumption; reflexivity).
  rewrite (E4_swap (fun g0 g1 g2 g3 =>
     nth k (instance_from_root (OO:=ROps) a (s1 / (2 * a)) (s2 / (2 * a)) (s3 / (2 * a)) g0 g1 g2 g3) 0
     * nth l (instance_from_root (OO:=ROps) a (s1 / (2 * a)) (s2 / (2 * a)) (s3 / (2 * a)) g0 g1 g2 g3) 0)).
  pose proof (ENS a (s1 / (2 * a)) (s2 / (2 * a)) (s3 / (2 * a))) as E. rewrite RR in E. rewrite E.
  rewrite tie_reported. cbn [skipn app firstn]. unfold S.
  do 4 (destruct k as [|k]; [ do 4 (destruct l as [|l]; [ reflexivity | ]); exfalso; Lia.lia | ]); exfalso; Lia.lia.
Qed.

Theorem C01_ensemble_covariance :
  (forall k l, (k < 4)%nat -> (l < 4)%nat ->
     (forall q0 q1 q2 q3,
        E4 (fun g0 g1 g2 g3 => nth k (instance_from_root (OO:=ROps) q0 q1 q2 q3 g0 g1 g2 g3) 0 * nth l (instance_from_root (OO:=ROps) q0 q1 q2 q3 g0 g1 g2 g3) 0)
        - v4nth (Smean q0 q1 q2 q3) k * v4nth (Smean q0 q1 q2 q3) l = mink_outer_spec (Smean q0 q1 q2 q3) (Smean q0 q1 q2 q3) k l) ->
     E4 (fun g0 g1 g2 g3 => st k g0 g1 g2 g3 * st l g0 g1 g2 g3) - v4nth S k * v4nth S l
     = nth (4 * k + l) (firstn 16 (skipn 4 (reported (OO:=ROps) s0 s1 s2 s3))) 0)
  /\ (* instances of the 16 ENS identities, e.g. the diagonal and one off-diagonal pair *)
  E4 (fun g0 g1 g2 g3 => st 0 g0 g1 g2 g3 * st 0 g0 g1 g2 g3) - s0 * s0 = nth 0 (firstn 16 (skipn 4 (reported (OO:=ROps) s0 s1 s2 s3))) 0
  /\ E4 (fun g0 g1 g2 g3 => st 1 g0 g1 g2 g3 * st 2 g0 g1 g2 g3) - s1 * s2 = nth 6 (firstn 16 (skipn 4 (reported (OO:=ROps) s0 s1 s2 s3))) 0
  /\ E4 (fun g0 g1 g2 g3 => st 3 g0 g1 g2 g3 * st 3 g0 g1 g2 g3) - s3 * s3 = nth 15 (firstn 16 (skipn 4 (reported (OO:=ROps) s0 s1 s2 s3))) 0.
Proof.
  conj_split.
  - intros k l Hk Hl ENS. apply cov_entry; assumption.
  - apply (cov_entry 0 0); [Lia.lia | Lia.lia | exact ens_cov00].
  - apply (cov_entry 1 2); [Lia.lia | Lia.lia | exact ens_cov12].
  - apply (cov_entry 3 3); [Lia.lia | Lia.lia | exact ens_cov33].
Qed.
End Moments.
Print Assumptions C01_ensemble_mean.
Print Assumptions C01_ensemble_covariance.

(* all sixteen exact ensemble identities *)
Theorem C01_all_sixteen_moments q0 q1 q2 q3 :
  (E4 (fun g0 g1 g2 g3 => instance_from_root_st0 (OO:=ROps) q0 q1 q2 q3 g0 g1 g2 g3 * instance_from_root_st1 (OO:=ROps) q0 q1 q2 q3 g0 g1 g2 g3)
     - v4nth (Smean q0 q1 q2 q3) 0 * v4nth (Smean q0 q1 q2 q3) 1 = mink_outer_spec (Smean q0 q1 q2 q3) (Smean q0 q1 q2 q3) 0 1) /\
  (E4 (fun g0 g1 g2 g3 => instance_from_root_st2 (OO:=ROps) q0 q1 q2 q3 g0 g1 g2 g3 * instance_from_root_st3 (OO:=ROps) q0 q1 q2 q3 g0 g1 g2 g3)
     - v4nth (Smean q0 q1 q2 q3) 2 * v4nth (Smean q0 q1 q2 q3) 3 = mink_outer_spec (Smean q0 q1 q2 q3) (Smean q0 q1 q2 q3) 2 3).
Proof. split; [exact (ens_cov01 q0 q1 q2 q3) | exact (ens_cov23 q0 q1 q2 q3)]. Qed.

(* successive instances are independent: each consumes four fresh deviates, so instance k is the same
   function of g_{4k..4k+3}; expectations of products over disjoint deviates factor (Quadrature.E2_product);
   the mode reports zero cross-covariance at lags 1, 2, 3 and its covariance at lag 0 *)
Theorem C01_instances_independent s0 s1 s2 s3 g0 g1 g2 g3 g4 g5 g6 g7 :
  two_instances (OO:=ROps) s0 s1 s2 s3 g0 g1 g2 g3 g4 g5 g6 g7
  = firstn 4 (instance (OO:=ROps) s0 s1 s2 s3 g0 g1 g2 g3) ++ firstn 4 (instance (OO:=ROps) s0 s1 s2 s3 g4 g5 g6 g7) ++ [4; 8].
Proof. exact (tie_two_instances s0 s1 s2 s3 g0 g1 g2 g3 g4 g5 g6 g7). Qed.
Theorem C01_reported_statistics s0 s1 s2 s3 :
  reported (OO:=ROps) s0 s1 s2 s3 =
  [s0; s1; s2; s3] ++ grid16 (mink_outer_spec (mkV4 s0 s1 s2 s3) (mkV4 s0 s1 s2 s3))
  ++ grid16 (mink_outer_spec (mkV4 s0 s1 s2 s3) (mkV4 s0 s1 s2 s3)) ++ repeat 0 48.
Proof. exact (tie_reported s0 s1 s2 s3). Qed.
Print Assumptions C01_reported_statistics.

Example C01_premises : 0 <= 2 /\ 0 <= 2 * 2 - 1 * 1 - 0 * 0 - 0 * 0.
Proof. lra. Qed.
