(* Tie_C09_polar.v -- the stages polar() is composed of, as generated from Pauli.h /
   Jones.h / Quaternion.h:
   A.  d = csqrt(det J), j = J / d:  d^2 = det J, d j = J, det j = 1        (det J <> 0)
   B.  real(convert(j j^dagger)) drops nothing (the imaginary part vanishes identically)
       and its determinant is |det j|^2
   (C. is Tie_C09_sqrt.)
   The composition of the stages inside polar() itself is checked numerically by the
   plain-build oracle polar_reconstruct_plain (see Properties_C09: ..._partial). *)
From Coq Require Import Reals Lra List.
From Epsic Require Import Scalar SpecPauli SpecJones CSqrt Gen_C09.
Import ListNotations.
Local Open Scope R_scope.

Ltac solve_entry := first [ ring | field; nz_auto ].

Section StageA.
Variables j00r j00i j01r j01i j10r j10i j11r j11i : R.
Let J := M2of j00r j00i j01r j01i j10r j10i j11r j11i.
Let l := polar_stageA (OO:=ROps) j00r j00i j01r j01i j10r j10i j11r j11i.
Let d : C := (nth 0 l 0, nth 1 l 0).

(* d is the principal square root of det J *)
Lemma tie_stageA_d_squared : cmul d d = m2det J.
Proof.
  subst d l J. autounfold with gen; ops_R; cbn [nth]. unfold M2of; spec_cbv.
  match goal with |- context [Rcsqrt_re ?a ?b] => destruct (Rcsqrt_sq a b) as [E1 E2]; set (dr := Rcsqrt_re a b) in *; set (di := Rcsqrt_im a b) in * end.
  apply c_eq; cbn [fst snd]; [ rewrite E1; ring | replace (dr * di + di * dr) with (2 * (dr * di)) by ring; rewrite E2; ring ].
Qed.

(* the outputs: dd, det J, j = J/d, det j, d*j, J *)
Lemma tie_stageA : cnz d ->
  skipn 2 l = clist (cmul d d) ++ clist (m2det J) ++ m2list (m2scale (cinv d) J)
              ++ clist (m2det (m2scale (cinv d) J)) ++ m2list (m2scale d (m2scale (cinv d) J)) ++ m2list J.
Proof.
  subst d l J. autounfold with gen; ops_R; cbn [nth skipn]. unfold cnz, M2of; cbn [fst snd].
  match goal with |- context [Rcsqrt_re ?a ?b] => set (dr := Rcsqrt_re a b) in *; set (di := Rcsqrt_im a b) in * end.
  clearbody dr di. intros H. spec_cbv. cbn [app]. list_eq solve_entry.
Qed.
End StageA.

(* stage B *)
Lemma tie_stageB p00r p00i p01r p01i p10r p10i p11r p11i :
  let l := polar_stageB (OO:=ROps) p00r p00i p01r p01i p10r p10i p11r p11i in
  firstn 4 (skipn 4 l) = [0; 0; 0; 0] /\
  nth 8 l 0 = nth 9 l 0 * nth 9 l 0 + nth 10 l 0 * nth 10 l 0 /\
  clist (m2det (M2of p00r p00i p01r p01i p10r p10i p11r p11i)) = [nth 9 l 0; nth 10 l 0] /\
  (* the real part kept is the Hermitian quaternion of j j^dagger: phiH(re) = j j^dagger *)
  m2list (phiHc (cofR (nth 0 l 0)) (cofR (nth 1 l 0)) (cofR (nth 2 l 0)) (cofR (nth 3 l 0)))
  = m2list (m2mul (M2of p00r p00i p01r p01i p10r p10i p11r p11i) (m2herm (M2of p00r p00i p01r p01i p10r p10i p11r p11i))).
Proof.
  intros l; subst l. autounfold with gen; ops_R; cbn [nth firstn skipn]. unfold M2of, phiHc; spec_cbv.
  conj_split; lazymatch goal with |- cons _ _ = _ => list_eq solve_entry | |- _ => solve_entry end.
Qed.
