(* Tie_C08_pairing.v -- GENERATED ONCE by harness/gen_tie_C08.py and committed.
   Exhaustive over request words of the stated lengths: the factors delivered by
   the real classes, in request order, and the number of joint draws made, are
   those of the Queues model run on the same word with symbolic draws (a_k, b_k). *)
From Coq Require Import Reals List ZArith.
From Epsic Require Import Scalar Queues Gen_C08.
Import ListNotations.

Ltac pairing := intros; autounfold with gen; ops_R; cbn [nth firstn]; split; [ reflexivity | apply f_equal; reflexivity ].

Lemma tie_pair_wA a0 b0 :
  let draws := fun k => nth k [(a0, b0)] (a0, b0) in
  firstn 1 (pair_wA (OO:=ROps) a0 b0) = deliveries draws st0 [ReqA] /\
  nth 1 (pair_wA (OO:=ROps) a0 b0) 0%R = IZR (Z.of_nat (drawn (run draws [ReqA]))).
Proof. pairing. Qed.

Lemma tie_pair_wB a0 b0 :
  let draws := fun k => nth k [(a0, b0)] (a0, b0) in
  firstn 1 (pair_wB (OO:=ROps) a0 b0) = deliveries draws st0 [ReqB] /\
  nth 1 (pair_wB (OO:=ROps) a0 b0) 0%R = IZR (Z.of_nat (drawn (run draws [ReqB]))).
Proof. pairing. Qed.

Lemma tie_pair_wAA a0 b0 a1 b1 :
  let draws := fun k => nth k [(a0, b0); (a1, b1)] (a0, b0) in
  firstn 2 (pair_wAA (OO:=ROps) a0 b0 a1 b1) = deliveries draws st0 [ReqA; ReqA] /\
  nth 2 (pair_wAA (OO:=ROps) a0 b0 a1 b1) 0%R = IZR (Z.of_nat (drawn (run draws [ReqA; ReqA]))).
Proof. pairing. Qed.

Lemma tie_pair_wBA a0 b0 a1 b1 :
  let draws := fun k => nth k [(a0, b0); (a1, b1)] (a0, b0) in
  firstn 2 (pair_wBA (OO:=ROps) a0 b0 a1 b1) = deliveries draws st0 [ReqB; ReqA] /\
  nth 2 (pair_wBA (OO:=ROps) a0 b0 a1 b1) 0%R = IZR (Z.of_nat (drawn (run draws [ReqB; ReqA]))).
Proof. pairing. Qed.

Lemma tie_pair_wAB a0 b0 a1 b1 :
  let draws := fun k => nth k [(a0, b0); (a1, b1)] (a0, b0) in
  firstn 2 (pair_wAB (OO:=ROps) a0 b0 a1 b1) = deliveries draws st0 [ReqA; ReqB] /\
  nth 2 (pair_wAB (OO:=ROps) a0 b0 a1 b1) 0%R = IZR (Z.of_nat (drawn (run draws [ReqA; ReqB]))).
Proof. pairing. Qed.

Lemma tie_pair_wBB a0 b0 a1 b1 :
  let draws := fun k => nth k [(a0, b0); (a1, b1)] (a0, b0) in
  firstn 2 (pair_wBB (OO:=ROps) a0 b0 a1 b1) = deliveries draws st0 [ReqB; ReqB] /\
  nth 2 (pair_wBB (OO:=ROps) a0 b0 a1 b1) 0%R = IZR (Z.of_nat (drawn (run draws [ReqB; ReqB]))).
Proof. pairing. Qed.

Lemma tie_pair_wAAA a0 b0 a1 b1 a2 b2 :
  let draws := fun k => nth k [(a0, b0); (a1, b1); (a2, b2)] (a0, b0) in
  firstn 3 (pair_wAAA (OO:=ROps) a0 b0 a1 b1 a2 b2) = deliveries draws st0 [ReqA; ReqA; ReqA] /\
  nth 3 (pair_wAAA (OO:=ROps) a0 b0 a1 b1 a2 b2) 0%R = IZR (Z.of_nat (drawn (run draws [ReqA; ReqA; ReqA]))).
Proof. pairing. Qed.

Lemma tie_pair_wBAA a0 b0 a1 b1 a2 b2 :
  let draws := fun k => nth k [(a0, b0); (a1, b1); (a2, b2)] (a0, b0) in
  firstn 3 (pair_wBAA (OO:=ROps) a0 b0 a1 b1 a2 b2) = deliveries draws st0 [ReqB; ReqA; ReqA] /\
  nth 3 (pair_wBAA (OO:=ROps) a0 b0 a1 b1 a2 b2) 0%R = IZR (Z.of_nat (drawn (run draws [ReqB; ReqA; ReqA]))).
Proof. pairing. Qed.

Lemma tie_pair_wABA a0 b0 a1 b1 a2 b2 :
  let draws := fun k => nth k [(a0, b0); (a1, b1); (a2, b2)] (a0, b0) in
  firstn 3 (pair_wABA (OO:=ROps) a0 b0 a1 b1 a2 b2) = deliveries draws st0 [ReqA; ReqB; ReqA] /\
  nth 3 (pair_wABA (OO:=ROps) a0 b0 a1 b1 a2 b2) 0%R = IZR (Z.of_nat (drawn (run draws [ReqA; ReqB; ReqA]))).
Proof. pairing. Qed.

Lemma tie_pair_wBBA a0 b0 a1 b1 a2 b2 :
  let draws := fun k => nth k [(a0, b0); (a1, b1); (a2, b2)] (a0, b0) in
  firstn 3 (pair_wBBA (OO:=ROps) a0 b0 a1 b1 a2 b2) = deliveries draws st0 [ReqB; ReqB; ReqA] /\
  nth 3 (pair_wBBA (OO:=ROps) a0 b0 a1 b1 a2 b2) 0%R = IZR (Z.of_nat (drawn (run draws [ReqB; ReqB; ReqA]))).
Proof. pairing. Qed.

Lemma tie_pair_wAAB a0 b0 a1 b1 a2 b2 :
  let draws := fun k => nth k [(a0, b0); (a1, b1); (a2, b2)] (a0, b0) in
  firstn 3 (pair_wAAB (OO:=ROps) a0 b0 a1 b1 a2 b2) = deliveries draws st0 [ReqA; ReqA; ReqB] /\
  nth 3 (pair_wAAB (OO:=ROps) a0 b0 a1 b1 a2 b2) 0%R = IZR (Z.of_nat (drawn (run draws [ReqA; ReqA; ReqB]))).
Proof. pairing. Qed.

Lemma tie_pair_wBAB a0 b0 a1 b1 a2 b2 :
  let draws := fun k => nth k [(a0, b0); (a1, b1); (a2, b2)] (a0, b0) in
  firstn 3 (pair_wBAB (OO:=ROps) a0 b0 a1 b1 a2 b2) = deliveries draws st0 [ReqB; ReqA; ReqB] /\
  nth 3 (pair_wBAB (OO:=ROps) a0 b0 a1 b1 a2 b2) 0%R = IZR (Z.of_nat (drawn (run draws [ReqB; ReqA; ReqB]))).
Proof. pairing. Qed.

Lemma tie_pair_wABB a0 b0 a1 b1 a2 b2 :
  let draws := fun k => nth k [(a0, b0); (a1, b1); (a2, b2)] (a0, b0) in
  firstn 3 (pair_wABB (OO:=ROps) a0 b0 a1 b1 a2 b2) = deliveries draws st0 [ReqA; ReqB; ReqB] /\
  nth 3 (pair_wABB (OO:=ROps) a0 b0 a1 b1 a2 b2) 0%R = IZR (Z.of_nat (drawn (run draws [ReqA; ReqB; ReqB]))).
Proof. pairing. Qed.

Lemma tie_pair_wBBB a0 b0 a1 b1 a2 b2 :
  let draws := fun k => nth k [(a0, b0); (a1, b1); (a2, b2)] (a0, b0) in
  firstn 3 (pair_wBBB (OO:=ROps) a0 b0 a1 b1 a2 b2) = deliveries draws st0 [ReqB; ReqB; ReqB] /\
  nth 3 (pair_wBBB (OO:=ROps) a0 b0 a1 b1 a2 b2) 0%R = IZR (Z.of_nat (drawn (run draws [ReqB; ReqB; ReqB]))).
Proof. pairing. Qed.

Lemma tie_pair_wAAAA a0 b0 a1 b1 a2 b2 a3 b3 :
  let draws := fun k => nth k [(a0, b0); (a1, b1); (a2, b2); (a3, b3)] (a0, b0) in
  firstn 4 (pair_wAAAA (OO:=ROps) a0 b0 a1 b1 a2 b2 a3 b3) = deliveries draws st0 [ReqA; ReqA; ReqA; ReqA] /\
  nth 4 (pair_wAAAA (OO:=ROps) a0 b0 a1 b1 a2 b2 a3 b3) 0%R = IZR (Z.of_nat (drawn (run draws [ReqA; ReqA; ReqA; ReqA]))).
Proof. pairing. Qed.

Lemma tie_pair_wBAAA a0 b0 a1 b1 a2 b2 a3 b3 :
  let draws := fun k => nth k [(a0, b0); (a1, b1); (a2, b2); (a3, b3)] (a0, b0) in
  firstn 4 (pair_wBAAA (OO:=ROps) a0 b0 a1 b1 a2 b2 a3 b3) = deliveries draws st0 [ReqB; ReqA; ReqA; ReqA] /\
  nth 4 (pair_wBAAA (OO:=ROps) a0 b0 a1 b1 a2 b2 a3 b3) 0%R = IZR (Z.of_nat (drawn (run draws [ReqB; ReqA; ReqA; ReqA]))).
Proof. pairing. Qed.

Lemma tie_pair_wABAA a0 b0 a1 b1 a2 b2 a3 b3 :
  let draws := fun k => nth k [(a0, b0); (a1, b1); (a2, b2); (a3, b3)] (a0, b0) in
  firstn 4 (pair_wABAA (OO:=ROps) a0 b0 a1 b1 a2 b2 a3 b3) = deliveries draws st0 [ReqA; ReqB; ReqA; ReqA] /\
  nth 4 (pair_wABAA (OO:=ROps) a0 b0 a1 b1 a2 b2 a3 b3) 0%R = IZR (Z.of_nat (drawn (run draws [ReqA; ReqB; ReqA; ReqA]))).
Proof. pairing. Qed.

Lemma tie_pair_wBBAA a0 b0 a1 b1 a2 b2 a3 b3 :
  let draws := fun k => nth k [(a0, b0); (a1, b1); (a2, b2); (a3, b3)] (a0, b0) in
  firstn 4 (pair_wBBAA (OO:=ROps) a0 b0 a1 b1 a2 b2 a3 b3) = deliveries draws st0 [ReqB; ReqB; ReqA; ReqA] /\
  nth 4 (pair_wBBAA (OO:=ROps) a0 b0 a1 b1 a2 b2 a3 b3) 0%R = IZR (Z.of_nat (drawn (run draws [ReqB; ReqB; ReqA; ReqA]))).
Proof. pairing. Qed.

Lemma tie_pair_wAABA a0 b0 a1 b1 a2 b2 a3 b3 :
  let draws := fun k => nth k [(a0, b0); (a1, b1); (a2, b2); (a3, b3)] (a0, b0) in
  firstn 4 (pair_wAABA (OO:=ROps) a0 b0 a1 b1 a2 b2 a3 b3) = deliveries draws st0 [ReqA; ReqA; ReqB; ReqA] /\
  nth 4 (pair_wAABA (OO:=ROps) a0 b0 a1 b1 a2 b2 a3 b3) 0%R = IZR (Z.of_nat (drawn (run draws [ReqA; ReqA; ReqB; ReqA]))).
Proof. pairing. Qed.

Lemma tie_pair_wBABA a0 b0 a1 b1 a2 b2 a3 b3 :
  let draws := fun k => nth k [(a0, b0); (a1, b1); (a2, b2); (a3, b3)] (a0, b0) in
  firstn 4 (pair_wBABA (OO:=ROps) a0 b0 a1 b1 a2 b2 a3 b3) = deliveries draws st0 [ReqB; ReqA; ReqB; ReqA] /\
  nth 4 (pair_wBABA (OO:=ROps) a0 b0 a1 b1 a2 b2 a3 b3) 0%R = IZR (Z.of_nat (drawn (run draws [ReqB; ReqA; ReqB; ReqA]))).
Proof. pairing. Qed.

Lemma tie_pair_wABBA a0 b0 a1 b1 a2 b2 a3 b3 :
  let draws := fun k => nth k [(a0, b0); (a1, b1); (a2, b2); (a3, b3)] (a0, b0) in
  firstn 4 (pair_wABBA (OO:=ROps) a0 b0 a1 b1 a2 b2 a3 b3) = deliveries draws st0 [ReqA; ReqB; ReqB; ReqA] /\
  nth 4 (pair_wABBA (OO:=ROps) a0 b0 a1 b1 a2 b2 a3 b3) 0%R = IZR (Z.of_nat (drawn (run draws [ReqA; ReqB; ReqB; ReqA]))).
Proof. pairing. Qed.

Lemma tie_pair_wBBBA a0 b0 a1 b1 a2 b2 a3 b3 :
  let draws := fun k => nth k [(a0, b0); (a1, b1); (a2, b2); (a3, b3)] (a0, b0) in
  firstn 4 (pair_wBBBA (OO:=ROps) a0 b0 a1 b1 a2 b2 a3 b3) = deliveries draws st0 [ReqB; ReqB; ReqB; ReqA] /\
  nth 4 (pair_wBBBA (OO:=ROps) a0 b0 a1 b1 a2 b2 a3 b3) 0%R = IZR (Z.of_nat (drawn (run draws [ReqB; ReqB; ReqB; ReqA]))).
Proof. pairing. Qed.

Lemma tie_pair_wAAAB a0 b0 a1 b1 a2 b2 a3 b3 :
  let draws := fun k => nth k [(a0, b0); (a1, b1); (a2, b2); (a3, b3)] (a0, b0) in
  firstn 4 (pair_wAAAB (OO:=ROps) a0 b0 a1 b1 a2 b2 a3 b3) = deliveries draws st0 [ReqA; ReqA; ReqA; ReqB] /\
  nth 4 (pair_wAAAB (OO:=ROps) a0 b0 a1 b1 a2 b2 a3 b3) 0%R = IZR (Z.of_nat (drawn (run draws [ReqA; ReqA; ReqA; ReqB]))).
Proof. pairing. Qed.

Lemma tie_pair_wBAAB a0 b0 a1 b1 a2 b2 a3 b3 :
  let draws := fun k => nth k [(a0, b0); (a1, b1); (a2, b2); (a3, b3)] (a0, b0) in
  firstn 4 (pair_wBAAB (OO:=ROps) a0 b0 a1 b1 a2 b2 a3 b3) = deliveries draws st0 [ReqB; ReqA; ReqA; ReqB] /\
  nth 4 (pair_wBAAB (OO:=ROps) a0 b0 a1 b1 a2 b2 a3 b3) 0%R = IZR (Z.of_nat (drawn (run draws [ReqB; ReqA; ReqA; ReqB]))).
Proof. pairing. Qed.

Lemma tie_pair_wABAB a0 b0 a1 b1 a2 b2 a3 b3 :
  let draws := fun k => nth k [(a0, b0); (a1, b1); (a2, b2); (a3, b3)] (a0, b0) in
  firstn 4 (pair_wABAB (OO:=ROps) a0 b0 a1 b1 a2 b2 a3 b3) = deliveries draws st0 [ReqA; ReqB; ReqA; ReqB] /\
  nth 4 (pair_wABAB (OO:=ROps) a0 b0 a1 b1 a2 b2 a3 b3) 0%R = IZR (Z.of_nat (drawn (run draws [ReqA; ReqB; ReqA; ReqB]))).
Proof. pairing. Qed.

Lemma tie_pair_wBBAB a0 b0 a1 b1 a2 b2 a3 b3 :
  let draws := fun k => nth k [(a0, b0); (a1, b1); (a2, b2); (a3, b3)] (a0, b0) in
  firstn 4 (pair_wBBAB (OO:=ROps) a0 b0 a1 b1 a2 b2 a3 b3) = deliveries draws st0 [ReqB; ReqB; ReqA; ReqB] /\
  nth 4 (pair_wBBAB (OO:=ROps) a0 b0 a1 b1 a2 b2 a3 b3) 0%R = IZR (Z.of_nat (drawn (run draws [ReqB; ReqB; ReqA; ReqB]))).
Proof. pairing. Qed.

Lemma tie_pair_wAABB a0 b0 a1 b1 a2 b2 a3 b3 :
  let draws := fun k => nth k [(a0, b0); (a1, b1); (a2, b2); (a3, b3)] (a0, b0) in
  firstn 4 (pair_wAABB (OO:=ROps) a0 b0 a1 b1 a2 b2 a3 b3) = deliveries draws st0 [ReqA; ReqA; ReqB; ReqB] /\
  nth 4 (pair_wAABB (OO:=ROps) a0 b0 a1 b1 a2 b2 a3 b3) 0%R = IZR (Z.of_nat (drawn (run draws [ReqA; ReqA; ReqB; ReqB]))).
Proof. pairing. Qed.

Lemma tie_pair_wBABB a0 b0 a1 b1 a2 b2 a3 b3 :
  let draws := fun k => nth k [(a0, b0); (a1, b1); (a2, b2); (a3, b3)] (a0, b0) in
  firstn 4 (pair_wBABB (OO:=ROps) a0 b0 a1 b1 a2 b2 a3 b3) = deliveries draws st0 [ReqB; ReqA; ReqB; ReqB] /\
  nth 4 (pair_wBABB (OO:=ROps) a0 b0 a1 b1 a2 b2 a3 b3) 0%R = IZR (Z.of_nat (drawn (run draws [ReqB; ReqA; ReqB; ReqB]))).
Proof. pairing. Qed.

Lemma tie_pair_wABBB a0 b0 a1 b1 a2 b2 a3 b3 :
  let draws := fun k => nth k [(a0, b0); (a1, b1); (a2, b2); (a3, b3)] (a0, b0) in
  firstn 4 (pair_wABBB (OO:=ROps) a0 b0 a1 b1 a2 b2 a3 b3) = deliveries draws st0 [ReqA; ReqB; ReqB; ReqB] /\
  nth 4 (pair_wABBB (OO:=ROps) a0 b0 a1 b1 a2 b2 a3 b3) 0%R = IZR (Z.of_nat (drawn (run draws [ReqA; ReqB; ReqB; ReqB]))).
Proof. pairing. Qed.

Lemma tie_pair_wBBBB a0 b0 a1 b1 a2 b2 a3 b3 :
  let draws := fun k => nth k [(a0, b0); (a1, b1); (a2, b2); (a3, b3)] (a0, b0) in
  firstn 4 (pair_wBBBB (OO:=ROps) a0 b0 a1 b1 a2 b2 a3 b3) = deliveries draws st0 [ReqB; ReqB; ReqB; ReqB] /\
  nth 4 (pair_wBBBB (OO:=ROps) a0 b0 a1 b1 a2 b2 a3 b3) 0%R = IZR (Z.of_nat (drawn (run draws [ReqB; ReqB; ReqB; ReqB]))).
Proof. pairing. Qed.

Lemma tie_pair_wAAAAA a0 b0 a1 b1 a2 b2 a3 b3 a4 b4 :
  let draws := fun k => nth k [(a0, b0); (a1, b1); (a2, b2); (a3, b3); (a4, b4)] (a0, b0) in
  firstn 5 (pair_wAAAAA (OO:=ROps) a0 b0 a1 b1 a2 b2 a3 b3 a4 b4) = deliveries draws st0 [ReqA; ReqA; ReqA; ReqA; ReqA] /\
  nth 5 (pair_wAAAAA (OO:=ROps) a0 b0 a1 b1 a2 b2 a3 b3 a4 b4) 0%R = IZR (Z.of_nat (drawn (run draws [ReqA; ReqA; ReqA; ReqA; ReqA]))).
Proof. pairing. Qed.

Lemma tie_pair_wBAAAA a0 b0 a1 b1 a2 b2 a3 b3 a4 b4 :
  let draws := fun k => nth k [(a0, b0); (a1, b1); (a2, b2); (a3, b3); (a4, b4)] (a0, b0) in
  firstn 5 (pair_wBAAAA (OO:=ROps) a0 b0 a1 b1 a2 b2 a3 b3 a4 b4) = deliveries draws st0 [ReqB; ReqA; ReqA; ReqA; ReqA] /\
  nth 5 (pair_wBAAAA (OO:=ROps) a0 b0 a1 b1 a2 b2 a3 b3 a4 b4) 0%R = IZR (Z.of_nat (drawn (run draws [ReqB; ReqA; ReqA; ReqA; ReqA]))).
Proof. pairing. Qed.

Lemma tie_pair_wABAAA a0 b0 a1 b1 a2 b2 a3 b3 a4 b4 :
  let draws := fun k => nth k [(a0, b0); (a1, b1); (a2, b2); (a3, b3); (a4, b4)] (a0, b0) in
  firstn 5 (pair_wABAAA (OO:=ROps) a0 b0 a1 b1 a2 b2 a3 b3 a4 b4) = deliveries draws st0 [ReqA; ReqB; ReqA; ReqA; ReqA] /\
  nth 5 (pair_wABAAA (OO:=ROps) a0 b0 a1 b1 a2 b2 a3 b3 a4 b4) 0%R = IZR (Z.of_nat (drawn (run draws [ReqA; ReqB; ReqA; ReqA; ReqA]))).
Proof. pairing. Qed.

Lemma tie_pair_wBBAAA a0 b0 a1 b1 a2 b2 a3 b3 a4 b4 :
  let draws := fun k => nth k [(a0, b0); (a1, b1); (a2, b2); (a3, b3); (a4, b4)] (a0, b0) in
  firstn 5 (pair_wBBAAA (OO:=ROps) a0 b0 a1 b1 a2 b2 a3 b3 a4 b4) = deliveries draws st0 [ReqB; ReqB; ReqA; ReqA; ReqA] /\
  nth 5 (pair_wBBAAA (OO:=ROps) a0 b0 a1 b1 a2 b2 a3 b3 a4 b4) 0%R = IZR (Z.of_nat (drawn (run draws [ReqB; ReqB; ReqA; ReqA; ReqA]))).
Proof. pairing. Qed.

Lemma tie_pair_wAABAA a0 b0 a1 b1 a2 b2 a3 b3 a4 b4 :
  let draws := fun k => nth k [(a0, b0); (a1, b1); (a2, b2); (a3, b3); (a4, b4)] (a0, b0) in
  firstn 5 (pair_wAABAA (OO:=ROps) a0 b0 a1 b1 a2 b2 a3 b3 a4 b4) = deliveries draws st0 [ReqA; ReqA; ReqB; ReqA; ReqA] /\
  nth 5 (pair_wAABAA (OO:=ROps) a0 b0 a1 b1 a2 b2 a3 b3 a4 b4) 0%R = IZR (Z.of_nat (drawn (run draws [ReqA; ReqA; ReqB; ReqA; ReqA]))).
Proof. pairing. Qed.

Lemma tie_pair_wBABAA a0 b0 a1 b1 a2 b2 a3 b3 a4 b4 :
  let draws := fun k => nth k [(a0, b0); (a1, b1); (a2, b2); (a3, b3); (a4, b4)] (a0, b0) in
  firstn 5 (pair_wBABAA (OO:=ROps) a0 b0 a1 b1 a2 b2 a3 b3 a4 b4) = deliveries draws st0 [ReqB; ReqA; ReqB; ReqA; ReqA] /\
  nth 5 (pair_wBABAA (OO:=ROps) a0 b0 a1 b1 a2 b2 a3 b3 a4 b4) 0%R = IZR (Z.of_nat (drawn (run draws [ReqB; ReqA; ReqB; ReqA; ReqA]))).
Proof. pairing. Qed.

Lemma tie_pair_wABBAA a0 b0 a1 b1 a2 b2 a3 b3 a4 b4 :
  let draws := fun k => nth k [(a0, b0); (a1, b1); (a2, b2); (a3, b3); (a4, b4)] (a0, b0) in
  firstn 5 (pair_wABBAA (OO:=ROps) a0 b0 a1 b1 a2 b2 a3 b3 a4 b4) = deliveries draws st0 [ReqA; ReqB; ReqB; ReqA; ReqA] /\
  nth 5 (pair_wABBAA (OO:=ROps) a0 b0 a1 b1 a2 b2 a3 b3 a4 b4) 0%R = IZR (Z.of_nat (drawn (run draws [ReqA; ReqB; ReqB; ReqA; ReqA]))).
Proof. pairing. Qed.

Lemma tie_pair_wBBBAA a0 b0 a1 b1 a2 b2 a3 b3 a4 b4 :
  let draws := fun k => nth k [(a0, b0); (a1, b1); (a2, b2); (a3, b3); (a4, b4)] (a0, b0) in
  firstn 5 (pair_wBBBAA (OO:=ROps) a0 b0 a1 b1 a2 b2 a3 b3 a4 b4) = deliveries draws st0 [ReqB; ReqB; ReqB; ReqA; ReqA] /\
  nth 5 (pair_wBBBAA (OO:=ROps) a0 b0 a1 b1 a2 b2 a3 b3 a4 b4) 0%R = IZR (Z.of_nat (drawn (run draws [ReqB; ReqB; ReqB; ReqA; ReqA]))).
Proof. pairing. Qed.

Lemma tie_pair_wAAABA a0 b0 a1 b1 a2 b2 a3 b3 a4 b4 :
  let draws := fun k => nth k [(a0, b0); (a1, b1); (a2, b2); (a3, b3); (a4, b4)] (a0, b0) in
  firstn 5 (pair_wAAABA (OO:=ROps) a0 b0 a1 b1 a2 b2 a3 b3 a4 b4) = deliveries draws st0 [ReqA; ReqA; ReqA; ReqB; ReqA] /\
  nth 5 (pair_wAAABA (OO:=ROps) a0 b0 a1 b1 a2 b2 a3 b3 a4 b4) 0%R = IZR (Z.of_nat (drawn (run draws [ReqA; ReqA; ReqA; ReqB; ReqA]))).
Proof. pairing. Qed.

Lemma tie_pair_wBAABA a0 b0 a1 b1 a2 b2 a3 b3 a4 b4 :
  let draws := fun k => nth k [(a0, b0); (a1, b1); (a2, b2); (a3, b3); (a4, b4)] (a0, b0) in
  firstn 5 (pair_wBAABA (OO:=ROps) a0 b0 a1 b1 a2 b2 a3 b3 a4 b4) = deliveries draws st0 [ReqB; ReqA; ReqA; ReqB; ReqA] /\
  nth 5 (pair_wBAABA (OO:=ROps) a0 b0 a1 b1 a2 b2 a3 b3 a4 b4) 0%R = IZR (Z.of_nat (drawn (run draws [ReqB; ReqA; ReqA; ReqB; ReqA]))).
Proof. pairing. Qed.

Lemma tie_pair_wABABA a0 b0 a1 b1 a2 b2 a3 b3 a4 b4 :
  let draws := fun k => nth k [(a0, b0); (a1, b1); (a2, b2); (a3, b3); (a4, b4)] (a0, b0) in
  firstn 5 (pair_wABABA (OO:=ROps) a0 b0 a1 b1 a2 b2 a3 b3 a4 b4) = deliveries draws st0 [ReqA; ReqB; ReqA; ReqB; ReqA] /\
  nth 5 (pair_wABABA (OO:=ROps) a0 b0 a1 b1 a2 b2 a3 b3 a4 b4) 0%R = IZR (Z.of_nat (drawn (run draws [ReqA; ReqB; ReqA; ReqB; ReqA]))).
Proof. pairing. Qed.

Lemma tie_pair_wBBABA a0 b0 a1 b1 a2 b2 a3 b3 a4 b4 :
  let draws := fun k => nth k [(a0, b0); (a1, b1); (a2, b2); (a3, b3); (a4, b4)] (a0, b0) in
  firstn 5 (pair_wBBABA (OO:=ROps) a0 b0 a1 b1 a2 b2 a3 b3 a4 b4) = deliveries draws st0 [ReqB; ReqB; ReqA; ReqB; ReqA] /\
  nth 5 (pair_wBBABA (OO:=ROps) a0 b0 a1 b1 a2 b2 a3 b3 a4 b4) 0%R = IZR (Z.of_nat (drawn (run draws [ReqB; ReqB; ReqA; ReqB; ReqA]))).
Proof. pairing. Qed.

Lemma tie_pair_wAABBA a0 b0 a1 b1 a2 b2 a3 b3 a4 b4 :
  let draws := fun k => nth k [(a0, b0); (a1, b1); (a2, b2); (a3, b3); (a4, b4)] (a0, b0) in
  firstn 5 (pair_wAABBA (OO:=ROps) a0 b0 a1 b1 a2 b2 a3 b3 a4 b4) = deliveries draws st0 [ReqA; ReqA; ReqB; ReqB; ReqA] /\
  nth 5 (pair_wAABBA (OO:=ROps) a0 b0 a1 b1 a2 b2 a3 b3 a4 b4) 0%R = IZR (Z.of_nat (drawn (run draws [ReqA; ReqA; ReqB; ReqB; ReqA]))).
Proof. pairing. Qed.

Lemma tie_pair_wBABBA a0 b0 a1 b1 a2 b2 a3 b3 a4 b4 :
  let draws := fun k => nth k [(a0, b0); (a1, b1); (a2, b2); (a3, b3); (a4, b4)] (a0, b0) in
  firstn 5 (pair_wBABBA (OO:=ROps) a0 b0 a1 b1 a2 b2 a3 b3 a4 b4) = deliveries draws st0 [ReqB; ReqA; ReqB; ReqB; ReqA] /\
  nth 5 (pair_wBABBA (OO:=ROps) a0 b0 a1 b1 a2 b2 a3 b3 a4 b4) 0%R = IZR (Z.of_nat (drawn (run draws [ReqB; ReqA; ReqB; ReqB; ReqA]))).
Proof. pairing. Qed.

Lemma tie_pair_wABBBA a0 b0 a1 b1 a2 b2 a3 b3 a4 b4 :
  let draws := fun k => nth k [(a0, b0); (a1, b1); (a2, b2); (a3, b3); (a4, b4)] (a0, b0) in
  firstn 5 (pair_wABBBA (OO:=ROps) a0 b0 a1 b1 a2 b2 a3 b3 a4 b4) = deliveries draws st0 [ReqA; ReqB; ReqB; ReqB; ReqA] /\
  nth 5 (pair_wABBBA (OO:=ROps) a0 b0 a1 b1 a2 b2 a3 b3 a4 b4) 0%R = IZR (Z.of_nat (drawn (run draws [ReqA; ReqB; ReqB; ReqB; ReqA]))).
Proof. pairing. Qed.

Lemma tie_pair_wBBBBA a0 b0 a1 b1 a2 b2 a3 b3 a4 b4 :
  let draws := fun k => nth k [(a0, b0); (a1, b1); (a2, b2); (a3, b3); (a4, b4)] (a0, b0) in
  firstn 5 (pair_wBBBBA (OO:=ROps) a0 b0 a1 b1 a2 b2 a3 b3 a4 b4) = deliveries draws st0 [ReqB; ReqB; ReqB; ReqB; ReqA] /\
  nth 5 (pair_wBBBBA (OO:=ROps) a0 b0 a1 b1 a2 b2 a3 b3 a4 b4) 0%R = IZR (Z.of_nat (drawn (run draws [ReqB; ReqB; ReqB; ReqB; ReqA]))).
Proof. pairing. Qed.

Lemma tie_pair_wAAAAB a0 b0 a1 b1 a2 b2 a3 b3 a4 b4 :
  let draws := fun k => nth k [(a0, b0); (a1, b1); (a2, b2); (a3, b3); (a4, b4)] (a0, b0) in
  firstn 5 (pair_wAAAAB (OO:=ROps) a0 b0 a1 b1 a2 b2 a3 b3 a4 b4) = deliveries draws st0 [ReqA; ReqA; ReqA; ReqA; ReqB] /\
  nth 5 (pair_wAAAAB (OO:=ROps) a0 b0 a1 b1 a2 b2 a3 b3 a4 b4) 0%R = IZR (Z.of_nat (drawn (run draws [ReqA; ReqA; ReqA; ReqA; ReqB]))).
Proof. pairing. Qed.

Lemma tie_pair_wBAAAB a0 b0 a1 b1 a2 b2 a3 b3 a4 b4 :
  let draws := fun k => nth k [(a0, b0); (a1, b1); (a2, b2); (a3, b3); (a4, b4)] (a0, b0) in
  firstn 5 (pair_wBAAAB (OO:=ROps) a0 b0 a1 b1 a2 b2 a3 b3 a4 b4) = deliveries draws st0 [ReqB; ReqA; ReqA; ReqA; ReqB] /\
  nth 5 (pair_wBAAAB (OO:=ROps) a0 b0 a1 b1 a2 b2 a3 b3 a4 b4) 0%R = IZR (Z.of_nat (drawn (run draws [ReqB; ReqA; ReqA; ReqA; ReqB]))).
Proof. pairing. Qed.

Lemma tie_pair_wABAAB a0 b0 a1 b1 a2 b2 a3 b3 a4 b4 :
  let draws := fun k => nth k [(a0, b0); (a1, b1); (a2, b2); (a3, b3); (a4, b4)] (a0, b0) in
  firstn 5 (pair_wABAAB (OO:=ROps) a0 b0 a1 b1 a2 b2 a3 b3 a4 b4) = deliveries draws st0 [ReqA; ReqB; ReqA; ReqA; ReqB] /\
  nth 5 (pair_wABAAB (OO:=ROps) a0 b0 a1 b1 a2 b2 a3 b3 a4 b4) 0%R = IZR (Z.of_nat (drawn (run draws [ReqA; ReqB; ReqA; ReqA; ReqB]))).
Proof. pairing. Qed.

Lemma tie_pair_wBBAAB a0 b0 a1 b1 a2 b2 a3 b3 a4 b4 :
  let draws := fun k => nth k [(a0, b0); (a1, b1); (a2, b2); (a3, b3); (a4, b4)] (a0, b0) in
  firstn 5 (pair_wBBAAB (OO:=ROps) a0 b0 a1 b1 a2 b2 a3 b3 a4 b4) = deliveries draws st0 [ReqB; ReqB; ReqA; ReqA; ReqB] /\
  nth 5 (pair_wBBAAB (OO:=ROps) a0 b0 a1 b1 a2 b2 a3 b3 a4 b4) 0%R = IZR (Z.of_nat (drawn (run draws [ReqB; ReqB; ReqA; ReqA; ReqB]))).
Proof. pairing. Qed.

Lemma tie_pair_wAABAB a0 b0 a1 b1 a2 b2 a3 b3 a4 b4 :
  let draws := fun k => nth k [(a0, b0); (a1, b1); (a2, b2); (a3, b3); (a4, b4)] (a0, b0) in
  firstn 5 (pair_wAABAB (OO:=ROps) a0 b0 a1 b1 a2 b2 a3 b3 a4 b4) = deliveries draws st0 [ReqA; ReqA; ReqB; ReqA; ReqB] /\
  nth 5 (pair_wAABAB (OO:=ROps) a0 b0 a1 b1 a2 b2 a3 b3 a4 b4) 0%R = IZR (Z.of_nat (drawn (run draws [ReqA; ReqA; ReqB; ReqA; ReqB]))).
Proof. pairing. Qed.

Lemma tie_pair_wBABAB a0 b0 a1 b1 a2 b2 a3 b3 a4 b4 :
  let draws := fun k => nth k [(a0, b0); (a1, b1); (a2, b2); (a3, b3); (a4, b4)] (a0, b0) in
  firstn 5 (pair_wBABAB (OO:=ROps) a0 b0 a1 b1 a2 b2 a3 b3 a4 b4) = deliveries draws st0 [ReqB; ReqA; ReqB; ReqA; ReqB] /\
  nth 5 (pair_wBABAB (OO:=ROps) a0 b0 a1 b1 a2 b2 a3 b3 a4 b4) 0%R = IZR (Z.of_nat (drawn (run draws [ReqB; ReqA; ReqB; ReqA; ReqB]))).
Proof. pairing. Qed.

Lemma tie_pair_wABBAB a0 b0 a1 b1 a2 b2 a3 b3 a4 b4 :
  let draws := fun k => nth k [(a0, b0); (a1, b1); (a2, b2); (a3, b3); (a4, b4)] (a0, b0) in
  firstn 5 (pair_wABBAB (OO:=ROps) a0 b0 a1 b1 a2 b2 a3 b3 a4 b4) = deliveries draws st0 [ReqA; ReqB; ReqB; ReqA; ReqB] /\
  nth 5 (pair_wABBAB (OO:=ROps) a0 b0 a1 b1 a2 b2 a3 b3 a4 b4) 0%R = IZR (Z.of_nat (drawn (run draws [ReqA; ReqB; ReqB; ReqA; ReqB]))).
Proof. pairing. Qed.

Lemma tie_pair_wBBBAB a0 b0 a1 b1 a2 b2 a3 b3 a4 b4 :
  let draws := fun k => nth k [(a0, b0); (a1, b1); (a2, b2); (a3, b3); (a4, b4)] (a0, b0) in
  firstn 5 (pair_wBBBAB (OO:=ROps) a0 b0 a1 b1 a2 b2 a3 b3 a4 b4) = deliveries draws st0 [ReqB; ReqB; ReqB; ReqA; ReqB] /\
  nth 5 (pair_wBBBAB (OO:=ROps) a0 b0 a1 b1 a2 b2 a3 b3 a4 b4) 0%R = IZR (Z.of_nat (drawn (run draws [ReqB; ReqB; ReqB; ReqA; ReqB]))).
Proof. pairing. Qed.

Lemma tie_pair_wAAABB a0 b0 a1 b1 a2 b2 a3 b3 a4 b4 :
  let draws := fun k => nth k [(a0, b0); (a1, b1); (a2, b2); (a3, b3); (a4, b4)] (a0, b0) in
  firstn 5 (pair_wAAABB (OO:=ROps) a0 b0 a1 b1 a2 b2 a3 b3 a4 b4) = deliveries draws st0 [ReqA; ReqA; ReqA; ReqB; ReqB] /\
  nth 5 (pair_wAAABB (OO:=ROps) a0 b0 a1 b1 a2 b2 a3 b3 a4 b4) 0%R = IZR (Z.of_nat (drawn (run draws [ReqA; ReqA; ReqA; ReqB; ReqB]))).
Proof. pairing. Qed.

Lemma tie_pair_wBAABB a0 b0 a1 b1 a2 b2 a3 b3 a4 b4 :
  let draws := fun k => nth k [(a0, b0); (a1, b1); (a2, b2); (a3, b3); (a4, b4)] (a0, b0) in
  firstn 5 (pair_wBAABB (OO:=ROps) a0 b0 a1 b1 a2 b2 a3 b3 a4 b4) = deliveries draws st0 [ReqB; ReqA; ReqA; ReqB; ReqB] /\
  nth 5 (pair_wBAABB (OO:=ROps) a0 b0 a1 b1 a2 b2 a3 b3 a4 b4) 0%R = IZR (Z.of_nat (drawn (run draws [ReqB; ReqA; ReqA; ReqB; ReqB]))).
Proof. pairing. Qed.

Lemma tie_pair_wABABB a0 b0 a1 b1 a2 b2 a3 b3 a4 b4 :
  let draws := fun k => nth k [(a0, b0); (a1, b1); (a2, b2); (a3, b3); (a4, b4)] (a0, b0) in
  firstn 5 (pair_wABABB (OO:=ROps) a0 b0 a1 b1 a2 b2 a3 b3 a4 b4) = deliveries draws st0 [ReqA; ReqB; ReqA; ReqB; ReqB] /\
  nth 5 (pair_wABABB (OO:=ROps) a0 b0 a1 b1 a2 b2 a3 b3 a4 b4) 0%R = IZR (Z.of_nat (drawn (run draws [ReqA; ReqB; ReqA; ReqB; ReqB]))).
Proof. pairing. Qed.

Lemma tie_pair_wBBABB a0 b0 a1 b1 a2 b2 a3 b3 a4 b4 :
  let draws := fun k => nth k [(a0, b0); (a1, b1); (a2, b2); (a3, b3); (a4, b4)] (a0, b0) in
  firstn 5 (pair_wBBABB (OO:=ROps) a0 b0 a1 b1 a2 b2 a3 b3 a4 b4) = deliveries draws st0 [ReqB; ReqB; ReqA; ReqB; ReqB] /\
  nth 5 (pair_wBBABB (OO:=ROps) a0 b0 a1 b1 a2 b2 a3 b3 a4 b4) 0%R = IZR (Z.of_nat (drawn (run draws [ReqB; ReqB; ReqA; ReqB; ReqB]))).
Proof. pairing. Qed.

Lemma tie_pair_wAABBB a0 b0 a1 b1 a2 b2 a3 b3 a4 b4 :
  let draws := fun k => nth k [(a0, b0); (a1, b1); (a2, b2); (a3, b3); (a4, b4)] (a0, b0) in
  firstn 5 (pair_wAABBB (OO:=ROps) a0 b0 a1 b1 a2 b2 a3 b3 a4 b4) = deliveries draws st0 [ReqA; ReqA; ReqB; ReqB; ReqB] /\
  nth 5 (pair_wAABBB (OO:=ROps) a0 b0 a1 b1 a2 b2 a3 b3 a4 b4) 0%R = IZR (Z.of_nat (drawn (run draws [ReqA; ReqA; ReqB; ReqB; ReqB]))).
Proof. pairing. Qed.

Lemma tie_pair_wBABBB a0 b0 a1 b1 a2 b2 a3 b3 a4 b4 :
  let draws := fun k => nth k [(a0, b0); (a1, b1); (a2, b2); (a3, b3); (a4, b4)] (a0, b0) in
  firstn 5 (pair_wBABBB (OO:=ROps) a0 b0 a1 b1 a2 b2 a3 b3 a4 b4) = deliveries draws st0 [ReqB; ReqA; ReqB; ReqB; ReqB] /\
  nth 5 (pair_wBABBB (OO:=ROps) a0 b0 a1 b1 a2 b2 a3 b3 a4 b4) 0%R = IZR (Z.of_nat (drawn (run draws [ReqB; ReqA; ReqB; ReqB; ReqB]))).
Proof. pairing. Qed.

Lemma tie_pair_wABBBB a0 b0 a1 b1 a2 b2 a3 b3 a4 b4 :
  let draws := fun k => nth k [(a0, b0); (a1, b1); (a2, b2); (a3, b3); (a4, b4)] (a0, b0) in
  firstn 5 (pair_wABBBB (OO:=ROps) a0 b0 a1 b1 a2 b2 a3 b3 a4 b4) = deliveries draws st0 [ReqA; ReqB; ReqB; ReqB; ReqB] /\
  nth 5 (pair_wABBBB (OO:=ROps) a0 b0 a1 b1 a2 b2 a3 b3 a4 b4) 0%R = IZR (Z.of_nat (drawn (run draws [ReqA; ReqB; ReqB; ReqB; ReqB]))).
Proof. pairing. Qed.

Lemma tie_pair_wBBBBB a0 b0 a1 b1 a2 b2 a3 b3 a4 b4 :
  let draws := fun k => nth k [(a0, b0); (a1, b1); (a2, b2); (a3, b3); (a4, b4)] (a0, b0) in
  firstn 5 (pair_wBBBBB (OO:=ROps) a0 b0 a1 b1 a2 b2 a3 b3 a4 b4) = deliveries draws st0 [ReqB; ReqB; ReqB; ReqB; ReqB] /\
  nth 5 (pair_wBBBBB (OO:=ROps) a0 b0 a1 b1 a2 b2 a3 b3 a4 b4) 0%R = IZR (Z.of_nat (drawn (run draws [ReqB; ReqB; ReqB; ReqB; ReqB]))).
Proof. pairing. Qed.

Lemma tie_pair_wAAAAAA a0 b0 a1 b1 a2 b2 a3 b3 a4 b4 a5 b5 :
  let draws := fun k => nth k [(a0, b0); (a1, b1); (a2, b2); (a3, b3); (a4, b4); (a5, b5)] (a0, b0) in
  firstn 6 (pair_wAAAAAA (OO:=ROps) a0 b0 a1 b1 a2 b2 a3 b3 a4 b4 a5 b5) = deliveries draws st0 [ReqA; ReqA; ReqA; ReqA; ReqA; ReqA] /\
  nth 6 (pair_wAAAAAA (OO:=ROps) a0 b0 a1 b1 a2 b2 a3 b3 a4 b4 a5 b5) 0%R = IZR (Z.of_nat (drawn (run draws [ReqA; ReqA; ReqA; ReqA; ReqA; ReqA]))).
Proof. pairing. Qed.

Lemma tie_pair_wBAAAAA a0 b0 a1 b1 a2 b2 a3 b3 a4 b4 a5 b5 :
  let draws := fun k => nth k [(a0, b0); (a1, b1); (a2, b2); (a3, b3); (a4, b4); (a5, b5)] (a0, b0) in
  firstn 6 (pair_wBAAAAA (OO:=ROps) a0 b0 a1 b1 a2 b2 a3 b3 a4 b4 a5 b5) = deliveries draws st0 [ReqB; ReqA; ReqA; ReqA; ReqA; ReqA] /\
  nth 6 (pair_wBAAAAA (OO:=ROps) a0 b0 a1 b1 a2 b2 a3 b3 a4 b4 a5 b5) 0%R = IZR (Z.of_nat (drawn (run draws [ReqB; ReqA; ReqA; ReqA; ReqA; ReqA]))).
Proof. pairing. Qed.

Lemma tie_pair_wABAAAA a0 b0 a1 b1 a2 b2 a3 b3 a4 b4 a5 b5 :
  let draws := fun k => nth k [(a0, b0); (a1, b1); (a2, b2); (a3, b3); (a4, b4); (a5, b5)] (a0, b0) in
  firstn 6 (pair_wABAAAA (OO:=ROps) a0 b0 a1 b1 a2 b2 a3 b3 a4 b4 a5 b5) = deliveries draws st0 [ReqA; ReqB; ReqA; ReqA; ReqA; ReqA] /\
  nth 6 (pair_wABAAAA (OO:=ROps) a0 b0 a1 b1 a2 b2 a3 b3 a4 b4 a5 b5) 0%R = IZR (Z.of_nat (drawn (run draws [ReqA; ReqB; ReqA; ReqA; ReqA; ReqA]))).
Proof. pairing. Qed.

Lemma tie_pair_wBBAAAA a0 b0 a1 b1 a2 b2 a3 b3 a4 b4 a5 b5 :
  let draws := fun k => nth k [(a0, b0); (a1, b1); (a2, b2); (a3, b3); (a4, b4); (a5, b5)] (a0, b0) in
  firstn 6 (pair_wBBAAAA (OO:=ROps) a0 b0 a1 b1 a2 b2 a3 b3 a4 b4 a5 b5) = deliveries draws st0 [ReqB; ReqB; ReqA; ReqA; ReqA; ReqA] /\
  nth 6 (pair_wBBAAAA (OO:=ROps) a0 b0 a1 b1 a2 b2 a3 b3 a4 b4 a5 b5) 0%R = IZR (Z.of_nat (drawn (run draws [ReqB; ReqB; ReqA; ReqA; ReqA; ReqA]))).
Proof. pairing. Qed.

Lemma tie_pair_wAABAAA a0 b0 a1 b1 a2 b2 a3 b3 a4 b4 a5 b5 :
  let draws := fun k => nth k [(a0, b0); (a1, b1); (a2, b2); (a3, b3); (a4, b4); (a5, b5)] (a0, b0) in
  firstn 6 (pair_wAABAAA (OO:=ROps) a0 b0 a1 b1 a2 b2 a3 b3 a4 b4 a5 b5) = deliveries draws st0 [ReqA; ReqA; ReqB; ReqA; ReqA; ReqA] /\
  nth 6 (pair_wAABAAA (OO:=ROps) a0 b0 a1 b1 a2 b2 a3 b3 a4 b4 a5 b5) 0%R = IZR (Z.of_nat (drawn (run draws [ReqA; ReqA; ReqB; ReqA; ReqA; ReqA]))).
Proof. pairing. Qed.

Lemma tie_pair_wBABAAA a0 b0 a1 b1 a2 b2 a3 b3 a4 b4 a5 b5 :
  let draws := fun k => nth k [(a0, b0); (a1, b1); (a2, b2); (a3, b3); (a4, b4); (a5, b5)] (a0, b0) in
  firstn 6 (pair_wBABAAA (OO:=ROps) a0 b0 a1 b1 a2 b2 a3 b3 a4 b4 a5 b5) = deliveries draws st0 [ReqB; ReqA; ReqB; ReqA; ReqA; ReqA] /\
  nth 6 (pair_wBABAAA (OO:=ROps) a0 b0 a1 b1 a2 b2 a3 b3 a4 b4 a5 b5) 0%R = IZR (Z.of_nat (drawn (run draws [ReqB; ReqA; ReqB; ReqA; ReqA; ReqA]))).
Proof. pairing. Qed.

Lemma tie_pair_wABBAAA a0 b0 a1 b1 a2 b2 a3 b3 a4 b4 a5 b5 :
  let draws := fun k => nth k [(a0, b0); (a1, b1); (a2, b2); (a3, b3); (a4, b4); (a5, b5)] (a0, b0) in
  firstn 6 (pair_wABBAAA (OO:=ROps) a0 b0 a1 b1 a2 b2 a3 b3 a4 b4 a5 b5) = deliveries draws st0 [ReqA; ReqB; ReqB; ReqA; ReqA; ReqA] /\
  nth 6 (pair_wABBAAA (OO:=ROps) a0 b0 a1 b1 a2 b2 a3 b3 a4 b4 a5 b5) 0%R = IZR (Z.of_nat (drawn (run draws [ReqA; ReqB; ReqB; ReqA; ReqA; ReqA]))).
Proof. pairing. Qed.

Lemma tie_pair_wBBBAAA a0 b0 a1 b1 a2 b2 a3 b3 a4 b4 a5 b5 :
  let draws := fun k => nth k [(a0, b0); (a1, b1); (a2, b2); (a3, b3); (a4, b4); (a5, b5)] (a0, b0) in
  firstn 6 (pair_wBBBAAA (OO:=ROps) a0 b0 a1 b1 a2 b2 a3 b3 a4 b4 a5 b5) = deliveries draws st0 [ReqB; ReqB; ReqB; ReqA; ReqA; ReqA] /\
  nth 6 (pair_wBBBAAA (OO:=ROps) a0 b0 a1 b1 a2 b2 a3 b3 a4 b4 a5 b5) 0%R = IZR (Z.of_nat (drawn (run draws [ReqB; ReqB; ReqB; ReqA; ReqA; ReqA]))).
Proof. pairing. Qed.

Lemma tie_pair_wAAABAA a0 b0 a1 b1 a2 b2 a3 b3 a4 b4 a5 b5 :
  let draws := fun k => nth k [(a0, b0); (a1, b1); (a2, b2); (a3, b3); (a4, b4); (a5, b5)] (a0, b0) in
  firstn 6 (pair_wAAABAA (OO:=ROps) a0 b0 a1 b1 a2 b2 a3 b3 a4 b4 a5 b5) = deliveries draws st0 [ReqA; ReqA; ReqA; ReqB; ReqA; ReqA] /\
  nth 6 (pair_wAAABAA (OO:=ROps) a0 b0 a1 b1 a2 b2 a3 b3 a4 b4 a5 b5) 0%R = IZR (Z.of_nat (drawn (run draws [ReqA; ReqA; ReqA; ReqB; ReqA; ReqA]))).
Proof. pairing. Qed.

Lemma tie_pair_wBAABAA a0 b0 a1 b1 a2 b2 a3 b3 a4 b4 a5 b5 :
  let draws := fun k => nth k [(a0, b0); (a1, b1); (a2, b2); (a3, b3); (a4, b4); (a5, b5)] (a0, b0) in
  firstn 6 (pair_wBAABAA (OO:=ROps) a0 b0 a1 b1 a2 b2 a3 b3 a4 b4 a5 b5) = deliveries draws st0 [ReqB; ReqA; ReqA; ReqB; ReqA; ReqA] /\
  nth 6 (pair_wBAABAA (OO:=ROps) a0 b0 a1 b1 a2 b2 a3 b3 a4 b4 a5 b5) 0%R = IZR (Z.of_nat (drawn (run draws [ReqB; ReqA; ReqA; ReqB; ReqA; ReqA]))).
Proof. pairing. Qed.

Lemma tie_pair_wABABAA a0 b0 a1 b1 a2 b2 a3 b3 a4 b4 a5 b5 :
  let draws := fun k => nth k [(a0, b0); (a1, b1); (a2, b2); (a3, b3); (a4, b4); (a5, b5)] (a0, b0) in
  firstn 6 (pair_wABABAA (OO:=ROps) a0 b0 a1 b1 a2 b2 a3 b3 a4 b4 a5 b5) = deliveries draws st0 [ReqA; ReqB; ReqA; ReqB; ReqA; ReqA] /\
  nth 6 (pair_wABABAA (OO:=ROps) a0 b0 a1 b1 a2 b2 a3 b3 a4 b4 a5 b5) 0%R = IZR (Z.of_nat (drawn (run draws [ReqA; ReqB; ReqA; ReqB; ReqA; ReqA]))).
Proof. pairing. Qed.

Lemma tie_pair_wBBABAA a0 b0 a1 b1 a2 b2 a3 b3 a4 b4 a5 b5 :
  let draws := fun k => nth k [(a0, b0); (a1, b1); (a2, b2); (a3, b3); (a4, b4); (a5, b5)] (a0, b0) in
  firstn 6 (pair_wBBABAA (OO:=ROps) a0 b0 a1 b1 a2 b2 a3 b3 a4 b4 a5 b5) = deliveries draws st0 [ReqB; ReqB; ReqA; ReqB; ReqA; ReqA] /\
  nth 6 (pair_wBBABAA (OO:=ROps) a0 b0 a1 b1 a2 b2 a3 b3 a4 b4 a5 b5) 0%R = IZR (Z.of_nat (drawn (run draws [ReqB; ReqB; ReqA; ReqB; ReqA; ReqA]))).
Proof. pairing. Qed.

Lemma tie_pair_wAABBAA a0 b0 a1 b1 a2 b2 a3 b3 a4 b4 a5 b5 :
  let draws := fun k => nth k [(a0, b0); (a1, b1); (a2, b2); (a3, b3); (a4, b4); (a5, b5)] (a0, b0) in
  firstn 6 (pair_wAABBAA (OO:=ROps) a0 b0 a1 b1 a2 b2 a3 b3 a4 b4 a5 b5) = deliveries draws st0 [ReqA; ReqA; ReqB; ReqB; ReqA; ReqA] /\
  nth 6 (pair_wAABBAA (OO:=ROps) a0 b0 a1 b1 a2 b2 a3 b3 a4 b4 a5 b5) 0%R = IZR (Z.of_nat (drawn (run draws [ReqA; ReqA; ReqB; ReqB; ReqA; ReqA]))).
Proof. pairing. Qed.

Lemma tie_pair_wBABBAA a0 b0 a1 b1 a2 b2 a3 b3 a4 b4 a5 b5 :
  let draws := fun k => nth k [(a0, b0); (a1, b1); (a2, b2); (a3, b3); (a4, b4); (a5, b5)] (a0, b0) in
  firstn 6 (pair_wBABBAA (OO:=ROps) a0 b0 a1 b1 a2 b2 a3 b3 a4 b4 a5 b5) = deliveries draws st0 [ReqB; ReqA; ReqB; ReqB; ReqA; ReqA] /\
  nth 6 (pair_wBABBAA (OO:=ROps) a0 b0 a1 b1 a2 b2 a3 b3 a4 b4 a5 b5) 0%R = IZR (Z.of_nat (drawn (run draws [ReqB; ReqA; ReqB; ReqB; ReqA; ReqA]))).
Proof. pairing. Qed.

Lemma tie_pair_wABBBAA a0 b0 a1 b1 a2 b2 a3 b3 a4 b4 a5 b5 :
  let draws := fun k => nth k [(a0, b0); (a1, b1); (a2, b2); (a3, b3); (a4, b4); (a5, b5)] (a0, b0) in
  firstn 6 (pair_wABBBAA (OO:=ROps) a0 b0 a1 b1 a2 b2 a3 b3 a4 b4 a5 b5) = deliveries draws st0 [ReqA; ReqB; ReqB; ReqB; ReqA; ReqA] /\
  nth 6 (pair_wABBBAA (OO:=ROps) a0 b0 a1 b1 a2 b2 a3 b3 a4 b4 a5 b5) 0%R = IZR (Z.of_nat (drawn (run draws [ReqA; ReqB; ReqB; ReqB; ReqA; ReqA]))).
Proof. pairing. Qed.

Lemma tie_pair_wBBBBAA a0 b0 a1 b1 a2 b2 a3 b3 a4 b4 a5 b5 :
  let draws := fun k => nth k [(a0, b0); (a1, b1); (a2, b2); (a3, b3); (a4, b4); (a5, b5)] (a0, b0) in
  firstn 6 (pair_wBBBBAA (OO:=ROps) a0 b0 a1 b1 a2 b2 a3 b3 a4 b4 a5 b5) = deliveries draws st0 [ReqB; ReqB; ReqB; ReqB; ReqA; ReqA] /\
  nth 6 (pair_wBBBBAA (OO:=ROps) a0 b0 a1 b1 a2 b2 a3 b3 a4 b4 a5 b5) 0%R = IZR (Z.of_nat (drawn (run draws [ReqB; ReqB; ReqB; ReqB; ReqA; ReqA]))).
Proof. pairing. Qed.

Lemma tie_pair_wAAAABA a0 b0 a1 b1 a2 b2 a3 b3 a4 b4 a5 b5 :
  let draws := fun k => nth k [(a0, b0); (a1, b1); (a2, b2); (a3, b3); (a4, b4); (a5, b5)] (a0, b0) in
  firstn 6 (pair_wAAAABA (OO:=ROps) a0 b0 a1 b1 a2 b2 a3 b3 a4 b4 a5 b5) = deliveries draws st0 [ReqA; ReqA; ReqA; ReqA; ReqB; ReqA] /\
  nth 6 (pair_wAAAABA (OO:=ROps) a0 b0 a1 b1 a2 b2 a3 b3 a4 b4 a5 b5) 0%R = IZR (Z.of_nat (drawn (run draws [ReqA; ReqA; ReqA; ReqA; ReqB; ReqA]))).
Proof. pairing. Qed.

Lemma tie_pair_wBAAABA a0 b0 a1 b1 a2 b2 a3 b3 a4 b4 a5 b5 :
  let draws := fun k => nth k [(a0, b0); (a1, b1); (a2, b2); (a3, b3); (a4, b4); (a5, b5)] (a0, b0) in
  firstn 6 (pair_wBAAABA (OO:=ROps) a0 b0 a1 b1 a2 b2 a3 b3 a4 b4 a5 b5) = deliveries draws st0 [ReqB; ReqA; ReqA; ReqA; ReqB; ReqA] /\
  nth 6 (pair_wBAAABA (OO:=ROps) a0 b0 a1 b1 a2 b2 a3 b3 a4 b4 a5 b5) 0%R = IZR (Z.of_nat (drawn (run draws [ReqB; ReqA; ReqA; ReqA; ReqB; ReqA]))).
Proof. pairing. Qed.

Lemma tie_pair_wABAABA a0 b0 a1 b1 a2 b2 a3 b3 a4 b4 a5 b5 :
  let draws := fun k => nth k [(a0, b0); (a1, b1); (a2, b2); (a3, b3); (a4, b4); (a5, b5)] (a0, b0) in
  firstn 6 (pair_wABAABA (OO:=ROps) a0 b0 a1 b1 a2 b2 a3 b3 a4 b4 a5 b5) = deliveries draws st0 [ReqA; ReqB; ReqA; ReqA; ReqB; ReqA] /\
  nth 6 (pair_wABAABA (OO:=ROps) a0 b0 a1 b1 a2 b2 a3 b3 a4 b4 a5 b5) 0%R = IZR (Z.of_nat (drawn (run draws [ReqA; ReqB; ReqA; ReqA; ReqB; ReqA]))).
Proof. pairing. Qed.

Lemma tie_pair_wBBAABA a0 b0 a1 b1 a2 b2 a3 b3 a4 b4 a5 b5 :
  let draws := fun k => nth k [(a0, b0); (a1, b1); (a2, b2); (a3, b3); (a4, b4); (a5, b5)] (a0, b0) in
  firstn 6 (pair_wBBAABA (OO:=ROps) a0 b0 a1 b1 a2 b2 a3 b3 a4 b4 a5 b5) = deliveries draws st0 [ReqB; ReqB; ReqA; ReqA; ReqB; ReqA] /\
  nth 6 (pair_wBBAABA (OO:=ROps) a0 b0 a1 b1 a2 b2 a3 b3 a4 b4 a5 b5) 0%R = IZR (Z.of_nat (drawn (run draws [ReqB; ReqB; ReqA; ReqA; ReqB; ReqA]))).
Proof. pairing. Qed.

Lemma tie_pair_wAABABA a0 b0 a1 b1 a2 b2 a3 b3 a4 b4 a5 b5 :
  let draws := fun k => nth k [(a0, b0); (a1, b1); (a2, b2); (a3, b3); (a4, b4); (a5, b5)] (a0, b0) in
  firstn 6 (pair_wAABABA (OO:=ROps) a0 b0 a1 b1 a2 b2 a3 b3 a4 b4 a5 b5) = deliveries draws st0 [ReqA; ReqA; ReqB; ReqA; ReqB; ReqA] /\
  nth 6 (pair_wAABABA (OO:=ROps) a0 b0 a1 b1 a2 b2 a3 b3 a4 b4 a5 b5) 0%R = IZR (Z.of_nat (drawn (run draws [ReqA; ReqA; ReqB; ReqA; ReqB; ReqA]))).
Proof. pairing. Qed.

Lemma tie_pair_wBABABA a0 b0 a1 b1 a2 b2 a3 b3 a4 b4 a5 b5 :
  let draws := fun k => nth k [(a0, b0); (a1, b1); (a2, b2); (a3, b3); (a4, b4); (a5, b5)] (a0, b0) in
  firstn 6 (pair_wBABABA (OO:=ROps) a0 b0 a1 b1 a2 b2 a3 b3 a4 b4 a5 b5) = deliveries draws st0 [ReqB; ReqA; ReqB; ReqA; ReqB; ReqA] /\
  nth 6 (pair_wBABABA (OO:=ROps) a0 b0 a1 b1 a2 b2 a3 b3 a4 b4 a5 b5) 0%R = IZR (Z.of_nat (drawn (run draws [ReqB; ReqA; ReqB; ReqA; ReqB; ReqA]))).
Proof. pairing. Qed.

Lemma tie_pair_wABBABA a0 b0 a1 b1 a2 b2 a3 b3 a4 b4 a5 b5 :
  let draws := fun k => nth k [(a0, b0); (a1, b1); (a2, b2); (a3, b3); (a4, b4); (a5, b5)] (a0, b0) in
  firstn 6 (pair_wABBABA (OO:=ROps) a0 b0 a1 b1 a2 b2 a3 b3 a4 b4 a5 b5) = deliveries draws st0 [ReqA; ReqB; ReqB; ReqA; ReqB; ReqA] /\
  nth 6 (pair_wABBABA (OO:=ROps) a0 b0 a1 b1 a2 b2 a3 b3 a4 b4 a5 b5) 0%R = IZR (Z.of_nat (drawn (run draws [ReqA; ReqB; ReqB; ReqA; ReqB; ReqA]))).
Proof. pairing. Qed.

Lemma tie_pair_wBBBABA a0 b0 a1 b1 a2 b2 a3 b3 a4 b4 a5 b5 :
  let draws := fun k => nth k [(a0, b0); (a1, b1); (a2, b2); (a3, b3); (a4, b4); (a5, b5)] (a0, b0) in
  firstn 6 (pair_wBBBABA (OO:=ROps) a0 b0 a1 b1 a2 b2 a3 b3 a4 b4 a5 b5) = deliveries draws st0 [ReqB; ReqB; ReqB; ReqA; ReqB; ReqA] /\
  nth 6 (pair_wBBBABA (OO:=ROps) a0 b0 a1 b1 a2 b2 a3 b3 a4 b4 a5 b5) 0%R = IZR (Z.of_nat (drawn (run draws [ReqB; ReqB; ReqB; ReqA; ReqB; ReqA]))).
Proof. pairing. Qed.

Lemma tie_pair_wAAABBA a0 b0 a1 b1 a2 b2 a3 b3 a4 b4 a5 b5 :
  let draws := fun k => nth k [(a0, b0); (a1, b1); (a2, b2); (a3, b3); (a4, b4); (a5, b5)] (a0, b0) in
  firstn 6 (pair_wAAABBA (OO:=ROps) a0 b0 a1 b1 a2 b2 a3 b3 a4 b4 a5 b5) = deliveries draws st0 [ReqA; ReqA; ReqA; ReqB; ReqB; ReqA] /\
  nth 6 (pair_wAAABBA (OO:=ROps) a0 b0 a1 b1 a2 b2 a3 b3 a4 b4 a5 b5) 0%R = IZR (Z.of_nat (drawn (run draws [ReqA; ReqA; ReqA; ReqB; ReqB; ReqA]))).
Proof. pairing. Qed.

Lemma tie_pair_wBAABBA a0 b0 a1 b1 a2 b2 a3 b3 a4 b4 a5 b5 :
  let draws := fun k => nth k [(a0, b0); (a1, b1); (a2, b2); (a3, b3); (a4, b4); (a5, b5)] (a0, b0) in
  firstn 6 (pair_wBAABBA (OO:=ROps) a0 b0 a1 b1 a2 b2 a3 b3 a4 b4 a5 b5) = deliveries draws st0 [ReqB; ReqA; ReqA; ReqB; ReqB; ReqA] /\
  nth 6 (pair_wBAABBA (OO:=ROps) a0 b0 a1 b1 a2 b2 a3 b3 a4 b4 a5 b5) 0%R = IZR (Z.of_nat (drawn (run draws [ReqB; ReqA; ReqA; ReqB; ReqB; ReqA]))).
Proof. pairing. Qed.

Lemma tie_pair_wABABBA a0 b0 a1 b1 a2 b2 a3 b3 a4 b4 a5 b5 :
  let draws := fun k => nth k [(a0, b0); (a1, b1); (a2, b2); (a3, b3); (a4, b4); (a5, b5)] (a0, b0) in
  firstn 6 (pair_wABABBA (OO:=ROps) a0 b0 a1 b1 a2 b2 a3 b3 a4 b4 a5 b5) = deliveries draws st0 [ReqA; ReqB; ReqA; ReqB; ReqB; ReqA] /\
  nth 6 (pair_wABABBA (OO:=ROps) a0 b0 a1 b1 a2 b2 a3 b3 a4 b4 a5 b5) 0%R = IZR (Z.of_nat (drawn (run draws [ReqA; ReqB; ReqA; ReqB; ReqB; ReqA]))).
Proof. pairing. Qed.

Lemma tie_pair_wBBABBA a0 b0 a1 b1 a2 b2 a3 b3 a4 b4 a5 b5 :
  let draws := fun k => nth k [(a0, b0); (a1, b1); (a2, b2); (a3, b3); (a4, b4); (a5, b5)] (a0, b0) in
  firstn 6 (pair_wBBABBA (OO:=ROps) a0 b0 a1 b1 a2 b2 a3 b3 a4 b4 a5 b5) = deliveries draws st0 [ReqB; ReqB; ReqA; ReqB; ReqB; ReqA] /\
  nth 6 (pair_wBBABBA (OO:=ROps) a0 b0 a1 b1 a2 b2 a3 b3 a4 b4 a5 b5) 0%R = IZR (Z.of_nat (drawn (run draws [ReqB; ReqB; ReqA; ReqB; ReqB; ReqA]))).
Proof. pairing. Qed.

Lemma tie_pair_wAABBBA a0 b0 a1 b1 a2 b2 a3 b3 a4 b4 a5 b5 :
  let draws := fun k => nth k [(a0, b0); (a1, b1); (a2, b2); (a3, b3); (a4, b4); (a5, b5)] (a0, b0) in
  firstn 6 (pair_wAABBBA (OO:=ROps) a0 b0 a1 b1 a2 b2 a3 b3 a4 b4 a5 b5) = deliveries draws st0 [ReqA; ReqA; ReqB; ReqB; ReqB; ReqA] /\
  nth 6 (pair_wAABBBA (OO:=ROps) a0 b0 a1 b1 a2 b2 a3 b3 a4 b4 a5 b5) 0%R = IZR (Z.of_nat (drawn (run draws [ReqA; ReqA; ReqB; ReqB; ReqB; ReqA]))).
Proof. pairing. Qed.

Lemma tie_pair_wBABBBA a0 b0 a1 b1 a2 b2 a3 b3 a4 b4 a5 b5 :
  let draws := fun k => nth k [(a0, b0); (a1, b1); (a2, b2); (a3, b3); (a4, b4); (a5, b5)] (a0, b0) in
  firstn 6 (pair_wBABBBA (OO:=ROps) a0 b0 a1 b1 a2 b2 a3 b3 a4 b4 a5 b5) = deliveries draws st0 [ReqB; ReqA; ReqB; ReqB; ReqB; ReqA] /\
  nth 6 (pair_wBABBBA (OO:=ROps) a0 b0 a1 b1 a2 b2 a3 b3 a4 b4 a5 b5) 0%R = IZR (Z.of_nat (drawn (run draws [ReqB; ReqA; ReqB; ReqB; ReqB; ReqA]))).
Proof. pairing. Qed.

Lemma tie_pair_wABBBBA a0 b0 a1 b1 a2 b2 a3 b3 a4 b4 a5 b5 :
  let draws := fun k => nth k [(a0, b0); (a1, b1); (a2, b2); (a3, b3); (a4, b4); (a5, b5)] (a0, b0) in
  firstn 6 (pair_wABBBBA (OO:=ROps) a0 b0 a1 b1 a2 b2 a3 b3 a4 b4 a5 b5) = deliveries draws st0 [ReqA; ReqB; ReqB; ReqB; ReqB; ReqA] /\
  nth 6 (pair_wABBBBA (OO:=ROps) a0 b0 a1 b1 a2 b2 a3 b3 a4 b4 a5 b5) 0%R = IZR (Z.of_nat (drawn (run draws [ReqA; ReqB; ReqB; ReqB; ReqB; ReqA]))).
Proof. pairing. Qed.

Lemma tie_pair_wBBBBBA a0 b0 a1 b1 a2 b2 a3 b3 a4 b4 a5 b5 :
  let draws := fun k => nth k [(a0, b0); (a1, b1); (a2, b2); (a3, b3); (a4, b4); (a5, b5)] (a0, b0) in
  firstn 6 (pair_wBBBBBA (OO:=ROps) a0 b0 a1 b1 a2 b2 a3 b3 a4 b4 a5 b5) = deliveries draws st0 [ReqB; ReqB; ReqB; ReqB; ReqB; ReqA] /\
  nth 6 (pair_wBBBBBA (OO:=ROps) a0 b0 a1 b1 a2 b2 a3 b3 a4 b4 a5 b5) 0%R = IZR (Z.of_nat (drawn (run draws [ReqB; ReqB; ReqB; ReqB; ReqB; ReqA]))).
Proof. pairing. Qed.

Lemma tie_pair_wAAAAAB a0 b0 a1 b1 a2 b2 a3 b3 a4 b4 a5 b5 :
  let draws := fun k => nth k [(a0, b0); (a1, b1); (a2, b2); (a3, b3); (a4, b4); (a5, b5)] (a0, b0) in
  firstn 6 (pair_wAAAAAB (OO:=ROps) a0 b0 a1 b1 a2 b2 a3 b3 a4 b4 a5 b5) = deliveries draws st0 [ReqA; ReqA; ReqA; ReqA; ReqA; ReqB] /\
  nth 6 (pair_wAAAAAB (OO:=ROps) a0 b0 a1 b1 a2 b2 a3 b3 a4 b4 a5 b5) 0%R = IZR (Z.of_nat (drawn (run draws [ReqA; ReqA; ReqA; ReqA; ReqA; ReqB]))).
Proof. pairing. Qed.

Lemma tie_pair_wBAAAAB a0 b0 a1 b1 a2 b2 a3 b3 a4 b4 a5 b5 :
  let draws := fun k => nth k [(a0, b0); (a1, b1); (a2, b2); (a3, b3); (a4, b4); (a5, b5)] (a0, b0) in
  firstn 6 (pair_wBAAAAB (OO:=ROps) a0 b0 a1 b1 a2 b2 a3 b3 a4 b4 a5 b5) = deliveries draws st0 [ReqB; ReqA; ReqA; ReqA; ReqA; ReqB] /\
  nth 6 (pair_wBAAAAB (OO:=ROps) a0 b0 a1 b1 a2 b2 a3 b3 a4 b4 a5 b5) 0%R = IZR (Z.of_nat (drawn (run draws [ReqB; ReqA; ReqA; ReqA; ReqA; ReqB]))).
Proof. pairing. Qed.

Lemma tie_pair_wABAAAB a0 b0 a1 b1 a2 b2 a3 b3 a4 b4 a5 b5 :
  let draws := fun k => nth k [(a0, b0); (a1, b1); (a2, b2); (a3, b3); (a4, b4); (a5, b5)] (a0, b0) in
  firstn 6 (pair_wABAAAB (OO:=ROps) a0 b0 a1 b1 a2 b2 a3 b3 a4 b4 a5 b5) = deliveries draws st0 [ReqA; ReqB; ReqA; ReqA; ReqA; ReqB] /\
  nth 6 (pair_wABAAAB (OO:=ROps) a0 b0 a1 b1 a2 b2 a3 b3 a4 b4 a5 b5) 0%R = IZR (Z.of_nat (drawn (run draws [ReqA; ReqB; ReqA; ReqA; ReqA; ReqB]))).
Proof. pairing. Qed.

Lemma tie_pair_wBBAAAB a0 b0 a1 b1 a2 b2 a3 b3 a4 b4 a5 b5 :
  let draws := fun k => nth k [(a0, b0); (a1, b1); (a2, b2); (a3, b3); (a4, b4); (a5, b5)] (a0, b0) in
  firstn 6 (pair_wBBAAAB (OO:=ROps) a0 b0 a1 b1 a2 b2 a3 b3 a4 b4 a5 b5) = deliveries draws st0 [ReqB; ReqB; ReqA; ReqA; ReqA; ReqB] /\
  nth 6 (pair_wBBAAAB (OO:=ROps) a0 b0 a1 b1 a2 b2 a3 b3 a4 b4 a5 b5) 0%R = IZR (Z.of_nat (drawn (run draws [ReqB; ReqB; ReqA; ReqA; ReqA; ReqB]))).
Proof. pairing. Qed.

Lemma tie_pair_wAABAAB a0 b0 a1 b1 a2 b2 a3 b3 a4 b4 a5 b5 :
  let draws := fun k => nth k [(a0, b0); (a1, b1); (a2, b2); (a3, b3); (a4, b4); (a5, b5)] (a0, b0) in
  firstn 6 (pair_wAABAAB (OO:=ROps) a0 b0 a1 b1 a2 b2 a3 b3 a4 b4 a5 b5) = deliveries draws st0 [ReqA; ReqA; ReqB; ReqA; ReqA; ReqB] /\
  nth 6 (pair_wAABAAB (OO:=ROps) a0 b0 a1 b1 a2 b2 a3 b3 a4 b4 a5 b5) 0%R = IZR (Z.of_nat (drawn (run draws [ReqA; ReqA; ReqB; ReqA; ReqA; ReqB]))).
Proof. pairing. Qed.

Lemma tie_pair_wBABAAB a0 b0 a1 b1 a2 b2 a3 b3 a4 b4 a5 b5 :
  let draws := fun k => nth k [(a0, b0); (a1, b1); (a2, b2); (a3, b3); (a4, b4); (a5, b5)] (a0, b0) in
  firstn 6 (pair_wBABAAB (OO:=ROps) a0 b0 a1 b1 a2 b2 a3 b3 a4 b4 a5 b5) = deliveries draws st0 [ReqB; ReqA; ReqB; ReqA; ReqA; ReqB] /\
  nth 6 (pair_wBABAAB (OO:=ROps) a0 b0 a1 b1 a2 b2 a3 b3 a4 b4 a5 b5) 0%R = IZR (Z.of_nat (drawn (run draws [ReqB; ReqA; ReqB; ReqA; ReqA; ReqB]))).
Proof. pairing. Qed.

Lemma tie_pair_wABBAAB a0 b0 a1 b1 a2 b2 a3 b3 a4 b4 a5 b5 :
  let draws := fun k => nth k [(a0, b0); (a1, b1); (a2, b2); (a3, b3); (a4, b4); (a5, b5)] (a0, b0) in
  firstn 6 (pair_wABBAAB (OO:=ROps) a0 b0 a1 b1 a2 b2 a3 b3 a4 b4 a5 b5) = deliveries draws st0 [ReqA; ReqB; ReqB; ReqA; ReqA; ReqB] /\
  nth 6 (pair_wABBAAB (OO:=ROps) a0 b0 a1 b1 a2 b2 a3 b3 a4 b4 a5 b5) 0%R = IZR (Z.of_nat (drawn (run draws [ReqA; ReqB; ReqB; ReqA; ReqA; ReqB]))).
Proof. pairing. Qed.

Lemma tie_pair_wBBBAAB a0 b0 a1 b1 a2 b2 a3 b3 a4 b4 a5 b5 :
  let draws := fun k => nth k [(a0, b0); (a1, b1); (a2, b2); (a3, b3); (a4, b4); (a5, b5)] (a0, b0) in
  firstn 6 (pair_wBBBAAB (OO:=ROps) a0 b0 a1 b1 a2 b2 a3 b3 a4 b4 a5 b5) = deliveries draws st0 [ReqB; ReqB; ReqB; ReqA; ReqA; ReqB] /\
  nth 6 (pair_wBBBAAB (OO:=ROps) a0 b0 a1 b1 a2 b2 a3 b3 a4 b4 a5 b5) 0%R = IZR (Z.of_nat (drawn (run draws [ReqB; ReqB; ReqB; ReqA; ReqA; ReqB]))).
Proof. pairing. Qed.

Lemma tie_pair_wAAABAB a0 b0 a1 b1 a2 b2 a3 b3 a4 b4 a5 b5 :
  let draws := fun k => nth k [(a0, b0); (a1, b1); (a2, b2); (a3, b3); (a4, b4); (a5, b5)] (a0, b0) in
  firstn 6 (pair_wAAABAB (OO:=ROps) a0 b0 a1 b1 a2 b2 a3 b3 a4 b4 a5 b5) = deliveries draws st0 [ReqA; ReqA; ReqA; ReqB; ReqA; ReqB] /\
  nth 6 (pair_wAAABAB (OO:=ROps) a0 b0 a1 b1 a2 b2 a3 b3 a4 b4 a5 b5) 0%R = IZR (Z.of_nat (drawn (run draws [ReqA; ReqA; ReqA; ReqB; ReqA; ReqB]))).
Proof. pairing. Qed.

Lemma tie_pair_wBAABAB a0 b0 a1 b1 a2 b2 a3 b3 a4 b4 a5 b5 :
  let draws := fun k => nth k [(a0, b0); (a1, b1); (a2, b2); (a3, b3); (a4, b4); (a5, b5)] (a0, b0) in
  firstn 6 (pair_wBAABAB (OO:=ROps) a0 b0 a1 b1 a2 b2 a3 b3 a4 b4 a5 b5) = deliveries draws st0 [ReqB; ReqA; ReqA; ReqB; ReqA; ReqB] /\
  nth 6 (pair_wBAABAB (OO:=ROps) a0 b0 a1 b1 a2 b2 a3 b3 a4 b4 a5 b5) 0%R = IZR (Z.of_nat (drawn (run draws [ReqB; ReqA; ReqA; ReqB; ReqA; ReqB]))).
Proof. pairing. Qed.

Lemma tie_pair_wABABAB a0 b0 a1 b1 a2 b2 a3 b3 a4 b4 a5 b5 :
  let draws := fun k => nth k [(a0, b0); (a1, b1); (a2, b2); (a3, b3); (a4, b4); (a5, b5)] (a0, b0) in
  firstn 6 (pair_wABABAB (OO:=ROps) a0 b0 a1 b1 a2 b2 a3 b3 a4 b4 a5 b5) = deliveries draws st0 [ReqA; ReqB; ReqA; ReqB; ReqA; ReqB] /\
  nth 6 (pair_wABABAB (OO:=ROps) a0 b0 a1 b1 a2 b2 a3 b3 a4 b4 a5 b5) 0%R = IZR (Z.of_nat (drawn (run draws [ReqA; ReqB; ReqA; ReqB; ReqA; ReqB]))).
Proof. pairing. Qed.

Lemma tie_pair_wBBABAB a0 b0 a1 b1 a2 b2 a3 b3 a4 b4 a5 b5 :
  let draws := fun k => nth k [(a0, b0); (a1, b1); (a2, b2); (a3, b3); (a4, b4); (a5, b5)] (a0, b0) in
  firstn 6 (pair_wBBABAB (OO:=ROps) a0 b0 a1 b1 a2 b2 a3 b3 a4 b4 a5 b5) = deliveries draws st0 [ReqB; ReqB; ReqA; ReqB; ReqA; ReqB] /\
  nth 6 (pair_wBBABAB (OO:=ROps) a0 b0 a1 b1 a2 b2 a3 b3 a4 b4 a5 b5) 0%R = IZR (Z.of_nat (drawn (run draws [ReqB; ReqB; ReqA; ReqB; ReqA; ReqB]))).
Proof. pairing. Qed.

Lemma tie_pair_wAABBAB a0 b0 a1 b1 a2 b2 a3 b3 a4 b4 a5 b5 :
  let draws := fun k => nth k [(a0, b0); (a1, b1); (a2, b2); (a3, b3); (a4, b4); (a5, b5)] (a0, b0) in
  firstn 6 (pair_wAABBAB (OO:=ROps) a0 b0 a1 b1 a2 b2 a3 b3 a4 b4 a5 b5) = deliveries draws st0 [ReqA; ReqA; ReqB; ReqB; ReqA; ReqB] /\
  nth 6 (pair_wAABBAB (OO:=ROps) a0 b0 a1 b1 a2 b2 a3 b3 a4 b4 a5 b5) 0%R = IZR (Z.of_nat (drawn (run draws [ReqA; ReqA; ReqB; ReqB; ReqA; ReqB]))).
Proof. pairing. Qed.

Lemma tie_pair_wBABBAB a0 b0 a1 b1 a2 b2 a3 b3 a4 b4 a5 b5 :
  let draws := fun k => nth k [(a0, b0); (a1, b1); (a2, b2); (a3, b3); (a4, b4); (a5, b5)] (a0, b0) in
  firstn 6 (pair_wBABBAB (OO:=ROps) a0 b0 a1 b1 a2 b2 a3 b3 a4 b4 a5 b5) = deliveries draws st0 [ReqB; ReqA; ReqB; ReqB; ReqA; ReqB] /\
  nth 6 (pair_wBABBAB (OO:=ROps) a0 b0 a1 b1 a2 b2 a3 b3 a4 b4 a5 b5) 0%R = IZR (Z.of_nat (drawn (run draws [ReqB; ReqA; ReqB; ReqB; ReqA; ReqB]))).
Proof. pairing. Qed.

Lemma tie_pair_wABBBAB a0 b0 a1 b1 a2 b2 a3 b3 a4 b4 a5 b5 :
  let draws := fun k => nth k [(a0, b0); (a1, b1); (a2, b2); (a3, b3); (a4, b4); (a5, b5)] (a0, b0) in
  firstn 6 (pair_wABBBAB (OO:=ROps) a0 b0 a1 b1 a2 b2 a3 b3 a4 b4 a5 b5) = deliveries draws st0 [ReqA; ReqB; ReqB; ReqB; ReqA; ReqB] /\
  nth 6 (pair_wABBBAB (OO:=ROps) a0 b0 a1 b1 a2 b2 a3 b3 a4 b4 a5 b5) 0%R = IZR (Z.of_nat (drawn (run draws [ReqA; ReqB; ReqB; ReqB; ReqA; ReqB]))).
Proof. pairing. Qed.

Lemma tie_pair_wBBBBAB a0 b0 a1 b1 a2 b2 a3 b3 a4 b4 a5 b5 :
  let draws := fun k => nth k [(a0, b0); (a1, b1); (a2, b2); (a3, b3); (a4, b4); (a5, b5)] (a0, b0) in
  firstn 6 (pair_wBBBBAB (OO:=ROps) a0 b0 a1 b1 a2 b2 a3 b3 a4 b4 a5 b5) = deliveries draws st0 [ReqB; ReqB; ReqB; ReqB; ReqA; ReqB] /\
  nth 6 (pair_wBBBBAB (OO:=ROps) a0 b0 a1 b1 a2 b2 a3 b3 a4 b4 a5 b5) 0%R = IZR (Z.of_nat (drawn (run draws [ReqB; ReqB; ReqB; ReqB; ReqA; ReqB]))).
Proof. pairing. Qed.

Lemma tie_pair_wAAAABB a0 b0 a1 b1 a2 b2 a3 b3 a4 b4 a5 b5 :
  let draws := fun k => nth k [(a0, b0); (a1, b1); (a2, b2); (a3, b3); (a4, b4); (a5, b5)] (a0, b0) in
  firstn 6 (pair_wAAAABB (OO:=ROps) a0 b0 a1 b1 a2 b2 a3 b3 a4 b4 a5 b5) = deliveries draws st0 [ReqA; ReqA; ReqA; ReqA; ReqB; ReqB] /\
  nth 6 (pair_wAAAABB (OO:=ROps) a0 b0 a1 b1 a2 b2 a3 b3 a4 b4 a5 b5) 0%R = IZR (Z.of_nat (drawn (run draws [ReqA; ReqA; ReqA; ReqA; ReqB; ReqB]))).
Proof. pairing. Qed.

Lemma tie_pair_wBAAABB a0 b0 a1 b1 a2 b2 a3 b3 a4 b4 a5 b5 :
  let draws := fun k => nth k [(a0, b0); (a1, b1); (a2, b2); (a3, b3); (a4, b4); (a5, b5)] (a0, b0) in
  firstn 6 (pair_wBAAABB (OO:=ROps) a0 b0 a1 b1 a2 b2 a3 b3 a4 b4 a5 b5) = deliveries draws st0 [ReqB; ReqA; ReqA; ReqA; ReqB; ReqB] /\
  nth 6 (pair_wBAAABB (OO:=ROps) a0 b0 a1 b1 a2 b2 a3 b3 a4 b4 a5 b5) 0%R = IZR (Z.of_nat (drawn (run draws [ReqB; ReqA; ReqA; ReqA; ReqB; ReqB]))).
Proof. pairing. Qed.

Lemma tie_pair_wABAABB a0 b0 a1 b1 a2 b2 a3 b3 a4 b4 a5 b5 :
  let draws := fun k => nth k [(a0, b0); (a1, b1); (a2, b2); (a3, b3); (a4, b4); (a5, b5)] (a0, b0) in
  firstn 6 (pair_wABAABB (OO:=ROps) a0 b0 a1 b1 a2 b2 a3 b3 a4 b4 a5 b5) = deliveries draws st0 [ReqA; ReqB; ReqA; ReqA; ReqB; ReqB] /\
  nth 6 (pair_wABAABB (OO:=ROps) a0 b0 a1 b1 a2 b2 a3 b3 a4 b4 a5 b5) 0%R = IZR (Z.of_nat (drawn (run draws [ReqA; ReqB; ReqA; ReqA; ReqB; ReqB]))).
Proof. pairing. Qed.

Lemma tie_pair_wBBAABB a0 b0 a1 b1 a2 b2 a3 b3 a4 b4 a5 b5 :
  let draws := fun k => nth k [(a0, b0); (a1, b1); (a2, b2); (a3, b3); (a4, b4); (a5, b5)] (a0, b0) in
  firstn 6 (pair_wBBAABB (OO:=ROps) a0 b0 a1 b1 a2 b2 a3 b3 a4 b4 a5 b5) = deliveries draws st0 [ReqB; ReqB; ReqA; ReqA; ReqB; ReqB] /\
  nth 6 (pair_wBBAABB (OO:=ROps) a0 b0 a1 b1 a2 b2 a3 b3 a4 b4 a5 b5) 0%R = IZR (Z.of_nat (drawn (run draws [ReqB; ReqB; ReqA; ReqA; ReqB; ReqB]))).
Proof. pairing. Qed.

Lemma tie_pair_wAABABB a0 b0 a1 b1 a2 b2 a3 b3 a4 b4 a5 b5 :
  let draws := fun k => nth k [(a0, b0); (a1, b1); (a2, b2); (a3, b3); (a4, b4); (a5, b5)] (a0, b0) in
  firstn 6 (pair_wAABABB (OO:=ROps) a0 b0 a1 b1 a2 b2 a3 b3 a4 b4 a5 b5) = deliveries draws st0 [ReqA; ReqA; ReqB; ReqA; ReqB; ReqB] /\
  nth 6 (pair_wAABABB (OO:=ROps) a0 b0 a1 b1 a2 b2 a3 b3 a4 b4 a5 b5) 0%R = IZR (Z.of_nat (drawn (run draws [ReqA; ReqA; ReqB; ReqA; ReqB; ReqB]))).
Proof. pairing. Qed.

Lemma tie_pair_wBABABB a0 b0 a1 b1 a2 b2 a3 b3 a4 b4 a5 b5 :
  let draws := fun k => nth k [(a0, b0); (a1, b1); (a2, b2); (a3, b3); (a4, b4); (a5, b5)] (a0, b0) in
  firstn 6 (pair_wBABABB (OO:=ROps) a0 b0 a1 b1 a2 b2 a3 b3 a4 b4 a5 b5) = deliveries draws st0 [ReqB; ReqA; ReqB; ReqA; ReqB; ReqB] /\
  nth 6 (pair_wBABABB (OO:=ROps) a0 b0 a1 b1 a2 b2 a3 b3 a4 b4 a5 b5) 0%R = IZR (Z.of_nat (drawn (run draws [ReqB; ReqA; ReqB; ReqA; ReqB; ReqB]))).
Proof. pairing. Qed.

Lemma tie_pair_wABBABB a0 b0 a1 b1 a2 b2 a3 b3 a4 b4 a5 b5 :
  let draws := fun k => nth k [(a0, b0); (a1, b1); (a2, b2); (a3, b3); (a4, b4); (a5, b5)] (a0, b0) in
  firstn 6 (pair_wABBABB (OO:=ROps) a0 b0 a1 b1 a2 b2 a3 b3 a4 b4 a5 b5) = deliveries draws st0 [ReqA; ReqB; ReqB; ReqA; ReqB; ReqB] /\
  nth 6 (pair_wABBABB (OO:=ROps) a0 b0 a1 b1 a2 b2 a3 b3 a4 b4 a5 b5) 0%R = IZR (Z.of_nat (drawn (run draws [ReqA; ReqB; ReqB; ReqA; ReqB; ReqB]))).
Proof. pairing. Qed.

Lemma tie_pair_wBBBABB a0 b0 a1 b1 a2 b2 a3 b3 a4 b4 a5 b5 :
  let draws := fun k => nth k [(a0, b0); (a1, b1); (a2, b2); (a3, b3); (a4, b4); (a5, b5)] (a0, b0) in
  firstn 6 (pair_wBBBABB (OO:=ROps) a0 b0 a1 b1 a2 b2 a3 b3 a4 b4 a5 b5) = deliveries draws st0 [ReqB; ReqB; ReqB; ReqA; ReqB; ReqB] /\
  nth 6 (pair_wBBBABB (OO:=ROps) a0 b0 a1 b1 a2 b2 a3 b3 a4 b4 a5 b5) 0%R = IZR (Z.of_nat (drawn (run draws [ReqB; ReqB; ReqB; ReqA; ReqB; ReqB]))).
Proof. pairing. Qed.

Lemma tie_pair_wAAABBB a0 b0 a1 b1 a2 b2 a3 b3 a4 b4 a5 b5 :
  let draws := fun k => nth k [(a0, b0); (a1, b1); (a2, b2); (a3, b3); (a4, b4); (a5, b5)] (a0, b0) in
  firstn 6 (pair_wAAABBB (OO:=ROps) a0 b0 a1 b1 a2 b2 a3 b3 a4 b4 a5 b5) = deliveries draws st0 [ReqA; ReqA; ReqA; ReqB; ReqB; ReqB] /\
  nth 6 (pair_wAAABBB (OO:=ROps) a0 b0 a1 b1 a2 b2 a3 b3 a4 b4 a5 b5) 0%R = IZR (Z.of_nat (drawn (run draws [ReqA; ReqA; ReqA; ReqB; ReqB; ReqB]))).
Proof. pairing. Qed.

Lemma tie_pair_wBAABBB a0 b0 a1 b1 a2 b2 a3 b3 a4 b4 a5 b5 :
  let draws := fun k => nth k [(a0, b0); (a1, b1); (a2, b2); (a3, b3); (a4, b4); (a5, b5)] (a0, b0) in
  firstn 6 (pair_wBAABBB (OO:=ROps) a0 b0 a1 b1 a2 b2 a3 b3 a4 b4 a5 b5) = deliveries draws st0 [ReqB; ReqA; ReqA; ReqB; ReqB; ReqB] /\
  nth 6 (pair_wBAABBB (OO:=ROps) a0 b0 a1 b1 a2 b2 a3 b3 a4 b4 a5 b5) 0%R = IZR (Z.of_nat (drawn (run draws [ReqB; ReqA; ReqA; ReqB; ReqB; ReqB]))).
Proof. pairing. Qed.

Lemma tie_pair_wABABBB a0 b0 a1 b1 a2 b2 a3 b3 a4 b4 a5 b5 :
  let draws := fun k => nth k [(a0, b0); (a1, b1); (a2, b2); (a3, b3); (a4, b4); (a5, b5)] (a0, b0) in
  firstn 6 (pair_wABABBB (OO:=ROps) a0 b0 a1 b1 a2 b2 a3 b3 a4 b4 a5 b5) = deliveries draws st0 [ReqA; ReqB; ReqA; ReqB; ReqB; ReqB] /\
  nth 6 (pair_wABABBB (OO:=ROps) a0 b0 a1 b1 a2 b2 a3 b3 a4 b4 a5 b5) 0%R = IZR (Z.of_nat (drawn (run draws [ReqA; ReqB; ReqA; ReqB; ReqB; ReqB]))).
Proof. pairing. Qed.

Lemma tie_pair_wBBABBB a0 b0 a1 b1 a2 b2 a3 b3 a4 b4 a5 b5 :
  let draws := fun k => nth k [(a0, b0); (a1, b1); (a2, b2); (a3, b3); (a4, b4); (a5, b5)] (a0, b0) in
  firstn 6 (pair_wBBABBB (OO:=ROps) a0 b0 a1 b1 a2 b2 a3 b3 a4 b4 a5 b5) = deliveries draws st0 [ReqB; ReqB; ReqA; ReqB; ReqB; ReqB] /\
  nth 6 (pair_wBBABBB (OO:=ROps) a0 b0 a1 b1 a2 b2 a3 b3 a4 b4 a5 b5) 0%R = IZR (Z.of_nat (drawn (run draws [ReqB; ReqB; ReqA; ReqB; ReqB; ReqB]))).
Proof. pairing. Qed.

Lemma tie_pair_wAABBBB a0 b0 a1 b1 a2 b2 a3 b3 a4 b4 a5 b5 :
  let draws := fun k => nth k [(a0, b0); (a1, b1); (a2, b2); (a3, b3); (a4, b4); (a5, b5)] (a0, b0) in
  firstn 6 (pair_wAABBBB (OO:=ROps) a0 b0 a1 b1 a2 b2 a3 b3 a4 b4 a5 b5) = deliveries draws st0 [ReqA; ReqA; ReqB; ReqB; ReqB; ReqB] /\
  nth 6 (pair_wAABBBB (OO:=ROps) a0 b0 a1 b1 a2 b2 a3 b3 a4 b4 a5 b5) 0%R = IZR (Z.of_nat (drawn (run draws [ReqA; ReqA; ReqB; ReqB; ReqB; ReqB]))).
Proof. pairing. Qed.

Lemma tie_pair_wBABBBB a0 b0 a1 b1 a2 b2 a3 b3 a4 b4 a5 b5 :
  let draws := fun k => nth k [(a0, b0); (a1, b1); (a2, b2); (a3, b3); (a4, b4); (a5, b5)] (a0, b0) in
  firstn 6 (pair_wBABBBB (OO:=ROps) a0 b0 a1 b1 a2 b2 a3 b3 a4 b4 a5 b5) = deliveries draws st0 [ReqB; ReqA; ReqB; ReqB; ReqB; ReqB] /\
  nth 6 (pair_wBABBBB (OO:=ROps) a0 b0 a1 b1 a2 b2 a3 b3 a4 b4 a5 b5) 0%R = IZR (Z.of_nat (drawn (run draws [ReqB; ReqA; ReqB; ReqB; ReqB; ReqB]))).
Proof. pairing. Qed.

Lemma tie_pair_wABBBBB a0 b0 a1 b1 a2 b2 a3 b3 a4 b4 a5 b5 :
  let draws := fun k => nth k [(a0, b0); (a1, b1); (a2, b2); (a3, b3); (a4, b4); (a5, b5)] (a0, b0) in
  firstn 6 (pair_wABBBBB (OO:=ROps) a0 b0 a1 b1 a2 b2 a3 b3 a4 b4 a5 b5) = deliveries draws st0 [ReqA; ReqB; ReqB; ReqB; ReqB; ReqB] /\
  nth 6 (pair_wABBBBB (OO:=ROps) a0 b0 a1 b1 a2 b2 a3 b3 a4 b4 a5 b5) 0%R = IZR (Z.of_nat (drawn (run draws [ReqA; ReqB; ReqB; ReqB; ReqB; ReqB]))).
Proof. pairing. Qed.

Lemma tie_pair_wBBBBBB a0 b0 a1 b1 a2 b2 a3 b3 a4 b4 a5 b5 :
  let draws := fun k => nth k [(a0, b0); (a1, b1); (a2, b2); (a3, b3); (a4, b4); (a5, b5)] (a0, b0) in
  firstn 6 (pair_wBBBBBB (OO:=ROps) a0 b0 a1 b1 a2 b2 a3 b3 a4 b4 a5 b5) = deliveries draws st0 [ReqB; ReqB; ReqB; ReqB; ReqB; ReqB] /\
  nth 6 (pair_wBBBBBB (OO:=ROps) a0 b0 a1 b1 a2 b2 a3 b3 a4 b4 a5 b5) 0%R = IZR (Z.of_nat (drawn (run draws [ReqB; ReqB; ReqB; ReqB; ReqB; ReqB]))).
Proof. pairing. Qed.
