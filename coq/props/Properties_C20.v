(* Properties_C20.v -- C20: non-finite values are detected. *)
From Coq Require Import ZArith List Bool Floats.
From Epsic Require Import Scalar FloatOps FiniteModel Gen_C20 Tie_C20.
Import ListNotations.

(* container logic, for ANY scalar predicate (in particular the binary64 one below) *)
Theorem C20_container_conjunction {TT} {OO : Ops TT} a b c d e f g h :
  Forall (fun k : Prop * list TT => fst k ->
            (snd k = [oint 1] /\ (ofinite a (oint 0) /\ ofinite b (oint 0) /\ ofinite c (oint 0) /\ ofinite d (oint 0) /\
                                  ofinite e (oint 0) /\ ofinite f (oint 0) /\ ofinite g (oint 0) /\ ofinite h (oint 0)))
            \/ (snd k = [oint 0] /\ ~ (ofinite a (oint 0) /\ ofinite b (oint 0) /\ ofinite c (oint 0) /\ ofinite d (oint 0) /\
                                       ofinite e (oint 0) /\ ofinite f (oint 0) /\ ofinite g (oint 0) /\ ofinite h (oint 0))))
         (fin_jones_cases (OO:=OO) a b c d e f g h).
Proof. exact (tie_fin_jones a b c d e f g h). Qed.
Print Assumptions C20_container_conjunction.

(* specialised to binary64 (Coq's primitive floats): a complex number is reported finite exactly when
   neither part is a NaN or an infinity *)
Theorem C20_complex_binary64 (zr zi : float) :
  Forall (fun c : Prop * list float => fst c ->
            (snd c = [1%float] /\ float_finite zr = true /\ float_finite zi = true)
            \/ (snd c = [0%float] /\ ~ (float_finite zr = true /\ float_finite zi = true)))
         (fin_complex_cases (OO:=FOps) zr zi).
Proof. exact (tie_fin_complex (OO:=FOps) zr zi). Qed.
Theorem C20_finite_false_exactly_on_nan_and_infinity x :
  float_finite x = false <-> (is_nan x = true \/ is_infinity x = true).
Proof. exact (binary64_finite_exact x). Qed.
Theorem C20_model_matches_binary64 :
  forallb (fun k => Bool.eqb (float_finite (float_of_kind k)) (kfinite k)) kinds = true /\
  forallb (fun k => Bool.eqb (get_sign (float_of_kind k)) (ksign k)) kinds = true.
Proof. split; [exact binary64_finite_matches | exact binary64_sign_matches]. Qed.
Print Assumptions C20_model_matches_binary64.
