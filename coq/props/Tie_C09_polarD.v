(* Tie_C09_polarD.v -- stage D of polar(), as generated from Pauli.h / Jones.h / Quaternion.h:
   for the Hermitian quaternion h and the matrix j, the code forms w = inv(convert(h)) j, takes its
   unitary-basis quaternion and keeps the real parts.  The generated real and imaginary parts are the
   components uq0..uq3 of PolarModel for w = (phiH h)^-1 j, and convert(h), det h are the spec's. *)
From Coq Require Import Reals Lra List.
From Epsic Require Import Scalar SpecPauli SpecJones PolarModel Gen_C09.
Import ListNotations.
Local Open Scope R_scope.

Section StageD.
Variables h0 h1 h2 h3 p00r p00i p01r p01i p10r p10i p11r p11i : R.
Let Hm := phiHc (cofR h0) (cofR h1) (cofR h2) (cofR h3).
Let j := M2of p00r p00i p01r p01i p10r p10i p11r p11i.
Let w := m2mul (m2inv Hm) j.
Let l := polar_stageD (OO:=ROps) h0 h1 h2 h3 p00r p00i p01r p01i p10r p10i p11r p11i.

Lemma detH_spec : m2det Hm = cofR (h0 * h0 - h1 * h1 - h2 * h2 - h3 * h3).
Proof. subst Hm. unfold phiHc. apply c_eq; spec_cbv; ring. Qed.

(* u (4 reals), the dropped imaginary parts (4), and the determinant of the Hermitian quaternion *)
Lemma tie_stageD : h0 * h0 - h1 * h1 - h2 * h2 - h3 * h3 <> 0 ->
  firstn 8 l = [fst (uq0 w); fst (uq1 w); fst (uq2 w); fst (uq3 w); snd (uq0 w); snd (uq1 w); snd (uq2 w); snd (uq3 w)]
  /\ nth 41 l 0 = h0 * h0 - h1 * h1 - h2 * h2 - h3 * h3
  /\ firstn 8 (skipn 25 l) = m2list (m2mul Hm Hm)
  /\ firstn 8 (skipn 33 l) = m2list (m2mul j (m2herm j)).
Proof.
  intros Hnz. subst l w j Hm. autounfold with gen; ops_R. cbn [firstn skipn nth].
  unfold uq0, uq1, uq2, uq3, half, mhi, phiHc, M2of. spec_cbv.
  set (x := h0 * h0 - h1 * h1 - h2 * h2 - h3 * h3) in *.
  assert (Hx : forall p, p = x * x -> p <> 0).
  { intros p Ep Z. apply Hnz. rewrite Ep in Z. destruct (Rmult_integral _ _ Z); assumption. }
  conj_split; lazymatch goal with
  | |- cons _ _ = _ => list_eq ltac:(first [ ring | field; repeat split; first [ exact Hnz | apply Hx; unfold x; ring ] ])
  | |- _ => unfold x; ring end.
Qed.
End StageD.
