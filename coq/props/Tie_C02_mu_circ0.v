(* Tie_C02_mu_circ0.v -- GENERATED ONCE by harness/gen_tie_C02.py and committed.
   Mueller composition and directional derivative, circ basis, row 0. *)
From Coq Require Import Reals Lra List.
From Epsic Require Import Scalar SpecPauli SpecJones Gen_C02.
Import ListNotations.
Local Open Scope R_scope.

Definition halves_eq (n : nat) (l : list R) : Prop := firstn n l = skipn n l.

(* abstract cos x / sin x to variables c, s with s*s = 1 - c*c *)
Ltac trig_abs :=
  repeat match goal with
  | |- context [cos ?x] => let c := fresh "c" in let s := fresh "s" in let H := fresh "Htrig" in
       assert (H : sin x * sin x = 1 - cos x * cos x) by (pose proof (sin2_cos2 x) as H; unfold Rsqr in H; lra);
       set (c := cos x) in *; set (s := sin x) in *; clearbody c s
  end.
Ltac trig_ring := match goal with
  | H1 : _ * _ = 1 - _, H2 : _ * _ = 1 - _ |- _ => first [ring [H1 H2] | field [H1 H2] | (field_simplify_eq; ring [H1 H2])]
  | H1 : _ * _ = 1 - _ |- _ => first [ring [H1] | field [H1] | (field_simplify_eq; ring [H1])]
  end.
Ltac solve_entry := first [ field | ring | trig_ring | lazymatch goal with |- ?a = ?a => reflexivity end ].
Ltac pc_zero := intros; autounfold with gen; ops_R; trig_abs; repeat split;
  (let H := fresh "H" in intro H;
   match type of H with ?b < ?a =>
     let E := fresh "E" in assert (E : a = 0) by solve_entry; rewrite E in H; lra end).
Ltac law := intros; unfold halves_eq; autounfold with gen; ops_R; cbn [firstn skipn]; trig_abs; list_eq solve_entry.

Lemma law_mueller_compose_circ_row0 a00r a00i a01r a01i a10r a10i a11r a11i b00r b00i b01r b01i b10r b10i b11r b11i :
  halves_eq 4 (mueller_compose_circ_row0 (OO:=ROps) a00r a00i a01r a01i a10r a10i a11r a11i b00r b00i b01r b01i b10r b10i b11r b11i).
Proof. law. Qed.

Lemma pc_mueller_compose_circ_row0 a00r a00i a01r a01i a10r a10i a11r a11i b00r b00i b01r b01i b10r b10i b11r b11i : mueller_compose_circ_row0_pc (OO:=ROps) a00r a00i a01r a01i a10r a10i a11r a11i b00r b00i b01r b01i b10r b10i b11r b11i.
Proof. pc_zero. Qed.

Lemma law_mueller_derivative_circ_row0 j00r j00i j01r j01i j10r j10i j11r j11i g00r g00i g01r g01i g10r g10i g11r g11i t :
  halves_eq 4 (mueller_derivative_circ_row0 (OO:=ROps) j00r j00i j01r j01i j10r j10i j11r j11i g00r g00i g01r g01i g10r g10i g11r g11i t).
Proof. law. Qed.

Lemma pc_mueller_derivative_circ_row0 j00r j00i j01r j01i j10r j10i j11r j11i g00r g00i g01r g01i g10r g10i g11r g11i t : mueller_derivative_circ_row0_pc (OO:=ROps) j00r j00i j01r j01i j10r j10i j11r j11i g00r g00i g01r g01i g10r g10i g11r g11i t.
Proof. pc_zero. Qed.
