(* Tie_C05_ens_11_a.v -- GENERATED ONCE by harness/gen_tie_C05_ens.py and committed.
   Exact ensemble covariance of Stokes parameters 1 and 1 of one superposed instance: the part of mode A. *)
From Coq Require Import Reals Lra List.
From Epsic Require Import Scalar SpecPauli Quadrature Quadrature8 Gen_C05 Tie_C05_ens.
Import ListNotations.
Local Open Scope R_scope.
Ltac ens := pose proof r3_sq as H; unfold partA, partB, F0, F1, F2, F3, SA, SB, E4, E1, Smean, mink_outer_spec, mink_inner_spec, eta;
  cbn [v4nth v0 v1 v2 v3 Nat.eqb]; autounfold with gen; ops_R; field_simplify_eq; ring [H].

Lemma covA_11 ra0 ra1 ra2 ra3 rb0 rb1 rb2 rb3 :
  E4 (fun p0 p1 p2 p3 => partA (F1 ra0 ra1 ra2 ra3 rb0 rb1 rb2 rb3) p0 p1 p2 p3 * partA (F1 ra0 ra1 ra2 ra3 rb0 rb1 rb2 rb3) p0 p1 p2 p3) - E4 (partA (F1 ra0 ra1 ra2 ra3 rb0 rb1 rb2 rb3)) * E4 (partA (F1 ra0 ra1 ra2 ra3 rb0 rb1 rb2 rb3))
  = mink_outer_spec (SA ra0 ra1 ra2 ra3 rb0 rb1 rb2 rb3) (SA ra0 ra1 ra2 ra3 rb0 rb1 rb2 rb3) 1 1.
Proof. ens. Qed.
