(* Tie_C13_gj3_s2.v -- GENERATED ONCE by harness/gen_tie_C13_gj3.py and committed. *)
From Coq Require Import Reals Lra List.
From Epsic Require Import Scalar SpecPauli Gen_C13 Tie_C13.
Import ListNotations.
Local Open Scope R_scope.

Lemma tie_gj3_o20 a00 a01 a02 a10 a11 a12 a20 a21 a22 : gj3_o20_pc (OO:=ROps) a00 a01 a02 a10 a11 a12 a20 a21 a22 -> gj3_ok (gj3_o20 (OO:=ROps) a00 a01 a02 a10 a11 a12 a20 a21 a22).
Proof. gj3. Qed.
Lemma tie_gj3_o21 a00 a01 a02 a10 a11 a12 a20 a21 a22 : gj3_o21_pc (OO:=ROps) a00 a01 a02 a10 a11 a12 a20 a21 a22 -> gj3_ok (gj3_o21 (OO:=ROps) a00 a01 a02 a10 a11 a12 a20 a21 a22).
Proof. gj3. Qed.
Lemma tie_gj3_o22 a00 a01 a02 a10 a11 a12 a20 a21 a22 : gj3_o22_pc (OO:=ROps) a00 a01 a02 a10 a11 a12 a20 a21 a22 -> gj3_ok (gj3_o22 (OO:=ROps) a00 a01 a02 a10 a11 a12 a20 a21 a22).
Proof. gj3. Qed.
Lemma tie_gj3_o23 a00 a01 a02 a10 a11 a12 a20 a21 a22 : gj3_o23_pc (OO:=ROps) a00 a01 a02 a10 a11 a12 a20 a21 a22 -> gj3_ok (gj3_o23 (OO:=ROps) a00 a01 a02 a10 a11 a12 a20 a21 a22).
Proof. gj3. Qed.
Lemma tie_gj3_o24 a00 a01 a02 a10 a11 a12 a20 a21 a22 : gj3_o24_pc (OO:=ROps) a00 a01 a02 a10 a11 a12 a20 a21 a22 -> gj3_ok (gj3_o24 (OO:=ROps) a00 a01 a02 a10 a11 a12 a20 a21 a22).
Proof. gj3. Qed.
Lemma tie_gj3_o25 a00 a01 a02 a10 a11 a12 a20 a21 a22 : gj3_o25_pc (OO:=ROps) a00 a01 a02 a10 a11 a12 a20 a21 a22 -> gj3_ok (gj3_o25 (OO:=ROps) a00 a01 a02 a10 a11 a12 a20 a21 a22).
Proof. gj3. Qed.
