(* Tie_C10_c3.v -- one complex Jacobi rotation in the (0,1) plane of a Hermitian 3x3 matrix
   [[p, x+iy, b], [x-iy, q, c], [b*, c*, r]], generated from the sources: similarity by a unitary v, the (0,1) element
   annihilated, the rotated matrix Hermitian with the updated eigenvalues on its diagonal, trace preserved, and the other
   off-diagonal elements only rotated among themselves: |a02'|^2 + |a12'|^2 = |b|^2 + |c|^2. *)
From Coq Require Import Reals Lra List.
From Epsic Require Import Scalar Gen_C10 Tie_C10.
Import ListNotations.
Local Open Scope R_scope.

(* outputs: a (18 reals, row major, re/im), v (18), d (3), v A v^dagger (18), v v^dagger (18) *)
Definition jc3_spec (p q r x y br bi cr ci : R) (l : list R) : Prop :=
  let a := fun (k : nat) => nth k l 0 in let d := fun (k : nat) => nth (36 + k)%nat l 0 in
  a 2%nat = 0 /\ a 3%nat = 0 /\ a 6%nat = 0 /\ a 7%nat = 0 /\
  a 0%nat = d 0%nat /\ a 1%nat = 0 /\ a 8%nat = d 1%nat /\ a 9%nat = 0 /\ a 16%nat = r /\ a 17%nat = 0 /\ d 2%nat = r /\
  a 12%nat = a 4%nat /\ a 13%nat = - a 5%nat /\ a 14%nat = a 10%nat /\ a 15%nat = - a 11%nat /\
  firstn 18 (skipn 39 l) = firstn 18 l /\
  firstn 18 (skipn 57 l) = [1; 0; 0; 0; 0; 0;  0; 0; 1; 0; 0; 0;  0; 0; 0; 0; 1; 0] /\
  d 0%nat + d 1%nat = p + q /\
  a 4%nat * a 4%nat + a 5%nat * a 5%nat + a 10%nat * a 10%nat + a 11%nat * a 11%nat = br * br + bi * bi + cr * cr + ci * ci.

Ltac jc3_plus sq x y :=
  match goal with Sp : pnorm sq x (- y) * pnorm sq x (- y) = _, Hd : 0 < pnorm sq x (- y) + sq, PP : 0 < pnorm sq x (- y) |- _ =>
  set (P := pnorm sq x (- y)) in *;
  assert (Ha0 : 0 < 2 * P) by lra;
  pose proof (sqrt_sqrt (2 * P) (Rlt_le _ _ Ha0)) as Sa; pose proof (sqrt_lt_R0 _ Ha0) as Pa; set (a := sqrt (2 * P)) in *;
  pose proof (sqrt_sqrt (P + sq) (Rlt_le _ _ Hd)) as Sb; pose proof (sqrt_lt_R0 _ Hd) as Pb; set (b := sqrt (P + sq)) in *;
  assert (Na : a <> 0) by lra; assert (Nb : b <> 0) by lra;
  assert (Ey : y * y = P * P - sq * sq - x * x) by lra;
  assert (Ea : a * a = 2 * P) by lra; assert (Eb : b * b = P + sq) by lra;
  assert (N1 : a * b + (P + sq) <> 0) by nra;
  conj_split; lazymatch goal with
  | |- cons _ _ = _ => list_eq ltac:(first [ ring | field_simplify_eq; [ ring [Ey Ea Eb] | auto ] ])
  | |- _ => first [ ring | field_simplify_eq; [ ring [Ey Ea Eb] | auto ] ] end
  end.

Lemma tie_jrot3c_p00 p q r x y br bi cr ci : jrot3c_p00_pc (OO:=ROps) p q r x y br bi cr ci -> jc3_spec p q r x y br bi cr ci (jrot3c_p00 (OO:=ROps) p q r x y br bi cr ci).
Proof.
  unfold jc3_spec. autounfold with gen; ops_R. cbv beta iota zeta delta [nth firstn skipn Nat.add].
  set (sq := 1 / 2 * (p - q)) in *. rewrite ?(hyp_pnorm sq x (- y)). intros [Hp Hq].
  assert (Ep : p = q + 2 * sq) by (unfold sq; field). clearbody sq. subst p.
  pose proof (pnorm_sq sq x (- y)) as Sp. pose proof (pnorm_ge sq x (- y)) as Pp.
  assert (PP : 0 < pnorm sq x (- y)) by lra. assert (Hd : 0 < pnorm sq x (- y) + sq) by lra.
  jc3_plus sq x y.
Qed.
