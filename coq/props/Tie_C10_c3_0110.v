(* Tie_C10_c3_0110.v -- complex Jacobi rotation inside a Hermitian 3x3 matrix, ascending diagonal, purely imaginary off-diagonal element (thorough tier) *)
From Coq Require Import Reals Lra List.
From Epsic Require Import Scalar Gen_C10 Tie_C10 Tie_C10_c3.
Import ListNotations.
Local Open Scope R_scope.

Lemma tie_jrot3c_p0110 p q r x y br bi cr ci : jrot3c_p0110_pc (OO:=ROps) p q r x y br bi cr ci -> jc3_spec p q r x y br bi cr ci (jrot3c_p0110 (OO:=ROps) p q r x y br bi cr ci).
Proof.
  unfold jc3_spec. autounfold with gen; ops_R. cbv beta iota zeta delta [nth firstn skipn Nat.add].
  set (sq := 1 / 2 * (p - q)) in *. rewrite ?(hyp_pnorm sq x (- y)). intros [Hp [Hq [Hx Hy]]].
  assert (Ep : p = q + 2 * sq) by (unfold sq; field). clearbody sq. subst p.
  assert (Hax : ~ (x = 0 /\ - y = 0)) by tauto. destruct (d_stable sq x (- y) Hq Hax) as [Ed [Hd PP]].
  rewrite !Ed. pose proof (pnorm_sq sq x (- y)) as Sp.
  jc3_plus sq x y.
Qed.
