(* Tie_C10_c3_1.v -- complex Jacobi rotation inside a Hermitian 3x3 matrix, zero off-diagonal element (never passed by the Jacobi loop) (thorough tier) *)
From Coq Require Import Reals Lra List.
From Epsic Require Import Scalar Gen_C10 Tie_C10 Tie_C10_c3.
Import ListNotations.
Local Open Scope R_scope.

Lemma tie_jrot3c_p0111 p q r x y br bi cr ci : jrot3c_p0111_pc (OO:=ROps) p q r x y br bi cr ci -> jc3_spec p q r x y br bi cr ci (jrot3c_p0111 (OO:=ROps) p q r x y br bi cr ci).
Proof.
  unfold jc3_spec. autounfold with gen; ops_R. cbv beta iota zeta delta [nth firstn skipn Nat.add].
  set (sq := 1 / 2 * (p - q)) in *. rewrite ?(hyp_pnorm sq x (- y)). intros [Hp [Hq [Hx Hy]]].
  assert (Ep : p = q + 2 * sq) by (unfold sq; field). clearbody sq. subst p.
  assert (Zy : y = 0) by lra. subst x y.
  pose proof (pnorm_sq sq 0 (- 0)) as Sp. pose proof (pnorm_ge sq 0 (- 0)) as Pp.
  assert (EP : pnorm sq 0 (- 0) = - sq) by nra. rewrite !EP.
  assert (Er : sqrt (2 * - sq * (- sq - sq)) = - 2 * sq).
  { replace (2 * - sq * (- sq - sq)) with ((- 2 * sq) * (- 2 * sq)) by ring. apply sqrt_square. lra. }
  rewrite !Er. assert (N : sq <> 0) by lra.
  conj_split; lazymatch goal with |- cons _ _ = _ => list_eq ltac:(first [ ring | field; exact N ]) | |- _ => first [ ring | field; exact N ] end.
Qed.

Lemma tie_jrot3c_p1 p q r x y br bi cr ci : jrot3c_p1_pc (OO:=ROps) p q r x y br bi cr ci -> jc3_spec p q r x y br bi cr ci (jrot3c_p1 (OO:=ROps) p q r x y br bi cr ci).
Proof.
  unfold jc3_spec. autounfold with gen; ops_R. cbv beta iota zeta delta [nth firstn skipn Nat.add].
  set (sq := 1 / 2 * (p - q)) in *. rewrite ?(hyp_pnorm sq x (- y)). intros Hp.
  assert (Ep : p = q + 2 * sq) by (unfold sq; field). clearbody sq. subst p.
  pose proof (pnorm_sq sq x (- y)) as Sp. rewrite Hp in Sp.
  assert (Z1 : sq = 0) by nra. assert (Z2 : x = 0) by nra. assert (Z3 : y = 0) by nra. subst sq x y.
  conj_split; lazymatch goal with |- cons _ _ = _ => list_eq ltac:(first [ ring | field ]) | |- _ => first [ ring | field ] end.
Qed.
