(* Properties_C03.v -- C03: quaternion and biquaternion types are isomorphic to
   Jones matrices.  All statements are about functions generated from the
   current source (Gen_C03). *)
From Coq Require Import Reals List.
From Epsic Require Import Scalar SpecPauli SpecJones Gen_C03 Tie_C03.
Import ListNotations.
Local Open Scope R_scope.

(* 1. the maps are the stated isomorphisms: s0 + s.sigma (Hermitian basis) and
      s0 + i s.sigma (unitary basis) *)
Theorem C03_convert_is_phi a0r a0i a1r a1i a2r a2i a3r a3i a0 a1 a2 a3 :
  conv_BH (OO:=ROps) a0r a0i a1r a1i a2r a2i a3r a3i
    = m2list (m2add (m2add (m2add (m2scale (a0r,a0i) (sigma 0)) (m2scale (a1r,a1i) (sigma 1))) (m2scale (a2r,a2i) (sigma 2))) (m2scale (a3r,a3i) (sigma 3)))
  /\ conv_BU (OO:=ROps) a0r a0i a1r a1i a2r a2i a3r a3i
    = m2list (m2add (m2scale (a0r,a0i) (sigma 0))
               (m2scale ci (m2add (m2add (m2scale (a1r,a1i) (sigma 1)) (m2scale (a2r,a2i) (sigma 2))) (m2scale (a3r,a3i) (sigma 3)))))
  /\ conv_QH (OO:=ROps) a0 a1 a2 a3 = m2list (phiHc (cofR a0) (cofR a1) (cofR a2) (cofR a3))
  /\ conv_QU (OO:=ROps) a0 a1 a2 a3 = m2list (phiUc (cofR a0) (cofR a1) (cofR a2) (cofR a3)).
Proof.
  rewrite <- phiHc_sum, <- phiUc_sum.
  repeat split; [apply tie_conv_BH | apply tie_conv_BU | apply tie_conv_QH | apply tie_conv_QU].
Qed.
Print Assumptions C03_convert_is_phi.

(* 2. mutually inverse *)
Theorem C03_mutually_inverse :
  (forall j00r j00i j01r j01i j10r j10i j11r j11i,
     halves_eq 8 (roundtrip_jones_H (OO:=ROps) j00r j00i j01r j01i j10r j10i j11r j11i) /\
     halves_eq 8 (roundtrip_jones_U (OO:=ROps) j00r j00i j01r j01i j10r j10i j11r j11i)) /\
  (forall a0r a0i a1r a1i a2r a2i a3r a3i,
     halves_eq 8 (roundtrip_BH (OO:=ROps) a0r a0i a1r a1i a2r a2i a3r a3i) /\
     halves_eq 8 (roundtrip_BU (OO:=ROps) a0r a0i a1r a1i a2r a2i a3r a3i)).
Proof. split; intros; split; first [apply law_roundtrip_jones_H | apply law_roundtrip_jones_U | apply law_roundtrip_BH | apply law_roundtrip_BU]. Qed.
Print Assumptions C03_mutually_inverse.

(* 3. the image of a product is the product of the images (all product operators the library offers) *)
Theorem C03_product_homomorphism :
  (forall a0r a0i a1r a1i a2r a2i a3r a3i b0r b0i b1r b1i b2r b2i b3r b3i,
     halves_eq 8 (mul_BH (OO:=ROps) a0r a0i a1r a1i a2r a2i a3r a3i b0r b0i b1r b1i b2r b2i b3r b3i) /\
     halves_eq 8 (mul_BU (OO:=ROps) a0r a0i a1r a1i a2r a2i a3r a3i b0r b0i b1r b1i b2r b2i b3r b3i)) /\
  (forall a0 a1 a2 a3 b0 b1 b2 b3,
     halves_eq 8 (mul_QU (OO:=ROps) a0 a1 a2 a3 b0 b1 b2 b3) /\
     halves_eq 8 (QH_times_QH (OO:=ROps) a0 a1 a2 a3 b0 b1 b2 b3) /\
     halves_eq 8 (QH_times_QU (OO:=ROps) a0 a1 a2 a3 b0 b1 b2 b3) /\
     halves_eq 8 (QU_times_QH (OO:=ROps) a0 a1 a2 a3 b0 b1 b2 b3)).
Proof.
  split; intros; repeat split;
  first [apply law_mul_BH | apply law_mul_BU | apply law_mul_QU | apply law_QH_times_QH | apply law_QH_times_QU | apply law_QU_times_QH].
Qed.
Print Assumptions C03_product_homomorphism.

(* 4. sum, difference, negation, scalar multiples, det, trace, norm, conj, herm, inverse *)
Theorem C03_operations_preserved_BH a0r a0i a1r a1i a2r a2i a3r a3i b0r b0i b1r b1i b2r b2i b3r b3i zr zi :
  halves_eq 8 (add_BH (OO:=ROps) a0r a0i a1r a1i a2r a2i a3r a3i b0r b0i b1r b1i b2r b2i b3r b3i) /\
  halves_eq 8 (sub_BH (OO:=ROps) a0r a0i a1r a1i a2r a2i a3r a3i b0r b0i b1r b1i b2r b2i b3r b3i) /\
  halves_eq 8 (neg_BH (OO:=ROps) a0r a0i a1r a1i a2r a2i a3r a3i) /\
  halves_eq 8 (scale_BH (OO:=ROps) a0r a0i a1r a1i a2r a2i a3r a3i zr zi) /\
  halves_eq 2 (det_BH (OO:=ROps) a0r a0i a1r a1i a2r a2i a3r a3i) /\
  halves_eq 2 (trace_BH (OO:=ROps) a0r a0i a1r a1i a2r a2i a3r a3i) /\
  halves_eq 1 (norm_BH (OO:=ROps) a0r a0i a1r a1i a2r a2i a3r a3i) /\
  halves_eq 8 (conj_BH (OO:=ROps) a0r a0i a1r a1i a2r a2i a3r a3i) /\
  halves_eq 8 (herm_BH (OO:=ROps) a0r a0i a1r a1i a2r a2i a3r a3i) /\
  (cnz (m2det (phiHc (a0r,a0i) (a1r,a1i) (a2r,a2i) (a3r,a3i))) ->
   halves_eq 8 (inv_BH (OO:=ROps) a0r a0i a1r a1i a2r a2i a3r a3i)).
Proof.
  repeat split; first [apply law_add_BH | apply law_sub_BH | apply law_neg_BH | apply law_scale_BH | apply law_det_BH
    | apply law_trace_BH | apply law_norm_BH | apply law_conj_BH | apply law_herm_BH | apply law_inv_BH].
Qed.
Theorem C03_operations_preserved_BU a0r a0i a1r a1i a2r a2i a3r a3i b0r b0i b1r b1i b2r b2i b3r b3i zr zi :
  halves_eq 8 (add_BU (OO:=ROps) a0r a0i a1r a1i a2r a2i a3r a3i b0r b0i b1r b1i b2r b2i b3r b3i) /\
  halves_eq 8 (sub_BU (OO:=ROps) a0r a0i a1r a1i a2r a2i a3r a3i b0r b0i b1r b1i b2r b2i b3r b3i) /\
  halves_eq 8 (neg_BU (OO:=ROps) a0r a0i a1r a1i a2r a2i a3r a3i) /\
  halves_eq 8 (scale_BU (OO:=ROps) a0r a0i a1r a1i a2r a2i a3r a3i zr zi) /\
  halves_eq 2 (det_BU (OO:=ROps) a0r a0i a1r a1i a2r a2i a3r a3i) /\
  halves_eq 2 (trace_BU (OO:=ROps) a0r a0i a1r a1i a2r a2i a3r a3i) /\
  halves_eq 1 (norm_BU (OO:=ROps) a0r a0i a1r a1i a2r a2i a3r a3i) /\
  halves_eq 8 (conj_BU (OO:=ROps) a0r a0i a1r a1i a2r a2i a3r a3i) /\
  halves_eq 8 (herm_BU (OO:=ROps) a0r a0i a1r a1i a2r a2i a3r a3i) /\
  (cnz (m2det (phiUc (a0r,a0i) (a1r,a1i) (a2r,a2i) (a3r,a3i))) ->
   halves_eq 8 (inv_BU (OO:=ROps) a0r a0i a1r a1i a2r a2i a3r a3i)).
Proof.
  repeat split; first [apply law_add_BU | apply law_sub_BU | apply law_neg_BU | apply law_scale_BU | apply law_det_BU
    | apply law_trace_BU | apply law_norm_BU | apply law_conj_BU | apply law_herm_BU | apply law_inv_BU].
Qed.
Theorem C03_operations_preserved_real a0 a1 a2 a3 b0 b1 b2 b3 r :
  halves_eq 8 (add_QH (OO:=ROps) a0 a1 a2 a3 b0 b1 b2 b3) /\ halves_eq 8 (add_QU (OO:=ROps) a0 a1 a2 a3 b0 b1 b2 b3) /\
  halves_eq 8 (sub_QH (OO:=ROps) a0 a1 a2 a3 b0 b1 b2 b3) /\ halves_eq 8 (sub_QU (OO:=ROps) a0 a1 a2 a3 b0 b1 b2 b3) /\
  halves_eq 8 (scale_QH (OO:=ROps) a0 a1 a2 a3 r) /\ halves_eq 8 (scale_QU (OO:=ROps) a0 a1 a2 a3 r) /\
  halves_eq 2 (det_QH (OO:=ROps) a0 a1 a2 a3) /\ halves_eq 2 (det_QU (OO:=ROps) a0 a1 a2 a3) /\
  halves_eq 2 (trace_QH (OO:=ROps) a0 a1 a2 a3) /\ halves_eq 2 (trace_QU (OO:=ROps) a0 a1 a2 a3) /\
  halves_eq 1 (norm_QH (OO:=ROps) a0 a1 a2 a3) /\ halves_eq 1 (norm_QU (OO:=ROps) a0 a1 a2 a3) /\
  halves_eq 8 (conj_QH (OO:=ROps) a0 a1 a2 a3) /\ halves_eq 8 (conj_QU (OO:=ROps) a0 a1 a2 a3) /\
  halves_eq 8 (herm_QH (OO:=ROps) a0 a1 a2 a3) /\ halves_eq 8 (herm_QU (OO:=ROps) a0 a1 a2 a3) /\
  (a0 * a0 - a1 * a1 - a2 * a2 - a3 * a3 <> 0 -> halves_eq 8 (inv_QH (OO:=ROps) a0 a1 a2 a3)) /\
  (a0 * a0 + a1 * a1 + a2 * a2 + a3 * a3 <> 0 -> halves_eq 8 (inv_QU (OO:=ROps) a0 a1 a2 a3)) /\
  halves_eq 8 (identity_QH (OO:=ROps)) /\ halves_eq 8 (identity_QU (OO:=ROps)).
Proof.
  repeat split; first [apply law_add_QH | apply law_add_QU | apply law_sub_QH | apply law_sub_QU | apply law_scale_QH | apply law_scale_QU
    | apply law_det_QH | apply law_det_QU | apply law_trace_QH | apply law_trace_QU | apply law_norm_QH | apply law_norm_QU
    | apply law_conj_QH | apply law_conj_QU | apply law_herm_QH | apply law_herm_QU | apply law_inv_QH | apply law_inv_QU
    | apply law_identity_QH | apply law_identity_QU].
Qed.
Print Assumptions C03_operations_preserved_real.

(* 5. a real Hermitian-basis quaternion maps to a Hermitian matrix, a real
      unitary-basis quaternion to a scaled unitary matrix *)
Theorem C03_real_hermitian a0 a1 a2 a3 :
  let m := m2oflist (conv_QH (OO:=ROps) a0 a1 a2 a3) in m2herm m = m.
Proof. intros m; subst m. rewrite tie_conv_QH, m2oflist_m2list. apply phiH_real_hermitian. Qed.
Theorem C03_real_scaled_unitary a0 a1 a2 a3 :
  let u := m2oflist (conv_QU (OO:=ROps) a0 a1 a2 a3) in
  m2mul u (m2herm u) = m2scale (cofR (a0*a0 + a1*a1 + a2*a2 + a3*a3)) m2id /\ m2det u = cofR (a0*a0 + a1*a1 + a2*a2 + a3*a3).
Proof. intros u; subst u. rewrite tie_conv_QU, m2oflist_m2list. apply phiU_real_scaled_unitary. Qed.
Print Assumptions C03_real_scaled_unitary.

(* 6. unit quaternions map to 1, sigma_k and i sigma_k; Pauli::matrix(k) = sigma_k *)
Theorem C03_unit_quaternions :
  unit_H0 (OO:=ROps) = m2list (sigma 0) /\ unit_H1 (OO:=ROps) = m2list (sigma 1) /\
  unit_H2 (OO:=ROps) = m2list (sigma 2) /\ unit_H3 (OO:=ROps) = m2list (sigma 3) /\
  unit_U0 (OO:=ROps) = m2list (sigma 0) /\ unit_U1 (OO:=ROps) = m2list (m2scale ci (sigma 1)) /\
  unit_U2 (OO:=ROps) = m2list (m2scale ci (sigma 2)) /\ unit_U3 (OO:=ROps) = m2list (m2scale ci (sigma 3)) /\
  pauli_matrix0 (OO:=ROps) = m2list (sigma 0) /\ pauli_matrix1 (OO:=ROps) = m2list (sigma 1) /\
  pauli_matrix2 (OO:=ROps) = m2list (sigma 2) /\ pauli_matrix3 (OO:=ROps) = m2list (sigma 3).
Proof.
  repeat split; first [apply tie_unit_H0 | apply tie_unit_H1 | apply tie_unit_H2 | apply tie_unit_H3
    | apply tie_unit_U0 | apply tie_unit_U1 | apply tie_unit_U2 | apply tie_unit_U3
    | apply tie_pauli_matrix0 | apply tie_pauli_matrix1 | apply tie_pauli_matrix2 | apply tie_pauli_matrix3].
Qed.

(* 7. mixed products of quaternions with Jones matrices *)
Theorem C03_mixed_products j00r j00i j01r j01i j10r j10i j11r j11i a0 a1 a2 a3 b0r b0i b1r b1i b2r b2i b3r b3i :
  halves_eq 8 (jones_times_QH (OO:=ROps) j00r j00i j01r j01i j10r j10i j11r j11i a0 a1 a2 a3) /\
  halves_eq 8 (jones_times_QU (OO:=ROps) j00r j00i j01r j01i j10r j10i j11r j11i a0 a1 a2 a3) /\
  halves_eq 8 (jones_times_BH (OO:=ROps) j00r j00i j01r j01i j10r j10i j11r j11i b0r b0i b1r b1i b2r b2i b3r b3i) /\
  halves_eq 8 (jones_times_BU (OO:=ROps) j00r j00i j01r j01i j10r j10i j11r j11i b0r b0i b1r b1i b2r b2i b3r b3i) /\
  halves_eq 8 (QH_times_jones (OO:=ROps) a0 a1 a2 a3 j00r j00i j01r j01i j10r j10i j11r j11i) /\
  halves_eq 8 (QU_times_jones (OO:=ROps) a0 a1 a2 a3 j00r j00i j01r j01i j10r j10i j11r j11i) /\
  halves_eq 8 (QH_times_BU (OO:=ROps) a0 a1 a2 a3 b0r b0i b1r b1i b2r b2i b3r b3i).
Proof.
  repeat split; first [apply law_jones_times_QH | apply law_jones_times_QU | apply law_jones_times_BH | apply law_jones_times_BU
    | apply law_QH_times_jones | apply law_QU_times_jones | apply law_QH_times_BU].
Qed.
Print Assumptions C03_mixed_products.

Example C03_example : cnz (m2det (phiHc (2,0) (1,0) (0,1) (0,0))).
Proof. unfold cnz, phiHc; spec_cbv. Lra.lra. Qed.
