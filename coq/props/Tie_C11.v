(* Tie_C11.v -- every operation on value-with-variance estimates, as generated from
   Estimate.h: the value is the function of the operand values and the variance is
   sum_i (df/dx_i)^2 var_i, the partial derivatives being established with Coquelicot
   (is_derive) on each function's domain. *)
From Coq Require Import Reals Lra List.
From Coquelicot Require Import Coquelicot.
From Epsic Require Import Scalar Gen_C11.
Import ListNotations.
Local Open Scope R_scope.

Definition first_order1 (f : R -> R) (d x vx : R) (l : list R) : Prop :=
  is_derive f x d /\ l = [f x; d * d * vx].
Definition first_order2 (f : R -> R -> R) (dx dy x y vx vy : R) (l : list R) : Prop :=
  is_derive (fun t => f t y) x dx /\ is_derive (fun t => f x t) y dy /\ l = [f x y; dx * dx * vx + dy * dy * vy].

Ltac tie := autounfold with gen; ops_R; list_eq ltac:(first [ ring | field; nz_auto | reflexivity ]).
Ltac der := auto_derive; [ repeat split; try assumption; try lra; auto | try ring; try (field; nz_auto) ].
Ltac in_ball Ht := unfold ball in Ht; cbn in Ht; unfold AbsRing_ball, abs, minus, plus, opp in Ht; cbn in Ht; apply Rabs_def2 in Ht.

Lemma cosh2_minus_sinh2 x : cosh x * cosh x - sinh x * sinh x = 1.
Proof.
  unfold cosh, sinh. replace ((exp x + exp (- x)) / 2 * ((exp x + exp (- x)) / 2) - (exp x - exp (- x)) / 2 * ((exp x - exp (- x)) / 2))
    with (exp x * exp (- x)) by field. rewrite <- exp_plus. replace (x + - x) with 0 by ring. apply exp_0.
Qed.

Lemma tie_e_add x vx y vy : first_order2 Rplus 1 1 x y vx vy (e_add (OO:=ROps) x vx y vy).
Proof. unfold first_order2. conj_split; [ der | der | tie ]. Qed.
Lemma tie_e_sub x vx y vy : first_order2 Rminus 1 (-1) x y vx vy (e_sub (OO:=ROps) x vx y vy).
Proof. unfold first_order2. conj_split; [ der | der | tie ]. Qed.
Lemma tie_e_mul x vx y vy : first_order2 Rmult y x x y vx vy (e_mul (OO:=ROps) x vx y vy).
Proof. unfold first_order2. conj_split; [ der | der | tie ]. Qed.
Lemma tie_e_div x vx y vy : y <> 0 -> first_order2 Rdiv (/ y) (- x / (y * y)) x y vx vy (e_div (OO:=ROps) x vx y vy).
Proof. intros H. unfold first_order2. conj_split; [ der | der | tie ]. Qed.
Lemma tie_e_neg x vx : first_order1 Ropp (-1) x vx (e_neg (OO:=ROps) x vx).
Proof. unfold first_order1. split; [ der | tie ]. Qed.
Lemma tie_e_inverse x vx : x <> 0 -> first_order1 (fun t => 1 / t) (- / (x * x)) x vx (e_inverse (OO:=ROps) x vx).
Proof. intros H. unfold first_order1. split; [ der | tie ]. Qed.
Lemma tie_e_exp x vx : first_order1 exp (exp x) x vx (e_exp (OO:=ROps) x vx).
Proof. unfold first_order1. split; [ apply is_derive_exp | tie ]. Qed.
Lemma tie_e_log x vx : 0 < x -> first_order1 ln (/ x) x vx (e_log (OO:=ROps) x vx).
Proof. intros H. unfold first_order1. split; [ apply is_derive_ln; exact H | assert (x <> 0) by lra; tie ]. Qed.
Lemma tie_e_sqrt x vx : 0 < x -> first_order1 sqrt (/ (2 * sqrt x)) x vx (e_sqrt (OO:=ROps) x vx).
Proof.
  intros H. unfold first_order1. split.
  - der.
  - autounfold with gen; ops_R. rewrite Rabs_right by lra.
    assert (S : sqrt x * sqrt x = x) by (apply sqrt_sqrt; lra). assert (sqrt x <> 0) by (intro E; rewrite E in S; lra).
    apply f_equal2; [reflexivity|]. apply f_equal2; [|reflexivity].
    replace (/ (2 * sqrt x) * / (2 * sqrt x) * vx) with (vx / (4 * (sqrt x * sqrt x))) by (field; assumption).
    rewrite S. field; lra.
Qed.
Lemma tie_e_sin x vx : first_order1 sin (cos x) x vx (e_sin (OO:=ROps) x vx).
Proof. unfold first_order1. split; [ apply is_derive_sin | tie ]. Qed.
Lemma tie_e_cos x vx : first_order1 cos (- sin x) x vx (e_cos (OO:=ROps) x vx).
Proof. unfold first_order1. split; [ apply is_derive_cos | tie ]. Qed.
Lemma tie_e_acos x vx : -1 < x < 1 -> first_order1 acos (-1 / sqrt (1 - x * x)) x vx (e_acos (OO:=ROps) x vx).
Proof.
  intros H. unfold first_order1. split.
  - apply is_derive_Reals. pose proof (derive_pt_acos x H) as D. unfold Rsqr in D.
    apply (derive_pt_eq_1 _ _ _ _ D).
  - assert (P : 0 < 1 - x * x) by nra. assert (sqrt (1 - x * x) <> 0) by (apply Rgt_not_eq, sqrt_lt_R0; exact P).
    autounfold with gen; ops_R. list_eq ltac:(first [ ring | field; assumption | reflexivity ]).
Qed.
Lemma tie_e_atan x vx : first_order1 atan (/ (1 + x * x)) x vx (e_atan (OO:=ROps) x vx).
Proof.
  unfold first_order1. split; [ pose proof (is_derive_atan x) as D; unfold Rsqr in D; exact D | ].
  assert (1 + x * x <> 0) by nra. tie.
Qed.
Lemma tie_e_sinh x vx : first_order1 sinh (cosh x) x vx (e_sinh (OO:=ROps) x vx).
Proof.
  unfold first_order1. split; [ apply is_derive_Reals, derivable_pt_lim_sinh | ].
  autounfold with gen; ops_R. pose proof (cosh2_minus_sinh2 x) as H.
  apply f_equal2; [reflexivity|]. apply f_equal2; [|reflexivity]. replace (1 + sinh x * sinh x) with (cosh x * cosh x) by lra. ring.
Qed.
Lemma tie_e_cosh x vx : first_order1 cosh (sinh x) x vx (e_cosh (OO:=ROps) x vx).
Proof. unfold first_order1. split; [ apply is_derive_Reals, derivable_pt_lim_cosh | tie ]. Qed.
Lemma tie_e_atanh x vx : -1 < x < 1 -> first_order1 Ratanh (/ (1 - x * x)) x vx (e_atanh (OO:=ROps) x vx).
Proof.
  intros H. unfold first_order1. split.
  - unfold Ratanh. auto_derive.
    + repeat split; try lra. apply Rdiv_lt_0_compat; lra.
    + field. repeat split; nra.
  - assert (1 - x * x <> 0) by nra. tie.
Qed.
(* atan2 (s, c) on the half plane c > 0, where it is atan (s / c) *)
Lemma tie_e_atan2 s vs c vc : 0 < c ->
  first_order2 Ratan2 (c / (c * c + s * s)) (- s / (c * c + s * s)) s c vs vc (e_atan2 (OO:=ROps) s vs c vc).
Proof.
  intros H. unfold first_order2. assert (N : c * c + s * s <> 0) by nra. conj_split.
  - apply (is_derive_ext (fun t => atan (t / c))).
    + intros t. unfold Ratan2. destruct (Rlt_dec 0 c); [reflexivity | contradiction].
    + auto_derive; [ lra | unfold Rsqr; field; split; [ nra | lra ] ].
  - apply (is_derive_ext_loc (fun t => atan (s / t))).
    + exists (mkposreal c H). intros t Ht. in_ball Ht. unfold Ratan2. destruct (Rlt_dec 0 t); [reflexivity | exfalso; lra].
    + auto_derive; [ lra | unfold Rsqr; field; split; [ nra | lra ] ].
  - tie.
Qed.
(* copysign (u, v) for u > 0 and v <> 0: |d/du| = 1, d/dv = 0 *)
Lemma tie_e_copysign u vu v vv : 0 < u -> v <> 0 ->
  exists d, d * d = 1 /\ first_order2 Rcopysign d 0 u v vu vv (e_copysign (OO:=ROps) u vu v vv).
Proof.
  intros Hu Hv. unfold first_order2.
  destruct (Rle_dec 0 v) as [Hp|Hn].
  - exists 1. split; [ring|]. assert (Hv0 : 0 < v) by lra. conj_split.
    + apply (is_derive_ext_loc (fun t => t)).
      * exists (mkposreal u Hu). intros t Ht. in_ball Ht. unfold Rcopysign.
        destruct (Rle_dec 0 v); [ rewrite Rabs_right; [reflexivity | cbn in Ht; lra] | contradiction ].
      * der.
    + apply (is_derive_ext_loc (fun t => Rabs u)).
      * exists (mkposreal v Hv0). intros t Ht. in_ball Ht. unfold Rcopysign. destruct (Rle_dec 0 t); [reflexivity | exfalso; cbn in Ht; lra].
      * der.
    + autounfold with gen; ops_R. list_eq ltac:(first [ reflexivity | ring ]).
  - exists (-1). split; [ring|]. assert (v < 0) by lra. conj_split.
    + apply (is_derive_ext_loc (fun t => - t)).
      * exists (mkposreal u Hu). intros t Ht. in_ball Ht. unfold Rcopysign.
        destruct (Rle_dec 0 v); [ contradiction | rewrite Rabs_right; [reflexivity | cbn in Ht; lra] ].
      * der.
    + assert (Hv' : 0 < - v) by lra. apply (is_derive_ext_loc (fun t => - Rabs u)).
      * exists (mkposreal (- v) Hv'). intros t Ht. in_ball Ht. unfold Rcopysign. destruct (Rle_dec 0 t); [exfalso; cbn in Ht; lra | reflexivity].
      * der.
    + autounfold with gen; ops_R. list_eq ltac:(first [ reflexivity | ring ]).
Qed.

(* product of complex estimates with independent parts: each output is a first-order sum over the four inputs *)
Lemma tie_e_cmul a va b vb c vc d vd :
  e_cmul (OO:=ROps) a va b vb c vc d vd =
  [a * c - b * d; c * c * va + a * a * vc + (d * d * vb + b * b * vd);
   a * d + b * c; d * d * va + a * a * vd + (c * c * vb + b * b * vc)].
Proof. tie. Qed.
