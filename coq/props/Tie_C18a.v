(* Tie_C18a.v -- the real BoxMuller.C (float arithmetic = identity over R), run
   on scripted uniform streams u0, u1, ..., returns exactly what the stream model
   of BoxMullerModel returns, under the path condition of each script; and the
   real random.C returns r / RAND_MAX. *)
From Coq Require Import Reals Lra List.
From Epsic Require Import Scalar BoxMullerModel Gen_C18a.
Import ListNotations.
Local Open Scope R_scope.

Ltac deep := first [ ring | field | (apply f_equal; deep) | (apply f_equal2; deep) ].
Ltac bm := intros PC; autounfold with gen in *; ops_R; ops_R_in PC;
  cbn [run draw option_map];
  repeat (match goal with |- context [accepted_dec ?p] =>
            let A := fresh "A" in destruct (accepted_dec p) as [A|A]; unfold accepted, w_of, v_of in A; cbn [fst snd] in A;
            cbn [run draw option_map fst snd] end);
  try solve [exfalso; first [lra | tauto | match goal with H : ~ (_ /\ _) |- _ => apply H; split; lra end]];
  f_equal; unfold polar, factor, w_of, v_of; cbn [fst snd app]; list_eq deep.

Lemma tie_bm_A_1 u0 u1 : bm_A_1_pc (OO:=ROps) u0 u1 ->
  option_map (fun o => o ++ [2]) (run 1 None [(u0, u1)]) = Some (bm_A_1 (OO:=ROps) u0 u1).
Proof. bm. Qed.

Lemma tie_bm_A_2 u0 u1 : bm_A_2_pc (OO:=ROps) u0 u1 ->
  option_map (fun o => o ++ [2]) (run 2 None [(u0, u1)]) = Some (bm_A_2 (OO:=ROps) u0 u1).
Proof. bm. Qed.

Lemma tie_bm_AA_4 u0 u1 u2 u3 : bm_AA_4_pc (OO:=ROps) u0 u1 u2 u3 ->
  option_map (fun o => o ++ [4]) (run 4 None [(u0, u1); (u2, u3)]) = Some (bm_AA_4 (OO:=ROps) u0 u1 u2 u3).
Proof. bm. Qed.

Lemma tie_bm_AA_3 u0 u1 u2 u3 : bm_AA_3_pc (OO:=ROps) u0 u1 u2 u3 ->
  option_map (fun o => o ++ [4]) (run 3 None [(u0, u1); (u2, u3)]) = Some (bm_AA_3 (OO:=ROps) u0 u1 u2 u3).
Proof. bm. Qed.

Lemma tie_bm_RA_2 u0 u1 u2 u3 : bm_RA_2_pc (OO:=ROps) u0 u1 u2 u3 ->
  option_map (fun o => o ++ [4]) (run 2 None [(u0, u1); (u2, u3)]) = Some (bm_RA_2 (OO:=ROps) u0 u1 u2 u3).
Proof. bm. Qed.

Lemma tie_bm_RRA_2 u0 u1 u2 u3 u4 u5 : bm_RRA_2_pc (OO:=ROps) u0 u1 u2 u3 u4 u5 ->
  option_map (fun o => o ++ [6]) (run 2 None [(u0, u1); (u2, u3); (u4, u5)]) = Some (bm_RRA_2 (OO:=ROps) u0 u1 u2 u3 u4 u5).
Proof. bm. Qed.

Lemma tie_bm_RRRRA_1 u0 u1 u2 u3 u4 u5 u6 u7 u8 u9 : bm_RRRRA_1_pc (OO:=ROps) u0 u1 u2 u3 u4 u5 u6 u7 u8 u9 ->
  option_map (fun o => o ++ [10]) (run 1 None [(u0, u1); (u2, u3); (u4, u5); (u6, u7); (u8, u9)]) = Some (bm_RRRRA_1 (OO:=ROps) u0 u1 u2 u3 u4 u5 u6 u7 u8 u9).
Proof. bm. Qed.

Lemma tie_bm_ARA_4 u0 u1 u2 u3 u4 u5 : bm_ARA_4_pc (OO:=ROps) u0 u1 u2 u3 u4 u5 ->
  option_map (fun o => o ++ [6]) (run 4 None [(u0, u1); (u2, u3); (u4, u5)]) = Some (bm_ARA_4 (OO:=ROps) u0 u1 u2 u3 u4 u5).
Proof. bm. Qed.

Lemma tie_bm_ARRA_3 u0 u1 u2 u3 u4 u5 u6 u7 : bm_ARRA_3_pc (OO:=ROps) u0 u1 u2 u3 u4 u5 u6 u7 ->
  option_map (fun o => o ++ [8]) (run 3 None [(u0, u1); (u2, u3); (u4, u5); (u6, u7)]) = Some (bm_ARRA_3 (OO:=ROps) u0 u1 u2 u3 u4 u5 u6 u7).
Proof. bm. Qed.

Lemma tie_bm_near1_2 u0 u1 : bm_near1_2_pc (OO:=ROps) u0 u1 ->
  option_map (fun o => o ++ [2]) (run 2 None [(u0, u1)]) = Some (bm_near1_2 (OO:=ROps) u0 u1).
Proof. bm. Qed.

Lemma tie_bm_on1_RA_2 u0 u1 u2 u3 : bm_on1_RA_2_pc (OO:=ROps) u0 u1 u2 u3 ->
  option_map (fun o => o ++ [4]) (run 2 None [(u0, u1); (u2, u3)]) = Some (bm_on1_RA_2 (OO:=ROps) u0 u1 u2 u3).
Proof. bm. Qed.

Lemma tie_bm_origin_RA_2 u0 u1 u2 u3 : bm_origin_RA_2_pc (OO:=ROps) u0 u1 u2 u3 ->
  option_map (fun o => o ++ [4]) (run 2 None [(u0, u1); (u2, u3)]) = Some (bm_origin_RA_2 (OO:=ROps) u0 u1 u2 u3).
Proof. bm. Qed.

(* two generators a, b interleaved over one uniform source: each one's outputs are the
   model's outputs over the sub-stream that generator consumed, and each keeps its own cached deviate *)
Lemma tie_bm_interleaved u0 u1 u2 u3 u4 u5 u6 u7 u8 u9 : bm_interleaved_pc (OO:=ROps) u0 u1 u2 u3 u4 u5 u6 u7 u8 u9 ->
  match run 3 None [(u0,u1); (u8,u9)], run 3 None [(u2,u3); (u4,u5); (u6,u7)] with
  | Some [a0; a1; a2], Some [b0; b1; b2] => Some [a0; b0; a1; b1; b2; a2; 10]
  | _, _ => None
  end = Some (bm_interleaved (OO:=ROps) u0 u1 u2 u3 u4 u5 u6 u7 u8 u9).
Proof. bm. Qed.

Lemma tie_random_double_r0 : random_double_r0 (OO:=ROps) = [IZR 0 / IZR 2147483647].
Proof. autounfold with gen; ops_R; reflexivity. Qed.

Lemma tie_random_double_r1 : random_double_r1 (OO:=ROps) = [IZR 1 / IZR 2147483647].
Proof. autounfold with gen; ops_R; reflexivity. Qed.

Lemma tie_random_double_r12345 : random_double_r12345 (OO:=ROps) = [IZR 12345 / IZR 2147483647].
Proof. autounfold with gen; ops_R; reflexivity. Qed.

Lemma tie_random_double_r1073741823 : random_double_r1073741823 (OO:=ROps) = [IZR 1073741823 / IZR 2147483647].
Proof. autounfold with gen; ops_R; reflexivity. Qed.

Lemma tie_random_double_r1073741824 : random_double_r1073741824 (OO:=ROps) = [IZR 1073741824 / IZR 2147483647].
Proof. autounfold with gen; ops_R; reflexivity. Qed.

Lemma tie_random_double_r2147483646 : random_double_r2147483646 (OO:=ROps) = [IZR 2147483646 / IZR 2147483647].
Proof. autounfold with gen; ops_R; reflexivity. Qed.

Lemma tie_random_double_r2147483647 : random_double_r2147483647 (OO:=ROps) = [IZR 2147483647 / IZR 2147483647].
Proof. autounfold with gen; ops_R; reflexivity. Qed.
