(* Tie_C10_c1.v -- complex Jacobi rotation with a zero off-diagonal element (never passed by the Jacobi loop): ascending diagonal, the eigenvalues are exchanged; equal diagonal, nothing moves *)
From Coq Require Import Reals Lra List.
From Epsic Require Import Scalar Gen_C10 Tie_C10.
Import ListNotations.
Local Open Scope R_scope.

Lemma tie_jrot2c_p0111 p q x y : jrot2c_p0111_pc (OO:=ROps) p q x y -> jc_spec p q x y (jrot2c_p0111 (OO:=ROps) p q x y).
Proof.
  unfold jc_spec. autounfold with gen; ops_R. cbv beta iota zeta delta [nth firstn skipn].
  set (sq := 1 / 2 * (p - q)) in *. rewrite ?(hyp_pnorm sq x (- y)). intros [Hp [Hq [Hx Hy]]].
  assert (Ep : p = q + 2 * sq) by (unfold sq; field). clearbody sq. subst p.
  assert (Zy : y = 0) by lra. subst x y.
  pose proof (pnorm_sq sq 0 (- 0)) as Sp. pose proof (pnorm_ge sq 0 (- 0)) as Pp.
  assert (EP : pnorm sq 0 (- 0) = - sq) by nra. rewrite !EP.
  assert (Er : sqrt (2 * - sq * (- sq - sq)) = - 2 * sq).
  { replace (2 * - sq * (- sq - sq)) with ((- 2 * sq) * (- 2 * sq)) by ring. apply sqrt_square. lra. }
  rewrite !Er. assert (N : sq <> 0) by lra.
  conj_split; [ list_eq ltac:(first [ reflexivity | field; exact N ]) .. | | ]; field; exact N.
Qed.

Lemma tie_jrot2c_p1 p q x y : jrot2c_p1_pc (OO:=ROps) p q x y -> jc_spec p q x y (jrot2c_p1 (OO:=ROps) p q x y).
Proof.
  unfold jc_spec. autounfold with gen; ops_R. cbv beta iota zeta delta [nth firstn skipn].
  set (sq := 1 / 2 * (p - q)) in *. rewrite ?(hyp_pnorm sq x (- y)). intros Hp.
  assert (Ep : p = q + 2 * sq) by (unfold sq; field). clearbody sq. subst p.
  pose proof (pnorm_sq sq x (- y)) as Sp. rewrite Hp in Sp.
  assert (Z1 : sq = 0) by nra. assert (Z2 : x = 0) by nra. assert (Z3 : y = 0) by nra. subst sq x y.
  conj_split; [ list_eq ltac:(first [ reflexivity | field ]) .. | | ]; field.
Qed.
