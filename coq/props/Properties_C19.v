(* Properties_C19.v -- C19: text output of values parses back to the same value.
   The printers/parsers are the hand-written model TextIO.v; it is tied to the real extraction
   operators by the differential correspondence harness/corr_C19.py (same strings through the model,
   evaluated inside Coq, and through the compiled operators). *)
From Coq Require Import String Ascii List ZArith QArith.
From Epsic Require Import TextIO.
Import ListNotations.
Local Open Scope string_scope.

(* vectors of any length over any element type whose own text round-trips *)
Theorem C19_vector_roundtrip (E : Type) (ps : string -> option (E * string)) (pr : E -> string) :
  (forall x rest, follows_ok rest -> ps (pr x ++ rest) = Some (x, rest)) ->
  forall x t rest, parse_vec E ps (length (x :: t)) (print_vec E pr (x :: t) ++ rest) = Some (x :: t, rest).
Proof. intros H x t rest. apply parse_print_vec. exact H. Qed.
Print Assumptions C19_vector_roundtrip.

(* estimates: same value and same standard error; nested Vector<Estimate>; for every number printer
   precise enough to round-trip *)
Theorem C19_estimate_roundtrip (pn : Q -> string) :
  (forall q rest, stops_number rest -> parse_num (pn q ++ rest) = Some (q, rest)) ->
  forall ve rest, parse_estimate (print_estimate pn ve ++ rest) = Some (ve, rest).
Proof. intros H ve rest. apply parse_print_estimate. exact H. Qed.
Theorem C19_vector_of_estimates_roundtrip (pn : Q -> string) :
  (forall q rest, stops_number rest -> parse_num (pn q ++ rest) = Some (q, rest)) ->
  forall x t rest,
  parse_vec (Q * Q) parse_estimate (length (x :: t)) (print_vec (Q * Q) (print_estimate pn) (x :: t) ++ rest) = Some (x :: t, rest).
Proof. intros H x t rest. apply parse_print_vector_of_estimates. exact H. Qed.
Print Assumptions C19_vector_of_estimates_roundtrip.

(* conventions: every documented spelling, the printed forms, numeric codes; malformed text fails *)
Theorem C19_vector_of_complex_roundtrip (pn : Q -> string) :
  (forall q rest, stops_number rest -> parse_num (pn q ++ rest) = Some (q, rest)) ->
  forall x t rest,
  parse_vec (Q * Q) parse_complex (length (x :: t)) (print_vec (Q * Q) (print_complex pn) (x :: t) ++ rest) = Some (x :: t, rest).
Proof. intros H x t rest. apply parse_print_vector_of_complex. exact H. Qed.
Print Assumptions C19_vector_of_complex_roundtrip.
Theorem C19_basis rest b : ws_or_end rest = true ->
  parse_basis (print_basis b ++ rest) = Some (Some b, rest) /\
  parse_basis ("Linear" ++ rest) = Some (Some Linear, rest) /\ parse_basis ("circ" ++ rest) = Some (Some Circular, rest) /\
  parse_basis ("Circular" ++ rest) = Some (Some Circular, rest) /\ parse_basis ("Elliptical" ++ rest) = Some (Some Elliptical, rest).
Proof.
  intros H. destruct (basis_spellings rest H) as [_ [A [_ [B [C [_ D]]]]]].
  split; [apply basis_roundtrip; exact H | tauto].
Qed.
Theorem C19_basis_codes_and_malformed :
  parse_basis "0" = Some (Some Circular, "") /\ parse_basis "1" = Some (Some Linear, "") /\ parse_basis "2" = Some (Some Elliptical, "") /\
  parse_basis "7" = None /\ parse_basis "-1" = None /\ parse_basis "li" = None.
Proof. exact basis_codes. Qed.
Theorem C19_hand_argument :
  parse_pm1 (print_pm1 1) = Some (1%Z, "") /\ parse_pm1 (print_pm1 (-1)) = Some ((-1)%Z, "") /\
  parse_pm1 "1" = Some (1%Z, "") /\ parse_pm1 "0" = None /\ parse_pm1 "2" = None /\ parse_pm1 "x" = None.
Proof. exact pm1_roundtrip. Qed.
(* a failed estimate extraction delivers no value (the destination is written only on success) *)
Theorem C19_failed_estimate_no_value :
  parse_estimate "(1.5+0.25)" = None /\ parse_estimate "(1.5+-0.25" = None /\ parse_estimate "1.5-+0.25" = None /\ parse_estimate "" = None.
Proof. repeat split; vm_compute; reflexivity. Qed.
Print Assumptions C19_basis.
