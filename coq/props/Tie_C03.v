(* Tie_C03.v -- GENERATED ONCE by harness/gen_tie_C03.py and committed.
   LAW: for every operation the Jones image of the quaternion-side result (first
   half of the generated list) equals the same operation on the Jones images
   (second half), for all component values.  TIE: convert(q) is the spec map
   phiHc / phiUc of SpecJones. *)
From Coq Require Import Reals Lra List.
From Epsic Require Import Scalar SpecPauli SpecJones Gen_C03.
Import ListNotations.
Local Open Scope R_scope.

Definition halves_eq (n : nat) (l : list R) : Prop := firstn n l = skipn n l.

Ltac prep := intros; unfold cnz, phiHc, phiUc in *;
  repeat match goal with H : _ <> _ |- _ => progress spec_cbv_in H end.
Ltac nz_sq := repeat split;
  match goal with |- _ <> _ =>
    first [ assumption | lra | match goal with H : _ <> _ |- _ => solve [nz_from H] end
          | match goal with H : _ <> _ |- _ => let E := fresh "E" in intro E; apply H; nra end ] end.
Ltac solve_entry := first [ reflexivity | ring | field; nz_sq ].
Ltac law := prep; unfold halves_eq; autounfold with gen; ops_R; cbn [firstn skipn]; list_eq solve_entry.
Ltac tie := prep; autounfold with gen; ops_R; unfold sigma; spec_cbv; list_eq solve_entry.

Lemma law_add_BH a0r a0i a1r a1i a2r a2i a3r a3i b0r b0i b1r b1i b2r b2i b3r b3i :
  halves_eq 8 (add_BH (OO:=ROps) a0r a0i a1r a1i a2r a2i a3r a3i b0r b0i b1r b1i b2r b2i b3r b3i).
Proof. law. Qed.

Lemma law_sub_BH a0r a0i a1r a1i a2r a2i a3r a3i b0r b0i b1r b1i b2r b2i b3r b3i :
  halves_eq 8 (sub_BH (OO:=ROps) a0r a0i a1r a1i a2r a2i a3r a3i b0r b0i b1r b1i b2r b2i b3r b3i).
Proof. law. Qed.

Lemma law_neg_BH a0r a0i a1r a1i a2r a2i a3r a3i :
  halves_eq 8 (neg_BH (OO:=ROps) a0r a0i a1r a1i a2r a2i a3r a3i).
Proof. law. Qed.

Lemma law_det_BH a0r a0i a1r a1i a2r a2i a3r a3i :
  halves_eq 2 (det_BH (OO:=ROps) a0r a0i a1r a1i a2r a2i a3r a3i).
Proof. law. Qed.

Lemma law_trace_BH a0r a0i a1r a1i a2r a2i a3r a3i :
  halves_eq 2 (trace_BH (OO:=ROps) a0r a0i a1r a1i a2r a2i a3r a3i).
Proof. law. Qed.

Lemma law_norm_BH a0r a0i a1r a1i a2r a2i a3r a3i :
  halves_eq 1 (norm_BH (OO:=ROps) a0r a0i a1r a1i a2r a2i a3r a3i).
Proof. law. Qed.

Lemma law_conj_BH a0r a0i a1r a1i a2r a2i a3r a3i :
  halves_eq 8 (conj_BH (OO:=ROps) a0r a0i a1r a1i a2r a2i a3r a3i).
Proof. law. Qed.

Lemma law_herm_BH a0r a0i a1r a1i a2r a2i a3r a3i :
  halves_eq 8 (herm_BH (OO:=ROps) a0r a0i a1r a1i a2r a2i a3r a3i).
Proof. law. Qed.

Lemma law_inv_BH a0r a0i a1r a1i a2r a2i a3r a3i (H0 : cnz (m2det (phiHc (a0r, a0i) (a1r, a1i) (a2r, a2i) (a3r, a3i)))) :
  halves_eq 8 (inv_BH (OO:=ROps) a0r a0i a1r a1i a2r a2i a3r a3i).
Proof. law. Qed.

Lemma law_jones_times_BH j00r j00i j01r j01i j10r j10i j11r j11i a0r a0i a1r a1i a2r a2i a3r a3i :
  halves_eq 8 (jones_times_BH (OO:=ROps) j00r j00i j01r j01i j10r j10i j11r j11i a0r a0i a1r a1i a2r a2i a3r a3i).
Proof. law. Qed.

Lemma law_add_BU a0r a0i a1r a1i a2r a2i a3r a3i b0r b0i b1r b1i b2r b2i b3r b3i :
  halves_eq 8 (add_BU (OO:=ROps) a0r a0i a1r a1i a2r a2i a3r a3i b0r b0i b1r b1i b2r b2i b3r b3i).
Proof. law. Qed.

Lemma law_sub_BU a0r a0i a1r a1i a2r a2i a3r a3i b0r b0i b1r b1i b2r b2i b3r b3i :
  halves_eq 8 (sub_BU (OO:=ROps) a0r a0i a1r a1i a2r a2i a3r a3i b0r b0i b1r b1i b2r b2i b3r b3i).
Proof. law. Qed.

Lemma law_neg_BU a0r a0i a1r a1i a2r a2i a3r a3i :
  halves_eq 8 (neg_BU (OO:=ROps) a0r a0i a1r a1i a2r a2i a3r a3i).
Proof. law. Qed.

Lemma law_det_BU a0r a0i a1r a1i a2r a2i a3r a3i :
  halves_eq 2 (det_BU (OO:=ROps) a0r a0i a1r a1i a2r a2i a3r a3i).
Proof. law. Qed.

Lemma law_trace_BU a0r a0i a1r a1i a2r a2i a3r a3i :
  halves_eq 2 (trace_BU (OO:=ROps) a0r a0i a1r a1i a2r a2i a3r a3i).
Proof. law. Qed.

Lemma law_norm_BU a0r a0i a1r a1i a2r a2i a3r a3i :
  halves_eq 1 (norm_BU (OO:=ROps) a0r a0i a1r a1i a2r a2i a3r a3i).
Proof. law. Qed.

Lemma law_conj_BU a0r a0i a1r a1i a2r a2i a3r a3i :
  halves_eq 8 (conj_BU (OO:=ROps) a0r a0i a1r a1i a2r a2i a3r a3i).
Proof. law. Qed.

Lemma law_herm_BU a0r a0i a1r a1i a2r a2i a3r a3i :
  halves_eq 8 (herm_BU (OO:=ROps) a0r a0i a1r a1i a2r a2i a3r a3i).
Proof. law. Qed.

Lemma law_inv_BU a0r a0i a1r a1i a2r a2i a3r a3i (H0 : cnz (m2det (phiUc (a0r, a0i) (a1r, a1i) (a2r, a2i) (a3r, a3i)))) :
  halves_eq 8 (inv_BU (OO:=ROps) a0r a0i a1r a1i a2r a2i a3r a3i).
Proof. law. Qed.

Lemma law_jones_times_BU j00r j00i j01r j01i j10r j10i j11r j11i a0r a0i a1r a1i a2r a2i a3r a3i :
  halves_eq 8 (jones_times_BU (OO:=ROps) j00r j00i j01r j01i j10r j10i j11r j11i a0r a0i a1r a1i a2r a2i a3r a3i).
Proof. law. Qed.

Lemma law_add_QH a0 a1 a2 a3 b0 b1 b2 b3 :
  halves_eq 8 (add_QH (OO:=ROps) a0 a1 a2 a3 b0 b1 b2 b3).
Proof. law. Qed.

Lemma law_sub_QH a0 a1 a2 a3 b0 b1 b2 b3 :
  halves_eq 8 (sub_QH (OO:=ROps) a0 a1 a2 a3 b0 b1 b2 b3).
Proof. law. Qed.

Lemma law_neg_QH a0 a1 a2 a3 :
  halves_eq 8 (neg_QH (OO:=ROps) a0 a1 a2 a3).
Proof. law. Qed.

Lemma law_det_QH a0 a1 a2 a3 :
  halves_eq 2 (det_QH (OO:=ROps) a0 a1 a2 a3).
Proof. law. Qed.

Lemma law_trace_QH a0 a1 a2 a3 :
  halves_eq 2 (trace_QH (OO:=ROps) a0 a1 a2 a3).
Proof. law. Qed.

Lemma law_norm_QH a0 a1 a2 a3 :
  halves_eq 1 (norm_QH (OO:=ROps) a0 a1 a2 a3).
Proof. law. Qed.

Lemma law_conj_QH a0 a1 a2 a3 :
  halves_eq 8 (conj_QH (OO:=ROps) a0 a1 a2 a3).
Proof. law. Qed.

Lemma law_herm_QH a0 a1 a2 a3 :
  halves_eq 8 (herm_QH (OO:=ROps) a0 a1 a2 a3).
Proof. law. Qed.

Lemma law_inv_QH a0 a1 a2 a3 (H0 : a0 * a0 - a1 * a1 - a2 * a2 - a3 * a3 <> 0) :
  halves_eq 8 (inv_QH (OO:=ROps) a0 a1 a2 a3).
Proof. law. Qed.

Lemma law_jones_times_QH j00r j00i j01r j01i j10r j10i j11r j11i a0 a1 a2 a3 :
  halves_eq 8 (jones_times_QH (OO:=ROps) j00r j00i j01r j01i j10r j10i j11r j11i a0 a1 a2 a3).
Proof. law. Qed.

Lemma law_add_QU a0 a1 a2 a3 b0 b1 b2 b3 :
  halves_eq 8 (add_QU (OO:=ROps) a0 a1 a2 a3 b0 b1 b2 b3).
Proof. law. Qed.

Lemma law_sub_QU a0 a1 a2 a3 b0 b1 b2 b3 :
  halves_eq 8 (sub_QU (OO:=ROps) a0 a1 a2 a3 b0 b1 b2 b3).
Proof. law. Qed.

Lemma law_neg_QU a0 a1 a2 a3 :
  halves_eq 8 (neg_QU (OO:=ROps) a0 a1 a2 a3).
Proof. law. Qed.

Lemma law_det_QU a0 a1 a2 a3 :
  halves_eq 2 (det_QU (OO:=ROps) a0 a1 a2 a3).
Proof. law. Qed.

Lemma law_trace_QU a0 a1 a2 a3 :
  halves_eq 2 (trace_QU (OO:=ROps) a0 a1 a2 a3).
Proof. law. Qed.

Lemma law_norm_QU a0 a1 a2 a3 :
  halves_eq 1 (norm_QU (OO:=ROps) a0 a1 a2 a3).
Proof. law. Qed.

Lemma law_conj_QU a0 a1 a2 a3 :
  halves_eq 8 (conj_QU (OO:=ROps) a0 a1 a2 a3).
Proof. law. Qed.

Lemma law_herm_QU a0 a1 a2 a3 :
  halves_eq 8 (herm_QU (OO:=ROps) a0 a1 a2 a3).
Proof. law. Qed.

Lemma law_inv_QU a0 a1 a2 a3 (H0 : a0 * a0 + a1 * a1 + a2 * a2 + a3 * a3 <> 0) :
  halves_eq 8 (inv_QU (OO:=ROps) a0 a1 a2 a3).
Proof. law. Qed.

Lemma law_jones_times_QU j00r j00i j01r j01i j10r j10i j11r j11i a0 a1 a2 a3 :
  halves_eq 8 (jones_times_QU (OO:=ROps) j00r j00i j01r j01i j10r j10i j11r j11i a0 a1 a2 a3).
Proof. law. Qed.

Lemma law_identity_QH  :
  halves_eq 8 (identity_QH (OO:=ROps) ).
Proof. law. Qed.

Lemma law_identity_QU  :
  halves_eq 8 (identity_QU (OO:=ROps) ).
Proof. law. Qed.

Lemma law_mul_BH a0r a0i a1r a1i a2r a2i a3r a3i b0r b0i b1r b1i b2r b2i b3r b3i :
  halves_eq 8 (mul_BH (OO:=ROps) a0r a0i a1r a1i a2r a2i a3r a3i b0r b0i b1r b1i b2r b2i b3r b3i).
Proof. law. Qed.

Lemma law_mul_BU a0r a0i a1r a1i a2r a2i a3r a3i b0r b0i b1r b1i b2r b2i b3r b3i :
  halves_eq 8 (mul_BU (OO:=ROps) a0r a0i a1r a1i a2r a2i a3r a3i b0r b0i b1r b1i b2r b2i b3r b3i).
Proof. law. Qed.

Lemma law_mul_QU a0 a1 a2 a3 b0 b1 b2 b3 :
  halves_eq 8 (mul_QU (OO:=ROps) a0 a1 a2 a3 b0 b1 b2 b3).
Proof. law. Qed.

Lemma law_scale_BH a0r a0i a1r a1i a2r a2i a3r a3i zr zi :
  halves_eq 8 (scale_BH (OO:=ROps) a0r a0i a1r a1i a2r a2i a3r a3i zr zi).
Proof. law. Qed.

Lemma law_scale_BU a0r a0i a1r a1i a2r a2i a3r a3i zr zi :
  halves_eq 8 (scale_BU (OO:=ROps) a0r a0i a1r a1i a2r a2i a3r a3i zr zi).
Proof. law. Qed.

Lemma law_scale_QH a0 a1 a2 a3 r :
  halves_eq 8 (scale_QH (OO:=ROps) a0 a1 a2 a3 r).
Proof. law. Qed.

Lemma law_scale_QU a0 a1 a2 a3 r :
  halves_eq 8 (scale_QU (OO:=ROps) a0 a1 a2 a3 r).
Proof. law. Qed.

Lemma law_div_QU a0 a1 a2 a3 r (H0 : r <> 0) :
  halves_eq 8 (div_QU (OO:=ROps) a0 a1 a2 a3 r).
Proof. law. Qed.

Lemma law_div_BH a0r a0i a1r a1i a2r a2i a3r a3i zr zi (H0 : zr * zr + zi * zi <> 0) :
  halves_eq 8 (div_BH (OO:=ROps) a0r a0i a1r a1i a2r a2i a3r a3i zr zi).
Proof. law. Qed.

Lemma law_QH_times_jones a0 a1 a2 a3 j00r j00i j01r j01i j10r j10i j11r j11i :
  halves_eq 8 (QH_times_jones (OO:=ROps) a0 a1 a2 a3 j00r j00i j01r j01i j10r j10i j11r j11i).
Proof. law. Qed.

Lemma law_QU_times_jones a0 a1 a2 a3 j00r j00i j01r j01i j10r j10i j11r j11i :
  halves_eq 8 (QU_times_jones (OO:=ROps) a0 a1 a2 a3 j00r j00i j01r j01i j10r j10i j11r j11i).
Proof. law. Qed.

Lemma law_QH_times_QU a0 a1 a2 a3 b0 b1 b2 b3 :
  halves_eq 8 (QH_times_QU (OO:=ROps) a0 a1 a2 a3 b0 b1 b2 b3).
Proof. law. Qed.

Lemma law_QU_times_QH a0 a1 a2 a3 b0 b1 b2 b3 :
  halves_eq 8 (QU_times_QH (OO:=ROps) a0 a1 a2 a3 b0 b1 b2 b3).
Proof. law. Qed.

Lemma law_QH_times_QH a0 a1 a2 a3 b0 b1 b2 b3 :
  halves_eq 8 (QH_times_QH (OO:=ROps) a0 a1 a2 a3 b0 b1 b2 b3).
Proof. law. Qed.

Lemma law_QH_times_BU a0 a1 a2 a3 b0r b0i b1r b1i b2r b2i b3r b3i :
  halves_eq 8 (QH_times_BU (OO:=ROps) a0 a1 a2 a3 b0r b0i b1r b1i b2r b2i b3r b3i).
Proof. law. Qed.

Lemma law_roundtrip_jones_H j00r j00i j01r j01i j10r j10i j11r j11i :
  halves_eq 8 (roundtrip_jones_H (OO:=ROps) j00r j00i j01r j01i j10r j10i j11r j11i).
Proof. law. Qed.

Lemma law_roundtrip_jones_U j00r j00i j01r j01i j10r j10i j11r j11i :
  halves_eq 8 (roundtrip_jones_U (OO:=ROps) j00r j00i j01r j01i j10r j10i j11r j11i).
Proof. law. Qed.

Lemma law_roundtrip_BH a0r a0i a1r a1i a2r a2i a3r a3i :
  halves_eq 8 (roundtrip_BH (OO:=ROps) a0r a0i a1r a1i a2r a2i a3r a3i).
Proof. law. Qed.

Lemma law_roundtrip_BU a0r a0i a1r a1i a2r a2i a3r a3i :
  halves_eq 8 (roundtrip_BU (OO:=ROps) a0r a0i a1r a1i a2r a2i a3r a3i).
Proof. law. Qed.

Lemma tie_conv_BH a0r a0i a1r a1i a2r a2i a3r a3i :
  conv_BH (OO:=ROps) a0r a0i a1r a1i a2r a2i a3r a3i = m2list (phiHc (a0r, a0i) (a1r, a1i) (a2r, a2i) (a3r, a3i)).
Proof. tie. Qed.

Lemma tie_conv_BU a0r a0i a1r a1i a2r a2i a3r a3i :
  conv_BU (OO:=ROps) a0r a0i a1r a1i a2r a2i a3r a3i = m2list (phiUc (a0r, a0i) (a1r, a1i) (a2r, a2i) (a3r, a3i)).
Proof. tie. Qed.

Lemma tie_conv_QH a0 a1 a2 a3 :
  conv_QH (OO:=ROps) a0 a1 a2 a3 = m2list (phiHc (cofR a0) (cofR a1) (cofR a2) (cofR a3)).
Proof. tie. Qed.

Lemma tie_conv_QU a0 a1 a2 a3 :
  conv_QU (OO:=ROps) a0 a1 a2 a3 = m2list (phiUc (cofR a0) (cofR a1) (cofR a2) (cofR a3)).
Proof. tie. Qed.

Lemma tie_unit_H0 : unit_H0 (OO:=ROps) = m2list (sigma 0).
Proof. tie. Qed.

Lemma tie_unit_U0 : unit_U0 (OO:=ROps) = m2list (sigma 0).
Proof. tie. Qed.

Lemma tie_pauli_matrix0 : pauli_matrix0 (OO:=ROps) = m2list (sigma 0).
Proof. tie. Qed.

Lemma tie_unit_H1 : unit_H1 (OO:=ROps) = m2list (sigma 1).
Proof. tie. Qed.

Lemma tie_unit_U1 : unit_U1 (OO:=ROps) = m2list (m2scale ci (sigma 1)).
Proof. tie. Qed.

Lemma tie_pauli_matrix1 : pauli_matrix1 (OO:=ROps) = m2list (sigma 1).
Proof. tie. Qed.

Lemma tie_unit_H2 : unit_H2 (OO:=ROps) = m2list (sigma 2).
Proof. tie. Qed.

Lemma tie_unit_U2 : unit_U2 (OO:=ROps) = m2list (m2scale ci (sigma 2)).
Proof. tie. Qed.

Lemma tie_pauli_matrix2 : pauli_matrix2 (OO:=ROps) = m2list (sigma 2).
Proof. tie. Qed.

Lemma tie_unit_H3 : unit_H3 (OO:=ROps) = m2list (sigma 3).
Proof. tie. Qed.

Lemma tie_unit_U3 : unit_U3 (OO:=ROps) = m2list (m2scale ci (sigma 3)).
Proof. tie. Qed.

Lemma tie_pauli_matrix3 : pauli_matrix3 (OO:=ROps) = m2list (sigma 3).
Proof. tie. Qed.

Lemma tie_ci_complex zr zi : ci_complex (OO:=ROps) zr zi = clist (cmul ci (zr, zi)).
Proof. tie. Qed.

Lemma tie_ci_real r : ci_real (OO:=ROps) r = clist (cmul ci (cofR r)).
Proof. tie. Qed.
