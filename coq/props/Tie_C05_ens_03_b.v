(* Tie_C05_ens_03_b.v -- GENERATED ONCE by harness/gen_tie_C05_ens.py and committed.
   Exact ensemble covariance of Stokes parameters 0 and 3 of one superposed instance: the part of mode B and the contraction of the cross coefficients. *)
From Coq Require Import Reals Lra List.
From Epsic Require Import Scalar SpecPauli Quadrature Quadrature8 Gen_C05 Tie_C05_ens.
Import ListNotations.
Local Open Scope R_scope.
Ltac ens := pose proof r3_sq as H; unfold partA, partB, F0, F1, F2, F3, SA, SB, E4, E1, Smean, mink_outer_spec, mink_inner_spec, eta;
  cbn [v4nth v0 v1 v2 v3 Nat.eqb]; autounfold with gen; ops_R; field_simplify_eq; ring [H].

Lemma covB_03 ra0 ra1 ra2 ra3 rb0 rb1 rb2 rb3 :
  E4 (fun q0 q1 q2 q3 => partB (F0 ra0 ra1 ra2 ra3 rb0 rb1 rb2 rb3) q0 q1 q2 q3 * partB (F3 ra0 ra1 ra2 ra3 rb0 rb1 rb2 rb3) q0 q1 q2 q3) - E4 (partB (F0 ra0 ra1 ra2 ra3 rb0 rb1 rb2 rb3)) * E4 (partB (F3 ra0 ra1 ra2 ra3 rb0 rb1 rb2 rb3))
  = mink_outer_spec (SB ra0 ra1 ra2 ra3 rb0 rb1 rb2 rb3) (SB ra0 ra1 ra2 ra3 rb0 rb1 rb2 rb3) 0 3.
Proof. ens. Qed.
Lemma contraction_03 ra0 ra1 ra2 ra3 rb0 rb1 rb2 rb3 :
  contraction (F0 ra0 ra1 ra2 ra3 rb0 rb1 rb2 rb3) (F3 ra0 ra1 ra2 ra3 rb0 rb1 rb2 rb3) = mink_outer_spec (SA ra0 ra1 ra2 ra3 rb0 rb1 rb2 rb3) (SB ra0 ra1 ra2 ra3 rb0 rb1 rb2 rb3) 0 3 + mink_outer_spec (SA ra0 ra1 ra2 ra3 rb0 rb1 rb2 rb3) (SB ra0 ra1 ra2 ra3 rb0 rb1 rb2 rb3) 3 0.
Proof.
  unfold contraction, coef, unit4, F0, F1, F2, F3, SA, SB, Smean, mink_outer_spec, mink_inner_spec, eta. cbn [v4nth v0 v1 v2 v3 Nat.eqb].
  autounfold with gen; ops_R. field.
Qed.
