(* Tie_C10.v -- the eigen-rotation of a Hermitian quaternion (Quaternion.h eigen) and
   one Jacobi rotation (Jacobi.h calculate_Jacobi / rotate_Jacobi / JacobiRotation, real
   and complex), as generated from the sources, path by path: each path's outputs are a
   unit-determinant unitary diagonalising its input with the larger eigenvalue first
   (quaternion), resp. an exact 2x2 diagonalisation that preserves trace and determinant
   and keeps the eigenvector matrix unitary (Jacobi rotation). *)
From Coq Require Import Reals Lra List.
From Epsic Require Import Scalar Gen_C10.
Import ListNotations.
Local Open Scope R_scope.

Definition pnorm (q1 q2 q3 : R) := sqrt (q1 * q1 + q2 * q2 + q3 * q3).
(* outputs: u (4), det u, R rho R^dagger (8 reals), R R^dagger (8 reals) *)
Definition eigen_spec (q0 q1 q2 q3 : R) (l : list R) : Prop :=
  skipn 4 l = [1; q0 + pnorm q1 q2 q3; 0; 0; 0; 0; 0; q0 - pnorm q1 q2 q3; 0; 1; 0; 0; 0; 0; 0; 1; 0].

Lemma pnorm_sq q1 q2 q3 : pnorm q1 q2 q3 * pnorm q1 q2 q3 = q1 * q1 + q2 * q2 + q3 * q3.
Proof. unfold pnorm. apply sqrt_sqrt. nra. Qed.
Lemma pnorm_ge q1 q2 q3 : 0 <= pnorm q1 q2 q3.
Proof. unfold pnorm. apply sqrt_pos. Qed.
(* eigen () evaluates the polarization as hypot (s1, hypot (s2, s3)); over the reals that is pnorm *)
Lemma hyp_pnorm q1 q2 q3 : sqrt (q1 * q1 + sqrt (q2 * q2 + q3 * q3) * sqrt (q2 * q2 + q3 * q3)) = pnorm q1 q2 q3.
Proof. unfold pnorm. rewrite sqrt_sqrt by nra. f_equal. ring. Qed.

(* s0 = 0, s1 < 0, off the s1 axis: d = s2 (s2/(p - s1)) + s3 (s3/(p - s1)) = p + s1 *)
Lemma d_stable q1 q2 q3 : q1 < 0 -> ~ (q2 = 0 /\ q3 = 0) ->
  q2 * (q2 / (pnorm q1 q2 q3 - q1)) + q3 * (q3 / (pnorm q1 q2 q3 - q1)) = pnorm q1 q2 q3 + q1 /\ 0 < pnorm q1 q2 q3 + q1 /\ 0 < pnorm q1 q2 q3.
Proof.
  intros Hq Hax. pose proof (pnorm_sq q1 q2 q3) as Sp. pose proof (pnorm_ge q1 q2 q3) as Pp. set (p := pnorm q1 q2 q3) in *.
  assert (H23 : 0 < q2 * q2 + q3 * q3).
  { destruct (Req_dec q2 0) as [Z2|N2]; [ destruct (Req_dec q3 0) as [Z3|N3]; [ tauto | nra ] | nra ]. }
  assert (Hm : 0 < p - q1) by lra.
  assert (Hd : 0 < p + q1). { assert ((p + q1) * (p - q1) = q2 * q2 + q3 * q3) by lra. nra. }
  conj_split; [ | exact Hd | lra ].
  assert (E2 : q2 * q2 = p * p - q1 * q1 - q3 * q3) by lra.
  field_simplify_eq; [ ring [E2] | lra ].
Qed.


(* one Jacobi rotation of [[p, x], [x, q]] starting from v = 1, d = (p, q) *)
Definition jrot_spec (p q x : R) (l : list R) : Prop :=
  match l with
  | [a00; a01; a10; a11; v00; v01; v10; v11; d0; d1; m00; m01; m10; m11; o00; o01; o10; o11] =>
      a01 = 0 /\ a10 = 0 /\ a00 = d0 /\ a11 = d1 /\
      m00 = d0 /\ m01 = 0 /\ m10 = 0 /\ m11 = d1 /\
      o00 = 1 /\ o01 = 0 /\ o10 = 0 /\ o11 = 1 /\
      d0 + d1 = p + q /\ d0 * d1 = p * q - x * x
  | _ => False
  end.


(* one complex Jacobi rotation of [[p, x+iy], [x-iy, q]] starting from v = 1, d = (p, q):
   a (8 reals), v (8), d (2), v A v^dagger (8), v v^dagger (8) *)
Definition jc_spec (p q x y : R) (l : list R) : Prop :=
  let d0 := nth 16 l 0 in let d1 := nth 17 l 0 in
  firstn 8 l = [d0; 0; 0; 0; 0; 0; d1; 0] /\
  skipn 18 l = [d0; 0; 0; 0; 0; 0; d1; 0; 1; 0; 0; 0; 0; 0; 1; 0] /\
  d0 + d1 = p + q /\ d0 * d1 = p * q - x * x - y * y.

(* after  p := q + 2 sq: the goal mentions P = pnorm sq x (-y), sqrt (2 P) and sqrt (P + sq) *)
Ltac jc_plus sq x y :=
  match goal with Sp : pnorm sq x (- y) * pnorm sq x (- y) = _, Hd : 0 < pnorm sq x (- y) + sq, PP : 0 < pnorm sq x (- y) |- _ =>
  set (P := pnorm sq x (- y)) in *;
  assert (Ha0 : 0 < 2 * P) by lra;
  pose proof (sqrt_sqrt (2 * P) (Rlt_le _ _ Ha0)) as Sa; pose proof (sqrt_lt_R0 _ Ha0) as Pa; set (a := sqrt (2 * P)) in *;
  pose proof (sqrt_sqrt (P + sq) (Rlt_le _ _ Hd)) as Sb; pose proof (sqrt_lt_R0 _ Hd) as Pb; set (b := sqrt (P + sq)) in *;
  assert (Na : a <> 0) by lra; assert (Nb : b <> 0) by lra;
  assert (Ey : y * y = P * P - sq * sq - x * x) by lra;
  assert (Ea : a * a = 2 * P) by lra; assert (Eb : b * b = P + sq) by lra;
  assert (N1 : a * b + (P + sq) <> 0) by nra;
  conj_split; [ list_eq ltac:(first [ reflexivity | field_simplify_eq; [ ring [Ey Ea Eb] | auto ] ]) .. | | ];
    (field_simplify_eq; [ ring [Ey Ea Eb] | auto ])
  end.

