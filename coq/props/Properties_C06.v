(* Properties_C06.v -- C06: sample-mean statistics follow exactly from the
   per-instance (cross-)covariances.  The all-n statements are the induction
   theorems of SampleModel (source independent); the generated code of
   sample::get_covariance / get_crosscovariance is tied to those formulas at a
   grid of sample sizes and lags (pattern G). *)
From Coq Require Import Reals List.
From Epsic Require Import Scalar SampleModel Gen_C06 Tie_C06.
Import ListNotations.
Local Open Scope R_scope.

(* all n, all sequences: the closed formula the code uses IS the exact double sum *)
Theorem C06_covariance_is_double_sum C X n : cov_formula C X n = brute (withC C X) n 0.
Proof. exact (cov_is_double_sum C X n). Qed.
Print Assumptions C06_covariance_is_double_sum.

Theorem C06_crosscovariance_is_double_sum C X n L : (1 <= L)%nat -> xcov_formula X n L = brute (withC C X) n L.
Proof. exact (xcov_is_double_sum C X n L). Qed.
Print Assumptions C06_crosscovariance_is_double_sum.

Theorem C06_lag_zero_iff C X n : (1 <= n)%nat -> (xcov_formula X n 0 = cov_formula C X n <-> X O = C).
Proof. exact (xcov0_eq_cov_iff C X n). Qed.
Print Assumptions C06_lag_zero_iff.

(* the code, at n = 4 and sample lag 2, computes the exact double sum of the stub's sequence *)
Theorem C06_code_n4_L2 c x0 x1 x2 x3 x4 x5 x6 x7 x8 x9 x10 x11 x12 :
  xcov_n4_L2 (OO:=ROps) c x0 x1 x2 x3 x4 x5 x6 x7 x8 x9 x10 x11 x12
  = grid16 (fun i j => pat i j * brute (withC c (seqf [x0;x1;x2;x3;x4;x5;x6;x7;x8;x9;x10;x11;x12])) 4 2).
Proof.
  rewrite tie_xcov_n4_L2. unfold grid16. repeat (f_equal; try (rewrite (xcov_is_double_sum c) by Lia.lia; reflexivity)).
Qed.
Theorem C06_code_cov_n5 c x0 x1 x2 x3 x4 x5 :
  cov_n5 (OO:=ROps) c x0 x1 x2 x3 x4 x5
  = grid16 (fun i j => pat i j * brute (withC c (seqf [x0;x1;x2;x3;x4;x5])) 5 0).
Proof. rewrite tie_cov_n5. unfold grid16. repeat (f_equal; try (rewrite cov_is_double_sum; reflexivity)). Qed.
Print Assumptions C06_code_cov_n5.

(* a sample is the mean of exactly n generated instances; the predicted mean is the mode's *)
Theorem C06_instances_consumed :
  (forall a b c d e f g h i j k l m0 m1 m2 m3, hd 0 (stokes_n1 (OO:=ROps) a b c d e f g h i j k l m0 m1 m2 m3) = 1) /\
  (forall a b c d e f g h i j k l m n o p m0 m1 m2 m3, hd 0 (stokes_n2 (OO:=ROps) a b c d e f g h i j k l m n o p m0 m1 m2 m3) = 2).
Proof. split; intros; [apply law_stokes_n1 | apply law_stokes_n2]. Qed.

(* lag zero for every real mode type (after the fix: boxcar- and square-modulated modes too) *)
Theorem C06_lag_zero_every_mode s0 s1 s2 s3 beta :
  lag0_ok (lag0_mode (OO:=ROps) s0 s1 s2 s3) /\ lag0_ok (lag0_lognormal (OO:=ROps) s0 s1 s2 s3 beta) /\
  lag0_ok (lag0_boxcar_w1 (OO:=ROps) s0 s1 s2 s3 beta) /\ lag0_ok (lag0_boxcar_w2 (OO:=ROps) s0 s1 s2 s3 beta) /\
  lag0_ok (lag0_boxcar_w3 (OO:=ROps) s0 s1 s2 s3 beta) /\
  lag0_ok (lag0_square_w1 (OO:=ROps) s0 s1 s2 s3 beta) /\ lag0_ok (lag0_square_w2 (OO:=ROps) s0 s1 s2 s3 beta) /\
  lag0_ok (lag0_square_w3 (OO:=ROps) s0 s1 s2 s3 beta).
Proof.
  conj_split.
  - apply law_lag0_mode.
  - apply law_lag0_lognormal.
  - apply law_lag0_boxcar_w1.
  - apply law_lag0_boxcar_w2.
  - apply law_lag0_boxcar_w3.
  - apply law_lag0_square_w1.
  - apply law_lag0_square_w2.
  - apply law_lag0_square_w3.
Qed.
Print Assumptions C06_lag_zero_every_mode.
