(* Tie_C15_tr1.v -- row 1 of trace(sigma_i rho_A sigma_j rho_B) computed by the
   code's own Jones algebra equals the spec trace. *)
From Coq Require Import Reals Lra List.
From Epsic Require Import Scalar SpecPauli Gen_C15.
Import ListNotations.
Local Open Scope R_scope.

Lemma tie_trace4_1 a0 a1 a2 a3 b0 b1 b2 b3 :
  trace4_1 (OO:=ROps) a0 a1 a2 a3 b0 b1 b2 b3
  = flat_map clist (map (tr4 (SpecPauli.rho (mkV4 a0 a1 a2 a3)) (SpecPauli.rho (mkV4 b0 b1 b2 b3)) 1) idx4).
Proof.
  intros; autounfold with gen; ops_R; unfold idx4; c_simpl;
  list_eq ltac:(first [ring | field]).
Qed.
