(* Properties_C13.v -- C13: fixed-size vectors and matrices obey the laws of linear
   algebra (representative rectangular shapes, all element values). *)
From Coq Require Import Reals Lra List.
From Epsic Require Import Scalar SpecPauli Gen_C13 Tie_C13.
Import ListNotations.
Local Open Scope R_scope.

Theorem C13_products_associative_distributive a00 a01 a02 a10 a11 a12 b00 b01 b10 b11 b20 b21 c00 c01 c02 c10 c11 c12 :
  halves_eq 6 (Gen_C13.law_assoc (OO:=ROps) a00 a01 a02 a10 a11 a12 b00 b01 b10 b11 b20 b21 c00 c01 c02 c10 c11 c12).
Proof. apply Tie_C13.law_assoc. Qed.
Theorem C13_distributive a00 a01 a02 a10 a11 a12 b00 b01 b10 b11 b20 b21 c00 c01 c10 c11 c20 c21 :
  halves_eq 4 (Gen_C13.law_distrib (OO:=ROps) a00 a01 a02 a10 a11 a12 b00 b01 b10 b11 b20 b21 c00 c01 c10 c11 c20 c21).
Proof. apply Tie_C13.law_distrib. Qed.
Theorem C13_matvec_vecmat_transpose a00 a01 a02 a10 a11 a12 b00 b01 b10 b11 b20 b21 v0 v1 :
  halves_eq 2 (Gen_C13.law_matvec (OO:=ROps) a00 a01 a02 a10 a11 a12 b00 b01 b10 b11 b20 b21 v0 v1) /\
  halves_eq 3 (Gen_C13.law_vecmat_transpose (OO:=ROps) a00 a01 a02 a10 a11 a12 v0 v1) /\
  halves_eq 4 (Gen_C13.law_transpose_product (OO:=ROps) a00 a01 a02 a10 a11 a12 b00 b01 b10 b11 b20 b21) /\
  halves_eq 1 (Gen_C13.law_trace_cyclic (OO:=ROps) a00 a01 a02 a10 a11 a12 b00 b01 b10 b11 b20 b21).
Proof.
  conj_split.
  - apply Tie_C13.law_matvec.
  - apply Tie_C13.law_vecmat_transpose.
  - apply Tie_C13.law_transpose_product.
  - apply Tie_C13.law_trace_cyclic.
Qed.
Theorem C13_hermitian_transpose_reverses_products a00r a00i a01r a01i a10r a10i a11r a11i b00r b00i b01r b01i b10r b10i b11r b11i :
  halves_eq 8 (Gen_C13.law_herm_product (OO:=ROps) a00r a00i a01r a01i a10r a10i a11r a11i b00r b00i b01r b01i b10r b10i b11r b11i).
Proof. apply Tie_C13.law_herm_product. Qed.
Theorem C13_dot_cross_outer a0 a1 a2 b0 b1 b2 c0 c1 c2 :
  halves_eq 7 (Gen_C13.law_cross (OO:=ROps) a0 a1 a2 b0 b1 b2 c0 c1 c2) /\
  halves_eq 1 (Gen_C13.law_outer_trace_dot (OO:=ROps) a0 a1 a2 b0 b1 b2) /\
  dot_cross_3 (OO:=ROps) a0 a1 a2 b0 b1 b2
  = [a0 * b0 + a1 * b1 + a2 * b2; a1 * b2 - a2 * b1; a2 * b0 - a0 * b2; a0 * b1 - a1 * b0; a0 * a0 + a1 * a1 + a2 * a2].
Proof.
  conj_split.
  - apply Tie_C13.law_cross.
  - apply Tie_C13.law_outer_trace_dot.
  - apply tie_dot_cross_3.
Qed.
Theorem C13_kronecker_mixed_product a00 a01 a10 a11 b00 b01 b10 b11 c00 c01 c10 c11 d00 d01 d10 d11 :
  halves_eq 16 (Gen_C13.law_kronecker_mixed (OO:=ROps) a00 a01 a10 a11 b00 b01 b10 b11 c00 c01 c10 c11 d00 d01 d10 d11).
Proof. apply Tie_C13.law_kronecker_mixed. Qed.
Theorem C13_partition_compose_inverse a00 a01 a02 a03 a10 a11 a12 a13 a20 a21 a22 a23 :
  let l := Gen_C13.law_partition_compose (OO:=ROps) a00 a01 a02 a03 a10 a11 a12 a13 a20 a21 a22 a23 in
  firstn 12 l = firstn 12 (skipn 12 l) /\
  skipn 24 l = [a00; a01; a02] ++ [a03] ++ [a10; a11; a12; a20; a21; a22] ++ [a13; a23].
Proof. apply Tie_C13.law_partition_compose. Qed.
Print Assumptions C13_kronecker_mixed_product.
Print Assumptions C13_partition_compose_inverse.

(* Gauss-Jordan, N = 2, every pivot order: a two-sided inverse whenever det <> 0, and a singular
   matrix (exact elimination) is reported as singular; the enumerated paths are exhaustive by construction
   (depth-first enumeration of every comparison outcome) *)
Theorem C13_gauss_jordan_2x2 a00 a01 a10 a11 :
  Forall (fun c : Prop * list R => fst c -> gj_ok (snd c)) (gj2_cases (OO:=ROps) a00 a01 a10 a11) /\
  Forall (fun c : Prop * bool => fst c -> (snd c = true <-> a00 * a11 - a01 * a10 = 0)) (gj2_throwcases (OO:=ROps) a00 a01 a10 a11).
Proof. split; [apply tie_gj2 | apply tie_gj2_singular]. Qed.
Print Assumptions C13_gauss_jordan_2x2.

(* scalar constructor: the scalar on the leading diagonal, zero elsewhere, also for non-square shapes *)
Theorem C13_scalar_constructor s :
  scalar_ctor_2x3 (OO:=ROps) s = [s; 0; 0; 0; s; 0] /\ scalar_ctor_3x3 (OO:=ROps) s = [s; 0; 0; 0; s; 0; 0; 0; s].
Proof. split; [apply tie_scalar_ctor_2x3 | apply tie_scalar_ctor_3x3]. Qed.
