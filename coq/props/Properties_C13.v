(* Properties_C13.v -- C13: fixed-size vectors and matrices obey the laws of linear
   algebra (representative rectangular shapes, all element values). *)
From Coq Require Import Reals Lra List.
From Epsic Require Import Scalar SpecPauli Gen_C13 Tie_C13.
From Epsic Require Import Tie_C13_gj3_s0 Tie_C13_gj3_s1 Tie_C13_gj3_s2 Tie_C13_gj3_s3 Tie_C13_gj3_s4 Tie_C13_gj3_s5.
Import ListNotations.
Local Open Scope R_scope.

Theorem C13_products_associative_distributive a00 a01 a02 a10 a11 a12 b00 b01 b10 b11 b20 b21 c00 c01 c02 c10 c11 c12 :
  halves_eq 6 (Gen_C13.law_assoc (OO:=ROps) a00 a01 a02 a10 a11 a12 b00 b01 b10 b11 b20 b21 c00 c01 c02 c10 c11 c12).
Proof. apply Tie_C13.law_assoc. Qed.
Theorem C13_distributive a00 a01 a02 a10 a11 a12 b00 b01 b10 b11 b20 b21 c00 c01 c10 c11 c20 c21 :
  halves_eq 4 (Gen_C13.law_distrib (OO:=ROps) a00 a01 a02 a10 a11 a12 b00 b01 b10 b11 b20 b21 c00 c01 c10 c11 c20 c21).
Proof. apply Tie_C13.law_distrib. Qed.
Theorem C13_matvec_vecmat_transpose a00 a01 a02 a10 a11 a12 b00 b01 b10 b11 b20 b21 v0 v1 :
  halves_eq 2 (Gen_C13.law_matvec (OO:=ROps) a00 a01 a02 a10 a11 a12 b00 b01 b10 b11 b20 b21 v0 v1) /\
  halves_eq 3 (Gen_C13.law_vecmat_transpose (OO:=ROps) a00 a01 a02 a10 a11 a12 v0 v1) /\
  halves_eq 4 (Gen_C13.law_transpose_product (OO:=ROps) a00 a01 a02 a10 a11 a12 b00 b01 b10 b11 b20 b21) /\
  halves_eq 1 (Gen_C13.law_trace_cyclic (OO:=ROps) a00 a01 a02 a10 a11 a12 b00 b01 b10 b11 b20 b21).
Proof.
  conj_split.
  - apply Tie_C13.law_matvec.
  - apply Tie_C13.law_vecmat_transpose.
  - apply Tie_C13.law_transpose_product.
  - apply Tie_C13.law_trace_cyclic.
Qed.
Theorem C13_hermitian_transpose_reverses_products a00r a00i a01r a01i a10r a10i a11r a11i b00r b00i b01r b01i b10r b10i b11r b11i :
  halves_eq 8 (Gen_C13.law_herm_product (OO:=ROps) a00r a00i a01r a01i a10r a10i a11r a11i b00r b00i b01r b01i b10r b10i b11r b11i).
Proof. apply Tie_C13.law_herm_product. Qed.
Theorem C13_dot_cross_outer a0 a1 a2 b0 b1 b2 c0 c1 c2 :
  halves_eq 7 (Gen_C13.law_cross (OO:=ROps) a0 a1 a2 b0 b1 b2 c0 c1 c2) /\
  halves_eq 1 (Gen_C13.law_outer_trace_dot (OO:=ROps) a0 a1 a2 b0 b1 b2) /\
  dot_cross_3 (OO:=ROps) a0 a1 a2 b0 b1 b2
  = [a0 * b0 + a1 * b1 + a2 * b2; a1 * b2 - a2 * b1; a2 * b0 - a0 * b2; a0 * b1 - a1 * b0; a0 * a0 + a1 * a1 + a2 * a2].
Proof.
  conj_split.
  - apply Tie_C13.law_cross.
  - apply Tie_C13.law_outer_trace_dot.
  - apply tie_dot_cross_3.
Qed.
Theorem C13_kronecker_mixed_product a00 a01 a10 a11 b00 b01 b10 b11 c00 c01 c10 c11 d00 d01 d10 d11 :
  halves_eq 16 (Gen_C13.law_kronecker_mixed (OO:=ROps) a00 a01 a10 a11 b00 b01 b10 b11 c00 c01 c10 c11 d00 d01 d10 d11).
Proof. apply Tie_C13.law_kronecker_mixed. Qed.
Theorem C13_partition_compose_inverse a00 a01 a02 a03 a10 a11 a12 a13 a20 a21 a22 a23 :
  let l := Gen_C13.law_partition_compose (OO:=ROps) a00 a01 a02 a03 a10 a11 a12 a13 a20 a21 a22 a23 in
  firstn 12 l = firstn 12 (skipn 12 l) /\
  skipn 24 l = [a00; a01; a02] ++ [a03] ++ [a10; a11; a12; a20; a21; a22] ++ [a13; a23].
Proof. apply Tie_C13.law_partition_compose. Qed.
Print Assumptions C13_kronecker_mixed_product.
Print Assumptions C13_partition_compose_inverse.

(* Gauss-Jordan, N = 2, every pivot order: a two-sided inverse whenever det <> 0, and a singular
   matrix (exact elimination) is reported as singular; the enumerated paths are exhaustive by construction
   (depth-first enumeration of every comparison outcome) *)
Theorem C13_gauss_jordan_2x2 a00 a01 a10 a11 :
  Forall (fun c : Prop * list R => fst c -> gj_ok (snd c)) (gj2_cases (OO:=ROps) a00 a01 a10 a11) /\
  Forall (fun c : Prop * bool => fst c -> (snd c = true <-> a00 * a11 - a01 * a10 = 0)) (gj2_throwcases (OO:=ROps) a00 a01 a10 a11).
Proof. split; [apply tie_gj2 | apply tie_gj2_singular]. Qed.
Print Assumptions C13_gauss_jordan_2x2.

(* Gauss-Jordan, N = 3: for each of the 36 orders in which full pivoting can visit rows and columns (the
   driver steers one concolic run into each; the elimination arithmetic depends on the order only), the
   generated inverse is a two-sided inverse whenever the three pivots are non-zero *)
Theorem C13_gauss_jordan_3x3_every_pivot_order a00 a01 a02 a10 a11 a12 a20 a21 a22 :
  (gj3_o00_pc (OO:=ROps) a00 a01 a02 a10 a11 a12 a20 a21 a22 -> gj3_ok (gj3_o00 (OO:=ROps) a00 a01 a02 a10 a11 a12 a20 a21 a22)) /\
  (gj3_o01_pc (OO:=ROps) a00 a01 a02 a10 a11 a12 a20 a21 a22 -> gj3_ok (gj3_o01 (OO:=ROps) a00 a01 a02 a10 a11 a12 a20 a21 a22)) /\
  (gj3_o02_pc (OO:=ROps) a00 a01 a02 a10 a11 a12 a20 a21 a22 -> gj3_ok (gj3_o02 (OO:=ROps) a00 a01 a02 a10 a11 a12 a20 a21 a22)) /\
  (gj3_o03_pc (OO:=ROps) a00 a01 a02 a10 a11 a12 a20 a21 a22 -> gj3_ok (gj3_o03 (OO:=ROps) a00 a01 a02 a10 a11 a12 a20 a21 a22)) /\
  (gj3_o04_pc (OO:=ROps) a00 a01 a02 a10 a11 a12 a20 a21 a22 -> gj3_ok (gj3_o04 (OO:=ROps) a00 a01 a02 a10 a11 a12 a20 a21 a22)) /\
  (gj3_o05_pc (OO:=ROps) a00 a01 a02 a10 a11 a12 a20 a21 a22 -> gj3_ok (gj3_o05 (OO:=ROps) a00 a01 a02 a10 a11 a12 a20 a21 a22)) /\
  (gj3_o10_pc (OO:=ROps) a00 a01 a02 a10 a11 a12 a20 a21 a22 -> gj3_ok (gj3_o10 (OO:=ROps) a00 a01 a02 a10 a11 a12 a20 a21 a22)) /\
  (gj3_o11_pc (OO:=ROps) a00 a01 a02 a10 a11 a12 a20 a21 a22 -> gj3_ok (gj3_o11 (OO:=ROps) a00 a01 a02 a10 a11 a12 a20 a21 a22)) /\
  (gj3_o12_pc (OO:=ROps) a00 a01 a02 a10 a11 a12 a20 a21 a22 -> gj3_ok (gj3_o12 (OO:=ROps) a00 a01 a02 a10 a11 a12 a20 a21 a22)) /\
  (gj3_o13_pc (OO:=ROps) a00 a01 a02 a10 a11 a12 a20 a21 a22 -> gj3_ok (gj3_o13 (OO:=ROps) a00 a01 a02 a10 a11 a12 a20 a21 a22)) /\
  (gj3_o14_pc (OO:=ROps) a00 a01 a02 a10 a11 a12 a20 a21 a22 -> gj3_ok (gj3_o14 (OO:=ROps) a00 a01 a02 a10 a11 a12 a20 a21 a22)) /\
  (gj3_o15_pc (OO:=ROps) a00 a01 a02 a10 a11 a12 a20 a21 a22 -> gj3_ok (gj3_o15 (OO:=ROps) a00 a01 a02 a10 a11 a12 a20 a21 a22)) /\
  (gj3_o20_pc (OO:=ROps) a00 a01 a02 a10 a11 a12 a20 a21 a22 -> gj3_ok (gj3_o20 (OO:=ROps) a00 a01 a02 a10 a11 a12 a20 a21 a22)) /\
  (gj3_o21_pc (OO:=ROps) a00 a01 a02 a10 a11 a12 a20 a21 a22 -> gj3_ok (gj3_o21 (OO:=ROps) a00 a01 a02 a10 a11 a12 a20 a21 a22)) /\
  (gj3_o22_pc (OO:=ROps) a00 a01 a02 a10 a11 a12 a20 a21 a22 -> gj3_ok (gj3_o22 (OO:=ROps) a00 a01 a02 a10 a11 a12 a20 a21 a22)) /\
  (gj3_o23_pc (OO:=ROps) a00 a01 a02 a10 a11 a12 a20 a21 a22 -> gj3_ok (gj3_o23 (OO:=ROps) a00 a01 a02 a10 a11 a12 a20 a21 a22)) /\
  (gj3_o24_pc (OO:=ROps) a00 a01 a02 a10 a11 a12 a20 a21 a22 -> gj3_ok (gj3_o24 (OO:=ROps) a00 a01 a02 a10 a11 a12 a20 a21 a22)) /\
  (gj3_o25_pc (OO:=ROps) a00 a01 a02 a10 a11 a12 a20 a21 a22 -> gj3_ok (gj3_o25 (OO:=ROps) a00 a01 a02 a10 a11 a12 a20 a21 a22)) /\
  (gj3_o30_pc (OO:=ROps) a00 a01 a02 a10 a11 a12 a20 a21 a22 -> gj3_ok (gj3_o30 (OO:=ROps) a00 a01 a02 a10 a11 a12 a20 a21 a22)) /\
  (gj3_o31_pc (OO:=ROps) a00 a01 a02 a10 a11 a12 a20 a21 a22 -> gj3_ok (gj3_o31 (OO:=ROps) a00 a01 a02 a10 a11 a12 a20 a21 a22)) /\
  (gj3_o32_pc (OO:=ROps) a00 a01 a02 a10 a11 a12 a20 a21 a22 -> gj3_ok (gj3_o32 (OO:=ROps) a00 a01 a02 a10 a11 a12 a20 a21 a22)) /\
  (gj3_o33_pc (OO:=ROps) a00 a01 a02 a10 a11 a12 a20 a21 a22 -> gj3_ok (gj3_o33 (OO:=ROps) a00 a01 a02 a10 a11 a12 a20 a21 a22)) /\
  (gj3_o34_pc (OO:=ROps) a00 a01 a02 a10 a11 a12 a20 a21 a22 -> gj3_ok (gj3_o34 (OO:=ROps) a00 a01 a02 a10 a11 a12 a20 a21 a22)) /\
  (gj3_o35_pc (OO:=ROps) a00 a01 a02 a10 a11 a12 a20 a21 a22 -> gj3_ok (gj3_o35 (OO:=ROps) a00 a01 a02 a10 a11 a12 a20 a21 a22)) /\
  (gj3_o40_pc (OO:=ROps) a00 a01 a02 a10 a11 a12 a20 a21 a22 -> gj3_ok (gj3_o40 (OO:=ROps) a00 a01 a02 a10 a11 a12 a20 a21 a22)) /\
  (gj3_o41_pc (OO:=ROps) a00 a01 a02 a10 a11 a12 a20 a21 a22 -> gj3_ok (gj3_o41 (OO:=ROps) a00 a01 a02 a10 a11 a12 a20 a21 a22)) /\
  (gj3_o42_pc (OO:=ROps) a00 a01 a02 a10 a11 a12 a20 a21 a22 -> gj3_ok (gj3_o42 (OO:=ROps) a00 a01 a02 a10 a11 a12 a20 a21 a22)) /\
  (gj3_o43_pc (OO:=ROps) a00 a01 a02 a10 a11 a12 a20 a21 a22 -> gj3_ok (gj3_o43 (OO:=ROps) a00 a01 a02 a10 a11 a12 a20 a21 a22)) /\
  (gj3_o44_pc (OO:=ROps) a00 a01 a02 a10 a11 a12 a20 a21 a22 -> gj3_ok (gj3_o44 (OO:=ROps) a00 a01 a02 a10 a11 a12 a20 a21 a22)) /\
  (gj3_o45_pc (OO:=ROps) a00 a01 a02 a10 a11 a12 a20 a21 a22 -> gj3_ok (gj3_o45 (OO:=ROps) a00 a01 a02 a10 a11 a12 a20 a21 a22)) /\
  (gj3_o50_pc (OO:=ROps) a00 a01 a02 a10 a11 a12 a20 a21 a22 -> gj3_ok (gj3_o50 (OO:=ROps) a00 a01 a02 a10 a11 a12 a20 a21 a22)) /\
  (gj3_o51_pc (OO:=ROps) a00 a01 a02 a10 a11 a12 a20 a21 a22 -> gj3_ok (gj3_o51 (OO:=ROps) a00 a01 a02 a10 a11 a12 a20 a21 a22)) /\
  (gj3_o52_pc (OO:=ROps) a00 a01 a02 a10 a11 a12 a20 a21 a22 -> gj3_ok (gj3_o52 (OO:=ROps) a00 a01 a02 a10 a11 a12 a20 a21 a22)) /\
  (gj3_o53_pc (OO:=ROps) a00 a01 a02 a10 a11 a12 a20 a21 a22 -> gj3_ok (gj3_o53 (OO:=ROps) a00 a01 a02 a10 a11 a12 a20 a21 a22)) /\
  (gj3_o54_pc (OO:=ROps) a00 a01 a02 a10 a11 a12 a20 a21 a22 -> gj3_ok (gj3_o54 (OO:=ROps) a00 a01 a02 a10 a11 a12 a20 a21 a22)) /\
  (gj3_o55_pc (OO:=ROps) a00 a01 a02 a10 a11 a12 a20 a21 a22 -> gj3_ok (gj3_o55 (OO:=ROps) a00 a01 a02 a10 a11 a12 a20 a21 a22)).
Proof. exact (conj (tie_gj3_o00 a00 a01 a02 a10 a11 a12 a20 a21 a22) (conj (tie_gj3_o01 a00 a01 a02 a10 a11 a12 a20 a21 a22) (conj (tie_gj3_o02 a00 a01 a02 a10 a11 a12 a20 a21 a22) (conj (tie_gj3_o03 a00 a01 a02 a10 a11 a12 a20 a21 a22) (conj (tie_gj3_o04 a00 a01 a02 a10 a11 a12 a20 a21 a22) (conj (tie_gj3_o05 a00 a01 a02 a10 a11 a12 a20 a21 a22) (conj (tie_gj3_o10 a00 a01 a02 a10 a11 a12 a20 a21 a22) (conj (tie_gj3_o11 a00 a01 a02 a10 a11 a12 a20 a21 a22) (conj (tie_gj3_o12 a00 a01 a02 a10 a11 a12 a20 a21 a22) (conj (tie_gj3_o13 a00 a01 a02 a10 a11 a12 a20 a21 a22) (conj (tie_gj3_o14 a00 a01 a02 a10 a11 a12 a20 a21 a22) (conj (tie_gj3_o15 a00 a01 a02 a10 a11 a12 a20 a21 a22) (conj (tie_gj3_o20 a00 a01 a02 a10 a11 a12 a20 a21 a22) (conj (tie_gj3_o21 a00 a01 a02 a10 a11 a12 a20 a21 a22) (conj (tie_gj3_o22 a00 a01 a02 a10 a11 a12 a20 a21 a22) (conj (tie_gj3_o23 a00 a01 a02 a10 a11 a12 a20 a21 a22) (conj (tie_gj3_o24 a00 a01 a02 a10 a11 a12 a20 a21 a22) (conj (tie_gj3_o25 a00 a01 a02 a10 a11 a12 a20 a21 a22) (conj (tie_gj3_o30 a00 a01 a02 a10 a11 a12 a20 a21 a22) (conj (tie_gj3_o31 a00 a01 a02 a10 a11 a12 a20 a21 a22) (conj (tie_gj3_o32 a00 a01 a02 a10 a11 a12 a20 a21 a22) (conj (tie_gj3_o33 a00 a01 a02 a10 a11 a12 a20 a21 a22) (conj (tie_gj3_o34 a00 a01 a02 a10 a11 a12 a20 a21 a22) (conj (tie_gj3_o35 a00 a01 a02 a10 a11 a12 a20 a21 a22) (conj (tie_gj3_o40 a00 a01 a02 a10 a11 a12 a20 a21 a22) (conj (tie_gj3_o41 a00 a01 a02 a10 a11 a12 a20 a21 a22) (conj (tie_gj3_o42 a00 a01 a02 a10 a11 a12 a20 a21 a22) (conj (tie_gj3_o43 a00 a01 a02 a10 a11 a12 a20 a21 a22) (conj (tie_gj3_o44 a00 a01 a02 a10 a11 a12 a20 a21 a22) (conj (tie_gj3_o45 a00 a01 a02 a10 a11 a12 a20 a21 a22) (conj (tie_gj3_o50 a00 a01 a02 a10 a11 a12 a20 a21 a22) (conj (tie_gj3_o51 a00 a01 a02 a10 a11 a12 a20 a21 a22) (conj (tie_gj3_o52 a00 a01 a02 a10 a11 a12 a20 a21 a22) (conj (tie_gj3_o53 a00 a01 a02 a10 a11 a12 a20 a21 a22) (conj (tie_gj3_o54 a00 a01 a02 a10 a11 a12 a20 a21 a22) (tie_gj3_o55 a00 a01 a02 a10 a11 a12 a20 a21 a22)))))))))))))))))))))))))))))))))))). Qed.
Print Assumptions C13_gauss_jordan_3x3_every_pivot_order.

(* real and imaginary parts, conjugate and squared norms of complex vectors; squared norms of matrices *)
Theorem C13_complex_vector_parts_and_norms v0r v0i v1r v1i v2r v2i :
  complex_vector_parts (OO:=ROps) v0r v0i v1r v1i v2r v2i =
  [v0r; v1r; v2r; v0i; v1i; v2i; v0r; - v0i; v1r; - v1i; v2r; - v2i;
   v0r*v0r + v0i*v0i + v1r*v1r + v1i*v1i + v2r*v2r + v2i*v2i; v0r*v0r + v1r*v1r + v2r*v2r; v0r*v0r + v1r*v1r + v2r*v2r].
Proof. apply tie_complex_vector_parts. Qed.
Theorem C13_matrix_normsq a00 a01 a02 a10 a11 a12 b00 b01 b10 b11 b20 b21 c00r c00i c01r c01i c10r c10i c11r c11i :
  matrix_normsq (OO:=ROps) a00 a01 a02 a10 a11 a12 b00 b01 b10 b11 b20 b21 c00r c00i c01r c01i c10r c10i c11r c11i =
  [a00*a00 + a01*a01 + a02*a02 + a10*a10 + a11*a11 + a12*a12; b00*b00 + b01*b01 + b10*b10 + b11*b11 + b20*b20 + b21*b21;
   c00r*c00r + c00i*c00i + c01r*c01r + c01i*c01i + c10r*c10r + c10i*c10i + c11r*c11r + c11i*c11i; 0].
Proof. apply tie_matrix_normsq. Qed.
Theorem C13_matrix_negation_zero_conversion a00 a01 a02 a10 a11 a12 :
  matrix_negate_zero_assign (OO:=ROps) a00 a01 a02 a10 a11 a12 =
  [- a00; - a01; - a02; - a10; - a11; - a12; 0; 0; 0; 0; 0; 0;
   a00; 0; a01; 0; a02; 0; a10; 0; a11; 0; a12; 0; a00; 0; a01; 0; a02; 0; a10; 0; a11; 0; a12; 0].
Proof. apply tie_matrix_negate_zero_assign. Qed.
Print Assumptions C13_matrix_normsq.

(* scalar constructor: the scalar on the leading diagonal, zero elsewhere, also for non-square shapes *)
Theorem C13_scalar_constructor s :
  scalar_ctor_2x3 (OO:=ROps) s = [s; 0; 0; 0; s; 0] /\ scalar_ctor_3x3 (OO:=ROps) s = [s; 0; 0; 0; s; 0; 0; 0; s].
Proof. split; [apply tie_scalar_ctor_2x3 | apply tie_scalar_ctor_3x3]. Qed.
