(* Properties_C10.v -- C10: eigen-decompositions diagonalise every Hermitian input.
   Proved for every input, over the reals, on the terms generated from the sources:
   the closed-form eigen-rotation of a Hermitian quaternion (all six paths, including the
   degenerate and axis-aligned ones) and one Jacobi rotation, real and complex (all paths).
   The sweep loop of Jacobi (), its thresholds and the binary64 accuracy clauses are
   covered by the always-on oracle jacobi_classes_plain, not by a theorem. *)
From Coq Require Import Reals Lra List.
From Epsic Require Import Scalar Gen_C10 Tie_C10 Tie_C10_q Tie_C10_r Tie_C10_r3 Tie_C10_c00 Tie_C10_c01 Tie_C10_c011 Tie_C10_c1.
Import ListNotations.
Local Open Scope R_scope.

(* every Hermitian quaternion (s0, s1, s2, s3): on every path of eigen () the returned u has det u = 1,
   R = convert u satisfies R R^dagger = 1 and R rho R^dagger = diag (s0 + p, s0 - p), p = |(s1,s2,s3)| >= 0;
   and the paths cover every input *)
Theorem C10_eigen_rotation q0 q1 q2 q3 :
  Forall (fun c : Prop * list R => fst c -> eigen_spec q0 q1 q2 q3 (snd c)) (qeigen_cases (OO:=ROps) q0 q1 q2 q3)
  /\ Exists (fun c : Prop * list R => fst c) (qeigen_cases (OO:=ROps) q0 q1 q2 q3)
  /\ 0 <= pnorm q1 q2 q3.
Proof. conj_split; [ apply tie_qeigen | apply qeigen_total | apply pnorm_ge ]. Qed.
Print Assumptions C10_eigen_rotation.

(* one real Jacobi rotation of [[p, x], [x, q]]: the off-diagonal element is annihilated, the rotated diagonal
   equals the updated eigenvalues, v A v^T = diag (d), v v^T = 1, trace and determinant are preserved *)
Theorem C10_real_jacobi_rotation p q x :
  Forall (fun c : Prop * list R => fst c -> jrot_spec p q x (snd c)) (jrot2_cases (OO:=ROps) p q x)
  /\ Exists (fun c : Prop * list R => fst c) (jrot2_cases (OO:=ROps) p q x).
Proof.
  split; [ | apply jrot2_paths_total ].
  unfold jrot2_cases. apply Forall_cons; [ exact (tie_jrot2_p01 p q x) | ]. apply Forall_cons; [ exact (tie_jrot2_p00 p q x) | ].
  apply Forall_cons; [ exact (tie_jrot2_p1 p q x) | apply Forall_nil ].
Qed.
Print Assumptions C10_real_jacobi_rotation.

(* the same rotation inside a symmetric 3x3 matrix [[p,x,y],[x,q,z],[y,z,r]]: a similarity by an orthogonal v, the
   (0,1) element annihilated, trace preserved, and the other off-diagonal elements only rotated among themselves,
   a02'^2 + a12'^2 = y^2 + z^2 -- so the off-diagonal norm decreases by exactly 2 x^2 (the quantity whose decrease
   makes the cyclic sweeps converge) *)
Theorem C10_real_jacobi_rotation_3x3 p q r x y z :
  Forall (fun c : Prop * list R => fst c -> jrot3_spec p q r x y z (snd c)) (jrot3_cases (OO:=ROps) p q r x y z)
  /\ Exists (fun c : Prop * list R => fst c) (jrot3_cases (OO:=ROps) p q r x y z).
Proof.
  split; [ | apply jrot3_paths_total ].
  unfold jrot3_cases. apply Forall_cons; [ exact (tie_jrot3_p00 p q r x y z) | ]. apply Forall_cons; [ exact (tie_jrot3_p01 p q r x y z) | ].
  apply Forall_cons; [ exact (tie_jrot3_p1 p q r x y z) | apply Forall_nil ].
Qed.
Print Assumptions C10_real_jacobi_rotation_3x3.

(* one complex Jacobi rotation of [[p, x+iy], [x-iy, q]], derived from the eigen-rotation of (0, (p-q)/2, x, -y) *)
Theorem C10_complex_jacobi_rotation p q x y :
  Forall (fun c : Prop * list R => fst c -> jc_spec p q x y (snd c)) (jrot2c_cases (OO:=ROps) p q x y)
  /\ Exists (fun c : Prop * list R => fst c) (jrot2c_cases (OO:=ROps) p q x y).
Proof.
  split.
  - unfold jrot2c_cases.
    apply Forall_cons; [ exact (tie_jrot2c_p00 p q x y) | ]. apply Forall_cons; [ exact (tie_jrot2c_p010 p q x y) | ].
    apply Forall_cons; [ exact (tie_jrot2c_p0110 p q x y) | ]. apply Forall_cons; [ exact (tie_jrot2c_p0111 p q x y) | ].
    apply Forall_cons; [ exact (tie_jrot2c_p1 p q x y) | apply Forall_nil ].
  - autounfold with gen; ops_R. set (sq := 1 / 2 * (p - q)). rewrite ?(hyp_pnorm sq x (- y)).
    destruct (Req_dec (pnorm sq x (- y)) 0) as [Zp|Np]; [ do 4 apply Exists_cons_tl; apply Exists_cons_hd; exact Zp | ].
    destruct (Rlt_dec sq 0) as [L|G]; [ | apply Exists_cons_hd; cbn [fst]; tauto ].
    destruct (Req_dec x 0) as [Zx|Nx]; [ | apply Exists_cons_tl; apply Exists_cons_hd; cbn [fst]; tauto ].
    destruct (Req_dec (- y) 0) as [Zy|Ny]; [ do 3 apply Exists_cons_tl | do 2 apply Exists_cons_tl ]; apply Exists_cons_hd; cbn [fst]; tauto.
Qed.
Print Assumptions C10_complex_jacobi_rotation.
