(* Properties_C04.v -- C04: Jones matrices obey the algebra of 2x2 complex
   matrices.  Every statement is about the functions generated from the current
   source (Gen_C04), wrapped as operations on M2; each is closed by a tie lemma
   (Tie_C04) and a theorem of SpecJones. *)
From Coq Require Import Reals List.
From Epsic Require Import Scalar SpecPauli SpecJones Gen_C04 Tie_C04.
Import ListNotations.
Local Open Scope R_scope.

Definition ap8 {X} (f : R -> R -> R -> R -> R -> R -> R -> R -> X) (a : M2) : X :=
  f (fst (m00 a)) (snd (m00 a)) (fst (m01 a)) (snd (m01 a)) (fst (m10 a)) (snd (m10 a)) (fst (m11 a)) (snd (m11 a)).
Definition cofl (l : list R) : C := match l with [x; y] => (x, y) | _ => c0 end.

(* the code's operations, as functions on M2 *)
Definition Gmul (a b : M2) : M2 := m2oflist (ap8 (ap8 (jones_mul (OO:=ROps)) a) b).
Definition Gadd (a b : M2) : M2 := m2oflist (ap8 (ap8 (jones_add (OO:=ROps)) a) b).
Definition Gsub (a b : M2) : M2 := m2oflist (ap8 (ap8 (jones_sub (OO:=ROps)) a) b).
Definition Gneg (a : M2) : M2 := m2oflist (ap8 (jones_neg (OO:=ROps)) a).
Definition Gscale (z : C) (a : M2) : M2 := m2oflist (ap8 (jones_mulc (OO:=ROps)) a (fst z) (snd z)).
Definition Gscale_l (z : C) (a : M2) : M2 := m2oflist (ap8 (jones_cmul (OO:=ROps)) a (fst z) (snd z)).
Definition Gdivc (a : M2) (z : C) : M2 := m2oflist (ap8 (jones_divc (OO:=ROps)) a (fst z) (snd z)).
Definition Gdet (a : M2) : C := cofl (ap8 (jones_det (OO:=ROps)) a).
Definition Gtrace (a : M2) : C := cofl (ap8 (jones_trace (OO:=ROps)) a).
Definition Gnorm (a : M2) : R := nth 0 (ap8 (jones_norm (OO:=ROps)) a) 0.
Definition Gconj (a : M2) : M2 := m2oflist (ap8 (jones_conj (OO:=ROps)) a).
Definition Gherm (a : M2) : M2 := m2oflist (ap8 (jones_herm (OO:=ROps)) a).
Definition Ginv (a : M2) : M2 := m2oflist (ap8 (jones_inv (OO:=ROps)) a).
Definition Gid : M2 := m2oflist (jones_scalar_ctor (OO:=ROps) 1).

Ltac m2d := repeat match goal with a : M2 |- _ => destruct a as [[? ?] [? ?] [? ?] [? ?]] | z : C |- _ => destruct z as [? ?] end.
Ltac by_tie t := intros; m2d; unfold ap8; cbn [m00 m01 m10 m11 fst snd];
  first [ rewrite t | rewrite t by assumption ]; first [ apply m2oflist_m2list | reflexivity ].

Lemma Gmul_spec a b : Gmul a b = m2mul a b.     Proof. unfold Gmul; by_tie tie_jones_mul. Qed.
Lemma Gadd_spec a b : Gadd a b = m2add a b.     Proof. unfold Gadd; by_tie tie_jones_add. Qed.
Lemma Gsub_spec a b : Gsub a b = m2sub a b.     Proof. unfold Gsub; by_tie tie_jones_sub. Qed.
Lemma Gneg_spec a : Gneg a = m2neg a.           Proof. unfold Gneg; by_tie tie_jones_neg. Qed.
Lemma Gscale_spec z a : Gscale z a = m2scale z a.     Proof. unfold Gscale; by_tie tie_jones_mulc. Qed.
Lemma Gscale_l_spec z a : Gscale_l z a = m2scale z a. Proof. unfold Gscale_l; by_tie tie_jones_cmul. Qed.
Lemma Gdivc_spec a z : cnz z -> Gdivc a z = m2scale (cinv z) a.
Proof. unfold Gdivc; intros H; m2d; unfold ap8; cbn [m00 m01 m10 m11 fst snd]; rewrite tie_jones_divc by exact H; apply m2oflist_m2list. Qed.
Lemma Gdet_spec a : Gdet a = m2det a.
Proof. unfold Gdet; m2d; unfold ap8; cbn [m00 m01 m10 m11 fst snd]; rewrite tie_jones_det; unfold clist, cofl, cre, cim; symmetry; apply surjective_pairing. Qed.
Lemma Gtrace_spec a : Gtrace a = m2trace a.
Proof. unfold Gtrace; m2d; unfold ap8; cbn [m00 m01 m10 m11 fst snd]; rewrite tie_jones_trace; unfold clist, cofl, cre, cim; symmetry; apply surjective_pairing. Qed.
Lemma Gnorm_spec a : Gnorm a = m2norm a.
Proof. unfold Gnorm; m2d; unfold ap8; cbn [m00 m01 m10 m11 fst snd]; rewrite tie_jones_norm; reflexivity. Qed.
Lemma Gconj_spec a : Gconj a = m2conj a.        Proof. unfold Gconj; by_tie tie_jones_conj. Qed.
Lemma Gherm_spec a : Gherm a = m2herm a.        Proof. unfold Gherm; by_tie tie_jones_herm. Qed.
Lemma Ginv_spec a : cnz (m2det a) -> Ginv a = m2inv a.
Proof. unfold Ginv; intros H; m2d; unfold ap8; cbn [m00 m01 m10 m11 fst snd]; rewrite tie_jones_inv by exact H; apply m2oflist_m2list. Qed.
Lemma Gid_spec : Gid = m2id.
Proof. unfold Gid; rewrite tie_jones_scalar_ctor, m2oflist_m2list. apply m2_eq; spec_cbv; list_eq ltac:(ring). Qed.

Ltac to_spec := intros; rewrite ?Gmul_spec, ?Gadd_spec, ?Gsub_spec, ?Gneg_spec, ?Gscale_spec, ?Gscale_l_spec,
  ?Gdet_spec, ?Gtrace_spec, ?Gnorm_spec, ?Gconj_spec, ?Gherm_spec, ?Gid_spec.

Theorem C04_add_assoc a b c : Gadd (Gadd a b) c = Gadd a (Gadd b c).      Proof. to_spec; apply m2add_assoc. Qed.
Theorem C04_mul_assoc a b c : Gmul (Gmul a b) c = Gmul a (Gmul b c).      Proof. to_spec; apply m2mul_assoc. Qed.
Theorem C04_distrib_l a b c : Gmul a (Gadd b c) = Gadd (Gmul a b) (Gmul a c). Proof. to_spec; apply m2mul_add_l. Qed.
Theorem C04_distrib_r a b c : Gmul (Gadd a b) c = Gadd (Gmul a c) (Gmul b c). Proof. to_spec; apply m2mul_add_r. Qed.
Theorem C04_identity a : Gmul Gid a = a /\ Gmul a Gid = a.
Proof. to_spec; split; [apply m2mul_id_l | apply m2mul_id_r]. Qed.
Theorem C04_sub_is_add_neg a b : Gsub a b = Gadd a (Gneg b).              Proof. to_spec; apply m2sub_add_neg. Qed.
Theorem C04_scalar_commutes z a b :
  Gscale z (Gmul a b) = Gmul (Gscale z a) b /\ Gscale z (Gmul a b) = Gmul a (Gscale z b) /\ Gscale_l z a = Gscale z a.
Proof. to_spec; repeat split; [apply m2scale_mul_l | apply m2scale_mul_r]. Qed.
Theorem C04_division_commutes z a b : cnz z ->
  Gdivc (Gmul a b) z = Gmul (Gdivc a z) b /\ Gdivc (Gmul a b) z = Gmul a (Gdivc b z).
Proof. intros H; rewrite !Gdivc_spec by exact H; to_spec; split; [apply m2scale_mul_l | apply m2scale_mul_r]. Qed.
Theorem C04_det_multiplicative a b : Gdet (Gmul a b) = cmul (Gdet a) (Gdet b). Proof. to_spec; apply m2det_mul. Qed.
Theorem C04_trace_linear z a b :
  Gtrace (Gadd a b) = cadd (Gtrace a) (Gtrace b) /\ Gtrace (Gscale z a) = cmul z (Gtrace a).
Proof. to_spec; split; [apply m2trace_add | apply m2trace_scale]. Qed.
Theorem C04_trace_cyclic a b : Gtrace (Gmul a b) = Gtrace (Gmul b a).     Proof. to_spec; apply m2trace_cyclic. Qed.
Theorem C04_cayley_hamilton a :
  Gadd (Gsub (Gmul a a) (Gscale (Gtrace a) a)) (Gscale (Gdet a) Gid) = m2zero.
Proof. to_spec; apply m2_cayley_hamilton. Qed.
Theorem C04_conj_homomorphism a b : Gconj (Gmul a b) = Gmul (Gconj a) (Gconj b) /\ Gconj (Gadd a b) = Gadd (Gconj a) (Gconj b).
Proof. to_spec; split; [apply m2conj_mul | apply m2conj_add]. Qed.
Theorem C04_herm_antihomomorphism a b : Gherm (Gmul a b) = Gmul (Gherm b) (Gherm a) /\ Gherm (Gherm a) = a.
Proof. to_spec; split; [apply m2herm_mul | apply m2herm_invol]. Qed.
Theorem C04_norm_is_trace a : (Gnorm a, 0) = Gtrace (Gmul a (Gherm a)).   Proof. to_spec; apply m2norm_trace. Qed.
Theorem C04_inverse_two_sided a : cnz (Gdet a) -> Gmul (Ginv a) a = Gid /\ Gmul a (Ginv a) = Gid.
Proof.
  rewrite Gdet_spec; intros H. rewrite (Ginv_spec a H); to_spec. split; [apply m2inv_l | apply m2inv_r]; exact H.
Qed.
Print Assumptions C04_mul_assoc.
Print Assumptions C04_cayley_hamilton.
Print Assumptions C04_inverse_two_sided.

(* casts, mixed precision, diagonality, degree of polarization, element access *)
Theorem C04_cast_roundtrip a : m2oflist (ap8 (jones_to_matrix (OO:=ROps)) a) = a /\ m2oflist (ap8 (matrix_to_jones (OO:=ROps)) a) = a.
Proof. m2d; unfold ap8; cbn [m00 m01 m10 m11 fst snd]; rewrite tie_jones_to_matrix, tie_matrix_to_jones; split; apply m2oflist_m2list. Qed.
Theorem C04_product_via_generic_matrix a b : m2oflist (ap8 (ap8 (jones_mul_via_matrix (OO:=ROps)) a) b) = Gmul a b.
Proof. rewrite Gmul_spec; m2d; unfold ap8; cbn [m00 m01 m10 m11 fst snd]; rewrite tie_jones_mul_via_matrix; apply m2oflist_m2list. Qed.
Theorem C04_mixed_precision a b :
  m2oflist (ap8 (ap8 (jones_mul_float_double (OO:=ROps)) a) b) = Gmul a b /\
  m2oflist (ap8 (ap8 (jones_add_double_float (OO:=ROps)) a) b) = Gadd a b.
Proof.
  rewrite Gmul_spec, Gadd_spec; m2d; unfold ap8; cbn [m00 m01 m10 m11 fst snd].
  rewrite tie_jones_mul_float_double, tie_jones_add_double_float; split; apply m2oflist_m2list.
Qed.
Theorem C04_is_diagonal a00r a00i a01r a01i a10r a10i a11r a11i :
  Forall (fun c : Prop * list R => fst c ->
            (snd c = [1] /\ offdiag_zero a01r a01i a10r a10i) \/ (snd c = [0] /\ ~ offdiag_zero a01r a01i a10r a10i))
         (jones_is_diagonal_cases (OO:=ROps) a00r a00i a01r a01i a10r a10i a11r a11i)
  /\ Exists (fun c : Prop * list R => fst c) (jones_is_diagonal_cases (OO:=ROps) a00r a00i a01r a01i a10r a10i a11r a11i).
Proof. split; [apply tie_jones_is_diagonal | apply tie_jones_is_diagonal_total]. Qed.
Theorem C04_degree_of_polarization I Q U V : I <> 0 ->
  jones_p (OO:=ROps) I Q U V = [sqrt ((Q * Q + U * U + V * V) / (I * I))].
Proof. exact (tie_jones_p I Q U V). Qed.
Theorem C04_element_access a00r a00i a01r a01i a10r a10i a11r a11i :
  let l := [a00r; a00i; a01r; a01i; a10r; a10i; a11r; a11i] in
  jones_index_read (OO:=ROps) a00r a00i a01r a01i a10r a10i a11r a11i = l ++ l ++ l ++ l /\
  traits_jones (OO:=ROps) a00r a00i a01r a01i a10r a10i a11r a11i = [4] ++ l ++ l.
Proof. split; [apply tie_jones_index_read | apply tie_traits_jones]. Qed.
(* assignment of a real scalar, a complex scalar, another matrix: every element is overwritten *)
Theorem C04_assignment a00r a00i a01r a01i a10r a10i a11r a11i b00r b00i b01r b01i b10r b10i b11r b11i zr zi r :
  jones_assign_real (OO:=ROps) a00r a00i a01r a01i a10r a10i a11r a11i r = m2list (m2scale (cofR r) m2id) /\
  jones_assign_complex (OO:=ROps) a00r a00i a01r a01i a10r a10i a11r a11i zr zi = m2list (m2scale (zr, zi) m2id) /\
  jones_assign_copy (OO:=ROps) a00r a00i a01r a01i a10r a10i a11r a11i b00r b00i b01r b01i b10r b10i b11r b11i = m2list (M2of a00r a00i a01r a01i a10r a10i a11r a11i).
Proof. split; [apply tie_jones_assign_real | split; [apply tie_jones_assign_complex | apply tie_jones_assign_copy]]. Qed.
Print Assumptions C04_is_diagonal.
Print Assumptions C04_element_access.

Example C04_example : cnz (Gdet (M2of 1 0 2 0 3 0 4 0)).
Proof. rewrite Gdet_spec. unfold cnz, M2of; spec_cbv. Lra.lra. Qed.
