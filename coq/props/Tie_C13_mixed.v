(* Tie_C13_mixed.v -- vectors and matrices with mixed element types (single with double precision, real with complex):
   the mixed sums, scalar multiples, the real-matrix-times-complex-vector product and the converting constructors equal
   the same operations component by component (rounding to single precision is the identity over the reals).
   First half of each generated list: the library's operation; second half: the reference. *)
From Coq Require Import Reals Lra List.
From Epsic Require Import Scalar Gen_C13 Tie_C13.
Import ListNotations.
Local Open Scope R_scope.

Lemma law_mixed_vec_add_f_d a0 a1 a2 b0 b1 b2 : halves_eq 6 (mixed_vec_add_f_d (OO:=ROps) a0 a1 a2 b0 b1 b2).
Proof. law. Qed.
Lemma law_mixed_mat_add_d_f a00 a01 a10 a11 b00 b01 b10 b11 : halves_eq 4 (mixed_mat_add_d_f (OO:=ROps) a00 a01 a10 a11 b00 b01 b10 b11).
Proof. law. Qed.
Lemma law_mixed_scale_vec_f a0 a1 a2 r : halves_eq 3 (mixed_scale_vec_f (OO:=ROps) a0 a1 a2 r).
Proof. law. Qed.
Lemma law_mixed_mat_vec_d_c a00 a01 a10 a11 v0r v0i v1r v1i : halves_eq 4 (mixed_mat_vec_d_c (OO:=ROps) a00 a01 a10 a11 v0r v0i v1r v1i).
Proof. law. Qed.
Lemma law_promote_vec_mat_d_c a0 a1 a2 m00 m01 m10 m11 : halves_eq 14 (promote_vec_mat_d_c (OO:=ROps) a0 a1 a2 m00 m01 m10 m11).
Proof. law. Qed.
