(* Tie_C02_cplx.v -- GENERATED ONCE by harness/gen_tie_C02.py and committed.
   Complex Stokes parameters: round trips and congruence. *)
From Coq Require Import Reals Lra List.
From Epsic Require Import Scalar SpecPauli SpecJones Gen_C02.
Import ListNotations.
Local Open Scope R_scope.

Definition halves_eq (n : nat) (l : list R) : Prop := firstn n l = skipn n l.

(* abstract cos x / sin x to variables c, s with s*s = 1 - c*c *)
Ltac trig_abs :=
  repeat match goal with
  | |- context [cos ?x] => let c := fresh "c" in let s := fresh "s" in let H := fresh "Htrig" in
       assert (H : sin x * sin x = 1 - cos x * cos x) by (pose proof (sin2_cos2 x) as H; unfold Rsqr in H; lra);
       set (c := cos x) in *; set (s := sin x) in *; clearbody c s
  end.
Ltac trig_ring := match goal with
  | H1 : _ * _ = 1 - _, H2 : _ * _ = 1 - _ |- _ => first [ring [H1 H2] | field [H1 H2] | (field_simplify_eq; ring [H1 H2])]
  | H1 : _ * _ = 1 - _ |- _ => first [ring [H1] | field [H1] | (field_simplify_eq; ring [H1])]
  end.
Ltac solve_entry := first [ field | ring | trig_ring | lazymatch goal with |- ?a = ?a => reflexivity end ].
Ltac pc_zero := intros; autounfold with gen; ops_R; trig_abs; repeat split;
  (let H := fresh "H" in intro H;
   match type of H with ?b < ?a =>
     let E := fresh "E" in assert (E : a = 0) by solve_entry; rewrite E in H; lra end).
Ltac law := intros; unfold halves_eq; autounfold with gen; ops_R; cbn [firstn skipn]; trig_abs; list_eq solve_entry.

Lemma law_roundtrip_complex_lin s0r s0i s1r s1i s2r s2i s3r s3i :
  halves_eq 8 (roundtrip_complex_lin (OO:=ROps) s0r s0i s1r s1i s2r s2i s3r s3i).
Proof. law. Qed.

Lemma law_roundtrip_complex_circ s0r s0i s1r s1i s2r s2i s3r s3i :
  halves_eq 8 (roundtrip_complex_circ (OO:=ROps) s0r s0i s1r s1i s2r s2i s3r s3i).
Proof. law. Qed.

Lemma law_roundtrip_complex_ell o e s0r s0i s1r s1i s2r s2i s3r s3i :
  halves_eq 8 (roundtrip_complex_ell (OO:=ROps) o e s0r s0i s1r s1i s2r s2i s3r s3i).
Proof. law. Qed.

Lemma law_roundtrip_jones_lin j00r j00i j01r j01i j10r j10i j11r j11i :
  halves_eq 8 (roundtrip_jones_lin (OO:=ROps) j00r j00i j01r j01i j10r j10i j11r j11i).
Proof. law. Qed.

Lemma law_roundtrip_jones_circ j00r j00i j01r j01i j10r j10i j11r j11i :
  halves_eq 8 (roundtrip_jones_circ (OO:=ROps) j00r j00i j01r j01i j10r j10i j11r j11i).
Proof. law. Qed.

Lemma law_roundtrip_jones_ell o e j00r j00i j01r j01i j10r j10i j11r j11i :
  halves_eq 8 (roundtrip_jones_ell (OO:=ROps) o e j00r j00i j01r j01i j10r j10i j11r j11i).
Proof. law. Qed.
