(* Tie_C08_stats.v -- the bivariate log-normal pair as generated from covariant.cpp:
   admissibility tests (all three outcomes), the matrix square root, the factors as
   functions of the two deviates, and the reported statistics. *)
From Coq Require Import Reals Lra List.
From Epsic Require Import Scalar LogNormal Gen_C08.
Import ListNotations.
Local Open Scope R_scope.

Ltac deep := first [ ring | field; nz_auto | (apply f_equal; deep) | (apply f_equal2; deep) ].

(* sqrt(C) for symmetric C with det >= 0, tr + 2 sqrt(det) > 0: entries and square *)
Lemma tie_msqrt c00 c01 c11 : 0 <= c00 * c11 - c01 * c01 -> sqrt (c00 + c11 + 2 * sqrt (c00 * c11 - c01 * c01)) <> 0 ->
  0 <= c00 + c11 + 2 * sqrt (c00 * c11 - c01 * c01) ->
  let s := sqrt (c00 * c11 - c01 * c01) in let t := sqrt (c00 + c11 + 2 * s) in
  msqrt (OO:=ROps) c00 c01 c11 = [(s + c00) / t; c01 / t; c01 / t; (s + c11) / t] ++ [c00; c01; c01; c11].
Proof.
  intros Hd Ht Htp s t.
  assert (Hs : s * s = c00 * c11 - c01 * c01) by (apply sqrt_sqrt; exact Hd).
  assert (Htt : t * t = c00 + c11 + 2 * s) by (apply sqrt_sqrt; exact Htp).
  destruct (msqrt_squares c00 c01 c11 s t Hs Htt Ht) as [E0 [E1 E2]].
  autounfold with gen; ops_R; cbn [app]. fold s. fold t.
  list_eq ltac:(first [ ring | field; exact Ht
                      | (etransitivity; [ | first [exact E0 | exact E1 | exact E2] ]; field; exact Ht) ]).
Qed.

(* the quantities the code forms from (rho, beta0, beta1) *)
Section Pair.
Variables rho b0 b1 g0 g1 : R.
Let s0 := sqrt (ln (b0 * b0 + 1)).
Let s1 := sqrt (ln (b1 * b1 + 1)).
Let d := sqrt (exp (s0 * s0) - 1) * sqrt (exp (s1 * s1) - 1).
Let rmax := (exp (s0 * s1) - 1) / d.
Let rmin := (exp (- s0 * s1) - 1) / d.
Let c01 := ln (rho * sqrt (exp (s0 * s0) - 1) * sqrt (exp (s1 * s1) - 1) + 1).
Let s := sqrt (s0 * s0 * (s1 * s1) - c01 * c01).
Let t := sqrt (s0 * s0 + s1 * s1 + 2 * s).

(* which paths throw: exactly the requests outside [rmin, rmax] *)
Lemma tie_lognormal_pair_rejects :
  Forall (fun c : Prop * bool => fst c -> (snd c = true <-> (rho > rmax \/ rho < rmin)))
         (lognormal_pair_throwcases (OO:=ROps) rho b0 b1 g0 g1).
Proof.
  subst rmax rmin d s0 s1. autounfold with gen; ops_R.
  repeat (apply Forall_cons; [ cbn [fst snd]; intros PC; split; [ intros E; try discriminate E; tauto | intros H; first [reflexivity | exfalso; tauto] ] | ]).
  apply Forall_nil.
Qed.

(* the accepted path: the two factors, unit means, variances, intensity covariance; 2 deviates consumed *)
Lemma tie_lognormal_pair_accepts : t <> 0 -> 0 <= s0 * s0 * (s1 * s1) - c01 * c01 ->
  Forall (fun c : Prop * list R => fst c -> snd c = [] \/
            snd c = [exp ((s + s0 * s0) / t * g0 + c01 / t * g1 - s0 * s0 / 2);
                     exp (c01 / t * g0 + (s + s1 * s1) / t * g1 - s1 * s1 / 2);
                     1; 1; exp (s0 * s0) - 1; exp (s1 * s1) - 1;
                     rho * sqrt ((exp (s0 * s0) - 1) * (exp (s1 * s1) - 1));
                     exp (s0 * s0) - 1; exp (s1 * s1) - 1; 2])
         (lognormal_pair_cases (OO:=ROps) rho b0 b1 g0 g1).
Proof.
  intros Ht Hdet. subst t s c01 s0 s1. autounfold with gen; ops_R.
  repeat (apply Forall_cons; [ cbn [fst snd]; intros PC; first [ left; reflexivity | exfalso; lra | right; list_eq deep ] | ]).
  apply Forall_nil.
Qed.
End Pair.

(* changing a modulation index after the first joint draw: the next draw is that of a fresh
   coordinator with the new index (same deviates) *)
Lemma law_lognormal_pair_rebuild rho b0 b1 b0old g0 g1 g2 g3 :
  firstn 4 (lognormal_pair_rebuild (OO:=ROps) rho b0 b1 b0old g0 g1 g2 g3)
  = skipn 4 (lognormal_pair_rebuild (OO:=ROps) rho b0 b1 b0old g0 g1 g2 g3).
Proof. autounfold with gen; ops_R; cbn [firstn skipn]. list_eq deep. Qed.
