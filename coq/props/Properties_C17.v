(* Properties_C17.v -- C17: the command-line simulator builds the requested model.
   Theorems about the option fold Cli.parse / the assembly program Cli.build (a hand-written model of
   epsic.cpp's main); the model is tied to the real binary by harness/corr_C17.py. *)
From Coq Require Import List ZArith QArith.
From Epsic Require Import Cli.
Import ListNotations.

(* arguments prefixed by B configure the second mode only, unprefixed ones the first: for every option
   list, mode A's setup is what the options addressed to A alone produce *)
Theorem C17_prefix_routing os c c' : parse_from c os = Some c' ->
  exists c'', parse_from c (filter forA os) = Some c'' /\ sA c'' = sA c'.
Proof. exact (frame_A os c c'). Qed.
Print Assumptions C17_prefix_routing.

(* rejection with an error exactly when some -s option has |p| > I *)
Theorem C17_rejection os : parse os = None <->
  exists b i q u v, In (Opts b i q u v) os /\ invalid_stokes i q u v = true.
Proof. exact (rejected_iff os config0). Qed.
Print Assumptions C17_rejection.

(* meaningful combinations give the covariant coordinator both of its outputs *)
Theorem C17_meaningful_coordinator c rho : cov c = Some rho -> meaningful c = true ->
  count_cov (build c) 0 = 1%nat /\ count_cov (build c) 1 = 1%nat.
Proof. exact (meaningful_has_both_outputs c rho). Qed.

Example C17_boundary_accepted : invalid_stokes 1 (3#5) 0 (4#5) = false /\ invalid_stokes 1 1 1 0 = true /\ invalid_stokes (-1#1) 0 0 0 = true.
Proof. repeat split; vm_compute; reflexivity. Qed.
