(* Tie_C05.v -- GENERATED ONCE by harness/gen_tie_C05.py and committed.
   Predictions of superposed / composite / disjoint on stub modes with symbolic per-instance statistics (mean vectors am, bm; covariance c * P and cross-covariances x[l] * P for fixed pattern matrices P): each entry of the predicted mean, covariance and lag-0/lag-1 cross-covariance equals the DualModel formula, at sample sizes 1..3 (composite: the listed (n, n_A) splits). *)
From Coq Require Import Reals Lra List.
From Epsic Require Import Scalar SpecPauli SampleModel DualModel Gen_C05.
Import ListNotations.
Local Open Scope R_scope.


Definition patA (i j : nat) : R := 1 + 4 * INR i + INR j.
Definition patB (i j : nat) : R := 2 + INR i + 3 * INR j.
Definition seqf (l : list R) : nat -> R := fun k => nth k l 0.
Definition grid4 {T} (f : nat -> T) : list T := map f [0;1;2;3]%nat.
Definition grid16 {T} (f : nat -> nat -> T) : list T :=
  flat_map (fun i => map (fun j => f i j) [0;1;2;3]%nat) [0;1;2;3]%nat.
Definition scaled (p : R) (X : nat -> R) : nat -> R := fun l => p * X l.

Ltac rmin := repeat match goal with |- context [Rmin ?a ?b] => unfold Rmin; destruct (Rle_dec a b) end.
Ltac tie := intros; autounfold with gen; ops_R;
  unfold grid4, grid16, patA, patB, seqf, scaled, sup_cov, comp_cov, comp_mean, part_cov, dis_cov, dis_xcov, dis_mean, cov_formula, xcov_formula, brute,
         mink_outer_spec, mink_inner_spec, eta;
  cbv beta iota zeta delta [sumf absdiff nth Nat.leb Nat.eqb Nat.sub Nat.add Nat.mul INR flat_map map app v4nth v0 v1 v2 v3];
  rmin; list_eq ltac:(first [ring | field | exfalso; lra]).

Lemma tie_pred_sup_n1 am0 am1 am2 am3 ac ax0 ax1 bm0 bm1 bm2 bm3 bc bx0 bx1 ic :
  pred_sup_n1 (OO:=ROps) am0 am1 am2 am3 ac ax0 ax1 bm0 bm1 bm2 bm3 bc bx0 bx1 ic =
  grid4 (fun i => v4nth (mkV4 am0 am1 am2 am3) i + v4nth (mkV4 bm0 bm1 bm2 bm3) i) ++ grid16 (fun i j => sup_cov 1 (patA i j * ac) (scaled (patA i j) (seqf [ax0; ax1])) (patB i j * bc) (scaled (patB i j) (seqf [bx0; bx1])) (mink_outer_spec (mkV4 am0 am1 am2 am3) (mkV4 bm0 bm1 bm2 bm3) i j) (mink_outer_spec (mkV4 am0 am1 am2 am3) (mkV4 bm0 bm1 bm2 bm3) j i) (v4nth (mkV4 am0 am1 am2 am3) i * v4nth (mkV4 bm0 bm1 bm2 bm3) j) (v4nth (mkV4 am0 am1 am2 am3) j * v4nth (mkV4 bm0 bm1 bm2 bm3) i) ic) ++ grid16 (fun i j => sup_cov 1 (patA i j * ac) (scaled (patA i j) (seqf [ax0; ax1])) (patB i j * bc) (scaled (patB i j) (seqf [bx0; bx1])) (mink_outer_spec (mkV4 am0 am1 am2 am3) (mkV4 bm0 bm1 bm2 bm3) i j) (mink_outer_spec (mkV4 am0 am1 am2 am3) (mkV4 bm0 bm1 bm2 bm3) j i) (v4nth (mkV4 am0 am1 am2 am3) i * v4nth (mkV4 bm0 bm1 bm2 bm3) j) (v4nth (mkV4 am0 am1 am2 am3) j * v4nth (mkV4 bm0 bm1 bm2 bm3) i) ic).
Proof. tie. Qed.

Lemma tie_pred_dis_n1 f am0 am1 am2 am3 ac ax0 ax1 ax2 bm0 bm1 bm2 bm3 bc bx0 bx1 bx2 :
  pred_dis_n1 (OO:=ROps) f am0 am1 am2 am3 ac ax0 ax1 ax2 bm0 bm1 bm2 bm3 bc bx0 bx1 bx2 =
  grid4 (fun i => dis_mean f (v4nth (mkV4 am0 am1 am2 am3) i) (v4nth (mkV4 bm0 bm1 bm2 bm3) i)) ++ grid16 (fun i j => dis_cov f 1 (patA i j * ac) (scaled (patA i j) (seqf [ax0; ax1; ax2])) (patB i j * bc) (scaled (patB i j) (seqf [bx0; bx1; bx2])) (v4nth (mkV4 am0 am1 am2 am3) i) (v4nth (mkV4 am0 am1 am2 am3) j) (v4nth (mkV4 bm0 bm1 bm2 bm3) i) (v4nth (mkV4 bm0 bm1 bm2 bm3) j)) ++ grid16 (fun i j => dis_cov f 1 (patA i j * ac) (scaled (patA i j) (seqf [ax0; ax1; ax2])) (patB i j * bc) (scaled (patB i j) (seqf [bx0; bx1; bx2])) (v4nth (mkV4 am0 am1 am2 am3) i) (v4nth (mkV4 am0 am1 am2 am3) j) (v4nth (mkV4 bm0 bm1 bm2 bm3) i) (v4nth (mkV4 bm0 bm1 bm2 bm3) j)) ++ grid16 (fun i j => dis_xcov f 1 1 (scaled (patA i j) (seqf [ax0; ax1; ax2])) (scaled (patB i j) (seqf [bx0; bx1; bx2]))).
Proof. tie. Qed.

Lemma tie_pred_sup_n2 am0 am1 am2 am3 ac ax0 ax1 ax2 bm0 bm1 bm2 bm3 bc bx0 bx1 bx2 ic :
  pred_sup_n2 (OO:=ROps) am0 am1 am2 am3 ac ax0 ax1 ax2 bm0 bm1 bm2 bm3 bc bx0 bx1 bx2 ic =
  grid4 (fun i => v4nth (mkV4 am0 am1 am2 am3) i + v4nth (mkV4 bm0 bm1 bm2 bm3) i) ++ grid16 (fun i j => sup_cov 2 (patA i j * ac) (scaled (patA i j) (seqf [ax0; ax1; ax2])) (patB i j * bc) (scaled (patB i j) (seqf [bx0; bx1; bx2])) (mink_outer_spec (mkV4 am0 am1 am2 am3) (mkV4 bm0 bm1 bm2 bm3) i j) (mink_outer_spec (mkV4 am0 am1 am2 am3) (mkV4 bm0 bm1 bm2 bm3) j i) (v4nth (mkV4 am0 am1 am2 am3) i * v4nth (mkV4 bm0 bm1 bm2 bm3) j) (v4nth (mkV4 am0 am1 am2 am3) j * v4nth (mkV4 bm0 bm1 bm2 bm3) i) ic) ++ grid16 (fun i j => sup_cov 2 (patA i j * ac) (scaled (patA i j) (seqf [ax0; ax1; ax2])) (patB i j * bc) (scaled (patB i j) (seqf [bx0; bx1; bx2])) (mink_outer_spec (mkV4 am0 am1 am2 am3) (mkV4 bm0 bm1 bm2 bm3) i j) (mink_outer_spec (mkV4 am0 am1 am2 am3) (mkV4 bm0 bm1 bm2 bm3) j i) (v4nth (mkV4 am0 am1 am2 am3) i * v4nth (mkV4 bm0 bm1 bm2 bm3) j) (v4nth (mkV4 am0 am1 am2 am3) j * v4nth (mkV4 bm0 bm1 bm2 bm3) i) ic).
Proof. tie. Qed.

Lemma tie_pred_dis_n2 f am0 am1 am2 am3 ac ax0 ax1 ax2 ax3 ax4 bm0 bm1 bm2 bm3 bc bx0 bx1 bx2 bx3 bx4 :
  pred_dis_n2 (OO:=ROps) f am0 am1 am2 am3 ac ax0 ax1 ax2 ax3 ax4 bm0 bm1 bm2 bm3 bc bx0 bx1 bx2 bx3 bx4 =
  grid4 (fun i => dis_mean f (v4nth (mkV4 am0 am1 am2 am3) i) (v4nth (mkV4 bm0 bm1 bm2 bm3) i)) ++ grid16 (fun i j => dis_cov f 2 (patA i j * ac) (scaled (patA i j) (seqf [ax0; ax1; ax2; ax3; ax4])) (patB i j * bc) (scaled (patB i j) (seqf [bx0; bx1; bx2; bx3; bx4])) (v4nth (mkV4 am0 am1 am2 am3) i) (v4nth (mkV4 am0 am1 am2 am3) j) (v4nth (mkV4 bm0 bm1 bm2 bm3) i) (v4nth (mkV4 bm0 bm1 bm2 bm3) j)) ++ grid16 (fun i j => dis_cov f 2 (patA i j * ac) (scaled (patA i j) (seqf [ax0; ax1; ax2; ax3; ax4])) (patB i j * bc) (scaled (patB i j) (seqf [bx0; bx1; bx2; bx3; bx4])) (v4nth (mkV4 am0 am1 am2 am3) i) (v4nth (mkV4 am0 am1 am2 am3) j) (v4nth (mkV4 bm0 bm1 bm2 bm3) i) (v4nth (mkV4 bm0 bm1 bm2 bm3) j)) ++ grid16 (fun i j => dis_xcov f 2 1 (scaled (patA i j) (seqf [ax0; ax1; ax2; ax3; ax4])) (scaled (patB i j) (seqf [bx0; bx1; bx2; bx3; bx4]))).
Proof. tie. Qed.

Lemma tie_pred_sup_n3 am0 am1 am2 am3 ac ax0 ax1 ax2 ax3 bm0 bm1 bm2 bm3 bc bx0 bx1 bx2 bx3 ic :
  pred_sup_n3 (OO:=ROps) am0 am1 am2 am3 ac ax0 ax1 ax2 ax3 bm0 bm1 bm2 bm3 bc bx0 bx1 bx2 bx3 ic =
  grid4 (fun i => v4nth (mkV4 am0 am1 am2 am3) i + v4nth (mkV4 bm0 bm1 bm2 bm3) i) ++ grid16 (fun i j => sup_cov 3 (patA i j * ac) (scaled (patA i j) (seqf [ax0; ax1; ax2; ax3])) (patB i j * bc) (scaled (patB i j) (seqf [bx0; bx1; bx2; bx3])) (mink_outer_spec (mkV4 am0 am1 am2 am3) (mkV4 bm0 bm1 bm2 bm3) i j) (mink_outer_spec (mkV4 am0 am1 am2 am3) (mkV4 bm0 bm1 bm2 bm3) j i) (v4nth (mkV4 am0 am1 am2 am3) i * v4nth (mkV4 bm0 bm1 bm2 bm3) j) (v4nth (mkV4 am0 am1 am2 am3) j * v4nth (mkV4 bm0 bm1 bm2 bm3) i) ic) ++ grid16 (fun i j => sup_cov 3 (patA i j * ac) (scaled (patA i j) (seqf [ax0; ax1; ax2; ax3])) (patB i j * bc) (scaled (patB i j) (seqf [bx0; bx1; bx2; bx3])) (mink_outer_spec (mkV4 am0 am1 am2 am3) (mkV4 bm0 bm1 bm2 bm3) i j) (mink_outer_spec (mkV4 am0 am1 am2 am3) (mkV4 bm0 bm1 bm2 bm3) j i) (v4nth (mkV4 am0 am1 am2 am3) i * v4nth (mkV4 bm0 bm1 bm2 bm3) j) (v4nth (mkV4 am0 am1 am2 am3) j * v4nth (mkV4 bm0 bm1 bm2 bm3) i) ic).
Proof. tie. Qed.

Lemma tie_pred_dis_n3 f am0 am1 am2 am3 ac ax0 ax1 ax2 ax3 ax4 ax5 ax6 bm0 bm1 bm2 bm3 bc bx0 bx1 bx2 bx3 bx4 bx5 bx6 :
  pred_dis_n3 (OO:=ROps) f am0 am1 am2 am3 ac ax0 ax1 ax2 ax3 ax4 ax5 ax6 bm0 bm1 bm2 bm3 bc bx0 bx1 bx2 bx3 bx4 bx5 bx6 =
  grid4 (fun i => dis_mean f (v4nth (mkV4 am0 am1 am2 am3) i) (v4nth (mkV4 bm0 bm1 bm2 bm3) i)) ++ grid16 (fun i j => dis_cov f 3 (patA i j * ac) (scaled (patA i j) (seqf [ax0; ax1; ax2; ax3; ax4; ax5; ax6])) (patB i j * bc) (scaled (patB i j) (seqf [bx0; bx1; bx2; bx3; bx4; bx5; bx6])) (v4nth (mkV4 am0 am1 am2 am3) i) (v4nth (mkV4 am0 am1 am2 am3) j) (v4nth (mkV4 bm0 bm1 bm2 bm3) i) (v4nth (mkV4 bm0 bm1 bm2 bm3) j)) ++ grid16 (fun i j => dis_cov f 3 (patA i j * ac) (scaled (patA i j) (seqf [ax0; ax1; ax2; ax3; ax4; ax5; ax6])) (patB i j * bc) (scaled (patB i j) (seqf [bx0; bx1; bx2; bx3; bx4; bx5; bx6])) (v4nth (mkV4 am0 am1 am2 am3) i) (v4nth (mkV4 am0 am1 am2 am3) j) (v4nth (mkV4 bm0 bm1 bm2 bm3) i) (v4nth (mkV4 bm0 bm1 bm2 bm3) j)) ++ grid16 (fun i j => dis_xcov f 3 1 (scaled (patA i j) (seqf [ax0; ax1; ax2; ax3; ax4; ax5; ax6])) (scaled (patB i j) (seqf [bx0; bx1; bx2; bx3; bx4; bx5; bx6]))).
Proof. tie. Qed.

Lemma tie_pred_comp_n1_a0 f am0 am1 am2 am3 ac ax0 ax1 bm0 bm1 bm2 bm3 bc bx0 bx1 ic :
  pred_comp_n1_a0 (OO:=ROps) f am0 am1 am2 am3 ac ax0 ax1 bm0 bm1 bm2 bm3 bc bx0 bx1 ic =
  grid4 (fun i => comp_mean 1 0 (v4nth (mkV4 am0 am1 am2 am3) i) (v4nth (mkV4 bm0 bm1 bm2 bm3) i)) ++ grid16 (fun i j => comp_cov 1 0 (patA i j * ac) (scaled (patA i j) (seqf [ax0; ax1])) (patB i j * bc) (scaled (patB i j) (seqf [bx0; bx1])) (v4nth (mkV4 am0 am1 am2 am3) i * v4nth (mkV4 bm0 bm1 bm2 bm3) j) (v4nth (mkV4 am0 am1 am2 am3) j * v4nth (mkV4 bm0 bm1 bm2 bm3) i) ic) ++ grid16 (fun i j => comp_cov 1 0 (patA i j * ac) (scaled (patA i j) (seqf [ax0; ax1])) (patB i j * bc) (scaled (patB i j) (seqf [bx0; bx1])) (v4nth (mkV4 am0 am1 am2 am3) i * v4nth (mkV4 bm0 bm1 bm2 bm3) j) (v4nth (mkV4 am0 am1 am2 am3) j * v4nth (mkV4 bm0 bm1 bm2 bm3) i) ic).
Proof. tie. Qed.

Lemma tie_pred_comp_n1_a1 f am0 am1 am2 am3 ac ax0 ax1 bm0 bm1 bm2 bm3 bc bx0 bx1 ic :
  pred_comp_n1_a1 (OO:=ROps) f am0 am1 am2 am3 ac ax0 ax1 bm0 bm1 bm2 bm3 bc bx0 bx1 ic =
  grid4 (fun i => comp_mean 1 1 (v4nth (mkV4 am0 am1 am2 am3) i) (v4nth (mkV4 bm0 bm1 bm2 bm3) i)) ++ grid16 (fun i j => comp_cov 1 1 (patA i j * ac) (scaled (patA i j) (seqf [ax0; ax1])) (patB i j * bc) (scaled (patB i j) (seqf [bx0; bx1])) (v4nth (mkV4 am0 am1 am2 am3) i * v4nth (mkV4 bm0 bm1 bm2 bm3) j) (v4nth (mkV4 am0 am1 am2 am3) j * v4nth (mkV4 bm0 bm1 bm2 bm3) i) ic) ++ grid16 (fun i j => comp_cov 1 1 (patA i j * ac) (scaled (patA i j) (seqf [ax0; ax1])) (patB i j * bc) (scaled (patB i j) (seqf [bx0; bx1])) (v4nth (mkV4 am0 am1 am2 am3) i * v4nth (mkV4 bm0 bm1 bm2 bm3) j) (v4nth (mkV4 am0 am1 am2 am3) j * v4nth (mkV4 bm0 bm1 bm2 bm3) i) ic).
Proof. tie. Qed.

Lemma tie_pred_comp_n2_a0 f am0 am1 am2 am3 ac ax0 ax1 ax2 bm0 bm1 bm2 bm3 bc bx0 bx1 bx2 ic :
  pred_comp_n2_a0 (OO:=ROps) f am0 am1 am2 am3 ac ax0 ax1 ax2 bm0 bm1 bm2 bm3 bc bx0 bx1 bx2 ic =
  grid4 (fun i => comp_mean 2 0 (v4nth (mkV4 am0 am1 am2 am3) i) (v4nth (mkV4 bm0 bm1 bm2 bm3) i)) ++ grid16 (fun i j => comp_cov 2 0 (patA i j * ac) (scaled (patA i j) (seqf [ax0; ax1; ax2])) (patB i j * bc) (scaled (patB i j) (seqf [bx0; bx1; bx2])) (v4nth (mkV4 am0 am1 am2 am3) i * v4nth (mkV4 bm0 bm1 bm2 bm3) j) (v4nth (mkV4 am0 am1 am2 am3) j * v4nth (mkV4 bm0 bm1 bm2 bm3) i) ic) ++ grid16 (fun i j => comp_cov 2 0 (patA i j * ac) (scaled (patA i j) (seqf [ax0; ax1; ax2])) (patB i j * bc) (scaled (patB i j) (seqf [bx0; bx1; bx2])) (v4nth (mkV4 am0 am1 am2 am3) i * v4nth (mkV4 bm0 bm1 bm2 bm3) j) (v4nth (mkV4 am0 am1 am2 am3) j * v4nth (mkV4 bm0 bm1 bm2 bm3) i) ic).
Proof. tie. Qed.

Lemma tie_pred_comp_n2_a1 f am0 am1 am2 am3 ac ax0 ax1 ax2 bm0 bm1 bm2 bm3 bc bx0 bx1 bx2 ic :
  pred_comp_n2_a1 (OO:=ROps) f am0 am1 am2 am3 ac ax0 ax1 ax2 bm0 bm1 bm2 bm3 bc bx0 bx1 bx2 ic =
  grid4 (fun i => comp_mean 2 1 (v4nth (mkV4 am0 am1 am2 am3) i) (v4nth (mkV4 bm0 bm1 bm2 bm3) i)) ++ grid16 (fun i j => comp_cov 2 1 (patA i j * ac) (scaled (patA i j) (seqf [ax0; ax1; ax2])) (patB i j * bc) (scaled (patB i j) (seqf [bx0; bx1; bx2])) (v4nth (mkV4 am0 am1 am2 am3) i * v4nth (mkV4 bm0 bm1 bm2 bm3) j) (v4nth (mkV4 am0 am1 am2 am3) j * v4nth (mkV4 bm0 bm1 bm2 bm3) i) ic) ++ grid16 (fun i j => comp_cov 2 1 (patA i j * ac) (scaled (patA i j) (seqf [ax0; ax1; ax2])) (patB i j * bc) (scaled (patB i j) (seqf [bx0; bx1; bx2])) (v4nth (mkV4 am0 am1 am2 am3) i * v4nth (mkV4 bm0 bm1 bm2 bm3) j) (v4nth (mkV4 am0 am1 am2 am3) j * v4nth (mkV4 bm0 bm1 bm2 bm3) i) ic).
Proof. tie. Qed.

Lemma tie_pred_comp_n2_a2 f am0 am1 am2 am3 ac ax0 ax1 ax2 bm0 bm1 bm2 bm3 bc bx0 bx1 bx2 ic :
  pred_comp_n2_a2 (OO:=ROps) f am0 am1 am2 am3 ac ax0 ax1 ax2 bm0 bm1 bm2 bm3 bc bx0 bx1 bx2 ic =
  grid4 (fun i => comp_mean 2 2 (v4nth (mkV4 am0 am1 am2 am3) i) (v4nth (mkV4 bm0 bm1 bm2 bm3) i)) ++ grid16 (fun i j => comp_cov 2 2 (patA i j * ac) (scaled (patA i j) (seqf [ax0; ax1; ax2])) (patB i j * bc) (scaled (patB i j) (seqf [bx0; bx1; bx2])) (v4nth (mkV4 am0 am1 am2 am3) i * v4nth (mkV4 bm0 bm1 bm2 bm3) j) (v4nth (mkV4 am0 am1 am2 am3) j * v4nth (mkV4 bm0 bm1 bm2 bm3) i) ic) ++ grid16 (fun i j => comp_cov 2 2 (patA i j * ac) (scaled (patA i j) (seqf [ax0; ax1; ax2])) (patB i j * bc) (scaled (patB i j) (seqf [bx0; bx1; bx2])) (v4nth (mkV4 am0 am1 am2 am3) i * v4nth (mkV4 bm0 bm1 bm2 bm3) j) (v4nth (mkV4 am0 am1 am2 am3) j * v4nth (mkV4 bm0 bm1 bm2 bm3) i) ic).
Proof. tie. Qed.

Lemma tie_pred_comp_n3_a1 f am0 am1 am2 am3 ac ax0 ax1 ax2 ax3 bm0 bm1 bm2 bm3 bc bx0 bx1 bx2 bx3 ic :
  pred_comp_n3_a1 (OO:=ROps) f am0 am1 am2 am3 ac ax0 ax1 ax2 ax3 bm0 bm1 bm2 bm3 bc bx0 bx1 bx2 bx3 ic =
  grid4 (fun i => comp_mean 3 1 (v4nth (mkV4 am0 am1 am2 am3) i) (v4nth (mkV4 bm0 bm1 bm2 bm3) i)) ++ grid16 (fun i j => comp_cov 3 1 (patA i j * ac) (scaled (patA i j) (seqf [ax0; ax1; ax2; ax3])) (patB i j * bc) (scaled (patB i j) (seqf [bx0; bx1; bx2; bx3])) (v4nth (mkV4 am0 am1 am2 am3) i * v4nth (mkV4 bm0 bm1 bm2 bm3) j) (v4nth (mkV4 am0 am1 am2 am3) j * v4nth (mkV4 bm0 bm1 bm2 bm3) i) ic) ++ grid16 (fun i j => comp_cov 3 1 (patA i j * ac) (scaled (patA i j) (seqf [ax0; ax1; ax2; ax3])) (patB i j * bc) (scaled (patB i j) (seqf [bx0; bx1; bx2; bx3])) (v4nth (mkV4 am0 am1 am2 am3) i * v4nth (mkV4 bm0 bm1 bm2 bm3) j) (v4nth (mkV4 am0 am1 am2 am3) j * v4nth (mkV4 bm0 bm1 bm2 bm3) i) ic).
Proof. tie. Qed.

Lemma tie_pred_comp_n3_a2 f am0 am1 am2 am3 ac ax0 ax1 ax2 ax3 bm0 bm1 bm2 bm3 bc bx0 bx1 bx2 bx3 ic :
  pred_comp_n3_a2 (OO:=ROps) f am0 am1 am2 am3 ac ax0 ax1 ax2 ax3 bm0 bm1 bm2 bm3 bc bx0 bx1 bx2 bx3 ic =
  grid4 (fun i => comp_mean 3 2 (v4nth (mkV4 am0 am1 am2 am3) i) (v4nth (mkV4 bm0 bm1 bm2 bm3) i)) ++ grid16 (fun i j => comp_cov 3 2 (patA i j * ac) (scaled (patA i j) (seqf [ax0; ax1; ax2; ax3])) (patB i j * bc) (scaled (patB i j) (seqf [bx0; bx1; bx2; bx3])) (v4nth (mkV4 am0 am1 am2 am3) i * v4nth (mkV4 bm0 bm1 bm2 bm3) j) (v4nth (mkV4 am0 am1 am2 am3) j * v4nth (mkV4 bm0 bm1 bm2 bm3) i) ic) ++ grid16 (fun i j => comp_cov 3 2 (patA i j * ac) (scaled (patA i j) (seqf [ax0; ax1; ax2; ax3])) (patB i j * bc) (scaled (patB i j) (seqf [bx0; bx1; bx2; bx3])) (v4nth (mkV4 am0 am1 am2 am3) i * v4nth (mkV4 bm0 bm1 bm2 bm3) j) (v4nth (mkV4 am0 am1 am2 am3) j * v4nth (mkV4 bm0 bm1 bm2 bm3) i) ic).
Proof. tie. Qed.

Lemma tie_pred_comp_n4_a2 f am0 am1 am2 am3 ac ax0 ax1 ax2 ax3 ax4 bm0 bm1 bm2 bm3 bc bx0 bx1 bx2 bx3 bx4 ic :
  pred_comp_n4_a2 (OO:=ROps) f am0 am1 am2 am3 ac ax0 ax1 ax2 ax3 ax4 bm0 bm1 bm2 bm3 bc bx0 bx1 bx2 bx3 bx4 ic =
  grid4 (fun i => comp_mean 4 2 (v4nth (mkV4 am0 am1 am2 am3) i) (v4nth (mkV4 bm0 bm1 bm2 bm3) i)) ++ grid16 (fun i j => comp_cov 4 2 (patA i j * ac) (scaled (patA i j) (seqf [ax0; ax1; ax2; ax3; ax4])) (patB i j * bc) (scaled (patB i j) (seqf [bx0; bx1; bx2; bx3; bx4])) (v4nth (mkV4 am0 am1 am2 am3) i * v4nth (mkV4 bm0 bm1 bm2 bm3) j) (v4nth (mkV4 am0 am1 am2 am3) j * v4nth (mkV4 bm0 bm1 bm2 bm3) i) ic) ++ grid16 (fun i j => comp_cov 4 2 (patA i j * ac) (scaled (patA i j) (seqf [ax0; ax1; ax2; ax3; ax4])) (patB i j * bc) (scaled (patB i j) (seqf [bx0; bx1; bx2; bx3; bx4])) (v4nth (mkV4 am0 am1 am2 am3) i * v4nth (mkV4 bm0 bm1 bm2 bm3) j) (v4nth (mkV4 am0 am1 am2 am3) j * v4nth (mkV4 bm0 bm1 bm2 bm3) i) ic).
Proof. tie. Qed.
