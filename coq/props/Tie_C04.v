(* Tie_C04.v -- ties the functions generated from Jones.h / Matrix.h / Traits.h
   (Gen_C04, regenerated on every run) to the 2x2 complex matrix algebra of
   SpecPauli / SpecJones. *)
From Coq Require Import Reals Lra List.
From Epsic Require Import Scalar SpecPauli SpecJones Gen_C04.
Import ListNotations.
Local Open Scope R_scope.

Ltac prep := intros; unfold cnz, M2of in *;
  repeat match goal with H : _ <> _ |- _ => progress spec_cbv_in H end.
Ltac solve_entry := first [ reflexivity | ring | field; nz_auto | apply f_equal; field; nz_auto ].
Ltac tie := prep; autounfold with gen; ops_R; spec_cbv; list_eq solve_entry.

Section Ties.
Variables a00r a00i a01r a01i a10r a10i a11r a11i : R.
Variables b00r b00i b01r b01i b10r b10i b11r b11i : R.
Variables zr zi r : R.
Let A := M2of a00r a00i a01r a01i a10r a10i a11r a11i.
Let B := M2of b00r b00i b01r b01i b10r b10i b11r b11i.
Let z : C := (zr, zi).

Lemma tie_jones_mul : jones_mul (OO:=ROps) a00r a00i a01r a01i a10r a10i a11r a11i b00r b00i b01r b01i b10r b10i b11r b11i = m2list (m2mul A B).
Proof. subst A B; tie. Qed.
Lemma tie_jones_add : jones_add (OO:=ROps) a00r a00i a01r a01i a10r a10i a11r a11i b00r b00i b01r b01i b10r b10i b11r b11i = m2list (m2add A B).
Proof. subst A B; tie. Qed.
Lemma tie_jones_sub : jones_sub (OO:=ROps) a00r a00i a01r a01i a10r a10i a11r a11i b00r b00i b01r b01i b10r b10i b11r b11i = m2list (m2sub A B).
Proof. subst A B; tie. Qed.
Lemma tie_jones_neg : jones_neg (OO:=ROps) a00r a00i a01r a01i a10r a10i a11r a11i = m2list (m2neg A).
Proof. subst A; tie. Qed.
Lemma tie_jones_mulc : jones_mulc (OO:=ROps) a00r a00i a01r a01i a10r a10i a11r a11i zr zi = m2list (m2scale z A).
Proof. subst A z; tie. Qed.
Lemma tie_jones_cmul : jones_cmul (OO:=ROps) a00r a00i a01r a01i a10r a10i a11r a11i zr zi = m2list (m2scale z A).
Proof. subst A z; tie. Qed.
Lemma tie_jones_mulr : jones_mulr (OO:=ROps) a00r a00i a01r a01i a10r a10i a11r a11i r = m2list (m2scale (cofR r) A).
Proof. subst A; tie. Qed.
Lemma tie_jones_rmul : jones_rmul (OO:=ROps) a00r a00i a01r a01i a10r a10i a11r a11i r = m2list (m2scale (cofR r) A).
Proof. subst A; tie. Qed.
Lemma tie_jones_divc : cnz z ->
  jones_divc (OO:=ROps) a00r a00i a01r a01i a10r a10i a11r a11i zr zi = m2list (m2scale (cinv z) A).
Proof. subst A z; tie. Qed.
Lemma tie_jones_divr : r <> 0 ->
  jones_divr (OO:=ROps) a00r a00i a01r a01i a10r a10i a11r a11i r = m2list (m2scale (cofR (/ r)) A).
Proof. subst A; tie. Qed.
Lemma tie_jones_det : jones_det (OO:=ROps) a00r a00i a01r a01i a10r a10i a11r a11i = clist (m2det A).
Proof. subst A; tie. Qed.
Lemma tie_jones_trace : jones_trace (OO:=ROps) a00r a00i a01r a01i a10r a10i a11r a11i = clist (m2trace A).
Proof. subst A; tie. Qed.
Lemma tie_jones_norm : jones_norm (OO:=ROps) a00r a00i a01r a01i a10r a10i a11r a11i = [m2norm A].
Proof. subst A; tie. Qed.
Lemma tie_jones_conj : jones_conj (OO:=ROps) a00r a00i a01r a01i a10r a10i a11r a11i = m2list (m2conj A).
Proof. subst A; tie. Qed.
Lemma tie_jones_herm : jones_herm (OO:=ROps) a00r a00i a01r a01i a10r a10i a11r a11i = m2list (m2herm A).
Proof. subst A; tie. Qed.
Lemma tie_jones_inv : cnz (m2det A) ->
  jones_inv (OO:=ROps) a00r a00i a01r a01i a10r a10i a11r a11i = m2list (m2inv A).
Proof. subst A; tie. Qed.
Lemma tie_jones_assign_real : jones_assign_real (OO:=ROps) a00r a00i a01r a01i a10r a10i a11r a11i r = m2list (m2scale (cofR r) m2id).
Proof. tie. Qed.
Lemma tie_jones_assign_complex : jones_assign_complex (OO:=ROps) a00r a00i a01r a01i a10r a10i a11r a11i zr zi = m2list (m2scale z m2id).
Proof. subst z; tie. Qed.
Lemma tie_jones_assign_copy : jones_assign_copy (OO:=ROps) a00r a00i a01r a01i a10r a10i a11r a11i b00r b00i b01r b01i b10r b10i b11r b11i = m2list A.
Proof. subst A; tie. Qed.
Lemma tie_jones_scalar_ctor : jones_scalar_ctor (OO:=ROps) r = m2list (m2scale (cofR r) m2id).
Proof. tie. Qed.

(* casts *)
Lemma tie_jones_to_matrix : jones_to_matrix (OO:=ROps) a00r a00i a01r a01i a10r a10i a11r a11i = m2list A.
Proof. subst A; tie. Qed.
Lemma tie_matrix_to_jones : matrix_to_jones (OO:=ROps) a00r a00i a01r a01i a10r a10i a11r a11i = m2list A.
Proof. subst A; tie. Qed.
Lemma tie_jones_mul_via_matrix :
  jones_mul_via_matrix (OO:=ROps) a00r a00i a01r a01i a10r a10i a11r a11i b00r b00i b01r b01i b10r b10i b11r b11i = m2list (m2mul A B).
Proof. subst A B; tie. Qed.

(* mixed precision: the formulas are the same (single-precision stores are the identity over R) *)
Lemma tie_jones_mul_float_double :
  jones_mul_float_double (OO:=ROps) a00r a00i a01r a01i a10r a10i a11r a11i b00r b00i b01r b01i b10r b10i b11r b11i = m2list (m2mul A B).
Proof. subst A B; tie. Qed.
Lemma tie_jones_add_double_float :
  jones_add_double_float (OO:=ROps) a00r a00i a01r a01i a10r a10i a11r a11i b00r b00i b01r b01i b10r b10i b11r b11i = m2list (m2add A B).
Proof. subst A B; tie. Qed.

(* diagonality test: on every path, the answer is 1 exactly when both off-diagonal elements are zero *)
Definition offdiag_zero : Prop := a01r = 0 /\ a01i = 0 /\ a10r = 0 /\ a10i = 0.
Lemma tie_jones_is_diagonal :
  Forall (fun c : Prop * list R => fst c -> (snd c = [1] /\ offdiag_zero) \/ (snd c = [0] /\ ~ offdiag_zero))
         (jones_is_diagonal_cases (OO:=ROps) a00r a00i a01r a01i a10r a10i a11r a11i).
Proof.
  unfold offdiag_zero; autounfold with gen; ops_R.
  repeat (apply Forall_cons;
    [ cbn [fst snd]; intros PC;
      first [ left; split; [reflexivity | tauto] | right; split; [reflexivity | tauto] ] | ]).
  apply Forall_nil.
Qed.
(* the enumerated paths cover every input *)
Lemma tie_jones_is_diagonal_total :
  Exists (fun c : Prop * list R => fst c) (jones_is_diagonal_cases (OO:=ROps) a00r a00i a01r a01i a10r a10i a11r a11i).
Proof.
  autounfold with gen; ops_R.
  destruct (Req_dec a01r 0); [ destruct (Req_dec a01i 0); [ destruct (Req_dec a10r 0); [ destruct (Req_dec a10i 0) | ] | ] | ];
  repeat first [ apply Exists_cons_hd; cbn [fst]; tauto | apply Exists_cons_tl ].
Qed.

(* element access visits every stored scalar once, in storage order *)
Let Al := [a00r; a00i; a01r; a01i; a10r; a10i; a11r; a11i].
Let Bl := [b00r; b00i; b01r; b01i; b10r; b10i; b11r; b11i].
Lemma tie_jones_index_read :
  jones_index_read (OO:=ROps) a00r a00i a01r a01i a10r a10i a11r a11i = Al ++ Al ++ Al ++ Al.
Proof. subst Al; autounfold with gen; reflexivity. Qed.
Lemma tie_jones_index_write :
  jones_index_write (OO:=ROps) a00r a00i a01r a01i a10r a10i a11r a11i b00r b00i b01r b01i b10r b10i b11r b11i = Bl.
Proof. subst Bl; autounfold with gen; reflexivity. Qed.
Lemma tie_jones_rc_write :
  jones_rc_write (OO:=ROps) a00r a00i a01r a01i a10r a10i a11r a11i b00r b00i b01r b01i b10r b10i b11r b11i = Bl.
Proof. subst Bl; autounfold with gen; reflexivity. Qed.
Lemma tie_jones_write_one :
  jones_write_one0 (OO:=ROps) a00r a00i a01r a01i a10r a10i a11r a11i zr zi = [zr; zi; a01r; a01i; a10r; a10i; a11r; a11i] /\
  jones_write_one1 (OO:=ROps) a00r a00i a01r a01i a10r a10i a11r a11i zr zi = [a00r; a00i; zr; zi; a10r; a10i; a11r; a11i] /\
  jones_write_one2 (OO:=ROps) a00r a00i a01r a01i a10r a10i a11r a11i zr zi = [a00r; a00i; a01r; a01i; zr; zi; a11r; a11i] /\
  jones_write_one3 (OO:=ROps) a00r a00i a01r a01i a10r a10i a11r a11i zr zi = [a00r; a00i; a01r; a01i; a10r; a10i; zr; zi].
Proof. autounfold with gen; repeat split; reflexivity. Qed.

(* generic element-access traits *)
Lemma tie_traits_jones :
  traits_jones (OO:=ROps) a00r a00i a01r a01i a10r a10i a11r a11i = [4] ++ Al ++ Al.
Proof. subst Al; autounfold with gen; ops_R; reflexivity. Qed.
Lemma tie_traits_jones_write :
  traits_jones_write (OO:=ROps) a00r a00i a01r a01i a10r a10i a11r a11i b00r b00i b01r b01i b10r b10i b11r b11i = Bl.
Proof. subst Bl; autounfold with gen; reflexivity. Qed.
Lemma tie_traits_quat : traits_quat (OO:=ROps) a00r a00i a01r a01i = [4; a00r; a00i; a01r; a01i].
Proof. autounfold with gen; ops_R; reflexivity. Qed.
Lemma tie_traits_quat_write : traits_quat_write (OO:=ROps) a00r a00i a01r a01i b00r b00i b01r b01i = [b00r; b00i; b01r; b01i].
Proof. autounfold with gen; reflexivity. Qed.
Lemma tie_traits_vector : traits_vector (OO:=ROps) a00r a00i a01r = [3; a00r; a00i; a01r].
Proof. autounfold with gen; ops_R; reflexivity. Qed.
Lemma tie_traits_vector_write : traits_vector_write (OO:=ROps) a00r a00i a01r b00r b00i b01r = [b00r; b00i; b01r].
Proof. autounfold with gen; reflexivity. Qed.
Lemma tie_traits_stokes : traits_stokes (OO:=ROps) a00r a00i a01r a01i = [4; a00r; a00i; a01r; a01i].
Proof. autounfold with gen; ops_R; reflexivity. Qed.
Lemma tie_traits_matrix : traits_matrix (OO:=ROps) a00r a00i a01r a01i a10r a10i = [6; a00r; a00i; a01r; a01i; a10r; a10i].
Proof. autounfold with gen; ops_R; reflexivity. Qed.
Lemma tie_traits_matrix_write :
  traits_matrix_write (OO:=ROps) a00r a00i a01r a01i a10r a10i b00r b00i b01r b01i b10r b10i = [b00r; b00i; b01r; b01i; b10r; b10i].
Proof. autounfold with gen; reflexivity. Qed.
Lemma tie_traits_complex : traits_complex (OO:=ROps) zr zi = [2; zr; zi].
Proof. autounfold with gen; ops_R; reflexivity. Qed.
Lemma tie_traits_complex_write : traits_complex_write (OO:=ROps) zr zi a00r a00i = [a00r; a00i].
Proof. autounfold with gen; reflexivity. Qed.
Lemma tie_traits_estimate : traits_estimate (OO:=ROps) zr zi = [1; zr; zi].
Proof. autounfold with gen; ops_R; reflexivity. Qed.
Lemma tie_traits_estimate_write : traits_estimate_write (OO:=ROps) zr zi r = [r; zi].
Proof. autounfold with gen; reflexivity. Qed.
Lemma tie_traits_scalar : traits_scalar (OO:=ROps) r = [1; r].
Proof. autounfold with gen; ops_R; reflexivity. Qed.

(* degree of polarization of the coherency matrix of (I,Q,U,V) *)
Lemma tie_jones_p s0 s1 s2 s3 : s0 <> 0 ->
  jones_p (OO:=ROps) s0 s1 s2 s3 = [sqrt ((s1 * s1 + s2 * s2 + s3 * s3) / (s0 * s0))].
Proof. tie. Qed.
End Ties.
