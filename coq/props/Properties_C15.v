(* Properties_C15.v -- C15: Minkowski forms equal the Gaussian fourth-moment
   traces they stand for.  Statements about the functions generated from the
   current source (Gen_C15); each is closed by lemmas of Tie_C15* (source
   dependent) and SpecPauli (source independent). *)
From Coq Require Import Reals List.
From Epsic Require Import Scalar SpecPauli Gen_C15 Tie_C15 Tie_C15_tr0 Tie_C15_tr1 Tie_C15_tr2 Tie_C15_tr3.
Import ListNotations.
Local Open Scope R_scope.

(* the code's inner product is the symmetric bilinear form I_A I_B - p_A.p_B *)
Theorem C15_inner_form a0 a1 a2 a3 b0 b1 b2 b3 :
  mink_inner (OO:=ROps) a0 a1 a2 a3 b0 b1 b2 b3 = [a0 * b0 - a1 * b1 - a2 * b2 - a3 * b3].
Proof. exact (tie_mink_inner a0 a1 a2 a3 b0 b1 b2 b3). Qed.
Print Assumptions C15_inner_form.

Theorem C15_inner_symmetric a0 a1 a2 a3 b0 b1 b2 b3 :
  mink_inner (OO:=ROps) a0 a1 a2 a3 b0 b1 b2 b3 = mink_inner (OO:=ROps) b0 b1 b2 b3 a0 a1 a2 a3.
Proof. rewrite !tie_mink_inner, mink_inner_sym. reflexivity. Qed.
Print Assumptions C15_inner_symmetric.

(* inner(A,A) is the Lorentz invariant the Stokes class computes *)
Theorem C15_inner_self_is_invariant a0 a1 a2 a3 :
  mink_inner_self_inner (OO:=ROps) a0 a1 a2 a3 = mink_inner_self_invariant (OO:=ROps) a0 a1 a2 a3.
Proof.
  pose proof (tie_mink_inner_self a0 a1 a2 a3) as H. unfold mink_inner_self in H.
  pose proof (f_equal (fun l => nth 0 l 0) H) as H1. pose proof (f_equal (fun l => nth 1 l 0) H) as H2.
  cbn [nth] in H1, H2. rewrite H1, H2. reflexivity.
Qed.
Print Assumptions C15_inner_self_is_invariant.

(* outer(A,B) = A (x) B - 1/2 eta (A.B): bilinear, and transposition swaps the arguments *)
Definition gen_outer (a b : V4) : list R :=
  mink_outer (OO:=ROps) (v0 a) (v1 a) (v2 a) (v3 a) (v0 b) (v1 b) (v2 b) (v3 b).

Lemma gen_outer_spec a b : gen_outer a b = grid16 (mink_outer_spec a b).
Proof. destruct a, b. exact (tie_mink_outer _ _ _ _ _ _ _ _). Qed.

Theorem C15_outer_entries a b i j : (i < 4)%nat -> (j < 4)%nat ->
  nth (4 * i + j) (gen_outer a b) 0 = mink_outer_spec a b i j.
Proof.
  intros Hi Hj. rewrite gen_outer_spec.
  do 4 (destruct i as [|i]; [ do 4 (destruct j as [|j]; [ reflexivity | ]); exfalso; Lia.lia | ]); exfalso; Lia.lia.
Qed.
Print Assumptions C15_outer_entries.

Theorem C15_outer_transpose a b i j : (i < 4)%nat -> (j < 4)%nat ->
  nth (4 * i + j) (gen_outer a b) 0 = nth (4 * j + i) (gen_outer b a) 0.
Proof. intros. rewrite !C15_outer_entries by assumption. apply mink_outer_transpose. Qed.
Print Assumptions C15_outer_transpose.

Theorem C15_outer_bilinear r s a b c i j : (i < 4)%nat -> (j < 4)%nat ->
  nth (4 * i + j) (gen_outer (v4add (v4scale r a) (v4scale s b)) c) 0
  = r * nth (4 * i + j) (gen_outer a c) 0 + s * nth (4 * i + j) (gen_outer b c) 0
  /\ nth (4 * i + j) (gen_outer c (v4add (v4scale r a) (v4scale s b))) 0
  = r * nth (4 * i + j) (gen_outer c a) 0 + s * nth (4 * i + j) (gen_outer c b) 0.
Proof.
  intros. rewrite !C15_outer_entries by assumption.
  split; [apply mink_outer_bilinear_l | apply mink_outer_bilinear_r].
Qed.
Print Assumptions C15_outer_bilinear.

(* the code's coherency matrix and Pauli matrices are the mathematical ones *)
Theorem C15_rho_is_half_sum_of_pauli a :
  Gen_C15.rho (OO:=ROps) (v0 a) (v1 a) (v2 a) (v3 a)
  = m2list (m2scale (cofR (/2))
      (m2add (m2add (m2add (m2scale (cofR (v0 a)) (sigma 0)) (m2scale (cofR (v1 a)) (sigma 1)))
                    (m2scale (cofR (v2 a)) (sigma 2))) (m2scale (cofR (v3 a)) (sigma 3)))).
Proof. rewrite <- rho_sum. destruct a. exact (tie_rho _ _ _ _). Qed.
Print Assumptions C15_rho_is_half_sum_of_pauli.

(* outer(A,A)_ij = trace(sigma_i rho_A sigma_j rho_A), with the trace computed
   by the code's own Jones product (generated) *)
Definition gen_trace_row (i : nat) (a b : V4) : list R :=
  match i with
  | 0%nat => trace4_0 (OO:=ROps) (v0 a) (v1 a) (v2 a) (v3 a) (v0 b) (v1 b) (v2 b) (v3 b)
  | 1%nat => trace4_1 (OO:=ROps) (v0 a) (v1 a) (v2 a) (v3 a) (v0 b) (v1 b) (v2 b) (v3 b)
  | 2%nat => trace4_2 (OO:=ROps) (v0 a) (v1 a) (v2 a) (v3 a) (v0 b) (v1 b) (v2 b) (v3 b)
  | _ => trace4_3 (OO:=ROps) (v0 a) (v1 a) (v2 a) (v3 a) (v0 b) (v1 b) (v2 b) (v3 b)
  end.

Lemma gen_trace_row_spec i a b : (i < 4)%nat ->
  gen_trace_row i a b = flat_map clist (map (tr4 (SpecPauli.rho a) (SpecPauli.rho b) i) idx4).
Proof.
  intros Hi. destruct a, b.
  do 4 (destruct i as [|i]; [ first [ exact (tie_trace4_0 _ _ _ _ _ _ _ _) | exact (tie_trace4_1 _ _ _ _ _ _ _ _)
                                      | exact (tie_trace4_2 _ _ _ _ _ _ _ _) | exact (tie_trace4_3 _ _ _ _ _ _ _ _) ] | ]).
  exfalso; Lia.lia.
Qed.

Theorem C15_outer_self_is_trace a i j : (i < 4)%nat -> (j < 4)%nat ->
  nth (2 * j) (gen_trace_row i a a) 0 = nth (4 * i + j) (gen_outer a a) 0
  /\ nth (2 * j + 1) (gen_trace_row i a a) 0 = 0.
Proof.
  intros Hi Hj. rewrite gen_trace_row_spec, C15_outer_entries by assumption.
  unfold idx4; cbn [map flat_map app clist].
  pose proof (fun j H => outer_self_is_trace a i j Hi H) as T.
  do 4 (destruct j as [|j]; [ rewrite (T _ Hj); split; reflexivity | ]); exfalso; Lia.lia.
Qed.
Print Assumptions C15_outer_self_is_trace.

Theorem C15_outer_sym_is_trace a b i j : (i < 4)%nat -> (j < 4)%nat ->
  nth (2 * j) (gen_trace_row i a b) 0 + nth (2 * j) (gen_trace_row i b a) 0
    = nth (4 * i + j) (gen_outer a b) 0 + nth (4 * i + j) (gen_outer b a) 0
  /\ nth (2 * j + 1) (gen_trace_row i a b) 0 + nth (2 * j + 1) (gen_trace_row i b a) 0 = 0.
Proof.
  intros Hi Hj. rewrite !gen_trace_row_spec, !C15_outer_entries by assumption.
  unfold idx4; cbn [map flat_map app clist].
  pose proof (fun j H => outer_sym_is_trace a b i j Hi H) as T.
  do 4 (destruct j as [|j]; [ specialize (T _ Hj); unfold cadd in T; injection T as T1 T2; split; [exact T1 | exact T2] | ]);
  exfalso; Lia.lia.
Qed.
Print Assumptions C15_outer_sym_is_trace.

(* non-vacuity: a concrete pair *)
Example C15_example : nth 5 (gen_outer (mkV4 2 1 0 0) (mkV4 3 0 1 0)) 0 = 1 * 0 - / 2 * -1 * (2 * 3 - 1 * 0 - 0 * 1 - 0 * 0).
Proof.
  change 5%nat with (4 * 1 + 1)%nat.
  rewrite (C15_outer_entries (mkV4 2 1 0 0) (mkV4 3 0 1 0) 1 1) by Lia.lia.
  unfold mink_outer_spec, mink_inner_spec, eta; spec_cbv; ring.
Qed.
