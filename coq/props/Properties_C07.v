(* Properties_C07.v -- C07: amplitude-modulation models report the statistics of
   the factors they generate. *)
From Coq Require Import Reals Lra List Arith.
From Epsic Require Import Scalar SampleModel FilterModels LogNormal Gen_C07 Tie_C07.
Import ListNotations.
Local Open Scope R_scope.

(* modulating a field multiplies its instantaneous Stokes parameters by the (non-negative) factor *)
Theorem C07_modulation_scales_stokes xr xi yr yi m : 0 <= m ->
  halves_eq 4 (transform_scales_stokes (OO:=ROps) xr xi yr yi m).
Proof. exact (law_transform_scales_stokes xr xi yr yi m). Qed.
Print Assumptions C07_modulation_scales_stokes.

(* predicted mean mu S and covariance (mu^2+s^2) C + s^2 S S^T; that IS the covariance of m*s for independent m *)
Theorem C07_modulated_mode_prediction s0 s1 s2 s3 mu v :
  let S := fun i => nth i [s0; s1; s2; s3] 0 in
  let C := fun i j => nth (4 * i + j) (skipn 20 (modulated_prediction (OO:=ROps) s0 s1 s2 s3 mu v)) 0 in
  firstn 20 (modulated_prediction (OO:=ROps) s0 s1 s2 s3 mu v)
  = [mu * s0; mu * s1; mu * s2; mu * s3] ++ grid16 (fun i j => (mu * mu + v) * C i j + v * (S i * S j)).
Proof. exact (tie_modulated_prediction s0 s1 s2 s3 mu v). Qed.
Theorem C07_modulated_covariance_is_exact mu v Cij Si Sj :
  (mu * mu + v) * (Cij + Si * Sj) - (mu * Si) * (mu * Sj) = (mu * mu + v) * Cij + v * (Si * Sj).
Proof. exact (modulated_covariance mu v Cij Si Sj). Qed.

(* log-normal: for every expectation functional with the Gaussian mgf the factor has mean 1 and
   variance exp(sigma^2) - 1 = beta^2, which is what the model reports *)
Theorem C07_lognormal (E1 : (R -> R) -> R) :
  (forall f g, (forall x, f x = g x) -> E1 f = E1 g) ->
  (forall a c, E1 (fun x => exp (a * x + c)) = exp (c + a * a / 2)) ->
  forall beta,
  E1 (fun g => nth 0 (lognormal_factor (OO:=ROps) beta g) 0) = nth 1 (lognormal_factor (OO:=ROps) beta 0) 0 /\
  E1 (fun g => nth 0 (lognormal_factor (OO:=ROps) beta g) 0 * nth 0 (lognormal_factor (OO:=ROps) beta g) 0) - 1
     = nth 2 (lognormal_factor (OO:=ROps) beta 0) 0 /\
  nth 2 (lognormal_factor (OO:=ROps) beta 0) 0 = beta * beta.
Proof.
  intros Eext Emgf beta.
  rewrite (Eext (fun g => nth 0 (lognormal_factor beta g) 0) (lnf (log_sigma beta))) by (intros; rewrite tie_lognormal_factor; reflexivity).
  rewrite (Eext (fun g => nth 0 (lognormal_factor beta g) 0 * nth 0 (lognormal_factor beta g) 0)
                (fun g => lnf (log_sigma beta) g * lnf (log_sigma beta) g)) by (intros; rewrite tie_lognormal_factor; reflexivity).
  rewrite tie_lognormal_factor. cbn [nth].
  rewrite (lognormal_mean_one E1 Eext Emgf), (lognormal_second_moment E1 Eext Emgf).
  split; [reflexivity|]. split; [reflexivity|]. apply lognormal_variance_is_beta_sq.
Qed.
Print Assumptions C07_lognormal.

(* boxcar: for EVERY width and call index the generated value is the mean of w consecutive draws ... *)
Theorem C07_boxcar_moving_average w d t : (1 <= w)%nat ->
  boxcar_out w d t = sumf (fun i => d (t + i)%nat) w / INR w.
Proof. intros H; exact (boxcar_is_moving_average w H d t). Qed.
(* ... the real ring buffer follows that model (widths 1..5, 13 calls) ... *)
Theorem C07_boxcar_code_w3 d0 d1 d2 d3 d4 d5 d6 d7 d8 d9 d10 d11 d12 d13 d14 :
  boxcar_w3 (OO:=ROps) d0 d1 d2 d3 d4 d5 d6 d7 d8 d9 d10 d11 d12 d13 d14
  = map (boxcar_out 3 (seqf [d0; d1; d2; d3; d4; d5; d6; d7; d8; d9; d10; d11; d12; d13; d14])) (seq 0 13) ++ [15].
Proof. exact (tie_boxcar_w3 d0 d1 d2 d3 d4 d5 d6 d7 d8 d9 d10 d11 d12 d13 d14). Qed.
(* ... and windows t and t+l share w - l draws, so the lag covariance of uncorrelated draws of
   variance v is v (w - l) / w^2, which is what the model reports *)
Theorem C07_boxcar_window_overlap t w l N : (t + l + w <= N)%nat ->
  sumf (fun k => ind t w k * ind (t + l) w k) N = INR (overlap w l).
Proof. exact (ind_sum_shift t w l N). Qed.
Theorem C07_boxcar_reported_statistics mu v :
  boxcar_stats (OO:=ROps) mu v =
  flat_map (fun w => [mu; v / INR w] ++ map (fun l => if Nat.ltb l w then v * INR (overlap w l) / (INR w * INR w) else 0) [1;2;3;4]%nat) [1;2;3;4]%nat.
Proof. exact (tie_boxcar_stats mu v). Qed.
Print Assumptions C07_boxcar_moving_average.

(* rectangular impulses: for EVERY width the t-th value is draw floor(t/w); the code follows *)
Theorem C07_hold_block_constant w d t : (1 <= w)%nat -> hold_out w d t = d (t / w)%nat.
Proof. intros H; exact (hold_is_block_constant w H d t). Qed.
Theorem C07_hold_code_w3 d0 d1 d2 d3 d4 d5 d6 d7 d8 d9 d10 d11 d12 :
  square_w3 (OO:=ROps) d0 d1 d2 d3 d4 d5 d6 d7 d8 d9 d10 d11 d12
  = map (hold_out 3 (seqf [d0; d1; d2; d3; d4; d5; d6; d7; d8; d9; d10; d11; d12])) (seq 0 13) ++ [IZR (Z.of_nat (12 / 3 + 1))].
Proof. exact (tie_square_w3 d0 d1 d2 d3 d4 d5 d6 d7 d8 d9 d10 d11 d12). Qed.
Print Assumptions C07_hold_block_constant.

(* the lag statistics the rectangular model reports, fed to the sample-mean formula of C06 *)
Definition table_w2_n2 (v mu : R) : nat -> R :=
  fun l => match l with 1%nat => nth 2 (square_table_w2_n2 (OO:=ROps) v mu) 0 | _ => 0 end.
Definition table_w3_n2 (v mu : R) : nat -> R :=
  fun l => match l with 1%nat => nth 2 (square_table_w3_n2 (OO:=ROps) v mu) 0
                      | 2%nat => nth 3 (square_table_w3_n2 (OO:=ROps) v mu) 0 | _ => 0 end.

(* FULL STATEMENT (false): "for rectangular impulses of any width with any sample size the factors
   have exactly the lag-correlation the model reports".
   REFUTED for the documented use width = sample size = 2: adjacent samples fall in different
   blocks, so the exact cross-covariance of their means is 0, but the prediction built from the
   reported table is v/4. *)
Theorem C07_rectangular_aligned_lag1_refuted :
  exists v mu, 0 < v /\ xcov_formula (table_w2_n2 v mu) 2 1 <> v * exact_hold_xcov 2 2 1.
Proof.
  exists 1, 1. split; [lra|].
  unfold xcov_formula, brute, table_w2_n2, exact_hold_xcov, pair_count, same_block.
  autounfold with gen; ops_R.
  cbv beta iota delta [sumf absdiff nth Nat.leb Nat.sub Nat.add Nat.mul Nat.eqb Nat.div Nat.divmod fst snd INR].
  lra.
Qed.
(* and for width 3, sample size 2 at lag 0 (predicted variance 1, exact 5/6) *)
Theorem C07_rectangular_misaligned_lag0_refuted :
  exists v mu, 0 < v /\ cov_formula v (table_w3_n2 v mu) 2 <> v * exact_hold_xcov 3 2 0.
Proof.
  exists 1, 1. split; [lra|].
  unfold cov_formula, table_w3_n2, exact_hold_xcov, pair_count, same_block.
  autounfold with gen; ops_R.
  cbv beta iota delta [sumf absdiff nth Nat.leb Nat.sub Nat.add Nat.mul Nat.eqb Nat.div Nat.divmod fst snd INR].
  lra.
Qed.
Print Assumptions C07_rectangular_aligned_lag1_refuted.
