(* Properties_C14.v -- C14: rotation and basis matrices are proper orthogonal for
   every angle and axis. *)
From Coq Require Import Reals List.
From Epsic Require Import Scalar Gen_C14 Tie_C14.
Import ListNotations.
Local Open Scope R_scope.

Theorem C14_rotation_proper_orthogonal v0 v1 v2 th : v0*v0 + v1*v1 + v2*v2 = 1 ->
  rotation_orthogonal (OO:=ROps) v0 v1 v2 th = [1;0;0; 0;1;0; 0;0;1] ++ [1] ++ [v0; v1; v2].
Proof. exact (tie_rotation_orthogonal v0 v1 v2 th). Qed.
Print Assumptions C14_rotation_proper_orthogonal.

Theorem C14_rodrigues v0 v1 v2 x0 x1 x2 th : halves_eq 3 (rotation_rodrigues (OO:=ROps) v0 v1 v2 x0 x1 x2 th).
Proof. exact (law_rotation_rodrigues v0 v1 v2 x0 x1 x2 th). Qed.
Print Assumptions C14_rodrigues.

Theorem C14_additive_in_angle v0 v1 v2 t1 t2 : v0*v0 + v1*v1 + v2*v2 = 1 ->
  halves_eq 9 (rotation_compose (OO:=ROps) v0 v1 v2 t1 t2).
Proof. exact (law_rotation_compose v0 v1 v2 t1 t2). Qed.
Print Assumptions C14_additive_in_angle.

Theorem C14_basis_matrices o e x0 x1 x2 :
  basis_ok (basis_ell (OO:=ROps) o e) /\ basis_ok (basis_lin (OO:=ROps)) /\ basis_ok (basis_circ (OO:=ROps)) /\
  basis_quarter_pi (OO:=ROps) = basis_circ (OO:=ROps) /\ basis_default (OO:=ROps) = basis_lin (OO:=ROps) /\
  halves_eq 6 (basis_roundtrip_ell (OO:=ROps) o e x0 x1 x2) /\ halves_eq 6 (basis_roundtrip_circ (OO:=ROps) x0 x1 x2).
Proof.
  conj_split.
  - apply tie_basis_ell.
  - apply tie_basis_lin.
  - apply tie_basis_circ.
  - apply tie_basis_quarter_pi.
  - apply tie_basis_default.
  - apply law_basis_roundtrip_ell.
  - apply law_basis_roundtrip_circ.
Qed.
Print Assumptions C14_basis_matrices.

Theorem C14_basis_histories o1 e1 o2 e2 o3 e3 :
  halves_eq 20 (basis_history_ECE (OO:=ROps) o1 e1 o2 e2 o3 e3) /\
  halves_eq 20 (basis_history_EEL (OO:=ROps) o1 e1 o2 e2 o3 e3) /\
  halves_eq 20 (basis_history_CLE (OO:=ROps) o1 e1 o2 e2 o3 e3).
Proof. conj_split; [apply law_basis_history_ECE | apply law_basis_history_EEL | apply law_basis_history_CLE]. Qed.

Example C14_unit_axis_exists : (3/5)*(3/5) + 0*0 + (4/5)*(4/5) = 1.
Proof. Lra.lra. Qed.
