(* Tie_C16.v -- GENERATED ONCE by harness/gen_tie_C16.py and committed.
   LAW obligations of C16: for every (type, compound operator, alias shape) the
   components left in the destination by the real in-place operator (first half
   of the generated list) equal those of the binary operator applied to copies
   of the operands' original values (second half), for all values. *)
From Coq Require Import Reals Lra List.
From Epsic Require Import Scalar Gen_C16.
Import ListNotations.
Local Open Scope R_scope.

Definition halves_eq (n : nat) (l : list R) : Prop := firstn n l = skipn n l.

Ltac law := intros; unfold halves_eq; autounfold with gen; ops_R; cbn [firstn skipn];
  list_eq ltac:(first [ring | field; auto; try lra]).

Lemma law_vec4_mul_elem0 x0 x1 x2 x3 :
  halves_eq 4 (vec4_mul_elem0 (OO:=ROps) x0 x1 x2 x3).
Proof. law. Qed.

Lemma law_vec4_div_elem0 x0 x1 x2 x3 (H0 : x0 <> 0) :
  halves_eq 4 (vec4_div_elem0 (OO:=ROps) x0 x1 x2 x3).
Proof. law. Qed.

Lemma law_stokes_div_elem0 x0 x1 x2 x3 (H0 : x0 <> 0) :
  halves_eq 4 (stokes_div_elem0 (OO:=ROps) x0 x1 x2 x3).
Proof. law. Qed.

Lemma law_stokes_mul_elem0 x0 x1 x2 x3 :
  halves_eq 4 (stokes_mul_elem0 (OO:=ROps) x0 x1 x2 x3).
Proof. law. Qed.

Lemma law_vec4_mul_elem1 x0 x1 x2 x3 :
  halves_eq 4 (vec4_mul_elem1 (OO:=ROps) x0 x1 x2 x3).
Proof. law. Qed.

Lemma law_vec4_div_elem1 x0 x1 x2 x3 (H0 : x1 <> 0) :
  halves_eq 4 (vec4_div_elem1 (OO:=ROps) x0 x1 x2 x3).
Proof. law. Qed.

Lemma law_stokes_div_elem1 x0 x1 x2 x3 (H0 : x1 <> 0) :
  halves_eq 4 (stokes_div_elem1 (OO:=ROps) x0 x1 x2 x3).
Proof. law. Qed.

Lemma law_stokes_mul_elem1 x0 x1 x2 x3 :
  halves_eq 4 (stokes_mul_elem1 (OO:=ROps) x0 x1 x2 x3).
Proof. law. Qed.

Lemma law_vec4_mul_elem2 x0 x1 x2 x3 :
  halves_eq 4 (vec4_mul_elem2 (OO:=ROps) x0 x1 x2 x3).
Proof. law. Qed.

Lemma law_vec4_div_elem2 x0 x1 x2 x3 (H0 : x2 <> 0) :
  halves_eq 4 (vec4_div_elem2 (OO:=ROps) x0 x1 x2 x3).
Proof. law. Qed.

Lemma law_stokes_div_elem2 x0 x1 x2 x3 (H0 : x2 <> 0) :
  halves_eq 4 (stokes_div_elem2 (OO:=ROps) x0 x1 x2 x3).
Proof. law. Qed.

Lemma law_stokes_mul_elem2 x0 x1 x2 x3 :
  halves_eq 4 (stokes_mul_elem2 (OO:=ROps) x0 x1 x2 x3).
Proof. law. Qed.

Lemma law_vec4_mul_elem3 x0 x1 x2 x3 :
  halves_eq 4 (vec4_mul_elem3 (OO:=ROps) x0 x1 x2 x3).
Proof. law. Qed.

Lemma law_vec4_div_elem3 x0 x1 x2 x3 (H0 : x3 <> 0) :
  halves_eq 4 (vec4_div_elem3 (OO:=ROps) x0 x1 x2 x3).
Proof. law. Qed.

Lemma law_stokes_div_elem3 x0 x1 x2 x3 (H0 : x3 <> 0) :
  halves_eq 4 (stokes_div_elem3 (OO:=ROps) x0 x1 x2 x3).
Proof. law. Qed.

Lemma law_stokes_mul_elem3 x0 x1 x2 x3 :
  halves_eq 4 (stokes_mul_elem3 (OO:=ROps) x0 x1 x2 x3).
Proof. law. Qed.

Lemma law_vec4_add_self x0 x1 x2 x3 :
  halves_eq 4 (vec4_add_self (OO:=ROps) x0 x1 x2 x3).
Proof. law. Qed.

Lemma law_vec4_sub_self x0 x1 x2 x3 :
  halves_eq 4 (vec4_sub_self (OO:=ROps) x0 x1 x2 x3).
Proof. law. Qed.

Lemma law_vec4_mul_distinct x0 x1 x2 x3 c :
  halves_eq 4 (vec4_mul_distinct (OO:=ROps) x0 x1 x2 x3 c).
Proof. law. Qed.

Lemma law_vec4_div_distinct x0 x1 x2 x3 c (H0 : c <> 0) :
  halves_eq 4 (vec4_div_distinct (OO:=ROps) x0 x1 x2 x3 c).
Proof. law. Qed.

Lemma law_stokes_fractional x0 x1 x2 x3 (H0 : x0 <> 0) :
  halves_eq 4 (stokes_fractional (OO:=ROps) x0 x1 x2 x3).
Proof. law. Qed.

Lemma law_mat2_mul_elem0 m00 m01 m10 m11 :
  halves_eq 4 (mat2_mul_elem0 (OO:=ROps) m00 m01 m10 m11).
Proof. law. Qed.

Lemma law_mat2_div_elem0 m00 m01 m10 m11 (H0 : m00 <> 0) :
  halves_eq 4 (mat2_div_elem0 (OO:=ROps) m00 m01 m10 m11).
Proof. law. Qed.

Lemma law_mat2_mul_elem1 m00 m01 m10 m11 :
  halves_eq 4 (mat2_mul_elem1 (OO:=ROps) m00 m01 m10 m11).
Proof. law. Qed.

Lemma law_mat2_div_elem1 m00 m01 m10 m11 (H0 : m01 <> 0) :
  halves_eq 4 (mat2_div_elem1 (OO:=ROps) m00 m01 m10 m11).
Proof. law. Qed.

Lemma law_mat2_mul_elem2 m00 m01 m10 m11 :
  halves_eq 4 (mat2_mul_elem2 (OO:=ROps) m00 m01 m10 m11).
Proof. law. Qed.

Lemma law_mat2_div_elem2 m00 m01 m10 m11 (H0 : m10 <> 0) :
  halves_eq 4 (mat2_div_elem2 (OO:=ROps) m00 m01 m10 m11).
Proof. law. Qed.

Lemma law_mat2_mul_elem3 m00 m01 m10 m11 :
  halves_eq 4 (mat2_mul_elem3 (OO:=ROps) m00 m01 m10 m11).
Proof. law. Qed.

Lemma law_mat2_div_elem3 m00 m01 m10 m11 (H0 : m11 <> 0) :
  halves_eq 4 (mat2_div_elem3 (OO:=ROps) m00 m01 m10 m11).
Proof. law. Qed.

Lemma law_mat2_add_self m00 m01 m10 m11 :
  halves_eq 4 (mat2_add_self (OO:=ROps) m00 m01 m10 m11).
Proof. law. Qed.

Lemma law_jones_mul_self j00r j00i j01r j01i j10r j10i j11r j11i :
  halves_eq 8 (jones_mul_self (OO:=ROps) j00r j00i j01r j01i j10r j10i j11r j11i).
Proof. law. Qed.

Lemma law_jones_add_self j00r j00i j01r j01i j10r j10i j11r j11i :
  halves_eq 8 (jones_add_self (OO:=ROps) j00r j00i j01r j01i j10r j10i j11r j11i).
Proof. law. Qed.

Lemma law_jones_sub_self j00r j00i j01r j01i j10r j10i j11r j11i :
  halves_eq 8 (jones_sub_self (OO:=ROps) j00r j00i j01r j01i j10r j10i j11r j11i).
Proof. law. Qed.

Lemma law_jones_mul_celem0 j00r j00i j01r j01i j10r j10i j11r j11i :
  halves_eq 8 (jones_mul_celem0 (OO:=ROps) j00r j00i j01r j01i j10r j10i j11r j11i).
Proof. law. Qed.

Lemma law_jones_div_celem0 j00r j00i j01r j01i j10r j10i j11r j11i (H0 : j00r * j00r + j00i * j00i <> 0) :
  halves_eq 8 (jones_div_celem0 (OO:=ROps) j00r j00i j01r j01i j10r j10i j11r j11i).
Proof. law. Qed.

Lemma law_jones_mul_celem1 j00r j00i j01r j01i j10r j10i j11r j11i :
  halves_eq 8 (jones_mul_celem1 (OO:=ROps) j00r j00i j01r j01i j10r j10i j11r j11i).
Proof. law. Qed.

Lemma law_jones_div_celem1 j00r j00i j01r j01i j10r j10i j11r j11i (H0 : j01r * j01r + j01i * j01i <> 0) :
  halves_eq 8 (jones_div_celem1 (OO:=ROps) j00r j00i j01r j01i j10r j10i j11r j11i).
Proof. law. Qed.

Lemma law_jones_mul_celem2 j00r j00i j01r j01i j10r j10i j11r j11i :
  halves_eq 8 (jones_mul_celem2 (OO:=ROps) j00r j00i j01r j01i j10r j10i j11r j11i).
Proof. law. Qed.

Lemma law_jones_div_celem2 j00r j00i j01r j01i j10r j10i j11r j11i (H0 : j10r * j10r + j10i * j10i <> 0) :
  halves_eq 8 (jones_div_celem2 (OO:=ROps) j00r j00i j01r j01i j10r j10i j11r j11i).
Proof. law. Qed.

Lemma law_jones_mul_celem3 j00r j00i j01r j01i j10r j10i j11r j11i :
  halves_eq 8 (jones_mul_celem3 (OO:=ROps) j00r j00i j01r j01i j10r j10i j11r j11i).
Proof. law. Qed.

Lemma law_jones_div_celem3 j00r j00i j01r j01i j10r j10i j11r j11i (H0 : j11r * j11r + j11i * j11i <> 0) :
  halves_eq 8 (jones_div_celem3 (OO:=ROps) j00r j00i j01r j01i j10r j10i j11r j11i).
Proof. law. Qed.

Lemma law_jones_mul_distinct j00r j00i j01r j01i j10r j10i j11r j11i b00r b00i b01r b01i b10r b10i b11r b11i :
  halves_eq 8 (jones_mul_distinct (OO:=ROps) j00r j00i j01r j01i j10r j10i j11r j11i b00r b00i b01r b01i b10r b10i b11r b11i).
Proof. law. Qed.

Lemma law_quat_mul_elem0 q0 q1 q2 q3 :
  halves_eq 4 (quat_mul_elem0 (OO:=ROps) q0 q1 q2 q3).
Proof. law. Qed.

Lemma law_quat_div_elem0 q0 q1 q2 q3 (H0 : q0 <> 0) :
  halves_eq 4 (quat_div_elem0 (OO:=ROps) q0 q1 q2 q3).
Proof. law. Qed.

Lemma law_quat_mul_elem1 q0 q1 q2 q3 :
  halves_eq 4 (quat_mul_elem1 (OO:=ROps) q0 q1 q2 q3).
Proof. law. Qed.

Lemma law_quat_div_elem1 q0 q1 q2 q3 (H0 : q1 <> 0) :
  halves_eq 4 (quat_div_elem1 (OO:=ROps) q0 q1 q2 q3).
Proof. law. Qed.

Lemma law_quat_mul_elem2 q0 q1 q2 q3 :
  halves_eq 4 (quat_mul_elem2 (OO:=ROps) q0 q1 q2 q3).
Proof. law. Qed.

Lemma law_quat_div_elem2 q0 q1 q2 q3 (H0 : q2 <> 0) :
  halves_eq 4 (quat_div_elem2 (OO:=ROps) q0 q1 q2 q3).
Proof. law. Qed.

Lemma law_quat_mul_elem3 q0 q1 q2 q3 :
  halves_eq 4 (quat_mul_elem3 (OO:=ROps) q0 q1 q2 q3).
Proof. law. Qed.

Lemma law_quat_div_elem3 q0 q1 q2 q3 (H0 : q3 <> 0) :
  halves_eq 4 (quat_div_elem3 (OO:=ROps) q0 q1 q2 q3).
Proof. law. Qed.

Lemma law_quat_addscalar_s0 q0 q1 q2 q3 :
  halves_eq 4 (quat_addscalar_s0 (OO:=ROps) q0 q1 q2 q3).
Proof. law. Qed.

Lemma law_quat_subscalar_s0 q0 q1 q2 q3 :
  halves_eq 4 (quat_subscalar_s0 (OO:=ROps) q0 q1 q2 q3).
Proof. law. Qed.

Lemma law_quat_mul_self_U q0 q1 q2 q3 :
  halves_eq 4 (quat_mul_self_U (OO:=ROps) q0 q1 q2 q3).
Proof. law. Qed.

Lemma law_quat_add_self q0 q1 q2 q3 :
  halves_eq 4 (quat_add_self (OO:=ROps) q0 q1 q2 q3).
Proof. law. Qed.

Lemma law_quat_sub_self q0 q1 q2 q3 :
  halves_eq 4 (quat_sub_self (OO:=ROps) q0 q1 q2 q3).
Proof. law. Qed.

Lemma law_biquat_mul_self_H q0r q0i q1r q1i q2r q2i q3r q3i :
  halves_eq 8 (biquat_mul_self_H (OO:=ROps) q0r q0i q1r q1i q2r q2i q3r q3i).
Proof. law. Qed.

Lemma law_est_add_self ev es :
  halves_eq 2 (est_add_self (OO:=ROps) ev es).
Proof. law. Qed.

Lemma law_est_sub_self ev es :
  halves_eq 2 (est_sub_self (OO:=ROps) ev es).
Proof. law. Qed.

Lemma law_est_mul_self ev es :
  halves_eq 2 (est_mul_self (OO:=ROps) ev es).
Proof. law. Qed.

Lemma law_est_div_self ev es (H0 : ev <> 0) :
  halves_eq 2 (est_div_self (OO:=ROps) ev es).
Proof. law. Qed.

Lemma law_meanest_add_self nv iv :
  halves_eq 2 (meanest_add_self (OO:=ROps) nv iv).
Proof. law. Qed.

Lemma law_spinor_add_self xr xi yr yi :
  halves_eq 4 (spinor_add_self (OO:=ROps) xr xi yr yi).
Proof. law. Qed.

Lemma law_spinor_mul_own_x xr xi yr yi :
  halves_eq 4 (spinor_mul_own_x (OO:=ROps) xr xi yr yi).
Proof. law. Qed.

Lemma law_spinor_div_own_re xr xi yr yi (H0 : xr <> 0) :
  halves_eq 4 (spinor_div_own_re (OO:=ROps) xr xi yr yi).
Proof. law. Qed.
