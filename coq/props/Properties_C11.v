(* Properties_C11.v -- C11: estimates propagate variances to first order exactly. *)
From Coq Require Import Reals Lra List.
From Coquelicot Require Import Coquelicot.
From Epsic Require Import Scalar Quadrature Gen_C11 Tie_C11.
Import ListNotations.
Local Open Scope R_scope.

(* value = f(values), variance = sum of (partial derivative)^2 * variance, for every operation *)
Theorem C11_arithmetic x vx y vy :
  first_order2 Rplus 1 1 x y vx vy (e_add (OO:=ROps) x vx y vy) /\
  first_order2 Rminus 1 (-1) x y vx vy (e_sub (OO:=ROps) x vx y vy) /\
  first_order2 Rmult y x x y vx vy (e_mul (OO:=ROps) x vx y vy) /\
  (y <> 0 -> first_order2 Rdiv (/ y) (- x / (y * y)) x y vx vy (e_div (OO:=ROps) x vx y vy)) /\
  first_order1 Ropp (-1) x vx (e_neg (OO:=ROps) x vx) /\
  (x <> 0 -> first_order1 (fun t => 1 / t) (- / (x * x)) x vx (e_inverse (OO:=ROps) x vx)).
Proof.
  conj_split.
  - apply tie_e_add.
  - apply tie_e_sub.
  - apply tie_e_mul.
  - apply tie_e_div.
  - apply tie_e_neg.
  - apply tie_e_inverse.
Qed.
Print Assumptions C11_arithmetic.

Theorem C11_elementary_functions x vx :
  first_order1 exp (exp x) x vx (e_exp (OO:=ROps) x vx) /\
  (0 < x -> first_order1 ln (/ x) x vx (e_log (OO:=ROps) x vx)) /\
  (0 < x -> first_order1 sqrt (/ (2 * sqrt x)) x vx (e_sqrt (OO:=ROps) x vx)) /\
  first_order1 sin (cos x) x vx (e_sin (OO:=ROps) x vx) /\
  first_order1 cos (- sin x) x vx (e_cos (OO:=ROps) x vx) /\
  (-1 < x < 1 -> first_order1 acos (-1 / sqrt (1 - x * x)) x vx (e_acos (OO:=ROps) x vx)) /\
  first_order1 atan (/ (1 + x * x)) x vx (e_atan (OO:=ROps) x vx) /\
  first_order1 sinh (cosh x) x vx (e_sinh (OO:=ROps) x vx) /\
  first_order1 cosh (sinh x) x vx (e_cosh (OO:=ROps) x vx) /\
  (-1 < x < 1 -> first_order1 Ratanh (/ (1 - x * x)) x vx (e_atanh (OO:=ROps) x vx)).
Proof.
  conj_split.
  - apply tie_e_exp.
  - apply tie_e_log.
  - apply tie_e_sqrt.
  - apply tie_e_sin.
  - apply tie_e_cos.
  - apply tie_e_acos.
  - apply tie_e_atan.
  - apply tie_e_sinh.
  - apply tie_e_cosh.
  - apply tie_e_atanh.
Qed.
Print Assumptions C11_elementary_functions.

Theorem C11_two_argument_functions s vs c vc :
  (0 < c -> first_order2 Ratan2 (c / (c * c + s * s)) (- s / (c * c + s * s)) s c vs vc (e_atan2 (OO:=ROps) s vs c vc)) /\
  (0 < s -> c <> 0 -> exists d, d * d = 1 /\ first_order2 Rcopysign d 0 s c vs vc (e_copysign (OO:=ROps) s vs c vc)).
Proof. split; [apply tie_e_atan2 | apply tie_e_copysign]. Qed.
Theorem C11_complex_product a va b vb c vc d vd :
  e_cmul (OO:=ROps) a va b vb c vc d vd =
  [a * c - b * d; c * c * va + a * a * vc + (d * d * vb + b * b * vd);
   a * d + b * c; d * d * va + a * a * vd + (c * c * vb + b * b * vc)].
Proof. exact (tie_e_cmul a va b vb c vc d vd). Qed.
Print Assumptions C11_two_argument_functions.

(* the noise-bias-corrected Lorentz invariant: first-order variance sum_i (2 S_i)^2 var_i ... *)
Theorem C11_invariant_variance s0 v0 s1 v1 s2 v2 s3 v3 :
  nth 1 (e_invariant (OO:=ROps) s0 v0 s1 v1 s2 v2 s3 v3) 0
  = (2 * s0) * (2 * s0) * v0 + (2 * s1) * (2 * s1) * v1 + (2 * s2) * (2 * s2) * v2 + (2 * s3) * (2 * s3) * v3.
Proof. autounfold with gen; ops_R; cbn [nth]. ring. Qed.
(* ... and unbiased under independent Gaussian noise of the stated variances: measured S_i + sigma_i g_i *)
Theorem C11_invariant_unbiased s0 s1 s2 s3 d0 d1 d2 d3 :
  E4 (fun g0 g1 g2 g3 =>
        nth 0 (e_invariant (OO:=ROps) (s0 + d0 * g0) (d0 * d0) (s1 + d1 * g1) (d1 * d1) (s2 + d2 * g2) (d2 * d2) (s3 + d3 * g3) (d3 * d3)) 0)
  = s0 * s0 - s1 * s1 - s2 * s2 - s3 * s3.
Proof.
  pose proof r3_sq as H. unfold E4, E1. autounfold with gen; ops_R; cbn [nth]. field_simplify_eq. ring [H].
Qed.
Print Assumptions C11_invariant_unbiased.

Example C11_domain_example : -1 < /2 < 1 /\ 0 < /2.
Proof. lra. Qed.
