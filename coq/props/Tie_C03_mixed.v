(* Tie_C03_mixed.v -- mixed element types: promoting a real quaternion to a biquaternion keeps its matrix image,
   and sums, differences and scalar multiples of operands with different element types (real with complex, single
   with double precision -- rounding to single precision is the identity over the reals) are those of the operands'
   images / components.  First half of each generated list: the library's mixed operation; second half: the same
   operation on the images or component by component. *)
From Coq Require Import Reals Lra List.
From Epsic Require Import Scalar SpecPauli SpecJones Gen_C03 Tie_C03.
Import ListNotations.
Local Open Scope R_scope.

Lemma law_promote_QH_BH a0 a1 a2 a3 : halves_eq 8 (promote_QH_BH (OO:=ROps) a0 a1 a2 a3).
Proof. law. Qed.
Lemma law_promote_QU_BU a0 a1 a2 a3 : halves_eq 8 (promote_QU_BU (OO:=ROps) a0 a1 a2 a3).
Proof. law. Qed.
Lemma law_mixed_add_QH_BH a0 a1 a2 a3 b0r b0i b1r b1i b2r b2i b3r b3i :
  halves_eq 8 (mixed_add_QH_BH (OO:=ROps) a0 a1 a2 a3 b0r b0i b1r b1i b2r b2i b3r b3i).
Proof. law. Qed.
Lemma law_mixed_add_BH_QH a0 a1 a2 a3 b0r b0i b1r b1i b2r b2i b3r b3i :
  halves_eq 8 (mixed_add_BH_QH (OO:=ROps) a0 a1 a2 a3 b0r b0i b1r b1i b2r b2i b3r b3i).
Proof. law. Qed.
Lemma law_mixed_sub_QU_BU a0 a1 a2 a3 b0r b0i b1r b1i b2r b2i b3r b3i :
  halves_eq 8 (mixed_sub_QU_BU (OO:=ROps) a0 a1 a2 a3 b0r b0i b1r b1i b2r b2i b3r b3i).
Proof. law. Qed.
Lemma law_mixed_sub_BU_QU a0 a1 a2 a3 b0r b0i b1r b1i b2r b2i b3r b3i :
  halves_eq 8 (mixed_sub_BU_QU (OO:=ROps) a0 a1 a2 a3 b0r b0i b1r b1i b2r b2i b3r b3i).
Proof. law. Qed.
Lemma law_mixed_add_FH_QH a0 a1 a2 a3 b0 b1 b2 b3 : halves_eq 8 (mixed_add_FH_QH (OO:=ROps) a0 a1 a2 a3 b0 b1 b2 b3).
Proof. law. Qed.
Lemma law_mixed_scale_FU_double a0 a1 a2 a3 r : r <> 0 -> halves_eq 12 (mixed_scale_FU_double (OO:=ROps) a0 a1 a2 a3 r).
Proof. law. Qed.

(* scalar multiples through the compound operators when the scalar aliases a component of the destination *)
Lemma law_div_alias_QH a0 a1 a2 a3 : a0 <> 0 -> a1 <> 0 -> a2 <> 0 -> halves_eq 24 (div_alias_QH (OO:=ROps) a0 a1 a2 a3).
Proof. law. Qed.
Lemma law_mul_alias_BU a0r a0i a1r a1i a2r a2i a3r a3i : halves_eq 16 (mul_alias_BU (OO:=ROps) a0r a0i a1r a1i a2r a2i a3r a3i).
Proof. law. Qed.
