(* Properties_C12.v -- C12: weighted-mean accumulators are independent of
   insertion order and grouping.  The all-sequence statements are theorems of
   Accum.v about the accumulator model; Tie_C12 shows that every path of every
   operation of MeanEstimate / MeanRadian computes the model's step. *)
From Coq Require Import Reals Lra List Permutation.
From Epsic Require Import Scalar Accum Gen_C12 Tie_C12.
Import ListNotations.
Local Open Scope R_scope.

(* the code's step functions are the model's, on every path, and the paths cover every input *)
Theorem C12_code_is_model nv iv x v :
  Forall (fun c : Prop * list R => fst c -> snd c = stl (add_est (nv, iv) (x, v))) (mean_add_est_cases (OO:=ROps) nv iv x v)
  /\ Exists (fun c : Prop * list R => fst c) (mean_add_est_cases (OO:=ROps) nv iv x v)
  /\ Forall (fun c : Prop * list R => fst c -> snd c = stl (get_estimate (nv, iv))) (mean_get_cases (OO:=ROps) nv iv)
  /\ Exists (fun c : Prop * list R => fst c) (mean_get_cases (OO:=ROps) nv iv)
  /\ (forall nw iw, mean_merge (OO:=ROps) nv iv nw iw = stl (merge (nv, iv) (nw, iw))).
Proof.
  conj_split.
  - apply tie_mean_add_est.
  - autounfold with gen; ops_R. destruct (Req_dec v 0);
    repeat first [ apply Exists_cons_hd; cbn [fst]; tauto | apply Exists_cons_tl ].
  - apply tie_mean_get.
  - autounfold with gen; ops_R. destruct (Req_dec iv 0);
    repeat first [ apply Exists_cons_hd; cbn [fst]; tauto | apply Exists_cons_tl ].
  - intros; apply tie_mean_merge.
Qed.
Print Assumptions C12_code_is_model.

(* every finite sequence, every permutation, every binary merge tree *)
Theorem C12_order_independent l l' : Permutation l l' -> acc l = acc l'.
Proof. exact (acc_permutation l l'). Qed.
Theorem C12_grouping_independent t t' : Permutation (flatten t) (flatten t') -> eval t = eval t'.
Proof. exact (tree_independence t t'). Qed.
Theorem C12_weighted_mean l : rsum (map w1 l) <> 0 ->
  get_estimate (acc l) = (rsum (map wx l) / rsum (map w1 l), / rsum (map w1 l)).
Proof. exact (estimate_weighted_mean l). Qed.
Theorem C12_empty_and_zero_variance l x : get_estimate (acc []) = (0, 0) /\ acc (l ++ [(x, 0)]) = acc l.
Proof. split; [apply estimate_empty | apply zero_variance_ignored]. Qed.
Print Assumptions C12_grouping_independent.
Print Assumptions C12_weighted_mean.

(* the circular mean: same accumulators applied to (cos, sin) estimates *)
Theorem C12_circular_code_is_model cn ci sn si x v :
  Forall (fun c : Prop * list R => fst c -> snd c = rstl (add_est (cn, ci) (cos_est (x, v)), add_est (sn, si) (sin_est (x, v))))
         (mr_add_est_cases (OO:=ROps) cn ci sn si x v)
  /\ Forall (fun c : Prop * list R => fst c ->
            snd c = [radian_estimate (cn, ci) (sn, si); fst (get_estimate (cn, ci)); fst (get_estimate (sn, si))])
         (mr_get_cases (OO:=ROps) cn ci sn si).
Proof. split; [apply tie_mr_add_est | apply tie_mr_get]. Qed.
Theorem C12_circular_order_and_grouping l l' a b :
  (Permutation l l' -> racc l = racc l') /\
  racc (a ++ b) = (merge (fst (racc a)) (fst (racc b)), merge (snd (racc a)) (snd (racc b))).
Proof. split; [apply racc_permutation | apply racc_app]. Qed.
Theorem C12_circular_two_pi_invariant x v (k : nat) :
  cos_est (x + 2 * INR k * PI, v) = cos_est (x, v) /\ sin_est (x + 2 * INR k * PI, v) = sin_est (x, v) /\
  cos_est (x - 2 * INR k * PI, v) = cos_est (x, v) /\ sin_est (x - 2 * INR k * PI, v) = sin_est (x, v).
Proof. pose proof (cos_sin_est_period x v k); pose proof (cos_sin_est_period_neg x v k); tauto. Qed.
Print Assumptions C12_circular_two_pi_invariant.

(* a single angle away from the multiples of pi/2 is returned as atan2 (sin x) (cos x) *)
Theorem C12_circular_single_generic x v : v <> 0 -> sin x * sin x <> 0 -> cos x * cos x <> 0 ->
  mr_single_pc (OO:=ROps) x v -> mr_single (OO:=ROps) x v = [Ratan2 (sin x) (cos x)].
Proof. exact (tie_mr_single x v). Qed.

(* Over the reals only (in binary64 no angle other than 0 has sin x = 0 exactly, and since fix 200c664 the
   variances are sin^2 x var, cos^2 x var, so the plain oracle mr_single_pi_plain passes):
   FULL STATEMENT (false at the exact real pi): "the circular mean points in the direction of the weighted
   vector sum wherever the inputs lie on the circle, including multiples of pi/2".
   REFUTED on the model the code is tied to on every path: the single angle pi with
   variance 1 has cos-variance sin^2 pi * 1 = 0, so its cosine component is
   dropped by the zero-variance convention, both sums vanish and the mean is
   reported as 0 although the input points in direction pi (cos = -1). *)
Theorem C12_circular_mean_at_pi_refuted :
  exists x v, 0 < v /\ cos x = -1 /\
    radian_estimate (add_est st0 (cos_est (x, v))) (add_est st0 (sin_est (x, v))) = 0.
Proof.
  exists PI, 1. split; [lra|]. split; [apply cos_PI|].
  unfold radian_estimate, add_est, cos_est, sin_est, st0; cbn [fst snd]. rewrite cos_PI, sin_PI.
  repeat match goal with |- context [Req_EM_T ?a ?b] => destruct (Req_EM_T a b) end; cbn [fst snd] in *; try reflexivity; exfalso; lra.
Qed.
Print Assumptions C12_circular_mean_at_pi_refuted.
