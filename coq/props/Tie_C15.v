(* Tie_C15.v -- ties the terms generated from Minkowski.h / Pauli.h / Pauli.C /
   Jones.h (Gen_C15, regenerated on every run) to the spec of SpecPauli. *)
From Coq Require Import Reals Lra List.
From Epsic Require Import Scalar SpecPauli Gen_C15.
Import ListNotations.
Local Open Scope R_scope.

Ltac tie := intros; autounfold with gen; ops_R;
  unfold grid16, idx4, lorentz_invariant; c_simpl;
  list_eq ltac:(first [ring | field]).

Lemma tie_mink_inner a0 a1 a2 a3 b0 b1 b2 b3 :
  mink_inner (OO:=ROps) a0 a1 a2 a3 b0 b1 b2 b3
  = [mink_inner_spec (mkV4 a0 a1 a2 a3) (mkV4 b0 b1 b2 b3)].
Proof. tie. Qed.

Lemma tie_mink_inner_self a0 a1 a2 a3 :
  mink_inner_self (OO:=ROps) a0 a1 a2 a3
  = [lorentz_invariant (mkV4 a0 a1 a2 a3); lorentz_invariant (mkV4 a0 a1 a2 a3)].
Proof. tie. Qed.

Lemma tie_mink_outer a0 a1 a2 a3 b0 b1 b2 b3 :
  mink_outer (OO:=ROps) a0 a1 a2 a3 b0 b1 b2 b3
  = grid16 (mink_outer_spec (mkV4 a0 a1 a2 a3) (mkV4 b0 b1 b2 b3)).
Proof. tie. Qed.

Lemma tie_rho a0 a1 a2 a3 :
  Gen_C15.rho (OO:=ROps) a0 a1 a2 a3 = m2list (SpecPauli.rho (mkV4 a0 a1 a2 a3)).
Proof. tie. Qed.

Lemma tie_pauli :
  pauli (OO:=ROps) = m2list (sigma 0) ++ m2list (sigma 1) ++ m2list (sigma 2) ++ m2list (sigma 3).
Proof. tie. Qed.
