(* Tie_C12.v -- ties the code of MeanEstimate / MeanRadian (Gen_C12, every path of
   every operation) to the accumulator model of Accum.v. *)
From Coq Require Import Reals Lra List.
From Epsic Require Import Scalar Accum Gen_C12.
Import ListNotations.
Local Open Scope R_scope.

Ltac solve_entry := first [ ring | field; nz_auto | (apply f_equal2; first [ring | field; nz_auto])
                          | lazymatch goal with |- ?a = ?a => reflexivity end ].
Ltac spec_unfold := unfold add_est, merge, get_estimate, cos_est, sin_est, st0; cbn [fst snd].
Ltac decide_all := repeat match goal with |- context [Req_EM_T ?a ?b] => destruct (Req_EM_T a b) end; cbn [fst snd] in *.
(* every enumerated path: under its path condition the outputs are the model's *)
Ltac cases_tie :=
  autounfold with gen; ops_R;
  repeat (apply Forall_cons;
    [ cbn [fst snd]; intros PC; spec_unfold; decide_all; try solve [exfalso; tauto]; list_eq solve_entry | ]);
  apply Forall_nil.
Ltac tie := intros; autounfold with gen; ops_R; spec_unfold; decide_all; try solve [exfalso; lra]; list_eq solve_entry.

Definition stl (s : st) : list R := [fst s; snd s].

Lemma tie_mean_add_est nv iv x v :
  Forall (fun c : Prop * list R => fst c -> snd c = stl (add_est (nv, iv) (x, v))) (mean_add_est_cases (OO:=ROps) nv iv x v).
Proof. unfold stl; cases_tie. Qed.
Lemma tie_mean_merge nv iv nw iw : mean_merge (OO:=ROps) nv iv nw iw = stl (merge (nv, iv) (nw, iw)).
Proof. unfold stl; tie. Qed.
Lemma tie_mean_get nv iv :
  Forall (fun c : Prop * list R => fst c -> snd c = stl (get_estimate (nv, iv))) (mean_get_cases (OO:=ROps) nv iv).
Proof. unfold stl; cases_tie. Qed.
Lemma tie_mean_from_est x v :
  Forall (fun c : Prop * list R => fst c -> snd c = stl (add_est st0 (x, v))) (mean_from_est_cases (OO:=ROps) x v).
Proof. unfold stl; cases_tie. Qed.
Lemma tie_mean_default : mean_default (OO:=ROps) = [0; 0; 0; 0].
Proof. autounfold with gen; ops_R; list_eq solve_entry. Qed.

(* a sequence of three insertions (all variances non-zero), and the same entries in another
   order and grouping: both equal the model's accumulator, hence each other *)
Lemma tie_mean_seq3 x1 v1 x2 v2 x3 v3 : v1 <> 0 -> v2 <> 0 -> v3 <> 0 -> 1 / v1 + 1 / v2 + 1 / v3 <> 0 ->
  mean_seq3_pc (OO:=ROps) x1 v1 x2 v2 x3 v3 ->
  mean_seq3 (OO:=ROps) x1 v1 x2 v2 x3 v3
  = stl (acc [(x1,v1); (x2,v2); (x3,v3)]) ++ stl (get_estimate (acc [(x1,v1); (x2,v2); (x3,v3)]))
    ++ stl (eval (Node (Leaf (x3,v3)) (Node (Leaf (x2,v2)) (Leaf (x1,v1)))))
    ++ stl (get_estimate (eval (Node (Leaf (x3,v3)) (Node (Leaf (x2,v2)) (Leaf (x1,v1)))))).
Proof.
  intros H1 H2 H3 HW PC. unfold stl, acc; cbn [fold_left eval app].
  autounfold with gen; ops_R; spec_unfold; decide_all; try solve [exfalso; lra];
  list_eq ltac:(first [ solve_entry
    | field; repeat split; try assumption;
      let E := fresh "E" in intro E; apply HW; field_simplify_eq; [ | repeat split; assumption ];
      first [ lra | (etransitivity; [ | exact E ]; ring) ] ]).
Qed.
Lemma tie_mean_zero_var x1 v1 x2 : v1 <> 0 -> mean_zero_var_pc (OO:=ROps) x1 v1 x2 ->
  mean_zero_var (OO:=ROps) x1 v1 x2 = stl (acc [(x1, v1); (x2, 0)]).
Proof. intros H PC. unfold stl, acc; cbn [fold_left]. tie. Qed.

(* circular mean *)
Definition rstl (s : st * st) : list R := [fst (fst s); snd (fst s); fst (snd s); snd (snd s)].
Lemma tie_mr_assign x v :
  Forall (fun c : Prop * list R => fst c -> snd c = rstl (add_est st0 (cos_est (x, v)), add_est st0 (sin_est (x, v))))
         (mr_assign_cases (OO:=ROps) x v).
Proof. unfold rstl; cases_tie. Qed.
Lemma tie_mr_add_est cn ci sn si x v :
  Forall (fun c : Prop * list R => fst c -> snd c = rstl (add_est (cn, ci) (cos_est (x, v)), add_est (sn, si) (sin_est (x, v))))
         (mr_add_est_cases (OO:=ROps) cn ci sn si x v).
Proof. unfold rstl; cases_tie. Qed.
Lemma tie_mr_merge cn ci sn si dn di tn ti :
  mr_merge (OO:=ROps) cn ci sn si dn di tn ti = rstl (merge (cn, ci) (dn, di), merge (sn, si) (tn, ti)).
Proof. unfold rstl; tie. Qed.

(* the mean direction: atan2 of the (sine, cosine) estimates, 0 by convention when both sums vanish *)
Definition radian_estimate (c s : st) : R :=
  if Req_EM_T (fst s) 0 then (if Req_EM_T (fst c) 0 then 0 else Ratan2 (fst (get_estimate s)) (fst (get_estimate c)))
  else Ratan2 (fst (get_estimate s)) (fst (get_estimate c)).
Lemma tie_mr_get cn ci sn si :
  Forall (fun c : Prop * list R => fst c ->
            snd c = [radian_estimate (cn, ci) (sn, si); fst (get_estimate (cn, ci)); fst (get_estimate (sn, si))])
         (mr_get_cases (OO:=ROps) cn ci sn si).
Proof. unfold radian_estimate; cases_tie. Qed.

(* a single generic angle (both propagated variances non-zero): the mean is atan2 (sin x) (cos x) *)
Lemma tie_mr_single x v : v <> 0 -> sin x * sin x <> 0 -> cos x * cos x <> 0 ->
  mr_single_pc (OO:=ROps) x v -> mr_single (OO:=ROps) x v = [Ratan2 (sin x) (cos x)].
Proof.
  intros Hv Hc Hs PC. autounfold with gen; ops_R.
  assert (A : sin x * sin x * v <> 0) by (apply Rmult_integral_contrapositive_currified; assumption).
  assert (B : cos x * cos x * v <> 0) by (apply Rmult_integral_contrapositive_currified; assumption).
  assert (Sx : sin x <> 0) by (intro E; apply Hc; rewrite E; ring).
  assert (Cx : cos x <> 0) by (intro E; apply Hs; rewrite E; ring).
  list_eq ltac:(apply f_equal2; field; repeat split; assumption).
Qed.
