(* Properties_C08.v -- C08: covariant mode pairs deliver jointly drawn factors with
   the requested statistics. *)
From Coq Require Import Reals Lra List ZArith.
From Epsic Require Import Scalar Queues LogNormal Gen_C08 Tie_C08_pairing Tie_C08_stats.
Import ListNotations.
Local Open Scope R_scope.

(* ---- pairing: every interleaving of the two consumers' requests ---- *)
Theorem C08_pairing_every_interleaving (T : Type) (draws : nat -> T * T) (rs : list req) :
  outA (run draws rs) ++ qA (run draws rs) = firstA T draws (drawn (run draws rs)) /\
  outB (run draws rs) ++ qB (run draws rs) = firstB T draws (drawn (run draws rs)).
Proof. exact (pairing_invariant T draws rs). Qed.
Print Assumptions C08_pairing_every_interleaving.

Theorem C08_kth_factors_from_same_draw (T : Type) (draws : nat -> T * T) rs i d :
  (i < length (outA (run draws rs)))%nat -> (i < length (outB (run draws rs)))%nat ->
  (nth i (outA (run draws rs)) (fst d), nth i (outB (run draws rs)) (snd d)) = draws i.
Proof. exact (same_joint_draw T draws rs i d). Qed.
Print Assumptions C08_kth_factors_from_same_draw.

(* the real classes follow the model, e.g. on the word A B B A A B *)
Theorem C08_code_follows_model_sample a0 b0 a1 b1 a2 b2 a3 b3 a4 b4 a5 b5 :
  let draws := fun k => nth k [(a0,b0); (a1,b1); (a2,b2); (a3,b3); (a4,b4); (a5,b5)] (a0,b0) in
  firstn 6 (pair_wABBAAB (OO:=ROps) a0 b0 a1 b1 a2 b2 a3 b3 a4 b4 a5 b5)
  = deliveries draws st0 [ReqA; ReqB; ReqB; ReqA; ReqA; ReqB].
Proof. intros draws. apply (tie_pair_wABBAAB a0 b0 a1 b1 a2 b2 a3 b3 a4 b4 a5 b5). Qed.

(* ---- statistics of the bivariate log-normal factors ---- *)
Section Stats.
Variables rho b0 b1 : R.
Hypothesis Hb0 : b0 <> 0.
Hypothesis Hb1 : b1 <> 0.
Let s0 := sqrt (ln (b0 * b0 + 1)).
Let s1 := sqrt (ln (b1 * b1 + 1)).
Let d := sqrt (exp (s0 * s0) - 1) * sqrt (exp (s1 * s1) - 1).
Let rmax := (exp (s0 * s1) - 1) / d.
Let rmin := (exp (- s0 * s1) - 1) / d.
Let c01 := ln (rho * sqrt (exp (s0 * s0) - 1) * sqrt (exp (s1 * s1) - 1) + 1).
Let s := sqrt (s0 * s0 * (s1 * s1) - c01 * c01).
Let t := sqrt (s0 * s0 + s1 * s1 + 2 * s).
(* the request lies in the admissible range (so the code does not throw) *)
Hypothesis Hmax : ~ (rho > rmax).
Hypothesis Hmin : ~ (rho < rmin).

Lemma s0_sq : s0 * s0 = ln (b0 * b0 + 1). Proof. apply log_sigma_sq. Qed.
Lemma s1_sq : s1 * s1 = ln (b1 * b1 + 1). Proof. apply log_sigma_sq. Qed.
Lemma s0_pos : 0 < s0 * s0.
Proof. rewrite s0_sq, <- ln_1. apply ln_increasing; nra. Qed.
Lemma s1_pos : 0 < s1 * s1.
Proof. rewrite s1_sq, <- ln_1. apply ln_increasing; nra. Qed.
Lemma root0 : sqrt (exp (s0 * s0) - 1) = Rabs b0. Proof. apply beta_recovered. Qed.
Lemma root1 : sqrt (exp (s1 * s1) - 1) = Rabs b1. Proof. apply beta_recovered. Qed.
Lemma var0 : exp (s0 * s0) - 1 = b0 * b0. Proof. exact (lognormal_variance_is_beta_sq b0). Qed.
Lemma var1 : exp (s1 * s1) - 1 = b1 * b1. Proof. exact (lognormal_variance_is_beta_sq b1). Qed.
Lemma d_pos : 0 < d.
Proof. unfold d. rewrite root0, root1. apply Rmult_lt_0_compat; apply Rabs_pos_lt; assumption. Qed.

Lemma range_facts : 0 < rho * d + 1 /\ - (s0 * s1) <= ln (rho * d + 1) <= s0 * s1 /\
  0 <= (s0 * s0) * (s1 * s1) - ln (rho * d + 1) * ln (rho * d + 1).
Proof. apply admissible_range; [apply sqrt_pos | apply sqrt_pos | apply d_pos | exact Hmax | exact Hmin]. Qed.
Lemma c01_eq : c01 = ln (rho * d + 1).
Proof. unfold c01, d. f_equal. ring. Qed.
Lemma det_nonneg : 0 <= s0 * s0 * (s1 * s1) - c01 * c01.
Proof. rewrite c01_eq. apply range_facts. Qed.
Lemma s_sq : s * s = s0 * s0 * (s1 * s1) - c01 * c01.
Proof. apply sqrt_sqrt, det_nonneg. Qed.
Lemma tr_pos : 0 < s0 * s0 + s1 * s1 + 2 * s.
Proof. pose proof s0_pos. pose proof s1_pos. assert (0 <= s) by apply sqrt_pos. lra. Qed.
Lemma t_sq : t * t = s0 * s0 + s1 * s1 + 2 * s.
Proof. apply sqrt_sqrt. left; apply tr_pos. Qed.
Lemma t_nz : t <> 0.
Proof. intro E. pose proof t_sq as H. rewrite E in H. pose proof tr_pos. lra. Qed.

(* accepted requests never take a throwing path, and their factors are the exponentials below *)
Definition facA (g0 g1 : R) : R := exp ((s + s0 * s0) / t * g0 + c01 / t * g1 - s0 * s0 / 2).
Definition facB (g0 g1 : R) : R := exp (c01 / t * g0 + (s + s1 * s1) / t * g1 - s1 * s1 / 2).
Theorem C08_accepted_factors g0 g1 :
  Forall (fun c : Prop * list R => fst c -> snd c = [] \/
            (nth 0 (snd c) 0 = facA g0 g1 /\ nth 1 (snd c) 0 = facB g0 g1 /\
             nth 2 (snd c) 0 = 1 /\ nth 3 (snd c) 0 = 1 /\
             nth 6 (snd c) 0 = rho * sqrt ((exp (s0 * s0) - 1) * (exp (s1 * s1) - 1)) /\ nth 9 (snd c) 0 = 2))
         (lognormal_pair_cases (OO:=ROps) rho b0 b1 g0 g1)
  /\ Forall (fun c : Prop * bool => fst c -> (snd c = true <-> (rho > rmax \/ rho < rmin)))
         (lognormal_pair_throwcases (OO:=ROps) rho b0 b1 g0 g1).
Proof.
  split; [| apply tie_lognormal_pair_rejects ].
  pose proof (tie_lognormal_pair_accepts rho b0 b1 g0 g1 t_nz det_nonneg) as H.
  eapply Forall_impl; [| exact H]. cbn beta. intros c Hc PC. destruct (Hc PC) as [E|E]; [left; exact E | right].
  rewrite E. cbn [nth]. unfold facA, facB. repeat split; reflexivity.
Qed.

(* moments, for every expectation functional with the Gaussian moment generating function *)
Variable E2 : (R -> R -> R) -> R.
Hypothesis E2_ext : forall f g, (forall x y, f x y = g x y) -> E2 f = E2 g.
Hypothesis E2_mgf : forall a b c, E2 (fun x y => exp (a * x + b * y + c)) = exp (c + a * a / 2 + b * b / 2).

Theorem C08_requested_statistics :
  E2 facA = 1 /\ E2 facB = 1 /\
  E2 (fun x y => facA x y * facA x y) - 1 = b0 * b0 /\
  E2 (fun x y => facB x y * facB x y) - 1 = b1 * b1 /\
  E2 (fun x y => facA x y * facB x y) - 1 = rho * (Rabs b0 * Rabs b1) /\
  (* the reported intensity covariance is that covariance *)
  rho * sqrt ((exp (s0 * s0) - 1) * (exp (s1 * s1) - 1)) = rho * (Rabs b0 * Rabs b1).
Proof.
  destruct (msqrt_squares (s0 * s0) c01 (s1 * s1) s t s_sq t_sq t_nz) as [R00 [R11 R01]].
  destruct (pair_unit_means E2 E2_ext E2_mgf _ _ _ _ _ R00 R11) as [MA MB].
  destruct (pair_second_moments E2 E2_ext E2_mgf _ _ _ _ _ _ R00 R11 R01) as [SA [SB SAB]].
  unfold fA, fB in *. unfold facA, facB.
  conj_split.
  - exact MA.
  - exact MB.
  - rewrite SA. apply var0.
  - rewrite SB. apply var1.
  - rewrite SAB, c01_eq, requested_covariance by apply range_facts. unfold d. rewrite root0, root1. reflexivity.
  - f_equal. rewrite sqrt_mult_alt by (rewrite var0; nra). rewrite root0, root1. reflexivity.
Qed.
End Stats.
Print Assumptions C08_requested_statistics.
Print Assumptions C08_accepted_factors.
