(* Tie_C07.v -- GENERATED ONCE by harness/gen_tie_C07.py and committed.
   Ties of the amplitude-modulation code (modulated.h, square_modulated_mode.cpp)
   to the filter models of FilterModels.v and the log-normal model of LogNormal.v. *)
From Coq Require Import Reals Lra List Arith.
From Epsic Require Import Scalar SampleModel FilterModels LogNormal Gen_C07.
Import ListNotations.
Local Open Scope R_scope.

Definition seqf (l : list R) : nat -> R := fun k => nth k l 0.
Definition halves_eq (n : nat) (l : list R) : Prop := firstn n l = skipn n l.
Ltac deep := first [ ring | field; nz_auto | (apply f_equal; deep) | (apply f_equal2; deep) ].

(* (a) |sqrt m e|^2 = m |e|^2 for m >= 0 *)
Lemma law_transform_scales_stokes xr xi yr yi d0 : 0 <= d0 ->
  halves_eq 4 (transform_scales_stokes (OO:=ROps) xr xi yr yi d0).
Proof.
  intros H. unfold halves_eq; autounfold with gen; ops_R; cbn [firstn skipn].
  assert (E : sqrt d0 * sqrt d0 = d0) by (apply sqrt_sqrt; exact H).
  set (r := sqrt d0) in *. clearbody r.
  list_eq ltac:(first [ ring [E] | (rewrite <- E; ring) ]).
Qed.

(* (b) predicted mean mu S and covariance (mu^2 + v) C + v S S^T *)
Definition grid16 {T} (f : nat -> nat -> T) : list T :=
  flat_map (fun i => map (fun j => f i j) [0;1;2;3]%nat) [0;1;2;3]%nat.
Lemma tie_modulated_prediction s0 s1 s2 s3 mu v :
  let S := fun i => nth i [s0; s1; s2; s3] 0 in
  let C := fun i j => nth (4 * i + j) (skipn 20 (modulated_prediction (OO:=ROps) s0 s1 s2 s3 mu v)) 0 in
  firstn 20 (modulated_prediction (OO:=ROps) s0 s1 s2 s3 mu v)
  = [mu * s0; mu * s1; mu * s2; mu * s3] ++ grid16 (fun i j => (mu * mu + v) * C i j + v * (S i * S j)).
Proof.
  intros S C; subst S C. autounfold with gen; ops_R. unfold grid16.
  cbv beta iota delta [firstn skipn nth flat_map map app Nat.mul Nat.add]. list_eq deep.
Qed.

(* (c) the log-normal factor is exp(sigma (g - sigma/2)), mean 1, variance exp(sigma^2) - 1 *)
Lemma tie_lognormal_factor beta g0 :
  lognormal_factor (OO:=ROps) beta g0
  = [lnf (log_sigma beta) g0; 1; exp (log_sigma beta * log_sigma beta) - 1; log_sigma beta;
     sqrt (exp (log_sigma beta * log_sigma beta) - 1); 1].
Proof. autounfold with gen; ops_R; unfold lnf, log_sigma. list_eq deep. Qed.
(* the same after set_beta: only the last modulation index matters *)
Lemma tie_lognormal_rebeta beta1 beta g0 :
  lognormal_rebeta (OO:=ROps) beta1 beta g0 = lognormal_factor (OO:=ROps) beta g0.
Proof. autounfold with gen; ops_R. list_eq deep. Qed.

Lemma tie_boxcar_w1 d0 d1 d2 d3 d4 d5 d6 d7 d8 d9 d10 d11 d12 :
  boxcar_w1 (OO:=ROps) d0 d1 d2 d3 d4 d5 d6 d7 d8 d9 d10 d11 d12 = map (boxcar_out 1 (seqf [d0; d1; d2; d3; d4; d5; d6; d7; d8; d9; d10; d11; d12])) (seq 0 13) ++ [13].
Proof.
  intros. rewrite (map_ext _ (fun t => sumf (fun i => seqf [d0; d1; d2; d3; d4; d5; d6; d7; d8; d9; d10; d11; d12] (t + i)) 1 / INR 1)) by (intros; apply boxcar_is_moving_average; auto with arith).
  autounfold with gen; ops_R. unfold seqf.
  cbv beta iota delta [map seq app sumf nth Nat.add INR]. list_eq deep.
Qed.

Lemma tie_boxcar_w2 d0 d1 d2 d3 d4 d5 d6 d7 d8 d9 d10 d11 d12 d13 :
  boxcar_w2 (OO:=ROps) d0 d1 d2 d3 d4 d5 d6 d7 d8 d9 d10 d11 d12 d13 = map (boxcar_out 2 (seqf [d0; d1; d2; d3; d4; d5; d6; d7; d8; d9; d10; d11; d12; d13])) (seq 0 13) ++ [14].
Proof.
  intros. rewrite (map_ext _ (fun t => sumf (fun i => seqf [d0; d1; d2; d3; d4; d5; d6; d7; d8; d9; d10; d11; d12; d13] (t + i)) 2 / INR 2)) by (intros; apply boxcar_is_moving_average; auto with arith).
  autounfold with gen; ops_R. unfold seqf.
  cbv beta iota delta [map seq app sumf nth Nat.add INR]. list_eq deep.
Qed.

Lemma tie_boxcar_w3 d0 d1 d2 d3 d4 d5 d6 d7 d8 d9 d10 d11 d12 d13 d14 :
  boxcar_w3 (OO:=ROps) d0 d1 d2 d3 d4 d5 d6 d7 d8 d9 d10 d11 d12 d13 d14 = map (boxcar_out 3 (seqf [d0; d1; d2; d3; d4; d5; d6; d7; d8; d9; d10; d11; d12; d13; d14])) (seq 0 13) ++ [15].
Proof.
  intros. rewrite (map_ext _ (fun t => sumf (fun i => seqf [d0; d1; d2; d3; d4; d5; d6; d7; d8; d9; d10; d11; d12; d13; d14] (t + i)) 3 / INR 3)) by (intros; apply boxcar_is_moving_average; auto with arith).
  autounfold with gen; ops_R. unfold seqf.
  cbv beta iota delta [map seq app sumf nth Nat.add INR]. list_eq deep.
Qed.

Lemma tie_boxcar_w4 d0 d1 d2 d3 d4 d5 d6 d7 d8 d9 d10 d11 d12 d13 d14 d15 :
  boxcar_w4 (OO:=ROps) d0 d1 d2 d3 d4 d5 d6 d7 d8 d9 d10 d11 d12 d13 d14 d15 = map (boxcar_out 4 (seqf [d0; d1; d2; d3; d4; d5; d6; d7; d8; d9; d10; d11; d12; d13; d14; d15])) (seq 0 13) ++ [16].
Proof.
  intros. rewrite (map_ext _ (fun t => sumf (fun i => seqf [d0; d1; d2; d3; d4; d5; d6; d7; d8; d9; d10; d11; d12; d13; d14; d15] (t + i)) 4 / INR 4)) by (intros; apply boxcar_is_moving_average; auto with arith).
  autounfold with gen; ops_R. unfold seqf.
  cbv beta iota delta [map seq app sumf nth Nat.add INR]. list_eq deep.
Qed.

Lemma tie_boxcar_w5 d0 d1 d2 d3 d4 d5 d6 d7 d8 d9 d10 d11 d12 d13 d14 d15 d16 :
  boxcar_w5 (OO:=ROps) d0 d1 d2 d3 d4 d5 d6 d7 d8 d9 d10 d11 d12 d13 d14 d15 d16 = map (boxcar_out 5 (seqf [d0; d1; d2; d3; d4; d5; d6; d7; d8; d9; d10; d11; d12; d13; d14; d15; d16])) (seq 0 13) ++ [17].
Proof.
  intros. rewrite (map_ext _ (fun t => sumf (fun i => seqf [d0; d1; d2; d3; d4; d5; d6; d7; d8; d9; d10; d11; d12; d13; d14; d15; d16] (t + i)) 5 / INR 5)) by (intros; apply boxcar_is_moving_average; auto with arith).
  autounfold with gen; ops_R. unfold seqf.
  cbv beta iota delta [map seq app sumf nth Nat.add INR]. list_eq deep.
Qed.

(* reported statistics of the boxcar: mean mu, variance v / w, lag covariance v (w - l) / w^2 below w, 0 beyond
   (source mean Stokes (1,0,0,0), entry [0][0]) *)
Lemma tie_boxcar_stats mu v :
  boxcar_stats (OO:=ROps) mu v =
  flat_map (fun w => [mu; v / INR w] ++ map (fun l => if Nat.ltb l w then v * INR (overlap w l) / (INR w * INR w) else 0) [1;2;3;4]%nat) [1;2;3;4]%nat.
Proof.
  autounfold with gen; ops_R. unfold overlap.
  cbv beta iota delta [flat_map map app Nat.ltb Nat.leb Nat.sub INR]. list_eq deep.
Qed.

Lemma tie_square_w1 d0 d1 d2 d3 d4 d5 d6 d7 d8 d9 d10 d11 d12 :
  square_w1 (OO:=ROps) d0 d1 d2 d3 d4 d5 d6 d7 d8 d9 d10 d11 d12 = map (hold_out 1 (seqf [d0; d1; d2; d3; d4; d5; d6; d7; d8; d9; d10; d11; d12])) (seq 0 13) ++ [IZR (Z.of_nat (12 / 1 + 1))].
Proof.
  intros. rewrite (map_ext _ (fun t => seqf [d0; d1; d2; d3; d4; d5; d6; d7; d8; d9; d10; d11; d12] (t / 1))) by (intros; apply hold_is_block_constant; auto with arith).
  autounfold with gen; ops_R. unfold seqf.
  cbv beta iota delta [map seq app nth Nat.div Nat.divmod fst snd Nat.add Z.of_nat Pos.of_succ_nat Pos.succ]. list_eq ltac:(reflexivity).
Qed.

Lemma tie_square_w2 d0 d1 d2 d3 d4 d5 d6 d7 d8 d9 d10 d11 d12 :
  square_w2 (OO:=ROps) d0 d1 d2 d3 d4 d5 d6 d7 d8 d9 d10 d11 d12 = map (hold_out 2 (seqf [d0; d1; d2; d3; d4; d5; d6; d7; d8; d9; d10; d11; d12])) (seq 0 13) ++ [IZR (Z.of_nat (12 / 2 + 1))].
Proof.
  intros. rewrite (map_ext _ (fun t => seqf [d0; d1; d2; d3; d4; d5; d6; d7; d8; d9; d10; d11; d12] (t / 2))) by (intros; apply hold_is_block_constant; auto with arith).
  autounfold with gen; ops_R. unfold seqf.
  cbv beta iota delta [map seq app nth Nat.div Nat.divmod fst snd Nat.add Z.of_nat Pos.of_succ_nat Pos.succ]. list_eq ltac:(reflexivity).
Qed.

Lemma tie_square_w3 d0 d1 d2 d3 d4 d5 d6 d7 d8 d9 d10 d11 d12 :
  square_w3 (OO:=ROps) d0 d1 d2 d3 d4 d5 d6 d7 d8 d9 d10 d11 d12 = map (hold_out 3 (seqf [d0; d1; d2; d3; d4; d5; d6; d7; d8; d9; d10; d11; d12])) (seq 0 13) ++ [IZR (Z.of_nat (12 / 3 + 1))].
Proof.
  intros. rewrite (map_ext _ (fun t => seqf [d0; d1; d2; d3; d4; d5; d6; d7; d8; d9; d10; d11; d12] (t / 3))) by (intros; apply hold_is_block_constant; auto with arith).
  autounfold with gen; ops_R. unfold seqf.
  cbv beta iota delta [map seq app nth Nat.div Nat.divmod fst snd Nat.add Z.of_nat Pos.of_succ_nat Pos.succ]. list_eq ltac:(reflexivity).
Qed.

Lemma tie_square_w4 d0 d1 d2 d3 d4 d5 d6 d7 d8 d9 d10 d11 d12 :
  square_w4 (OO:=ROps) d0 d1 d2 d3 d4 d5 d6 d7 d8 d9 d10 d11 d12 = map (hold_out 4 (seqf [d0; d1; d2; d3; d4; d5; d6; d7; d8; d9; d10; d11; d12])) (seq 0 13) ++ [IZR (Z.of_nat (12 / 4 + 1))].
Proof.
  intros. rewrite (map_ext _ (fun t => seqf [d0; d1; d2; d3; d4; d5; d6; d7; d8; d9; d10; d11; d12] (t / 4))) by (intros; apply hold_is_block_constant; auto with arith).
  autounfold with gen; ops_R. unfold seqf.
  cbv beta iota delta [map seq app nth Nat.div Nat.divmod fst snd Nat.add Z.of_nat Pos.of_succ_nat Pos.succ]. list_eq ltac:(reflexivity).
Qed.
