(* Tie_C13_gj3_s4.v -- GENERATED ONCE by harness/gen_tie_C13_gj3.py and committed. *)
From Coq Require Import Reals Lra List.
From Epsic Require Import Scalar SpecPauli Gen_C13 Tie_C13.
Import ListNotations.
Local Open Scope R_scope.

Lemma tie_gj3_o40 a00 a01 a02 a10 a11 a12 a20 a21 a22 : gj3_o40_pc (OO:=ROps) a00 a01 a02 a10 a11 a12 a20 a21 a22 -> gj3_ok (gj3_o40 (OO:=ROps) a00 a01 a02 a10 a11 a12 a20 a21 a22).
Proof. gj3. Qed.
Lemma tie_gj3_o41 a00 a01 a02 a10 a11 a12 a20 a21 a22 : gj3_o41_pc (OO:=ROps) a00 a01 a02 a10 a11 a12 a20 a21 a22 -> gj3_ok (gj3_o41 (OO:=ROps) a00 a01 a02 a10 a11 a12 a20 a21 a22).
Proof. gj3. Qed.
Lemma tie_gj3_o42 a00 a01 a02 a10 a11 a12 a20 a21 a22 : gj3_o42_pc (OO:=ROps) a00 a01 a02 a10 a11 a12 a20 a21 a22 -> gj3_ok (gj3_o42 (OO:=ROps) a00 a01 a02 a10 a11 a12 a20 a21 a22).
Proof. gj3. Qed.
Lemma tie_gj3_o43 a00 a01 a02 a10 a11 a12 a20 a21 a22 : gj3_o43_pc (OO:=ROps) a00 a01 a02 a10 a11 a12 a20 a21 a22 -> gj3_ok (gj3_o43 (OO:=ROps) a00 a01 a02 a10 a11 a12 a20 a21 a22).
Proof. gj3. Qed.
Lemma tie_gj3_o44 a00 a01 a02 a10 a11 a12 a20 a21 a22 : gj3_o44_pc (OO:=ROps) a00 a01 a02 a10 a11 a12 a20 a21 a22 -> gj3_ok (gj3_o44 (OO:=ROps) a00 a01 a02 a10 a11 a12 a20 a21 a22).
Proof. gj3. Qed.
Lemma tie_gj3_o45 a00 a01 a02 a10 a11 a12 a20 a21 a22 : gj3_o45_pc (OO:=ROps) a00 a01 a02 a10 a11 a12 a20 a21 a22 -> gj3_ok (gj3_o45 (OO:=ROps) a00 a01 a02 a10 a11 a12 a20 a21 a22).
Proof. gj3. Qed.
