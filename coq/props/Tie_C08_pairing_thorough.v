(* Tie_C08_pairing_thorough.v -- GENERATED ONCE by harness/gen_tie_C08.py and committed.
   Exhaustive over request words of the stated lengths: the factors delivered by
   the real classes, in request order, and the number of joint draws made, are
   those of the Queues model run on the same word with symbolic draws (a_k, b_k). *)
From Coq Require Import Reals List ZArith.
From Epsic Require Import Scalar Queues Gen_C08.
Import ListNotations.

Ltac pairing := intros; autounfold with gen; ops_R; cbn [nth firstn]; split; [ reflexivity | apply f_equal; reflexivity ].

Lemma tie_pair_wAAAAAAA a0 b0 a1 b1 a2 b2 a3 b3 a4 b4 a5 b5 a6 b6 :
  let draws := fun k => nth k [(a0, b0); (a1, b1); (a2, b2); (a3, b3); (a4, b4); (a5, b5); (a6, b6)] (a0, b0) in
  firstn 7 (pair_wAAAAAAA (OO:=ROps) a0 b0 a1 b1 a2 b2 a3 b3 a4 b4 a5 b5 a6 b6) = deliveries draws st0 [ReqA; ReqA; ReqA; ReqA; ReqA; ReqA; ReqA] /\
  nth 7 (pair_wAAAAAAA (OO:=ROps) a0 b0 a1 b1 a2 b2 a3 b3 a4 b4 a5 b5 a6 b6) 0%R = IZR (Z.of_nat (drawn (run draws [ReqA; ReqA; ReqA; ReqA; ReqA; ReqA; ReqA]))).
Proof. pairing. Qed.

Lemma tie_pair_wBAAAAAA a0 b0 a1 b1 a2 b2 a3 b3 a4 b4 a5 b5 a6 b6 :
  let draws := fun k => nth k [(a0, b0); (a1, b1); (a2, b2); (a3, b3); (a4, b4); (a5, b5); (a6, b6)] (a0, b0) in
  firstn 7 (pair_wBAAAAAA (OO:=ROps) a0 b0 a1 b1 a2 b2 a3 b3 a4 b4 a5 b5 a6 b6) = deliveries draws st0 [ReqB; ReqA; ReqA; ReqA; ReqA; ReqA; ReqA] /\
  nth 7 (pair_wBAAAAAA (OO:=ROps) a0 b0 a1 b1 a2 b2 a3 b3 a4 b4 a5 b5 a6 b6) 0%R = IZR (Z.of_nat (drawn (run draws [ReqB; ReqA; ReqA; ReqA; ReqA; ReqA; ReqA]))).
Proof. pairing. Qed.

Lemma tie_pair_wABAAAAA a0 b0 a1 b1 a2 b2 a3 b3 a4 b4 a5 b5 a6 b6 :
  let draws := fun k => nth k [(a0, b0); (a1, b1); (a2, b2); (a3, b3); (a4, b4); (a5, b5); (a6, b6)] (a0, b0) in
  firstn 7 (pair_wABAAAAA (OO:=ROps) a0 b0 a1 b1 a2 b2 a3 b3 a4 b4 a5 b5 a6 b6) = deliveries draws st0 [ReqA; ReqB; ReqA; ReqA; ReqA; ReqA; ReqA] /\
  nth 7 (pair_wABAAAAA (OO:=ROps) a0 b0 a1 b1 a2 b2 a3 b3 a4 b4 a5 b5 a6 b6) 0%R = IZR (Z.of_nat (drawn (run draws [ReqA; ReqB; ReqA; ReqA; ReqA; ReqA; ReqA]))).
Proof. pairing. Qed.

Lemma tie_pair_wBBAAAAA a0 b0 a1 b1 a2 b2 a3 b3 a4 b4 a5 b5 a6 b6 :
  let draws := fun k => nth k [(a0, b0); (a1, b1); (a2, b2); (a3, b3); (a4, b4); (a5, b5); (a6, b6)] (a0, b0) in
  firstn 7 (pair_wBBAAAAA (OO:=ROps) a0 b0 a1 b1 a2 b2 a3 b3 a4 b4 a5 b5 a6 b6) = deliveries draws st0 [ReqB; ReqB; ReqA; ReqA; ReqA; ReqA; ReqA] /\
  nth 7 (pair_wBBAAAAA (OO:=ROps) a0 b0 a1 b1 a2 b2 a3 b3 a4 b4 a5 b5 a6 b6) 0%R = IZR (Z.of_nat (drawn (run draws [ReqB; ReqB; ReqA; ReqA; ReqA; ReqA; ReqA]))).
Proof. pairing. Qed.

Lemma tie_pair_wAABAAAA a0 b0 a1 b1 a2 b2 a3 b3 a4 b4 a5 b5 a6 b6 :
  let draws := fun k => nth k [(a0, b0); (a1, b1); (a2, b2); (a3, b3); (a4, b4); (a5, b5); (a6, b6)] (a0, b0) in
  firstn 7 (pair_wAABAAAA (OO:=ROps) a0 b0 a1 b1 a2 b2 a3 b3 a4 b4 a5 b5 a6 b6) = deliveries draws st0 [ReqA; ReqA; ReqB; ReqA; ReqA; ReqA; ReqA] /\
  nth 7 (pair_wAABAAAA (OO:=ROps) a0 b0 a1 b1 a2 b2 a3 b3 a4 b4 a5 b5 a6 b6) 0%R = IZR (Z.of_nat (drawn (run draws [ReqA; ReqA; ReqB; ReqA; ReqA; ReqA; ReqA]))).
Proof. pairing. Qed.

Lemma tie_pair_wBABAAAA a0 b0 a1 b1 a2 b2 a3 b3 a4 b4 a5 b5 a6 b6 :
  let draws := fun k => nth k [(a0, b0); (a1, b1); (a2, b2); (a3, b3); (a4, b4); (a5, b5); (a6, b6)] (a0, b0) in
  firstn 7 (pair_wBABAAAA (OO:=ROps) a0 b0 a1 b1 a2 b2 a3 b3 a4 b4 a5 b5 a6 b6) = deliveries draws st0 [ReqB; ReqA; ReqB; ReqA; ReqA; ReqA; ReqA] /\
  nth 7 (pair_wBABAAAA (OO:=ROps) a0 b0 a1 b1 a2 b2 a3 b3 a4 b4 a5 b5 a6 b6) 0%R = IZR (Z.of_nat (drawn (run draws [ReqB; ReqA; ReqB; ReqA; ReqA; ReqA; ReqA]))).
Proof. pairing. Qed.

Lemma tie_pair_wABBAAAA a0 b0 a1 b1 a2 b2 a3 b3 a4 b4 a5 b5 a6 b6 :
  let draws := fun k => nth k [(a0, b0); (a1, b1); (a2, b2); (a3, b3); (a4, b4); (a5, b5); (a6, b6)] (a0, b0) in
  firstn 7 (pair_wABBAAAA (OO:=ROps) a0 b0 a1 b1 a2 b2 a3 b3 a4 b4 a5 b5 a6 b6) = deliveries draws st0 [ReqA; ReqB; ReqB; ReqA; ReqA; ReqA; ReqA] /\
  nth 7 (pair_wABBAAAA (OO:=ROps) a0 b0 a1 b1 a2 b2 a3 b3 a4 b4 a5 b5 a6 b6) 0%R = IZR (Z.of_nat (drawn (run draws [ReqA; ReqB; ReqB; ReqA; ReqA; ReqA; ReqA]))).
Proof. pairing. Qed.

Lemma tie_pair_wBBBAAAA a0 b0 a1 b1 a2 b2 a3 b3 a4 b4 a5 b5 a6 b6 :
  let draws := fun k => nth k [(a0, b0); (a1, b1); (a2, b2); (a3, b3); (a4, b4); (a5, b5); (a6, b6)] (a0, b0) in
  firstn 7 (pair_wBBBAAAA (OO:=ROps) a0 b0 a1 b1 a2 b2 a3 b3 a4 b4 a5 b5 a6 b6) = deliveries draws st0 [ReqB; ReqB; ReqB; ReqA; ReqA; ReqA; ReqA] /\
  nth 7 (pair_wBBBAAAA (OO:=ROps) a0 b0 a1 b1 a2 b2 a3 b3 a4 b4 a5 b5 a6 b6) 0%R = IZR (Z.of_nat (drawn (run draws [ReqB; ReqB; ReqB; ReqA; ReqA; ReqA; ReqA]))).
Proof. pairing. Qed.

Lemma tie_pair_wAAABAAA a0 b0 a1 b1 a2 b2 a3 b3 a4 b4 a5 b5 a6 b6 :
  let draws := fun k => nth k [(a0, b0); (a1, b1); (a2, b2); (a3, b3); (a4, b4); (a5, b5); (a6, b6)] (a0, b0) in
  firstn 7 (pair_wAAABAAA (OO:=ROps) a0 b0 a1 b1 a2 b2 a3 b3 a4 b4 a5 b5 a6 b6) = deliveries draws st0 [ReqA; ReqA; ReqA; ReqB; ReqA; ReqA; ReqA] /\
  nth 7 (pair_wAAABAAA (OO:=ROps) a0 b0 a1 b1 a2 b2 a3 b3 a4 b4 a5 b5 a6 b6) 0%R = IZR (Z.of_nat (drawn (run draws [ReqA; ReqA; ReqA; ReqB; ReqA; ReqA; ReqA]))).
Proof. pairing. Qed.

Lemma tie_pair_wBAABAAA a0 b0 a1 b1 a2 b2 a3 b3 a4 b4 a5 b5 a6 b6 :
  let draws := fun k => nth k [(a0, b0); (a1, b1); (a2, b2); (a3, b3); (a4, b4); (a5, b5); (a6, b6)] (a0, b0) in
  firstn 7 (pair_wBAABAAA (OO:=ROps) a0 b0 a1 b1 a2 b2 a3 b3 a4 b4 a5 b5 a6 b6) = deliveries draws st0 [ReqB; ReqA; ReqA; ReqB; ReqA; ReqA; ReqA] /\
  nth 7 (pair_wBAABAAA (OO:=ROps) a0 b0 a1 b1 a2 b2 a3 b3 a4 b4 a5 b5 a6 b6) 0%R = IZR (Z.of_nat (drawn (run draws [ReqB; ReqA; ReqA; ReqB; ReqA; ReqA; ReqA]))).
Proof. pairing. Qed.

Lemma tie_pair_wABABAAA a0 b0 a1 b1 a2 b2 a3 b3 a4 b4 a5 b5 a6 b6 :
  let draws := fun k => nth k [(a0, b0); (a1, b1); (a2, b2); (a3, b3); (a4, b4); (a5, b5); (a6, b6)] (a0, b0) in
  firstn 7 (pair_wABABAAA (OO:=ROps) a0 b0 a1 b1 a2 b2 a3 b3 a4 b4 a5 b5 a6 b6) = deliveries draws st0 [ReqA; ReqB; ReqA; ReqB; ReqA; ReqA; ReqA] /\
  nth 7 (pair_wABABAAA (OO:=ROps) a0 b0 a1 b1 a2 b2 a3 b3 a4 b4 a5 b5 a6 b6) 0%R = IZR (Z.of_nat (drawn (run draws [ReqA; ReqB; ReqA; ReqB; ReqA; ReqA; ReqA]))).
Proof. pairing. Qed.

Lemma tie_pair_wBBABAAA a0 b0 a1 b1 a2 b2 a3 b3 a4 b4 a5 b5 a6 b6 :
  let draws := fun k => nth k [(a0, b0); (a1, b1); (a2, b2); (a3, b3); (a4, b4); (a5, b5); (a6, b6)] (a0, b0) in
  firstn 7 (pair_wBBABAAA (OO:=ROps) a0 b0 a1 b1 a2 b2 a3 b3 a4 b4 a5 b5 a6 b6) = deliveries draws st0 [ReqB; ReqB; ReqA; ReqB; ReqA; ReqA; ReqA] /\
  nth 7 (pair_wBBABAAA (OO:=ROps) a0 b0 a1 b1 a2 b2 a3 b3 a4 b4 a5 b5 a6 b6) 0%R = IZR (Z.of_nat (drawn (run draws [ReqB; ReqB; ReqA; ReqB; ReqA; ReqA; ReqA]))).
Proof. pairing. Qed.

Lemma tie_pair_wAABBAAA a0 b0 a1 b1 a2 b2 a3 b3 a4 b4 a5 b5 a6 b6 :
  let draws := fun k => nth k [(a0, b0); (a1, b1); (a2, b2); (a3, b3); (a4, b4); (a5, b5); (a6, b6)] (a0, b0) in
  firstn 7 (pair_wAABBAAA (OO:=ROps) a0 b0 a1 b1 a2 b2 a3 b3 a4 b4 a5 b5 a6 b6) = deliveries draws st0 [ReqA; ReqA; ReqB; ReqB; ReqA; ReqA; ReqA] /\
  nth 7 (pair_wAABBAAA (OO:=ROps) a0 b0 a1 b1 a2 b2 a3 b3 a4 b4 a5 b5 a6 b6) 0%R = IZR (Z.of_nat (drawn (run draws [ReqA; ReqA; ReqB; ReqB; ReqA; ReqA; ReqA]))).
Proof. pairing. Qed.

Lemma tie_pair_wBABBAAA a0 b0 a1 b1 a2 b2 a3 b3 a4 b4 a5 b5 a6 b6 :
  let draws := fun k => nth k [(a0, b0); (a1, b1); (a2, b2); (a3, b3); (a4, b4); (a5, b5); (a6, b6)] (a0, b0) in
  firstn 7 (pair_wBABBAAA (OO:=ROps) a0 b0 a1 b1 a2 b2 a3 b3 a4 b4 a5 b5 a6 b6) = deliveries draws st0 [ReqB; ReqA; ReqB; ReqB; ReqA; ReqA; ReqA] /\
  nth 7 (pair_wBABBAAA (OO:=ROps) a0 b0 a1 b1 a2 b2 a3 b3 a4 b4 a5 b5 a6 b6) 0%R = IZR (Z.of_nat (drawn (run draws [ReqB; ReqA; ReqB; ReqB; ReqA; ReqA; ReqA]))).
Proof. pairing. Qed.

Lemma tie_pair_wABBBAAA a0 b0 a1 b1 a2 b2 a3 b3 a4 b4 a5 b5 a6 b6 :
  let draws := fun k => nth k [(a0, b0); (a1, b1); (a2, b2); (a3, b3); (a4, b4); (a5, b5); (a6, b6)] (a0, b0) in
  firstn 7 (pair_wABBBAAA (OO:=ROps) a0 b0 a1 b1 a2 b2 a3 b3 a4 b4 a5 b5 a6 b6) = deliveries draws st0 [ReqA; ReqB; ReqB; ReqB; ReqA; ReqA; ReqA] /\
  nth 7 (pair_wABBBAAA (OO:=ROps) a0 b0 a1 b1 a2 b2 a3 b3 a4 b4 a5 b5 a6 b6) 0%R = IZR (Z.of_nat (drawn (run draws [ReqA; ReqB; ReqB; ReqB; ReqA; ReqA; ReqA]))).
Proof. pairing. Qed.

Lemma tie_pair_wBBBBAAA a0 b0 a1 b1 a2 b2 a3 b3 a4 b4 a5 b5 a6 b6 :
  let draws := fun k => nth k [(a0, b0); (a1, b1); (a2, b2); (a3, b3); (a4, b4); (a5, b5); (a6, b6)] (a0, b0) in
  firstn 7 (pair_wBBBBAAA (OO:=ROps) a0 b0 a1 b1 a2 b2 a3 b3 a4 b4 a5 b5 a6 b6) = deliveries draws st0 [ReqB; ReqB; ReqB; ReqB; ReqA; ReqA; ReqA] /\
  nth 7 (pair_wBBBBAAA (OO:=ROps) a0 b0 a1 b1 a2 b2 a3 b3 a4 b4 a5 b5 a6 b6) 0%R = IZR (Z.of_nat (drawn (run draws [ReqB; ReqB; ReqB; ReqB; ReqA; ReqA; ReqA]))).
Proof. pairing. Qed.

Lemma tie_pair_wAAAABAA a0 b0 a1 b1 a2 b2 a3 b3 a4 b4 a5 b5 a6 b6 :
  let draws := fun k => nth k [(a0, b0); (a1, b1); (a2, b2); (a3, b3); (a4, b4); (a5, b5); (a6, b6)] (a0, b0) in
  firstn 7 (pair_wAAAABAA (OO:=ROps) a0 b0 a1 b1 a2 b2 a3 b3 a4 b4 a5 b5 a6 b6) = deliveries draws st0 [ReqA; ReqA; ReqA; ReqA; ReqB; ReqA; ReqA] /\
  nth 7 (pair_wAAAABAA (OO:=ROps) a0 b0 a1 b1 a2 b2 a3 b3 a4 b4 a5 b5 a6 b6) 0%R = IZR (Z.of_nat (drawn (run draws [ReqA; ReqA; ReqA; ReqA; ReqB; ReqA; ReqA]))).
Proof. pairing. Qed.

Lemma tie_pair_wBAAABAA a0 b0 a1 b1 a2 b2 a3 b3 a4 b4 a5 b5 a6 b6 :
  let draws := fun k => nth k [(a0, b0); (a1, b1); (a2, b2); (a3, b3); (a4, b4); (a5, b5); (a6, b6)] (a0, b0) in
  firstn 7 (pair_wBAAABAA (OO:=ROps) a0 b0 a1 b1 a2 b2 a3 b3 a4 b4 a5 b5 a6 b6) = deliveries draws st0 [ReqB; ReqA; ReqA; ReqA; ReqB; ReqA; ReqA] /\
  nth 7 (pair_wBAAABAA (OO:=ROps) a0 b0 a1 b1 a2 b2 a3 b3 a4 b4 a5 b5 a6 b6) 0%R = IZR (Z.of_nat (drawn (run draws [ReqB; ReqA; ReqA; ReqA; ReqB; ReqA; ReqA]))).
Proof. pairing. Qed.

Lemma tie_pair_wABAABAA a0 b0 a1 b1 a2 b2 a3 b3 a4 b4 a5 b5 a6 b6 :
  let draws := fun k => nth k [(a0, b0); (a1, b1); (a2, b2); (a3, b3); (a4, b4); (a5, b5); (a6, b6)] (a0, b0) in
  firstn 7 (pair_wABAABAA (OO:=ROps) a0 b0 a1 b1 a2 b2 a3 b3 a4 b4 a5 b5 a6 b6) = deliveries draws st0 [ReqA; ReqB; ReqA; ReqA; ReqB; ReqA; ReqA] /\
  nth 7 (pair_wABAABAA (OO:=ROps) a0 b0 a1 b1 a2 b2 a3 b3 a4 b4 a5 b5 a6 b6) 0%R = IZR (Z.of_nat (drawn (run draws [ReqA; ReqB; ReqA; ReqA; ReqB; ReqA; ReqA]))).
Proof. pairing. Qed.

Lemma tie_pair_wBBAABAA a0 b0 a1 b1 a2 b2 a3 b3 a4 b4 a5 b5 a6 b6 :
  let draws := fun k => nth k [(a0, b0); (a1, b1); (a2, b2); (a3, b3); (a4, b4); (a5, b5); (a6, b6)] (a0, b0) in
  firstn 7 (pair_wBBAABAA (OO:=ROps) a0 b0 a1 b1 a2 b2 a3 b3 a4 b4 a5 b5 a6 b6) = deliveries draws st0 [ReqB; ReqB; ReqA; ReqA; ReqB; ReqA; ReqA] /\
  nth 7 (pair_wBBAABAA (OO:=ROps) a0 b0 a1 b1 a2 b2 a3 b3 a4 b4 a5 b5 a6 b6) 0%R = IZR (Z.of_nat (drawn (run draws [ReqB; ReqB; ReqA; ReqA; ReqB; ReqA; ReqA]))).
Proof. pairing. Qed.

Lemma tie_pair_wAABABAA a0 b0 a1 b1 a2 b2 a3 b3 a4 b4 a5 b5 a6 b6 :
  let draws := fun k => nth k [(a0, b0); (a1, b1); (a2, b2); (a3, b3); (a4, b4); (a5, b5); (a6, b6)] (a0, b0) in
  firstn 7 (pair_wAABABAA (OO:=ROps) a0 b0 a1 b1 a2 b2 a3 b3 a4 b4 a5 b5 a6 b6) = deliveries draws st0 [ReqA; ReqA; ReqB; ReqA; ReqB; ReqA; ReqA] /\
  nth 7 (pair_wAABABAA (OO:=ROps) a0 b0 a1 b1 a2 b2 a3 b3 a4 b4 a5 b5 a6 b6) 0%R = IZR (Z.of_nat (drawn (run draws [ReqA; ReqA; ReqB; ReqA; ReqB; ReqA; ReqA]))).
Proof. pairing. Qed.

Lemma tie_pair_wBABABAA a0 b0 a1 b1 a2 b2 a3 b3 a4 b4 a5 b5 a6 b6 :
  let draws := fun k => nth k [(a0, b0); (a1, b1); (a2, b2); (a3, b3); (a4, b4); (a5, b5); (a6, b6)] (a0, b0) in
  firstn 7 (pair_wBABABAA (OO:=ROps) a0 b0 a1 b1 a2 b2 a3 b3 a4 b4 a5 b5 a6 b6) = deliveries draws st0 [ReqB; ReqA; ReqB; ReqA; ReqB; ReqA; ReqA] /\
  nth 7 (pair_wBABABAA (OO:=ROps) a0 b0 a1 b1 a2 b2 a3 b3 a4 b4 a5 b5 a6 b6) 0%R = IZR (Z.of_nat (drawn (run draws [ReqB; ReqA; ReqB; ReqA; ReqB; ReqA; ReqA]))).
Proof. pairing. Qed.

Lemma tie_pair_wABBABAA a0 b0 a1 b1 a2 b2 a3 b3 a4 b4 a5 b5 a6 b6 :
  let draws := fun k => nth k [(a0, b0); (a1, b1); (a2, b2); (a3, b3); (a4, b4); (a5, b5); (a6, b6)] (a0, b0) in
  firstn 7 (pair_wABBABAA (OO:=ROps) a0 b0 a1 b1 a2 b2 a3 b3 a4 b4 a5 b5 a6 b6) = deliveries draws st0 [ReqA; ReqB; ReqB; ReqA; ReqB; ReqA; ReqA] /\
  nth 7 (pair_wABBABAA (OO:=ROps) a0 b0 a1 b1 a2 b2 a3 b3 a4 b4 a5 b5 a6 b6) 0%R = IZR (Z.of_nat (drawn (run draws [ReqA; ReqB; ReqB; ReqA; ReqB; ReqA; ReqA]))).
Proof. pairing. Qed.

Lemma tie_pair_wBBBABAA a0 b0 a1 b1 a2 b2 a3 b3 a4 b4 a5 b5 a6 b6 :
  let draws := fun k => nth k [(a0, b0); (a1, b1); (a2, b2); (a3, b3); (a4, b4); (a5, b5); (a6, b6)] (a0, b0) in
  firstn 7 (pair_wBBBABAA (OO:=ROps) a0 b0 a1 b1 a2 b2 a3 b3 a4 b4 a5 b5 a6 b6) = deliveries draws st0 [ReqB; ReqB; ReqB; ReqA; ReqB; ReqA; ReqA] /\
  nth 7 (pair_wBBBABAA (OO:=ROps) a0 b0 a1 b1 a2 b2 a3 b3 a4 b4 a5 b5 a6 b6) 0%R = IZR (Z.of_nat (drawn (run draws [ReqB; ReqB; ReqB; ReqA; ReqB; ReqA; ReqA]))).
Proof. pairing. Qed.

Lemma tie_pair_wAAABBAA a0 b0 a1 b1 a2 b2 a3 b3 a4 b4 a5 b5 a6 b6 :
  let draws := fun k => nth k [(a0, b0); (a1, b1); (a2, b2); (a3, b3); (a4, b4); (a5, b5); (a6, b6)] (a0, b0) in
  firstn 7 (pair_wAAABBAA (OO:=ROps) a0 b0 a1 b1 a2 b2 a3 b3 a4 b4 a5 b5 a6 b6) = deliveries draws st0 [ReqA; ReqA; ReqA; ReqB; ReqB; ReqA; ReqA] /\
  nth 7 (pair_wAAABBAA (OO:=ROps) a0 b0 a1 b1 a2 b2 a3 b3 a4 b4 a5 b5 a6 b6) 0%R = IZR (Z.of_nat (drawn (run draws [ReqA; ReqA; ReqA; ReqB; ReqB; ReqA; ReqA]))).
Proof. pairing. Qed.

Lemma tie_pair_wBAABBAA a0 b0 a1 b1 a2 b2 a3 b3 a4 b4 a5 b5 a6 b6 :
  let draws := fun k => nth k [(a0, b0); (a1, b1); (a2, b2); (a3, b3); (a4, b4); (a5, b5); (a6, b6)] (a0, b0) in
  firstn 7 (pair_wBAABBAA (OO:=ROps) a0 b0 a1 b1 a2 b2 a3 b3 a4 b4 a5 b5 a6 b6) = deliveries draws st0 [ReqB; ReqA; ReqA; ReqB; ReqB; ReqA; ReqA] /\
  nth 7 (pair_wBAABBAA (OO:=ROps) a0 b0 a1 b1 a2 b2 a3 b3 a4 b4 a5 b5 a6 b6) 0%R = IZR (Z.of_nat (drawn (run draws [ReqB; ReqA; ReqA; ReqB; ReqB; ReqA; ReqA]))).
Proof. pairing. Qed.

Lemma tie_pair_wABABBAA a0 b0 a1 b1 a2 b2 a3 b3 a4 b4 a5 b5 a6 b6 :
  let draws := fun k => nth k [(a0, b0); (a1, b1); (a2, b2); (a3, b3); (a4, b4); (a5, b5); (a6, b6)] (a0, b0) in
  firstn 7 (pair_wABABBAA (OO:=ROps) a0 b0 a1 b1 a2 b2 a3 b3 a4 b4 a5 b5 a6 b6) = deliveries draws st0 [ReqA; ReqB; ReqA; ReqB; ReqB; ReqA; ReqA] /\
  nth 7 (pair_wABABBAA (OO:=ROps) a0 b0 a1 b1 a2 b2 a3 b3 a4 b4 a5 b5 a6 b6) 0%R = IZR (Z.of_nat (drawn (run draws [ReqA; ReqB; ReqA; ReqB; ReqB; ReqA; ReqA]))).
Proof. pairing. Qed.

Lemma tie_pair_wBBABBAA a0 b0 a1 b1 a2 b2 a3 b3 a4 b4 a5 b5 a6 b6 :
  let draws := fun k => nth k [(a0, b0); (a1, b1); (a2, b2); (a3, b3); (a4, b4); (a5, b5); (a6, b6)] (a0, b0) in
  firstn 7 (pair_wBBABBAA (OO:=ROps) a0 b0 a1 b1 a2 b2 a3 b3 a4 b4 a5 b5 a6 b6) = deliveries draws st0 [ReqB; ReqB; ReqA; ReqB; ReqB; ReqA; ReqA] /\
  nth 7 (pair_wBBABBAA (OO:=ROps) a0 b0 a1 b1 a2 b2 a3 b3 a4 b4 a5 b5 a6 b6) 0%R = IZR (Z.of_nat (drawn (run draws [ReqB; ReqB; ReqA; ReqB; ReqB; ReqA; ReqA]))).
Proof. pairing. Qed.

Lemma tie_pair_wAABBBAA a0 b0 a1 b1 a2 b2 a3 b3 a4 b4 a5 b5 a6 b6 :
  let draws := fun k => nth k [(a0, b0); (a1, b1); (a2, b2); (a3, b3); (a4, b4); (a5, b5); (a6, b6)] (a0, b0) in
  firstn 7 (pair_wAABBBAA (OO:=ROps) a0 b0 a1 b1 a2 b2 a3 b3 a4 b4 a5 b5 a6 b6) = deliveries draws st0 [ReqA; ReqA; ReqB; ReqB; ReqB; ReqA; ReqA] /\
  nth 7 (pair_wAABBBAA (OO:=ROps) a0 b0 a1 b1 a2 b2 a3 b3 a4 b4 a5 b5 a6 b6) 0%R = IZR (Z.of_nat (drawn (run draws [ReqA; ReqA; ReqB; ReqB; ReqB; ReqA; ReqA]))).
Proof. pairing. Qed.

Lemma tie_pair_wBABBBAA a0 b0 a1 b1 a2 b2 a3 b3 a4 b4 a5 b5 a6 b6 :
  let draws := fun k => nth k [(a0, b0); (a1, b1); (a2, b2); (a3, b3); (a4, b4); (a5, b5); (a6, b6)] (a0, b0) in
  firstn 7 (pair_wBABBBAA (OO:=ROps) a0 b0 a1 b1 a2 b2 a3 b3 a4 b4 a5 b5 a6 b6) = deliveries draws st0 [ReqB; ReqA; ReqB; ReqB; ReqB; ReqA; ReqA] /\
  nth 7 (pair_wBABBBAA (OO:=ROps) a0 b0 a1 b1 a2 b2 a3 b3 a4 b4 a5 b5 a6 b6) 0%R = IZR (Z.of_nat (drawn (run draws [ReqB; ReqA; ReqB; ReqB; ReqB; ReqA; ReqA]))).
Proof. pairing. Qed.

Lemma tie_pair_wABBBBAA a0 b0 a1 b1 a2 b2 a3 b3 a4 b4 a5 b5 a6 b6 :
  let draws := fun k => nth k [(a0, b0); (a1, b1); (a2, b2); (a3, b3); (a4, b4); (a5, b5); (a6, b6)] (a0, b0) in
  firstn 7 (pair_wABBBBAA (OO:=ROps) a0 b0 a1 b1 a2 b2 a3 b3 a4 b4 a5 b5 a6 b6) = deliveries draws st0 [ReqA; ReqB; ReqB; ReqB; ReqB; ReqA; ReqA] /\
  nth 7 (pair_wABBBBAA (OO:=ROps) a0 b0 a1 b1 a2 b2 a3 b3 a4 b4 a5 b5 a6 b6) 0%R = IZR (Z.of_nat (drawn (run draws [ReqA; ReqB; ReqB; ReqB; ReqB; ReqA; ReqA]))).
Proof. pairing. Qed.

Lemma tie_pair_wBBBBBAA a0 b0 a1 b1 a2 b2 a3 b3 a4 b4 a5 b5 a6 b6 :
  let draws := fun k => nth k [(a0, b0); (a1, b1); (a2, b2); (a3, b3); (a4, b4); (a5, b5); (a6, b6)] (a0, b0) in
  firstn 7 (pair_wBBBBBAA (OO:=ROps) a0 b0 a1 b1 a2 b2 a3 b3 a4 b4 a5 b5 a6 b6) = deliveries draws st0 [ReqB; ReqB; ReqB; ReqB; ReqB; ReqA; ReqA] /\
  nth 7 (pair_wBBBBBAA (OO:=ROps) a0 b0 a1 b1 a2 b2 a3 b3 a4 b4 a5 b5 a6 b6) 0%R = IZR (Z.of_nat (drawn (run draws [ReqB; ReqB; ReqB; ReqB; ReqB; ReqA; ReqA]))).
Proof. pairing. Qed.

Lemma tie_pair_wAAAAABA a0 b0 a1 b1 a2 b2 a3 b3 a4 b4 a5 b5 a6 b6 :
  let draws := fun k => nth k [(a0, b0); (a1, b1); (a2, b2); (a3, b3); (a4, b4); (a5, b5); (a6, b6)] (a0, b0) in
  firstn 7 (pair_wAAAAABA (OO:=ROps) a0 b0 a1 b1 a2 b2 a3 b3 a4 b4 a5 b5 a6 b6) = deliveries draws st0 [ReqA; ReqA; ReqA; ReqA; ReqA; ReqB; ReqA] /\
  nth 7 (pair_wAAAAABA (OO:=ROps) a0 b0 a1 b1 a2 b2 a3 b3 a4 b4 a5 b5 a6 b6) 0%R = IZR (Z.of_nat (drawn (run draws [ReqA; ReqA; ReqA; ReqA; ReqA; ReqB; ReqA]))).
Proof. pairing. Qed.

Lemma tie_pair_wBAAAABA a0 b0 a1 b1 a2 b2 a3 b3 a4 b4 a5 b5 a6 b6 :
  let draws := fun k => nth k [(a0, b0); (a1, b1); (a2, b2); (a3, b3); (a4, b4); (a5, b5); (a6, b6)] (a0, b0) in
  firstn 7 (pair_wBAAAABA (OO:=ROps) a0 b0 a1 b1 a2 b2 a3 b3 a4 b4 a5 b5 a6 b6) = deliveries draws st0 [ReqB; ReqA; ReqA; ReqA; ReqA; ReqB; ReqA] /\
  nth 7 (pair_wBAAAABA (OO:=ROps) a0 b0 a1 b1 a2 b2 a3 b3 a4 b4 a5 b5 a6 b6) 0%R = IZR (Z.of_nat (drawn (run draws [ReqB; ReqA; ReqA; ReqA; ReqA; ReqB; ReqA]))).
Proof. pairing. Qed.

Lemma tie_pair_wABAAABA a0 b0 a1 b1 a2 b2 a3 b3 a4 b4 a5 b5 a6 b6 :
  let draws := fun k => nth k [(a0, b0); (a1, b1); (a2, b2); (a3, b3); (a4, b4); (a5, b5); (a6, b6)] (a0, b0) in
  firstn 7 (pair_wABAAABA (OO:=ROps) a0 b0 a1 b1 a2 b2 a3 b3 a4 b4 a5 b5 a6 b6) = deliveries draws st0 [ReqA; ReqB; ReqA; ReqA; ReqA; ReqB; ReqA] /\
  nth 7 (pair_wABAAABA (OO:=ROps) a0 b0 a1 b1 a2 b2 a3 b3 a4 b4 a5 b5 a6 b6) 0%R = IZR (Z.of_nat (drawn (run draws [ReqA; ReqB; ReqA; ReqA; ReqA; ReqB; ReqA]))).
Proof. pairing. Qed.

Lemma tie_pair_wBBAAABA a0 b0 a1 b1 a2 b2 a3 b3 a4 b4 a5 b5 a6 b6 :
  let draws := fun k => nth k [(a0, b0); (a1, b1); (a2, b2); (a3, b3); (a4, b4); (a5, b5); (a6, b6)] (a0, b0) in
  firstn 7 (pair_wBBAAABA (OO:=ROps) a0 b0 a1 b1 a2 b2 a3 b3 a4 b4 a5 b5 a6 b6) = deliveries draws st0 [ReqB; ReqB; ReqA; ReqA; ReqA; ReqB; ReqA] /\
  nth 7 (pair_wBBAAABA (OO:=ROps) a0 b0 a1 b1 a2 b2 a3 b3 a4 b4 a5 b5 a6 b6) 0%R = IZR (Z.of_nat (drawn (run draws [ReqB; ReqB; ReqA; ReqA; ReqA; ReqB; ReqA]))).
Proof. pairing. Qed.

Lemma tie_pair_wAABAABA a0 b0 a1 b1 a2 b2 a3 b3 a4 b4 a5 b5 a6 b6 :
  let draws := fun k => nth k [(a0, b0); (a1, b1); (a2, b2); (a3, b3); (a4, b4); (a5, b5); (a6, b6)] (a0, b0) in
  firstn 7 (pair_wAABAABA (OO:=ROps) a0 b0 a1 b1 a2 b2 a3 b3 a4 b4 a5 b5 a6 b6) = deliveries draws st0 [ReqA; ReqA; ReqB; ReqA; ReqA; ReqB; ReqA] /\
  nth 7 (pair_wAABAABA (OO:=ROps) a0 b0 a1 b1 a2 b2 a3 b3 a4 b4 a5 b5 a6 b6) 0%R = IZR (Z.of_nat (drawn (run draws [ReqA; ReqA; ReqB; ReqA; ReqA; ReqB; ReqA]))).
Proof. pairing. Qed.

Lemma tie_pair_wBABAABA a0 b0 a1 b1 a2 b2 a3 b3 a4 b4 a5 b5 a6 b6 :
  let draws := fun k => nth k [(a0, b0); (a1, b1); (a2, b2); (a3, b3); (a4, b4); (a5, b5); (a6, b6)] (a0, b0) in
  firstn 7 (pair_wBABAABA (OO:=ROps) a0 b0 a1 b1 a2 b2 a3 b3 a4 b4 a5 b5 a6 b6) = deliveries draws st0 [ReqB; ReqA; ReqB; ReqA; ReqA; ReqB; ReqA] /\
  nth 7 (pair_wBABAABA (OO:=ROps) a0 b0 a1 b1 a2 b2 a3 b3 a4 b4 a5 b5 a6 b6) 0%R = IZR (Z.of_nat (drawn (run draws [ReqB; ReqA; ReqB; ReqA; ReqA; ReqB; ReqA]))).
Proof. pairing. Qed.

Lemma tie_pair_wABBAABA a0 b0 a1 b1 a2 b2 a3 b3 a4 b4 a5 b5 a6 b6 :
  let draws := fun k => nth k [(a0, b0); (a1, b1); (a2, b2); (a3, b3); (a4, b4); (a5, b5); (a6, b6)] (a0, b0) in
  firstn 7 (pair_wABBAABA (OO:=ROps) a0 b0 a1 b1 a2 b2 a3 b3 a4 b4 a5 b5 a6 b6) = deliveries draws st0 [ReqA; ReqB; ReqB; ReqA; ReqA; ReqB; ReqA] /\
  nth 7 (pair_wABBAABA (OO:=ROps) a0 b0 a1 b1 a2 b2 a3 b3 a4 b4 a5 b5 a6 b6) 0%R = IZR (Z.of_nat (drawn (run draws [ReqA; ReqB; ReqB; ReqA; ReqA; ReqB; ReqA]))).
Proof. pairing. Qed.

Lemma tie_pair_wBBBAABA a0 b0 a1 b1 a2 b2 a3 b3 a4 b4 a5 b5 a6 b6 :
  let draws := fun k => nth k [(a0, b0); (a1, b1); (a2, b2); (a3, b3); (a4, b4); (a5, b5); (a6, b6)] (a0, b0) in
  firstn 7 (pair_wBBBAABA (OO:=ROps) a0 b0 a1 b1 a2 b2 a3 b3 a4 b4 a5 b5 a6 b6) = deliveries draws st0 [ReqB; ReqB; ReqB; ReqA; ReqA; ReqB; ReqA] /\
  nth 7 (pair_wBBBAABA (OO:=ROps) a0 b0 a1 b1 a2 b2 a3 b3 a4 b4 a5 b5 a6 b6) 0%R = IZR (Z.of_nat (drawn (run draws [ReqB; ReqB; ReqB; ReqA; ReqA; ReqB; ReqA]))).
Proof. pairing. Qed.

Lemma tie_pair_wAAABABA a0 b0 a1 b1 a2 b2 a3 b3 a4 b4 a5 b5 a6 b6 :
  let draws := fun k => nth k [(a0, b0); (a1, b1); (a2, b2); (a3, b3); (a4, b4); (a5, b5); (a6, b6)] (a0, b0) in
  firstn 7 (pair_wAAABABA (OO:=ROps) a0 b0 a1 b1 a2 b2 a3 b3 a4 b4 a5 b5 a6 b6) = deliveries draws st0 [ReqA; ReqA; ReqA; ReqB; ReqA; ReqB; ReqA] /\
  nth 7 (pair_wAAABABA (OO:=ROps) a0 b0 a1 b1 a2 b2 a3 b3 a4 b4 a5 b5 a6 b6) 0%R = IZR (Z.of_nat (drawn (run draws [ReqA; ReqA; ReqA; ReqB; ReqA; ReqB; ReqA]))).
Proof. pairing. Qed.

Lemma tie_pair_wBAABABA a0 b0 a1 b1 a2 b2 a3 b3 a4 b4 a5 b5 a6 b6 :
  let draws := fun k => nth k [(a0, b0); (a1, b1); (a2, b2); (a3, b3); (a4, b4); (a5, b5); (a6, b6)] (a0, b0) in
  firstn 7 (pair_wBAABABA (OO:=ROps) a0 b0 a1 b1 a2 b2 a3 b3 a4 b4 a5 b5 a6 b6) = deliveries draws st0 [ReqB; ReqA; ReqA; ReqB; ReqA; ReqB; ReqA] /\
  nth 7 (pair_wBAABABA (OO:=ROps) a0 b0 a1 b1 a2 b2 a3 b3 a4 b4 a5 b5 a6 b6) 0%R = IZR (Z.of_nat (drawn (run draws [ReqB; ReqA; ReqA; ReqB; ReqA; ReqB; ReqA]))).
Proof. pairing. Qed.

Lemma tie_pair_wABABABA a0 b0 a1 b1 a2 b2 a3 b3 a4 b4 a5 b5 a6 b6 :
  let draws := fun k => nth k [(a0, b0); (a1, b1); (a2, b2); (a3, b3); (a4, b4); (a5, b5); (a6, b6)] (a0, b0) in
  firstn 7 (pair_wABABABA (OO:=ROps) a0 b0 a1 b1 a2 b2 a3 b3 a4 b4 a5 b5 a6 b6) = deliveries draws st0 [ReqA; ReqB; ReqA; ReqB; ReqA; ReqB; ReqA] /\
  nth 7 (pair_wABABABA (OO:=ROps) a0 b0 a1 b1 a2 b2 a3 b3 a4 b4 a5 b5 a6 b6) 0%R = IZR (Z.of_nat (drawn (run draws [ReqA; ReqB; ReqA; ReqB; ReqA; ReqB; ReqA]))).
Proof. pairing. Qed.

Lemma tie_pair_wBBABABA a0 b0 a1 b1 a2 b2 a3 b3 a4 b4 a5 b5 a6 b6 :
  let draws := fun k => nth k [(a0, b0); (a1, b1); (a2, b2); (a3, b3); (a4, b4); (a5, b5); (a6, b6)] (a0, b0) in
  firstn 7 (pair_wBBABABA (OO:=ROps) a0 b0 a1 b1 a2 b2 a3 b3 a4 b4 a5 b5 a6 b6) = deliveries draws st0 [ReqB; ReqB; ReqA; ReqB; ReqA; ReqB; ReqA] /\
  nth 7 (pair_wBBABABA (OO:=ROps) a0 b0 a1 b1 a2 b2 a3 b3 a4 b4 a5 b5 a6 b6) 0%R = IZR (Z.of_nat (drawn (run draws [ReqB; ReqB; ReqA; ReqB; ReqA; ReqB; ReqA]))).
Proof. pairing. Qed.

Lemma tie_pair_wAABBABA a0 b0 a1 b1 a2 b2 a3 b3 a4 b4 a5 b5 a6 b6 :
  let draws := fun k => nth k [(a0, b0); (a1, b1); (a2, b2); (a3, b3); (a4, b4); (a5, b5); (a6, b6)] (a0, b0) in
  firstn 7 (pair_wAABBABA (OO:=ROps) a0 b0 a1 b1 a2 b2 a3 b3 a4 b4 a5 b5 a6 b6) = deliveries draws st0 [ReqA; ReqA; ReqB; ReqB; ReqA; ReqB; ReqA] /\
  nth 7 (pair_wAABBABA (OO:=ROps) a0 b0 a1 b1 a2 b2 a3 b3 a4 b4 a5 b5 a6 b6) 0%R = IZR (Z.of_nat (drawn (run draws [ReqA; ReqA; ReqB; ReqB; ReqA; ReqB; ReqA]))).
Proof. pairing. Qed.

Lemma tie_pair_wBABBABA a0 b0 a1 b1 a2 b2 a3 b3 a4 b4 a5 b5 a6 b6 :
  let draws := fun k => nth k [(a0, b0); (a1, b1); (a2, b2); (a3, b3); (a4, b4); (a5, b5); (a6, b6)] (a0, b0) in
  firstn 7 (pair_wBABBABA (OO:=ROps) a0 b0 a1 b1 a2 b2 a3 b3 a4 b4 a5 b5 a6 b6) = deliveries draws st0 [ReqB; ReqA; ReqB; ReqB; ReqA; ReqB; ReqA] /\
  nth 7 (pair_wBABBABA (OO:=ROps) a0 b0 a1 b1 a2 b2 a3 b3 a4 b4 a5 b5 a6 b6) 0%R = IZR (Z.of_nat (drawn (run draws [ReqB; ReqA; ReqB; ReqB; ReqA; ReqB; ReqA]))).
Proof. pairing. Qed.

Lemma tie_pair_wABBBABA a0 b0 a1 b1 a2 b2 a3 b3 a4 b4 a5 b5 a6 b6 :
  let draws := fun k => nth k [(a0, b0); (a1, b1); (a2, b2); (a3, b3); (a4, b4); (a5, b5); (a6, b6)] (a0, b0) in
  firstn 7 (pair_wABBBABA (OO:=ROps) a0 b0 a1 b1 a2 b2 a3 b3 a4 b4 a5 b5 a6 b6) = deliveries draws st0 [ReqA; ReqB; ReqB; ReqB; ReqA; ReqB; ReqA] /\
  nth 7 (pair_wABBBABA (OO:=ROps) a0 b0 a1 b1 a2 b2 a3 b3 a4 b4 a5 b5 a6 b6) 0%R = IZR (Z.of_nat (drawn (run draws [ReqA; ReqB; ReqB; ReqB; ReqA; ReqB; ReqA]))).
Proof. pairing. Qed.

Lemma tie_pair_wBBBBABA a0 b0 a1 b1 a2 b2 a3 b3 a4 b4 a5 b5 a6 b6 :
  let draws := fun k => nth k [(a0, b0); (a1, b1); (a2, b2); (a3, b3); (a4, b4); (a5, b5); (a6, b6)] (a0, b0) in
  firstn 7 (pair_wBBBBABA (OO:=ROps) a0 b0 a1 b1 a2 b2 a3 b3 a4 b4 a5 b5 a6 b6) = deliveries draws st0 [ReqB; ReqB; ReqB; ReqB; ReqA; ReqB; ReqA] /\
  nth 7 (pair_wBBBBABA (OO:=ROps) a0 b0 a1 b1 a2 b2 a3 b3 a4 b4 a5 b5 a6 b6) 0%R = IZR (Z.of_nat (drawn (run draws [ReqB; ReqB; ReqB; ReqB; ReqA; ReqB; ReqA]))).
Proof. pairing. Qed.

Lemma tie_pair_wAAAABBA a0 b0 a1 b1 a2 b2 a3 b3 a4 b4 a5 b5 a6 b6 :
  let draws := fun k => nth k [(a0, b0); (a1, b1); (a2, b2); (a3, b3); (a4, b4); (a5, b5); (a6, b6)] (a0, b0) in
  firstn 7 (pair_wAAAABBA (OO:=ROps) a0 b0 a1 b1 a2 b2 a3 b3 a4 b4 a5 b5 a6 b6) = deliveries draws st0 [ReqA; ReqA; ReqA; ReqA; ReqB; ReqB; ReqA] /\
  nth 7 (pair_wAAAABBA (OO:=ROps) a0 b0 a1 b1 a2 b2 a3 b3 a4 b4 a5 b5 a6 b6) 0%R = IZR (Z.of_nat (drawn (run draws [ReqA; ReqA; ReqA; ReqA; ReqB; ReqB; ReqA]))).
Proof. pairing. Qed.

Lemma tie_pair_wBAAABBA a0 b0 a1 b1 a2 b2 a3 b3 a4 b4 a5 b5 a6 b6 :
  let draws := fun k => nth k [(a0, b0); (a1, b1); (a2, b2); (a3, b3); (a4, b4); (a5, b5); (a6, b6)] (a0, b0) in
  firstn 7 (pair_wBAAABBA (OO:=ROps) a0 b0 a1 b1 a2 b2 a3 b3 a4 b4 a5 b5 a6 b6) = deliveries draws st0 [ReqB; ReqA; ReqA; ReqA; ReqB; ReqB; ReqA] /\
  nth 7 (pair_wBAAABBA (OO:=ROps) a0 b0 a1 b1 a2 b2 a3 b3 a4 b4 a5 b5 a6 b6) 0%R = IZR (Z.of_nat (drawn (run draws [ReqB; ReqA; ReqA; ReqA; ReqB; ReqB; ReqA]))).
Proof. pairing. Qed.

Lemma tie_pair_wABAABBA a0 b0 a1 b1 a2 b2 a3 b3 a4 b4 a5 b5 a6 b6 :
  let draws := fun k => nth k [(a0, b0); (a1, b1); (a2, b2); (a3, b3); (a4, b4); (a5, b5); (a6, b6)] (a0, b0) in
  firstn 7 (pair_wABAABBA (OO:=ROps) a0 b0 a1 b1 a2 b2 a3 b3 a4 b4 a5 b5 a6 b6) = deliveries draws st0 [ReqA; ReqB; ReqA; ReqA; ReqB; ReqB; ReqA] /\
  nth 7 (pair_wABAABBA (OO:=ROps) a0 b0 a1 b1 a2 b2 a3 b3 a4 b4 a5 b5 a6 b6) 0%R = IZR (Z.of_nat (drawn (run draws [ReqA; ReqB; ReqA; ReqA; ReqB; ReqB; ReqA]))).
Proof. pairing. Qed.

Lemma tie_pair_wBBAABBA a0 b0 a1 b1 a2 b2 a3 b3 a4 b4 a5 b5 a6 b6 :
  let draws := fun k => nth k [(a0, b0); (a1, b1); (a2, b2); (a3, b3); (a4, b4); (a5, b5); (a6, b6)] (a0, b0) in
  firstn 7 (pair_wBBAABBA (OO:=ROps) a0 b0 a1 b1 a2 b2 a3 b3 a4 b4 a5 b5 a6 b6) = deliveries draws st0 [ReqB; ReqB; ReqA; ReqA; ReqB; ReqB; ReqA] /\
  nth 7 (pair_wBBAABBA (OO:=ROps) a0 b0 a1 b1 a2 b2 a3 b3 a4 b4 a5 b5 a6 b6) 0%R = IZR (Z.of_nat (drawn (run draws [ReqB; ReqB; ReqA; ReqA; ReqB; ReqB; ReqA]))).
Proof. pairing. Qed.

Lemma tie_pair_wAABABBA a0 b0 a1 b1 a2 b2 a3 b3 a4 b4 a5 b5 a6 b6 :
  let draws := fun k => nth k [(a0, b0); (a1, b1); (a2, b2); (a3, b3); (a4, b4); (a5, b5); (a6, b6)] (a0, b0) in
  firstn 7 (pair_wAABABBA (OO:=ROps) a0 b0 a1 b1 a2 b2 a3 b3 a4 b4 a5 b5 a6 b6) = deliveries draws st0 [ReqA; ReqA; ReqB; ReqA; ReqB; ReqB; ReqA] /\
  nth 7 (pair_wAABABBA (OO:=ROps) a0 b0 a1 b1 a2 b2 a3 b3 a4 b4 a5 b5 a6 b6) 0%R = IZR (Z.of_nat (drawn (run draws [ReqA; ReqA; ReqB; ReqA; ReqB; ReqB; ReqA]))).
Proof. pairing. Qed.

Lemma tie_pair_wBABABBA a0 b0 a1 b1 a2 b2 a3 b3 a4 b4 a5 b5 a6 b6 :
  let draws := fun k => nth k [(a0, b0); (a1, b1); (a2, b2); (a3, b3); (a4, b4); (a5, b5); (a6, b6)] (a0, b0) in
  firstn 7 (pair_wBABABBA (OO:=ROps) a0 b0 a1 b1 a2 b2 a3 b3 a4 b4 a5 b5 a6 b6) = deliveries draws st0 [ReqB; ReqA; ReqB; ReqA; ReqB; ReqB; ReqA] /\
  nth 7 (pair_wBABABBA (OO:=ROps) a0 b0 a1 b1 a2 b2 a3 b3 a4 b4 a5 b5 a6 b6) 0%R = IZR (Z.of_nat (drawn (run draws [ReqB; ReqA; ReqB; ReqA; ReqB; ReqB; ReqA]))).
Proof. pairing. Qed.

Lemma tie_pair_wABBABBA a0 b0 a1 b1 a2 b2 a3 b3 a4 b4 a5 b5 a6 b6 :
  let draws := fun k => nth k [(a0, b0); (a1, b1); (a2, b2); (a3, b3); (a4, b4); (a5, b5); (a6, b6)] (a0, b0) in
  firstn 7 (pair_wABBABBA (OO:=ROps) a0 b0 a1 b1 a2 b2 a3 b3 a4 b4 a5 b5 a6 b6) = deliveries draws st0 [ReqA; ReqB; ReqB; ReqA; ReqB; ReqB; ReqA] /\
  nth 7 (pair_wABBABBA (OO:=ROps) a0 b0 a1 b1 a2 b2 a3 b3 a4 b4 a5 b5 a6 b6) 0%R = IZR (Z.of_nat (drawn (run draws [ReqA; ReqB; ReqB; ReqA; ReqB; ReqB; ReqA]))).
Proof. pairing. Qed.

Lemma tie_pair_wBBBABBA a0 b0 a1 b1 a2 b2 a3 b3 a4 b4 a5 b5 a6 b6 :
  let draws := fun k => nth k [(a0, b0); (a1, b1); (a2, b2); (a3, b3); (a4, b4); (a5, b5); (a6, b6)] (a0, b0) in
  firstn 7 (pair_wBBBABBA (OO:=ROps) a0 b0 a1 b1 a2 b2 a3 b3 a4 b4 a5 b5 a6 b6) = deliveries draws st0 [ReqB; ReqB; ReqB; ReqA; ReqB; ReqB; ReqA] /\
  nth 7 (pair_wBBBABBA (OO:=ROps) a0 b0 a1 b1 a2 b2 a3 b3 a4 b4 a5 b5 a6 b6) 0%R = IZR (Z.of_nat (drawn (run draws [ReqB; ReqB; ReqB; ReqA; ReqB; ReqB; ReqA]))).
Proof. pairing. Qed.

Lemma tie_pair_wAAABBBA a0 b0 a1 b1 a2 b2 a3 b3 a4 b4 a5 b5 a6 b6 :
  let draws := fun k => nth k [(a0, b0); (a1, b1); (a2, b2); (a3, b3); (a4, b4); (a5, b5); (a6, b6)] (a0, b0) in
  firstn 7 (pair_wAAABBBA (OO:=ROps) a0 b0 a1 b1 a2 b2 a3 b3 a4 b4 a5 b5 a6 b6) = deliveries draws st0 [ReqA; ReqA; ReqA; ReqB; ReqB; ReqB; ReqA] /\
  nth 7 (pair_wAAABBBA (OO:=ROps) a0 b0 a1 b1 a2 b2 a3 b3 a4 b4 a5 b5 a6 b6) 0%R = IZR (Z.of_nat (drawn (run draws [ReqA; ReqA; ReqA; ReqB; ReqB; ReqB; ReqA]))).
Proof. pairing. Qed.

Lemma tie_pair_wBAABBBA a0 b0 a1 b1 a2 b2 a3 b3 a4 b4 a5 b5 a6 b6 :
  let draws := fun k => nth k [(a0, b0); (a1, b1); (a2, b2); (a3, b3); (a4, b4); (a5, b5); (a6, b6)] (a0, b0) in
  firstn 7 (pair_wBAABBBA (OO:=ROps) a0 b0 a1 b1 a2 b2 a3 b3 a4 b4 a5 b5 a6 b6) = deliveries draws st0 [ReqB; ReqA; ReqA; ReqB; ReqB; ReqB; ReqA] /\
  nth 7 (pair_wBAABBBA (OO:=ROps) a0 b0 a1 b1 a2 b2 a3 b3 a4 b4 a5 b5 a6 b6) 0%R = IZR (Z.of_nat (drawn (run draws [ReqB; ReqA; ReqA; ReqB; ReqB; ReqB; ReqA]))).
Proof. pairing. Qed.

Lemma tie_pair_wABABBBA a0 b0 a1 b1 a2 b2 a3 b3 a4 b4 a5 b5 a6 b6 :
  let draws := fun k => nth k [(a0, b0); (a1, b1); (a2, b2); (a3, b3); (a4, b4); (a5, b5); (a6, b6)] (a0, b0) in
  firstn 7 (pair_wABABBBA (OO:=ROps) a0 b0 a1 b1 a2 b2 a3 b3 a4 b4 a5 b5 a6 b6) = deliveries draws st0 [ReqA; ReqB; ReqA; ReqB; ReqB; ReqB; ReqA] /\
  nth 7 (pair_wABABBBA (OO:=ROps) a0 b0 a1 b1 a2 b2 a3 b3 a4 b4 a5 b5 a6 b6) 0%R = IZR (Z.of_nat (drawn (run draws [ReqA; ReqB; ReqA; ReqB; ReqB; ReqB; ReqA]))).
Proof. pairing. Qed.

Lemma tie_pair_wBBABBBA a0 b0 a1 b1 a2 b2 a3 b3 a4 b4 a5 b5 a6 b6 :
  let draws := fun k => nth k [(a0, b0); (a1, b1); (a2, b2); (a3, b3); (a4, b4); (a5, b5); (a6, b6)] (a0, b0) in
  firstn 7 (pair_wBBABBBA (OO:=ROps) a0 b0 a1 b1 a2 b2 a3 b3 a4 b4 a5 b5 a6 b6) = deliveries draws st0 [ReqB; ReqB; ReqA; ReqB; ReqB; ReqB; ReqA] /\
  nth 7 (pair_wBBABBBA (OO:=ROps) a0 b0 a1 b1 a2 b2 a3 b3 a4 b4 a5 b5 a6 b6) 0%R = IZR (Z.of_nat (drawn (run draws [ReqB; ReqB; ReqA; ReqB; ReqB; ReqB; ReqA]))).
Proof. pairing. Qed.

Lemma tie_pair_wAABBBBA a0 b0 a1 b1 a2 b2 a3 b3 a4 b4 a5 b5 a6 b6 :
  let draws := fun k => nth k [(a0, b0); (a1, b1); (a2, b2); (a3, b3); (a4, b4); (a5, b5); (a6, b6)] (a0, b0) in
  firstn 7 (pair_wAABBBBA (OO:=ROps) a0 b0 a1 b1 a2 b2 a3 b3 a4 b4 a5 b5 a6 b6) = deliveries draws st0 [ReqA; ReqA; ReqB; ReqB; ReqB; ReqB; ReqA] /\
  nth 7 (pair_wAABBBBA (OO:=ROps) a0 b0 a1 b1 a2 b2 a3 b3 a4 b4 a5 b5 a6 b6) 0%R = IZR (Z.of_nat (drawn (run draws [ReqA; ReqA; ReqB; ReqB; ReqB; ReqB; ReqA]))).
Proof. pairing. Qed.

Lemma tie_pair_wBABBBBA a0 b0 a1 b1 a2 b2 a3 b3 a4 b4 a5 b5 a6 b6 :
  let draws := fun k => nth k [(a0, b0); (a1, b1); (a2, b2); (a3, b3); (a4, b4); (a5, b5); (a6, b6)] (a0, b0) in
  firstn 7 (pair_wBABBBBA (OO:=ROps) a0 b0 a1 b1 a2 b2 a3 b3 a4 b4 a5 b5 a6 b6) = deliveries draws st0 [ReqB; ReqA; ReqB; ReqB; ReqB; ReqB; ReqA] /\
  nth 7 (pair_wBABBBBA (OO:=ROps) a0 b0 a1 b1 a2 b2 a3 b3 a4 b4 a5 b5 a6 b6) 0%R = IZR (Z.of_nat (drawn (run draws [ReqB; ReqA; ReqB; ReqB; ReqB; ReqB; ReqA]))).
Proof. pairing. Qed.

Lemma tie_pair_wABBBBBA a0 b0 a1 b1 a2 b2 a3 b3 a4 b4 a5 b5 a6 b6 :
  let draws := fun k => nth k [(a0, b0); (a1, b1); (a2, b2); (a3, b3); (a4, b4); (a5, b5); (a6, b6)] (a0, b0) in
  firstn 7 (pair_wABBBBBA (OO:=ROps) a0 b0 a1 b1 a2 b2 a3 b3 a4 b4 a5 b5 a6 b6) = deliveries draws st0 [ReqA; ReqB; ReqB; ReqB; ReqB; ReqB; ReqA] /\
  nth 7 (pair_wABBBBBA (OO:=ROps) a0 b0 a1 b1 a2 b2 a3 b3 a4 b4 a5 b5 a6 b6) 0%R = IZR (Z.of_nat (drawn (run draws [ReqA; ReqB; ReqB; ReqB; ReqB; ReqB; ReqA]))).
Proof. pairing. Qed.

Lemma tie_pair_wBBBBBBA a0 b0 a1 b1 a2 b2 a3 b3 a4 b4 a5 b5 a6 b6 :
  let draws := fun k => nth k [(a0, b0); (a1, b1); (a2, b2); (a3, b3); (a4, b4); (a5, b5); (a6, b6)] (a0, b0) in
  firstn 7 (pair_wBBBBBBA (OO:=ROps) a0 b0 a1 b1 a2 b2 a3 b3 a4 b4 a5 b5 a6 b6) = deliveries draws st0 [ReqB; ReqB; ReqB; ReqB; ReqB; ReqB; ReqA] /\
  nth 7 (pair_wBBBBBBA (OO:=ROps) a0 b0 a1 b1 a2 b2 a3 b3 a4 b4 a5 b5 a6 b6) 0%R = IZR (Z.of_nat (drawn (run draws [ReqB; ReqB; ReqB; ReqB; ReqB; ReqB; ReqA]))).
Proof. pairing. Qed.

Lemma tie_pair_wAAAAAAB a0 b0 a1 b1 a2 b2 a3 b3 a4 b4 a5 b5 a6 b6 :
  let draws := fun k => nth k [(a0, b0); (a1, b1); (a2, b2); (a3, b3); (a4, b4); (a5, b5); (a6, b6)] (a0, b0) in
  firstn 7 (pair_wAAAAAAB (OO:=ROps) a0 b0 a1 b1 a2 b2 a3 b3 a4 b4 a5 b5 a6 b6) = deliveries draws st0 [ReqA; ReqA; ReqA; ReqA; ReqA; ReqA; ReqB] /\
  nth 7 (pair_wAAAAAAB (OO:=ROps) a0 b0 a1 b1 a2 b2 a3 b3 a4 b4 a5 b5 a6 b6) 0%R = IZR (Z.of_nat (drawn (run draws [ReqA; ReqA; ReqA; ReqA; ReqA; ReqA; ReqB]))).
Proof. pairing. Qed.

Lemma tie_pair_wBAAAAAB a0 b0 a1 b1 a2 b2 a3 b3 a4 b4 a5 b5 a6 b6 :
  let draws := fun k => nth k [(a0, b0); (a1, b1); (a2, b2); (a3, b3); (a4, b4); (a5, b5); (a6, b6)] (a0, b0) in
  firstn 7 (pair_wBAAAAAB (OO:=ROps) a0 b0 a1 b1 a2 b2 a3 b3 a4 b4 a5 b5 a6 b6) = deliveries draws st0 [ReqB; ReqA; ReqA; ReqA; ReqA; ReqA; ReqB] /\
  nth 7 (pair_wBAAAAAB (OO:=ROps) a0 b0 a1 b1 a2 b2 a3 b3 a4 b4 a5 b5 a6 b6) 0%R = IZR (Z.of_nat (drawn (run draws [ReqB; ReqA; ReqA; ReqA; ReqA; ReqA; ReqB]))).
Proof. pairing. Qed.

Lemma tie_pair_wABAAAAB a0 b0 a1 b1 a2 b2 a3 b3 a4 b4 a5 b5 a6 b6 :
  let draws := fun k => nth k [(a0, b0); (a1, b1); (a2, b2); (a3, b3); (a4, b4); (a5, b5); (a6, b6)] (a0, b0) in
  firstn 7 (pair_wABAAAAB (OO:=ROps) a0 b0 a1 b1 a2 b2 a3 b3 a4 b4 a5 b5 a6 b6) = deliveries draws st0 [ReqA; ReqB; ReqA; ReqA; ReqA; ReqA; ReqB] /\
  nth 7 (pair_wABAAAAB (OO:=ROps) a0 b0 a1 b1 a2 b2 a3 b3 a4 b4 a5 b5 a6 b6) 0%R = IZR (Z.of_nat (drawn (run draws [ReqA; ReqB; ReqA; ReqA; ReqA; ReqA; ReqB]))).
Proof. pairing. Qed.

Lemma tie_pair_wBBAAAAB a0 b0 a1 b1 a2 b2 a3 b3 a4 b4 a5 b5 a6 b6 :
  let draws := fun k => nth k [(a0, b0); (a1, b1); (a2, b2); (a3, b3); (a4, b4); (a5, b5); (a6, b6)] (a0, b0) in
  firstn 7 (pair_wBBAAAAB (OO:=ROps) a0 b0 a1 b1 a2 b2 a3 b3 a4 b4 a5 b5 a6 b6) = deliveries draws st0 [ReqB; ReqB; ReqA; ReqA; ReqA; ReqA; ReqB] /\
  nth 7 (pair_wBBAAAAB (OO:=ROps) a0 b0 a1 b1 a2 b2 a3 b3 a4 b4 a5 b5 a6 b6) 0%R = IZR (Z.of_nat (drawn (run draws [ReqB; ReqB; ReqA; ReqA; ReqA; ReqA; ReqB]))).
Proof. pairing. Qed.

Lemma tie_pair_wAABAAAB a0 b0 a1 b1 a2 b2 a3 b3 a4 b4 a5 b5 a6 b6 :
  let draws := fun k => nth k [(a0, b0); (a1, b1); (a2, b2); (a3, b3); (a4, b4); (a5, b5); (a6, b6)] (a0, b0) in
  firstn 7 (pair_wAABAAAB (OO:=ROps) a0 b0 a1 b1 a2 b2 a3 b3 a4 b4 a5 b5 a6 b6) = deliveries draws st0 [ReqA; ReqA; ReqB; ReqA; ReqA; ReqA; ReqB] /\
  nth 7 (pair_wAABAAAB (OO:=ROps) a0 b0 a1 b1 a2 b2 a3 b3 a4 b4 a5 b5 a6 b6) 0%R = IZR (Z.of_nat (drawn (run draws [ReqA; ReqA; ReqB; ReqA; ReqA; ReqA; ReqB]))).
Proof. pairing. Qed.

Lemma tie_pair_wBABAAAB a0 b0 a1 b1 a2 b2 a3 b3 a4 b4 a5 b5 a6 b6 :
  let draws := fun k => nth k [(a0, b0); (a1, b1); (a2, b2); (a3, b3); (a4, b4); (a5, b5); (a6, b6)] (a0, b0) in
  firstn 7 (pair_wBABAAAB (OO:=ROps) a0 b0 a1 b1 a2 b2 a3 b3 a4 b4 a5 b5 a6 b6) = deliveries draws st0 [ReqB; ReqA; ReqB; ReqA; ReqA; ReqA; ReqB] /\
  nth 7 (pair_wBABAAAB (OO:=ROps) a0 b0 a1 b1 a2 b2 a3 b3 a4 b4 a5 b5 a6 b6) 0%R = IZR (Z.of_nat (drawn (run draws [ReqB; ReqA; ReqB; ReqA; ReqA; ReqA; ReqB]))).
Proof. pairing. Qed.

Lemma tie_pair_wABBAAAB a0 b0 a1 b1 a2 b2 a3 b3 a4 b4 a5 b5 a6 b6 :
  let draws := fun k => nth k [(a0, b0); (a1, b1); (a2, b2); (a3, b3); (a4, b4); (a5, b5); (a6, b6)] (a0, b0) in
  firstn 7 (pair_wABBAAAB (OO:=ROps) a0 b0 a1 b1 a2 b2 a3 b3 a4 b4 a5 b5 a6 b6) = deliveries draws st0 [ReqA; ReqB; ReqB; ReqA; ReqA; ReqA; ReqB] /\
  nth 7 (pair_wABBAAAB (OO:=ROps) a0 b0 a1 b1 a2 b2 a3 b3 a4 b4 a5 b5 a6 b6) 0%R = IZR (Z.of_nat (drawn (run draws [ReqA; ReqB; ReqB; ReqA; ReqA; ReqA; ReqB]))).
Proof. pairing. Qed.

Lemma tie_pair_wBBBAAAB a0 b0 a1 b1 a2 b2 a3 b3 a4 b4 a5 b5 a6 b6 :
  let draws := fun k => nth k [(a0, b0); (a1, b1); (a2, b2); (a3, b3); (a4, b4); (a5, b5); (a6, b6)] (a0, b0) in
  firstn 7 (pair_wBBBAAAB (OO:=ROps) a0 b0 a1 b1 a2 b2 a3 b3 a4 b4 a5 b5 a6 b6) = deliveries draws st0 [ReqB; ReqB; ReqB; ReqA; ReqA; ReqA; ReqB] /\
  nth 7 (pair_wBBBAAAB (OO:=ROps) a0 b0 a1 b1 a2 b2 a3 b3 a4 b4 a5 b5 a6 b6) 0%R = IZR (Z.of_nat (drawn (run draws [ReqB; ReqB; ReqB; ReqA; ReqA; ReqA; ReqB]))).
Proof. pairing. Qed.

Lemma tie_pair_wAAABAAB a0 b0 a1 b1 a2 b2 a3 b3 a4 b4 a5 b5 a6 b6 :
  let draws := fun k => nth k [(a0, b0); (a1, b1); (a2, b2); (a3, b3); (a4, b4); (a5, b5); (a6, b6)] (a0, b0) in
  firstn 7 (pair_wAAABAAB (OO:=ROps) a0 b0 a1 b1 a2 b2 a3 b3 a4 b4 a5 b5 a6 b6) = deliveries draws st0 [ReqA; ReqA; ReqA; ReqB; ReqA; ReqA; ReqB] /\
  nth 7 (pair_wAAABAAB (OO:=ROps) a0 b0 a1 b1 a2 b2 a3 b3 a4 b4 a5 b5 a6 b6) 0%R = IZR (Z.of_nat (drawn (run draws [ReqA; ReqA; ReqA; ReqB; ReqA; ReqA; ReqB]))).
Proof. pairing. Qed.

Lemma tie_pair_wBAABAAB a0 b0 a1 b1 a2 b2 a3 b3 a4 b4 a5 b5 a6 b6 :
  let draws := fun k => nth k [(a0, b0); (a1, b1); (a2, b2); (a3, b3); (a4, b4); (a5, b5); (a6, b6)] (a0, b0) in
  firstn 7 (pair_wBAABAAB (OO:=ROps) a0 b0 a1 b1 a2 b2 a3 b3 a4 b4 a5 b5 a6 b6) = deliveries draws st0 [ReqB; ReqA; ReqA; ReqB; ReqA; ReqA; ReqB] /\
  nth 7 (pair_wBAABAAB (OO:=ROps) a0 b0 a1 b1 a2 b2 a3 b3 a4 b4 a5 b5 a6 b6) 0%R = IZR (Z.of_nat (drawn (run draws [ReqB; ReqA; ReqA; ReqB; ReqA; ReqA; ReqB]))).
Proof. pairing. Qed.

Lemma tie_pair_wABABAAB a0 b0 a1 b1 a2 b2 a3 b3 a4 b4 a5 b5 a6 b6 :
  let draws := fun k => nth k [(a0, b0); (a1, b1); (a2, b2); (a3, b3); (a4, b4); (a5, b5); (a6, b6)] (a0, b0) in
  firstn 7 (pair_wABABAAB (OO:=ROps) a0 b0 a1 b1 a2 b2 a3 b3 a4 b4 a5 b5 a6 b6) = deliveries draws st0 [ReqA; ReqB; ReqA; ReqB; ReqA; ReqA; ReqB] /\
  nth 7 (pair_wABABAAB (OO:=ROps) a0 b0 a1 b1 a2 b2 a3 b3 a4 b4 a5 b5 a6 b6) 0%R = IZR (Z.of_nat (drawn (run draws [ReqA; ReqB; ReqA; ReqB; ReqA; ReqA; ReqB]))).
Proof. pairing. Qed.

Lemma tie_pair_wBBABAAB a0 b0 a1 b1 a2 b2 a3 b3 a4 b4 a5 b5 a6 b6 :
  let draws := fun k => nth k [(a0, b0); (a1, b1); (a2, b2); (a3, b3); (a4, b4); (a5, b5); (a6, b6)] (a0, b0) in
  firstn 7 (pair_wBBABAAB (OO:=ROps) a0 b0 a1 b1 a2 b2 a3 b3 a4 b4 a5 b5 a6 b6) = deliveries draws st0 [ReqB; ReqB; ReqA; ReqB; ReqA; ReqA; ReqB] /\
  nth 7 (pair_wBBABAAB (OO:=ROps) a0 b0 a1 b1 a2 b2 a3 b3 a4 b4 a5 b5 a6 b6) 0%R = IZR (Z.of_nat (drawn (run draws [ReqB; ReqB; ReqA; ReqB; ReqA; ReqA; ReqB]))).
Proof. pairing. Qed.

Lemma tie_pair_wAABBAAB a0 b0 a1 b1 a2 b2 a3 b3 a4 b4 a5 b5 a6 b6 :
  let draws := fun k => nth k [(a0, b0); (a1, b1); (a2, b2); (a3, b3); (a4, b4); (a5, b5); (a6, b6)] (a0, b0) in
  firstn 7 (pair_wAABBAAB (OO:=ROps) a0 b0 a1 b1 a2 b2 a3 b3 a4 b4 a5 b5 a6 b6) = deliveries draws st0 [ReqA; ReqA; ReqB; ReqB; ReqA; ReqA; ReqB] /\
  nth 7 (pair_wAABBAAB (OO:=ROps) a0 b0 a1 b1 a2 b2 a3 b3 a4 b4 a5 b5 a6 b6) 0%R = IZR (Z.of_nat (drawn (run draws [ReqA; ReqA; ReqB; ReqB; ReqA; ReqA; ReqB]))).
Proof. pairing. Qed.

Lemma tie_pair_wBABBAAB a0 b0 a1 b1 a2 b2 a3 b3 a4 b4 a5 b5 a6 b6 :
  let draws := fun k => nth k [(a0, b0); (a1, b1); (a2, b2); (a3, b3); (a4, b4); (a5, b5); (a6, b6)] (a0, b0) in
  firstn 7 (pair_wBABBAAB (OO:=ROps) a0 b0 a1 b1 a2 b2 a3 b3 a4 b4 a5 b5 a6 b6) = deliveries draws st0 [ReqB; ReqA; ReqB; ReqB; ReqA; ReqA; ReqB] /\
  nth 7 (pair_wBABBAAB (OO:=ROps) a0 b0 a1 b1 a2 b2 a3 b3 a4 b4 a5 b5 a6 b6) 0%R = IZR (Z.of_nat (drawn (run draws [ReqB; ReqA; ReqB; ReqB; ReqA; ReqA; ReqB]))).
Proof. pairing. Qed.

Lemma tie_pair_wABBBAAB a0 b0 a1 b1 a2 b2 a3 b3 a4 b4 a5 b5 a6 b6 :
  let draws := fun k => nth k [(a0, b0); (a1, b1); (a2, b2); (a3, b3); (a4, b4); (a5, b5); (a6, b6)] (a0, b0) in
  firstn 7 (pair_wABBBAAB (OO:=ROps) a0 b0 a1 b1 a2 b2 a3 b3 a4 b4 a5 b5 a6 b6) = deliveries draws st0 [ReqA; ReqB; ReqB; ReqB; ReqA; ReqA; ReqB] /\
  nth 7 (pair_wABBBAAB (OO:=ROps) a0 b0 a1 b1 a2 b2 a3 b3 a4 b4 a5 b5 a6 b6) 0%R = IZR (Z.of_nat (drawn (run draws [ReqA; ReqB; ReqB; ReqB; ReqA; ReqA; ReqB]))).
Proof. pairing. Qed.

Lemma tie_pair_wBBBBAAB a0 b0 a1 b1 a2 b2 a3 b3 a4 b4 a5 b5 a6 b6 :
  let draws := fun k => nth k [(a0, b0); (a1, b1); (a2, b2); (a3, b3); (a4, b4); (a5, b5); (a6, b6)] (a0, b0) in
  firstn 7 (pair_wBBBBAAB (OO:=ROps) a0 b0 a1 b1 a2 b2 a3 b3 a4 b4 a5 b5 a6 b6) = deliveries draws st0 [ReqB; ReqB; ReqB; ReqB; ReqA; ReqA; ReqB] /\
  nth 7 (pair_wBBBBAAB (OO:=ROps) a0 b0 a1 b1 a2 b2 a3 b3 a4 b4 a5 b5 a6 b6) 0%R = IZR (Z.of_nat (drawn (run draws [ReqB; ReqB; ReqB; ReqB; ReqA; ReqA; ReqB]))).
Proof. pairing. Qed.

Lemma tie_pair_wAAAABAB a0 b0 a1 b1 a2 b2 a3 b3 a4 b4 a5 b5 a6 b6 :
  let draws := fun k => nth k [(a0, b0); (a1, b1); (a2, b2); (a3, b3); (a4, b4); (a5, b5); (a6, b6)] (a0, b0) in
  firstn 7 (pair_wAAAABAB (OO:=ROps) a0 b0 a1 b1 a2 b2 a3 b3 a4 b4 a5 b5 a6 b6) = deliveries draws st0 [ReqA; ReqA; ReqA; ReqA; ReqB; ReqA; ReqB] /\
  nth 7 (pair_wAAAABAB (OO:=ROps) a0 b0 a1 b1 a2 b2 a3 b3 a4 b4 a5 b5 a6 b6) 0%R = IZR (Z.of_nat (drawn (run draws [ReqA; ReqA; ReqA; ReqA; ReqB; ReqA; ReqB]))).
Proof. pairing. Qed.

Lemma tie_pair_wBAAABAB a0 b0 a1 b1 a2 b2 a3 b3 a4 b4 a5 b5 a6 b6 :
  let draws := fun k => nth k [(a0, b0); (a1, b1); (a2, b2); (a3, b3); (a4, b4); (a5, b5); (a6, b6)] (a0, b0) in
  firstn 7 (pair_wBAAABAB (OO:=ROps) a0 b0 a1 b1 a2 b2 a3 b3 a4 b4 a5 b5 a6 b6) = deliveries draws st0 [ReqB; ReqA; ReqA; ReqA; ReqB; ReqA; ReqB] /\
  nth 7 (pair_wBAAABAB (OO:=ROps) a0 b0 a1 b1 a2 b2 a3 b3 a4 b4 a5 b5 a6 b6) 0%R = IZR (Z.of_nat (drawn (run draws [ReqB; ReqA; ReqA; ReqA; ReqB; ReqA; ReqB]))).
Proof. pairing. Qed.

Lemma tie_pair_wABAABAB a0 b0 a1 b1 a2 b2 a3 b3 a4 b4 a5 b5 a6 b6 :
  let draws := fun k => nth k [(a0, b0); (a1, b1); (a2, b2); (a3, b3); (a4, b4); (a5, b5); (a6, b6)] (a0, b0) in
  firstn 7 (pair_wABAABAB (OO:=ROps) a0 b0 a1 b1 a2 b2 a3 b3 a4 b4 a5 b5 a6 b6) = deliveries draws st0 [ReqA; ReqB; ReqA; ReqA; ReqB; ReqA; ReqB] /\
  nth 7 (pair_wABAABAB (OO:=ROps) a0 b0 a1 b1 a2 b2 a3 b3 a4 b4 a5 b5 a6 b6) 0%R = IZR (Z.of_nat (drawn (run draws [ReqA; ReqB; ReqA; ReqA; ReqB; ReqA; ReqB]))).
Proof. pairing. Qed.

Lemma tie_pair_wBBAABAB a0 b0 a1 b1 a2 b2 a3 b3 a4 b4 a5 b5 a6 b6 :
  let draws := fun k => nth k [(a0, b0); (a1, b1); (a2, b2); (a3, b3); (a4, b4); (a5, b5); (a6, b6)] (a0, b0) in
  firstn 7 (pair_wBBAABAB (OO:=ROps) a0 b0 a1 b1 a2 b2 a3 b3 a4 b4 a5 b5 a6 b6) = deliveries draws st0 [ReqB; ReqB; ReqA; ReqA; ReqB; ReqA; ReqB] /\
  nth 7 (pair_wBBAABAB (OO:=ROps) a0 b0 a1 b1 a2 b2 a3 b3 a4 b4 a5 b5 a6 b6) 0%R = IZR (Z.of_nat (drawn (run draws [ReqB; ReqB; ReqA; ReqA; ReqB; ReqA; ReqB]))).
Proof. pairing. Qed.

Lemma tie_pair_wAABABAB a0 b0 a1 b1 a2 b2 a3 b3 a4 b4 a5 b5 a6 b6 :
  let draws := fun k => nth k [(a0, b0); (a1, b1); (a2, b2); (a3, b3); (a4, b4); (a5, b5); (a6, b6)] (a0, b0) in
  firstn 7 (pair_wAABABAB (OO:=ROps) a0 b0 a1 b1 a2 b2 a3 b3 a4 b4 a5 b5 a6 b6) = deliveries draws st0 [ReqA; ReqA; ReqB; ReqA; ReqB; ReqA; ReqB] /\
  nth 7 (pair_wAABABAB (OO:=ROps) a0 b0 a1 b1 a2 b2 a3 b3 a4 b4 a5 b5 a6 b6) 0%R = IZR (Z.of_nat (drawn (run draws [ReqA; ReqA; ReqB; ReqA; ReqB; ReqA; ReqB]))).
Proof. pairing. Qed.

Lemma tie_pair_wBABABAB a0 b0 a1 b1 a2 b2 a3 b3 a4 b4 a5 b5 a6 b6 :
  let draws := fun k => nth k [(a0, b0); (a1, b1); (a2, b2); (a3, b3); (a4, b4); (a5, b5); (a6, b6)] (a0, b0) in
  firstn 7 (pair_wBABABAB (OO:=ROps) a0 b0 a1 b1 a2 b2 a3 b3 a4 b4 a5 b5 a6 b6) = deliveries draws st0 [ReqB; ReqA; ReqB; ReqA; ReqB; ReqA; ReqB] /\
  nth 7 (pair_wBABABAB (OO:=ROps) a0 b0 a1 b1 a2 b2 a3 b3 a4 b4 a5 b5 a6 b6) 0%R = IZR (Z.of_nat (drawn (run draws [ReqB; ReqA; ReqB; ReqA; ReqB; ReqA; ReqB]))).
Proof. pairing. Qed.

Lemma tie_pair_wABBABAB a0 b0 a1 b1 a2 b2 a3 b3 a4 b4 a5 b5 a6 b6 :
  let draws := fun k => nth k [(a0, b0); (a1, b1); (a2, b2); (a3, b3); (a4, b4); (a5, b5); (a6, b6)] (a0, b0) in
  firstn 7 (pair_wABBABAB (OO:=ROps) a0 b0 a1 b1 a2 b2 a3 b3 a4 b4 a5 b5 a6 b6) = deliveries draws st0 [ReqA; ReqB; ReqB; ReqA; ReqB; ReqA; ReqB] /\
  nth 7 (pair_wABBABAB (OO:=ROps) a0 b0 a1 b1 a2 b2 a3 b3 a4 b4 a5 b5 a6 b6) 0%R = IZR (Z.of_nat (drawn (run draws [ReqA; ReqB; ReqB; ReqA; ReqB; ReqA; ReqB]))).
Proof. pairing. Qed.

Lemma tie_pair_wBBBABAB a0 b0 a1 b1 a2 b2 a3 b3 a4 b4 a5 b5 a6 b6 :
  let draws := fun k => nth k [(a0, b0); (a1, b1); (a2, b2); (a3, b3); (a4, b4); (a5, b5); (a6, b6)] (a0, b0) in
  firstn 7 (pair_wBBBABAB (OO:=ROps) a0 b0 a1 b1 a2 b2 a3 b3 a4 b4 a5 b5 a6 b6) = deliveries draws st0 [ReqB; ReqB; ReqB; ReqA; ReqB; ReqA; ReqB] /\
  nth 7 (pair_wBBBABAB (OO:=ROps) a0 b0 a1 b1 a2 b2 a3 b3 a4 b4 a5 b5 a6 b6) 0%R = IZR (Z.of_nat (drawn (run draws [ReqB; ReqB; ReqB; ReqA; ReqB; ReqA; ReqB]))).
Proof. pairing. Qed.

Lemma tie_pair_wAAABBAB a0 b0 a1 b1 a2 b2 a3 b3 a4 b4 a5 b5 a6 b6 :
  let draws := fun k => nth k [(a0, b0); (a1, b1); (a2, b2); (a3, b3); (a4, b4); (a5, b5); (a6, b6)] (a0, b0) in
  firstn 7 (pair_wAAABBAB (OO:=ROps) a0 b0 a1 b1 a2 b2 a3 b3 a4 b4 a5 b5 a6 b6) = deliveries draws st0 [ReqA; ReqA; ReqA; ReqB; ReqB; ReqA; ReqB] /\
  nth 7 (pair_wAAABBAB (OO:=ROps) a0 b0 a1 b1 a2 b2 a3 b3 a4 b4 a5 b5 a6 b6) 0%R = IZR (Z.of_nat (drawn (run draws [ReqA; ReqA; ReqA; ReqB; ReqB; ReqA; ReqB]))).
Proof. pairing. Qed.

Lemma tie_pair_wBAABBAB a0 b0 a1 b1 a2 b2 a3 b3 a4 b4 a5 b5 a6 b6 :
  let draws := fun k => nth k [(a0, b0); (a1, b1); (a2, b2); (a3, b3); (a4, b4); (a5, b5); (a6, b6)] (a0, b0) in
  firstn 7 (pair_wBAABBAB (OO:=ROps) a0 b0 a1 b1 a2 b2 a3 b3 a4 b4 a5 b5 a6 b6) = deliveries draws st0 [ReqB; ReqA; ReqA; ReqB; ReqB; ReqA; ReqB] /\
  nth 7 (pair_wBAABBAB (OO:=ROps) a0 b0 a1 b1 a2 b2 a3 b3 a4 b4 a5 b5 a6 b6) 0%R = IZR (Z.of_nat (drawn (run draws [ReqB; ReqA; ReqA; ReqB; ReqB; ReqA; ReqB]))).
Proof. pairing. Qed.

Lemma tie_pair_wABABBAB a0 b0 a1 b1 a2 b2 a3 b3 a4 b4 a5 b5 a6 b6 :
  let draws := fun k => nth k [(a0, b0); (a1, b1); (a2, b2); (a3, b3); (a4, b4); (a5, b5); (a6, b6)] (a0, b0) in
  firstn 7 (pair_wABABBAB (OO:=ROps) a0 b0 a1 b1 a2 b2 a3 b3 a4 b4 a5 b5 a6 b6) = deliveries draws st0 [ReqA; ReqB; ReqA; ReqB; ReqB; ReqA; ReqB] /\
  nth 7 (pair_wABABBAB (OO:=ROps) a0 b0 a1 b1 a2 b2 a3 b3 a4 b4 a5 b5 a6 b6) 0%R = IZR (Z.of_nat (drawn (run draws [ReqA; ReqB; ReqA; ReqB; ReqB; ReqA; ReqB]))).
Proof. pairing. Qed.

Lemma tie_pair_wBBABBAB a0 b0 a1 b1 a2 b2 a3 b3 a4 b4 a5 b5 a6 b6 :
  let draws := fun k => nth k [(a0, b0); (a1, b1); (a2, b2); (a3, b3); (a4, b4); (a5, b5); (a6, b6)] (a0, b0) in
  firstn 7 (pair_wBBABBAB (OO:=ROps) a0 b0 a1 b1 a2 b2 a3 b3 a4 b4 a5 b5 a6 b6) = deliveries draws st0 [ReqB; ReqB; ReqA; ReqB; ReqB; ReqA; ReqB] /\
  nth 7 (pair_wBBABBAB (OO:=ROps) a0 b0 a1 b1 a2 b2 a3 b3 a4 b4 a5 b5 a6 b6) 0%R = IZR (Z.of_nat (drawn (run draws [ReqB; ReqB; ReqA; ReqB; ReqB; ReqA; ReqB]))).
Proof. pairing. Qed.

Lemma tie_pair_wAABBBAB a0 b0 a1 b1 a2 b2 a3 b3 a4 b4 a5 b5 a6 b6 :
  let draws := fun k => nth k [(a0, b0); (a1, b1); (a2, b2); (a3, b3); (a4, b4); (a5, b5); (a6, b6)] (a0, b0) in
  firstn 7 (pair_wAABBBAB (OO:=ROps) a0 b0 a1 b1 a2 b2 a3 b3 a4 b4 a5 b5 a6 b6) = deliveries draws st0 [ReqA; ReqA; ReqB; ReqB; ReqB; ReqA; ReqB] /\
  nth 7 (pair_wAABBBAB (OO:=ROps) a0 b0 a1 b1 a2 b2 a3 b3 a4 b4 a5 b5 a6 b6) 0%R = IZR (Z.of_nat (drawn (run draws [ReqA; ReqA; ReqB; ReqB; ReqB; ReqA; ReqB]))).
Proof. pairing. Qed.

Lemma tie_pair_wBABBBAB a0 b0 a1 b1 a2 b2 a3 b3 a4 b4 a5 b5 a6 b6 :
  let draws := fun k => nth k [(a0, b0); (a1, b1); (a2, b2); (a3, b3); (a4, b4); (a5, b5); (a6, b6)] (a0, b0) in
  firstn 7 (pair_wBABBBAB (OO:=ROps) a0 b0 a1 b1 a2 b2 a3 b3 a4 b4 a5 b5 a6 b6) = deliveries draws st0 [ReqB; ReqA; ReqB; ReqB; ReqB; ReqA; ReqB] /\
  nth 7 (pair_wBABBBAB (OO:=ROps) a0 b0 a1 b1 a2 b2 a3 b3 a4 b4 a5 b5 a6 b6) 0%R = IZR (Z.of_nat (drawn (run draws [ReqB; ReqA; ReqB; ReqB; ReqB; ReqA; ReqB]))).
Proof. pairing. Qed.

Lemma tie_pair_wABBBBAB a0 b0 a1 b1 a2 b2 a3 b3 a4 b4 a5 b5 a6 b6 :
  let draws := fun k => nth k [(a0, b0); (a1, b1); (a2, b2); (a3, b3); (a4, b4); (a5, b5); (a6, b6)] (a0, b0) in
  firstn 7 (pair_wABBBBAB (OO:=ROps) a0 b0 a1 b1 a2 b2 a3 b3 a4 b4 a5 b5 a6 b6) = deliveries draws st0 [ReqA; ReqB; ReqB; ReqB; ReqB; ReqA; ReqB] /\
  nth 7 (pair_wABBBBAB (OO:=ROps) a0 b0 a1 b1 a2 b2 a3 b3 a4 b4 a5 b5 a6 b6) 0%R = IZR (Z.of_nat (drawn (run draws [ReqA; ReqB; ReqB; ReqB; ReqB; ReqA; ReqB]))).
Proof. pairing. Qed.

Lemma tie_pair_wBBBBBAB a0 b0 a1 b1 a2 b2 a3 b3 a4 b4 a5 b5 a6 b6 :
  let draws := fun k => nth k [(a0, b0); (a1, b1); (a2, b2); (a3, b3); (a4, b4); (a5, b5); (a6, b6)] (a0, b0) in
  firstn 7 (pair_wBBBBBAB (OO:=ROps) a0 b0 a1 b1 a2 b2 a3 b3 a4 b4 a5 b5 a6 b6) = deliveries draws st0 [ReqB; ReqB; ReqB; ReqB; ReqB; ReqA; ReqB] /\
  nth 7 (pair_wBBBBBAB (OO:=ROps) a0 b0 a1 b1 a2 b2 a3 b3 a4 b4 a5 b5 a6 b6) 0%R = IZR (Z.of_nat (drawn (run draws [ReqB; ReqB; ReqB; ReqB; ReqB; ReqA; ReqB]))).
Proof. pairing. Qed.

Lemma tie_pair_wAAAAABB a0 b0 a1 b1 a2 b2 a3 b3 a4 b4 a5 b5 a6 b6 :
  let draws := fun k => nth k [(a0, b0); (a1, b1); (a2, b2); (a3, b3); (a4, b4); (a5, b5); (a6, b6)] (a0, b0) in
  firstn 7 (pair_wAAAAABB (OO:=ROps) a0 b0 a1 b1 a2 b2 a3 b3 a4 b4 a5 b5 a6 b6) = deliveries draws st0 [ReqA; ReqA; ReqA; ReqA; ReqA; ReqB; ReqB] /\
  nth 7 (pair_wAAAAABB (OO:=ROps) a0 b0 a1 b1 a2 b2 a3 b3 a4 b4 a5 b5 a6 b6) 0%R = IZR (Z.of_nat (drawn (run draws [ReqA; ReqA; ReqA; ReqA; ReqA; ReqB; ReqB]))).
Proof. pairing. Qed.

Lemma tie_pair_wBAAAABB a0 b0 a1 b1 a2 b2 a3 b3 a4 b4 a5 b5 a6 b6 :
  let draws := fun k => nth k [(a0, b0); (a1, b1); (a2, b2); (a3, b3); (a4, b4); (a5, b5); (a6, b6)] (a0, b0) in
  firstn 7 (pair_wBAAAABB (OO:=ROps) a0 b0 a1 b1 a2 b2 a3 b3 a4 b4 a5 b5 a6 b6) = deliveries draws st0 [ReqB; ReqA; ReqA; ReqA; ReqA; ReqB; ReqB] /\
  nth 7 (pair_wBAAAABB (OO:=ROps) a0 b0 a1 b1 a2 b2 a3 b3 a4 b4 a5 b5 a6 b6) 0%R = IZR (Z.of_nat (drawn (run draws [ReqB; ReqA; ReqA; ReqA; ReqA; ReqB; ReqB]))).
Proof. pairing. Qed.

Lemma tie_pair_wABAAABB a0 b0 a1 b1 a2 b2 a3 b3 a4 b4 a5 b5 a6 b6 :
  let draws := fun k => nth k [(a0, b0); (a1, b1); (a2, b2); (a3, b3); (a4, b4); (a5, b5); (a6, b6)] (a0, b0) in
  firstn 7 (pair_wABAAABB (OO:=ROps) a0 b0 a1 b1 a2 b2 a3 b3 a4 b4 a5 b5 a6 b6) = deliveries draws st0 [ReqA; ReqB; ReqA; ReqA; ReqA; ReqB; ReqB] /\
  nth 7 (pair_wABAAABB (OO:=ROps) a0 b0 a1 b1 a2 b2 a3 b3 a4 b4 a5 b5 a6 b6) 0%R = IZR (Z.of_nat (drawn (run draws [ReqA; ReqB; ReqA; ReqA; ReqA; ReqB; ReqB]))).
Proof. pairing. Qed.

Lemma tie_pair_wBBAAABB a0 b0 a1 b1 a2 b2 a3 b3 a4 b4 a5 b5 a6 b6 :
  let draws := fun k => nth k [(a0, b0); (a1, b1); (a2, b2); (a3, b3); (a4, b4); (a5, b5); (a6, b6)] (a0, b0) in
  firstn 7 (pair_wBBAAABB (OO:=ROps) a0 b0 a1 b1 a2 b2 a3 b3 a4 b4 a5 b5 a6 b6) = deliveries draws st0 [ReqB; ReqB; ReqA; ReqA; ReqA; ReqB; ReqB] /\
  nth 7 (pair_wBBAAABB (OO:=ROps) a0 b0 a1 b1 a2 b2 a3 b3 a4 b4 a5 b5 a6 b6) 0%R = IZR (Z.of_nat (drawn (run draws [ReqB; ReqB; ReqA; ReqA; ReqA; ReqB; ReqB]))).
Proof. pairing. Qed.

Lemma tie_pair_wAABAABB a0 b0 a1 b1 a2 b2 a3 b3 a4 b4 a5 b5 a6 b6 :
  let draws := fun k => nth k [(a0, b0); (a1, b1); (a2, b2); (a3, b3); (a4, b4); (a5, b5); (a6, b6)] (a0, b0) in
  firstn 7 (pair_wAABAABB (OO:=ROps) a0 b0 a1 b1 a2 b2 a3 b3 a4 b4 a5 b5 a6 b6) = deliveries draws st0 [ReqA; ReqA; ReqB; ReqA; ReqA; ReqB; ReqB] /\
  nth 7 (pair_wAABAABB (OO:=ROps) a0 b0 a1 b1 a2 b2 a3 b3 a4 b4 a5 b5 a6 b6) 0%R = IZR (Z.of_nat (drawn (run draws [ReqA; ReqA; ReqB; ReqA; ReqA; ReqB; ReqB]))).
Proof. pairing. Qed.

Lemma tie_pair_wBABAABB a0 b0 a1 b1 a2 b2 a3 b3 a4 b4 a5 b5 a6 b6 :
  let draws := fun k => nth k [(a0, b0); (a1, b1); (a2, b2); (a3, b3); (a4, b4); (a5, b5); (a6, b6)] (a0, b0) in
  firstn 7 (pair_wBABAABB (OO:=ROps) a0 b0 a1 b1 a2 b2 a3 b3 a4 b4 a5 b5 a6 b6) = deliveries draws st0 [ReqB; ReqA; ReqB; ReqA; ReqA; ReqB; ReqB] /\
  nth 7 (pair_wBABAABB (OO:=ROps) a0 b0 a1 b1 a2 b2 a3 b3 a4 b4 a5 b5 a6 b6) 0%R = IZR (Z.of_nat (drawn (run draws [ReqB; ReqA; ReqB; ReqA; ReqA; ReqB; ReqB]))).
Proof. pairing. Qed.

Lemma tie_pair_wABBAABB a0 b0 a1 b1 a2 b2 a3 b3 a4 b4 a5 b5 a6 b6 :
  let draws := fun k => nth k [(a0, b0); (a1, b1); (a2, b2); (a3, b3); (a4, b4); (a5, b5); (a6, b6)] (a0, b0) in
  firstn 7 (pair_wABBAABB (OO:=ROps) a0 b0 a1 b1 a2 b2 a3 b3 a4 b4 a5 b5 a6 b6) = deliveries draws st0 [ReqA; ReqB; ReqB; ReqA; ReqA; ReqB; ReqB] /\
  nth 7 (pair_wABBAABB (OO:=ROps) a0 b0 a1 b1 a2 b2 a3 b3 a4 b4 a5 b5 a6 b6) 0%R = IZR (Z.of_nat (drawn (run draws [ReqA; ReqB; ReqB; ReqA; ReqA; ReqB; ReqB]))).
Proof. pairing. Qed.

Lemma tie_pair_wBBBAABB a0 b0 a1 b1 a2 b2 a3 b3 a4 b4 a5 b5 a6 b6 :
  let draws := fun k => nth k [(a0, b0); (a1, b1); (a2, b2); (a3, b3); (a4, b4); (a5, b5); (a6, b6)] (a0, b0) in
  firstn 7 (pair_wBBBAABB (OO:=ROps) a0 b0 a1 b1 a2 b2 a3 b3 a4 b4 a5 b5 a6 b6) = deliveries draws st0 [ReqB; ReqB; ReqB; ReqA; ReqA; ReqB; ReqB] /\
  nth 7 (pair_wBBBAABB (OO:=ROps) a0 b0 a1 b1 a2 b2 a3 b3 a4 b4 a5 b5 a6 b6) 0%R = IZR (Z.of_nat (drawn (run draws [ReqB; ReqB; ReqB; ReqA; ReqA; ReqB; ReqB]))).
Proof. pairing. Qed.

Lemma tie_pair_wAAABABB a0 b0 a1 b1 a2 b2 a3 b3 a4 b4 a5 b5 a6 b6 :
  let draws := fun k => nth k [(a0, b0); (a1, b1); (a2, b2); (a3, b3); (a4, b4); (a5, b5); (a6, b6)] (a0, b0) in
  firstn 7 (pair_wAAABABB (OO:=ROps) a0 b0 a1 b1 a2 b2 a3 b3 a4 b4 a5 b5 a6 b6) = deliveries draws st0 [ReqA; ReqA; ReqA; ReqB; ReqA; ReqB; ReqB] /\
  nth 7 (pair_wAAABABB (OO:=ROps) a0 b0 a1 b1 a2 b2 a3 b3 a4 b4 a5 b5 a6 b6) 0%R = IZR (Z.of_nat (drawn (run draws [ReqA; ReqA; ReqA; ReqB; ReqA; ReqB; ReqB]))).
Proof. pairing. Qed.

Lemma tie_pair_wBAABABB a0 b0 a1 b1 a2 b2 a3 b3 a4 b4 a5 b5 a6 b6 :
  let draws := fun k => nth k [(a0, b0); (a1, b1); (a2, b2); (a3, b3); (a4, b4); (a5, b5); (a6, b6)] (a0, b0) in
  firstn 7 (pair_wBAABABB (OO:=ROps) a0 b0 a1 b1 a2 b2 a3 b3 a4 b4 a5 b5 a6 b6) = deliveries draws st0 [ReqB; ReqA; ReqA; ReqB; ReqA; ReqB; ReqB] /\
  nth 7 (pair_wBAABABB (OO:=ROps) a0 b0 a1 b1 a2 b2 a3 b3 a4 b4 a5 b5 a6 b6) 0%R = IZR (Z.of_nat (drawn (run draws [ReqB; ReqA; ReqA; ReqB; ReqA; ReqB; ReqB]))).
Proof. pairing. Qed.

Lemma tie_pair_wABABABB a0 b0 a1 b1 a2 b2 a3 b3 a4 b4 a5 b5 a6 b6 :
  let draws := fun k => nth k [(a0, b0); (a1, b1); (a2, b2); (a3, b3); (a4, b4); (a5, b5); (a6, b6)] (a0, b0) in
  firstn 7 (pair_wABABABB (OO:=ROps) a0 b0 a1 b1 a2 b2 a3 b3 a4 b4 a5 b5 a6 b6) = deliveries draws st0 [ReqA; ReqB; ReqA; ReqB; ReqA; ReqB; ReqB] /\
  nth 7 (pair_wABABABB (OO:=ROps) a0 b0 a1 b1 a2 b2 a3 b3 a4 b4 a5 b5 a6 b6) 0%R = IZR (Z.of_nat (drawn (run draws [ReqA; ReqB; ReqA; ReqB; ReqA; ReqB; ReqB]))).
Proof. pairing. Qed.

Lemma tie_pair_wBBABABB a0 b0 a1 b1 a2 b2 a3 b3 a4 b4 a5 b5 a6 b6 :
  let draws := fun k => nth k [(a0, b0); (a1, b1); (a2, b2); (a3, b3); (a4, b4); (a5, b5); (a6, b6)] (a0, b0) in
  firstn 7 (pair_wBBABABB (OO:=ROps) a0 b0 a1 b1 a2 b2 a3 b3 a4 b4 a5 b5 a6 b6) = deliveries draws st0 [ReqB; ReqB; ReqA; ReqB; ReqA; ReqB; ReqB] /\
  nth 7 (pair_wBBABABB (OO:=ROps) a0 b0 a1 b1 a2 b2 a3 b3 a4 b4 a5 b5 a6 b6) 0%R = IZR (Z.of_nat (drawn (run draws [ReqB; ReqB; ReqA; ReqB; ReqA; ReqB; ReqB]))).
Proof. pairing. Qed.

Lemma tie_pair_wAABBABB a0 b0 a1 b1 a2 b2 a3 b3 a4 b4 a5 b5 a6 b6 :
  let draws := fun k => nth k [(a0, b0); (a1, b1); (a2, b2); (a3, b3); (a4, b4); (a5, b5); (a6, b6)] (a0, b0) in
  firstn 7 (pair_wAABBABB (OO:=ROps) a0 b0 a1 b1 a2 b2 a3 b3 a4 b4 a5 b5 a6 b6) = deliveries draws st0 [ReqA; ReqA; ReqB; ReqB; ReqA; ReqB; ReqB] /\
  nth 7 (pair_wAABBABB (OO:=ROps) a0 b0 a1 b1 a2 b2 a3 b3 a4 b4 a5 b5 a6 b6) 0%R = IZR (Z.of_nat (drawn (run draws [ReqA; ReqA; ReqB; ReqB; ReqA; ReqB; ReqB]))).
Proof. pairing. Qed.

Lemma tie_pair_wBABBABB a0 b0 a1 b1 a2 b2 a3 b3 a4 b4 a5 b5 a6 b6 :
  let draws := fun k => nth k [(a0, b0); (a1, b1); (a2, b2); (a3, b3); (a4, b4); (a5, b5); (a6, b6)] (a0, b0) in
  firstn 7 (pair_wBABBABB (OO:=ROps) a0 b0 a1 b1 a2 b2 a3 b3 a4 b4 a5 b5 a6 b6) = deliveries draws st0 [ReqB; ReqA; ReqB; ReqB; ReqA; ReqB; ReqB] /\
  nth 7 (pair_wBABBABB (OO:=ROps) a0 b0 a1 b1 a2 b2 a3 b3 a4 b4 a5 b5 a6 b6) 0%R = IZR (Z.of_nat (drawn (run draws [ReqB; ReqA; ReqB; ReqB; ReqA; ReqB; ReqB]))).
Proof. pairing. Qed.

Lemma tie_pair_wABBBABB a0 b0 a1 b1 a2 b2 a3 b3 a4 b4 a5 b5 a6 b6 :
  let draws := fun k => nth k [(a0, b0); (a1, b1); (a2, b2); (a3, b3); (a4, b4); (a5, b5); (a6, b6)] (a0, b0) in
  firstn 7 (pair_wABBBABB (OO:=ROps) a0 b0 a1 b1 a2 b2 a3 b3 a4 b4 a5 b5 a6 b6) = deliveries draws st0 [ReqA; ReqB; ReqB; ReqB; ReqA; ReqB; ReqB] /\
  nth 7 (pair_wABBBABB (OO:=ROps) a0 b0 a1 b1 a2 b2 a3 b3 a4 b4 a5 b5 a6 b6) 0%R = IZR (Z.of_nat (drawn (run draws [ReqA; ReqB; ReqB; ReqB; ReqA; ReqB; ReqB]))).
Proof. pairing. Qed.

Lemma tie_pair_wBBBBABB a0 b0 a1 b1 a2 b2 a3 b3 a4 b4 a5 b5 a6 b6 :
  let draws := fun k => nth k [(a0, b0); (a1, b1); (a2, b2); (a3, b3); (a4, b4); (a5, b5); (a6, b6)] (a0, b0) in
  firstn 7 (pair_wBBBBABB (OO:=ROps) a0 b0 a1 b1 a2 b2 a3 b3 a4 b4 a5 b5 a6 b6) = deliveries draws st0 [ReqB; ReqB; ReqB; ReqB; ReqA; ReqB; ReqB] /\
  nth 7 (pair_wBBBBABB (OO:=ROps) a0 b0 a1 b1 a2 b2 a3 b3 a4 b4 a5 b5 a6 b6) 0%R = IZR (Z.of_nat (drawn (run draws [ReqB; ReqB; ReqB; ReqB; ReqA; ReqB; ReqB]))).
Proof. pairing. Qed.

Lemma tie_pair_wAAAABBB a0 b0 a1 b1 a2 b2 a3 b3 a4 b4 a5 b5 a6 b6 :
  let draws := fun k => nth k [(a0, b0); (a1, b1); (a2, b2); (a3, b3); (a4, b4); (a5, b5); (a6, b6)] (a0, b0) in
  firstn 7 (pair_wAAAABBB (OO:=ROps) a0 b0 a1 b1 a2 b2 a3 b3 a4 b4 a5 b5 a6 b6) = deliveries draws st0 [ReqA; ReqA; ReqA; ReqA; ReqB; ReqB; ReqB] /\
  nth 7 (pair_wAAAABBB (OO:=ROps) a0 b0 a1 b1 a2 b2 a3 b3 a4 b4 a5 b5 a6 b6) 0%R = IZR (Z.of_nat (drawn (run draws [ReqA; ReqA; ReqA; ReqA; ReqB; ReqB; ReqB]))).
Proof. pairing. Qed.

Lemma tie_pair_wBAAABBB a0 b0 a1 b1 a2 b2 a3 b3 a4 b4 a5 b5 a6 b6 :
  let draws := fun k => nth k [(a0, b0); (a1, b1); (a2, b2); (a3, b3); (a4, b4); (a5, b5); (a6, b6)] (a0, b0) in
  firstn 7 (pair_wBAAABBB (OO:=ROps) a0 b0 a1 b1 a2 b2 a3 b3 a4 b4 a5 b5 a6 b6) = deliveries draws st0 [ReqB; ReqA; ReqA; ReqA; ReqB; ReqB; ReqB] /\
  nth 7 (pair_wBAAABBB (OO:=ROps) a0 b0 a1 b1 a2 b2 a3 b3 a4 b4 a5 b5 a6 b6) 0%R = IZR (Z.of_nat (drawn (run draws [ReqB; ReqA; ReqA; ReqA; ReqB; ReqB; ReqB]))).
Proof. pairing. Qed.

Lemma tie_pair_wABAABBB a0 b0 a1 b1 a2 b2 a3 b3 a4 b4 a5 b5 a6 b6 :
  let draws := fun k => nth k [(a0, b0); (a1, b1); (a2, b2); (a3, b3); (a4, b4); (a5, b5); (a6, b6)] (a0, b0) in
  firstn 7 (pair_wABAABBB (OO:=ROps) a0 b0 a1 b1 a2 b2 a3 b3 a4 b4 a5 b5 a6 b6) = deliveries draws st0 [ReqA; ReqB; ReqA; ReqA; ReqB; ReqB; ReqB] /\
  nth 7 (pair_wABAABBB (OO:=ROps) a0 b0 a1 b1 a2 b2 a3 b3 a4 b4 a5 b5 a6 b6) 0%R = IZR (Z.of_nat (drawn (run draws [ReqA; ReqB; ReqA; ReqA; ReqB; ReqB; ReqB]))).
Proof. pairing. Qed.

Lemma tie_pair_wBBAABBB a0 b0 a1 b1 a2 b2 a3 b3 a4 b4 a5 b5 a6 b6 :
  let draws := fun k => nth k [(a0, b0); (a1, b1); (a2, b2); (a3, b3); (a4, b4); (a5, b5); (a6, b6)] (a0, b0) in
  firstn 7 (pair_wBBAABBB (OO:=ROps) a0 b0 a1 b1 a2 b2 a3 b3 a4 b4 a5 b5 a6 b6) = deliveries draws st0 [ReqB; ReqB; ReqA; ReqA; ReqB; ReqB; ReqB] /\
  nth 7 (pair_wBBAABBB (OO:=ROps) a0 b0 a1 b1 a2 b2 a3 b3 a4 b4 a5 b5 a6 b6) 0%R = IZR (Z.of_nat (drawn (run draws [ReqB; ReqB; ReqA; ReqA; ReqB; ReqB; ReqB]))).
Proof. pairing. Qed.

Lemma tie_pair_wAABABBB a0 b0 a1 b1 a2 b2 a3 b3 a4 b4 a5 b5 a6 b6 :
  let draws := fun k => nth k [(a0, b0); (a1, b1); (a2, b2); (a3, b3); (a4, b4); (a5, b5); (a6, b6)] (a0, b0) in
  firstn 7 (pair_wAABABBB (OO:=ROps) a0 b0 a1 b1 a2 b2 a3 b3 a4 b4 a5 b5 a6 b6) = deliveries draws st0 [ReqA; ReqA; ReqB; ReqA; ReqB; ReqB; ReqB] /\
  nth 7 (pair_wAABABBB (OO:=ROps) a0 b0 a1 b1 a2 b2 a3 b3 a4 b4 a5 b5 a6 b6) 0%R = IZR (Z.of_nat (drawn (run draws [ReqA; ReqA; ReqB; ReqA; ReqB; ReqB; ReqB]))).
Proof. pairing. Qed.

Lemma tie_pair_wBABABBB a0 b0 a1 b1 a2 b2 a3 b3 a4 b4 a5 b5 a6 b6 :
  let draws := fun k => nth k [(a0, b0); (a1, b1); (a2, b2); (a3, b3); (a4, b4); (a5, b5); (a6, b6)] (a0, b0) in
  firstn 7 (pair_wBABABBB (OO:=ROps) a0 b0 a1 b1 a2 b2 a3 b3 a4 b4 a5 b5 a6 b6) = deliveries draws st0 [ReqB; ReqA; ReqB; ReqA; ReqB; ReqB; ReqB] /\
  nth 7 (pair_wBABABBB (OO:=ROps) a0 b0 a1 b1 a2 b2 a3 b3 a4 b4 a5 b5 a6 b6) 0%R = IZR (Z.of_nat (drawn (run draws [ReqB; ReqA; ReqB; ReqA; ReqB; ReqB; ReqB]))).
Proof. pairing. Qed.

Lemma tie_pair_wABBABBB a0 b0 a1 b1 a2 b2 a3 b3 a4 b4 a5 b5 a6 b6 :
  let draws := fun k => nth k [(a0, b0); (a1, b1); (a2, b2); (a3, b3); (a4, b4); (a5, b5); (a6, b6)] (a0, b0) in
  firstn 7 (pair_wABBABBB (OO:=ROps) a0 b0 a1 b1 a2 b2 a3 b3 a4 b4 a5 b5 a6 b6) = deliveries draws st0 [ReqA; ReqB; ReqB; ReqA; ReqB; ReqB; ReqB] /\
  nth 7 (pair_wABBABBB (OO:=ROps) a0 b0 a1 b1 a2 b2 a3 b3 a4 b4 a5 b5 a6 b6) 0%R = IZR (Z.of_nat (drawn (run draws [ReqA; ReqB; ReqB; ReqA; ReqB; ReqB; ReqB]))).
Proof. pairing. Qed.

Lemma tie_pair_wBBBABBB a0 b0 a1 b1 a2 b2 a3 b3 a4 b4 a5 b5 a6 b6 :
  let draws := fun k => nth k [(a0, b0); (a1, b1); (a2, b2); (a3, b3); (a4, b4); (a5, b5); (a6, b6)] (a0, b0) in
  firstn 7 (pair_wBBBABBB (OO:=ROps) a0 b0 a1 b1 a2 b2 a3 b3 a4 b4 a5 b5 a6 b6) = deliveries draws st0 [ReqB; ReqB; ReqB; ReqA; ReqB; ReqB; ReqB] /\
  nth 7 (pair_wBBBABBB (OO:=ROps) a0 b0 a1 b1 a2 b2 a3 b3 a4 b4 a5 b5 a6 b6) 0%R = IZR (Z.of_nat (drawn (run draws [ReqB; ReqB; ReqB; ReqA; ReqB; ReqB; ReqB]))).
Proof. pairing. Qed.

Lemma tie_pair_wAAABBBB a0 b0 a1 b1 a2 b2 a3 b3 a4 b4 a5 b5 a6 b6 :
  let draws := fun k => nth k [(a0, b0); (a1, b1); (a2, b2); (a3, b3); (a4, b4); (a5, b5); (a6, b6)] (a0, b0) in
  firstn 7 (pair_wAAABBBB (OO:=ROps) a0 b0 a1 b1 a2 b2 a3 b3 a4 b4 a5 b5 a6 b6) = deliveries draws st0 [ReqA; ReqA; ReqA; ReqB; ReqB; ReqB; ReqB] /\
  nth 7 (pair_wAAABBBB (OO:=ROps) a0 b0 a1 b1 a2 b2 a3 b3 a4 b4 a5 b5 a6 b6) 0%R = IZR (Z.of_nat (drawn (run draws [ReqA; ReqA; ReqA; ReqB; ReqB; ReqB; ReqB]))).
Proof. pairing. Qed.

Lemma tie_pair_wBAABBBB a0 b0 a1 b1 a2 b2 a3 b3 a4 b4 a5 b5 a6 b6 :
  let draws := fun k => nth k [(a0, b0); (a1, b1); (a2, b2); (a3, b3); (a4, b4); (a5, b5); (a6, b6)] (a0, b0) in
  firstn 7 (pair_wBAABBBB (OO:=ROps) a0 b0 a1 b1 a2 b2 a3 b3 a4 b4 a5 b5 a6 b6) = deliveries draws st0 [ReqB; ReqA; ReqA; ReqB; ReqB; ReqB; ReqB] /\
  nth 7 (pair_wBAABBBB (OO:=ROps) a0 b0 a1 b1 a2 b2 a3 b3 a4 b4 a5 b5 a6 b6) 0%R = IZR (Z.of_nat (drawn (run draws [ReqB; ReqA; ReqA; ReqB; ReqB; ReqB; ReqB]))).
Proof. pairing. Qed.

Lemma tie_pair_wABABBBB a0 b0 a1 b1 a2 b2 a3 b3 a4 b4 a5 b5 a6 b6 :
  let draws := fun k => nth k [(a0, b0); (a1, b1); (a2, b2); (a3, b3); (a4, b4); (a5, b5); (a6, b6)] (a0, b0) in
  firstn 7 (pair_wABABBBB (OO:=ROps) a0 b0 a1 b1 a2 b2 a3 b3 a4 b4 a5 b5 a6 b6) = deliveries draws st0 [ReqA; ReqB; ReqA; ReqB; ReqB; ReqB; ReqB] /\
  nth 7 (pair_wABABBBB (OO:=ROps) a0 b0 a1 b1 a2 b2 a3 b3 a4 b4 a5 b5 a6 b6) 0%R = IZR (Z.of_nat (drawn (run draws [ReqA; ReqB; ReqA; ReqB; ReqB; ReqB; ReqB]))).
Proof. pairing. Qed.

Lemma tie_pair_wBBABBBB a0 b0 a1 b1 a2 b2 a3 b3 a4 b4 a5 b5 a6 b6 :
  let draws := fun k => nth k [(a0, b0); (a1, b1); (a2, b2); (a3, b3); (a4, b4); (a5, b5); (a6, b6)] (a0, b0) in
  firstn 7 (pair_wBBABBBB (OO:=ROps) a0 b0 a1 b1 a2 b2 a3 b3 a4 b4 a5 b5 a6 b6) = deliveries draws st0 [ReqB; ReqB; ReqA; ReqB; ReqB; ReqB; ReqB] /\
  nth 7 (pair_wBBABBBB (OO:=ROps) a0 b0 a1 b1 a2 b2 a3 b3 a4 b4 a5 b5 a6 b6) 0%R = IZR (Z.of_nat (drawn (run draws [ReqB; ReqB; ReqA; ReqB; ReqB; ReqB; ReqB]))).
Proof. pairing. Qed.

Lemma tie_pair_wAABBBBB a0 b0 a1 b1 a2 b2 a3 b3 a4 b4 a5 b5 a6 b6 :
  let draws := fun k => nth k [(a0, b0); (a1, b1); (a2, b2); (a3, b3); (a4, b4); (a5, b5); (a6, b6)] (a0, b0) in
  firstn 7 (pair_wAABBBBB (OO:=ROps) a0 b0 a1 b1 a2 b2 a3 b3 a4 b4 a5 b5 a6 b6) = deliveries draws st0 [ReqA; ReqA; ReqB; ReqB; ReqB; ReqB; ReqB] /\
  nth 7 (pair_wAABBBBB (OO:=ROps) a0 b0 a1 b1 a2 b2 a3 b3 a4 b4 a5 b5 a6 b6) 0%R = IZR (Z.of_nat (drawn (run draws [ReqA; ReqA; ReqB; ReqB; ReqB; ReqB; ReqB]))).
Proof. pairing. Qed.

Lemma tie_pair_wBABBBBB a0 b0 a1 b1 a2 b2 a3 b3 a4 b4 a5 b5 a6 b6 :
  let draws := fun k => nth k [(a0, b0); (a1, b1); (a2, b2); (a3, b3); (a4, b4); (a5, b5); (a6, b6)] (a0, b0) in
  firstn 7 (pair_wBABBBBB (OO:=ROps) a0 b0 a1 b1 a2 b2 a3 b3 a4 b4 a5 b5 a6 b6) = deliveries draws st0 [ReqB; ReqA; ReqB; ReqB; ReqB; ReqB; ReqB] /\
  nth 7 (pair_wBABBBBB (OO:=ROps) a0 b0 a1 b1 a2 b2 a3 b3 a4 b4 a5 b5 a6 b6) 0%R = IZR (Z.of_nat (drawn (run draws [ReqB; ReqA; ReqB; ReqB; ReqB; ReqB; ReqB]))).
Proof. pairing. Qed.

Lemma tie_pair_wABBBBBB a0 b0 a1 b1 a2 b2 a3 b3 a4 b4 a5 b5 a6 b6 :
  let draws := fun k => nth k [(a0, b0); (a1, b1); (a2, b2); (a3, b3); (a4, b4); (a5, b5); (a6, b6)] (a0, b0) in
  firstn 7 (pair_wABBBBBB (OO:=ROps) a0 b0 a1 b1 a2 b2 a3 b3 a4 b4 a5 b5 a6 b6) = deliveries draws st0 [ReqA; ReqB; ReqB; ReqB; ReqB; ReqB; ReqB] /\
  nth 7 (pair_wABBBBBB (OO:=ROps) a0 b0 a1 b1 a2 b2 a3 b3 a4 b4 a5 b5 a6 b6) 0%R = IZR (Z.of_nat (drawn (run draws [ReqA; ReqB; ReqB; ReqB; ReqB; ReqB; ReqB]))).
Proof. pairing. Qed.

Lemma tie_pair_wBBBBBBB a0 b0 a1 b1 a2 b2 a3 b3 a4 b4 a5 b5 a6 b6 :
  let draws := fun k => nth k [(a0, b0); (a1, b1); (a2, b2); (a3, b3); (a4, b4); (a5, b5); (a6, b6)] (a0, b0) in
  firstn 7 (pair_wBBBBBBB (OO:=ROps) a0 b0 a1 b1 a2 b2 a3 b3 a4 b4 a5 b5 a6 b6) = deliveries draws st0 [ReqB; ReqB; ReqB; ReqB; ReqB; ReqB; ReqB] /\
  nth 7 (pair_wBBBBBBB (OO:=ROps) a0 b0 a1 b1 a2 b2 a3 b3 a4 b4 a5 b5 a6 b6) 0%R = IZR (Z.of_nat (drawn (run draws [ReqB; ReqB; ReqB; ReqB; ReqB; ReqB; ReqB]))).
Proof. pairing. Qed.

Lemma tie_pair_wAAAAAAAA a0 b0 a1 b1 a2 b2 a3 b3 a4 b4 a5 b5 a6 b6 a7 b7 :
  let draws := fun k => nth k [(a0, b0); (a1, b1); (a2, b2); (a3, b3); (a4, b4); (a5, b5); (a6, b6); (a7, b7)] (a0, b0) in
  firstn 8 (pair_wAAAAAAAA (OO:=ROps) a0 b0 a1 b1 a2 b2 a3 b3 a4 b4 a5 b5 a6 b6 a7 b7) = deliveries draws st0 [ReqA; ReqA; ReqA; ReqA; ReqA; ReqA; ReqA; ReqA] /\
  nth 8 (pair_wAAAAAAAA (OO:=ROps) a0 b0 a1 b1 a2 b2 a3 b3 a4 b4 a5 b5 a6 b6 a7 b7) 0%R = IZR (Z.of_nat (drawn (run draws [ReqA; ReqA; ReqA; ReqA; ReqA; ReqA; ReqA; ReqA]))).
Proof. pairing. Qed.

Lemma tie_pair_wBAAAAAAA a0 b0 a1 b1 a2 b2 a3 b3 a4 b4 a5 b5 a6 b6 a7 b7 :
  let draws := fun k => nth k [(a0, b0); (a1, b1); (a2, b2); (a3, b3); (a4, b4); (a5, b5); (a6, b6); (a7, b7)] (a0, b0) in
  firstn 8 (pair_wBAAAAAAA (OO:=ROps) a0 b0 a1 b1 a2 b2 a3 b3 a4 b4 a5 b5 a6 b6 a7 b7) = deliveries draws st0 [ReqB; ReqA; ReqA; ReqA; ReqA; ReqA; ReqA; ReqA] /\
  nth 8 (pair_wBAAAAAAA (OO:=ROps) a0 b0 a1 b1 a2 b2 a3 b3 a4 b4 a5 b5 a6 b6 a7 b7) 0%R = IZR (Z.of_nat (drawn (run draws [ReqB; ReqA; ReqA; ReqA; ReqA; ReqA; ReqA; ReqA]))).
Proof. pairing. Qed.

Lemma tie_pair_wABAAAAAA a0 b0 a1 b1 a2 b2 a3 b3 a4 b4 a5 b5 a6 b6 a7 b7 :
  let draws := fun k => nth k [(a0, b0); (a1, b1); (a2, b2); (a3, b3); (a4, b4); (a5, b5); (a6, b6); (a7, b7)] (a0, b0) in
  firstn 8 (pair_wABAAAAAA (OO:=ROps) a0 b0 a1 b1 a2 b2 a3 b3 a4 b4 a5 b5 a6 b6 a7 b7) = deliveries draws st0 [ReqA; ReqB; ReqA; ReqA; ReqA; ReqA; ReqA; ReqA] /\
  nth 8 (pair_wABAAAAAA (OO:=ROps) a0 b0 a1 b1 a2 b2 a3 b3 a4 b4 a5 b5 a6 b6 a7 b7) 0%R = IZR (Z.of_nat (drawn (run draws [ReqA; ReqB; ReqA; ReqA; ReqA; ReqA; ReqA; ReqA]))).
Proof. pairing. Qed.

Lemma tie_pair_wBBAAAAAA a0 b0 a1 b1 a2 b2 a3 b3 a4 b4 a5 b5 a6 b6 a7 b7 :
  let draws := fun k => nth k [(a0, b0); (a1, b1); (a2, b2); (a3, b3); (a4, b4); (a5, b5); (a6, b6); (a7, b7)] (a0, b0) in
  firstn 8 (pair_wBBAAAAAA (OO:=ROps) a0 b0 a1 b1 a2 b2 a3 b3 a4 b4 a5 b5 a6 b6 a7 b7) = deliveries draws st0 [ReqB; ReqB; ReqA; ReqA; ReqA; ReqA; ReqA; ReqA] /\
  nth 8 (pair_wBBAAAAAA (OO:=ROps) a0 b0 a1 b1 a2 b2 a3 b3 a4 b4 a5 b5 a6 b6 a7 b7) 0%R = IZR (Z.of_nat (drawn (run draws [ReqB; ReqB; ReqA; ReqA; ReqA; ReqA; ReqA; ReqA]))).
Proof. pairing. Qed.

Lemma tie_pair_wAABAAAAA a0 b0 a1 b1 a2 b2 a3 b3 a4 b4 a5 b5 a6 b6 a7 b7 :
  let draws := fun k => nth k [(a0, b0); (a1, b1); (a2, b2); (a3, b3); (a4, b4); (a5, b5); (a6, b6); (a7, b7)] (a0, b0) in
  firstn 8 (pair_wAABAAAAA (OO:=ROps) a0 b0 a1 b1 a2 b2 a3 b3 a4 b4 a5 b5 a6 b6 a7 b7) = deliveries draws st0 [ReqA; ReqA; ReqB; ReqA; ReqA; ReqA; ReqA; ReqA] /\
  nth 8 (pair_wAABAAAAA (OO:=ROps) a0 b0 a1 b1 a2 b2 a3 b3 a4 b4 a5 b5 a6 b6 a7 b7) 0%R = IZR (Z.of_nat (drawn (run draws [ReqA; ReqA; ReqB; ReqA; ReqA; ReqA; ReqA; ReqA]))).
Proof. pairing. Qed.

Lemma tie_pair_wBABAAAAA a0 b0 a1 b1 a2 b2 a3 b3 a4 b4 a5 b5 a6 b6 a7 b7 :
  let draws := fun k => nth k [(a0, b0); (a1, b1); (a2, b2); (a3, b3); (a4, b4); (a5, b5); (a6, b6); (a7, b7)] (a0, b0) in
  firstn 8 (pair_wBABAAAAA (OO:=ROps) a0 b0 a1 b1 a2 b2 a3 b3 a4 b4 a5 b5 a6 b6 a7 b7) = deliveries draws st0 [ReqB; ReqA; ReqB; ReqA; ReqA; ReqA; ReqA; ReqA] /\
  nth 8 (pair_wBABAAAAA (OO:=ROps) a0 b0 a1 b1 a2 b2 a3 b3 a4 b4 a5 b5 a6 b6 a7 b7) 0%R = IZR (Z.of_nat (drawn (run draws [ReqB; ReqA; ReqB; ReqA; ReqA; ReqA; ReqA; ReqA]))).
Proof. pairing. Qed.

Lemma tie_pair_wABBAAAAA a0 b0 a1 b1 a2 b2 a3 b3 a4 b4 a5 b5 a6 b6 a7 b7 :
  let draws := fun k => nth k [(a0, b0); (a1, b1); (a2, b2); (a3, b3); (a4, b4); (a5, b5); (a6, b6); (a7, b7)] (a0, b0) in
  firstn 8 (pair_wABBAAAAA (OO:=ROps) a0 b0 a1 b1 a2 b2 a3 b3 a4 b4 a5 b5 a6 b6 a7 b7) = deliveries draws st0 [ReqA; ReqB; ReqB; ReqA; ReqA; ReqA; ReqA; ReqA] /\
  nth 8 (pair_wABBAAAAA (OO:=ROps) a0 b0 a1 b1 a2 b2 a3 b3 a4 b4 a5 b5 a6 b6 a7 b7) 0%R = IZR (Z.of_nat (drawn (run draws [ReqA; ReqB; ReqB; ReqA; ReqA; ReqA; ReqA; ReqA]))).
Proof. pairing. Qed.

Lemma tie_pair_wBBBAAAAA a0 b0 a1 b1 a2 b2 a3 b3 a4 b4 a5 b5 a6 b6 a7 b7 :
  let draws := fun k => nth k [(a0, b0); (a1, b1); (a2, b2); (a3, b3); (a4, b4); (a5, b5); (a6, b6); (a7, b7)] (a0, b0) in
  firstn 8 (pair_wBBBAAAAA (OO:=ROps) a0 b0 a1 b1 a2 b2 a3 b3 a4 b4 a5 b5 a6 b6 a7 b7) = deliveries draws st0 [ReqB; ReqB; ReqB; ReqA; ReqA; ReqA; ReqA; ReqA] /\
  nth 8 (pair_wBBBAAAAA (OO:=ROps) a0 b0 a1 b1 a2 b2 a3 b3 a4 b4 a5 b5 a6 b6 a7 b7) 0%R = IZR (Z.of_nat (drawn (run draws [ReqB; ReqB; ReqB; ReqA; ReqA; ReqA; ReqA; ReqA]))).
Proof. pairing. Qed.

Lemma tie_pair_wAAABAAAA a0 b0 a1 b1 a2 b2 a3 b3 a4 b4 a5 b5 a6 b6 a7 b7 :
  let draws := fun k => nth k [(a0, b0); (a1, b1); (a2, b2); (a3, b3); (a4, b4); (a5, b5); (a6, b6); (a7, b7)] (a0, b0) in
  firstn 8 (pair_wAAABAAAA (OO:=ROps) a0 b0 a1 b1 a2 b2 a3 b3 a4 b4 a5 b5 a6 b6 a7 b7) = deliveries draws st0 [ReqA; ReqA; ReqA; ReqB; ReqA; ReqA; ReqA; ReqA] /\
  nth 8 (pair_wAAABAAAA (OO:=ROps) a0 b0 a1 b1 a2 b2 a3 b3 a4 b4 a5 b5 a6 b6 a7 b7) 0%R = IZR (Z.of_nat (drawn (run draws [ReqA; ReqA; ReqA; ReqB; ReqA; ReqA; ReqA; ReqA]))).
Proof. pairing. Qed.

Lemma tie_pair_wBAABAAAA a0 b0 a1 b1 a2 b2 a3 b3 a4 b4 a5 b5 a6 b6 a7 b7 :
  let draws := fun k => nth k [(a0, b0); (a1, b1); (a2, b2); (a3, b3); (a4, b4); (a5, b5); (a6, b6); (a7, b7)] (a0, b0) in
  firstn 8 (pair_wBAABAAAA (OO:=ROps) a0 b0 a1 b1 a2 b2 a3 b3 a4 b4 a5 b5 a6 b6 a7 b7) = deliveries draws st0 [ReqB; ReqA; ReqA; ReqB; ReqA; ReqA; ReqA; ReqA] /\
  nth 8 (pair_wBAABAAAA (OO:=ROps) a0 b0 a1 b1 a2 b2 a3 b3 a4 b4 a5 b5 a6 b6 a7 b7) 0%R = IZR (Z.of_nat (drawn (run draws [ReqB; ReqA; ReqA; ReqB; ReqA; ReqA; ReqA; ReqA]))).
Proof. pairing. Qed.

Lemma tie_pair_wABABAAAA a0 b0 a1 b1 a2 b2 a3 b3 a4 b4 a5 b5 a6 b6 a7 b7 :
  let draws := fun k => nth k [(a0, b0); (a1, b1); (a2, b2); (a3, b3); (a4, b4); (a5, b5); (a6, b6); (a7, b7)] (a0, b0) in
  firstn 8 (pair_wABABAAAA (OO:=ROps) a0 b0 a1 b1 a2 b2 a3 b3 a4 b4 a5 b5 a6 b6 a7 b7) = deliveries draws st0 [ReqA; ReqB; ReqA; ReqB; ReqA; ReqA; ReqA; ReqA] /\
  nth 8 (pair_wABABAAAA (OO:=ROps) a0 b0 a1 b1 a2 b2 a3 b3 a4 b4 a5 b5 a6 b6 a7 b7) 0%R = IZR (Z.of_nat (drawn (run draws [ReqA; ReqB; ReqA; ReqB; ReqA; ReqA; ReqA; ReqA]))).
Proof. pairing. Qed.

Lemma tie_pair_wBBABAAAA a0 b0 a1 b1 a2 b2 a3 b3 a4 b4 a5 b5 a6 b6 a7 b7 :
  let draws := fun k => nth k [(a0, b0); (a1, b1); (a2, b2); (a3, b3); (a4, b4); (a5, b5); (a6, b6); (a7, b7)] (a0, b0) in
  firstn 8 (pair_wBBABAAAA (OO:=ROps) a0 b0 a1 b1 a2 b2 a3 b3 a4 b4 a5 b5 a6 b6 a7 b7) = deliveries draws st0 [ReqB; ReqB; ReqA; ReqB; ReqA; ReqA; ReqA; ReqA] /\
  nth 8 (pair_wBBABAAAA (OO:=ROps) a0 b0 a1 b1 a2 b2 a3 b3 a4 b4 a5 b5 a6 b6 a7 b7) 0%R = IZR (Z.of_nat (drawn (run draws [ReqB; ReqB; ReqA; ReqB; ReqA; ReqA; ReqA; ReqA]))).
Proof. pairing. Qed.

Lemma tie_pair_wAABBAAAA a0 b0 a1 b1 a2 b2 a3 b3 a4 b4 a5 b5 a6 b6 a7 b7 :
  let draws := fun k => nth k [(a0, b0); (a1, b1); (a2, b2); (a3, b3); (a4, b4); (a5, b5); (a6, b6); (a7, b7)] (a0, b0) in
  firstn 8 (pair_wAABBAAAA (OO:=ROps) a0 b0 a1 b1 a2 b2 a3 b3 a4 b4 a5 b5 a6 b6 a7 b7) = deliveries draws st0 [ReqA; ReqA; ReqB; ReqB; ReqA; ReqA; ReqA; ReqA] /\
  nth 8 (pair_wAABBAAAA (OO:=ROps) a0 b0 a1 b1 a2 b2 a3 b3 a4 b4 a5 b5 a6 b6 a7 b7) 0%R = IZR (Z.of_nat (drawn (run draws [ReqA; ReqA; ReqB; ReqB; ReqA; ReqA; ReqA; ReqA]))).
Proof. pairing. Qed.

Lemma tie_pair_wBABBAAAA a0 b0 a1 b1 a2 b2 a3 b3 a4 b4 a5 b5 a6 b6 a7 b7 :
  let draws := fun k => nth k [(a0, b0); (a1, b1); (a2, b2); (a3, b3); (a4, b4); (a5, b5); (a6, b6); (a7, b7)] (a0, b0) in
  firstn 8 (pair_wBABBAAAA (OO:=ROps) a0 b0 a1 b1 a2 b2 a3 b3 a4 b4 a5 b5 a6 b6 a7 b7) = deliveries draws st0 [ReqB; ReqA; ReqB; ReqB; ReqA; ReqA; ReqA; ReqA] /\
  nth 8 (pair_wBABBAAAA (OO:=ROps) a0 b0 a1 b1 a2 b2 a3 b3 a4 b4 a5 b5 a6 b6 a7 b7) 0%R = IZR (Z.of_nat (drawn (run draws [ReqB; ReqA; ReqB; ReqB; ReqA; ReqA; ReqA; ReqA]))).
Proof. pairing. Qed.

Lemma tie_pair_wABBBAAAA a0 b0 a1 b1 a2 b2 a3 b3 a4 b4 a5 b5 a6 b6 a7 b7 :
  let draws := fun k => nth k [(a0, b0); (a1, b1); (a2, b2); (a3, b3); (a4, b4); (a5, b5); (a6, b6); (a7, b7)] (a0, b0) in
  firstn 8 (pair_wABBBAAAA (OO:=ROps) a0 b0 a1 b1 a2 b2 a3 b3 a4 b4 a5 b5 a6 b6 a7 b7) = deliveries draws st0 [ReqA; ReqB; ReqB; ReqB; ReqA; ReqA; ReqA; ReqA] /\
  nth 8 (pair_wABBBAAAA (OO:=ROps) a0 b0 a1 b1 a2 b2 a3 b3 a4 b4 a5 b5 a6 b6 a7 b7) 0%R = IZR (Z.of_nat (drawn (run draws [ReqA; ReqB; ReqB; ReqB; ReqA; ReqA; ReqA; ReqA]))).
Proof. pairing. Qed.

Lemma tie_pair_wBBBBAAAA a0 b0 a1 b1 a2 b2 a3 b3 a4 b4 a5 b5 a6 b6 a7 b7 :
  let draws := fun k => nth k [(a0, b0); (a1, b1); (a2, b2); (a3, b3); (a4, b4); (a5, b5); (a6, b6); (a7, b7)] (a0, b0) in
  firstn 8 (pair_wBBBBAAAA (OO:=ROps) a0 b0 a1 b1 a2 b2 a3 b3 a4 b4 a5 b5 a6 b6 a7 b7) = deliveries draws st0 [ReqB; ReqB; ReqB; ReqB; ReqA; ReqA; ReqA; ReqA] /\
  nth 8 (pair_wBBBBAAAA (OO:=ROps) a0 b0 a1 b1 a2 b2 a3 b3 a4 b4 a5 b5 a6 b6 a7 b7) 0%R = IZR (Z.of_nat (drawn (run draws [ReqB; ReqB; ReqB; ReqB; ReqA; ReqA; ReqA; ReqA]))).
Proof. pairing. Qed.

Lemma tie_pair_wAAAABAAA a0 b0 a1 b1 a2 b2 a3 b3 a4 b4 a5 b5 a6 b6 a7 b7 :
  let draws := fun k => nth k [(a0, b0); (a1, b1); (a2, b2); (a3, b3); (a4, b4); (a5, b5); (a6, b6); (a7, b7)] (a0, b0) in
  firstn 8 (pair_wAAAABAAA (OO:=ROps) a0 b0 a1 b1 a2 b2 a3 b3 a4 b4 a5 b5 a6 b6 a7 b7) = deliveries draws st0 [ReqA; ReqA; ReqA; ReqA; ReqB; ReqA; ReqA; ReqA] /\
  nth 8 (pair_wAAAABAAA (OO:=ROps) a0 b0 a1 b1 a2 b2 a3 b3 a4 b4 a5 b5 a6 b6 a7 b7) 0%R = IZR (Z.of_nat (drawn (run draws [ReqA; ReqA; ReqA; ReqA; ReqB; ReqA; ReqA; ReqA]))).
Proof. pairing. Qed.

Lemma tie_pair_wBAAABAAA a0 b0 a1 b1 a2 b2 a3 b3 a4 b4 a5 b5 a6 b6 a7 b7 :
  let draws := fun k => nth k [(a0, b0); (a1, b1); (a2, b2); (a3, b3); (a4, b4); (a5, b5); (a6, b6); (a7, b7)] (a0, b0) in
  firstn 8 (pair_wBAAABAAA (OO:=ROps) a0 b0 a1 b1 a2 b2 a3 b3 a4 b4 a5 b5 a6 b6 a7 b7) = deliveries draws st0 [ReqB; ReqA; ReqA; ReqA; ReqB; ReqA; ReqA; ReqA] /\
  nth 8 (pair_wBAAABAAA (OO:=ROps) a0 b0 a1 b1 a2 b2 a3 b3 a4 b4 a5 b5 a6 b6 a7 b7) 0%R = IZR (Z.of_nat (drawn (run draws [ReqB; ReqA; ReqA; ReqA; ReqB; ReqA; ReqA; ReqA]))).
Proof. pairing. Qed.

Lemma tie_pair_wABAABAAA a0 b0 a1 b1 a2 b2 a3 b3 a4 b4 a5 b5 a6 b6 a7 b7 :
  let draws := fun k => nth k [(a0, b0); (a1, b1); (a2, b2); (a3, b3); (a4, b4); (a5, b5); (a6, b6); (a7, b7)] (a0, b0) in
  firstn 8 (pair_wABAABAAA (OO:=ROps) a0 b0 a1 b1 a2 b2 a3 b3 a4 b4 a5 b5 a6 b6 a7 b7) = deliveries draws st0 [ReqA; ReqB; ReqA; ReqA; ReqB; ReqA; ReqA; ReqA] /\
  nth 8 (pair_wABAABAAA (OO:=ROps) a0 b0 a1 b1 a2 b2 a3 b3 a4 b4 a5 b5 a6 b6 a7 b7) 0%R = IZR (Z.of_nat (drawn (run draws [ReqA; ReqB; ReqA; ReqA; ReqB; ReqA; ReqA; ReqA]))).
Proof. pairing. Qed.

Lemma tie_pair_wBBAABAAA a0 b0 a1 b1 a2 b2 a3 b3 a4 b4 a5 b5 a6 b6 a7 b7 :
  let draws := fun k => nth k [(a0, b0); (a1, b1); (a2, b2); (a3, b3); (a4, b4); (a5, b5); (a6, b6); (a7, b7)] (a0, b0) in
  firstn 8 (pair_wBBAABAAA (OO:=ROps) a0 b0 a1 b1 a2 b2 a3 b3 a4 b4 a5 b5 a6 b6 a7 b7) = deliveries draws st0 [ReqB; ReqB; ReqA; ReqA; ReqB; ReqA; ReqA; ReqA] /\
  nth 8 (pair_wBBAABAAA (OO:=ROps) a0 b0 a1 b1 a2 b2 a3 b3 a4 b4 a5 b5 a6 b6 a7 b7) 0%R = IZR (Z.of_nat (drawn (run draws [ReqB; ReqB; ReqA; ReqA; ReqB; ReqA; ReqA; ReqA]))).
Proof. pairing. Qed.

Lemma tie_pair_wAABABAAA a0 b0 a1 b1 a2 b2 a3 b3 a4 b4 a5 b5 a6 b6 a7 b7 :
  let draws := fun k => nth k [(a0, b0); (a1, b1); (a2, b2); (a3, b3); (a4, b4); (a5, b5); (a6, b6); (a7, b7)] (a0, b0) in
  firstn 8 (pair_wAABABAAA (OO:=ROps) a0 b0 a1 b1 a2 b2 a3 b3 a4 b4 a5 b5 a6 b6 a7 b7) = deliveries draws st0 [ReqA; ReqA; ReqB; ReqA; ReqB; ReqA; ReqA; ReqA] /\
  nth 8 (pair_wAABABAAA (OO:=ROps) a0 b0 a1 b1 a2 b2 a3 b3 a4 b4 a5 b5 a6 b6 a7 b7) 0%R = IZR (Z.of_nat (drawn (run draws [ReqA; ReqA; ReqB; ReqA; ReqB; ReqA; ReqA; ReqA]))).
Proof. pairing. Qed.

Lemma tie_pair_wBABABAAA a0 b0 a1 b1 a2 b2 a3 b3 a4 b4 a5 b5 a6 b6 a7 b7 :
  let draws := fun k => nth k [(a0, b0); (a1, b1); (a2, b2); (a3, b3); (a4, b4); (a5, b5); (a6, b6); (a7, b7)] (a0, b0) in
  firstn 8 (pair_wBABABAAA (OO:=ROps) a0 b0 a1 b1 a2 b2 a3 b3 a4 b4 a5 b5 a6 b6 a7 b7) = deliveries draws st0 [ReqB; ReqA; ReqB; ReqA; ReqB; ReqA; ReqA; ReqA] /\
  nth 8 (pair_wBABABAAA (OO:=ROps) a0 b0 a1 b1 a2 b2 a3 b3 a4 b4 a5 b5 a6 b6 a7 b7) 0%R = IZR (Z.of_nat (drawn (run draws [ReqB; ReqA; ReqB; ReqA; ReqB; ReqA; ReqA; ReqA]))).
Proof. pairing. Qed.

Lemma tie_pair_wABBABAAA a0 b0 a1 b1 a2 b2 a3 b3 a4 b4 a5 b5 a6 b6 a7 b7 :
  let draws := fun k => nth k [(a0, b0); (a1, b1); (a2, b2); (a3, b3); (a4, b4); (a5, b5); (a6, b6); (a7, b7)] (a0, b0) in
  firstn 8 (pair_wABBABAAA (OO:=ROps) a0 b0 a1 b1 a2 b2 a3 b3 a4 b4 a5 b5 a6 b6 a7 b7) = deliveries draws st0 [ReqA; ReqB; ReqB; ReqA; ReqB; ReqA; ReqA; ReqA] /\
  nth 8 (pair_wABBABAAA (OO:=ROps) a0 b0 a1 b1 a2 b2 a3 b3 a4 b4 a5 b5 a6 b6 a7 b7) 0%R = IZR (Z.of_nat (drawn (run draws [ReqA; ReqB; ReqB; ReqA; ReqB; ReqA; ReqA; ReqA]))).
Proof. pairing. Qed.

Lemma tie_pair_wBBBABAAA a0 b0 a1 b1 a2 b2 a3 b3 a4 b4 a5 b5 a6 b6 a7 b7 :
  let draws := fun k => nth k [(a0, b0); (a1, b1); (a2, b2); (a3, b3); (a4, b4); (a5, b5); (a6, b6); (a7, b7)] (a0, b0) in
  firstn 8 (pair_wBBBABAAA (OO:=ROps) a0 b0 a1 b1 a2 b2 a3 b3 a4 b4 a5 b5 a6 b6 a7 b7) = deliveries draws st0 [ReqB; ReqB; ReqB; ReqA; ReqB; ReqA; ReqA; ReqA] /\
  nth 8 (pair_wBBBABAAA (OO:=ROps) a0 b0 a1 b1 a2 b2 a3 b3 a4 b4 a5 b5 a6 b6 a7 b7) 0%R = IZR (Z.of_nat (drawn (run draws [ReqB; ReqB; ReqB; ReqA; ReqB; ReqA; ReqA; ReqA]))).
Proof. pairing. Qed.

Lemma tie_pair_wAAABBAAA a0 b0 a1 b1 a2 b2 a3 b3 a4 b4 a5 b5 a6 b6 a7 b7 :
  let draws := fun k => nth k [(a0, b0); (a1, b1); (a2, b2); (a3, b3); (a4, b4); (a5, b5); (a6, b6); (a7, b7)] (a0, b0) in
  firstn 8 (pair_wAAABBAAA (OO:=ROps) a0 b0 a1 b1 a2 b2 a3 b3 a4 b4 a5 b5 a6 b6 a7 b7) = deliveries draws st0 [ReqA; ReqA; ReqA; ReqB; ReqB; ReqA; ReqA; ReqA] /\
  nth 8 (pair_wAAABBAAA (OO:=ROps) a0 b0 a1 b1 a2 b2 a3 b3 a4 b4 a5 b5 a6 b6 a7 b7) 0%R = IZR (Z.of_nat (drawn (run draws [ReqA; ReqA; ReqA; ReqB; ReqB; ReqA; ReqA; ReqA]))).
Proof. pairing. Qed.

Lemma tie_pair_wBAABBAAA a0 b0 a1 b1 a2 b2 a3 b3 a4 b4 a5 b5 a6 b6 a7 b7 :
  let draws := fun k => nth k [(a0, b0); (a1, b1); (a2, b2); (a3, b3); (a4, b4); (a5, b5); (a6, b6); (a7, b7)] (a0, b0) in
  firstn 8 (pair_wBAABBAAA (OO:=ROps) a0 b0 a1 b1 a2 b2 a3 b3 a4 b4 a5 b5 a6 b6 a7 b7) = deliveries draws st0 [ReqB; ReqA; ReqA; ReqB; ReqB; ReqA; ReqA; ReqA] /\
  nth 8 (pair_wBAABBAAA (OO:=ROps) a0 b0 a1 b1 a2 b2 a3 b3 a4 b4 a5 b5 a6 b6 a7 b7) 0%R = IZR (Z.of_nat (drawn (run draws [ReqB; ReqA; ReqA; ReqB; ReqB; ReqA; ReqA; ReqA]))).
Proof. pairing. Qed.

Lemma tie_pair_wABABBAAA a0 b0 a1 b1 a2 b2 a3 b3 a4 b4 a5 b5 a6 b6 a7 b7 :
  let draws := fun k => nth k [(a0, b0); (a1, b1); (a2, b2); (a3, b3); (a4, b4); (a5, b5); (a6, b6); (a7, b7)] (a0, b0) in
  firstn 8 (pair_wABABBAAA (OO:=ROps) a0 b0 a1 b1 a2 b2 a3 b3 a4 b4 a5 b5 a6 b6 a7 b7) = deliveries draws st0 [ReqA; ReqB; ReqA; ReqB; ReqB; ReqA; ReqA; ReqA] /\
  nth 8 (pair_wABABBAAA (OO:=ROps) a0 b0 a1 b1 a2 b2 a3 b3 a4 b4 a5 b5 a6 b6 a7 b7) 0%R = IZR (Z.of_nat (drawn (run draws [ReqA; ReqB; ReqA; ReqB; ReqB; ReqA; ReqA; ReqA]))).
Proof. pairing. Qed.

Lemma tie_pair_wBBABBAAA a0 b0 a1 b1 a2 b2 a3 b3 a4 b4 a5 b5 a6 b6 a7 b7 :
  let draws := fun k => nth k [(a0, b0); (a1, b1); (a2, b2); (a3, b3); (a4, b4); (a5, b5); (a6, b6); (a7, b7)] (a0, b0) in
  firstn 8 (pair_wBBABBAAA (OO:=ROps) a0 b0 a1 b1 a2 b2 a3 b3 a4 b4 a5 b5 a6 b6 a7 b7) = deliveries draws st0 [ReqB; ReqB; ReqA; ReqB; ReqB; ReqA; ReqA; ReqA] /\
  nth 8 (pair_wBBABBAAA (OO:=ROps) a0 b0 a1 b1 a2 b2 a3 b3 a4 b4 a5 b5 a6 b6 a7 b7) 0%R = IZR (Z.of_nat (drawn (run draws [ReqB; ReqB; ReqA; ReqB; ReqB; ReqA; ReqA; ReqA]))).
Proof. pairing. Qed.

Lemma tie_pair_wAABBBAAA a0 b0 a1 b1 a2 b2 a3 b3 a4 b4 a5 b5 a6 b6 a7 b7 :
  let draws := fun k => nth k [(a0, b0); (a1, b1); (a2, b2); (a3, b3); (a4, b4); (a5, b5); (a6, b6); (a7, b7)] (a0, b0) in
  firstn 8 (pair_wAABBBAAA (OO:=ROps) a0 b0 a1 b1 a2 b2 a3 b3 a4 b4 a5 b5 a6 b6 a7 b7) = deliveries draws st0 [ReqA; ReqA; ReqB; ReqB; ReqB; ReqA; ReqA; ReqA] /\
  nth 8 (pair_wAABBBAAA (OO:=ROps) a0 b0 a1 b1 a2 b2 a3 b3 a4 b4 a5 b5 a6 b6 a7 b7) 0%R = IZR (Z.of_nat (drawn (run draws [ReqA; ReqA; ReqB; ReqB; ReqB; ReqA; ReqA; ReqA]))).
Proof. pairing. Qed.

Lemma tie_pair_wBABBBAAA a0 b0 a1 b1 a2 b2 a3 b3 a4 b4 a5 b5 a6 b6 a7 b7 :
  let draws := fun k => nth k [(a0, b0); (a1, b1); (a2, b2); (a3, b3); (a4, b4); (a5, b5); (a6, b6); (a7, b7)] (a0, b0) in
  firstn 8 (pair_wBABBBAAA (OO:=ROps) a0 b0 a1 b1 a2 b2 a3 b3 a4 b4 a5 b5 a6 b6 a7 b7) = deliveries draws st0 [ReqB; ReqA; ReqB; ReqB; ReqB; ReqA; ReqA; ReqA] /\
  nth 8 (pair_wBABBBAAA (OO:=ROps) a0 b0 a1 b1 a2 b2 a3 b3 a4 b4 a5 b5 a6 b6 a7 b7) 0%R = IZR (Z.of_nat (drawn (run draws [ReqB; ReqA; ReqB; ReqB; ReqB; ReqA; ReqA; ReqA]))).
Proof. pairing. Qed.

Lemma tie_pair_wABBBBAAA a0 b0 a1 b1 a2 b2 a3 b3 a4 b4 a5 b5 a6 b6 a7 b7 :
  let draws := fun k => nth k [(a0, b0); (a1, b1); (a2, b2); (a3, b3); (a4, b4); (a5, b5); (a6, b6); (a7, b7)] (a0, b0) in
  firstn 8 (pair_wABBBBAAA (OO:=ROps) a0 b0 a1 b1 a2 b2 a3 b3 a4 b4 a5 b5 a6 b6 a7 b7) = deliveries draws st0 [ReqA; ReqB; ReqB; ReqB; ReqB; ReqA; ReqA; ReqA] /\
  nth 8 (pair_wABBBBAAA (OO:=ROps) a0 b0 a1 b1 a2 b2 a3 b3 a4 b4 a5 b5 a6 b6 a7 b7) 0%R = IZR (Z.of_nat (drawn (run draws [ReqA; ReqB; ReqB; ReqB; ReqB; ReqA; ReqA; ReqA]))).
Proof. pairing. Qed.

Lemma tie_pair_wBBBBBAAA a0 b0 a1 b1 a2 b2 a3 b3 a4 b4 a5 b5 a6 b6 a7 b7 :
  let draws := fun k => nth k [(a0, b0); (a1, b1); (a2, b2); (a3, b3); (a4, b4); (a5, b5); (a6, b6); (a7, b7)] (a0, b0) in
  firstn 8 (pair_wBBBBBAAA (OO:=ROps) a0 b0 a1 b1 a2 b2 a3 b3 a4 b4 a5 b5 a6 b6 a7 b7) = deliveries draws st0 [ReqB; ReqB; ReqB; ReqB; ReqB; ReqA; ReqA; ReqA] /\
  nth 8 (pair_wBBBBBAAA (OO:=ROps) a0 b0 a1 b1 a2 b2 a3 b3 a4 b4 a5 b5 a6 b6 a7 b7) 0%R = IZR (Z.of_nat (drawn (run draws [ReqB; ReqB; ReqB; ReqB; ReqB; ReqA; ReqA; ReqA]))).
Proof. pairing. Qed.

Lemma tie_pair_wAAAAABAA a0 b0 a1 b1 a2 b2 a3 b3 a4 b4 a5 b5 a6 b6 a7 b7 :
  let draws := fun k => nth k [(a0, b0); (a1, b1); (a2, b2); (a3, b3); (a4, b4); (a5, b5); (a6, b6); (a7, b7)] (a0, b0) in
  firstn 8 (pair_wAAAAABAA (OO:=ROps) a0 b0 a1 b1 a2 b2 a3 b3 a4 b4 a5 b5 a6 b6 a7 b7) = deliveries draws st0 [ReqA; ReqA; ReqA; ReqA; ReqA; ReqB; ReqA; ReqA] /\
  nth 8 (pair_wAAAAABAA (OO:=ROps) a0 b0 a1 b1 a2 b2 a3 b3 a4 b4 a5 b5 a6 b6 a7 b7) 0%R = IZR (Z.of_nat (drawn (run draws [ReqA; ReqA; ReqA; ReqA; ReqA; ReqB; ReqA; ReqA]))).
Proof. pairing. Qed.

Lemma tie_pair_wBAAAABAA a0 b0 a1 b1 a2 b2 a3 b3 a4 b4 a5 b5 a6 b6 a7 b7 :
  let draws := fun k => nth k [(a0, b0); (a1, b1); (a2, b2); (a3, b3); (a4, b4); (a5, b5); (a6, b6); (a7, b7)] (a0, b0) in
  firstn 8 (pair_wBAAAABAA (OO:=ROps) a0 b0 a1 b1 a2 b2 a3 b3 a4 b4 a5 b5 a6 b6 a7 b7) = deliveries draws st0 [ReqB; ReqA; ReqA; ReqA; ReqA; ReqB; ReqA; ReqA] /\
  nth 8 (pair_wBAAAABAA (OO:=ROps) a0 b0 a1 b1 a2 b2 a3 b3 a4 b4 a5 b5 a6 b6 a7 b7) 0%R = IZR (Z.of_nat (drawn (run draws [ReqB; ReqA; ReqA; ReqA; ReqA; ReqB; ReqA; ReqA]))).
Proof. pairing. Qed.

Lemma tie_pair_wABAAABAA a0 b0 a1 b1 a2 b2 a3 b3 a4 b4 a5 b5 a6 b6 a7 b7 :
  let draws := fun k => nth k [(a0, b0); (a1, b1); (a2, b2); (a3, b3); (a4, b4); (a5, b5); (a6, b6); (a7, b7)] (a0, b0) in
  firstn 8 (pair_wABAAABAA (OO:=ROps) a0 b0 a1 b1 a2 b2 a3 b3 a4 b4 a5 b5 a6 b6 a7 b7) = deliveries draws st0 [ReqA; ReqB; ReqA; ReqA; ReqA; ReqB; ReqA; ReqA] /\
  nth 8 (pair_wABAAABAA (OO:=ROps) a0 b0 a1 b1 a2 b2 a3 b3 a4 b4 a5 b5 a6 b6 a7 b7) 0%R = IZR (Z.of_nat (drawn (run draws [ReqA; ReqB; ReqA; ReqA; ReqA; ReqB; ReqA; ReqA]))).
Proof. pairing. Qed.

Lemma tie_pair_wBBAAABAA a0 b0 a1 b1 a2 b2 a3 b3 a4 b4 a5 b5 a6 b6 a7 b7 :
  let draws := fun k => nth k [(a0, b0); (a1, b1); (a2, b2); (a3, b3); (a4, b4); (a5, b5); (a6, b6); (a7, b7)] (a0, b0) in
  firstn 8 (pair_wBBAAABAA (OO:=ROps) a0 b0 a1 b1 a2 b2 a3 b3 a4 b4 a5 b5 a6 b6 a7 b7) = deliveries draws st0 [ReqB; ReqB; ReqA; ReqA; ReqA; ReqB; ReqA; ReqA] /\
  nth 8 (pair_wBBAAABAA (OO:=ROps) a0 b0 a1 b1 a2 b2 a3 b3 a4 b4 a5 b5 a6 b6 a7 b7) 0%R = IZR (Z.of_nat (drawn (run draws [ReqB; ReqB; ReqA; ReqA; ReqA; ReqB; ReqA; ReqA]))).
Proof. pairing. Qed.

Lemma tie_pair_wAABAABAA a0 b0 a1 b1 a2 b2 a3 b3 a4 b4 a5 b5 a6 b6 a7 b7 :
  let draws := fun k => nth k [(a0, b0); (a1, b1); (a2, b2); (a3, b3); (a4, b4); (a5, b5); (a6, b6); (a7, b7)] (a0, b0) in
  firstn 8 (pair_wAABAABAA (OO:=ROps) a0 b0 a1 b1 a2 b2 a3 b3 a4 b4 a5 b5 a6 b6 a7 b7) = deliveries draws st0 [ReqA; ReqA; ReqB; ReqA; ReqA; ReqB; ReqA; ReqA] /\
  nth 8 (pair_wAABAABAA (OO:=ROps) a0 b0 a1 b1 a2 b2 a3 b3 a4 b4 a5 b5 a6 b6 a7 b7) 0%R = IZR (Z.of_nat (drawn (run draws [ReqA; ReqA; ReqB; ReqA; ReqA; ReqB; ReqA; ReqA]))).
Proof. pairing. Qed.

Lemma tie_pair_wBABAABAA a0 b0 a1 b1 a2 b2 a3 b3 a4 b4 a5 b5 a6 b6 a7 b7 :
  let draws := fun k => nth k [(a0, b0); (a1, b1); (a2, b2); (a3, b3); (a4, b4); (a5, b5); (a6, b6); (a7, b7)] (a0, b0) in
  firstn 8 (pair_wBABAABAA (OO:=ROps) a0 b0 a1 b1 a2 b2 a3 b3 a4 b4 a5 b5 a6 b6 a7 b7) = deliveries draws st0 [ReqB; ReqA; ReqB; ReqA; ReqA; ReqB; ReqA; ReqA] /\
  nth 8 (pair_wBABAABAA (OO:=ROps) a0 b0 a1 b1 a2 b2 a3 b3 a4 b4 a5 b5 a6 b6 a7 b7) 0%R = IZR (Z.of_nat (drawn (run draws [ReqB; ReqA; ReqB; ReqA; ReqA; ReqB; ReqA; ReqA]))).
Proof. pairing. Qed.

Lemma tie_pair_wABBAABAA a0 b0 a1 b1 a2 b2 a3 b3 a4 b4 a5 b5 a6 b6 a7 b7 :
  let draws := fun k => nth k [(a0, b0); (a1, b1); (a2, b2); (a3, b3); (a4, b4); (a5, b5); (a6, b6); (a7, b7)] (a0, b0) in
  firstn 8 (pair_wABBAABAA (OO:=ROps) a0 b0 a1 b1 a2 b2 a3 b3 a4 b4 a5 b5 a6 b6 a7 b7) = deliveries draws st0 [ReqA; ReqB; ReqB; ReqA; ReqA; ReqB; ReqA; ReqA] /\
  nth 8 (pair_wABBAABAA (OO:=ROps) a0 b0 a1 b1 a2 b2 a3 b3 a4 b4 a5 b5 a6 b6 a7 b7) 0%R = IZR (Z.of_nat (drawn (run draws [ReqA; ReqB; ReqB; ReqA; ReqA; ReqB; ReqA; ReqA]))).
Proof. pairing. Qed.

Lemma tie_pair_wBBBAABAA a0 b0 a1 b1 a2 b2 a3 b3 a4 b4 a5 b5 a6 b6 a7 b7 :
  let draws := fun k => nth k [(a0, b0); (a1, b1); (a2, b2); (a3, b3); (a4, b4); (a5, b5); (a6, b6); (a7, b7)] (a0, b0) in
  firstn 8 (pair_wBBBAABAA (OO:=ROps) a0 b0 a1 b1 a2 b2 a3 b3 a4 b4 a5 b5 a6 b6 a7 b7) = deliveries draws st0 [ReqB; ReqB; ReqB; ReqA; ReqA; ReqB; ReqA; ReqA] /\
  nth 8 (pair_wBBBAABAA (OO:=ROps) a0 b0 a1 b1 a2 b2 a3 b3 a4 b4 a5 b5 a6 b6 a7 b7) 0%R = IZR (Z.of_nat (drawn (run draws [ReqB; ReqB; ReqB; ReqA; ReqA; ReqB; ReqA; ReqA]))).
Proof. pairing. Qed.

Lemma tie_pair_wAAABABAA a0 b0 a1 b1 a2 b2 a3 b3 a4 b4 a5 b5 a6 b6 a7 b7 :
  let draws := fun k => nth k [(a0, b0); (a1, b1); (a2, b2); (a3, b3); (a4, b4); (a5, b5); (a6, b6); (a7, b7)] (a0, b0) in
  firstn 8 (pair_wAAABABAA (OO:=ROps) a0 b0 a1 b1 a2 b2 a3 b3 a4 b4 a5 b5 a6 b6 a7 b7) = deliveries draws st0 [ReqA; ReqA; ReqA; ReqB; ReqA; ReqB; ReqA; ReqA] /\
  nth 8 (pair_wAAABABAA (OO:=ROps) a0 b0 a1 b1 a2 b2 a3 b3 a4 b4 a5 b5 a6 b6 a7 b7) 0%R = IZR (Z.of_nat (drawn (run draws [ReqA; ReqA; ReqA; ReqB; ReqA; ReqB; ReqA; ReqA]))).
Proof. pairing. Qed.

Lemma tie_pair_wBAABABAA a0 b0 a1 b1 a2 b2 a3 b3 a4 b4 a5 b5 a6 b6 a7 b7 :
  let draws := fun k => nth k [(a0, b0); (a1, b1); (a2, b2); (a3, b3); (a4, b4); (a5, b5); (a6, b6); (a7, b7)] (a0, b0) in
  firstn 8 (pair_wBAABABAA (OO:=ROps) a0 b0 a1 b1 a2 b2 a3 b3 a4 b4 a5 b5 a6 b6 a7 b7) = deliveries draws st0 [ReqB; ReqA; ReqA; ReqB; ReqA; ReqB; ReqA; ReqA] /\
  nth 8 (pair_wBAABABAA (OO:=ROps) a0 b0 a1 b1 a2 b2 a3 b3 a4 b4 a5 b5 a6 b6 a7 b7) 0%R = IZR (Z.of_nat (drawn (run draws [ReqB; ReqA; ReqA; ReqB; ReqA; ReqB; ReqA; ReqA]))).
Proof. pairing. Qed.

Lemma tie_pair_wABABABAA a0 b0 a1 b1 a2 b2 a3 b3 a4 b4 a5 b5 a6 b6 a7 b7 :
  let draws := fun k => nth k [(a0, b0); (a1, b1); (a2, b2); (a3, b3); (a4, b4); (a5, b5); (a6, b6); (a7, b7)] (a0, b0) in
  firstn 8 (pair_wABABABAA (OO:=ROps) a0 b0 a1 b1 a2 b2 a3 b3 a4 b4 a5 b5 a6 b6 a7 b7) = deliveries draws st0 [ReqA; ReqB; ReqA; ReqB; ReqA; ReqB; ReqA; ReqA] /\
  nth 8 (pair_wABABABAA (OO:=ROps) a0 b0 a1 b1 a2 b2 a3 b3 a4 b4 a5 b5 a6 b6 a7 b7) 0%R = IZR (Z.of_nat (drawn (run draws [ReqA; ReqB; ReqA; ReqB; ReqA; ReqB; ReqA; ReqA]))).
Proof. pairing. Qed.

Lemma tie_pair_wBBABABAA a0 b0 a1 b1 a2 b2 a3 b3 a4 b4 a5 b5 a6 b6 a7 b7 :
  let draws := fun k => nth k [(a0, b0); (a1, b1); (a2, b2); (a3, b3); (a4, b4); (a5, b5); (a6, b6); (a7, b7)] (a0, b0) in
  firstn 8 (pair_wBBABABAA (OO:=ROps) a0 b0 a1 b1 a2 b2 a3 b3 a4 b4 a5 b5 a6 b6 a7 b7) = deliveries draws st0 [ReqB; ReqB; ReqA; ReqB; ReqA; ReqB; ReqA; ReqA] /\
  nth 8 (pair_wBBABABAA (OO:=ROps) a0 b0 a1 b1 a2 b2 a3 b3 a4 b4 a5 b5 a6 b6 a7 b7) 0%R = IZR (Z.of_nat (drawn (run draws [ReqB; ReqB; ReqA; ReqB; ReqA; ReqB; ReqA; ReqA]))).
Proof. pairing. Qed.

Lemma tie_pair_wAABBABAA a0 b0 a1 b1 a2 b2 a3 b3 a4 b4 a5 b5 a6 b6 a7 b7 :
  let draws := fun k => nth k [(a0, b0); (a1, b1); (a2, b2); (a3, b3); (a4, b4); (a5, b5); (a6, b6); (a7, b7)] (a0, b0) in
  firstn 8 (pair_wAABBABAA (OO:=ROps) a0 b0 a1 b1 a2 b2 a3 b3 a4 b4 a5 b5 a6 b6 a7 b7) = deliveries draws st0 [ReqA; ReqA; ReqB; ReqB; ReqA; ReqB; ReqA; ReqA] /\
  nth 8 (pair_wAABBABAA (OO:=ROps) a0 b0 a1 b1 a2 b2 a3 b3 a4 b4 a5 b5 a6 b6 a7 b7) 0%R = IZR (Z.of_nat (drawn (run draws [ReqA; ReqA; ReqB; ReqB; ReqA; ReqB; ReqA; ReqA]))).
Proof. pairing. Qed.

Lemma tie_pair_wBABBABAA a0 b0 a1 b1 a2 b2 a3 b3 a4 b4 a5 b5 a6 b6 a7 b7 :
  let draws := fun k => nth k [(a0, b0); (a1, b1); (a2, b2); (a3, b3); (a4, b4); (a5, b5); (a6, b6); (a7, b7)] (a0, b0) in
  firstn 8 (pair_wBABBABAA (OO:=ROps) a0 b0 a1 b1 a2 b2 a3 b3 a4 b4 a5 b5 a6 b6 a7 b7) = deliveries draws st0 [ReqB; ReqA; ReqB; ReqB; ReqA; ReqB; ReqA; ReqA] /\
  nth 8 (pair_wBABBABAA (OO:=ROps) a0 b0 a1 b1 a2 b2 a3 b3 a4 b4 a5 b5 a6 b6 a7 b7) 0%R = IZR (Z.of_nat (drawn (run draws [ReqB; ReqA; ReqB; ReqB; ReqA; ReqB; ReqA; ReqA]))).
Proof. pairing. Qed.

Lemma tie_pair_wABBBABAA a0 b0 a1 b1 a2 b2 a3 b3 a4 b4 a5 b5 a6 b6 a7 b7 :
  let draws := fun k => nth k [(a0, b0); (a1, b1); (a2, b2); (a3, b3); (a4, b4); (a5, b5); (a6, b6); (a7, b7)] (a0, b0) in
  firstn 8 (pair_wABBBABAA (OO:=ROps) a0 b0 a1 b1 a2 b2 a3 b3 a4 b4 a5 b5 a6 b6 a7 b7) = deliveries draws st0 [ReqA; ReqB; ReqB; ReqB; ReqA; ReqB; ReqA; ReqA] /\
  nth 8 (pair_wABBBABAA (OO:=ROps) a0 b0 a1 b1 a2 b2 a3 b3 a4 b4 a5 b5 a6 b6 a7 b7) 0%R = IZR (Z.of_nat (drawn (run draws [ReqA; ReqB; ReqB; ReqB; ReqA; ReqB; ReqA; ReqA]))).
Proof. pairing. Qed.

Lemma tie_pair_wBBBBABAA a0 b0 a1 b1 a2 b2 a3 b3 a4 b4 a5 b5 a6 b6 a7 b7 :
  let draws := fun k => nth k [(a0, b0); (a1, b1); (a2, b2); (a3, b3); (a4, b4); (a5, b5); (a6, b6); (a7, b7)] (a0, b0) in
  firstn 8 (pair_wBBBBABAA (OO:=ROps) a0 b0 a1 b1 a2 b2 a3 b3 a4 b4 a5 b5 a6 b6 a7 b7) = deliveries draws st0 [ReqB; ReqB; ReqB; ReqB; ReqA; ReqB; ReqA; ReqA] /\
  nth 8 (pair_wBBBBABAA (OO:=ROps) a0 b0 a1 b1 a2 b2 a3 b3 a4 b4 a5 b5 a6 b6 a7 b7) 0%R = IZR (Z.of_nat (drawn (run draws [ReqB; ReqB; ReqB; ReqB; ReqA; ReqB; ReqA; ReqA]))).
Proof. pairing. Qed.

Lemma tie_pair_wAAAABBAA a0 b0 a1 b1 a2 b2 a3 b3 a4 b4 a5 b5 a6 b6 a7 b7 :
  let draws := fun k => nth k [(a0, b0); (a1, b1); (a2, b2); (a3, b3); (a4, b4); (a5, b5); (a6, b6); (a7, b7)] (a0, b0) in
  firstn 8 (pair_wAAAABBAA (OO:=ROps) a0 b0 a1 b1 a2 b2 a3 b3 a4 b4 a5 b5 a6 b6 a7 b7) = deliveries draws st0 [ReqA; ReqA; ReqA; ReqA; ReqB; ReqB; ReqA; ReqA] /\
  nth 8 (pair_wAAAABBAA (OO:=ROps) a0 b0 a1 b1 a2 b2 a3 b3 a4 b4 a5 b5 a6 b6 a7 b7) 0%R = IZR (Z.of_nat (drawn (run draws [ReqA; ReqA; ReqA; ReqA; ReqB; ReqB; ReqA; ReqA]))).
Proof. pairing. Qed.

Lemma tie_pair_wBAAABBAA a0 b0 a1 b1 a2 b2 a3 b3 a4 b4 a5 b5 a6 b6 a7 b7 :
  let draws := fun k => nth k [(a0, b0); (a1, b1); (a2, b2); (a3, b3); (a4, b4); (a5, b5); (a6, b6); (a7, b7)] (a0, b0) in
  firstn 8 (pair_wBAAABBAA (OO:=ROps) a0 b0 a1 b1 a2 b2 a3 b3 a4 b4 a5 b5 a6 b6 a7 b7) = deliveries draws st0 [ReqB; ReqA; ReqA; ReqA; ReqB; ReqB; ReqA; ReqA] /\
  nth 8 (pair_wBAAABBAA (OO:=ROps) a0 b0 a1 b1 a2 b2 a3 b3 a4 b4 a5 b5 a6 b6 a7 b7) 0%R = IZR (Z.of_nat (drawn (run draws [ReqB; ReqA; ReqA; ReqA; ReqB; ReqB; ReqA; ReqA]))).
Proof. pairing. Qed.

Lemma tie_pair_wABAABBAA a0 b0 a1 b1 a2 b2 a3 b3 a4 b4 a5 b5 a6 b6 a7 b7 :
  let draws := fun k => nth k [(a0, b0); (a1, b1); (a2, b2); (a3, b3); (a4, b4); (a5, b5); (a6, b6); (a7, b7)] (a0, b0) in
  firstn 8 (pair_wABAABBAA (OO:=ROps) a0 b0 a1 b1 a2 b2 a3 b3 a4 b4 a5 b5 a6 b6 a7 b7) = deliveries draws st0 [ReqA; ReqB; ReqA; ReqA; ReqB; ReqB; ReqA; ReqA] /\
  nth 8 (pair_wABAABBAA (OO:=ROps) a0 b0 a1 b1 a2 b2 a3 b3 a4 b4 a5 b5 a6 b6 a7 b7) 0%R = IZR (Z.of_nat (drawn (run draws [ReqA; ReqB; ReqA; ReqA; ReqB; ReqB; ReqA; ReqA]))).
Proof. pairing. Qed.

Lemma tie_pair_wBBAABBAA a0 b0 a1 b1 a2 b2 a3 b3 a4 b4 a5 b5 a6 b6 a7 b7 :
  let draws := fun k => nth k [(a0, b0); (a1, b1); (a2, b2); (a3, b3); (a4, b4); (a5, b5); (a6, b6); (a7, b7)] (a0, b0) in
  firstn 8 (pair_wBBAABBAA (OO:=ROps) a0 b0 a1 b1 a2 b2 a3 b3 a4 b4 a5 b5 a6 b6 a7 b7) = deliveries draws st0 [ReqB; ReqB; ReqA; ReqA; ReqB; ReqB; ReqA; ReqA] /\
  nth 8 (pair_wBBAABBAA (OO:=ROps) a0 b0 a1 b1 a2 b2 a3 b3 a4 b4 a5 b5 a6 b6 a7 b7) 0%R = IZR (Z.of_nat (drawn (run draws [ReqB; ReqB; ReqA; ReqA; ReqB; ReqB; ReqA; ReqA]))).
Proof. pairing. Qed.

Lemma tie_pair_wAABABBAA a0 b0 a1 b1 a2 b2 a3 b3 a4 b4 a5 b5 a6 b6 a7 b7 :
  let draws := fun k => nth k [(a0, b0); (a1, b1); (a2, b2); (a3, b3); (a4, b4); (a5, b5); (a6, b6); (a7, b7)] (a0, b0) in
  firstn 8 (pair_wAABABBAA (OO:=ROps) a0 b0 a1 b1 a2 b2 a3 b3 a4 b4 a5 b5 a6 b6 a7 b7) = deliveries draws st0 [ReqA; ReqA; ReqB; ReqA; ReqB; ReqB; ReqA; ReqA] /\
  nth 8 (pair_wAABABBAA (OO:=ROps) a0 b0 a1 b1 a2 b2 a3 b3 a4 b4 a5 b5 a6 b6 a7 b7) 0%R = IZR (Z.of_nat (drawn (run draws [ReqA; ReqA; ReqB; ReqA; ReqB; ReqB; ReqA; ReqA]))).
Proof. pairing. Qed.

Lemma tie_pair_wBABABBAA a0 b0 a1 b1 a2 b2 a3 b3 a4 b4 a5 b5 a6 b6 a7 b7 :
  let draws := fun k => nth k [(a0, b0); (a1, b1); (a2, b2); (a3, b3); (a4, b4); (a5, b5); (a6, b6); (a7, b7)] (a0, b0) in
  firstn 8 (pair_wBABABBAA (OO:=ROps) a0 b0 a1 b1 a2 b2 a3 b3 a4 b4 a5 b5 a6 b6 a7 b7) = deliveries draws st0 [ReqB; ReqA; ReqB; ReqA; ReqB; ReqB; ReqA; ReqA] /\
  nth 8 (pair_wBABABBAA (OO:=ROps) a0 b0 a1 b1 a2 b2 a3 b3 a4 b4 a5 b5 a6 b6 a7 b7) 0%R = IZR (Z.of_nat (drawn (run draws [ReqB; ReqA; ReqB; ReqA; ReqB; ReqB; ReqA; ReqA]))).
Proof. pairing. Qed.

Lemma tie_pair_wABBABBAA a0 b0 a1 b1 a2 b2 a3 b3 a4 b4 a5 b5 a6 b6 a7 b7 :
  let draws := fun k => nth k [(a0, b0); (a1, b1); (a2, b2); (a3, b3); (a4, b4); (a5, b5); (a6, b6); (a7, b7)] (a0, b0) in
  firstn 8 (pair_wABBABBAA (OO:=ROps) a0 b0 a1 b1 a2 b2 a3 b3 a4 b4 a5 b5 a6 b6 a7 b7) = deliveries draws st0 [ReqA; ReqB; ReqB; ReqA; ReqB; ReqB; ReqA; ReqA] /\
  nth 8 (pair_wABBABBAA (OO:=ROps) a0 b0 a1 b1 a2 b2 a3 b3 a4 b4 a5 b5 a6 b6 a7 b7) 0%R = IZR (Z.of_nat (drawn (run draws [ReqA; ReqB; ReqB; ReqA; ReqB; ReqB; ReqA; ReqA]))).
Proof. pairing. Qed.

Lemma tie_pair_wBBBABBAA a0 b0 a1 b1 a2 b2 a3 b3 a4 b4 a5 b5 a6 b6 a7 b7 :
  let draws := fun k => nth k [(a0, b0); (a1, b1); (a2, b2); (a3, b3); (a4, b4); (a5, b5); (a6, b6); (a7, b7)] (a0, b0) in
  firstn 8 (pair_wBBBABBAA (OO:=ROps) a0 b0 a1 b1 a2 b2 a3 b3 a4 b4 a5 b5 a6 b6 a7 b7) = deliveries draws st0 [ReqB; ReqB; ReqB; ReqA; ReqB; ReqB; ReqA; ReqA] /\
  nth 8 (pair_wBBBABBAA (OO:=ROps) a0 b0 a1 b1 a2 b2 a3 b3 a4 b4 a5 b5 a6 b6 a7 b7) 0%R = IZR (Z.of_nat (drawn (run draws [ReqB; ReqB; ReqB; ReqA; ReqB; ReqB; ReqA; ReqA]))).
Proof. pairing. Qed.

Lemma tie_pair_wAAABBBAA a0 b0 a1 b1 a2 b2 a3 b3 a4 b4 a5 b5 a6 b6 a7 b7 :
  let draws := fun k => nth k [(a0, b0); (a1, b1); (a2, b2); (a3, b3); (a4, b4); (a5, b5); (a6, b6); (a7, b7)] (a0, b0) in
  firstn 8 (pair_wAAABBBAA (OO:=ROps) a0 b0 a1 b1 a2 b2 a3 b3 a4 b4 a5 b5 a6 b6 a7 b7) = deliveries draws st0 [ReqA; ReqA; ReqA; ReqB; ReqB; ReqB; ReqA; ReqA] /\
  nth 8 (pair_wAAABBBAA (OO:=ROps) a0 b0 a1 b1 a2 b2 a3 b3 a4 b4 a5 b5 a6 b6 a7 b7) 0%R = IZR (Z.of_nat (drawn (run draws [ReqA; ReqA; ReqA; ReqB; ReqB; ReqB; ReqA; ReqA]))).
Proof. pairing. Qed.

Lemma tie_pair_wBAABBBAA a0 b0 a1 b1 a2 b2 a3 b3 a4 b4 a5 b5 a6 b6 a7 b7 :
  let draws := fun k => nth k [(a0, b0); (a1, b1); (a2, b2); (a3, b3); (a4, b4); (a5, b5); (a6, b6); (a7, b7)] (a0, b0) in
  firstn 8 (pair_wBAABBBAA (OO:=ROps) a0 b0 a1 b1 a2 b2 a3 b3 a4 b4 a5 b5 a6 b6 a7 b7) = deliveries draws st0 [ReqB; ReqA; ReqA; ReqB; ReqB; ReqB; ReqA; ReqA] /\
  nth 8 (pair_wBAABBBAA (OO:=ROps) a0 b0 a1 b1 a2 b2 a3 b3 a4 b4 a5 b5 a6 b6 a7 b7) 0%R = IZR (Z.of_nat (drawn (run draws [ReqB; ReqA; ReqA; ReqB; ReqB; ReqB; ReqA; ReqA]))).
Proof. pairing. Qed.

Lemma tie_pair_wABABBBAA a0 b0 a1 b1 a2 b2 a3 b3 a4 b4 a5 b5 a6 b6 a7 b7 :
  let draws := fun k => nth k [(a0, b0); (a1, b1); (a2, b2); (a3, b3); (a4, b4); (a5, b5); (a6, b6); (a7, b7)] (a0, b0) in
  firstn 8 (pair_wABABBBAA (OO:=ROps) a0 b0 a1 b1 a2 b2 a3 b3 a4 b4 a5 b5 a6 b6 a7 b7) = deliveries draws st0 [ReqA; ReqB; ReqA; ReqB; ReqB; ReqB; ReqA; ReqA] /\
  nth 8 (pair_wABABBBAA (OO:=ROps) a0 b0 a1 b1 a2 b2 a3 b3 a4 b4 a5 b5 a6 b6 a7 b7) 0%R = IZR (Z.of_nat (drawn (run draws [ReqA; ReqB; ReqA; ReqB; ReqB; ReqB; ReqA; ReqA]))).
Proof. pairing. Qed.

Lemma tie_pair_wBBABBBAA a0 b0 a1 b1 a2 b2 a3 b3 a4 b4 a5 b5 a6 b6 a7 b7 :
  let draws := fun k => nth k [(a0, b0); (a1, b1); (a2, b2); (a3, b3); (a4, b4); (a5, b5); (a6, b6); (a7, b7)] (a0, b0) in
  firstn 8 (pair_wBBABBBAA (OO:=ROps) a0 b0 a1 b1 a2 b2 a3 b3 a4 b4 a5 b5 a6 b6 a7 b7) = deliveries draws st0 [ReqB; ReqB; ReqA; ReqB; ReqB; ReqB; ReqA; ReqA] /\
  nth 8 (pair_wBBABBBAA (OO:=ROps) a0 b0 a1 b1 a2 b2 a3 b3 a4 b4 a5 b5 a6 b6 a7 b7) 0%R = IZR (Z.of_nat (drawn (run draws [ReqB; ReqB; ReqA; ReqB; ReqB; ReqB; ReqA; ReqA]))).
Proof. pairing. Qed.

Lemma tie_pair_wAABBBBAA a0 b0 a1 b1 a2 b2 a3 b3 a4 b4 a5 b5 a6 b6 a7 b7 :
  let draws := fun k => nth k [(a0, b0); (a1, b1); (a2, b2); (a3, b3); (a4, b4); (a5, b5); (a6, b6); (a7, b7)] (a0, b0) in
  firstn 8 (pair_wAABBBBAA (OO:=ROps) a0 b0 a1 b1 a2 b2 a3 b3 a4 b4 a5 b5 a6 b6 a7 b7) = deliveries draws st0 [ReqA; ReqA; ReqB; ReqB; ReqB; ReqB; ReqA; ReqA] /\
  nth 8 (pair_wAABBBBAA (OO:=ROps) a0 b0 a1 b1 a2 b2 a3 b3 a4 b4 a5 b5 a6 b6 a7 b7) 0%R = IZR (Z.of_nat (drawn (run draws [ReqA; ReqA; ReqB; ReqB; ReqB; ReqB; ReqA; ReqA]))).
Proof. pairing. Qed.

Lemma tie_pair_wBABBBBAA a0 b0 a1 b1 a2 b2 a3 b3 a4 b4 a5 b5 a6 b6 a7 b7 :
  let draws := fun k => nth k [(a0, b0); (a1, b1); (a2, b2); (a3, b3); (a4, b4); (a5, b5); (a6, b6); (a7, b7)] (a0, b0) in
  firstn 8 (pair_wBABBBBAA (OO:=ROps) a0 b0 a1 b1 a2 b2 a3 b3 a4 b4 a5 b5 a6 b6 a7 b7) = deliveries draws st0 [ReqB; ReqA; ReqB; ReqB; ReqB; ReqB; ReqA; ReqA] /\
  nth 8 (pair_wBABBBBAA (OO:=ROps) a0 b0 a1 b1 a2 b2 a3 b3 a4 b4 a5 b5 a6 b6 a7 b7) 0%R = IZR (Z.of_nat (drawn (run draws [ReqB; ReqA; ReqB; ReqB; ReqB; ReqB; ReqA; ReqA]))).
Proof. pairing. Qed.

Lemma tie_pair_wABBBBBAA a0 b0 a1 b1 a2 b2 a3 b3 a4 b4 a5 b5 a6 b6 a7 b7 :
  let draws := fun k => nth k [(a0, b0); (a1, b1); (a2, b2); (a3, b3); (a4, b4); (a5, b5); (a6, b6); (a7, b7)] (a0, b0) in
  firstn 8 (pair_wABBBBBAA (OO:=ROps) a0 b0 a1 b1 a2 b2 a3 b3 a4 b4 a5 b5 a6 b6 a7 b7) = deliveries draws st0 [ReqA; ReqB; ReqB; ReqB; ReqB; ReqB; ReqA; ReqA] /\
  nth 8 (pair_wABBBBBAA (OO:=ROps) a0 b0 a1 b1 a2 b2 a3 b3 a4 b4 a5 b5 a6 b6 a7 b7) 0%R = IZR (Z.of_nat (drawn (run draws [ReqA; ReqB; ReqB; ReqB; ReqB; ReqB; ReqA; ReqA]))).
Proof. pairing. Qed.

Lemma tie_pair_wBBBBBBAA a0 b0 a1 b1 a2 b2 a3 b3 a4 b4 a5 b5 a6 b6 a7 b7 :
  let draws := fun k => nth k [(a0, b0); (a1, b1); (a2, b2); (a3, b3); (a4, b4); (a5, b5); (a6, b6); (a7, b7)] (a0, b0) in
  firstn 8 (pair_wBBBBBBAA (OO:=ROps) a0 b0 a1 b1 a2 b2 a3 b3 a4 b4 a5 b5 a6 b6 a7 b7) = deliveries draws st0 [ReqB; ReqB; ReqB; ReqB; ReqB; ReqB; ReqA; ReqA] /\
  nth 8 (pair_wBBBBBBAA (OO:=ROps) a0 b0 a1 b1 a2 b2 a3 b3 a4 b4 a5 b5 a6 b6 a7 b7) 0%R = IZR (Z.of_nat (drawn (run draws [ReqB; ReqB; ReqB; ReqB; ReqB; ReqB; ReqA; ReqA]))).
Proof. pairing. Qed.

Lemma tie_pair_wAAAAAABA a0 b0 a1 b1 a2 b2 a3 b3 a4 b4 a5 b5 a6 b6 a7 b7 :
  let draws := fun k => nth k [(a0, b0); (a1, b1); (a2, b2); (a3, b3); (a4, b4); (a5, b5); (a6, b6); (a7, b7)] (a0, b0) in
  firstn 8 (pair_wAAAAAABA (OO:=ROps) a0 b0 a1 b1 a2 b2 a3 b3 a4 b4 a5 b5 a6 b6 a7 b7) = deliveries draws st0 [ReqA; ReqA; ReqA; ReqA; ReqA; ReqA; ReqB; ReqA] /\
  nth 8 (pair_wAAAAAABA (OO:=ROps) a0 b0 a1 b1 a2 b2 a3 b3 a4 b4 a5 b5 a6 b6 a7 b7) 0%R = IZR (Z.of_nat (drawn (run draws [ReqA; ReqA; ReqA; ReqA; ReqA; ReqA; ReqB; ReqA]))).
Proof. pairing. Qed.

Lemma tie_pair_wBAAAAABA a0 b0 a1 b1 a2 b2 a3 b3 a4 b4 a5 b5 a6 b6 a7 b7 :
  let draws := fun k => nth k [(a0, b0); (a1, b1); (a2, b2); (a3, b3); (a4, b4); (a5, b5); (a6, b6); (a7, b7)] (a0, b0) in
  firstn 8 (pair_wBAAAAABA (OO:=ROps) a0 b0 a1 b1 a2 b2 a3 b3 a4 b4 a5 b5 a6 b6 a7 b7) = deliveries draws st0 [ReqB; ReqA; ReqA; ReqA; ReqA; ReqA; ReqB; ReqA] /\
  nth 8 (pair_wBAAAAABA (OO:=ROps) a0 b0 a1 b1 a2 b2 a3 b3 a4 b4 a5 b5 a6 b6 a7 b7) 0%R = IZR (Z.of_nat (drawn (run draws [ReqB; ReqA; ReqA; ReqA; ReqA; ReqA; ReqB; ReqA]))).
Proof. pairing. Qed.

Lemma tie_pair_wABAAAABA a0 b0 a1 b1 a2 b2 a3 b3 a4 b4 a5 b5 a6 b6 a7 b7 :
  let draws := fun k => nth k [(a0, b0); (a1, b1); (a2, b2); (a3, b3); (a4, b4); (a5, b5); (a6, b6); (a7, b7)] (a0, b0) in
  firstn 8 (pair_wABAAAABA (OO:=ROps) a0 b0 a1 b1 a2 b2 a3 b3 a4 b4 a5 b5 a6 b6 a7 b7) = deliveries draws st0 [ReqA; ReqB; ReqA; ReqA; ReqA; ReqA; ReqB; ReqA] /\
  nth 8 (pair_wABAAAABA (OO:=ROps) a0 b0 a1 b1 a2 b2 a3 b3 a4 b4 a5 b5 a6 b6 a7 b7) 0%R = IZR (Z.of_nat (drawn (run draws [ReqA; ReqB; ReqA; ReqA; ReqA; ReqA; ReqB; ReqA]))).
Proof. pairing. Qed.

Lemma tie_pair_wBBAAAABA a0 b0 a1 b1 a2 b2 a3 b3 a4 b4 a5 b5 a6 b6 a7 b7 :
  let draws := fun k => nth k [(a0, b0); (a1, b1); (a2, b2); (a3, b3); (a4, b4); (a5, b5); (a6, b6); (a7, b7)] (a0, b0) in
  firstn 8 (pair_wBBAAAABA (OO:=ROps) a0 b0 a1 b1 a2 b2 a3 b3 a4 b4 a5 b5 a6 b6 a7 b7) = deliveries draws st0 [ReqB; ReqB; ReqA; ReqA; ReqA; ReqA; ReqB; ReqA] /\
  nth 8 (pair_wBBAAAABA (OO:=ROps) a0 b0 a1 b1 a2 b2 a3 b3 a4 b4 a5 b5 a6 b6 a7 b7) 0%R = IZR (Z.of_nat (drawn (run draws [ReqB; ReqB; ReqA; ReqA; ReqA; ReqA; ReqB; ReqA]))).
Proof. pairing. Qed.

Lemma tie_pair_wAABAAABA a0 b0 a1 b1 a2 b2 a3 b3 a4 b4 a5 b5 a6 b6 a7 b7 :
  let draws := fun k => nth k [(a0, b0); (a1, b1); (a2, b2); (a3, b3); (a4, b4); (a5, b5); (a6, b6); (a7, b7)] (a0, b0) in
  firstn 8 (pair_wAABAAABA (OO:=ROps) a0 b0 a1 b1 a2 b2 a3 b3 a4 b4 a5 b5 a6 b6 a7 b7) = deliveries draws st0 [ReqA; ReqA; ReqB; ReqA; ReqA; ReqA; ReqB; ReqA] /\
  nth 8 (pair_wAABAAABA (OO:=ROps) a0 b0 a1 b1 a2 b2 a3 b3 a4 b4 a5 b5 a6 b6 a7 b7) 0%R = IZR (Z.of_nat (drawn (run draws [ReqA; ReqA; ReqB; ReqA; ReqA; ReqA; ReqB; ReqA]))).
Proof. pairing. Qed.

Lemma tie_pair_wBABAAABA a0 b0 a1 b1 a2 b2 a3 b3 a4 b4 a5 b5 a6 b6 a7 b7 :
  let draws := fun k => nth k [(a0, b0); (a1, b1); (a2, b2); (a3, b3); (a4, b4); (a5, b5); (a6, b6); (a7, b7)] (a0, b0) in
  firstn 8 (pair_wBABAAABA (OO:=ROps) a0 b0 a1 b1 a2 b2 a3 b3 a4 b4 a5 b5 a6 b6 a7 b7) = deliveries draws st0 [ReqB; ReqA; ReqB; ReqA; ReqA; ReqA; ReqB; ReqA] /\
  nth 8 (pair_wBABAAABA (OO:=ROps) a0 b0 a1 b1 a2 b2 a3 b3 a4 b4 a5 b5 a6 b6 a7 b7) 0%R = IZR (Z.of_nat (drawn (run draws [ReqB; ReqA; ReqB; ReqA; ReqA; ReqA; ReqB; ReqA]))).
Proof. pairing. Qed.

Lemma tie_pair_wABBAAABA a0 b0 a1 b1 a2 b2 a3 b3 a4 b4 a5 b5 a6 b6 a7 b7 :
  let draws := fun k => nth k [(a0, b0); (a1, b1); (a2, b2); (a3, b3); (a4, b4); (a5, b5); (a6, b6); (a7, b7)] (a0, b0) in
  firstn 8 (pair_wABBAAABA (OO:=ROps) a0 b0 a1 b1 a2 b2 a3 b3 a4 b4 a5 b5 a6 b6 a7 b7) = deliveries draws st0 [ReqA; ReqB; ReqB; ReqA; ReqA; ReqA; ReqB; ReqA] /\
  nth 8 (pair_wABBAAABA (OO:=ROps) a0 b0 a1 b1 a2 b2 a3 b3 a4 b4 a5 b5 a6 b6 a7 b7) 0%R = IZR (Z.of_nat (drawn (run draws [ReqA; ReqB; ReqB; ReqA; ReqA; ReqA; ReqB; ReqA]))).
Proof. pairing. Qed.

Lemma tie_pair_wBBBAAABA a0 b0 a1 b1 a2 b2 a3 b3 a4 b4 a5 b5 a6 b6 a7 b7 :
  let draws := fun k => nth k [(a0, b0); (a1, b1); (a2, b2); (a3, b3); (a4, b4); (a5, b5); (a6, b6); (a7, b7)] (a0, b0) in
  firstn 8 (pair_wBBBAAABA (OO:=ROps) a0 b0 a1 b1 a2 b2 a3 b3 a4 b4 a5 b5 a6 b6 a7 b7) = deliveries draws st0 [ReqB; ReqB; ReqB; ReqA; ReqA; ReqA; ReqB; ReqA] /\
  nth 8 (pair_wBBBAAABA (OO:=ROps) a0 b0 a1 b1 a2 b2 a3 b3 a4 b4 a5 b5 a6 b6 a7 b7) 0%R = IZR (Z.of_nat (drawn (run draws [ReqB; ReqB; ReqB; ReqA; ReqA; ReqA; ReqB; ReqA]))).
Proof. pairing. Qed.

Lemma tie_pair_wAAABAABA a0 b0 a1 b1 a2 b2 a3 b3 a4 b4 a5 b5 a6 b6 a7 b7 :
  let draws := fun k => nth k [(a0, b0); (a1, b1); (a2, b2); (a3, b3); (a4, b4); (a5, b5); (a6, b6); (a7, b7)] (a0, b0) in
  firstn 8 (pair_wAAABAABA (OO:=ROps) a0 b0 a1 b1 a2 b2 a3 b3 a4 b4 a5 b5 a6 b6 a7 b7) = deliveries draws st0 [ReqA; ReqA; ReqA; ReqB; ReqA; ReqA; ReqB; ReqA] /\
  nth 8 (pair_wAAABAABA (OO:=ROps) a0 b0 a1 b1 a2 b2 a3 b3 a4 b4 a5 b5 a6 b6 a7 b7) 0%R = IZR (Z.of_nat (drawn (run draws [ReqA; ReqA; ReqA; ReqB; ReqA; ReqA; ReqB; ReqA]))).
Proof. pairing. Qed.

Lemma tie_pair_wBAABAABA a0 b0 a1 b1 a2 b2 a3 b3 a4 b4 a5 b5 a6 b6 a7 b7 :
  let draws := fun k => nth k [(a0, b0); (a1, b1); (a2, b2); (a3, b3); (a4, b4); (a5, b5); (a6, b6); (a7, b7)] (a0, b0) in
  firstn 8 (pair_wBAABAABA (OO:=ROps) a0 b0 a1 b1 a2 b2 a3 b3 a4 b4 a5 b5 a6 b6 a7 b7) = deliveries draws st0 [ReqB; ReqA; ReqA; ReqB; ReqA; ReqA; ReqB; ReqA] /\
  nth 8 (pair_wBAABAABA (OO:=ROps) a0 b0 a1 b1 a2 b2 a3 b3 a4 b4 a5 b5 a6 b6 a7 b7) 0%R = IZR (Z.of_nat (drawn (run draws [ReqB; ReqA; ReqA; ReqB; ReqA; ReqA; ReqB; ReqA]))).
Proof. pairing. Qed.

Lemma tie_pair_wABABAABA a0 b0 a1 b1 a2 b2 a3 b3 a4 b4 a5 b5 a6 b6 a7 b7 :
  let draws := fun k => nth k [(a0, b0); (a1, b1); (a2, b2); (a3, b3); (a4, b4); (a5, b5); (a6, b6); (a7, b7)] (a0, b0) in
  firstn 8 (pair_wABABAABA (OO:=ROps) a0 b0 a1 b1 a2 b2 a3 b3 a4 b4 a5 b5 a6 b6 a7 b7) = deliveries draws st0 [ReqA; ReqB; ReqA; ReqB; ReqA; ReqA; ReqB; ReqA] /\
  nth 8 (pair_wABABAABA (OO:=ROps) a0 b0 a1 b1 a2 b2 a3 b3 a4 b4 a5 b5 a6 b6 a7 b7) 0%R = IZR (Z.of_nat (drawn (run draws [ReqA; ReqB; ReqA; ReqB; ReqA; ReqA; ReqB; ReqA]))).
Proof. pairing. Qed.

Lemma tie_pair_wBBABAABA a0 b0 a1 b1 a2 b2 a3 b3 a4 b4 a5 b5 a6 b6 a7 b7 :
  let draws := fun k => nth k [(a0, b0); (a1, b1); (a2, b2); (a3, b3); (a4, b4); (a5, b5); (a6, b6); (a7, b7)] (a0, b0) in
  firstn 8 (pair_wBBABAABA (OO:=ROps) a0 b0 a1 b1 a2 b2 a3 b3 a4 b4 a5 b5 a6 b6 a7 b7) = deliveries draws st0 [ReqB; ReqB; ReqA; ReqB; ReqA; ReqA; ReqB; ReqA] /\
  nth 8 (pair_wBBABAABA (OO:=ROps) a0 b0 a1 b1 a2 b2 a3 b3 a4 b4 a5 b5 a6 b6 a7 b7) 0%R = IZR (Z.of_nat (drawn (run draws [ReqB; ReqB; ReqA; ReqB; ReqA; ReqA; ReqB; ReqA]))).
Proof. pairing. Qed.

Lemma tie_pair_wAABBAABA a0 b0 a1 b1 a2 b2 a3 b3 a4 b4 a5 b5 a6 b6 a7 b7 :
  let draws := fun k => nth k [(a0, b0); (a1, b1); (a2, b2); (a3, b3); (a4, b4); (a5, b5); (a6, b6); (a7, b7)] (a0, b0) in
  firstn 8 (pair_wAABBAABA (OO:=ROps) a0 b0 a1 b1 a2 b2 a3 b3 a4 b4 a5 b5 a6 b6 a7 b7) = deliveries draws st0 [ReqA; ReqA; ReqB; ReqB; ReqA; ReqA; ReqB; ReqA] /\
  nth 8 (pair_wAABBAABA (OO:=ROps) a0 b0 a1 b1 a2 b2 a3 b3 a4 b4 a5 b5 a6 b6 a7 b7) 0%R = IZR (Z.of_nat (drawn (run draws [ReqA; ReqA; ReqB; ReqB; ReqA; ReqA; ReqB; ReqA]))).
Proof. pairing. Qed.

Lemma tie_pair_wBABBAABA a0 b0 a1 b1 a2 b2 a3 b3 a4 b4 a5 b5 a6 b6 a7 b7 :
  let draws := fun k => nth k [(a0, b0); (a1, b1); (a2, b2); (a3, b3); (a4, b4); (a5, b5); (a6, b6); (a7, b7)] (a0, b0) in
  firstn 8 (pair_wBABBAABA (OO:=ROps) a0 b0 a1 b1 a2 b2 a3 b3 a4 b4 a5 b5 a6 b6 a7 b7) = deliveries draws st0 [ReqB; ReqA; ReqB; ReqB; ReqA; ReqA; ReqB; ReqA] /\
  nth 8 (pair_wBABBAABA (OO:=ROps) a0 b0 a1 b1 a2 b2 a3 b3 a4 b4 a5 b5 a6 b6 a7 b7) 0%R = IZR (Z.of_nat (drawn (run draws [ReqB; ReqA; ReqB; ReqB; ReqA; ReqA; ReqB; ReqA]))).
Proof. pairing. Qed.

Lemma tie_pair_wABBBAABA a0 b0 a1 b1 a2 b2 a3 b3 a4 b4 a5 b5 a6 b6 a7 b7 :
  let draws := fun k => nth k [(a0, b0); (a1, b1); (a2, b2); (a3, b3); (a4, b4); (a5, b5); (a6, b6); (a7, b7)] (a0, b0) in
  firstn 8 (pair_wABBBAABA (OO:=ROps) a0 b0 a1 b1 a2 b2 a3 b3 a4 b4 a5 b5 a6 b6 a7 b7) = deliveries draws st0 [ReqA; ReqB; ReqB; ReqB; ReqA; ReqA; ReqB; ReqA] /\
  nth 8 (pair_wABBBAABA (OO:=ROps) a0 b0 a1 b1 a2 b2 a3 b3 a4 b4 a5 b5 a6 b6 a7 b7) 0%R = IZR (Z.of_nat (drawn (run draws [ReqA; ReqB; ReqB; ReqB; ReqA; ReqA; ReqB; ReqA]))).
Proof. pairing. Qed.

Lemma tie_pair_wBBBBAABA a0 b0 a1 b1 a2 b2 a3 b3 a4 b4 a5 b5 a6 b6 a7 b7 :
  let draws := fun k => nth k [(a0, b0); (a1, b1); (a2, b2); (a3, b3); (a4, b4); (a5, b5); (a6, b6); (a7, b7)] (a0, b0) in
  firstn 8 (pair_wBBBBAABA (OO:=ROps) a0 b0 a1 b1 a2 b2 a3 b3 a4 b4 a5 b5 a6 b6 a7 b7) = deliveries draws st0 [ReqB; ReqB; ReqB; ReqB; ReqA; ReqA; ReqB; ReqA] /\
  nth 8 (pair_wBBBBAABA (OO:=ROps) a0 b0 a1 b1 a2 b2 a3 b3 a4 b4 a5 b5 a6 b6 a7 b7) 0%R = IZR (Z.of_nat (drawn (run draws [ReqB; ReqB; ReqB; ReqB; ReqA; ReqA; ReqB; ReqA]))).
Proof. pairing. Qed.

Lemma tie_pair_wAAAABABA a0 b0 a1 b1 a2 b2 a3 b3 a4 b4 a5 b5 a6 b6 a7 b7 :
  let draws := fun k => nth k [(a0, b0); (a1, b1); (a2, b2); (a3, b3); (a4, b4); (a5, b5); (a6, b6); (a7, b7)] (a0, b0) in
  firstn 8 (pair_wAAAABABA (OO:=ROps) a0 b0 a1 b1 a2 b2 a3 b3 a4 b4 a5 b5 a6 b6 a7 b7) = deliveries draws st0 [ReqA; ReqA; ReqA; ReqA; ReqB; ReqA; ReqB; ReqA] /\
  nth 8 (pair_wAAAABABA (OO:=ROps) a0 b0 a1 b1 a2 b2 a3 b3 a4 b4 a5 b5 a6 b6 a7 b7) 0%R = IZR (Z.of_nat (drawn (run draws [ReqA; ReqA; ReqA; ReqA; ReqB; ReqA; ReqB; ReqA]))).
Proof. pairing. Qed.

Lemma tie_pair_wBAAABABA a0 b0 a1 b1 a2 b2 a3 b3 a4 b4 a5 b5 a6 b6 a7 b7 :
  let draws := fun k => nth k [(a0, b0); (a1, b1); (a2, b2); (a3, b3); (a4, b4); (a5, b5); (a6, b6); (a7, b7)] (a0, b0) in
  firstn 8 (pair_wBAAABABA (OO:=ROps) a0 b0 a1 b1 a2 b2 a3 b3 a4 b4 a5 b5 a6 b6 a7 b7) = deliveries draws st0 [ReqB; ReqA; ReqA; ReqA; ReqB; ReqA; ReqB; ReqA] /\
  nth 8 (pair_wBAAABABA (OO:=ROps) a0 b0 a1 b1 a2 b2 a3 b3 a4 b4 a5 b5 a6 b6 a7 b7) 0%R = IZR (Z.of_nat (drawn (run draws [ReqB; ReqA; ReqA; ReqA; ReqB; ReqA; ReqB; ReqA]))).
Proof. pairing. Qed.

Lemma tie_pair_wABAABABA a0 b0 a1 b1 a2 b2 a3 b3 a4 b4 a5 b5 a6 b6 a7 b7 :
  let draws := fun k => nth k [(a0, b0); (a1, b1); (a2, b2); (a3, b3); (a4, b4); (a5, b5); (a6, b6); (a7, b7)] (a0, b0) in
  firstn 8 (pair_wABAABABA (OO:=ROps) a0 b0 a1 b1 a2 b2 a3 b3 a4 b4 a5 b5 a6 b6 a7 b7) = deliveries draws st0 [ReqA; ReqB; ReqA; ReqA; ReqB; ReqA; ReqB; ReqA] /\
  nth 8 (pair_wABAABABA (OO:=ROps) a0 b0 a1 b1 a2 b2 a3 b3 a4 b4 a5 b5 a6 b6 a7 b7) 0%R = IZR (Z.of_nat (drawn (run draws [ReqA; ReqB; ReqA; ReqA; ReqB; ReqA; ReqB; ReqA]))).
Proof. pairing. Qed.

Lemma tie_pair_wBBAABABA a0 b0 a1 b1 a2 b2 a3 b3 a4 b4 a5 b5 a6 b6 a7 b7 :
  let draws := fun k => nth k [(a0, b0); (a1, b1); (a2, b2); (a3, b3); (a4, b4); (a5, b5); (a6, b6); (a7, b7)] (a0, b0) in
  firstn 8 (pair_wBBAABABA (OO:=ROps) a0 b0 a1 b1 a2 b2 a3 b3 a4 b4 a5 b5 a6 b6 a7 b7) = deliveries draws st0 [ReqB; ReqB; ReqA; ReqA; ReqB; ReqA; ReqB; ReqA] /\
  nth 8 (pair_wBBAABABA (OO:=ROps) a0 b0 a1 b1 a2 b2 a3 b3 a4 b4 a5 b5 a6 b6 a7 b7) 0%R = IZR (Z.of_nat (drawn (run draws [ReqB; ReqB; ReqA; ReqA; ReqB; ReqA; ReqB; ReqA]))).
Proof. pairing. Qed.

Lemma tie_pair_wAABABABA a0 b0 a1 b1 a2 b2 a3 b3 a4 b4 a5 b5 a6 b6 a7 b7 :
  let draws := fun k => nth k [(a0, b0); (a1, b1); (a2, b2); (a3, b3); (a4, b4); (a5, b5); (a6, b6); (a7, b7)] (a0, b0) in
  firstn 8 (pair_wAABABABA (OO:=ROps) a0 b0 a1 b1 a2 b2 a3 b3 a4 b4 a5 b5 a6 b6 a7 b7) = deliveries draws st0 [ReqA; ReqA; ReqB; ReqA; ReqB; ReqA; ReqB; ReqA] /\
  nth 8 (pair_wAABABABA (OO:=ROps) a0 b0 a1 b1 a2 b2 a3 b3 a4 b4 a5 b5 a6 b6 a7 b7) 0%R = IZR (Z.of_nat (drawn (run draws [ReqA; ReqA; ReqB; ReqA; ReqB; ReqA; ReqB; ReqA]))).
Proof. pairing. Qed.

Lemma tie_pair_wBABABABA a0 b0 a1 b1 a2 b2 a3 b3 a4 b4 a5 b5 a6 b6 a7 b7 :
  let draws := fun k => nth k [(a0, b0); (a1, b1); (a2, b2); (a3, b3); (a4, b4); (a5, b5); (a6, b6); (a7, b7)] (a0, b0) in
  firstn 8 (pair_wBABABABA (OO:=ROps) a0 b0 a1 b1 a2 b2 a3 b3 a4 b4 a5 b5 a6 b6 a7 b7) = deliveries draws st0 [ReqB; ReqA; ReqB; ReqA; ReqB; ReqA; ReqB; ReqA] /\
  nth 8 (pair_wBABABABA (OO:=ROps) a0 b0 a1 b1 a2 b2 a3 b3 a4 b4 a5 b5 a6 b6 a7 b7) 0%R = IZR (Z.of_nat (drawn (run draws [ReqB; ReqA; ReqB; ReqA; ReqB; ReqA; ReqB; ReqA]))).
Proof. pairing. Qed.

Lemma tie_pair_wABBABABA a0 b0 a1 b1 a2 b2 a3 b3 a4 b4 a5 b5 a6 b6 a7 b7 :
  let draws := fun k => nth k [(a0, b0); (a1, b1); (a2, b2); (a3, b3); (a4, b4); (a5, b5); (a6, b6); (a7, b7)] (a0, b0) in
  firstn 8 (pair_wABBABABA (OO:=ROps) a0 b0 a1 b1 a2 b2 a3 b3 a4 b4 a5 b5 a6 b6 a7 b7) = deliveries draws st0 [ReqA; ReqB; ReqB; ReqA; ReqB; ReqA; ReqB; ReqA] /\
  nth 8 (pair_wABBABABA (OO:=ROps) a0 b0 a1 b1 a2 b2 a3 b3 a4 b4 a5 b5 a6 b6 a7 b7) 0%R = IZR (Z.of_nat (drawn (run draws [ReqA; ReqB; ReqB; ReqA; ReqB; ReqA; ReqB; ReqA]))).
Proof. pairing. Qed.

Lemma tie_pair_wBBBABABA a0 b0 a1 b1 a2 b2 a3 b3 a4 b4 a5 b5 a6 b6 a7 b7 :
  let draws := fun k => nth k [(a0, b0); (a1, b1); (a2, b2); (a3, b3); (a4, b4); (a5, b5); (a6, b6); (a7, b7)] (a0, b0) in
  firstn 8 (pair_wBBBABABA (OO:=ROps) a0 b0 a1 b1 a2 b2 a3 b3 a4 b4 a5 b5 a6 b6 a7 b7) = deliveries draws st0 [ReqB; ReqB; ReqB; ReqA; ReqB; ReqA; ReqB; ReqA] /\
  nth 8 (pair_wBBBABABA (OO:=ROps) a0 b0 a1 b1 a2 b2 a3 b3 a4 b4 a5 b5 a6 b6 a7 b7) 0%R = IZR (Z.of_nat (drawn (run draws [ReqB; ReqB; ReqB; ReqA; ReqB; ReqA; ReqB; ReqA]))).
Proof. pairing. Qed.

Lemma tie_pair_wAAABBABA a0 b0 a1 b1 a2 b2 a3 b3 a4 b4 a5 b5 a6 b6 a7 b7 :
  let draws := fun k => nth k [(a0, b0); (a1, b1); (a2, b2); (a3, b3); (a4, b4); (a5, b5); (a6, b6); (a7, b7)] (a0, b0) in
  firstn 8 (pair_wAAABBABA (OO:=ROps) a0 b0 a1 b1 a2 b2 a3 b3 a4 b4 a5 b5 a6 b6 a7 b7) = deliveries draws st0 [ReqA; ReqA; ReqA; ReqB; ReqB; ReqA; ReqB; ReqA] /\
  nth 8 (pair_wAAABBABA (OO:=ROps) a0 b0 a1 b1 a2 b2 a3 b3 a4 b4 a5 b5 a6 b6 a7 b7) 0%R = IZR (Z.of_nat (drawn (run draws [ReqA; ReqA; ReqA; ReqB; ReqB; ReqA; ReqB; ReqA]))).
Proof. pairing. Qed.

Lemma tie_pair_wBAABBABA a0 b0 a1 b1 a2 b2 a3 b3 a4 b4 a5 b5 a6 b6 a7 b7 :
  let draws := fun k => nth k [(a0, b0); (a1, b1); (a2, b2); (a3, b3); (a4, b4); (a5, b5); (a6, b6); (a7, b7)] (a0, b0) in
  firstn 8 (pair_wBAABBABA (OO:=ROps) a0 b0 a1 b1 a2 b2 a3 b3 a4 b4 a5 b5 a6 b6 a7 b7) = deliveries draws st0 [ReqB; ReqA; ReqA; ReqB; ReqB; ReqA; ReqB; ReqA] /\
  nth 8 (pair_wBAABBABA (OO:=ROps) a0 b0 a1 b1 a2 b2 a3 b3 a4 b4 a5 b5 a6 b6 a7 b7) 0%R = IZR (Z.of_nat (drawn (run draws [ReqB; ReqA; ReqA; ReqB; ReqB; ReqA; ReqB; ReqA]))).
Proof. pairing. Qed.

Lemma tie_pair_wABABBABA a0 b0 a1 b1 a2 b2 a3 b3 a4 b4 a5 b5 a6 b6 a7 b7 :
  let draws := fun k => nth k [(a0, b0); (a1, b1); (a2, b2); (a3, b3); (a4, b4); (a5, b5); (a6, b6); (a7, b7)] (a0, b0) in
  firstn 8 (pair_wABABBABA (OO:=ROps) a0 b0 a1 b1 a2 b2 a3 b3 a4 b4 a5 b5 a6 b6 a7 b7) = deliveries draws st0 [ReqA; ReqB; ReqA; ReqB; ReqB; ReqA; ReqB; ReqA] /\
  nth 8 (pair_wABABBABA (OO:=ROps) a0 b0 a1 b1 a2 b2 a3 b3 a4 b4 a5 b5 a6 b6 a7 b7) 0%R = IZR (Z.of_nat (drawn (run draws [ReqA; ReqB; ReqA; ReqB; ReqB; ReqA; ReqB; ReqA]))).
Proof. pairing. Qed.

Lemma tie_pair_wBBABBABA a0 b0 a1 b1 a2 b2 a3 b3 a4 b4 a5 b5 a6 b6 a7 b7 :
  let draws := fun k => nth k [(a0, b0); (a1, b1); (a2, b2); (a3, b3); (a4, b4); (a5, b5); (a6, b6); (a7, b7)] (a0, b0) in
  firstn 8 (pair_wBBABBABA (OO:=ROps) a0 b0 a1 b1 a2 b2 a3 b3 a4 b4 a5 b5 a6 b6 a7 b7) = deliveries draws st0 [ReqB; ReqB; ReqA; ReqB; ReqB; ReqA; ReqB; ReqA] /\
  nth 8 (pair_wBBABBABA (OO:=ROps) a0 b0 a1 b1 a2 b2 a3 b3 a4 b4 a5 b5 a6 b6 a7 b7) 0%R = IZR (Z.of_nat (drawn (run draws [ReqB; ReqB; ReqA; ReqB; ReqB; ReqA; ReqB; ReqA]))).
Proof. pairing. Qed.

Lemma tie_pair_wAABBBABA a0 b0 a1 b1 a2 b2 a3 b3 a4 b4 a5 b5 a6 b6 a7 b7 :
  let draws := fun k => nth k [(a0, b0); (a1, b1); (a2, b2); (a3, b3); (a4, b4); (a5, b5); (a6, b6); (a7, b7)] (a0, b0) in
  firstn 8 (pair_wAABBBABA (OO:=ROps) a0 b0 a1 b1 a2 b2 a3 b3 a4 b4 a5 b5 a6 b6 a7 b7) = deliveries draws st0 [ReqA; ReqA; ReqB; ReqB; ReqB; ReqA; ReqB; ReqA] /\
  nth 8 (pair_wAABBBABA (OO:=ROps) a0 b0 a1 b1 a2 b2 a3 b3 a4 b4 a5 b5 a6 b6 a7 b7) 0%R = IZR (Z.of_nat (drawn (run draws [ReqA; ReqA; ReqB; ReqB; ReqB; ReqA; ReqB; ReqA]))).
Proof. pairing. Qed.

Lemma tie_pair_wBABBBABA a0 b0 a1 b1 a2 b2 a3 b3 a4 b4 a5 b5 a6 b6 a7 b7 :
  let draws := fun k => nth k [(a0, b0); (a1, b1); (a2, b2); (a3, b3); (a4, b4); (a5, b5); (a6, b6); (a7, b7)] (a0, b0) in
  firstn 8 (pair_wBABBBABA (OO:=ROps) a0 b0 a1 b1 a2 b2 a3 b3 a4 b4 a5 b5 a6 b6 a7 b7) = deliveries draws st0 [ReqB; ReqA; ReqB; ReqB; ReqB; ReqA; ReqB; ReqA] /\
  nth 8 (pair_wBABBBABA (OO:=ROps) a0 b0 a1 b1 a2 b2 a3 b3 a4 b4 a5 b5 a6 b6 a7 b7) 0%R = IZR (Z.of_nat (drawn (run draws [ReqB; ReqA; ReqB; ReqB; ReqB; ReqA; ReqB; ReqA]))).
Proof. pairing. Qed.

Lemma tie_pair_wABBBBABA a0 b0 a1 b1 a2 b2 a3 b3 a4 b4 a5 b5 a6 b6 a7 b7 :
  let draws := fun k => nth k [(a0, b0); (a1, b1); (a2, b2); (a3, b3); (a4, b4); (a5, b5); (a6, b6); (a7, b7)] (a0, b0) in
  firstn 8 (pair_wABBBBABA (OO:=ROps) a0 b0 a1 b1 a2 b2 a3 b3 a4 b4 a5 b5 a6 b6 a7 b7) = deliveries draws st0 [ReqA; ReqB; ReqB; ReqB; ReqB; ReqA; ReqB; ReqA] /\
  nth 8 (pair_wABBBBABA (OO:=ROps) a0 b0 a1 b1 a2 b2 a3 b3 a4 b4 a5 b5 a6 b6 a7 b7) 0%R = IZR (Z.of_nat (drawn (run draws [ReqA; ReqB; ReqB; ReqB; ReqB; ReqA; ReqB; ReqA]))).
Proof. pairing. Qed.

Lemma tie_pair_wBBBBBABA a0 b0 a1 b1 a2 b2 a3 b3 a4 b4 a5 b5 a6 b6 a7 b7 :
  let draws := fun k => nth k [(a0, b0); (a1, b1); (a2, b2); (a3, b3); (a4, b4); (a5, b5); (a6, b6); (a7, b7)] (a0, b0) in
  firstn 8 (pair_wBBBBBABA (OO:=ROps) a0 b0 a1 b1 a2 b2 a3 b3 a4 b4 a5 b5 a6 b6 a7 b7) = deliveries draws st0 [ReqB; ReqB; ReqB; ReqB; ReqB; ReqA; ReqB; ReqA] /\
  nth 8 (pair_wBBBBBABA (OO:=ROps) a0 b0 a1 b1 a2 b2 a3 b3 a4 b4 a5 b5 a6 b6 a7 b7) 0%R = IZR (Z.of_nat (drawn (run draws [ReqB; ReqB; ReqB; ReqB; ReqB; ReqA; ReqB; ReqA]))).
Proof. pairing. Qed.

Lemma tie_pair_wAAAAABBA a0 b0 a1 b1 a2 b2 a3 b3 a4 b4 a5 b5 a6 b6 a7 b7 :
  let draws := fun k => nth k [(a0, b0); (a1, b1); (a2, b2); (a3, b3); (a4, b4); (a5, b5); (a6, b6); (a7, b7)] (a0, b0) in
  firstn 8 (pair_wAAAAABBA (OO:=ROps) a0 b0 a1 b1 a2 b2 a3 b3 a4 b4 a5 b5 a6 b6 a7 b7) = deliveries draws st0 [ReqA; ReqA; ReqA; ReqA; ReqA; ReqB; ReqB; ReqA] /\
  nth 8 (pair_wAAAAABBA (OO:=ROps) a0 b0 a1 b1 a2 b2 a3 b3 a4 b4 a5 b5 a6 b6 a7 b7) 0%R = IZR (Z.of_nat (drawn (run draws [ReqA; ReqA; ReqA; ReqA; ReqA; ReqB; ReqB; ReqA]))).
Proof. pairing. Qed.

Lemma tie_pair_wBAAAABBA a0 b0 a1 b1 a2 b2 a3 b3 a4 b4 a5 b5 a6 b6 a7 b7 :
  let draws := fun k => nth k [(a0, b0); (a1, b1); (a2, b2); (a3, b3); (a4, b4); (a5, b5); (a6, b6); (a7, b7)] (a0, b0) in
  firstn 8 (pair_wBAAAABBA (OO:=ROps) a0 b0 a1 b1 a2 b2 a3 b3 a4 b4 a5 b5 a6 b6 a7 b7) = deliveries draws st0 [ReqB; ReqA; ReqA; ReqA; ReqA; ReqB; ReqB; ReqA] /\
  nth 8 (pair_wBAAAABBA (OO:=ROps) a0 b0 a1 b1 a2 b2 a3 b3 a4 b4 a5 b5 a6 b6 a7 b7) 0%R = IZR (Z.of_nat (drawn (run draws [ReqB; ReqA; ReqA; ReqA; ReqA; ReqB; ReqB; ReqA]))).
Proof. pairing. Qed.

Lemma tie_pair_wABAAABBA a0 b0 a1 b1 a2 b2 a3 b3 a4 b4 a5 b5 a6 b6 a7 b7 :
  let draws := fun k => nth k [(a0, b0); (a1, b1); (a2, b2); (a3, b3); (a4, b4); (a5, b5); (a6, b6); (a7, b7)] (a0, b0) in
  firstn 8 (pair_wABAAABBA (OO:=ROps) a0 b0 a1 b1 a2 b2 a3 b3 a4 b4 a5 b5 a6 b6 a7 b7) = deliveries draws st0 [ReqA; ReqB; ReqA; ReqA; ReqA; ReqB; ReqB; ReqA] /\
  nth 8 (pair_wABAAABBA (OO:=ROps) a0 b0 a1 b1 a2 b2 a3 b3 a4 b4 a5 b5 a6 b6 a7 b7) 0%R = IZR (Z.of_nat (drawn (run draws [ReqA; ReqB; ReqA; ReqA; ReqA; ReqB; ReqB; ReqA]))).
Proof. pairing. Qed.

Lemma tie_pair_wBBAAABBA a0 b0 a1 b1 a2 b2 a3 b3 a4 b4 a5 b5 a6 b6 a7 b7 :
  let draws := fun k => nth k [(a0, b0); (a1, b1); (a2, b2); (a3, b3); (a4, b4); (a5, b5); (a6, b6); (a7, b7)] (a0, b0) in
  firstn 8 (pair_wBBAAABBA (OO:=ROps) a0 b0 a1 b1 a2 b2 a3 b3 a4 b4 a5 b5 a6 b6 a7 b7) = deliveries draws st0 [ReqB; ReqB; ReqA; ReqA; ReqA; ReqB; ReqB; ReqA] /\
  nth 8 (pair_wBBAAABBA (OO:=ROps) a0 b0 a1 b1 a2 b2 a3 b3 a4 b4 a5 b5 a6 b6 a7 b7) 0%R = IZR (Z.of_nat (drawn (run draws [ReqB; ReqB; ReqA; ReqA; ReqA; ReqB; ReqB; ReqA]))).
Proof. pairing. Qed.

Lemma tie_pair_wAABAABBA a0 b0 a1 b1 a2 b2 a3 b3 a4 b4 a5 b5 a6 b6 a7 b7 :
  let draws := fun k => nth k [(a0, b0); (a1, b1); (a2, b2); (a3, b3); (a4, b4); (a5, b5); (a6, b6); (a7, b7)] (a0, b0) in
  firstn 8 (pair_wAABAABBA (OO:=ROps) a0 b0 a1 b1 a2 b2 a3 b3 a4 b4 a5 b5 a6 b6 a7 b7) = deliveries draws st0 [ReqA; ReqA; ReqB; ReqA; ReqA; ReqB; ReqB; ReqA] /\
  nth 8 (pair_wAABAABBA (OO:=ROps) a0 b0 a1 b1 a2 b2 a3 b3 a4 b4 a5 b5 a6 b6 a7 b7) 0%R = IZR (Z.of_nat (drawn (run draws [ReqA; ReqA; ReqB; ReqA; ReqA; ReqB; ReqB; ReqA]))).
Proof. pairing. Qed.

Lemma tie_pair_wBABAABBA a0 b0 a1 b1 a2 b2 a3 b3 a4 b4 a5 b5 a6 b6 a7 b7 :
  let draws := fun k => nth k [(a0, b0); (a1, b1); (a2, b2); (a3, b3); (a4, b4); (a5, b5); (a6, b6); (a7, b7)] (a0, b0) in
  firstn 8 (pair_wBABAABBA (OO:=ROps) a0 b0 a1 b1 a2 b2 a3 b3 a4 b4 a5 b5 a6 b6 a7 b7) = deliveries draws st0 [ReqB; ReqA; ReqB; ReqA; ReqA; ReqB; ReqB; ReqA] /\
  nth 8 (pair_wBABAABBA (OO:=ROps) a0 b0 a1 b1 a2 b2 a3 b3 a4 b4 a5 b5 a6 b6 a7 b7) 0%R = IZR (Z.of_nat (drawn (run draws [ReqB; ReqA; ReqB; ReqA; ReqA; ReqB; ReqB; ReqA]))).
Proof. pairing. Qed.

Lemma tie_pair_wABBAABBA a0 b0 a1 b1 a2 b2 a3 b3 a4 b4 a5 b5 a6 b6 a7 b7 :
  let draws := fun k => nth k [(a0, b0); (a1, b1); (a2, b2); (a3, b3); (a4, b4); (a5, b5); (a6, b6); (a7, b7)] (a0, b0) in
  firstn 8 (pair_wABBAABBA (OO:=ROps) a0 b0 a1 b1 a2 b2 a3 b3 a4 b4 a5 b5 a6 b6 a7 b7) = deliveries draws st0 [ReqA; ReqB; ReqB; ReqA; ReqA; ReqB; ReqB; ReqA] /\
  nth 8 (pair_wABBAABBA (OO:=ROps) a0 b0 a1 b1 a2 b2 a3 b3 a4 b4 a5 b5 a6 b6 a7 b7) 0%R = IZR (Z.of_nat (drawn (run draws [ReqA; ReqB; ReqB; ReqA; ReqA; ReqB; ReqB; ReqA]))).
Proof. pairing. Qed.

Lemma tie_pair_wBBBAABBA a0 b0 a1 b1 a2 b2 a3 b3 a4 b4 a5 b5 a6 b6 a7 b7 :
  let draws := fun k => nth k [(a0, b0); (a1, b1); (a2, b2); (a3, b3); (a4, b4); (a5, b5); (a6, b6); (a7, b7)] (a0, b0) in
  firstn 8 (pair_wBBBAABBA (OO:=ROps) a0 b0 a1 b1 a2 b2 a3 b3 a4 b4 a5 b5 a6 b6 a7 b7) = deliveries draws st0 [ReqB; ReqB; ReqB; ReqA; ReqA; ReqB; ReqB; ReqA] /\
  nth 8 (pair_wBBBAABBA (OO:=ROps) a0 b0 a1 b1 a2 b2 a3 b3 a4 b4 a5 b5 a6 b6 a7 b7) 0%R = IZR (Z.of_nat (drawn (run draws [ReqB; ReqB; ReqB; ReqA; ReqA; ReqB; ReqB; ReqA]))).
Proof. pairing. Qed.

Lemma tie_pair_wAAABABBA a0 b0 a1 b1 a2 b2 a3 b3 a4 b4 a5 b5 a6 b6 a7 b7 :
  let draws := fun k => nth k [(a0, b0); (a1, b1); (a2, b2); (a3, b3); (a4, b4); (a5, b5); (a6, b6); (a7, b7)] (a0, b0) in
  firstn 8 (pair_wAAABABBA (OO:=ROps) a0 b0 a1 b1 a2 b2 a3 b3 a4 b4 a5 b5 a6 b6 a7 b7) = deliveries draws st0 [ReqA; ReqA; ReqA; ReqB; ReqA; ReqB; ReqB; ReqA] /\
  nth 8 (pair_wAAABABBA (OO:=ROps) a0 b0 a1 b1 a2 b2 a3 b3 a4 b4 a5 b5 a6 b6 a7 b7) 0%R = IZR (Z.of_nat (drawn (run draws [ReqA; ReqA; ReqA; ReqB; ReqA; ReqB; ReqB; ReqA]))).
Proof. pairing. Qed.

Lemma tie_pair_wBAABABBA a0 b0 a1 b1 a2 b2 a3 b3 a4 b4 a5 b5 a6 b6 a7 b7 :
  let draws := fun k => nth k [(a0, b0); (a1, b1); (a2, b2); (a3, b3); (a4, b4); (a5, b5); (a6, b6); (a7, b7)] (a0, b0) in
  firstn 8 (pair_wBAABABBA (OO:=ROps) a0 b0 a1 b1 a2 b2 a3 b3 a4 b4 a5 b5 a6 b6 a7 b7) = deliveries draws st0 [ReqB; ReqA; ReqA; ReqB; ReqA; ReqB; ReqB; ReqA] /\
  nth 8 (pair_wBAABABBA (OO:=ROps) a0 b0 a1 b1 a2 b2 a3 b3 a4 b4 a5 b5 a6 b6 a7 b7) 0%R = IZR (Z.of_nat (drawn (run draws [ReqB; ReqA; ReqA; ReqB; ReqA; ReqB; ReqB; ReqA]))).
Proof. pairing. Qed.

Lemma tie_pair_wABABABBA a0 b0 a1 b1 a2 b2 a3 b3 a4 b4 a5 b5 a6 b6 a7 b7 :
  let draws := fun k => nth k [(a0, b0); (a1, b1); (a2, b2); (a3, b3); (a4, b4); (a5, b5); (a6, b6); (a7, b7)] (a0, b0) in
  firstn 8 (pair_wABABABBA (OO:=ROps) a0 b0 a1 b1 a2 b2 a3 b3 a4 b4 a5 b5 a6 b6 a7 b7) = deliveries draws st0 [ReqA; ReqB; ReqA; ReqB; ReqA; ReqB; ReqB; ReqA] /\
  nth 8 (pair_wABABABBA (OO:=ROps) a0 b0 a1 b1 a2 b2 a3 b3 a4 b4 a5 b5 a6 b6 a7 b7) 0%R = IZR (Z.of_nat (drawn (run draws [ReqA; ReqB; ReqA; ReqB; ReqA; ReqB; ReqB; ReqA]))).
Proof. pairing. Qed.

Lemma tie_pair_wBBABABBA a0 b0 a1 b1 a2 b2 a3 b3 a4 b4 a5 b5 a6 b6 a7 b7 :
  let draws := fun k => nth k [(a0, b0); (a1, b1); (a2, b2); (a3, b3); (a4, b4); (a5, b5); (a6, b6); (a7, b7)] (a0, b0) in
  firstn 8 (pair_wBBABABBA (OO:=ROps) a0 b0 a1 b1 a2 b2 a3 b3 a4 b4 a5 b5 a6 b6 a7 b7) = deliveries draws st0 [ReqB; ReqB; ReqA; ReqB; ReqA; ReqB; ReqB; ReqA] /\
  nth 8 (pair_wBBABABBA (OO:=ROps) a0 b0 a1 b1 a2 b2 a3 b3 a4 b4 a5 b5 a6 b6 a7 b7) 0%R = IZR (Z.of_nat (drawn (run draws [ReqB; ReqB; ReqA; ReqB; ReqA; ReqB; ReqB; ReqA]))).
Proof. pairing. Qed.

Lemma tie_pair_wAABBABBA a0 b0 a1 b1 a2 b2 a3 b3 a4 b4 a5 b5 a6 b6 a7 b7 :
  let draws := fun k => nth k [(a0, b0); (a1, b1); (a2, b2); (a3, b3); (a4, b4); (a5, b5); (a6, b6); (a7, b7)] (a0, b0) in
  firstn 8 (pair_wAABBABBA (OO:=ROps) a0 b0 a1 b1 a2 b2 a3 b3 a4 b4 a5 b5 a6 b6 a7 b7) = deliveries draws st0 [ReqA; ReqA; ReqB; ReqB; ReqA; ReqB; ReqB; ReqA] /\
  nth 8 (pair_wAABBABBA (OO:=ROps) a0 b0 a1 b1 a2 b2 a3 b3 a4 b4 a5 b5 a6 b6 a7 b7) 0%R = IZR (Z.of_nat (drawn (run draws [ReqA; ReqA; ReqB; ReqB; ReqA; ReqB; ReqB; ReqA]))).
Proof. pairing. Qed.

Lemma tie_pair_wBABBABBA a0 b0 a1 b1 a2 b2 a3 b3 a4 b4 a5 b5 a6 b6 a7 b7 :
  let draws := fun k => nth k [(a0, b0); (a1, b1); (a2, b2); (a3, b3); (a4, b4); (a5, b5); (a6, b6); (a7, b7)] (a0, b0) in
  firstn 8 (pair_wBABBABBA (OO:=ROps) a0 b0 a1 b1 a2 b2 a3 b3 a4 b4 a5 b5 a6 b6 a7 b7) = deliveries draws st0 [ReqB; ReqA; ReqB; ReqB; ReqA; ReqB; ReqB; ReqA] /\
  nth 8 (pair_wBABBABBA (OO:=ROps) a0 b0 a1 b1 a2 b2 a3 b3 a4 b4 a5 b5 a6 b6 a7 b7) 0%R = IZR (Z.of_nat (drawn (run draws [ReqB; ReqA; ReqB; ReqB; ReqA; ReqB; ReqB; ReqA]))).
Proof. pairing. Qed.

Lemma tie_pair_wABBBABBA a0 b0 a1 b1 a2 b2 a3 b3 a4 b4 a5 b5 a6 b6 a7 b7 :
  let draws := fun k => nth k [(a0, b0); (a1, b1); (a2, b2); (a3, b3); (a4, b4); (a5, b5); (a6, b6); (a7, b7)] (a0, b0) in
  firstn 8 (pair_wABBBABBA (OO:=ROps) a0 b0 a1 b1 a2 b2 a3 b3 a4 b4 a5 b5 a6 b6 a7 b7) = deliveries draws st0 [ReqA; ReqB; ReqB; ReqB; ReqA; ReqB; ReqB; ReqA] /\
  nth 8 (pair_wABBBABBA (OO:=ROps) a0 b0 a1 b1 a2 b2 a3 b3 a4 b4 a5 b5 a6 b6 a7 b7) 0%R = IZR (Z.of_nat (drawn (run draws [ReqA; ReqB; ReqB; ReqB; ReqA; ReqB; ReqB; ReqA]))).
Proof. pairing. Qed.

Lemma tie_pair_wBBBBABBA a0 b0 a1 b1 a2 b2 a3 b3 a4 b4 a5 b5 a6 b6 a7 b7 :
  let draws := fun k => nth k [(a0, b0); (a1, b1); (a2, b2); (a3, b3); (a4, b4); (a5, b5); (a6, b6); (a7, b7)] (a0, b0) in
  firstn 8 (pair_wBBBBABBA (OO:=ROps) a0 b0 a1 b1 a2 b2 a3 b3 a4 b4 a5 b5 a6 b6 a7 b7) = deliveries draws st0 [ReqB; ReqB; ReqB; ReqB; ReqA; ReqB; ReqB; ReqA] /\
  nth 8 (pair_wBBBBABBA (OO:=ROps) a0 b0 a1 b1 a2 b2 a3 b3 a4 b4 a5 b5 a6 b6 a7 b7) 0%R = IZR (Z.of_nat (drawn (run draws [ReqB; ReqB; ReqB; ReqB; ReqA; ReqB; ReqB; ReqA]))).
Proof. pairing. Qed.

Lemma tie_pair_wAAAABBBA a0 b0 a1 b1 a2 b2 a3 b3 a4 b4 a5 b5 a6 b6 a7 b7 :
  let draws := fun k => nth k [(a0, b0); (a1, b1); (a2, b2); (a3, b3); (a4, b4); (a5, b5); (a6, b6); (a7, b7)] (a0, b0) in
  firstn 8 (pair_wAAAABBBA (OO:=ROps) a0 b0 a1 b1 a2 b2 a3 b3 a4 b4 a5 b5 a6 b6 a7 b7) = deliveries draws st0 [ReqA; ReqA; ReqA; ReqA; ReqB; ReqB; ReqB; ReqA] /\
  nth 8 (pair_wAAAABBBA (OO:=ROps) a0 b0 a1 b1 a2 b2 a3 b3 a4 b4 a5 b5 a6 b6 a7 b7) 0%R = IZR (Z.of_nat (drawn (run draws [ReqA; ReqA; ReqA; ReqA; ReqB; ReqB; ReqB; ReqA]))).
Proof. pairing. Qed.

Lemma tie_pair_wBAAABBBA a0 b0 a1 b1 a2 b2 a3 b3 a4 b4 a5 b5 a6 b6 a7 b7 :
  let draws := fun k => nth k [(a0, b0); (a1, b1); (a2, b2); (a3, b3); (a4, b4); (a5, b5); (a6, b6); (a7, b7)] (a0, b0) in
  firstn 8 (pair_wBAAABBBA (OO:=ROps) a0 b0 a1 b1 a2 b2 a3 b3 a4 b4 a5 b5 a6 b6 a7 b7) = deliveries draws st0 [ReqB; ReqA; ReqA; ReqA; ReqB; ReqB; ReqB; ReqA] /\
  nth 8 (pair_wBAAABBBA (OO:=ROps) a0 b0 a1 b1 a2 b2 a3 b3 a4 b4 a5 b5 a6 b6 a7 b7) 0%R = IZR (Z.of_nat (drawn (run draws [ReqB; ReqA; ReqA; ReqA; ReqB; ReqB; ReqB; ReqA]))).
Proof. pairing. Qed.

Lemma tie_pair_wABAABBBA a0 b0 a1 b1 a2 b2 a3 b3 a4 b4 a5 b5 a6 b6 a7 b7 :
  let draws := fun k => nth k [(a0, b0); (a1, b1); (a2, b2); (a3, b3); (a4, b4); (a5, b5); (a6, b6); (a7, b7)] (a0, b0) in
  firstn 8 (pair_wABAABBBA (OO:=ROps) a0 b0 a1 b1 a2 b2 a3 b3 a4 b4 a5 b5 a6 b6 a7 b7) = deliveries draws st0 [ReqA; ReqB; ReqA; ReqA; ReqB; ReqB; ReqB; ReqA] /\
  nth 8 (pair_wABAABBBA (OO:=ROps) a0 b0 a1 b1 a2 b2 a3 b3 a4 b4 a5 b5 a6 b6 a7 b7) 0%R = IZR (Z.of_nat (drawn (run draws [ReqA; ReqB; ReqA; ReqA; ReqB; ReqB; ReqB; ReqA]))).
Proof. pairing. Qed.

Lemma tie_pair_wBBAABBBA a0 b0 a1 b1 a2 b2 a3 b3 a4 b4 a5 b5 a6 b6 a7 b7 :
  let draws := fun k => nth k [(a0, b0); (a1, b1); (a2, b2); (a3, b3); (a4, b4); (a5, b5); (a6, b6); (a7, b7)] (a0, b0) in
  firstn 8 (pair_wBBAABBBA (OO:=ROps) a0 b0 a1 b1 a2 b2 a3 b3 a4 b4 a5 b5 a6 b6 a7 b7) = deliveries draws st0 [ReqB; ReqB; ReqA; ReqA; ReqB; ReqB; ReqB; ReqA] /\
  nth 8 (pair_wBBAABBBA (OO:=ROps) a0 b0 a1 b1 a2 b2 a3 b3 a4 b4 a5 b5 a6 b6 a7 b7) 0%R = IZR (Z.of_nat (drawn (run draws [ReqB; ReqB; ReqA; ReqA; ReqB; ReqB; ReqB; ReqA]))).
Proof. pairing. Qed.

Lemma tie_pair_wAABABBBA a0 b0 a1 b1 a2 b2 a3 b3 a4 b4 a5 b5 a6 b6 a7 b7 :
  let draws := fun k => nth k [(a0, b0); (a1, b1); (a2, b2); (a3, b3); (a4, b4); (a5, b5); (a6, b6); (a7, b7)] (a0, b0) in
  firstn 8 (pair_wAABABBBA (OO:=ROps) a0 b0 a1 b1 a2 b2 a3 b3 a4 b4 a5 b5 a6 b6 a7 b7) = deliveries draws st0 [ReqA; ReqA; ReqB; ReqA; ReqB; ReqB; ReqB; ReqA] /\
  nth 8 (pair_wAABABBBA (OO:=ROps) a0 b0 a1 b1 a2 b2 a3 b3 a4 b4 a5 b5 a6 b6 a7 b7) 0%R = IZR (Z.of_nat (drawn (run draws [ReqA; ReqA; ReqB; ReqA; ReqB; ReqB; ReqB; ReqA]))).
Proof. pairing. Qed.

Lemma tie_pair_wBABABBBA a0 b0 a1 b1 a2 b2 a3 b3 a4 b4 a5 b5 a6 b6 a7 b7 :
  let draws := fun k => nth k [(a0, b0); (a1, b1); (a2, b2); (a3, b3); (a4, b4); (a5, b5); (a6, b6); (a7, b7)] (a0, b0) in
  firstn 8 (pair_wBABABBBA (OO:=ROps) a0 b0 a1 b1 a2 b2 a3 b3 a4 b4 a5 b5 a6 b6 a7 b7) = deliveries draws st0 [ReqB; ReqA; ReqB; ReqA; ReqB; ReqB; ReqB; ReqA] /\
  nth 8 (pair_wBABABBBA (OO:=ROps) a0 b0 a1 b1 a2 b2 a3 b3 a4 b4 a5 b5 a6 b6 a7 b7) 0%R = IZR (Z.of_nat (drawn (run draws [ReqB; ReqA; ReqB; ReqA; ReqB; ReqB; ReqB; ReqA]))).
Proof. pairing. Qed.

Lemma tie_pair_wABBABBBA a0 b0 a1 b1 a2 b2 a3 b3 a4 b4 a5 b5 a6 b6 a7 b7 :
  let draws := fun k => nth k [(a0, b0); (a1, b1); (a2, b2); (a3, b3); (a4, b4); (a5, b5); (a6, b6); (a7, b7)] (a0, b0) in
  firstn 8 (pair_wABBABBBA (OO:=ROps) a0 b0 a1 b1 a2 b2 a3 b3 a4 b4 a5 b5 a6 b6 a7 b7) = deliveries draws st0 [ReqA; ReqB; ReqB; ReqA; ReqB; ReqB; ReqB; ReqA] /\
  nth 8 (pair_wABBABBBA (OO:=ROps) a0 b0 a1 b1 a2 b2 a3 b3 a4 b4 a5 b5 a6 b6 a7 b7) 0%R = IZR (Z.of_nat (drawn (run draws [ReqA; ReqB; ReqB; ReqA; ReqB; ReqB; ReqB; ReqA]))).
Proof. pairing. Qed.

Lemma tie_pair_wBBBABBBA a0 b0 a1 b1 a2 b2 a3 b3 a4 b4 a5 b5 a6 b6 a7 b7 :
  let draws := fun k => nth k [(a0, b0); (a1, b1); (a2, b2); (a3, b3); (a4, b4); (a5, b5); (a6, b6); (a7, b7)] (a0, b0) in
  firstn 8 (pair_wBBBABBBA (OO:=ROps) a0 b0 a1 b1 a2 b2 a3 b3 a4 b4 a5 b5 a6 b6 a7 b7) = deliveries draws st0 [ReqB; ReqB; ReqB; ReqA; ReqB; ReqB; ReqB; ReqA] /\
  nth 8 (pair_wBBBABBBA (OO:=ROps) a0 b0 a1 b1 a2 b2 a3 b3 a4 b4 a5 b5 a6 b6 a7 b7) 0%R = IZR (Z.of_nat (drawn (run draws [ReqB; ReqB; ReqB; ReqA; ReqB; ReqB; ReqB; ReqA]))).
Proof. pairing. Qed.

Lemma tie_pair_wAAABBBBA a0 b0 a1 b1 a2 b2 a3 b3 a4 b4 a5 b5 a6 b6 a7 b7 :
  let draws := fun k => nth k [(a0, b0); (a1, b1); (a2, b2); (a3, b3); (a4, b4); (a5, b5); (a6, b6); (a7, b7)] (a0, b0) in
  firstn 8 (pair_wAAABBBBA (OO:=ROps) a0 b0 a1 b1 a2 b2 a3 b3 a4 b4 a5 b5 a6 b6 a7 b7) = deliveries draws st0 [ReqA; ReqA; ReqA; ReqB; ReqB; ReqB; ReqB; ReqA] /\
  nth 8 (pair_wAAABBBBA (OO:=ROps) a0 b0 a1 b1 a2 b2 a3 b3 a4 b4 a5 b5 a6 b6 a7 b7) 0%R = IZR (Z.of_nat (drawn (run draws [ReqA; ReqA; ReqA; ReqB; ReqB; ReqB; ReqB; ReqA]))).
Proof. pairing. Qed.

Lemma tie_pair_wBAABBBBA a0 b0 a1 b1 a2 b2 a3 b3 a4 b4 a5 b5 a6 b6 a7 b7 :
  let draws := fun k => nth k [(a0, b0); (a1, b1); (a2, b2); (a3, b3); (a4, b4); (a5, b5); (a6, b6); (a7, b7)] (a0, b0) in
  firstn 8 (pair_wBAABBBBA (OO:=ROps) a0 b0 a1 b1 a2 b2 a3 b3 a4 b4 a5 b5 a6 b6 a7 b7) = deliveries draws st0 [ReqB; ReqA; ReqA; ReqB; ReqB; ReqB; ReqB; ReqA] /\
  nth 8 (pair_wBAABBBBA (OO:=ROps) a0 b0 a1 b1 a2 b2 a3 b3 a4 b4 a5 b5 a6 b6 a7 b7) 0%R = IZR (Z.of_nat (drawn (run draws [ReqB; ReqA; ReqA; ReqB; ReqB; ReqB; ReqB; ReqA]))).
Proof. pairing. Qed.

Lemma tie_pair_wABABBBBA a0 b0 a1 b1 a2 b2 a3 b3 a4 b4 a5 b5 a6 b6 a7 b7 :
  let draws := fun k => nth k [(a0, b0); (a1, b1); (a2, b2); (a3, b3); (a4, b4); (a5, b5); (a6, b6); (a7, b7)] (a0, b0) in
  firstn 8 (pair_wABABBBBA (OO:=ROps) a0 b0 a1 b1 a2 b2 a3 b3 a4 b4 a5 b5 a6 b6 a7 b7) = deliveries draws st0 [ReqA; ReqB; ReqA; ReqB; ReqB; ReqB; ReqB; ReqA] /\
  nth 8 (pair_wABABBBBA (OO:=ROps) a0 b0 a1 b1 a2 b2 a3 b3 a4 b4 a5 b5 a6 b6 a7 b7) 0%R = IZR (Z.of_nat (drawn (run draws [ReqA; ReqB; ReqA; ReqB; ReqB; ReqB; ReqB; ReqA]))).
Proof. pairing. Qed.

Lemma tie_pair_wBBABBBBA a0 b0 a1 b1 a2 b2 a3 b3 a4 b4 a5 b5 a6 b6 a7 b7 :
  let draws := fun k => nth k [(a0, b0); (a1, b1); (a2, b2); (a3, b3); (a4, b4); (a5, b5); (a6, b6); (a7, b7)] (a0, b0) in
  firstn 8 (pair_wBBABBBBA (OO:=ROps) a0 b0 a1 b1 a2 b2 a3 b3 a4 b4 a5 b5 a6 b6 a7 b7) = deliveries draws st0 [ReqB; ReqB; ReqA; ReqB; ReqB; ReqB; ReqB; ReqA] /\
  nth 8 (pair_wBBABBBBA (OO:=ROps) a0 b0 a1 b1 a2 b2 a3 b3 a4 b4 a5 b5 a6 b6 a7 b7) 0%R = IZR (Z.of_nat (drawn (run draws [ReqB; ReqB; ReqA; ReqB; ReqB; ReqB; ReqB; ReqA]))).
Proof. pairing. Qed.

Lemma tie_pair_wAABBBBBA a0 b0 a1 b1 a2 b2 a3 b3 a4 b4 a5 b5 a6 b6 a7 b7 :
  let draws := fun k => nth k [(a0, b0); (a1, b1); (a2, b2); (a3, b3); (a4, b4); (a5, b5); (a6, b6); (a7, b7)] (a0, b0) in
  firstn 8 (pair_wAABBBBBA (OO:=ROps) a0 b0 a1 b1 a2 b2 a3 b3 a4 b4 a5 b5 a6 b6 a7 b7) = deliveries draws st0 [ReqA; ReqA; ReqB; ReqB; ReqB; ReqB; ReqB; ReqA] /\
  nth 8 (pair_wAABBBBBA (OO:=ROps) a0 b0 a1 b1 a2 b2 a3 b3 a4 b4 a5 b5 a6 b6 a7 b7) 0%R = IZR (Z.of_nat (drawn (run draws [ReqA; ReqA; ReqB; ReqB; ReqB; ReqB; ReqB; ReqA]))).
Proof. pairing. Qed.

Lemma tie_pair_wBABBBBBA a0 b0 a1 b1 a2 b2 a3 b3 a4 b4 a5 b5 a6 b6 a7 b7 :
  let draws := fun k => nth k [(a0, b0); (a1, b1); (a2, b2); (a3, b3); (a4, b4); (a5, b5); (a6, b6); (a7, b7)] (a0, b0) in
  firstn 8 (pair_wBABBBBBA (OO:=ROps) a0 b0 a1 b1 a2 b2 a3 b3 a4 b4 a5 b5 a6 b6 a7 b7) = deliveries draws st0 [ReqB; ReqA; ReqB; ReqB; ReqB; ReqB; ReqB; ReqA] /\
  nth 8 (pair_wBABBBBBA (OO:=ROps) a0 b0 a1 b1 a2 b2 a3 b3 a4 b4 a5 b5 a6 b6 a7 b7) 0%R = IZR (Z.of_nat (drawn (run draws [ReqB; ReqA; ReqB; ReqB; ReqB; ReqB; ReqB; ReqA]))).
Proof. pairing. Qed.

Lemma tie_pair_wABBBBBBA a0 b0 a1 b1 a2 b2 a3 b3 a4 b4 a5 b5 a6 b6 a7 b7 :
  let draws := fun k => nth k [(a0, b0); (a1, b1); (a2, b2); (a3, b3); (a4, b4); (a5, b5); (a6, b6); (a7, b7)] (a0, b0) in
  firstn 8 (pair_wABBBBBBA (OO:=ROps) a0 b0 a1 b1 a2 b2 a3 b3 a4 b4 a5 b5 a6 b6 a7 b7) = deliveries draws st0 [ReqA; ReqB; ReqB; ReqB; ReqB; ReqB; ReqB; ReqA] /\
  nth 8 (pair_wABBBBBBA (OO:=ROps) a0 b0 a1 b1 a2 b2 a3 b3 a4 b4 a5 b5 a6 b6 a7 b7) 0%R = IZR (Z.of_nat (drawn (run draws [ReqA; ReqB; ReqB; ReqB; ReqB; ReqB; ReqB; ReqA]))).
Proof. pairing. Qed.

Lemma tie_pair_wBBBBBBBA a0 b0 a1 b1 a2 b2 a3 b3 a4 b4 a5 b5 a6 b6 a7 b7 :
  let draws := fun k => nth k [(a0, b0); (a1, b1); (a2, b2); (a3, b3); (a4, b4); (a5, b5); (a6, b6); (a7, b7)] (a0, b0) in
  firstn 8 (pair_wBBBBBBBA (OO:=ROps) a0 b0 a1 b1 a2 b2 a3 b3 a4 b4 a5 b5 a6 b6 a7 b7) = deliveries draws st0 [ReqB; ReqB; ReqB; ReqB; ReqB; ReqB; ReqB; ReqA] /\
  nth 8 (pair_wBBBBBBBA (OO:=ROps) a0 b0 a1 b1 a2 b2 a3 b3 a4 b4 a5 b5 a6 b6 a7 b7) 0%R = IZR (Z.of_nat (drawn (run draws [ReqB; ReqB; ReqB; ReqB; ReqB; ReqB; ReqB; ReqA]))).
Proof. pairing. Qed.

Lemma tie_pair_wAAAAAAAB a0 b0 a1 b1 a2 b2 a3 b3 a4 b4 a5 b5 a6 b6 a7 b7 :
  let draws := fun k => nth k [(a0, b0); (a1, b1); (a2, b2); (a3, b3); (a4, b4); (a5, b5); (a6, b6); (a7, b7)] (a0, b0) in
  firstn 8 (pair_wAAAAAAAB (OO:=ROps) a0 b0 a1 b1 a2 b2 a3 b3 a4 b4 a5 b5 a6 b6 a7 b7) = deliveries draws st0 [ReqA; ReqA; ReqA; ReqA; ReqA; ReqA; ReqA; ReqB] /\
  nth 8 (pair_wAAAAAAAB (OO:=ROps) a0 b0 a1 b1 a2 b2 a3 b3 a4 b4 a5 b5 a6 b6 a7 b7) 0%R = IZR (Z.of_nat (drawn (run draws [ReqA; ReqA; ReqA; ReqA; ReqA; ReqA; ReqA; ReqB]))).
Proof. pairing. Qed.

Lemma tie_pair_wBAAAAAAB a0 b0 a1 b1 a2 b2 a3 b3 a4 b4 a5 b5 a6 b6 a7 b7 :
  let draws := fun k => nth k [(a0, b0); (a1, b1); (a2, b2); (a3, b3); (a4, b4); (a5, b5); (a6, b6); (a7, b7)] (a0, b0) in
  firstn 8 (pair_wBAAAAAAB (OO:=ROps) a0 b0 a1 b1 a2 b2 a3 b3 a4 b4 a5 b5 a6 b6 a7 b7) = deliveries draws st0 [ReqB; ReqA; ReqA; ReqA; ReqA; ReqA; ReqA; ReqB] /\
  nth 8 (pair_wBAAAAAAB (OO:=ROps) a0 b0 a1 b1 a2 b2 a3 b3 a4 b4 a5 b5 a6 b6 a7 b7) 0%R = IZR (Z.of_nat (drawn (run draws [ReqB; ReqA; ReqA; ReqA; ReqA; ReqA; ReqA; ReqB]))).
Proof. pairing. Qed.

Lemma tie_pair_wABAAAAAB a0 b0 a1 b1 a2 b2 a3 b3 a4 b4 a5 b5 a6 b6 a7 b7 :
  let draws := fun k => nth k [(a0, b0); (a1, b1); (a2, b2); (a3, b3); (a4, b4); (a5, b5); (a6, b6); (a7, b7)] (a0, b0) in
  firstn 8 (pair_wABAAAAAB (OO:=ROps) a0 b0 a1 b1 a2 b2 a3 b3 a4 b4 a5 b5 a6 b6 a7 b7) = deliveries draws st0 [ReqA; ReqB; ReqA; ReqA; ReqA; ReqA; ReqA; ReqB] /\
  nth 8 (pair_wABAAAAAB (OO:=ROps) a0 b0 a1 b1 a2 b2 a3 b3 a4 b4 a5 b5 a6 b6 a7 b7) 0%R = IZR (Z.of_nat (drawn (run draws [ReqA; ReqB; ReqA; ReqA; ReqA; ReqA; ReqA; ReqB]))).
Proof. pairing. Qed.

Lemma tie_pair_wBBAAAAAB a0 b0 a1 b1 a2 b2 a3 b3 a4 b4 a5 b5 a6 b6 a7 b7 :
  let draws := fun k => nth k [(a0, b0); (a1, b1); (a2, b2); (a3, b3); (a4, b4); (a5, b5); (a6, b6); (a7, b7)] (a0, b0) in
  firstn 8 (pair_wBBAAAAAB (OO:=ROps) a0 b0 a1 b1 a2 b2 a3 b3 a4 b4 a5 b5 a6 b6 a7 b7) = deliveries draws st0 [ReqB; ReqB; ReqA; ReqA; ReqA; ReqA; ReqA; ReqB] /\
  nth 8 (pair_wBBAAAAAB (OO:=ROps) a0 b0 a1 b1 a2 b2 a3 b3 a4 b4 a5 b5 a6 b6 a7 b7) 0%R = IZR (Z.of_nat (drawn (run draws [ReqB; ReqB; ReqA; ReqA; ReqA; ReqA; ReqA; ReqB]))).
Proof. pairing. Qed.

Lemma tie_pair_wAABAAAAB a0 b0 a1 b1 a2 b2 a3 b3 a4 b4 a5 b5 a6 b6 a7 b7 :
  let draws := fun k => nth k [(a0, b0); (a1, b1); (a2, b2); (a3, b3); (a4, b4); (a5, b5); (a6, b6); (a7, b7)] (a0, b0) in
  firstn 8 (pair_wAABAAAAB (OO:=ROps) a0 b0 a1 b1 a2 b2 a3 b3 a4 b4 a5 b5 a6 b6 a7 b7) = deliveries draws st0 [ReqA; ReqA; ReqB; ReqA; ReqA; ReqA; ReqA; ReqB] /\
  nth 8 (pair_wAABAAAAB (OO:=ROps) a0 b0 a1 b1 a2 b2 a3 b3 a4 b4 a5 b5 a6 b6 a7 b7) 0%R = IZR (Z.of_nat (drawn (run draws [ReqA; ReqA; ReqB; ReqA; ReqA; ReqA; ReqA; ReqB]))).
Proof. pairing. Qed.

Lemma tie_pair_wBABAAAAB a0 b0 a1 b1 a2 b2 a3 b3 a4 b4 a5 b5 a6 b6 a7 b7 :
  let draws := fun k => nth k [(a0, b0); (a1, b1); (a2, b2); (a3, b3); (a4, b4); (a5, b5); (a6, b6); (a7, b7)] (a0, b0) in
  firstn 8 (pair_wBABAAAAB (OO:=ROps) a0 b0 a1 b1 a2 b2 a3 b3 a4 b4 a5 b5 a6 b6 a7 b7) = deliveries draws st0 [ReqB; ReqA; ReqB; ReqA; ReqA; ReqA; ReqA; ReqB] /\
  nth 8 (pair_wBABAAAAB (OO:=ROps) a0 b0 a1 b1 a2 b2 a3 b3 a4 b4 a5 b5 a6 b6 a7 b7) 0%R = IZR (Z.of_nat (drawn (run draws [ReqB; ReqA; ReqB; ReqA; ReqA; ReqA; ReqA; ReqB]))).
Proof. pairing. Qed.

Lemma tie_pair_wABBAAAAB a0 b0 a1 b1 a2 b2 a3 b3 a4 b4 a5 b5 a6 b6 a7 b7 :
  let draws := fun k => nth k [(a0, b0); (a1, b1); (a2, b2); (a3, b3); (a4, b4); (a5, b5); (a6, b6); (a7, b7)] (a0, b0) in
  firstn 8 (pair_wABBAAAAB (OO:=ROps) a0 b0 a1 b1 a2 b2 a3 b3 a4 b4 a5 b5 a6 b6 a7 b7) = deliveries draws st0 [ReqA; ReqB; ReqB; ReqA; ReqA; ReqA; ReqA; ReqB] /\
  nth 8 (pair_wABBAAAAB (OO:=ROps) a0 b0 a1 b1 a2 b2 a3 b3 a4 b4 a5 b5 a6 b6 a7 b7) 0%R = IZR (Z.of_nat (drawn (run draws [ReqA; ReqB; ReqB; ReqA; ReqA; ReqA; ReqA; ReqB]))).
Proof. pairing. Qed.

Lemma tie_pair_wBBBAAAAB a0 b0 a1 b1 a2 b2 a3 b3 a4 b4 a5 b5 a6 b6 a7 b7 :
  let draws := fun k => nth k [(a0, b0); (a1, b1); (a2, b2); (a3, b3); (a4, b4); (a5, b5); (a6, b6); (a7, b7)] (a0, b0) in
  firstn 8 (pair_wBBBAAAAB (OO:=ROps) a0 b0 a1 b1 a2 b2 a3 b3 a4 b4 a5 b5 a6 b6 a7 b7) = deliveries draws st0 [ReqB; ReqB; ReqB; ReqA; ReqA; ReqA; ReqA; ReqB] /\
  nth 8 (pair_wBBBAAAAB (OO:=ROps) a0 b0 a1 b1 a2 b2 a3 b3 a4 b4 a5 b5 a6 b6 a7 b7) 0%R = IZR (Z.of_nat (drawn (run draws [ReqB; ReqB; ReqB; ReqA; ReqA; ReqA; ReqA; ReqB]))).
Proof. pairing. Qed.

Lemma tie_pair_wAAABAAAB a0 b0 a1 b1 a2 b2 a3 b3 a4 b4 a5 b5 a6 b6 a7 b7 :
  let draws := fun k => nth k [(a0, b0); (a1, b1); (a2, b2); (a3, b3); (a4, b4); (a5, b5); (a6, b6); (a7, b7)] (a0, b0) in
  firstn 8 (pair_wAAABAAAB (OO:=ROps) a0 b0 a1 b1 a2 b2 a3 b3 a4 b4 a5 b5 a6 b6 a7 b7) = deliveries draws st0 [ReqA; ReqA; ReqA; ReqB; ReqA; ReqA; ReqA; ReqB] /\
  nth 8 (pair_wAAABAAAB (OO:=ROps) a0 b0 a1 b1 a2 b2 a3 b3 a4 b4 a5 b5 a6 b6 a7 b7) 0%R = IZR (Z.of_nat (drawn (run draws [ReqA; ReqA; ReqA; ReqB; ReqA; ReqA; ReqA; ReqB]))).
Proof. pairing. Qed.

Lemma tie_pair_wBAABAAAB a0 b0 a1 b1 a2 b2 a3 b3 a4 b4 a5 b5 a6 b6 a7 b7 :
  let draws := fun k => nth k [(a0, b0); (a1, b1); (a2, b2); (a3, b3); (a4, b4); (a5, b5); (a6, b6); (a7, b7)] (a0, b0) in
  firstn 8 (pair_wBAABAAAB (OO:=ROps) a0 b0 a1 b1 a2 b2 a3 b3 a4 b4 a5 b5 a6 b6 a7 b7) = deliveries draws st0 [ReqB; ReqA; ReqA; ReqB; ReqA; ReqA; ReqA; ReqB] /\
  nth 8 (pair_wBAABAAAB (OO:=ROps) a0 b0 a1 b1 a2 b2 a3 b3 a4 b4 a5 b5 a6 b6 a7 b7) 0%R = IZR (Z.of_nat (drawn (run draws [ReqB; ReqA; ReqA; ReqB; ReqA; ReqA; ReqA; ReqB]))).
Proof. pairing. Qed.

Lemma tie_pair_wABABAAAB a0 b0 a1 b1 a2 b2 a3 b3 a4 b4 a5 b5 a6 b6 a7 b7 :
  let draws := fun k => nth k [(a0, b0); (a1, b1); (a2, b2); (a3, b3); (a4, b4); (a5, b5); (a6, b6); (a7, b7)] (a0, b0) in
  firstn 8 (pair_wABABAAAB (OO:=ROps) a0 b0 a1 b1 a2 b2 a3 b3 a4 b4 a5 b5 a6 b6 a7 b7) = deliveries draws st0 [ReqA; ReqB; ReqA; ReqB; ReqA; ReqA; ReqA; ReqB] /\
  nth 8 (pair_wABABAAAB (OO:=ROps) a0 b0 a1 b1 a2 b2 a3 b3 a4 b4 a5 b5 a6 b6 a7 b7) 0%R = IZR (Z.of_nat (drawn (run draws [ReqA; ReqB; ReqA; ReqB; ReqA; ReqA; ReqA; ReqB]))).
Proof. pairing. Qed.

Lemma tie_pair_wBBABAAAB a0 b0 a1 b1 a2 b2 a3 b3 a4 b4 a5 b5 a6 b6 a7 b7 :
  let draws := fun k => nth k [(a0, b0); (a1, b1); (a2, b2); (a3, b3); (a4, b4); (a5, b5); (a6, b6); (a7, b7)] (a0, b0) in
  firstn 8 (pair_wBBABAAAB (OO:=ROps) a0 b0 a1 b1 a2 b2 a3 b3 a4 b4 a5 b5 a6 b6 a7 b7) = deliveries draws st0 [ReqB; ReqB; ReqA; ReqB; ReqA; ReqA; ReqA; ReqB] /\
  nth 8 (pair_wBBABAAAB (OO:=ROps) a0 b0 a1 b1 a2 b2 a3 b3 a4 b4 a5 b5 a6 b6 a7 b7) 0%R = IZR (Z.of_nat (drawn (run draws [ReqB; ReqB; ReqA; ReqB; ReqA; ReqA; ReqA; ReqB]))).
Proof. pairing. Qed.

Lemma tie_pair_wAABBAAAB a0 b0 a1 b1 a2 b2 a3 b3 a4 b4 a5 b5 a6 b6 a7 b7 :
  let draws := fun k => nth k [(a0, b0); (a1, b1); (a2, b2); (a3, b3); (a4, b4); (a5, b5); (a6, b6); (a7, b7)] (a0, b0) in
  firstn 8 (pair_wAABBAAAB (OO:=ROps) a0 b0 a1 b1 a2 b2 a3 b3 a4 b4 a5 b5 a6 b6 a7 b7) = deliveries draws st0 [ReqA; ReqA; ReqB; ReqB; ReqA; ReqA; ReqA; ReqB] /\
  nth 8 (pair_wAABBAAAB (OO:=ROps) a0 b0 a1 b1 a2 b2 a3 b3 a4 b4 a5 b5 a6 b6 a7 b7) 0%R = IZR (Z.of_nat (drawn (run draws [ReqA; ReqA; ReqB; ReqB; ReqA; ReqA; ReqA; ReqB]))).
Proof. pairing. Qed.

Lemma tie_pair_wBABBAAAB a0 b0 a1 b1 a2 b2 a3 b3 a4 b4 a5 b5 a6 b6 a7 b7 :
  let draws := fun k => nth k [(a0, b0); (a1, b1); (a2, b2); (a3, b3); (a4, b4); (a5, b5); (a6, b6); (a7, b7)] (a0, b0) in
  firstn 8 (pair_wBABBAAAB (OO:=ROps) a0 b0 a1 b1 a2 b2 a3 b3 a4 b4 a5 b5 a6 b6 a7 b7) = deliveries draws st0 [ReqB; ReqA; ReqB; ReqB; ReqA; ReqA; ReqA; ReqB] /\
  nth 8 (pair_wBABBAAAB (OO:=ROps) a0 b0 a1 b1 a2 b2 a3 b3 a4 b4 a5 b5 a6 b6 a7 b7) 0%R = IZR (Z.of_nat (drawn (run draws [ReqB; ReqA; ReqB; ReqB; ReqA; ReqA; ReqA; ReqB]))).
Proof. pairing. Qed.

Lemma tie_pair_wABBBAAAB a0 b0 a1 b1 a2 b2 a3 b3 a4 b4 a5 b5 a6 b6 a7 b7 :
  let draws := fun k => nth k [(a0, b0); (a1, b1); (a2, b2); (a3, b3); (a4, b4); (a5, b5); (a6, b6); (a7, b7)] (a0, b0) in
  firstn 8 (pair_wABBBAAAB (OO:=ROps) a0 b0 a1 b1 a2 b2 a3 b3 a4 b4 a5 b5 a6 b6 a7 b7) = deliveries draws st0 [ReqA; ReqB; ReqB; ReqB; ReqA; ReqA; ReqA; ReqB] /\
  nth 8 (pair_wABBBAAAB (OO:=ROps) a0 b0 a1 b1 a2 b2 a3 b3 a4 b4 a5 b5 a6 b6 a7 b7) 0%R = IZR (Z.of_nat (drawn (run draws [ReqA; ReqB; ReqB; ReqB; ReqA; ReqA; ReqA; ReqB]))).
Proof. pairing. Qed.

Lemma tie_pair_wBBBBAAAB a0 b0 a1 b1 a2 b2 a3 b3 a4 b4 a5 b5 a6 b6 a7 b7 :
  let draws := fun k => nth k [(a0, b0); (a1, b1); (a2, b2); (a3, b3); (a4, b4); (a5, b5); (a6, b6); (a7, b7)] (a0, b0) in
  firstn 8 (pair_wBBBBAAAB (OO:=ROps) a0 b0 a1 b1 a2 b2 a3 b3 a4 b4 a5 b5 a6 b6 a7 b7) = deliveries draws st0 [ReqB; ReqB; ReqB; ReqB; ReqA; ReqA; ReqA; ReqB] /\
  nth 8 (pair_wBBBBAAAB (OO:=ROps) a0 b0 a1 b1 a2 b2 a3 b3 a4 b4 a5 b5 a6 b6 a7 b7) 0%R = IZR (Z.of_nat (drawn (run draws [ReqB; ReqB; ReqB; ReqB; ReqA; ReqA; ReqA; ReqB]))).
Proof. pairing. Qed.

Lemma tie_pair_wAAAABAAB a0 b0 a1 b1 a2 b2 a3 b3 a4 b4 a5 b5 a6 b6 a7 b7 :
  let draws := fun k => nth k [(a0, b0); (a1, b1); (a2, b2); (a3, b3); (a4, b4); (a5, b5); (a6, b6); (a7, b7)] (a0, b0) in
  firstn 8 (pair_wAAAABAAB (OO:=ROps) a0 b0 a1 b1 a2 b2 a3 b3 a4 b4 a5 b5 a6 b6 a7 b7) = deliveries draws st0 [ReqA; ReqA; ReqA; ReqA; ReqB; ReqA; ReqA; ReqB] /\
  nth 8 (pair_wAAAABAAB (OO:=ROps) a0 b0 a1 b1 a2 b2 a3 b3 a4 b4 a5 b5 a6 b6 a7 b7) 0%R = IZR (Z.of_nat (drawn (run draws [ReqA; ReqA; ReqA; ReqA; ReqB; ReqA; ReqA; ReqB]))).
Proof. pairing. Qed.

Lemma tie_pair_wBAAABAAB a0 b0 a1 b1 a2 b2 a3 b3 a4 b4 a5 b5 a6 b6 a7 b7 :
  let draws := fun k => nth k [(a0, b0); (a1, b1); (a2, b2); (a3, b3); (a4, b4); (a5, b5); (a6, b6); (a7, b7)] (a0, b0) in
  firstn 8 (pair_wBAAABAAB (OO:=ROps) a0 b0 a1 b1 a2 b2 a3 b3 a4 b4 a5 b5 a6 b6 a7 b7) = deliveries draws st0 [ReqB; ReqA; ReqA; ReqA; ReqB; ReqA; ReqA; ReqB] /\
  nth 8 (pair_wBAAABAAB (OO:=ROps) a0 b0 a1 b1 a2 b2 a3 b3 a4 b4 a5 b5 a6 b6 a7 b7) 0%R = IZR (Z.of_nat (drawn (run draws [ReqB; ReqA; ReqA; ReqA; ReqB; ReqA; ReqA; ReqB]))).
Proof. pairing. Qed.

Lemma tie_pair_wABAABAAB a0 b0 a1 b1 a2 b2 a3 b3 a4 b4 a5 b5 a6 b6 a7 b7 :
  let draws := fun k => nth k [(a0, b0); (a1, b1); (a2, b2); (a3, b3); (a4, b4); (a5, b5); (a6, b6); (a7, b7)] (a0, b0) in
  firstn 8 (pair_wABAABAAB (OO:=ROps) a0 b0 a1 b1 a2 b2 a3 b3 a4 b4 a5 b5 a6 b6 a7 b7) = deliveries draws st0 [ReqA; ReqB; ReqA; ReqA; ReqB; ReqA; ReqA; ReqB] /\
  nth 8 (pair_wABAABAAB (OO:=ROps) a0 b0 a1 b1 a2 b2 a3 b3 a4 b4 a5 b5 a6 b6 a7 b7) 0%R = IZR (Z.of_nat (drawn (run draws [ReqA; ReqB; ReqA; ReqA; ReqB; ReqA; ReqA; ReqB]))).
Proof. pairing. Qed.

Lemma tie_pair_wBBAABAAB a0 b0 a1 b1 a2 b2 a3 b3 a4 b4 a5 b5 a6 b6 a7 b7 :
  let draws := fun k => nth k [(a0, b0); (a1, b1); (a2, b2); (a3, b3); (a4, b4); (a5, b5); (a6, b6); (a7, b7)] (a0, b0) in
  firstn 8 (pair_wBBAABAAB (OO:=ROps) a0 b0 a1 b1 a2 b2 a3 b3 a4 b4 a5 b5 a6 b6 a7 b7) = deliveries draws st0 [ReqB; ReqB; ReqA; ReqA; ReqB; ReqA; ReqA; ReqB] /\
  nth 8 (pair_wBBAABAAB (OO:=ROps) a0 b0 a1 b1 a2 b2 a3 b3 a4 b4 a5 b5 a6 b6 a7 b7) 0%R = IZR (Z.of_nat (drawn (run draws [ReqB; ReqB; ReqA; ReqA; ReqB; ReqA; ReqA; ReqB]))).
Proof. pairing. Qed.

Lemma tie_pair_wAABABAAB a0 b0 a1 b1 a2 b2 a3 b3 a4 b4 a5 b5 a6 b6 a7 b7 :
  let draws := fun k => nth k [(a0, b0); (a1, b1); (a2, b2); (a3, b3); (a4, b4); (a5, b5); (a6, b6); (a7, b7)] (a0, b0) in
  firstn 8 (pair_wAABABAAB (OO:=ROps) a0 b0 a1 b1 a2 b2 a3 b3 a4 b4 a5 b5 a6 b6 a7 b7) = deliveries draws st0 [ReqA; ReqA; ReqB; ReqA; ReqB; ReqA; ReqA; ReqB] /\
  nth 8 (pair_wAABABAAB (OO:=ROps) a0 b0 a1 b1 a2 b2 a3 b3 a4 b4 a5 b5 a6 b6 a7 b7) 0%R = IZR (Z.of_nat (drawn (run draws [ReqA; ReqA; ReqB; ReqA; ReqB; ReqA; ReqA; ReqB]))).
Proof. pairing. Qed.

Lemma tie_pair_wBABABAAB a0 b0 a1 b1 a2 b2 a3 b3 a4 b4 a5 b5 a6 b6 a7 b7 :
  let draws := fun k => nth k [(a0, b0); (a1, b1); (a2, b2); (a3, b3); (a4, b4); (a5, b5); (a6, b6); (a7, b7)] (a0, b0) in
  firstn 8 (pair_wBABABAAB (OO:=ROps) a0 b0 a1 b1 a2 b2 a3 b3 a4 b4 a5 b5 a6 b6 a7 b7) = deliveries draws st0 [ReqB; ReqA; ReqB; ReqA; ReqB; ReqA; ReqA; ReqB] /\
  nth 8 (pair_wBABABAAB (OO:=ROps) a0 b0 a1 b1 a2 b2 a3 b3 a4 b4 a5 b5 a6 b6 a7 b7) 0%R = IZR (Z.of_nat (drawn (run draws [ReqB; ReqA; ReqB; ReqA; ReqB; ReqA; ReqA; ReqB]))).
Proof. pairing. Qed.

Lemma tie_pair_wABBABAAB a0 b0 a1 b1 a2 b2 a3 b3 a4 b4 a5 b5 a6 b6 a7 b7 :
  let draws := fun k => nth k [(a0, b0); (a1, b1); (a2, b2); (a3, b3); (a4, b4); (a5, b5); (a6, b6); (a7, b7)] (a0, b0) in
  firstn 8 (pair_wABBABAAB (OO:=ROps) a0 b0 a1 b1 a2 b2 a3 b3 a4 b4 a5 b5 a6 b6 a7 b7) = deliveries draws st0 [ReqA; ReqB; ReqB; ReqA; ReqB; ReqA; ReqA; ReqB] /\
  nth 8 (pair_wABBABAAB (OO:=ROps) a0 b0 a1 b1 a2 b2 a3 b3 a4 b4 a5 b5 a6 b6 a7 b7) 0%R = IZR (Z.of_nat (drawn (run draws [ReqA; ReqB; ReqB; ReqA; ReqB; ReqA; ReqA; ReqB]))).
Proof. pairing. Qed.

Lemma tie_pair_wBBBABAAB a0 b0 a1 b1 a2 b2 a3 b3 a4 b4 a5 b5 a6 b6 a7 b7 :
  let draws := fun k => nth k [(a0, b0); (a1, b1); (a2, b2); (a3, b3); (a4, b4); (a5, b5); (a6, b6); (a7, b7)] (a0, b0) in
  firstn 8 (pair_wBBBABAAB (OO:=ROps) a0 b0 a1 b1 a2 b2 a3 b3 a4 b4 a5 b5 a6 b6 a7 b7) = deliveries draws st0 [ReqB; ReqB; ReqB; ReqA; ReqB; ReqA; ReqA; ReqB] /\
  nth 8 (pair_wBBBABAAB (OO:=ROps) a0 b0 a1 b1 a2 b2 a3 b3 a4 b4 a5 b5 a6 b6 a7 b7) 0%R = IZR (Z.of_nat (drawn (run draws [ReqB; ReqB; ReqB; ReqA; ReqB; ReqA; ReqA; ReqB]))).
Proof. pairing. Qed.

Lemma tie_pair_wAAABBAAB a0 b0 a1 b1 a2 b2 a3 b3 a4 b4 a5 b5 a6 b6 a7 b7 :
  let draws := fun k => nth k [(a0, b0); (a1, b1); (a2, b2); (a3, b3); (a4, b4); (a5, b5); (a6, b6); (a7, b7)] (a0, b0) in
  firstn 8 (pair_wAAABBAAB (OO:=ROps) a0 b0 a1 b1 a2 b2 a3 b3 a4 b4 a5 b5 a6 b6 a7 b7) = deliveries draws st0 [ReqA; ReqA; ReqA; ReqB; ReqB; ReqA; ReqA; ReqB] /\
  nth 8 (pair_wAAABBAAB (OO:=ROps) a0 b0 a1 b1 a2 b2 a3 b3 a4 b4 a5 b5 a6 b6 a7 b7) 0%R = IZR (Z.of_nat (drawn (run draws [ReqA; ReqA; ReqA; ReqB; ReqB; ReqA; ReqA; ReqB]))).
Proof. pairing. Qed.

Lemma tie_pair_wBAABBAAB a0 b0 a1 b1 a2 b2 a3 b3 a4 b4 a5 b5 a6 b6 a7 b7 :
  let draws := fun k => nth k [(a0, b0); (a1, b1); (a2, b2); (a3, b3); (a4, b4); (a5, b5); (a6, b6); (a7, b7)] (a0, b0) in
  firstn 8 (pair_wBAABBAAB (OO:=ROps) a0 b0 a1 b1 a2 b2 a3 b3 a4 b4 a5 b5 a6 b6 a7 b7) = deliveries draws st0 [ReqB; ReqA; ReqA; ReqB; ReqB; ReqA; ReqA; ReqB] /\
  nth 8 (pair_wBAABBAAB (OO:=ROps) a0 b0 a1 b1 a2 b2 a3 b3 a4 b4 a5 b5 a6 b6 a7 b7) 0%R = IZR (Z.of_nat (drawn (run draws [ReqB; ReqA; ReqA; ReqB; ReqB; ReqA; ReqA; ReqB]))).
Proof. pairing. Qed.

Lemma tie_pair_wABABBAAB a0 b0 a1 b1 a2 b2 a3 b3 a4 b4 a5 b5 a6 b6 a7 b7 :
  let draws := fun k => nth k [(a0, b0); (a1, b1); (a2, b2); (a3, b3); (a4, b4); (a5, b5); (a6, b6); (a7, b7)] (a0, b0) in
  firstn 8 (pair_wABABBAAB (OO:=ROps) a0 b0 a1 b1 a2 b2 a3 b3 a4 b4 a5 b5 a6 b6 a7 b7) = deliveries draws st0 [ReqA; ReqB; ReqA; ReqB; ReqB; ReqA; ReqA; ReqB] /\
  nth 8 (pair_wABABBAAB (OO:=ROps) a0 b0 a1 b1 a2 b2 a3 b3 a4 b4 a5 b5 a6 b6 a7 b7) 0%R = IZR (Z.of_nat (drawn (run draws [ReqA; ReqB; ReqA; ReqB; ReqB; ReqA; ReqA; ReqB]))).
Proof. pairing. Qed.

Lemma tie_pair_wBBABBAAB a0 b0 a1 b1 a2 b2 a3 b3 a4 b4 a5 b5 a6 b6 a7 b7 :
  let draws := fun k => nth k [(a0, b0); (a1, b1); (a2, b2); (a3, b3); (a4, b4); (a5, b5); (a6, b6); (a7, b7)] (a0, b0) in
  firstn 8 (pair_wBBABBAAB (OO:=ROps) a0 b0 a1 b1 a2 b2 a3 b3 a4 b4 a5 b5 a6 b6 a7 b7) = deliveries draws st0 [ReqB; ReqB; ReqA; ReqB; ReqB; ReqA; ReqA; ReqB] /\
  nth 8 (pair_wBBABBAAB (OO:=ROps) a0 b0 a1 b1 a2 b2 a3 b3 a4 b4 a5 b5 a6 b6 a7 b7) 0%R = IZR (Z.of_nat (drawn (run draws [ReqB; ReqB; ReqA; ReqB; ReqB; ReqA; ReqA; ReqB]))).
Proof. pairing. Qed.

Lemma tie_pair_wAABBBAAB a0 b0 a1 b1 a2 b2 a3 b3 a4 b4 a5 b5 a6 b6 a7 b7 :
  let draws := fun k => nth k [(a0, b0); (a1, b1); (a2, b2); (a3, b3); (a4, b4); (a5, b5); (a6, b6); (a7, b7)] (a0, b0) in
  firstn 8 (pair_wAABBBAAB (OO:=ROps) a0 b0 a1 b1 a2 b2 a3 b3 a4 b4 a5 b5 a6 b6 a7 b7) = deliveries draws st0 [ReqA; ReqA; ReqB; ReqB; ReqB; ReqA; ReqA; ReqB] /\
  nth 8 (pair_wAABBBAAB (OO:=ROps) a0 b0 a1 b1 a2 b2 a3 b3 a4 b4 a5 b5 a6 b6 a7 b7) 0%R = IZR (Z.of_nat (drawn (run draws [ReqA; ReqA; ReqB; ReqB; ReqB; ReqA; ReqA; ReqB]))).
Proof. pairing. Qed.

Lemma tie_pair_wBABBBAAB a0 b0 a1 b1 a2 b2 a3 b3 a4 b4 a5 b5 a6 b6 a7 b7 :
  let draws := fun k => nth k [(a0, b0); (a1, b1); (a2, b2); (a3, b3); (a4, b4); (a5, b5); (a6, b6); (a7, b7)] (a0, b0) in
  firstn 8 (pair_wBABBBAAB (OO:=ROps) a0 b0 a1 b1 a2 b2 a3 b3 a4 b4 a5 b5 a6 b6 a7 b7) = deliveries draws st0 [ReqB; ReqA; ReqB; ReqB; ReqB; ReqA; ReqA; ReqB] /\
  nth 8 (pair_wBABBBAAB (OO:=ROps) a0 b0 a1 b1 a2 b2 a3 b3 a4 b4 a5 b5 a6 b6 a7 b7) 0%R = IZR (Z.of_nat (drawn (run draws [ReqB; ReqA; ReqB; ReqB; ReqB; ReqA; ReqA; ReqB]))).
Proof. pairing. Qed.

Lemma tie_pair_wABBBBAAB a0 b0 a1 b1 a2 b2 a3 b3 a4 b4 a5 b5 a6 b6 a7 b7 :
  let draws := fun k => nth k [(a0, b0); (a1, b1); (a2, b2); (a3, b3); (a4, b4); (a5, b5); (a6, b6); (a7, b7)] (a0, b0) in
  firstn 8 (pair_wABBBBAAB (OO:=ROps) a0 b0 a1 b1 a2 b2 a3 b3 a4 b4 a5 b5 a6 b6 a7 b7) = deliveries draws st0 [ReqA; ReqB; ReqB; ReqB; ReqB; ReqA; ReqA; ReqB] /\
  nth 8 (pair_wABBBBAAB (OO:=ROps) a0 b0 a1 b1 a2 b2 a3 b3 a4 b4 a5 b5 a6 b6 a7 b7) 0%R = IZR (Z.of_nat (drawn (run draws [ReqA; ReqB; ReqB; ReqB; ReqB; ReqA; ReqA; ReqB]))).
Proof. pairing. Qed.

Lemma tie_pair_wBBBBBAAB a0 b0 a1 b1 a2 b2 a3 b3 a4 b4 a5 b5 a6 b6 a7 b7 :
  let draws := fun k => nth k [(a0, b0); (a1, b1); (a2, b2); (a3, b3); (a4, b4); (a5, b5); (a6, b6); (a7, b7)] (a0, b0) in
  firstn 8 (pair_wBBBBBAAB (OO:=ROps) a0 b0 a1 b1 a2 b2 a3 b3 a4 b4 a5 b5 a6 b6 a7 b7) = deliveries draws st0 [ReqB; ReqB; ReqB; ReqB; ReqB; ReqA; ReqA; ReqB] /\
  nth 8 (pair_wBBBBBAAB (OO:=ROps) a0 b0 a1 b1 a2 b2 a3 b3 a4 b4 a5 b5 a6 b6 a7 b7) 0%R = IZR (Z.of_nat (drawn (run draws [ReqB; ReqB; ReqB; ReqB; ReqB; ReqA; ReqA; ReqB]))).
Proof. pairing. Qed.

Lemma tie_pair_wAAAAABAB a0 b0 a1 b1 a2 b2 a3 b3 a4 b4 a5 b5 a6 b6 a7 b7 :
  let draws := fun k => nth k [(a0, b0); (a1, b1); (a2, b2); (a3, b3); (a4, b4); (a5, b5); (a6, b6); (a7, b7)] (a0, b0) in
  firstn 8 (pair_wAAAAABAB (OO:=ROps) a0 b0 a1 b1 a2 b2 a3 b3 a4 b4 a5 b5 a6 b6 a7 b7) = deliveries draws st0 [ReqA; ReqA; ReqA; ReqA; ReqA; ReqB; ReqA; ReqB] /\
  nth 8 (pair_wAAAAABAB (OO:=ROps) a0 b0 a1 b1 a2 b2 a3 b3 a4 b4 a5 b5 a6 b6 a7 b7) 0%R = IZR (Z.of_nat (drawn (run draws [ReqA; ReqA; ReqA; ReqA; ReqA; ReqB; ReqA; ReqB]))).
Proof. pairing. Qed.

Lemma tie_pair_wBAAAABAB a0 b0 a1 b1 a2 b2 a3 b3 a4 b4 a5 b5 a6 b6 a7 b7 :
  let draws := fun k => nth k [(a0, b0); (a1, b1); (a2, b2); (a3, b3); (a4, b4); (a5, b5); (a6, b6); (a7, b7)] (a0, b0) in
  firstn 8 (pair_wBAAAABAB (OO:=ROps) a0 b0 a1 b1 a2 b2 a3 b3 a4 b4 a5 b5 a6 b6 a7 b7) = deliveries draws st0 [ReqB; ReqA; ReqA; ReqA; ReqA; ReqB; ReqA; ReqB] /\
  nth 8 (pair_wBAAAABAB (OO:=ROps) a0 b0 a1 b1 a2 b2 a3 b3 a4 b4 a5 b5 a6 b6 a7 b7) 0%R = IZR (Z.of_nat (drawn (run draws [ReqB; ReqA; ReqA; ReqA; ReqA; ReqB; ReqA; ReqB]))).
Proof. pairing. Qed.

Lemma tie_pair_wABAAABAB a0 b0 a1 b1 a2 b2 a3 b3 a4 b4 a5 b5 a6 b6 a7 b7 :
  let draws := fun k => nth k [(a0, b0); (a1, b1); (a2, b2); (a3, b3); (a4, b4); (a5, b5); (a6, b6); (a7, b7)] (a0, b0) in
  firstn 8 (pair_wABAAABAB (OO:=ROps) a0 b0 a1 b1 a2 b2 a3 b3 a4 b4 a5 b5 a6 b6 a7 b7) = deliveries draws st0 [ReqA; ReqB; ReqA; ReqA; ReqA; ReqB; ReqA; ReqB] /\
  nth 8 (pair_wABAAABAB (OO:=ROps) a0 b0 a1 b1 a2 b2 a3 b3 a4 b4 a5 b5 a6 b6 a7 b7) 0%R = IZR (Z.of_nat (drawn (run draws [ReqA; ReqB; ReqA; ReqA; ReqA; ReqB; ReqA; ReqB]))).
Proof. pairing. Qed.

Lemma tie_pair_wBBAAABAB a0 b0 a1 b1 a2 b2 a3 b3 a4 b4 a5 b5 a6 b6 a7 b7 :
  let draws := fun k => nth k [(a0, b0); (a1, b1); (a2, b2); (a3, b3); (a4, b4); (a5, b5); (a6, b6); (a7, b7)] (a0, b0) in
  firstn 8 (pair_wBBAAABAB (OO:=ROps) a0 b0 a1 b1 a2 b2 a3 b3 a4 b4 a5 b5 a6 b6 a7 b7) = deliveries draws st0 [ReqB; ReqB; ReqA; ReqA; ReqA; ReqB; ReqA; ReqB] /\
  nth 8 (pair_wBBAAABAB (OO:=ROps) a0 b0 a1 b1 a2 b2 a3 b3 a4 b4 a5 b5 a6 b6 a7 b7) 0%R = IZR (Z.of_nat (drawn (run draws [ReqB; ReqB; ReqA; ReqA; ReqA; ReqB; ReqA; ReqB]))).
Proof. pairing. Qed.

Lemma tie_pair_wAABAABAB a0 b0 a1 b1 a2 b2 a3 b3 a4 b4 a5 b5 a6 b6 a7 b7 :
  let draws := fun k => nth k [(a0, b0); (a1, b1); (a2, b2); (a3, b3); (a4, b4); (a5, b5); (a6, b6); (a7, b7)] (a0, b0) in
  firstn 8 (pair_wAABAABAB (OO:=ROps) a0 b0 a1 b1 a2 b2 a3 b3 a4 b4 a5 b5 a6 b6 a7 b7) = deliveries draws st0 [ReqA; ReqA; ReqB; ReqA; ReqA; ReqB; ReqA; ReqB] /\
  nth 8 (pair_wAABAABAB (OO:=ROps) a0 b0 a1 b1 a2 b2 a3 b3 a4 b4 a5 b5 a6 b6 a7 b7) 0%R = IZR (Z.of_nat (drawn (run draws [ReqA; ReqA; ReqB; ReqA; ReqA; ReqB; ReqA; ReqB]))).
Proof. pairing. Qed.

Lemma tie_pair_wBABAABAB a0 b0 a1 b1 a2 b2 a3 b3 a4 b4 a5 b5 a6 b6 a7 b7 :
  let draws := fun k => nth k [(a0, b0); (a1, b1); (a2, b2); (a3, b3); (a4, b4); (a5, b5); (a6, b6); (a7, b7)] (a0, b0) in
  firstn 8 (pair_wBABAABAB (OO:=ROps) a0 b0 a1 b1 a2 b2 a3 b3 a4 b4 a5 b5 a6 b6 a7 b7) = deliveries draws st0 [ReqB; ReqA; ReqB; ReqA; ReqA; ReqB; ReqA; ReqB] /\
  nth 8 (pair_wBABAABAB (OO:=ROps) a0 b0 a1 b1 a2 b2 a3 b3 a4 b4 a5 b5 a6 b6 a7 b7) 0%R = IZR (Z.of_nat (drawn (run draws [ReqB; ReqA; ReqB; ReqA; ReqA; ReqB; ReqA; ReqB]))).
Proof. pairing. Qed.

Lemma tie_pair_wABBAABAB a0 b0 a1 b1 a2 b2 a3 b3 a4 b4 a5 b5 a6 b6 a7 b7 :
  let draws := fun k => nth k [(a0, b0); (a1, b1); (a2, b2); (a3, b3); (a4, b4); (a5, b5); (a6, b6); (a7, b7)] (a0, b0) in
  firstn 8 (pair_wABBAABAB (OO:=ROps) a0 b0 a1 b1 a2 b2 a3 b3 a4 b4 a5 b5 a6 b6 a7 b7) = deliveries draws st0 [ReqA; ReqB; ReqB; ReqA; ReqA; ReqB; ReqA; ReqB] /\
  nth 8 (pair_wABBAABAB (OO:=ROps) a0 b0 a1 b1 a2 b2 a3 b3 a4 b4 a5 b5 a6 b6 a7 b7) 0%R = IZR (Z.of_nat (drawn (run draws [ReqA; ReqB; ReqB; ReqA; ReqA; ReqB; ReqA; ReqB]))).
Proof. pairing. Qed.

Lemma tie_pair_wBBBAABAB a0 b0 a1 b1 a2 b2 a3 b3 a4 b4 a5 b5 a6 b6 a7 b7 :
  let draws := fun k => nth k [(a0, b0); (a1, b1); (a2, b2); (a3, b3); (a4, b4); (a5, b5); (a6, b6); (a7, b7)] (a0, b0) in
  firstn 8 (pair_wBBBAABAB (OO:=ROps) a0 b0 a1 b1 a2 b2 a3 b3 a4 b4 a5 b5 a6 b6 a7 b7) = deliveries draws st0 [ReqB; ReqB; ReqB; ReqA; ReqA; ReqB; ReqA; ReqB] /\
  nth 8 (pair_wBBBAABAB (OO:=ROps) a0 b0 a1 b1 a2 b2 a3 b3 a4 b4 a5 b5 a6 b6 a7 b7) 0%R = IZR (Z.of_nat (drawn (run draws [ReqB; ReqB; ReqB; ReqA; ReqA; ReqB; ReqA; ReqB]))).
Proof. pairing. Qed.

Lemma tie_pair_wAAABABAB a0 b0 a1 b1 a2 b2 a3 b3 a4 b4 a5 b5 a6 b6 a7 b7 :
  let draws := fun k => nth k [(a0, b0); (a1, b1); (a2, b2); (a3, b3); (a4, b4); (a5, b5); (a6, b6); (a7, b7)] (a0, b0) in
  firstn 8 (pair_wAAABABAB (OO:=ROps) a0 b0 a1 b1 a2 b2 a3 b3 a4 b4 a5 b5 a6 b6 a7 b7) = deliveries draws st0 [ReqA; ReqA; ReqA; ReqB; ReqA; ReqB; ReqA; ReqB] /\
  nth 8 (pair_wAAABABAB (OO:=ROps) a0 b0 a1 b1 a2 b2 a3 b3 a4 b4 a5 b5 a6 b6 a7 b7) 0%R = IZR (Z.of_nat (drawn (run draws [ReqA; ReqA; ReqA; ReqB; ReqA; ReqB; ReqA; ReqB]))).
Proof. pairing. Qed.

Lemma tie_pair_wBAABABAB a0 b0 a1 b1 a2 b2 a3 b3 a4 b4 a5 b5 a6 b6 a7 b7 :
  let draws := fun k => nth k [(a0, b0); (a1, b1); (a2, b2); (a3, b3); (a4, b4); (a5, b5); (a6, b6); (a7, b7)] (a0, b0) in
  firstn 8 (pair_wBAABABAB (OO:=ROps) a0 b0 a1 b1 a2 b2 a3 b3 a4 b4 a5 b5 a6 b6 a7 b7) = deliveries draws st0 [ReqB; ReqA; ReqA; ReqB; ReqA; ReqB; ReqA; ReqB] /\
  nth 8 (pair_wBAABABAB (OO:=ROps) a0 b0 a1 b1 a2 b2 a3 b3 a4 b4 a5 b5 a6 b6 a7 b7) 0%R = IZR (Z.of_nat (drawn (run draws [ReqB; ReqA; ReqA; ReqB; ReqA; ReqB; ReqA; ReqB]))).
Proof. pairing. Qed.

Lemma tie_pair_wABABABAB a0 b0 a1 b1 a2 b2 a3 b3 a4 b4 a5 b5 a6 b6 a7 b7 :
  let draws := fun k => nth k [(a0, b0); (a1, b1); (a2, b2); (a3, b3); (a4, b4); (a5, b5); (a6, b6); (a7, b7)] (a0, b0) in
  firstn 8 (pair_wABABABAB (OO:=ROps) a0 b0 a1 b1 a2 b2 a3 b3 a4 b4 a5 b5 a6 b6 a7 b7) = deliveries draws st0 [ReqA; ReqB; ReqA; ReqB; ReqA; ReqB; ReqA; ReqB] /\
  nth 8 (pair_wABABABAB (OO:=ROps) a0 b0 a1 b1 a2 b2 a3 b3 a4 b4 a5 b5 a6 b6 a7 b7) 0%R = IZR (Z.of_nat (drawn (run draws [ReqA; ReqB; ReqA; ReqB; ReqA; ReqB; ReqA; ReqB]))).
Proof. pairing. Qed.

Lemma tie_pair_wBBABABAB a0 b0 a1 b1 a2 b2 a3 b3 a4 b4 a5 b5 a6 b6 a7 b7 :
  let draws := fun k => nth k [(a0, b0); (a1, b1); (a2, b2); (a3, b3); (a4, b4); (a5, b5); (a6, b6); (a7, b7)] (a0, b0) in
  firstn 8 (pair_wBBABABAB (OO:=ROps) a0 b0 a1 b1 a2 b2 a3 b3 a4 b4 a5 b5 a6 b6 a7 b7) = deliveries draws st0 [ReqB; ReqB; ReqA; ReqB; ReqA; ReqB; ReqA; ReqB] /\
  nth 8 (pair_wBBABABAB (OO:=ROps) a0 b0 a1 b1 a2 b2 a3 b3 a4 b4 a5 b5 a6 b6 a7 b7) 0%R = IZR (Z.of_nat (drawn (run draws [ReqB; ReqB; ReqA; ReqB; ReqA; ReqB; ReqA; ReqB]))).
Proof. pairing. Qed.

Lemma tie_pair_wAABBABAB a0 b0 a1 b1 a2 b2 a3 b3 a4 b4 a5 b5 a6 b6 a7 b7 :
  let draws := fun k => nth k [(a0, b0); (a1, b1); (a2, b2); (a3, b3); (a4, b4); (a5, b5); (a6, b6); (a7, b7)] (a0, b0) in
  firstn 8 (pair_wAABBABAB (OO:=ROps) a0 b0 a1 b1 a2 b2 a3 b3 a4 b4 a5 b5 a6 b6 a7 b7) = deliveries draws st0 [ReqA; ReqA; ReqB; ReqB; ReqA; ReqB; ReqA; ReqB] /\
  nth 8 (pair_wAABBABAB (OO:=ROps) a0 b0 a1 b1 a2 b2 a3 b3 a4 b4 a5 b5 a6 b6 a7 b7) 0%R = IZR (Z.of_nat (drawn (run draws [ReqA; ReqA; ReqB; ReqB; ReqA; ReqB; ReqA; ReqB]))).
Proof. pairing. Qed.

Lemma tie_pair_wBABBABAB a0 b0 a1 b1 a2 b2 a3 b3 a4 b4 a5 b5 a6 b6 a7 b7 :
  let draws := fun k => nth k [(a0, b0); (a1, b1); (a2, b2); (a3, b3); (a4, b4); (a5, b5); (a6, b6); (a7, b7)] (a0, b0) in
  firstn 8 (pair_wBABBABAB (OO:=ROps) a0 b0 a1 b1 a2 b2 a3 b3 a4 b4 a5 b5 a6 b6 a7 b7) = deliveries draws st0 [ReqB; ReqA; ReqB; ReqB; ReqA; ReqB; ReqA; ReqB] /\
  nth 8 (pair_wBABBABAB (OO:=ROps) a0 b0 a1 b1 a2 b2 a3 b3 a4 b4 a5 b5 a6 b6 a7 b7) 0%R = IZR (Z.of_nat (drawn (run draws [ReqB; ReqA; ReqB; ReqB; ReqA; ReqB; ReqA; ReqB]))).
Proof. pairing. Qed.

Lemma tie_pair_wABBBABAB a0 b0 a1 b1 a2 b2 a3 b3 a4 b4 a5 b5 a6 b6 a7 b7 :
  let draws := fun k => nth k [(a0, b0); (a1, b1); (a2, b2); (a3, b3); (a4, b4); (a5, b5); (a6, b6); (a7, b7)] (a0, b0) in
  firstn 8 (pair_wABBBABAB (OO:=ROps) a0 b0 a1 b1 a2 b2 a3 b3 a4 b4 a5 b5 a6 b6 a7 b7) = deliveries draws st0 [ReqA; ReqB; ReqB; ReqB; ReqA; ReqB; ReqA; ReqB] /\
  nth 8 (pair_wABBBABAB (OO:=ROps) a0 b0 a1 b1 a2 b2 a3 b3 a4 b4 a5 b5 a6 b6 a7 b7) 0%R = IZR (Z.of_nat (drawn (run draws [ReqA; ReqB; ReqB; ReqB; ReqA; ReqB; ReqA; ReqB]))).
Proof. pairing. Qed.

Lemma tie_pair_wBBBBABAB a0 b0 a1 b1 a2 b2 a3 b3 a4 b4 a5 b5 a6 b6 a7 b7 :
  let draws := fun k => nth k [(a0, b0); (a1, b1); (a2, b2); (a3, b3); (a4, b4); (a5, b5); (a6, b6); (a7, b7)] (a0, b0) in
  firstn 8 (pair_wBBBBABAB (OO:=ROps) a0 b0 a1 b1 a2 b2 a3 b3 a4 b4 a5 b5 a6 b6 a7 b7) = deliveries draws st0 [ReqB; ReqB; ReqB; ReqB; ReqA; ReqB; ReqA; ReqB] /\
  nth 8 (pair_wBBBBABAB (OO:=ROps) a0 b0 a1 b1 a2 b2 a3 b3 a4 b4 a5 b5 a6 b6 a7 b7) 0%R = IZR (Z.of_nat (drawn (run draws [ReqB; ReqB; ReqB; ReqB; ReqA; ReqB; ReqA; ReqB]))).
Proof. pairing. Qed.

Lemma tie_pair_wAAAABBAB a0 b0 a1 b1 a2 b2 a3 b3 a4 b4 a5 b5 a6 b6 a7 b7 :
  let draws := fun k => nth k [(a0, b0); (a1, b1); (a2, b2); (a3, b3); (a4, b4); (a5, b5); (a6, b6); (a7, b7)] (a0, b0) in
  firstn 8 (pair_wAAAABBAB (OO:=ROps) a0 b0 a1 b1 a2 b2 a3 b3 a4 b4 a5 b5 a6 b6 a7 b7) = deliveries draws st0 [ReqA; ReqA; ReqA; ReqA; ReqB; ReqB; ReqA; ReqB] /\
  nth 8 (pair_wAAAABBAB (OO:=ROps) a0 b0 a1 b1 a2 b2 a3 b3 a4 b4 a5 b5 a6 b6 a7 b7) 0%R = IZR (Z.of_nat (drawn (run draws [ReqA; ReqA; ReqA; ReqA; ReqB; ReqB; ReqA; ReqB]))).
Proof. pairing. Qed.

Lemma tie_pair_wBAAABBAB a0 b0 a1 b1 a2 b2 a3 b3 a4 b4 a5 b5 a6 b6 a7 b7 :
  let draws := fun k => nth k [(a0, b0); (a1, b1); (a2, b2); (a3, b3); (a4, b4); (a5, b5); (a6, b6); (a7, b7)] (a0, b0) in
  firstn 8 (pair_wBAAABBAB (OO:=ROps) a0 b0 a1 b1 a2 b2 a3 b3 a4 b4 a5 b5 a6 b6 a7 b7) = deliveries draws st0 [ReqB; ReqA; ReqA; ReqA; ReqB; ReqB; ReqA; ReqB] /\
  nth 8 (pair_wBAAABBAB (OO:=ROps) a0 b0 a1 b1 a2 b2 a3 b3 a4 b4 a5 b5 a6 b6 a7 b7) 0%R = IZR (Z.of_nat (drawn (run draws [ReqB; ReqA; ReqA; ReqA; ReqB; ReqB; ReqA; ReqB]))).
Proof. pairing. Qed.

Lemma tie_pair_wABAABBAB a0 b0 a1 b1 a2 b2 a3 b3 a4 b4 a5 b5 a6 b6 a7 b7 :
  let draws := fun k => nth k [(a0, b0); (a1, b1); (a2, b2); (a3, b3); (a4, b4); (a5, b5); (a6, b6); (a7, b7)] (a0, b0) in
  firstn 8 (pair_wABAABBAB (OO:=ROps) a0 b0 a1 b1 a2 b2 a3 b3 a4 b4 a5 b5 a6 b6 a7 b7) = deliveries draws st0 [ReqA; ReqB; ReqA; ReqA; ReqB; ReqB; ReqA; ReqB] /\
  nth 8 (pair_wABAABBAB (OO:=ROps) a0 b0 a1 b1 a2 b2 a3 b3 a4 b4 a5 b5 a6 b6 a7 b7) 0%R = IZR (Z.of_nat (drawn (run draws [ReqA; ReqB; ReqA; ReqA; ReqB; ReqB; ReqA; ReqB]))).
Proof. pairing. Qed.

Lemma tie_pair_wBBAABBAB a0 b0 a1 b1 a2 b2 a3 b3 a4 b4 a5 b5 a6 b6 a7 b7 :
  let draws := fun k => nth k [(a0, b0); (a1, b1); (a2, b2); (a3, b3); (a4, b4); (a5, b5); (a6, b6); (a7, b7)] (a0, b0) in
  firstn 8 (pair_wBBAABBAB (OO:=ROps) a0 b0 a1 b1 a2 b2 a3 b3 a4 b4 a5 b5 a6 b6 a7 b7) = deliveries draws st0 [ReqB; ReqB; ReqA; ReqA; ReqB; ReqB; ReqA; ReqB] /\
  nth 8 (pair_wBBAABBAB (OO:=ROps) a0 b0 a1 b1 a2 b2 a3 b3 a4 b4 a5 b5 a6 b6 a7 b7) 0%R = IZR (Z.of_nat (drawn (run draws [ReqB; ReqB; ReqA; ReqA; ReqB; ReqB; ReqA; ReqB]))).
Proof. pairing. Qed.

Lemma tie_pair_wAABABBAB a0 b0 a1 b1 a2 b2 a3 b3 a4 b4 a5 b5 a6 b6 a7 b7 :
  let draws := fun k => nth k [(a0, b0); (a1, b1); (a2, b2); (a3, b3); (a4, b4); (a5, b5); (a6, b6); (a7, b7)] (a0, b0) in
  firstn 8 (pair_wAABABBAB (OO:=ROps) a0 b0 a1 b1 a2 b2 a3 b3 a4 b4 a5 b5 a6 b6 a7 b7) = deliveries draws st0 [ReqA; ReqA; ReqB; ReqA; ReqB; ReqB; ReqA; ReqB] /\
  nth 8 (pair_wAABABBAB (OO:=ROps) a0 b0 a1 b1 a2 b2 a3 b3 a4 b4 a5 b5 a6 b6 a7 b7) 0%R = IZR (Z.of_nat (drawn (run draws [ReqA; ReqA; ReqB; ReqA; ReqB; ReqB; ReqA; ReqB]))).
Proof. pairing. Qed.

Lemma tie_pair_wBABABBAB a0 b0 a1 b1 a2 b2 a3 b3 a4 b4 a5 b5 a6 b6 a7 b7 :
  let draws := fun k => nth k [(a0, b0); (a1, b1); (a2, b2); (a3, b3); (a4, b4); (a5, b5); (a6, b6); (a7, b7)] (a0, b0) in
  firstn 8 (pair_wBABABBAB (OO:=ROps) a0 b0 a1 b1 a2 b2 a3 b3 a4 b4 a5 b5 a6 b6 a7 b7) = deliveries draws st0 [ReqB; ReqA; ReqB; ReqA; ReqB; ReqB; ReqA; ReqB] /\
  nth 8 (pair_wBABABBAB (OO:=ROps) a0 b0 a1 b1 a2 b2 a3 b3 a4 b4 a5 b5 a6 b6 a7 b7) 0%R = IZR (Z.of_nat (drawn (run draws [ReqB; ReqA; ReqB; ReqA; ReqB; ReqB; ReqA; ReqB]))).
Proof. pairing. Qed.

Lemma tie_pair_wABBABBAB a0 b0 a1 b1 a2 b2 a3 b3 a4 b4 a5 b5 a6 b6 a7 b7 :
  let draws := fun k => nth k [(a0, b0); (a1, b1); (a2, b2); (a3, b3); (a4, b4); (a5, b5); (a6, b6); (a7, b7)] (a0, b0) in
  firstn 8 (pair_wABBABBAB (OO:=ROps) a0 b0 a1 b1 a2 b2 a3 b3 a4 b4 a5 b5 a6 b6 a7 b7) = deliveries draws st0 [ReqA; ReqB; ReqB; ReqA; ReqB; ReqB; ReqA; ReqB] /\
  nth 8 (pair_wABBABBAB (OO:=ROps) a0 b0 a1 b1 a2 b2 a3 b3 a4 b4 a5 b5 a6 b6 a7 b7) 0%R = IZR (Z.of_nat (drawn (run draws [ReqA; ReqB; ReqB; ReqA; ReqB; ReqB; ReqA; ReqB]))).
Proof. pairing. Qed.

Lemma tie_pair_wBBBABBAB a0 b0 a1 b1 a2 b2 a3 b3 a4 b4 a5 b5 a6 b6 a7 b7 :
  let draws := fun k => nth k [(a0, b0); (a1, b1); (a2, b2); (a3, b3); (a4, b4); (a5, b5); (a6, b6); (a7, b7)] (a0, b0) in
  firstn 8 (pair_wBBBABBAB (OO:=ROps) a0 b0 a1 b1 a2 b2 a3 b3 a4 b4 a5 b5 a6 b6 a7 b7) = deliveries draws st0 [ReqB; ReqB; ReqB; ReqA; ReqB; ReqB; ReqA; ReqB] /\
  nth 8 (pair_wBBBABBAB (OO:=ROps) a0 b0 a1 b1 a2 b2 a3 b3 a4 b4 a5 b5 a6 b6 a7 b7) 0%R = IZR (Z.of_nat (drawn (run draws [ReqB; ReqB; ReqB; ReqA; ReqB; ReqB; ReqA; ReqB]))).
Proof. pairing. Qed.

Lemma tie_pair_wAAABBBAB a0 b0 a1 b1 a2 b2 a3 b3 a4 b4 a5 b5 a6 b6 a7 b7 :
  let draws := fun k => nth k [(a0, b0); (a1, b1); (a2, b2); (a3, b3); (a4, b4); (a5, b5); (a6, b6); (a7, b7)] (a0, b0) in
  firstn 8 (pair_wAAABBBAB (OO:=ROps) a0 b0 a1 b1 a2 b2 a3 b3 a4 b4 a5 b5 a6 b6 a7 b7) = deliveries draws st0 [ReqA; ReqA; ReqA; ReqB; ReqB; ReqB; ReqA; ReqB] /\
  nth 8 (pair_wAAABBBAB (OO:=ROps) a0 b0 a1 b1 a2 b2 a3 b3 a4 b4 a5 b5 a6 b6 a7 b7) 0%R = IZR (Z.of_nat (drawn (run draws [ReqA; ReqA; ReqA; ReqB; ReqB; ReqB; ReqA; ReqB]))).
Proof. pairing. Qed.

Lemma tie_pair_wBAABBBAB a0 b0 a1 b1 a2 b2 a3 b3 a4 b4 a5 b5 a6 b6 a7 b7 :
  let draws := fun k => nth k [(a0, b0); (a1, b1); (a2, b2); (a3, b3); (a4, b4); (a5, b5); (a6, b6); (a7, b7)] (a0, b0) in
  firstn 8 (pair_wBAABBBAB (OO:=ROps) a0 b0 a1 b1 a2 b2 a3 b3 a4 b4 a5 b5 a6 b6 a7 b7) = deliveries draws st0 [ReqB; ReqA; ReqA; ReqB; ReqB; ReqB; ReqA; ReqB] /\
  nth 8 (pair_wBAABBBAB (OO:=ROps) a0 b0 a1 b1 a2 b2 a3 b3 a4 b4 a5 b5 a6 b6 a7 b7) 0%R = IZR (Z.of_nat (drawn (run draws [ReqB; ReqA; ReqA; ReqB; ReqB; ReqB; ReqA; ReqB]))).
Proof. pairing. Qed.

Lemma tie_pair_wABABBBAB a0 b0 a1 b1 a2 b2 a3 b3 a4 b4 a5 b5 a6 b6 a7 b7 :
  let draws := fun k => nth k [(a0, b0); (a1, b1); (a2, b2); (a3, b3); (a4, b4); (a5, b5); (a6, b6); (a7, b7)] (a0, b0) in
  firstn 8 (pair_wABABBBAB (OO:=ROps) a0 b0 a1 b1 a2 b2 a3 b3 a4 b4 a5 b5 a6 b6 a7 b7) = deliveries draws st0 [ReqA; ReqB; ReqA; ReqB; ReqB; ReqB; ReqA; ReqB] /\
  nth 8 (pair_wABABBBAB (OO:=ROps) a0 b0 a1 b1 a2 b2 a3 b3 a4 b4 a5 b5 a6 b6 a7 b7) 0%R = IZR (Z.of_nat (drawn (run draws [ReqA; ReqB; ReqA; ReqB; ReqB; ReqB; ReqA; ReqB]))).
Proof. pairing. Qed.

Lemma tie_pair_wBBABBBAB a0 b0 a1 b1 a2 b2 a3 b3 a4 b4 a5 b5 a6 b6 a7 b7 :
  let draws := fun k => nth k [(a0, b0); (a1, b1); (a2, b2); (a3, b3); (a4, b4); (a5, b5); (a6, b6); (a7, b7)] (a0, b0) in
  firstn 8 (pair_wBBABBBAB (OO:=ROps) a0 b0 a1 b1 a2 b2 a3 b3 a4 b4 a5 b5 a6 b6 a7 b7) = deliveries draws st0 [ReqB; ReqB; ReqA; ReqB; ReqB; ReqB; ReqA; ReqB] /\
  nth 8 (pair_wBBABBBAB (OO:=ROps) a0 b0 a1 b1 a2 b2 a3 b3 a4 b4 a5 b5 a6 b6 a7 b7) 0%R = IZR (Z.of_nat (drawn (run draws [ReqB; ReqB; ReqA; ReqB; ReqB; ReqB; ReqA; ReqB]))).
Proof. pairing. Qed.

Lemma tie_pair_wAABBBBAB a0 b0 a1 b1 a2 b2 a3 b3 a4 b4 a5 b5 a6 b6 a7 b7 :
  let draws := fun k => nth k [(a0, b0); (a1, b1); (a2, b2); (a3, b3); (a4, b4); (a5, b5); (a6, b6); (a7, b7)] (a0, b0) in
  firstn 8 (pair_wAABBBBAB (OO:=ROps) a0 b0 a1 b1 a2 b2 a3 b3 a4 b4 a5 b5 a6 b6 a7 b7) = deliveries draws st0 [ReqA; ReqA; ReqB; ReqB; ReqB; ReqB; ReqA; ReqB] /\
  nth 8 (pair_wAABBBBAB (OO:=ROps) a0 b0 a1 b1 a2 b2 a3 b3 a4 b4 a5 b5 a6 b6 a7 b7) 0%R = IZR (Z.of_nat (drawn (run draws [ReqA; ReqA; ReqB; ReqB; ReqB; ReqB; ReqA; ReqB]))).
Proof. pairing. Qed.

Lemma tie_pair_wBABBBBAB a0 b0 a1 b1 a2 b2 a3 b3 a4 b4 a5 b5 a6 b6 a7 b7 :
  let draws := fun k => nth k [(a0, b0); (a1, b1); (a2, b2); (a3, b3); (a4, b4); (a5, b5); (a6, b6); (a7, b7)] (a0, b0) in
  firstn 8 (pair_wBABBBBAB (OO:=ROps) a0 b0 a1 b1 a2 b2 a3 b3 a4 b4 a5 b5 a6 b6 a7 b7) = deliveries draws st0 [ReqB; ReqA; ReqB; ReqB; ReqB; ReqB; ReqA; ReqB] /\
  nth 8 (pair_wBABBBBAB (OO:=ROps) a0 b0 a1 b1 a2 b2 a3 b3 a4 b4 a5 b5 a6 b6 a7 b7) 0%R = IZR (Z.of_nat (drawn (run draws [ReqB; ReqA; ReqB; ReqB; ReqB; ReqB; ReqA; ReqB]))).
Proof. pairing. Qed.

Lemma tie_pair_wABBBBBAB a0 b0 a1 b1 a2 b2 a3 b3 a4 b4 a5 b5 a6 b6 a7 b7 :
  let draws := fun k => nth k [(a0, b0); (a1, b1); (a2, b2); (a3, b3); (a4, b4); (a5, b5); (a6, b6); (a7, b7)] (a0, b0) in
  firstn 8 (pair_wABBBBBAB (OO:=ROps) a0 b0 a1 b1 a2 b2 a3 b3 a4 b4 a5 b5 a6 b6 a7 b7) = deliveries draws st0 [ReqA; ReqB; ReqB; ReqB; ReqB; ReqB; ReqA; ReqB] /\
  nth 8 (pair_wABBBBBAB (OO:=ROps) a0 b0 a1 b1 a2 b2 a3 b3 a4 b4 a5 b5 a6 b6 a7 b7) 0%R = IZR (Z.of_nat (drawn (run draws [ReqA; ReqB; ReqB; ReqB; ReqB; ReqB; ReqA; ReqB]))).
Proof. pairing. Qed.

Lemma tie_pair_wBBBBBBAB a0 b0 a1 b1 a2 b2 a3 b3 a4 b4 a5 b5 a6 b6 a7 b7 :
  let draws := fun k => nth k [(a0, b0); (a1, b1); (a2, b2); (a3, b3); (a4, b4); (a5, b5); (a6, b6); (a7, b7)] (a0, b0) in
  firstn 8 (pair_wBBBBBBAB (OO:=ROps) a0 b0 a1 b1 a2 b2 a3 b3 a4 b4 a5 b5 a6 b6 a7 b7) = deliveries draws st0 [ReqB; ReqB; ReqB; ReqB; ReqB; ReqB; ReqA; ReqB] /\
  nth 8 (pair_wBBBBBBAB (OO:=ROps) a0 b0 a1 b1 a2 b2 a3 b3 a4 b4 a5 b5 a6 b6 a7 b7) 0%R = IZR (Z.of_nat (drawn (run draws [ReqB; ReqB; ReqB; ReqB; ReqB; ReqB; ReqA; ReqB]))).
Proof. pairing. Qed.

Lemma tie_pair_wAAAAAABB a0 b0 a1 b1 a2 b2 a3 b3 a4 b4 a5 b5 a6 b6 a7 b7 :
  let draws := fun k => nth k [(a0, b0); (a1, b1); (a2, b2); (a3, b3); (a4, b4); (a5, b5); (a6, b6); (a7, b7)] (a0, b0) in
  firstn 8 (pair_wAAAAAABB (OO:=ROps) a0 b0 a1 b1 a2 b2 a3 b3 a4 b4 a5 b5 a6 b6 a7 b7) = deliveries draws st0 [ReqA; ReqA; ReqA; ReqA; ReqA; ReqA; ReqB; ReqB] /\
  nth 8 (pair_wAAAAAABB (OO:=ROps) a0 b0 a1 b1 a2 b2 a3 b3 a4 b4 a5 b5 a6 b6 a7 b7) 0%R = IZR (Z.of_nat (drawn (run draws [ReqA; ReqA; ReqA; ReqA; ReqA; ReqA; ReqB; ReqB]))).
Proof. pairing. Qed.

Lemma tie_pair_wBAAAAABB a0 b0 a1 b1 a2 b2 a3 b3 a4 b4 a5 b5 a6 b6 a7 b7 :
  let draws := fun k => nth k [(a0, b0); (a1, b1); (a2, b2); (a3, b3); (a4, b4); (a5, b5); (a6, b6); (a7, b7)] (a0, b0) in
  firstn 8 (pair_wBAAAAABB (OO:=ROps) a0 b0 a1 b1 a2 b2 a3 b3 a4 b4 a5 b5 a6 b6 a7 b7) = deliveries draws st0 [ReqB; ReqA; ReqA; ReqA; ReqA; ReqA; ReqB; ReqB] /\
  nth 8 (pair_wBAAAAABB (OO:=ROps) a0 b0 a1 b1 a2 b2 a3 b3 a4 b4 a5 b5 a6 b6 a7 b7) 0%R = IZR (Z.of_nat (drawn (run draws [ReqB; ReqA; ReqA; ReqA; ReqA; ReqA; ReqB; ReqB]))).
Proof. pairing. Qed.

Lemma tie_pair_wABAAAABB a0 b0 a1 b1 a2 b2 a3 b3 a4 b4 a5 b5 a6 b6 a7 b7 :
  let draws := fun k => nth k [(a0, b0); (a1, b1); (a2, b2); (a3, b3); (a4, b4); (a5, b5); (a6, b6); (a7, b7)] (a0, b0) in
  firstn 8 (pair_wABAAAABB (OO:=ROps) a0 b0 a1 b1 a2 b2 a3 b3 a4 b4 a5 b5 a6 b6 a7 b7) = deliveries draws st0 [ReqA; ReqB; ReqA; ReqA; ReqA; ReqA; ReqB; ReqB] /\
  nth 8 (pair_wABAAAABB (OO:=ROps) a0 b0 a1 b1 a2 b2 a3 b3 a4 b4 a5 b5 a6 b6 a7 b7) 0%R = IZR (Z.of_nat (drawn (run draws [ReqA; ReqB; ReqA; ReqA; ReqA; ReqA; ReqB; ReqB]))).
Proof. pairing. Qed.

Lemma tie_pair_wBBAAAABB a0 b0 a1 b1 a2 b2 a3 b3 a4 b4 a5 b5 a6 b6 a7 b7 :
  let draws := fun k => nth k [(a0, b0); (a1, b1); (a2, b2); (a3, b3); (a4, b4); (a5, b5); (a6, b6); (a7, b7)] (a0, b0) in
  firstn 8 (pair_wBBAAAABB (OO:=ROps) a0 b0 a1 b1 a2 b2 a3 b3 a4 b4 a5 b5 a6 b6 a7 b7) = deliveries draws st0 [ReqB; ReqB; ReqA; ReqA; ReqA; ReqA; ReqB; ReqB] /\
  nth 8 (pair_wBBAAAABB (OO:=ROps) a0 b0 a1 b1 a2 b2 a3 b3 a4 b4 a5 b5 a6 b6 a7 b7) 0%R = IZR (Z.of_nat (drawn (run draws [ReqB; ReqB; ReqA; ReqA; ReqA; ReqA; ReqB; ReqB]))).
Proof. pairing. Qed.

Lemma tie_pair_wAABAAABB a0 b0 a1 b1 a2 b2 a3 b3 a4 b4 a5 b5 a6 b6 a7 b7 :
  let draws := fun k => nth k [(a0, b0); (a1, b1); (a2, b2); (a3, b3); (a4, b4); (a5, b5); (a6, b6); (a7, b7)] (a0, b0) in
  firstn 8 (pair_wAABAAABB (OO:=ROps) a0 b0 a1 b1 a2 b2 a3 b3 a4 b4 a5 b5 a6 b6 a7 b7) = deliveries draws st0 [ReqA; ReqA; ReqB; ReqA; ReqA; ReqA; ReqB; ReqB] /\
  nth 8 (pair_wAABAAABB (OO:=ROps) a0 b0 a1 b1 a2 b2 a3 b3 a4 b4 a5 b5 a6 b6 a7 b7) 0%R = IZR (Z.of_nat (drawn (run draws [ReqA; ReqA; ReqB; ReqA; ReqA; ReqA; ReqB; ReqB]))).
Proof. pairing. Qed.

Lemma tie_pair_wBABAAABB a0 b0 a1 b1 a2 b2 a3 b3 a4 b4 a5 b5 a6 b6 a7 b7 :
  let draws := fun k => nth k [(a0, b0); (a1, b1); (a2, b2); (a3, b3); (a4, b4); (a5, b5); (a6, b6); (a7, b7)] (a0, b0) in
  firstn 8 (pair_wBABAAABB (OO:=ROps) a0 b0 a1 b1 a2 b2 a3 b3 a4 b4 a5 b5 a6 b6 a7 b7) = deliveries draws st0 [ReqB; ReqA; ReqB; ReqA; ReqA; ReqA; ReqB; ReqB] /\
  nth 8 (pair_wBABAAABB (OO:=ROps) a0 b0 a1 b1 a2 b2 a3 b3 a4 b4 a5 b5 a6 b6 a7 b7) 0%R = IZR (Z.of_nat (drawn (run draws [ReqB; ReqA; ReqB; ReqA; ReqA; ReqA; ReqB; ReqB]))).
Proof. pairing. Qed.

Lemma tie_pair_wABBAAABB a0 b0 a1 b1 a2 b2 a3 b3 a4 b4 a5 b5 a6 b6 a7 b7 :
  let draws := fun k => nth k [(a0, b0); (a1, b1); (a2, b2); (a3, b3); (a4, b4); (a5, b5); (a6, b6); (a7, b7)] (a0, b0) in
  firstn 8 (pair_wABBAAABB (OO:=ROps) a0 b0 a1 b1 a2 b2 a3 b3 a4 b4 a5 b5 a6 b6 a7 b7) = deliveries draws st0 [ReqA; ReqB; ReqB; ReqA; ReqA; ReqA; ReqB; ReqB] /\
  nth 8 (pair_wABBAAABB (OO:=ROps) a0 b0 a1 b1 a2 b2 a3 b3 a4 b4 a5 b5 a6 b6 a7 b7) 0%R = IZR (Z.of_nat (drawn (run draws [ReqA; ReqB; ReqB; ReqA; ReqA; ReqA; ReqB; ReqB]))).
Proof. pairing. Qed.

Lemma tie_pair_wBBBAAABB a0 b0 a1 b1 a2 b2 a3 b3 a4 b4 a5 b5 a6 b6 a7 b7 :
  let draws := fun k => nth k [(a0, b0); (a1, b1); (a2, b2); (a3, b3); (a4, b4); (a5, b5); (a6, b6); (a7, b7)] (a0, b0) in
  firstn 8 (pair_wBBBAAABB (OO:=ROps) a0 b0 a1 b1 a2 b2 a3 b3 a4 b4 a5 b5 a6 b6 a7 b7) = deliveries draws st0 [ReqB; ReqB; ReqB; ReqA; ReqA; ReqA; ReqB; ReqB] /\
  nth 8 (pair_wBBBAAABB (OO:=ROps) a0 b0 a1 b1 a2 b2 a3 b3 a4 b4 a5 b5 a6 b6 a7 b7) 0%R = IZR (Z.of_nat (drawn (run draws [ReqB; ReqB; ReqB; ReqA; ReqA; ReqA; ReqB; ReqB]))).
Proof. pairing. Qed.

Lemma tie_pair_wAAABAABB a0 b0 a1 b1 a2 b2 a3 b3 a4 b4 a5 b5 a6 b6 a7 b7 :
  let draws := fun k => nth k [(a0, b0); (a1, b1); (a2, b2); (a3, b3); (a4, b4); (a5, b5); (a6, b6); (a7, b7)] (a0, b0) in
  firstn 8 (pair_wAAABAABB (OO:=ROps) a0 b0 a1 b1 a2 b2 a3 b3 a4 b4 a5 b5 a6 b6 a7 b7) = deliveries draws st0 [ReqA; ReqA; ReqA; ReqB; ReqA; ReqA; ReqB; ReqB] /\
  nth 8 (pair_wAAABAABB (OO:=ROps) a0 b0 a1 b1 a2 b2 a3 b3 a4 b4 a5 b5 a6 b6 a7 b7) 0%R = IZR (Z.of_nat (drawn (run draws [ReqA; ReqA; ReqA; ReqB; ReqA; ReqA; ReqB; ReqB]))).
Proof. pairing. Qed.

Lemma tie_pair_wBAABAABB a0 b0 a1 b1 a2 b2 a3 b3 a4 b4 a5 b5 a6 b6 a7 b7 :
  let draws := fun k => nth k [(a0, b0); (a1, b1); (a2, b2); (a3, b3); (a4, b4); (a5, b5); (a6, b6); (a7, b7)] (a0, b0) in
  firstn 8 (pair_wBAABAABB (OO:=ROps) a0 b0 a1 b1 a2 b2 a3 b3 a4 b4 a5 b5 a6 b6 a7 b7) = deliveries draws st0 [ReqB; ReqA; ReqA; ReqB; ReqA; ReqA; ReqB; ReqB] /\
  nth 8 (pair_wBAABAABB (OO:=ROps) a0 b0 a1 b1 a2 b2 a3 b3 a4 b4 a5 b5 a6 b6 a7 b7) 0%R = IZR (Z.of_nat (drawn (run draws [ReqB; ReqA; ReqA; ReqB; ReqA; ReqA; ReqB; ReqB]))).
Proof. pairing. Qed.

Lemma tie_pair_wABABAABB a0 b0 a1 b1 a2 b2 a3 b3 a4 b4 a5 b5 a6 b6 a7 b7 :
  let draws := fun k => nth k [(a0, b0); (a1, b1); (a2, b2); (a3, b3); (a4, b4); (a5, b5); (a6, b6); (a7, b7)] (a0, b0) in
  firstn 8 (pair_wABABAABB (OO:=ROps) a0 b0 a1 b1 a2 b2 a3 b3 a4 b4 a5 b5 a6 b6 a7 b7) = deliveries draws st0 [ReqA; ReqB; ReqA; ReqB; ReqA; ReqA; ReqB; ReqB] /\
  nth 8 (pair_wABABAABB (OO:=ROps) a0 b0 a1 b1 a2 b2 a3 b3 a4 b4 a5 b5 a6 b6 a7 b7) 0%R = IZR (Z.of_nat (drawn (run draws [ReqA; ReqB; ReqA; ReqB; ReqA; ReqA; ReqB; ReqB]))).
Proof. pairing. Qed.

Lemma tie_pair_wBBABAABB a0 b0 a1 b1 a2 b2 a3 b3 a4 b4 a5 b5 a6 b6 a7 b7 :
  let draws := fun k => nth k [(a0, b0); (a1, b1); (a2, b2); (a3, b3); (a4, b4); (a5, b5); (a6, b6); (a7, b7)] (a0, b0) in
  firstn 8 (pair_wBBABAABB (OO:=ROps) a0 b0 a1 b1 a2 b2 a3 b3 a4 b4 a5 b5 a6 b6 a7 b7) = deliveries draws st0 [ReqB; ReqB; ReqA; ReqB; ReqA; ReqA; ReqB; ReqB] /\
  nth 8 (pair_wBBABAABB (OO:=ROps) a0 b0 a1 b1 a2 b2 a3 b3 a4 b4 a5 b5 a6 b6 a7 b7) 0%R = IZR (Z.of_nat (drawn (run draws [ReqB; ReqB; ReqA; ReqB; ReqA; ReqA; ReqB; ReqB]))).
Proof. pairing. Qed.

Lemma tie_pair_wAABBAABB a0 b0 a1 b1 a2 b2 a3 b3 a4 b4 a5 b5 a6 b6 a7 b7 :
  let draws := fun k => nth k [(a0, b0); (a1, b1); (a2, b2); (a3, b3); (a4, b4); (a5, b5); (a6, b6); (a7, b7)] (a0, b0) in
  firstn 8 (pair_wAABBAABB (OO:=ROps) a0 b0 a1 b1 a2 b2 a3 b3 a4 b4 a5 b5 a6 b6 a7 b7) = deliveries draws st0 [ReqA; ReqA; ReqB; ReqB; ReqA; ReqA; ReqB; ReqB] /\
  nth 8 (pair_wAABBAABB (OO:=ROps) a0 b0 a1 b1 a2 b2 a3 b3 a4 b4 a5 b5 a6 b6 a7 b7) 0%R = IZR (Z.of_nat (drawn (run draws [ReqA; ReqA; ReqB; ReqB; ReqA; ReqA; ReqB; ReqB]))).
Proof. pairing. Qed.

Lemma tie_pair_wBABBAABB a0 b0 a1 b1 a2 b2 a3 b3 a4 b4 a5 b5 a6 b6 a7 b7 :
  let draws := fun k => nth k [(a0, b0); (a1, b1); (a2, b2); (a3, b3); (a4, b4); (a5, b5); (a6, b6); (a7, b7)] (a0, b0) in
  firstn 8 (pair_wBABBAABB (OO:=ROps) a0 b0 a1 b1 a2 b2 a3 b3 a4 b4 a5 b5 a6 b6 a7 b7) = deliveries draws st0 [ReqB; ReqA; ReqB; ReqB; ReqA; ReqA; ReqB; ReqB] /\
  nth 8 (pair_wBABBAABB (OO:=ROps) a0 b0 a1 b1 a2 b2 a3 b3 a4 b4 a5 b5 a6 b6 a7 b7) 0%R = IZR (Z.of_nat (drawn (run draws [ReqB; ReqA; ReqB; ReqB; ReqA; ReqA; ReqB; ReqB]))).
Proof. pairing. Qed.

Lemma tie_pair_wABBBAABB a0 b0 a1 b1 a2 b2 a3 b3 a4 b4 a5 b5 a6 b6 a7 b7 :
  let draws := fun k => nth k [(a0, b0); (a1, b1); (a2, b2); (a3, b3); (a4, b4); (a5, b5); (a6, b6); (a7, b7)] (a0, b0) in
  firstn 8 (pair_wABBBAABB (OO:=ROps) a0 b0 a1 b1 a2 b2 a3 b3 a4 b4 a5 b5 a6 b6 a7 b7) = deliveries draws st0 [ReqA; ReqB; ReqB; ReqB; ReqA; ReqA; ReqB; ReqB] /\
  nth 8 (pair_wABBBAABB (OO:=ROps) a0 b0 a1 b1 a2 b2 a3 b3 a4 b4 a5 b5 a6 b6 a7 b7) 0%R = IZR (Z.of_nat (drawn (run draws [ReqA; ReqB; ReqB; ReqB; ReqA; ReqA; ReqB; ReqB]))).
Proof. pairing. Qed.

Lemma tie_pair_wBBBBAABB a0 b0 a1 b1 a2 b2 a3 b3 a4 b4 a5 b5 a6 b6 a7 b7 :
  let draws := fun k => nth k [(a0, b0); (a1, b1); (a2, b2); (a3, b3); (a4, b4); (a5, b5); (a6, b6); (a7, b7)] (a0, b0) in
  firstn 8 (pair_wBBBBAABB (OO:=ROps) a0 b0 a1 b1 a2 b2 a3 b3 a4 b4 a5 b5 a6 b6 a7 b7) = deliveries draws st0 [ReqB; ReqB; ReqB; ReqB; ReqA; ReqA; ReqB; ReqB] /\
  nth 8 (pair_wBBBBAABB (OO:=ROps) a0 b0 a1 b1 a2 b2 a3 b3 a4 b4 a5 b5 a6 b6 a7 b7) 0%R = IZR (Z.of_nat (drawn (run draws [ReqB; ReqB; ReqB; ReqB; ReqA; ReqA; ReqB; ReqB]))).
Proof. pairing. Qed.

Lemma tie_pair_wAAAABABB a0 b0 a1 b1 a2 b2 a3 b3 a4 b4 a5 b5 a6 b6 a7 b7 :
  let draws := fun k => nth k [(a0, b0); (a1, b1); (a2, b2); (a3, b3); (a4, b4); (a5, b5); (a6, b6); (a7, b7)] (a0, b0) in
  firstn 8 (pair_wAAAABABB (OO:=ROps) a0 b0 a1 b1 a2 b2 a3 b3 a4 b4 a5 b5 a6 b6 a7 b7) = deliveries draws st0 [ReqA; ReqA; ReqA; ReqA; ReqB; ReqA; ReqB; ReqB] /\
  nth 8 (pair_wAAAABABB (OO:=ROps) a0 b0 a1 b1 a2 b2 a3 b3 a4 b4 a5 b5 a6 b6 a7 b7) 0%R = IZR (Z.of_nat (drawn (run draws [ReqA; ReqA; ReqA; ReqA; ReqB; ReqA; ReqB; ReqB]))).
Proof. pairing. Qed.

Lemma tie_pair_wBAAABABB a0 b0 a1 b1 a2 b2 a3 b3 a4 b4 a5 b5 a6 b6 a7 b7 :
  let draws := fun k => nth k [(a0, b0); (a1, b1); (a2, b2); (a3, b3); (a4, b4); (a5, b5); (a6, b6); (a7, b7)] (a0, b0) in
  firstn 8 (pair_wBAAABABB (OO:=ROps) a0 b0 a1 b1 a2 b2 a3 b3 a4 b4 a5 b5 a6 b6 a7 b7) = deliveries draws st0 [ReqB; ReqA; ReqA; ReqA; ReqB; ReqA; ReqB; ReqB] /\
  nth 8 (pair_wBAAABABB (OO:=ROps) a0 b0 a1 b1 a2 b2 a3 b3 a4 b4 a5 b5 a6 b6 a7 b7) 0%R = IZR (Z.of_nat (drawn (run draws [ReqB; ReqA; ReqA; ReqA; ReqB; ReqA; ReqB; ReqB]))).
Proof. pairing. Qed.

Lemma tie_pair_wABAABABB a0 b0 a1 b1 a2 b2 a3 b3 a4 b4 a5 b5 a6 b6 a7 b7 :
  let draws := fun k => nth k [(a0, b0); (a1, b1); (a2, b2); (a3, b3); (a4, b4); (a5, b5); (a6, b6); (a7, b7)] (a0, b0) in
  firstn 8 (pair_wABAABABB (OO:=ROps) a0 b0 a1 b1 a2 b2 a3 b3 a4 b4 a5 b5 a6 b6 a7 b7) = deliveries draws st0 [ReqA; ReqB; ReqA; ReqA; ReqB; ReqA; ReqB; ReqB] /\
  nth 8 (pair_wABAABABB (OO:=ROps) a0 b0 a1 b1 a2 b2 a3 b3 a4 b4 a5 b5 a6 b6 a7 b7) 0%R = IZR (Z.of_nat (drawn (run draws [ReqA; ReqB; ReqA; ReqA; ReqB; ReqA; ReqB; ReqB]))).
Proof. pairing. Qed.

Lemma tie_pair_wBBAABABB a0 b0 a1 b1 a2 b2 a3 b3 a4 b4 a5 b5 a6 b6 a7 b7 :
  let draws := fun k => nth k [(a0, b0); (a1, b1); (a2, b2); (a3, b3); (a4, b4); (a5, b5); (a6, b6); (a7, b7)] (a0, b0) in
  firstn 8 (pair_wBBAABABB (OO:=ROps) a0 b0 a1 b1 a2 b2 a3 b3 a4 b4 a5 b5 a6 b6 a7 b7) = deliveries draws st0 [ReqB; ReqB; ReqA; ReqA; ReqB; ReqA; ReqB; ReqB] /\
  nth 8 (pair_wBBAABABB (OO:=ROps) a0 b0 a1 b1 a2 b2 a3 b3 a4 b4 a5 b5 a6 b6 a7 b7) 0%R = IZR (Z.of_nat (drawn (run draws [ReqB; ReqB; ReqA; ReqA; ReqB; ReqA; ReqB; ReqB]))).
Proof. pairing. Qed.

Lemma tie_pair_wAABABABB a0 b0 a1 b1 a2 b2 a3 b3 a4 b4 a5 b5 a6 b6 a7 b7 :
  let draws := fun k => nth k [(a0, b0); (a1, b1); (a2, b2); (a3, b3); (a4, b4); (a5, b5); (a6, b6); (a7, b7)] (a0, b0) in
  firstn 8 (pair_wAABABABB (OO:=ROps) a0 b0 a1 b1 a2 b2 a3 b3 a4 b4 a5 b5 a6 b6 a7 b7) = deliveries draws st0 [ReqA; ReqA; ReqB; ReqA; ReqB; ReqA; ReqB; ReqB] /\
  nth 8 (pair_wAABABABB (OO:=ROps) a0 b0 a1 b1 a2 b2 a3 b3 a4 b4 a5 b5 a6 b6 a7 b7) 0%R = IZR (Z.of_nat (drawn (run draws [ReqA; ReqA; ReqB; ReqA; ReqB; ReqA; ReqB; ReqB]))).
Proof. pairing. Qed.

Lemma tie_pair_wBABABABB a0 b0 a1 b1 a2 b2 a3 b3 a4 b4 a5 b5 a6 b6 a7 b7 :
  let draws := fun k => nth k [(a0, b0); (a1, b1); (a2, b2); (a3, b3); (a4, b4); (a5, b5); (a6, b6); (a7, b7)] (a0, b0) in
  firstn 8 (pair_wBABABABB (OO:=ROps) a0 b0 a1 b1 a2 b2 a3 b3 a4 b4 a5 b5 a6 b6 a7 b7) = deliveries draws st0 [ReqB; ReqA; ReqB; ReqA; ReqB; ReqA; ReqB; ReqB] /\
  nth 8 (pair_wBABABABB (OO:=ROps) a0 b0 a1 b1 a2 b2 a3 b3 a4 b4 a5 b5 a6 b6 a7 b7) 0%R = IZR (Z.of_nat (drawn (run draws [ReqB; ReqA; ReqB; ReqA; ReqB; ReqA; ReqB; ReqB]))).
Proof. pairing. Qed.

Lemma tie_pair_wABBABABB a0 b0 a1 b1 a2 b2 a3 b3 a4 b4 a5 b5 a6 b6 a7 b7 :
  let draws := fun k => nth k [(a0, b0); (a1, b1); (a2, b2); (a3, b3); (a4, b4); (a5, b5); (a6, b6); (a7, b7)] (a0, b0) in
  firstn 8 (pair_wABBABABB (OO:=ROps) a0 b0 a1 b1 a2 b2 a3 b3 a4 b4 a5 b5 a6 b6 a7 b7) = deliveries draws st0 [ReqA; ReqB; ReqB; ReqA; ReqB; ReqA; ReqB; ReqB] /\
  nth 8 (pair_wABBABABB (OO:=ROps) a0 b0 a1 b1 a2 b2 a3 b3 a4 b4 a5 b5 a6 b6 a7 b7) 0%R = IZR (Z.of_nat (drawn (run draws [ReqA; ReqB; ReqB; ReqA; ReqB; ReqA; ReqB; ReqB]))).
Proof. pairing. Qed.

Lemma tie_pair_wBBBABABB a0 b0 a1 b1 a2 b2 a3 b3 a4 b4 a5 b5 a6 b6 a7 b7 :
  let draws := fun k => nth k [(a0, b0); (a1, b1); (a2, b2); (a3, b3); (a4, b4); (a5, b5); (a6, b6); (a7, b7)] (a0, b0) in
  firstn 8 (pair_wBBBABABB (OO:=ROps) a0 b0 a1 b1 a2 b2 a3 b3 a4 b4 a5 b5 a6 b6 a7 b7) = deliveries draws st0 [ReqB; ReqB; ReqB; ReqA; ReqB; ReqA; ReqB; ReqB] /\
  nth 8 (pair_wBBBABABB (OO:=ROps) a0 b0 a1 b1 a2 b2 a3 b3 a4 b4 a5 b5 a6 b6 a7 b7) 0%R = IZR (Z.of_nat (drawn (run draws [ReqB; ReqB; ReqB; ReqA; ReqB; ReqA; ReqB; ReqB]))).
Proof. pairing. Qed.

Lemma tie_pair_wAAABBABB a0 b0 a1 b1 a2 b2 a3 b3 a4 b4 a5 b5 a6 b6 a7 b7 :
  let draws := fun k => nth k [(a0, b0); (a1, b1); (a2, b2); (a3, b3); (a4, b4); (a5, b5); (a6, b6); (a7, b7)] (a0, b0) in
  firstn 8 (pair_wAAABBABB (OO:=ROps) a0 b0 a1 b1 a2 b2 a3 b3 a4 b4 a5 b5 a6 b6 a7 b7) = deliveries draws st0 [ReqA; ReqA; ReqA; ReqB; ReqB; ReqA; ReqB; ReqB] /\
  nth 8 (pair_wAAABBABB (OO:=ROps) a0 b0 a1 b1 a2 b2 a3 b3 a4 b4 a5 b5 a6 b6 a7 b7) 0%R = IZR (Z.of_nat (drawn (run draws [ReqA; ReqA; ReqA; ReqB; ReqB; ReqA; ReqB; ReqB]))).
Proof. pairing. Qed.

Lemma tie_pair_wBAABBABB a0 b0 a1 b1 a2 b2 a3 b3 a4 b4 a5 b5 a6 b6 a7 b7 :
  let draws := fun k => nth k [(a0, b0); (a1, b1); (a2, b2); (a3, b3); (a4, b4); (a5, b5); (a6, b6); (a7, b7)] (a0, b0) in
  firstn 8 (pair_wBAABBABB (OO:=ROps) a0 b0 a1 b1 a2 b2 a3 b3 a4 b4 a5 b5 a6 b6 a7 b7) = deliveries draws st0 [ReqB; ReqA; ReqA; ReqB; ReqB; ReqA; ReqB; ReqB] /\
  nth 8 (pair_wBAABBABB (OO:=ROps) a0 b0 a1 b1 a2 b2 a3 b3 a4 b4 a5 b5 a6 b6 a7 b7) 0%R = IZR (Z.of_nat (drawn (run draws [ReqB; ReqA; ReqA; ReqB; ReqB; ReqA; ReqB; ReqB]))).
Proof. pairing. Qed.

Lemma tie_pair_wABABBABB a0 b0 a1 b1 a2 b2 a3 b3 a4 b4 a5 b5 a6 b6 a7 b7 :
  let draws := fun k => nth k [(a0, b0); (a1, b1); (a2, b2); (a3, b3); (a4, b4); (a5, b5); (a6, b6); (a7, b7)] (a0, b0) in
  firstn 8 (pair_wABABBABB (OO:=ROps) a0 b0 a1 b1 a2 b2 a3 b3 a4 b4 a5 b5 a6 b6 a7 b7) = deliveries draws st0 [ReqA; ReqB; ReqA; ReqB; ReqB; ReqA; ReqB; ReqB] /\
  nth 8 (pair_wABABBABB (OO:=ROps) a0 b0 a1 b1 a2 b2 a3 b3 a4 b4 a5 b5 a6 b6 a7 b7) 0%R = IZR (Z.of_nat (drawn (run draws [ReqA; ReqB; ReqA; ReqB; ReqB; ReqA; ReqB; ReqB]))).
Proof. pairing. Qed.

Lemma tie_pair_wBBABBABB a0 b0 a1 b1 a2 b2 a3 b3 a4 b4 a5 b5 a6 b6 a7 b7 :
  let draws := fun k => nth k [(a0, b0); (a1, b1); (a2, b2); (a3, b3); (a4, b4); (a5, b5); (a6, b6); (a7, b7)] (a0, b0) in
  firstn 8 (pair_wBBABBABB (OO:=ROps) a0 b0 a1 b1 a2 b2 a3 b3 a4 b4 a5 b5 a6 b6 a7 b7) = deliveries draws st0 [ReqB; ReqB; ReqA; ReqB; ReqB; ReqA; ReqB; ReqB] /\
  nth 8 (pair_wBBABBABB (OO:=ROps) a0 b0 a1 b1 a2 b2 a3 b3 a4 b4 a5 b5 a6 b6 a7 b7) 0%R = IZR (Z.of_nat (drawn (run draws [ReqB; ReqB; ReqA; ReqB; ReqB; ReqA; ReqB; ReqB]))).
Proof. pairing. Qed.

Lemma tie_pair_wAABBBABB a0 b0 a1 b1 a2 b2 a3 b3 a4 b4 a5 b5 a6 b6 a7 b7 :
  let draws := fun k => nth k [(a0, b0); (a1, b1); (a2, b2); (a3, b3); (a4, b4); (a5, b5); (a6, b6); (a7, b7)] (a0, b0) in
  firstn 8 (pair_wAABBBABB (OO:=ROps) a0 b0 a1 b1 a2 b2 a3 b3 a4 b4 a5 b5 a6 b6 a7 b7) = deliveries draws st0 [ReqA; ReqA; ReqB; ReqB; ReqB; ReqA; ReqB; ReqB] /\
  nth 8 (pair_wAABBBABB (OO:=ROps) a0 b0 a1 b1 a2 b2 a3 b3 a4 b4 a5 b5 a6 b6 a7 b7) 0%R = IZR (Z.of_nat (drawn (run draws [ReqA; ReqA; ReqB; ReqB; ReqB; ReqA; ReqB; ReqB]))).
Proof. pairing. Qed.

Lemma tie_pair_wBABBBABB a0 b0 a1 b1 a2 b2 a3 b3 a4 b4 a5 b5 a6 b6 a7 b7 :
  let draws := fun k => nth k [(a0, b0); (a1, b1); (a2, b2); (a3, b3); (a4, b4); (a5, b5); (a6, b6); (a7, b7)] (a0, b0) in
  firstn 8 (pair_wBABBBABB (OO:=ROps) a0 b0 a1 b1 a2 b2 a3 b3 a4 b4 a5 b5 a6 b6 a7 b7) = deliveries draws st0 [ReqB; ReqA; ReqB; ReqB; ReqB; ReqA; ReqB; ReqB] /\
  nth 8 (pair_wBABBBABB (OO:=ROps) a0 b0 a1 b1 a2 b2 a3 b3 a4 b4 a5 b5 a6 b6 a7 b7) 0%R = IZR (Z.of_nat (drawn (run draws [ReqB; ReqA; ReqB; ReqB; ReqB; ReqA; ReqB; ReqB]))).
Proof. pairing. Qed.

Lemma tie_pair_wABBBBABB a0 b0 a1 b1 a2 b2 a3 b3 a4 b4 a5 b5 a6 b6 a7 b7 :
  let draws := fun k => nth k [(a0, b0); (a1, b1); (a2, b2); (a3, b3); (a4, b4); (a5, b5); (a6, b6); (a7, b7)] (a0, b0) in
  firstn 8 (pair_wABBBBABB (OO:=ROps) a0 b0 a1 b1 a2 b2 a3 b3 a4 b4 a5 b5 a6 b6 a7 b7) = deliveries draws st0 [ReqA; ReqB; ReqB; ReqB; ReqB; ReqA; ReqB; ReqB] /\
  nth 8 (pair_wABBBBABB (OO:=ROps) a0 b0 a1 b1 a2 b2 a3 b3 a4 b4 a5 b5 a6 b6 a7 b7) 0%R = IZR (Z.of_nat (drawn (run draws [ReqA; ReqB; ReqB; ReqB; ReqB; ReqA; ReqB; ReqB]))).
Proof. pairing. Qed.

Lemma tie_pair_wBBBBBABB a0 b0 a1 b1 a2 b2 a3 b3 a4 b4 a5 b5 a6 b6 a7 b7 :
  let draws := fun k => nth k [(a0, b0); (a1, b1); (a2, b2); (a3, b3); (a4, b4); (a5, b5); (a6, b6); (a7, b7)] (a0, b0) in
  firstn 8 (pair_wBBBBBABB (OO:=ROps) a0 b0 a1 b1 a2 b2 a3 b3 a4 b4 a5 b5 a6 b6 a7 b7) = deliveries draws st0 [ReqB; ReqB; ReqB; ReqB; ReqB; ReqA; ReqB; ReqB] /\
  nth 8 (pair_wBBBBBABB (OO:=ROps) a0 b0 a1 b1 a2 b2 a3 b3 a4 b4 a5 b5 a6 b6 a7 b7) 0%R = IZR (Z.of_nat (drawn (run draws [ReqB; ReqB; ReqB; ReqB; ReqB; ReqA; ReqB; ReqB]))).
Proof. pairing. Qed.

Lemma tie_pair_wAAAAABBB a0 b0 a1 b1 a2 b2 a3 b3 a4 b4 a5 b5 a6 b6 a7 b7 :
  let draws := fun k => nth k [(a0, b0); (a1, b1); (a2, b2); (a3, b3); (a4, b4); (a5, b5); (a6, b6); (a7, b7)] (a0, b0) in
  firstn 8 (pair_wAAAAABBB (OO:=ROps) a0 b0 a1 b1 a2 b2 a3 b3 a4 b4 a5 b5 a6 b6 a7 b7) = deliveries draws st0 [ReqA; ReqA; ReqA; ReqA; ReqA; ReqB; ReqB; ReqB] /\
  nth 8 (pair_wAAAAABBB (OO:=ROps) a0 b0 a1 b1 a2 b2 a3 b3 a4 b4 a5 b5 a6 b6 a7 b7) 0%R = IZR (Z.of_nat (drawn (run draws [ReqA; ReqA; ReqA; ReqA; ReqA; ReqB; ReqB; ReqB]))).
Proof. pairing. Qed.

Lemma tie_pair_wBAAAABBB a0 b0 a1 b1 a2 b2 a3 b3 a4 b4 a5 b5 a6 b6 a7 b7 :
  let draws := fun k => nth k [(a0, b0); (a1, b1); (a2, b2); (a3, b3); (a4, b4); (a5, b5); (a6, b6); (a7, b7)] (a0, b0) in
  firstn 8 (pair_wBAAAABBB (OO:=ROps) a0 b0 a1 b1 a2 b2 a3 b3 a4 b4 a5 b5 a6 b6 a7 b7) = deliveries draws st0 [ReqB; ReqA; ReqA; ReqA; ReqA; ReqB; ReqB; ReqB] /\
  nth 8 (pair_wBAAAABBB (OO:=ROps) a0 b0 a1 b1 a2 b2 a3 b3 a4 b4 a5 b5 a6 b6 a7 b7) 0%R = IZR (Z.of_nat (drawn (run draws [ReqB; ReqA; ReqA; ReqA; ReqA; ReqB; ReqB; ReqB]))).
Proof. pairing. Qed.

Lemma tie_pair_wABAAABBB a0 b0 a1 b1 a2 b2 a3 b3 a4 b4 a5 b5 a6 b6 a7 b7 :
  let draws := fun k => nth k [(a0, b0); (a1, b1); (a2, b2); (a3, b3); (a4, b4); (a5, b5); (a6, b6); (a7, b7)] (a0, b0) in
  firstn 8 (pair_wABAAABBB (OO:=ROps) a0 b0 a1 b1 a2 b2 a3 b3 a4 b4 a5 b5 a6 b6 a7 b7) = deliveries draws st0 [ReqA; ReqB; ReqA; ReqA; ReqA; ReqB; ReqB; ReqB] /\
  nth 8 (pair_wABAAABBB (OO:=ROps) a0 b0 a1 b1 a2 b2 a3 b3 a4 b4 a5 b5 a6 b6 a7 b7) 0%R = IZR (Z.of_nat (drawn (run draws [ReqA; ReqB; ReqA; ReqA; ReqA; ReqB; ReqB; ReqB]))).
Proof. pairing. Qed.

Lemma tie_pair_wBBAAABBB a0 b0 a1 b1 a2 b2 a3 b3 a4 b4 a5 b5 a6 b6 a7 b7 :
  let draws := fun k => nth k [(a0, b0); (a1, b1); (a2, b2); (a3, b3); (a4, b4); (a5, b5); (a6, b6); (a7, b7)] (a0, b0) in
  firstn 8 (pair_wBBAAABBB (OO:=ROps) a0 b0 a1 b1 a2 b2 a3 b3 a4 b4 a5 b5 a6 b6 a7 b7) = deliveries draws st0 [ReqB; ReqB; ReqA; ReqA; ReqA; ReqB; ReqB; ReqB] /\
  nth 8 (pair_wBBAAABBB (OO:=ROps) a0 b0 a1 b1 a2 b2 a3 b3 a4 b4 a5 b5 a6 b6 a7 b7) 0%R = IZR (Z.of_nat (drawn (run draws [ReqB; ReqB; ReqA; ReqA; ReqA; ReqB; ReqB; ReqB]))).
Proof. pairing. Qed.

Lemma tie_pair_wAABAABBB a0 b0 a1 b1 a2 b2 a3 b3 a4 b4 a5 b5 a6 b6 a7 b7 :
  let draws := fun k => nth k [(a0, b0); (a1, b1); (a2, b2); (a3, b3); (a4, b4); (a5, b5); (a6, b6); (a7, b7)] (a0, b0) in
  firstn 8 (pair_wAABAABBB (OO:=ROps) a0 b0 a1 b1 a2 b2 a3 b3 a4 b4 a5 b5 a6 b6 a7 b7) = deliveries draws st0 [ReqA; ReqA; ReqB; ReqA; ReqA; ReqB; ReqB; ReqB] /\
  nth 8 (pair_wAABAABBB (OO:=ROps) a0 b0 a1 b1 a2 b2 a3 b3 a4 b4 a5 b5 a6 b6 a7 b7) 0%R = IZR (Z.of_nat (drawn (run draws [ReqA; ReqA; ReqB; ReqA; ReqA; ReqB; ReqB; ReqB]))).
Proof. pairing. Qed.

Lemma tie_pair_wBABAABBB a0 b0 a1 b1 a2 b2 a3 b3 a4 b4 a5 b5 a6 b6 a7 b7 :
  let draws := fun k => nth k [(a0, b0); (a1, b1); (a2, b2); (a3, b3); (a4, b4); (a5, b5); (a6, b6); (a7, b7)] (a0, b0) in
  firstn 8 (pair_wBABAABBB (OO:=ROps) a0 b0 a1 b1 a2 b2 a3 b3 a4 b4 a5 b5 a6 b6 a7 b7) = deliveries draws st0 [ReqB; ReqA; ReqB; ReqA; ReqA; ReqB; ReqB; ReqB] /\
  nth 8 (pair_wBABAABBB (OO:=ROps) a0 b0 a1 b1 a2 b2 a3 b3 a4 b4 a5 b5 a6 b6 a7 b7) 0%R = IZR (Z.of_nat (drawn (run draws [ReqB; ReqA; ReqB; ReqA; ReqA; ReqB; ReqB; ReqB]))).
Proof. pairing. Qed.

Lemma tie_pair_wABBAABBB a0 b0 a1 b1 a2 b2 a3 b3 a4 b4 a5 b5 a6 b6 a7 b7 :
  let draws := fun k => nth k [(a0, b0); (a1, b1); (a2, b2); (a3, b3); (a4, b4); (a5, b5); (a6, b6); (a7, b7)] (a0, b0) in
  firstn 8 (pair_wABBAABBB (OO:=ROps) a0 b0 a1 b1 a2 b2 a3 b3 a4 b4 a5 b5 a6 b6 a7 b7) = deliveries draws st0 [ReqA; ReqB; ReqB; ReqA; ReqA; ReqB; ReqB; ReqB] /\
  nth 8 (pair_wABBAABBB (OO:=ROps) a0 b0 a1 b1 a2 b2 a3 b3 a4 b4 a5 b5 a6 b6 a7 b7) 0%R = IZR (Z.of_nat (drawn (run draws [ReqA; ReqB; ReqB; ReqA; ReqA; ReqB; ReqB; ReqB]))).
Proof. pairing. Qed.

Lemma tie_pair_wBBBAABBB a0 b0 a1 b1 a2 b2 a3 b3 a4 b4 a5 b5 a6 b6 a7 b7 :
  let draws := fun k => nth k [(a0, b0); (a1, b1); (a2, b2); (a3, b3); (a4, b4); (a5, b5); (a6, b6); (a7, b7)] (a0, b0) in
  firstn 8 (pair_wBBBAABBB (OO:=ROps) a0 b0 a1 b1 a2 b2 a3 b3 a4 b4 a5 b5 a6 b6 a7 b7) = deliveries draws st0 [ReqB; ReqB; ReqB; ReqA; ReqA; ReqB; ReqB; ReqB] /\
  nth 8 (pair_wBBBAABBB (OO:=ROps) a0 b0 a1 b1 a2 b2 a3 b3 a4 b4 a5 b5 a6 b6 a7 b7) 0%R = IZR (Z.of_nat (drawn (run draws [ReqB; ReqB; ReqB; ReqA; ReqA; ReqB; ReqB; ReqB]))).
Proof. pairing. Qed.

Lemma tie_pair_wAAABABBB a0 b0 a1 b1 a2 b2 a3 b3 a4 b4 a5 b5 a6 b6 a7 b7 :
  let draws := fun k => nth k [(a0, b0); (a1, b1); (a2, b2); (a3, b3); (a4, b4); (a5, b5); (a6, b6); (a7, b7)] (a0, b0) in
  firstn 8 (pair_wAAABABBB (OO:=ROps) a0 b0 a1 b1 a2 b2 a3 b3 a4 b4 a5 b5 a6 b6 a7 b7) = deliveries draws st0 [ReqA; ReqA; ReqA; ReqB; ReqA; ReqB; ReqB; ReqB] /\
  nth 8 (pair_wAAABABBB (OO:=ROps) a0 b0 a1 b1 a2 b2 a3 b3 a4 b4 a5 b5 a6 b6 a7 b7) 0%R = IZR (Z.of_nat (drawn (run draws [ReqA; ReqA; ReqA; ReqB; ReqA; ReqB; ReqB; ReqB]))).
Proof. pairing. Qed.

Lemma tie_pair_wBAABABBB a0 b0 a1 b1 a2 b2 a3 b3 a4 b4 a5 b5 a6 b6 a7 b7 :
  let draws := fun k => nth k [(a0, b0); (a1, b1); (a2, b2); (a3, b3); (a4, b4); (a5, b5); (a6, b6); (a7, b7)] (a0, b0) in
  firstn 8 (pair_wBAABABBB (OO:=ROps) a0 b0 a1 b1 a2 b2 a3 b3 a4 b4 a5 b5 a6 b6 a7 b7) = deliveries draws st0 [ReqB; ReqA; ReqA; ReqB; ReqA; ReqB; ReqB; ReqB] /\
  nth 8 (pair_wBAABABBB (OO:=ROps) a0 b0 a1 b1 a2 b2 a3 b3 a4 b4 a5 b5 a6 b6 a7 b7) 0%R = IZR (Z.of_nat (drawn (run draws [ReqB; ReqA; ReqA; ReqB; ReqA; ReqB; ReqB; ReqB]))).
Proof. pairing. Qed.

Lemma tie_pair_wABABABBB a0 b0 a1 b1 a2 b2 a3 b3 a4 b4 a5 b5 a6 b6 a7 b7 :
  let draws := fun k => nth k [(a0, b0); (a1, b1); (a2, b2); (a3, b3); (a4, b4); (a5, b5); (a6, b6); (a7, b7)] (a0, b0) in
  firstn 8 (pair_wABABABBB (OO:=ROps) a0 b0 a1 b1 a2 b2 a3 b3 a4 b4 a5 b5 a6 b6 a7 b7) = deliveries draws st0 [ReqA; ReqB; ReqA; ReqB; ReqA; ReqB; ReqB; ReqB] /\
  nth 8 (pair_wABABABBB (OO:=ROps) a0 b0 a1 b1 a2 b2 a3 b3 a4 b4 a5 b5 a6 b6 a7 b7) 0%R = IZR (Z.of_nat (drawn (run draws [ReqA; ReqB; ReqA; ReqB; ReqA; ReqB; ReqB; ReqB]))).
Proof. pairing. Qed.

Lemma tie_pair_wBBABABBB a0 b0 a1 b1 a2 b2 a3 b3 a4 b4 a5 b5 a6 b6 a7 b7 :
  let draws := fun k => nth k [(a0, b0); (a1, b1); (a2, b2); (a3, b3); (a4, b4); (a5, b5); (a6, b6); (a7, b7)] (a0, b0) in
  firstn 8 (pair_wBBABABBB (OO:=ROps) a0 b0 a1 b1 a2 b2 a3 b3 a4 b4 a5 b5 a6 b6 a7 b7) = deliveries draws st0 [ReqB; ReqB; ReqA; ReqB; ReqA; ReqB; ReqB; ReqB] /\
  nth 8 (pair_wBBABABBB (OO:=ROps) a0 b0 a1 b1 a2 b2 a3 b3 a4 b4 a5 b5 a6 b6 a7 b7) 0%R = IZR (Z.of_nat (drawn (run draws [ReqB; ReqB; ReqA; ReqB; ReqA; ReqB; ReqB; ReqB]))).
Proof. pairing. Qed.

Lemma tie_pair_wAABBABBB a0 b0 a1 b1 a2 b2 a3 b3 a4 b4 a5 b5 a6 b6 a7 b7 :
  let draws := fun k => nth k [(a0, b0); (a1, b1); (a2, b2); (a3, b3); (a4, b4); (a5, b5); (a6, b6); (a7, b7)] (a0, b0) in
  firstn 8 (pair_wAABBABBB (OO:=ROps) a0 b0 a1 b1 a2 b2 a3 b3 a4 b4 a5 b5 a6 b6 a7 b7) = deliveries draws st0 [ReqA; ReqA; ReqB; ReqB; ReqA; ReqB; ReqB; ReqB] /\
  nth 8 (pair_wAABBABBB (OO:=ROps) a0 b0 a1 b1 a2 b2 a3 b3 a4 b4 a5 b5 a6 b6 a7 b7) 0%R = IZR (Z.of_nat (drawn (run draws [ReqA; ReqA; ReqB; ReqB; ReqA; ReqB; ReqB; ReqB]))).
Proof. pairing. Qed.

Lemma tie_pair_wBABBABBB a0 b0 a1 b1 a2 b2 a3 b3 a4 b4 a5 b5 a6 b6 a7 b7 :
  let draws := fun k => nth k [(a0, b0); (a1, b1); (a2, b2); (a3, b3); (a4, b4); (a5, b5); (a6, b6); (a7, b7)] (a0, b0) in
  firstn 8 (pair_wBABBABBB (OO:=ROps) a0 b0 a1 b1 a2 b2 a3 b3 a4 b4 a5 b5 a6 b6 a7 b7) = deliveries draws st0 [ReqB; ReqA; ReqB; ReqB; ReqA; ReqB; ReqB; ReqB] /\
  nth 8 (pair_wBABBABBB (OO:=ROps) a0 b0 a1 b1 a2 b2 a3 b3 a4 b4 a5 b5 a6 b6 a7 b7) 0%R = IZR (Z.of_nat (drawn (run draws [ReqB; ReqA; ReqB; ReqB; ReqA; ReqB; ReqB; ReqB]))).
Proof. pairing. Qed.

Lemma tie_pair_wABBBABBB a0 b0 a1 b1 a2 b2 a3 b3 a4 b4 a5 b5 a6 b6 a7 b7 :
  let draws := fun k => nth k [(a0, b0); (a1, b1); (a2, b2); (a3, b3); (a4, b4); (a5, b5); (a6, b6); (a7, b7)] (a0, b0) in
  firstn 8 (pair_wABBBABBB (OO:=ROps) a0 b0 a1 b1 a2 b2 a3 b3 a4 b4 a5 b5 a6 b6 a7 b7) = deliveries draws st0 [ReqA; ReqB; ReqB; ReqB; ReqA; ReqB; ReqB; ReqB] /\
  nth 8 (pair_wABBBABBB (OO:=ROps) a0 b0 a1 b1 a2 b2 a3 b3 a4 b4 a5 b5 a6 b6 a7 b7) 0%R = IZR (Z.of_nat (drawn (run draws [ReqA; ReqB; ReqB; ReqB; ReqA; ReqB; ReqB; ReqB]))).
Proof. pairing. Qed.

Lemma tie_pair_wBBBBABBB a0 b0 a1 b1 a2 b2 a3 b3 a4 b4 a5 b5 a6 b6 a7 b7 :
  let draws := fun k => nth k [(a0, b0); (a1, b1); (a2, b2); (a3, b3); (a4, b4); (a5, b5); (a6, b6); (a7, b7)] (a0, b0) in
  firstn 8 (pair_wBBBBABBB (OO:=ROps) a0 b0 a1 b1 a2 b2 a3 b3 a4 b4 a5 b5 a6 b6 a7 b7) = deliveries draws st0 [ReqB; ReqB; ReqB; ReqB; ReqA; ReqB; ReqB; ReqB] /\
  nth 8 (pair_wBBBBABBB (OO:=ROps) a0 b0 a1 b1 a2 b2 a3 b3 a4 b4 a5 b5 a6 b6 a7 b7) 0%R = IZR (Z.of_nat (drawn (run draws [ReqB; ReqB; ReqB; ReqB; ReqA; ReqB; ReqB; ReqB]))).
Proof. pairing. Qed.

Lemma tie_pair_wAAAABBBB a0 b0 a1 b1 a2 b2 a3 b3 a4 b4 a5 b5 a6 b6 a7 b7 :
  let draws := fun k => nth k [(a0, b0); (a1, b1); (a2, b2); (a3, b3); (a4, b4); (a5, b5); (a6, b6); (a7, b7)] (a0, b0) in
  firstn 8 (pair_wAAAABBBB (OO:=ROps) a0 b0 a1 b1 a2 b2 a3 b3 a4 b4 a5 b5 a6 b6 a7 b7) = deliveries draws st0 [ReqA; ReqA; ReqA; ReqA; ReqB; ReqB; ReqB; ReqB] /\
  nth 8 (pair_wAAAABBBB (OO:=ROps) a0 b0 a1 b1 a2 b2 a3 b3 a4 b4 a5 b5 a6 b6 a7 b7) 0%R = IZR (Z.of_nat (drawn (run draws [ReqA; ReqA; ReqA; ReqA; ReqB; ReqB; ReqB; ReqB]))).
Proof. pairing. Qed.

Lemma tie_pair_wBAAABBBB a0 b0 a1 b1 a2 b2 a3 b3 a4 b4 a5 b5 a6 b6 a7 b7 :
  let draws := fun k => nth k [(a0, b0); (a1, b1); (a2, b2); (a3, b3); (a4, b4); (a5, b5); (a6, b6); (a7, b7)] (a0, b0) in
  firstn 8 (pair_wBAAABBBB (OO:=ROps) a0 b0 a1 b1 a2 b2 a3 b3 a4 b4 a5 b5 a6 b6 a7 b7) = deliveries draws st0 [ReqB; ReqA; ReqA; ReqA; ReqB; ReqB; ReqB; ReqB] /\
  nth 8 (pair_wBAAABBBB (OO:=ROps) a0 b0 a1 b1 a2 b2 a3 b3 a4 b4 a5 b5 a6 b6 a7 b7) 0%R = IZR (Z.of_nat (drawn (run draws [ReqB; ReqA; ReqA; ReqA; ReqB; ReqB; ReqB; ReqB]))).
Proof. pairing. Qed.

Lemma tie_pair_wABAABBBB a0 b0 a1 b1 a2 b2 a3 b3 a4 b4 a5 b5 a6 b6 a7 b7 :
  let draws := fun k => nth k [(a0, b0); (a1, b1); (a2, b2); (a3, b3); (a4, b4); (a5, b5); (a6, b6); (a7, b7)] (a0, b0) in
  firstn 8 (pair_wABAABBBB (OO:=ROps) a0 b0 a1 b1 a2 b2 a3 b3 a4 b4 a5 b5 a6 b6 a7 b7) = deliveries draws st0 [ReqA; ReqB; ReqA; ReqA; ReqB; ReqB; ReqB; ReqB] /\
  nth 8 (pair_wABAABBBB (OO:=ROps) a0 b0 a1 b1 a2 b2 a3 b3 a4 b4 a5 b5 a6 b6 a7 b7) 0%R = IZR (Z.of_nat (drawn (run draws [ReqA; ReqB; ReqA; ReqA; ReqB; ReqB; ReqB; ReqB]))).
Proof. pairing. Qed.

Lemma tie_pair_wBBAABBBB a0 b0 a1 b1 a2 b2 a3 b3 a4 b4 a5 b5 a6 b6 a7 b7 :
  let draws := fun k => nth k [(a0, b0); (a1, b1); (a2, b2); (a3, b3); (a4, b4); (a5, b5); (a6, b6); (a7, b7)] (a0, b0) in
  firstn 8 (pair_wBBAABBBB (OO:=ROps) a0 b0 a1 b1 a2 b2 a3 b3 a4 b4 a5 b5 a6 b6 a7 b7) = deliveries draws st0 [ReqB; ReqB; ReqA; ReqA; ReqB; ReqB; ReqB; ReqB] /\
  nth 8 (pair_wBBAABBBB (OO:=ROps) a0 b0 a1 b1 a2 b2 a3 b3 a4 b4 a5 b5 a6 b6 a7 b7) 0%R = IZR (Z.of_nat (drawn (run draws [ReqB; ReqB; ReqA; ReqA; ReqB; ReqB; ReqB; ReqB]))).
Proof. pairing. Qed.

Lemma tie_pair_wAABABBBB a0 b0 a1 b1 a2 b2 a3 b3 a4 b4 a5 b5 a6 b6 a7 b7 :
  let draws := fun k => nth k [(a0, b0); (a1, b1); (a2, b2); (a3, b3); (a4, b4); (a5, b5); (a6, b6); (a7, b7)] (a0, b0) in
  firstn 8 (pair_wAABABBBB (OO:=ROps) a0 b0 a1 b1 a2 b2 a3 b3 a4 b4 a5 b5 a6 b6 a7 b7) = deliveries draws st0 [ReqA; ReqA; ReqB; ReqA; ReqB; ReqB; ReqB; ReqB] /\
  nth 8 (pair_wAABABBBB (OO:=ROps) a0 b0 a1 b1 a2 b2 a3 b3 a4 b4 a5 b5 a6 b6 a7 b7) 0%R = IZR (Z.of_nat (drawn (run draws [ReqA; ReqA; ReqB; ReqA; ReqB; ReqB; ReqB; ReqB]))).
Proof. pairing. Qed.

Lemma tie_pair_wBABABBBB a0 b0 a1 b1 a2 b2 a3 b3 a4 b4 a5 b5 a6 b6 a7 b7 :
  let draws := fun k => nth k [(a0, b0); (a1, b1); (a2, b2); (a3, b3); (a4, b4); (a5, b5); (a6, b6); (a7, b7)] (a0, b0) in
  firstn 8 (pair_wBABABBBB (OO:=ROps) a0 b0 a1 b1 a2 b2 a3 b3 a4 b4 a5 b5 a6 b6 a7 b7) = deliveries draws st0 [ReqB; ReqA; ReqB; ReqA; ReqB; ReqB; ReqB; ReqB] /\
  nth 8 (pair_wBABABBBB (OO:=ROps) a0 b0 a1 b1 a2 b2 a3 b3 a4 b4 a5 b5 a6 b6 a7 b7) 0%R = IZR (Z.of_nat (drawn (run draws [ReqB; ReqA; ReqB; ReqA; ReqB; ReqB; ReqB; ReqB]))).
Proof. pairing. Qed.

Lemma tie_pair_wABBABBBB a0 b0 a1 b1 a2 b2 a3 b3 a4 b4 a5 b5 a6 b6 a7 b7 :
  let draws := fun k => nth k [(a0, b0); (a1, b1); (a2, b2); (a3, b3); (a4, b4); (a5, b5); (a6, b6); (a7, b7)] (a0, b0) in
  firstn 8 (pair_wABBABBBB (OO:=ROps) a0 b0 a1 b1 a2 b2 a3 b3 a4 b4 a5 b5 a6 b6 a7 b7) = deliveries draws st0 [ReqA; ReqB; ReqB; ReqA; ReqB; ReqB; ReqB; ReqB] /\
  nth 8 (pair_wABBABBBB (OO:=ROps) a0 b0 a1 b1 a2 b2 a3 b3 a4 b4 a5 b5 a6 b6 a7 b7) 0%R = IZR (Z.of_nat (drawn (run draws [ReqA; ReqB; ReqB; ReqA; ReqB; ReqB; ReqB; ReqB]))).
Proof. pairing. Qed.

Lemma tie_pair_wBBBABBBB a0 b0 a1 b1 a2 b2 a3 b3 a4 b4 a5 b5 a6 b6 a7 b7 :
  let draws := fun k => nth k [(a0, b0); (a1, b1); (a2, b2); (a3, b3); (a4, b4); (a5, b5); (a6, b6); (a7, b7)] (a0, b0) in
  firstn 8 (pair_wBBBABBBB (OO:=ROps) a0 b0 a1 b1 a2 b2 a3 b3 a4 b4 a5 b5 a6 b6 a7 b7) = deliveries draws st0 [ReqB; ReqB; ReqB; ReqA; ReqB; ReqB; ReqB; ReqB] /\
  nth 8 (pair_wBBBABBBB (OO:=ROps) a0 b0 a1 b1 a2 b2 a3 b3 a4 b4 a5 b5 a6 b6 a7 b7) 0%R = IZR (Z.of_nat (drawn (run draws [ReqB; ReqB; ReqB; ReqA; ReqB; ReqB; ReqB; ReqB]))).
Proof. pairing. Qed.

Lemma tie_pair_wAAABBBBB a0 b0 a1 b1 a2 b2 a3 b3 a4 b4 a5 b5 a6 b6 a7 b7 :
  let draws := fun k => nth k [(a0, b0); (a1, b1); (a2, b2); (a3, b3); (a4, b4); (a5, b5); (a6, b6); (a7, b7)] (a0, b0) in
  firstn 8 (pair_wAAABBBBB (OO:=ROps) a0 b0 a1 b1 a2 b2 a3 b3 a4 b4 a5 b5 a6 b6 a7 b7) = deliveries draws st0 [ReqA; ReqA; ReqA; ReqB; ReqB; ReqB; ReqB; ReqB] /\
  nth 8 (pair_wAAABBBBB (OO:=ROps) a0 b0 a1 b1 a2 b2 a3 b3 a4 b4 a5 b5 a6 b6 a7 b7) 0%R = IZR (Z.of_nat (drawn (run draws [ReqA; ReqA; ReqA; ReqB; ReqB; ReqB; ReqB; ReqB]))).
Proof. pairing. Qed.

Lemma tie_pair_wBAABBBBB a0 b0 a1 b1 a2 b2 a3 b3 a4 b4 a5 b5 a6 b6 a7 b7 :
  let draws := fun k => nth k [(a0, b0); (a1, b1); (a2, b2); (a3, b3); (a4, b4); (a5, b5); (a6, b6); (a7, b7)] (a0, b0) in
  firstn 8 (pair_wBAABBBBB (OO:=ROps) a0 b0 a1 b1 a2 b2 a3 b3 a4 b4 a5 b5 a6 b6 a7 b7) = deliveries draws st0 [ReqB; ReqA; ReqA; ReqB; ReqB; ReqB; ReqB; ReqB] /\
  nth 8 (pair_wBAABBBBB (OO:=ROps) a0 b0 a1 b1 a2 b2 a3 b3 a4 b4 a5 b5 a6 b6 a7 b7) 0%R = IZR (Z.of_nat (drawn (run draws [ReqB; ReqA; ReqA; ReqB; ReqB; ReqB; ReqB; ReqB]))).
Proof. pairing. Qed.

Lemma tie_pair_wABABBBBB a0 b0 a1 b1 a2 b2 a3 b3 a4 b4 a5 b5 a6 b6 a7 b7 :
  let draws := fun k => nth k [(a0, b0); (a1, b1); (a2, b2); (a3, b3); (a4, b4); (a5, b5); (a6, b6); (a7, b7)] (a0, b0) in
  firstn 8 (pair_wABABBBBB (OO:=ROps) a0 b0 a1 b1 a2 b2 a3 b3 a4 b4 a5 b5 a6 b6 a7 b7) = deliveries draws st0 [ReqA; ReqB; ReqA; ReqB; ReqB; ReqB; ReqB; ReqB] /\
  nth 8 (pair_wABABBBBB (OO:=ROps) a0 b0 a1 b1 a2 b2 a3 b3 a4 b4 a5 b5 a6 b6 a7 b7) 0%R = IZR (Z.of_nat (drawn (run draws [ReqA; ReqB; ReqA; ReqB; ReqB; ReqB; ReqB; ReqB]))).
Proof. pairing. Qed.

Lemma tie_pair_wBBABBBBB a0 b0 a1 b1 a2 b2 a3 b3 a4 b4 a5 b5 a6 b6 a7 b7 :
  let draws := fun k => nth k [(a0, b0); (a1, b1); (a2, b2); (a3, b3); (a4, b4); (a5, b5); (a6, b6); (a7, b7)] (a0, b0) in
  firstn 8 (pair_wBBABBBBB (OO:=ROps) a0 b0 a1 b1 a2 b2 a3 b3 a4 b4 a5 b5 a6 b6 a7 b7) = deliveries draws st0 [ReqB; ReqB; ReqA; ReqB; ReqB; ReqB; ReqB; ReqB] /\
  nth 8 (pair_wBBABBBBB (OO:=ROps) a0 b0 a1 b1 a2 b2 a3 b3 a4 b4 a5 b5 a6 b6 a7 b7) 0%R = IZR (Z.of_nat (drawn (run draws [ReqB; ReqB; ReqA; ReqB; ReqB; ReqB; ReqB; ReqB]))).
Proof. pairing. Qed.

Lemma tie_pair_wAABBBBBB a0 b0 a1 b1 a2 b2 a3 b3 a4 b4 a5 b5 a6 b6 a7 b7 :
  let draws := fun k => nth k [(a0, b0); (a1, b1); (a2, b2); (a3, b3); (a4, b4); (a5, b5); (a6, b6); (a7, b7)] (a0, b0) in
  firstn 8 (pair_wAABBBBBB (OO:=ROps) a0 b0 a1 b1 a2 b2 a3 b3 a4 b4 a5 b5 a6 b6 a7 b7) = deliveries draws st0 [ReqA; ReqA; ReqB; ReqB; ReqB; ReqB; ReqB; ReqB] /\
  nth 8 (pair_wAABBBBBB (OO:=ROps) a0 b0 a1 b1 a2 b2 a3 b3 a4 b4 a5 b5 a6 b6 a7 b7) 0%R = IZR (Z.of_nat (drawn (run draws [ReqA; ReqA; ReqB; ReqB; ReqB; ReqB; ReqB; ReqB]))).
Proof. pairing. Qed.

Lemma tie_pair_wBABBBBBB a0 b0 a1 b1 a2 b2 a3 b3 a4 b4 a5 b5 a6 b6 a7 b7 :
  let draws := fun k => nth k [(a0, b0); (a1, b1); (a2, b2); (a3, b3); (a4, b4); (a5, b5); (a6, b6); (a7, b7)] (a0, b0) in
  firstn 8 (pair_wBABBBBBB (OO:=ROps) a0 b0 a1 b1 a2 b2 a3 b3 a4 b4 a5 b5 a6 b6 a7 b7) = deliveries draws st0 [ReqB; ReqA; ReqB; ReqB; ReqB; ReqB; ReqB; ReqB] /\
  nth 8 (pair_wBABBBBBB (OO:=ROps) a0 b0 a1 b1 a2 b2 a3 b3 a4 b4 a5 b5 a6 b6 a7 b7) 0%R = IZR (Z.of_nat (drawn (run draws [ReqB; ReqA; ReqB; ReqB; ReqB; ReqB; ReqB; ReqB]))).
Proof. pairing. Qed.

Lemma tie_pair_wABBBBBBB a0 b0 a1 b1 a2 b2 a3 b3 a4 b4 a5 b5 a6 b6 a7 b7 :
  let draws := fun k => nth k [(a0, b0); (a1, b1); (a2, b2); (a3, b3); (a4, b4); (a5, b5); (a6, b6); (a7, b7)] (a0, b0) in
  firstn 8 (pair_wABBBBBBB (OO:=ROps) a0 b0 a1 b1 a2 b2 a3 b3 a4 b4 a5 b5 a6 b6 a7 b7) = deliveries draws st0 [ReqA; ReqB; ReqB; ReqB; ReqB; ReqB; ReqB; ReqB] /\
  nth 8 (pair_wABBBBBBB (OO:=ROps) a0 b0 a1 b1 a2 b2 a3 b3 a4 b4 a5 b5 a6 b6 a7 b7) 0%R = IZR (Z.of_nat (drawn (run draws [ReqA; ReqB; ReqB; ReqB; ReqB; ReqB; ReqB; ReqB]))).
Proof. pairing. Qed.

Lemma tie_pair_wBBBBBBBB a0 b0 a1 b1 a2 b2 a3 b3 a4 b4 a5 b5 a6 b6 a7 b7 :
  let draws := fun k => nth k [(a0, b0); (a1, b1); (a2, b2); (a3, b3); (a4, b4); (a5, b5); (a6, b6); (a7, b7)] (a0, b0) in
  firstn 8 (pair_wBBBBBBBB (OO:=ROps) a0 b0 a1 b1 a2 b2 a3 b3 a4 b4 a5 b5 a6 b6 a7 b7) = deliveries draws st0 [ReqB; ReqB; ReqB; ReqB; ReqB; ReqB; ReqB; ReqB] /\
  nth 8 (pair_wBBBBBBBB (OO:=ROps) a0 b0 a1 b1 a2 b2 a3 b3 a4 b4 a5 b5 a6 b6 a7 b7) 0%R = IZR (Z.of_nat (drawn (run draws [ReqB; ReqB; ReqB; ReqB; ReqB; ReqB; ReqB; ReqB]))).
Proof. pairing. Qed.
