(* Properties_C18.v -- C18: random sources honour their distributional and range
   contracts. *)
From Coq Require Import Reals Lra List.
From Epsic Require Import Scalar BoxMullerModel Gen_C18a Gen_C18b Tie_C18a Tie_C18b.
Import ListNotations.
Local Open Scope R_scope.

(* all call histories: the generator's output stream is the polar transform of the accepted
   pairs of the uniform stream -- two deviates per accepted pair, none repeated, dropped or reordered *)
Theorem C18_stream_refinement n s ps outs : run n s ps = Some outs ->
  outs = firstn n (match s with Some x => x :: out_stream ps | None => out_stream ps end).
Proof. exact (run_is_stream n s ps outs). Qed.
Print Assumptions C18_stream_refinement.

Theorem C18_reproducible n s ps o1 o2 : run n s ps = Some o1 -> run n s ps = Some o2 -> o1 = o2.
Proof. exact (run_deterministic n s ps o1 o2). Qed.

(* the real BoxMuller.C on scripted streams (immediate accept, rejection runs of length 1, 2 and 4,
   w just below 1, w = 1 exactly, w = 0 exactly, interleaved generators) is the model *)
Theorem C18_code_is_model_rejection_run u0 u1 u2 u3 u4 u5 u6 u7 u8 u9 :
  bm_RRRRA_1_pc (OO:=ROps) u0 u1 u2 u3 u4 u5 u6 u7 u8 u9 ->
  option_map (fun o => o ++ [10]) (run 1 None [(u0,u1); (u2,u3); (u4,u5); (u6,u7); (u8,u9)])
  = Some (bm_RRRRA_1 (OO:=ROps) u0 u1 u2 u3 u4 u5 u6 u7 u8 u9).
Proof. exact (tie_bm_RRRRA_1 u0 u1 u2 u3 u4 u5 u6 u7 u8 u9). Qed.
Theorem C18_code_is_model_origin u0 u1 u2 u3 :
  bm_origin_RA_2_pc (OO:=ROps) u0 u1 u2 u3 ->
  option_map (fun o => o ++ [4]) (run 2 None [(u0,u1); (u2,u3)]) = Some (bm_origin_RA_2 (OO:=ROps) u0 u1 u2 u3).
Proof. exact (tie_bm_origin_RA_2 u0 u1 u2 u3). Qed.
Print Assumptions C18_code_is_model_origin.

(* range contracts *)
Theorem C18_uniform_in_unit_interval (r : Z) : (0 <= r <= 2147483647)%Z -> 0 <= IZR r / IZR 2147483647 <= 1.
Proof. intros H; apply uniform_range; [exact H | reflexivity]. Qed.
Theorem C18_components_within_scale scale r0 r1 r2 :
  0 <= r0 <= 1 -> 0 <= r1 <= 1 -> 0 <= r2 <= 1 ->
  Forall (fun x => Rabs x <= Rabs scale) (rv_vector (OO:=ROps) scale r0 r1 r2)
  /\ Forall (fun x => Rabs x <= Rabs scale) (rv_complex (OO:=ROps) scale r0 r1)
  /\ Forall (fun x => Rabs x <= Rabs scale) (rv_scalar (OO:=ROps) scale r0).
Proof.
  intros H0 H1 H2. rewrite tie_rv_vector, tie_rv_complex, tie_rv_scalar.
  conj_split; repeat (apply Forall_cons; [ apply rval_range; assumption | ]); apply Forall_nil.
Qed.
Theorem C18_random_stokes scale maxp r0 r1 r2 r3 :
  0 <= r0 <= 1 -> 0 <= maxp <= 1 ->
  rval r1 scale * rval r1 scale + rval r2 scale * rval r2 scale + rval r3 scale * rval r3 scale <> 0 ->
  let l := rv_stokes (OO:=ROps) scale maxp r0 r1 r2 r3 in
  nth 0 l 0 = scale /\ nth 5 l 0 = (scale * fraction r0 maxp) * (scale * fraction r0 maxp) /\
  0 <= fraction r0 maxp <= maxp /\ 0 <= nth 4 l 0.
Proof.
  intros Hr Hm H l. destruct (tie_rv_stokes scale maxp r0 r1 r2 r3 H) as [A [B C]].
  destruct (stokes_invariant_nonneg scale maxp r0 Hr Hm) as [F I].
  subst l. rewrite C. tauto.
Qed.
Print Assumptions C18_random_stokes.
