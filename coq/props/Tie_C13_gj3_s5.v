(* Tie_C13_gj3_s5.v -- GENERATED ONCE by harness/gen_tie_C13_gj3.py and committed. *)
From Coq Require Import Reals Lra List.
From Epsic Require Import Scalar SpecPauli Gen_C13 Tie_C13.
Import ListNotations.
Local Open Scope R_scope.

Lemma tie_gj3_o50 a00 a01 a02 a10 a11 a12 a20 a21 a22 : gj3_o50_pc (OO:=ROps) a00 a01 a02 a10 a11 a12 a20 a21 a22 -> gj3_ok (gj3_o50 (OO:=ROps) a00 a01 a02 a10 a11 a12 a20 a21 a22).
Proof. gj3. Qed.
Lemma tie_gj3_o51 a00 a01 a02 a10 a11 a12 a20 a21 a22 : gj3_o51_pc (OO:=ROps) a00 a01 a02 a10 a11 a12 a20 a21 a22 -> gj3_ok (gj3_o51 (OO:=ROps) a00 a01 a02 a10 a11 a12 a20 a21 a22).
Proof. gj3. Qed.
Lemma tie_gj3_o52 a00 a01 a02 a10 a11 a12 a20 a21 a22 : gj3_o52_pc (OO:=ROps) a00 a01 a02 a10 a11 a12 a20 a21 a22 -> gj3_ok (gj3_o52 (OO:=ROps) a00 a01 a02 a10 a11 a12 a20 a21 a22).
Proof. gj3. Qed.
Lemma tie_gj3_o53 a00 a01 a02 a10 a11 a12 a20 a21 a22 : gj3_o53_pc (OO:=ROps) a00 a01 a02 a10 a11 a12 a20 a21 a22 -> gj3_ok (gj3_o53 (OO:=ROps) a00 a01 a02 a10 a11 a12 a20 a21 a22).
Proof. gj3. Qed.
Lemma tie_gj3_o54 a00 a01 a02 a10 a11 a12 a20 a21 a22 : gj3_o54_pc (OO:=ROps) a00 a01 a02 a10 a11 a12 a20 a21 a22 -> gj3_ok (gj3_o54 (OO:=ROps) a00 a01 a02 a10 a11 a12 a20 a21 a22).
Proof. gj3. Qed.
Lemma tie_gj3_o55 a00 a01 a02 a10 a11 a12 a20 a21 a22 : gj3_o55_pc (OO:=ROps) a00 a01 a02 a10 a11 a12 a20 a21 a22 -> gj3_ok (gj3_o55 (OO:=ROps) a00 a01 a02 a10 a11 a12 a20 a21 a22).
Proof. gj3. Qed.
