(* Tie_C05_ens_13.v -- GENERATED ONCE by harness/gen_tie_C05_ens.py and committed.
   Exact ensemble covariance of Stokes parameters 1 and 3 of one superposed instance: Eq. 42-43 for one instance, C = C_A + C_B + M(A,B) + M(A,B)^T, M = Minkowski::outer. *)
From Coq Require Import Reals Lra List.
From Epsic Require Import Scalar SpecPauli Quadrature Quadrature8 Gen_C05 Tie_C05_ens Tie_C05_ens_13_a Tie_C05_ens_13_b.
Import ListNotations.
Local Open Scope R_scope.
Ltac ens := pose proof r3_sq as H; unfold partA, partB, F0, F1, F2, F3, SA, SB, E4, E1, Smean, mink_outer_spec, mink_inner_spec, eta;
  cbn [v4nth v0 v1 v2 v3 Nat.eqb]; autounfold with gen; ops_R; field_simplify_eq; ring [H].

Theorem ens_sup_cov_13 ra0 ra1 ra2 ra3 rb0 rb1 rb2 rb3 :
  E8 (fun p0 p1 p2 p3 q0 q1 q2 q3 => F1 ra0 ra1 ra2 ra3 rb0 rb1 rb2 rb3 p0 p1 p2 p3 q0 q1 q2 q3 * F3 ra0 ra1 ra2 ra3 rb0 rb1 rb2 rb3 p0 p1 p2 p3 q0 q1 q2 q3) - E8 (F1 ra0 ra1 ra2 ra3 rb0 rb1 rb2 rb3) * E8 (F3 ra0 ra1 ra2 ra3 rb0 rb1 rb2 rb3)
  = mink_outer_spec (SA ra0 ra1 ra2 ra3 rb0 rb1 rb2 rb3) (SA ra0 ra1 ra2 ra3 rb0 rb1 rb2 rb3) 1 3 + mink_outer_spec (SB ra0 ra1 ra2 ra3 rb0 rb1 rb2 rb3) (SB ra0 ra1 ra2 ra3 rb0 rb1 rb2 rb3) 1 3
    + (mink_outer_spec (SA ra0 ra1 ra2 ra3 rb0 rb1 rb2 rb3) (SB ra0 ra1 ra2 ra3 rb0 rb1 rb2 rb3) 1 3 + mink_outer_spec (SA ra0 ra1 ra2 ra3 rb0 rb1 rb2 rb3) (SB ra0 ra1 ra2 ra3 rb0 rb1 rb2 rb3) 3 1).
Proof. rewrite (cov_split (F1 ra0 ra1 ra2 ra3 rb0 rb1 rb2 rb3) (F3 ra0 ra1 ra2 ra3 rb0 rb1 rb2 rb3)) by (first [apply decomp1 | apply decomp3]). rewrite covA_13, covB_13, contraction_13. reflexivity. Qed.
