(* Tie_C18b.v -- the random_value / random_vector / random_matrix templates and
   the random Stokes vector, with random_double() = named variables r_k. *)
From Coq Require Import Reals Lra List.
From Epsic Require Import Scalar BoxMullerModel Gen_C18b.
Import ListNotations.
Local Open Scope R_scope.

Definition rval (r scale : R) : R := (r - / 2) * 2 * scale.
Ltac tie := intros; autounfold with gen; ops_R; unfold rval; list_eq ltac:(first [ring | field]).

Lemma tie_rv_scalar scale r0 : rv_scalar (OO:=ROps) scale r0 = [rval r0 scale].
Proof. tie. Qed.
Lemma tie_rv_complex scale r0 r1 : rv_complex (OO:=ROps) scale r0 r1 = [rval r0 scale; rval r1 scale].
Proof. tie. Qed.
Lemma tie_rv_vector scale r0 r1 r2 : rv_vector (OO:=ROps) scale r0 r1 r2 = [rval r0 scale; rval r1 scale; rval r2 scale].
Proof. tie. Qed.
Lemma tie_rv_matrix scale r0 r1 r2 r3 : rv_matrix (OO:=ROps) scale r0 r1 r2 r3 = [rval r0 scale; rval r1 scale; rval r2 scale; rval r3 scale].
Proof. tie. Qed.
Lemma tie_rv_jones scale r0 r1 r2 r3 r4 r5 r6 r7 :
  rv_jones (OO:=ROps) scale r0 r1 r2 r3 r4 r5 r6 r7
  = [rval r0 scale; rval r1 scale; rval r2 scale; rval r3 scale; rval r4 scale; rval r5 scale; rval r6 scale; rval r7 scale].
Proof. tie. Qed.

(* every component lies within +- scale *)
Lemma rval_range r scale : 0 <= r <= 1 -> Rabs (rval r scale) <= Rabs scale.
Proof. exact (value_range r scale). Qed.

(* random Stokes vector: total intensity = scale exactly; |p|^2 = (scale * fraction)^2 with
   fraction = (u + 1/2) * max in [0, max]; hence invariant = scale^2 (1 - fraction^2) >= 0 *)
Definition fraction (r0 maxp : R) : R := ((r0 - / 2) * 2 * / 2 + / 2) * maxp.
Lemma tie_rv_stokes scale maxp r0 r1 r2 r3 :
  rval r1 scale * rval r1 scale + rval r2 scale * rval r2 scale + rval r3 scale * rval r3 scale <> 0 ->
  let l := rv_stokes (OO:=ROps) scale maxp r0 r1 r2 r3 in
  nth 0 l 0 = scale /\
  nth 5 l 0 = (scale * fraction r0 maxp) * (scale * fraction r0 maxp) /\
  nth 4 l 0 = scale * scale - (scale * fraction r0 maxp) * (scale * fraction r0 maxp).
Proof.
  intros H l; subst l. autounfold with gen; ops_R; cbn [nth]. unfold rval, fraction in *.
  replace (/ 2) with (1 / 2) in * by field.
  set (x1 := (r1 - 1 / 2) * 2 * scale) in *. set (x2 := (r2 - 1 / 2) * 2 * scale) in *. set (x3 := (r3 - 1 / 2) * 2 * scale) in *.
  set (f := ((r0 - 1 / 2) * 2 * (1 / 2) + 1 / 2) * maxp) in *.
  assert (HS : 0 <= x1 * x1 + x2 * x2 + x3 * x3) by nra.
  assert (Hm : sqrt (x1 * x1 + x2 * x2 + x3 * x3) * sqrt (x1 * x1 + x2 * x2 + x3 * x3) = x1 * x1 + x2 * x2 + x3 * x3) by (apply sqrt_sqrt; exact HS).
  assert (Hm0 : sqrt (x1 * x1 + x2 * x2 + x3 * x3) <> 0) by (intro E; rewrite E in Hm; apply H; lra).
  set (m := sqrt (x1 * x1 + x2 * x2 + x3 * x3)) in *. clearbody m x1 x2 x3 f.
  assert (P : x1 * (scale * (f / m)) * (x1 * (scale * (f / m))) + x2 * (scale * (f / m)) * (x2 * (scale * (f / m)))
              + x3 * (scale * (f / m)) * (x3 * (scale * (f / m))) = scale * f * (scale * f)).
  { replace (x1 * (scale * (f / m)) * (x1 * (scale * (f / m))) + x2 * (scale * (f / m)) * (x2 * (scale * (f / m)))
             + x3 * (scale * (f / m)) * (x3 * (scale * (f / m))))
      with ((scale * (f / m)) * (scale * (f / m)) * (x1 * x1 + x2 * x2 + x3 * x3)) by ring.
    rewrite <- Hm. field. exact Hm0. }
  conj_split.
  - reflexivity.
  - exact P.
  - rewrite <- P. ring.
Qed.

(* with 0 <= u <= 1 and 0 <= max <= 1 the fraction is in [0, max] and the invariant is non-negative *)
Lemma stokes_invariant_nonneg scale maxp r0 : 0 <= r0 <= 1 -> 0 <= maxp <= 1 ->
  0 <= fraction r0 maxp <= maxp /\
  0 <= scale * scale - (scale * fraction r0 maxp) * (scale * fraction r0 maxp).
Proof.
  intros Hr Hm. assert (F : 0 <= fraction r0 maxp <= maxp) by (unfold fraction; split; nra).
  split; [exact F|]. assert (fraction r0 maxp * fraction r0 maxp <= 1) by nra.
  assert (0 <= scale * scale) by nra. nra.
Qed.

(* the only branch of random_value(Stokes) is the sanity test "invariant < -1e-10 -> throw":
   for 0 <= u <= 1 and 0 <= max <= 1 it is never taken *)
Lemma pc_rv_stokes scale maxp r0 r1 r2 r3 : 0 <= r0 <= 1 -> 0 <= maxp <= 1 ->
  rval r1 scale * rval r1 scale + rval r2 scale * rval r2 scale + rval r3 scale * rval r3 scale <> 0 ->
  rv_stokes_pc (OO:=ROps) scale maxp r0 r1 r2 r3.
Proof.
  intros Hr Hm H. destruct (tie_rv_stokes scale maxp r0 r1 r2 r3 H) as [_ [_ C]].
  destruct (stokes_invariant_nonneg scale maxp r0 Hr Hm) as [_ I].
  revert C. autounfold with gen; ops_R; cbn [nth]. intros C Hlt. rewrite C in Hlt. lra.
Qed.
