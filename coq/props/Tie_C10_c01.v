(* Tie_C10_c01.v -- complex Jacobi rotation, ascending diagonal (p < q) with a non-zero off-diagonal element *)
From Coq Require Import Reals Lra List.
From Epsic Require Import Scalar Gen_C10 Tie_C10.
Import ListNotations.
Local Open Scope R_scope.

Lemma tie_jrot2c_p010 p q x y : jrot2c_p010_pc (OO:=ROps) p q x y -> jc_spec p q x y (jrot2c_p010 (OO:=ROps) p q x y).
Proof.
  unfold jc_spec. autounfold with gen; ops_R. cbv beta iota zeta delta [nth firstn skipn].
  set (sq := 1 / 2 * (p - q)) in *. rewrite ?(hyp_pnorm sq x (- y)). intros [Hp [Hq Hx]].
  assert (Ep : p = q + 2 * sq) by (unfold sq; field). clearbody sq. subst p.
  assert (Hax : ~ (x = 0 /\ - y = 0)) by tauto. destruct (d_stable sq x (- y) Hq Hax) as [Ed [Hd PP]].
  rewrite !Ed. pose proof (pnorm_sq sq x (- y)) as Sp.
  jc_plus sq x y.
Qed.
