(* Properties_C10_c3.v -- C10, thorough tier: the complex Jacobi rotation inside a Hermitian 3x3 matrix, every path *)
From Coq Require Import Reals Lra List.
From Epsic Require Import Scalar Gen_C10 Tie_C10 Tie_C10_c3 Tie_C10_c3_010 Tie_C10_c3_0110 Tie_C10_c3_1.
Import ListNotations.
Local Open Scope R_scope.

Theorem C10_complex_jacobi_rotation_3x3 p q r x y br bi cr ci :
  Forall (fun c : Prop * list R => fst c -> jc3_spec p q r x y br bi cr ci (snd c)) (jrot3c_cases (OO:=ROps) p q r x y br bi cr ci)
  /\ Exists (fun c : Prop * list R => fst c) (jrot3c_cases (OO:=ROps) p q r x y br bi cr ci).
Proof.
  split.
  - unfold jrot3c_cases.
    apply Forall_cons; [ exact (tie_jrot3c_p00 p q r x y br bi cr ci) | ]. apply Forall_cons; [ exact (tie_jrot3c_p010 p q r x y br bi cr ci) | ].
    apply Forall_cons; [ exact (tie_jrot3c_p0110 p q r x y br bi cr ci) | ]. apply Forall_cons; [ exact (tie_jrot3c_p0111 p q r x y br bi cr ci) | ].
    apply Forall_cons; [ exact (tie_jrot3c_p1 p q r x y br bi cr ci) | apply Forall_nil ].
  - autounfold with gen; ops_R. set (sq := 1 / 2 * (p - q)). rewrite ?(hyp_pnorm sq x (- y)).
    destruct (Req_dec (pnorm sq x (- y)) 0) as [Zp|Np]; [ do 4 apply Exists_cons_tl; apply Exists_cons_hd; exact Zp | ].
    destruct (Rlt_dec sq 0) as [L|G]; [ | apply Exists_cons_hd; cbn [fst]; tauto ].
    destruct (Req_dec x 0) as [Zx|Nx]; [ | apply Exists_cons_tl; apply Exists_cons_hd; cbn [fst]; tauto ].
    destruct (Req_dec (- y) 0) as [Zy|Ny]; [ do 3 apply Exists_cons_tl | do 2 apply Exists_cons_tl ]; apply Exists_cons_hd; cbn [fst]; tauto.
Qed.
Print Assumptions C10_complex_jacobi_rotation_3x3.
