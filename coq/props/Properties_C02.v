(* Properties_C02.v -- C02: Stokes, coherency-matrix, Mueller and spinor
   pictures of a transformation agree.  Statements about functions generated
   from the current source (Gen_C02); closed by the LAW/TIE lemmas of Tie_C02_*. *)
From Coq Require Import Reals List.
From Epsic Require Import Scalar SpecPauli SpecJones Gen_C02
  Tie_C02_basic Tie_C02_xform Tie_C02_extra Tie_C02_cplx Tie_C02_basis Tie_C02_mueller_spec
  Tie_C02_mu_lin0 Tie_C02_mu_lin1 Tie_C02_mu_lin2 Tie_C02_mu_lin3
  Tie_C02_mu_circ0 Tie_C02_mu_circ1 Tie_C02_mu_circ2 Tie_C02_mu_circ3.
Import ListNotations.
Local Open Scope R_scope.

Notation heq := Tie_C02_basic.halves_eq.

(* 1. Stokes -> coherency matrix -> Stokes is the identity in every basis
      (linear, circular, every elliptical orientation/ellipticity), for real and
      complex Stokes parameters, and so is coherency matrix -> Stokes -> matrix *)
Theorem C02_roundtrip_every_basis o e s0 s1 s2 s3 :
  heq 4 (roundtrip_lin (OO:=ROps) s0 s1 s2 s3) /\ heq 4 (roundtrip_circ (OO:=ROps) s0 s1 s2 s3) /\
  heq 4 (roundtrip_ell (OO:=ROps) o e s0 s1 s2 s3) /\
  heq 4 (roundtrip_natural_lin (OO:=ROps) s0 s1 s2 s3) /\ heq 4 (roundtrip_natural_circ (OO:=ROps) s0 s1 s2 s3) /\
  heq 4 (roundtrip_natural_ell (OO:=ROps) o e s0 s1 s2 s3).
Proof.
  conj_split.
  - apply law_roundtrip_lin.
  - apply law_roundtrip_circ.
  - apply law_roundtrip_ell.
  - apply law_roundtrip_natural_lin.
  - apply law_roundtrip_natural_circ.
  - apply law_roundtrip_natural_ell.
Qed.
Print Assumptions C02_roundtrip_every_basis.

Theorem C02_roundtrip_complex_every_basis o e s0r s0i s1r s1i s2r s2i s3r s3i :
  Tie_C02_cplx.halves_eq 8 (roundtrip_complex_lin (OO:=ROps) s0r s0i s1r s1i s2r s2i s3r s3i) /\
  Tie_C02_cplx.halves_eq 8 (roundtrip_complex_circ (OO:=ROps) s0r s0i s1r s1i s2r s2i s3r s3i) /\
  Tie_C02_cplx.halves_eq 8 (roundtrip_complex_ell (OO:=ROps) o e s0r s0i s1r s1i s2r s2i s3r s3i) /\
  Tie_C02_cplx.halves_eq 8 (roundtrip_jones_lin (OO:=ROps) s0r s0i s1r s1i s2r s2i s3r s3i) /\
  Tie_C02_cplx.halves_eq 8 (roundtrip_jones_circ (OO:=ROps) s0r s0i s1r s1i s2r s2i s3r s3i) /\
  Tie_C02_cplx.halves_eq 8 (roundtrip_jones_ell (OO:=ROps) o e s0r s0i s1r s1i s2r s2i s3r s3i).
Proof.
  conj_split.
  - apply law_roundtrip_complex_lin.
  - apply law_roundtrip_complex_circ.
  - apply law_roundtrip_complex_ell.
  - apply law_roundtrip_jones_lin.
  - apply law_roundtrip_jones_circ.
  - apply law_roundtrip_jones_ell.
Qed.
Print Assumptions C02_roundtrip_complex_every_basis.

(* 2. trace(rho) = I and 4 det(rho) = I^2 - Q^2 - U^2 - V^2 in every basis *)
Theorem C02_trace_and_determinant o e s0 s1 s2 s3 :
  heq 4 (trace_det_lin (OO:=ROps) s0 s1 s2 s3) /\ heq 4 (trace_det_circ (OO:=ROps) s0 s1 s2 s3) /\
  heq 4 (trace_det_ell (OO:=ROps) o e s0 s1 s2 s3).
Proof. conj_split.
  - apply law_trace_det_lin.
  - apply law_trace_det_circ.
  - apply law_trace_det_ell. Qed.
Print Assumptions C02_trace_and_determinant.

(* 3. transform(S,J) = Mueller(J) S = coherency(J rho J^dagger); the Lorentz invariant
      scales by |det J|^2; the field picture agrees (linear basis) *)
Theorem C02_transform_pictures_agree s0 s1 s2 s3 j00r j00i j01r j01i j10r j10i j11r j11i xr xi yr yi :
  Tie_C02_xform.halves_eq 4 (transform_mueller_lin (OO:=ROps) s0 s1 s2 s3 j00r j00i j01r j01i j10r j10i j11r j11i) /\
  Tie_C02_xform.halves_eq 4 (transform_mueller_circ (OO:=ROps) s0 s1 s2 s3 j00r j00i j01r j01i j10r j10i j11r j11i) /\
  Tie_C02_xform.halves_eq 8 (transform_congruence_lin (OO:=ROps) s0 s1 s2 s3 j00r j00i j01r j01i j10r j10i j11r j11i) /\
  Tie_C02_xform.halves_eq 8 (transform_congruence_circ (OO:=ROps) s0 s1 s2 s3 j00r j00i j01r j01i j10r j10i j11r j11i) /\
  Tie_C02_xform.halves_eq 1 (invariant_scaling_lin (OO:=ROps) s0 s1 s2 s3 j00r j00i j01r j01i j10r j10i j11r j11i) /\
  Tie_C02_xform.halves_eq 1 (invariant_scaling_circ (OO:=ROps) s0 s1 s2 s3 j00r j00i j01r j01i j10r j10i j11r j11i) /\
  Tie_C02_xform.halves_eq 4 (spinor_lin (OO:=ROps) xr xi yr yi j00r j00i j01r j01i j10r j10i j11r j11i) /\
  Tie_C02_xform.halves_eq 4 (detect_lin (OO:=ROps) xr xi yr yi).
Proof.
  conj_split.
  - apply law_transform_mueller_lin.
  - apply law_transform_mueller_circ.
  - apply law_transform_congruence_lin.
  - apply law_transform_congruence_circ.
  - apply law_invariant_scaling_lin.
  - apply law_invariant_scaling_circ.
  - apply law_spinor_lin.
  - apply law_detect_lin.
Qed.
Print Assumptions C02_transform_pictures_agree.

(* 4. Mueller matrices compose like their Jones matrices, and the two-argument
      form is the exact directional derivative:
      Mueller(J + t G) = Mueller(J) + t Mueller(J,G) + t^2 Mueller(G) for every t *)
Theorem C02_mueller_composition a00r a00i a01r a01i a10r a10i a11r a11i b00r b00i b01r b01i b10r b10i b11r b11i :
  Tie_C02_mu_lin0.halves_eq 4 (mueller_compose_lin_row0 (OO:=ROps) a00r a00i a01r a01i a10r a10i a11r a11i b00r b00i b01r b01i b10r b10i b11r b11i) /\
  Tie_C02_mu_lin1.halves_eq 4 (mueller_compose_lin_row1 (OO:=ROps) a00r a00i a01r a01i a10r a10i a11r a11i b00r b00i b01r b01i b10r b10i b11r b11i) /\
  Tie_C02_mu_lin2.halves_eq 4 (mueller_compose_lin_row2 (OO:=ROps) a00r a00i a01r a01i a10r a10i a11r a11i b00r b00i b01r b01i b10r b10i b11r b11i) /\
  Tie_C02_mu_lin3.halves_eq 4 (mueller_compose_lin_row3 (OO:=ROps) a00r a00i a01r a01i a10r a10i a11r a11i b00r b00i b01r b01i b10r b10i b11r b11i) /\
  Tie_C02_mu_circ0.halves_eq 4 (mueller_compose_circ_row0 (OO:=ROps) a00r a00i a01r a01i a10r a10i a11r a11i b00r b00i b01r b01i b10r b10i b11r b11i) /\
  Tie_C02_mu_circ1.halves_eq 4 (mueller_compose_circ_row1 (OO:=ROps) a00r a00i a01r a01i a10r a10i a11r a11i b00r b00i b01r b01i b10r b10i b11r b11i) /\
  Tie_C02_mu_circ2.halves_eq 4 (mueller_compose_circ_row2 (OO:=ROps) a00r a00i a01r a01i a10r a10i a11r a11i b00r b00i b01r b01i b10r b10i b11r b11i) /\
  Tie_C02_mu_circ3.halves_eq 4 (mueller_compose_circ_row3 (OO:=ROps) a00r a00i a01r a01i a10r a10i a11r a11i b00r b00i b01r b01i b10r b10i b11r b11i).
Proof.
  conj_split.
  - apply law_mueller_compose_lin_row0.
  - apply law_mueller_compose_lin_row1.
  - apply law_mueller_compose_lin_row2.
  - apply law_mueller_compose_lin_row3.
  - apply law_mueller_compose_circ_row0.
  - apply law_mueller_compose_circ_row1.
  - apply law_mueller_compose_circ_row2.
  - apply law_mueller_compose_circ_row3.
Qed.
Print Assumptions C02_mueller_composition.

Theorem C02_mueller_directional_derivative j00r j00i j01r j01i j10r j10i j11r j11i g00r g00i g01r g01i g10r g10i g11r g11i t :
  Tie_C02_mu_lin0.halves_eq 4 (mueller_derivative_lin_row0 (OO:=ROps) j00r j00i j01r j01i j10r j10i j11r j11i g00r g00i g01r g01i g10r g10i g11r g11i t) /\
  Tie_C02_mu_lin1.halves_eq 4 (mueller_derivative_lin_row1 (OO:=ROps) j00r j00i j01r j01i j10r j10i j11r j11i g00r g00i g01r g01i g10r g10i g11r g11i t) /\
  Tie_C02_mu_lin2.halves_eq 4 (mueller_derivative_lin_row2 (OO:=ROps) j00r j00i j01r j01i j10r j10i j11r j11i g00r g00i g01r g01i g10r g10i g11r g11i t) /\
  Tie_C02_mu_lin3.halves_eq 4 (mueller_derivative_lin_row3 (OO:=ROps) j00r j00i j01r j01i j10r j10i j11r j11i g00r g00i g01r g01i g10r g10i g11r g11i t) /\
  Tie_C02_mu_circ0.halves_eq 4 (mueller_derivative_circ_row0 (OO:=ROps) j00r j00i j01r j01i j10r j10i j11r j11i g00r g00i g01r g01i g10r g10i g11r g11i t) /\
  Tie_C02_mu_circ1.halves_eq 4 (mueller_derivative_circ_row1 (OO:=ROps) j00r j00i j01r j01i j10r j10i j11r j11i g00r g00i g01r g01i g10r g10i g11r g11i t) /\
  Tie_C02_mu_circ2.halves_eq 4 (mueller_derivative_circ_row2 (OO:=ROps) j00r j00i j01r j01i j10r j10i j11r j11i g00r g00i g01r g01i g10r g10i g11r g11i t) /\
  Tie_C02_mu_circ3.halves_eq 4 (mueller_derivative_circ_row3 (OO:=ROps) j00r j00i j01r j01i j10r j10i j11r j11i g00r g00i g01r g01i g10r g10i g11r g11i t).
Proof.
  conj_split.
  - apply law_mueller_derivative_lin_row0.
  - apply law_mueller_derivative_lin_row1.
  - apply law_mueller_derivative_lin_row2.
  - apply law_mueller_derivative_lin_row3.
  - apply law_mueller_derivative_circ_row0.
  - apply law_mueller_derivative_circ_row1.
  - apply law_mueller_derivative_circ_row2.
  - apply law_mueller_derivative_circ_row3.
Qed.
Print Assumptions C02_mueller_directional_derivative.

(* 5. the Mueller matrix is the trace formula of the paper (linear basis) *)
Theorem C02_mueller_is_trace_formula j00r j00i j01r j01i j10r j10i j11r j11i :
  mueller_lin (OO:=ROps) j00r j00i j01r j01i j10r j10i j11r j11i
  = grid16 (mueller_spec (M2of j00r j00i j01r j01i j10r j10i j11r j11i)).
Proof. apply tie_mueller_lin. Qed.

(* 6. the process-wide basis: every setting and every history of settings *)
Theorem C02_basis_states o e :
  basis_ok (basis_lin (OO:=ROps)) /\ basis_ok (basis_circ (OO:=ROps)) /\ basis_ok (basis_ell (OO:=ROps) o e).
Proof. conj_split.
  - apply tie_basis_lin.
  - apply tie_basis_circ.
  - apply tie_basis_ell. Qed.
Theorem C02_basis_history_sample o1 e1 o2 e2 o3 e3 :
  Tie_C02_basis.halves_eq 18 (basis_history_ECE (OO:=ROps) o1 e1 o2 e2 o3 e3) /\
  Tie_C02_basis.halves_eq 18 (basis_history_LEC (OO:=ROps) o1 e1 o2 e2 o3 e3) /\
  Tie_C02_basis.halves_eq 18 (basis_history_CEL (OO:=ROps) o1 e1 o2 e2 o3 e3).
Proof. conj_split.
  - apply law_basis_history_ECE.
  - apply law_basis_history_LEC.
  - apply law_basis_history_CEL. Qed.
Print Assumptions C02_basis_states.

(* spec level: for EVERY matrix B with orthonormal rows used as `into` (and its
   transpose as `outof`) the conversion into the basis undoes the conversion out of it *)
Theorem C02_any_orthogonal_basis b00 b01 b02 b10 b11 b12 b20 b21 b22 v0 v1 v2 :
  b00*b00 + b01*b01 + b02*b02 = 1 -> b10*b10 + b11*b11 + b12*b12 = 1 -> b20*b20 + b21*b21 + b22*b22 = 1 ->
  b00*b10 + b01*b11 + b02*b12 = 0 -> b00*b20 + b01*b21 + b02*b22 = 0 -> b10*b20 + b11*b21 + b12*b22 = 0 ->
  let o0 := b00*v0 + b10*v1 + b20*v2 in let o1 := b01*v0 + b11*v1 + b21*v2 in let o2 := b02*v0 + b12*v1 + b22*v2 in
  b00*o0 + b01*o1 + b02*o2 = v0 /\ b10*o0 + b11*o1 + b12*o2 = v1 /\ b20*o0 + b21*o1 + b22*o2 = v2.
Proof.
  intros H00 H11 H22 H01 H02 H12 o0 o1 o2; subst o0 o1 o2. conj_split.
  - replace (b00 * (b00 * v0 + b10 * v1 + b20 * v2) + b01 * (b01 * v0 + b11 * v1 + b21 * v2) + b02 * (b02 * v0 + b12 * v1 + b22 * v2))
      with ((b00*b00 + b01*b01 + b02*b02) * v0 + (b00*b10 + b01*b11 + b02*b12) * v1 + (b00*b20 + b01*b21 + b02*b22) * v2) by ring.
    rewrite H00, H01, H02; ring.
  - replace (b10 * (b00 * v0 + b10 * v1 + b20 * v2) + b11 * (b01 * v0 + b11 * v1 + b21 * v2) + b12 * (b02 * v0 + b12 * v1 + b22 * v2))
      with ((b00*b10 + b01*b11 + b02*b12) * v0 + (b10*b10 + b11*b11 + b12*b12) * v1 + (b10*b20 + b11*b21 + b12*b22) * v2) by ring.
    rewrite H01, H11, H12; ring.
  - replace (b20 * (b00 * v0 + b10 * v1 + b20 * v2) + b21 * (b01 * v0 + b11 * v1 + b21 * v2) + b22 * (b02 * v0 + b12 * v1 + b22 * v2))
      with ((b00*b20 + b01*b21 + b02*b22) * v0 + (b10*b20 + b11*b21 + b12*b22) * v1 + (b20*b20 + b21*b21 + b22*b22) * v2) by ring.
    rewrite H02, H12, H22; ring.
Qed.
Print Assumptions C02_any_orthogonal_basis.

(* accessors of Stokes and the coherency-vector constructor (added after the mutation sweep) *)
Theorem C02_stokes_accessors s0 s1 s2 s3 v0 v1 v2 t :
  stokes_accessors (OO:=ROps) s0 s1 s2 s3 v0 v1 v2 t =
  [s0; s1; s2; s3; s1*s1 + s2*s2 + s3*s3; s1*s1 + s2*s2 + s3*s3; s0*s0 - (s1*s1 + s2*s2 + s3*s3); t; s1; s2; s3; s0; v0; v1; v2]%R.
Proof. apply tie_stokes_accessors. Qed.
Theorem C02_coherency_vector c0 c1 c2 c3 :
  firstn 8 (coherency_vector_convert (OO:=ROps) c0 c1 c2 c3) = [c0; 0; c2; - c3; c2; c3; c1; 0]%R.
Proof. apply tie_coherency_vector_convert. Qed.
Theorem C02_spinor_linear_operations xr xi yr yi ur ui vr vi a : (a <> 0)%R ->
  Tie_C02_xform.halves_eq 16 (spinor_linear_ops (OO:=ROps) xr xi yr yi ur ui vr vi a).
Proof. apply law_spinor_linear_ops. Qed.
Print Assumptions C02_stokes_accessors.
