(* Properties_C02.v -- C02: Stokes, coherency-matrix, Mueller and spinor
   pictures of a transformation agree.  Statements about functions generated
   from the current source (Gen_C02); closed by the LAW/TIE lemmas of Tie_C02_*. *)
From Coq Require Import Reals List.
From Epsic Require Import Scalar SpecPauli SpecJones Gen_C02
  Tie_C02_basic Tie_C02_xform Tie_C02_cplx Tie_C02_basis Tie_C02_mueller_spec
  Tie_C02_mu_lin0 Tie_C02_mu_lin1 Tie_C02_mu_lin2 Tie_C02_mu_lin3
  Tie_C02_mu_circ0 Tie_C02_mu_circ1 Tie_C02_mu_circ2 Tie_C02_mu_circ3.
Import ListNotations.
Local Open Scope R_scope.

Notation heq := Tie_C02_basic.halves_eq.

(* 1. Stokes -> coherency matrix -> Stokes is the identity in every basis
      (linear, circular, every elliptical orientation/ellipticity), for real and
      complex Stokes parameters, and so is coherency matrix -> Stokes -> matrix *)
Theorem C02_roundtrip_every_basis o e s0 s1 s2 s3 :
  heq 4 (roundtrip_lin (OO:=ROps) s0 s1 s2 s3) /\ heq 4 (roundtrip_circ (OO:=ROps) s0 s1 s2 s3) /\
  heq 4 (roundtrip_ell (OO:=ROps) o e s0 s1 s2 s3) /\
  heq 4 (roundtrip_natural_lin (OO:=ROps) s0 s1 s2 s3) /\ heq 4 (roundtrip_natural_circ (OO:=ROps) s0 s1 s2 s3) /\
  heq 4 (roundtrip_natural_ell (OO:=ROps) o e s0 s1 s2 s3).
Proof.
  conj_split.
  - apply law_roundtrip_lin.
  - apply law_roundtrip_circ.
  - apply law_roundtrip_ell.
  - apply law_roundtrip_natural_lin.
  - apply law_roundtrip_natural_circ.
  - apply law_roundtrip_natural_ell.
Qed.
Print Assumptions C02_roundtrip_every_basis.

Theorem C02_roundtrip_complex_every_basis o e s0r s0i s1r s1i s2r s2i s3r s3i :
  Tie_C02_cplx.halves_eq 8 (roundtrip_complex_lin (OO:=ROps) s0r s0i s1r s1i s2r s2i s3r s3i) /\
  Tie_C02_cplx.halves_eq 8 (roundtrip_complex_circ (OO:=ROps) s0r s0i s1r s1i s2r s2i s3r s3i) /\
  Tie_C02_cplx.halves_eq 8 (roundtrip_complex_ell (OO:=ROps) o e s0r s0i s1r s1i s2r s2i s3r s3i) /\
  Tie_C02_cplx.halves_eq 8 (roundtrip_jones_lin (OO:=ROps) s0r s0i s1r s1i s2r s2i s3r s3i) /\
  Tie_C02_cplx.halves_eq 8 (roundtrip_jones_circ (OO:=ROps) s0r s0i s1r s1i s2r s2i s3r s3i) /\
  Tie_C02_cplx.halves_eq 8 (roundtrip_jones_ell (OO:=ROps) o e s0r s0i s1r s1i s2r s2i s3r s3i).
Proof.
  conj_split.
  - apply law_roundtrip_complex_lin.
  - apply law_roundtrip_complex_circ.
  - apply law_roundtrip_complex_ell.
  - apply law_roundtrip_jones_lin.
  - apply law_roundtrip_jones_circ.
  - apply law_roundtrip_jones_ell.
Qed.
Print Assumptions C02_roundtrip_complex_every_basis.

(* 2. trace(rho) = I and 4 det(rho) = I^2 - Q^2 - U^2 - V^2 in every basis *)
Theorem C02_trace_and_determinant o e s0 s1 s2 s3 :
  heq 4 (trace_det_lin (OO:=ROps) s0 s1 s2 s3) /\ heq 4 (trace_det_circ (OO:=ROps) s0 s1 s2 s3) /\
  heq 4 (trace_det_ell (OO:=ROps) o e s0 s1 s2 s3).
Proof. conj_split.
  - apply law_trace_det_lin.
  - apply law_trace_det_circ.
  - apply law_trace_det_ell. Qed.
Print Assumptions C02_trace_and_determinant.

(* 3. transform(S,J) = Mueller(J) S = coherency(J rho J^dagger); the Lorentz invariant
      scales by |det J|^2; the field picture agrees (linear basis) *)
Theorem C02_transform_pictures_agree s0 s1 s2 s3 j00r j00i j01r j01i j10r j10i j11r j11i xr xi yr yi :
  Tie_C02_xform.halves_eq 4 (transform_mueller_lin (OO:=ROps) s0 s1 s2 s3 j00r j00i j01r j01i j10r j10i j11r j11i) /\
  Tie_C02_xform.halves_eq 4 (transform_mueller_circ (OO:=ROps) s0 s1 s2 s3 j00r j00i j01r j01i j10r j10i j11r j11i) /\
  Tie_C02_xform.halves_eq 8 (transform_congruence_lin (OO:=ROps) s0 s1 s2 s3 j00r j00i j01r j01i j10r j10i j11r j11i) /\
  Tie_C02_xform.halves_eq 8 (transform_congruence_circ (OO:=ROps) s0 s1 s2 s3 j00r j00i j01r j01i j10r j10i j11r j11i) /\
  Tie_C02_xform.halves_eq 1 (invariant_scaling_lin (OO:=ROps) s0 s1 s2 s3 j00r j00i j01r j01i j10r j10i j11r j11i) /\
  Tie_C02_xform.halves_eq 1 (invariant_scaling_circ (OO:=ROps) s0 s1 s2 s3 j00r j00i j01r j01i j10r j10i j11r j11i) /\
  Tie_C02_xform.halves_eq 4 (spinor_lin (OO:=ROps) xr xi yr yi j00r j00i j01r j01i j10r j10i j11r j11i) /\
  Tie_C02_xform.halves_eq 4 (detect_lin (OO:=ROps) xr xi yr yi).
Proof.
  conj_split.
  - apply law_transform_mueller_lin.
  - apply law_transform_mueller_circ.
  - apply law_transform_congruence_lin.
  - apply law_transform_congruence_circ.
  - apply law_invariant_scaling_lin.
  - apply law_invariant_scaling_circ.
  - apply law_spinor_lin.
  - apply law_detect_lin.
Qed.
Print Assumptions C02_transform_pictures_agree.

(* 4. Mueller matrices compose like their Jones matrices, and the two-argument
      form is the exact directional derivative:
      Mueller(J + t G) = Mueller(J) + t Mueller(J,G) + t^2 Mueller(G) for every t *)
Theorem C02_mueller_composition a00r a00i a01r a01i a10r a10i a11r a11i b00r b00i b01r b01i b10r b10i b11r b11i :
  Tie_C02_mu_lin0.halves_eq 4 (mueller_compose_lin_row0 (OO:=ROps) a00r a00i a01r a01i a10r a10i a11r a11i b00r b00i b01r b01i b10r b10i b11r b11i) /\
  Tie_C02_mu_lin1.halves_eq 4 (mueller_compose_lin_row1 (OO:=ROps) a00r a00i a01r a01i a10r a10i a11r a11i b00r b00i b01r b01i b10r b10i b11r b11i) /\
  Tie_C02_mu_lin2.halves_eq 4 (mueller_compose_lin_row2 (OO:=ROps) a00r a00i a01r a01i a10r a10i a11r a11i b00r b00i b01r b01i b10r b10i b11r b11i) /\
  Tie_C02_mu_lin3.halves_eq 4 (mueller_compose_lin_row3 (OO:=ROps) a00r a00i a01r a01i a10r a10i a11r a11i b00r b00i b01r b01i b10r b10i b11r b11i) /\
  Tie_C02_mu_circ0.halves_eq 4 (mueller_compose_circ_row0 (OO:=ROps) a00r a00i a01r a01i a10r a10i a11r a11i b00r b00i b01r b01i b10r b10i b11r b11i) /\
  Tie_C02_mu_circ1.halves_eq 4 (mueller_compose_circ_row1 (OO:=ROps) a00r a00i a01r a01i a10r a10i a11r a11i b00r b00i b01r b01i b10r b10i b11r b11i) /\
  Tie_C02_mu_circ2.halves_eq 4 (mueller_compose_circ_row2 (OO:=ROps) a00r a00i a01r a01i a10r a10i a11r a11i b00r b00i b01r b01i b10r b10i b11r b11i) /\
  Tie_C02_mu_circ3.halves_eq 4 (mueller_compose_circ_row3 (OO:=ROps) a00r a00i a01r a01i a10r a10i a11r a11i b00r b00i b01r b01i b10r b10i b11r b11i).
Proof.
  conj_split.
  - apply law_mueller_compose_lin_row0.
  - apply law_mueller_compose_lin_row1.
  - apply law_mueller_compose_lin_row2.
  - apply law_mueller_compose_lin_row3.
  - apply law_mueller_compose_circ_row0.
  - apply law_mueller_compose_circ_row1.
  - apply law_mueller_compose_circ_row2.
  - apply law_mueller_compose_circ_row3.
Qed.
Print Assumptions C02_mueller_composition.

Theorem C02_mueller_directional_derivative j00r j00i j01r j01i j10r j10i j11r j11i g00r g00i g01r g01i g10r g10i g11r g11i t :
  Tie_C02_mu_lin0.halves_eq 4 (mueller_derivative_lin_row0 (OO:=ROps) j00r j00i j01r j01i j10r j10i j11r j11i g00r g00i g01r g01i g10r g10i g11r g11i t) /\
  Tie_C02_mu_lin1.halves_eq 4 (mueller_derivative_lin_row1 (OO:=ROps) j00r j00i j01r j01i j10r j10i j11r j11i g00r g00i g01r g01i g10r g10i g11r g11i t) /\
  Tie_C02_mu_lin2.halves_eq 4 (mueller_derivative_lin_row2 (OO:=ROps) j00r j00i j01r j01i j10r j10i j11r j11i g00r g00i g01r g01i g10r g10i g11r g11i t) /\
  Tie_C02_mu_lin3.halves_eq 4 (mueller_derivative_lin_row3 (OO:=ROps) j00r j00i j01r j01i j10r j10i j11r j11i g00r g00i g01r g01i g10r g10i g11r g11i t) /\
  Tie_C02_mu_circ0.halves_eq 4 (mueller_derivative_circ_row0 (OO:=ROps) j00r j00i j01r j01i j10r j10i j11r j11i g00r g00i g01r g01i g10r g10i g11r g11i t) /\
  Tie_C02_mu_circ1.halves_eq 4 (mueller_derivative_circ_row1 (OO:=ROps) j00r j00i j01r j01i j10r j10i j11r j11i g00r g00i g01r g01i g10r g10i g11r g11i t) /\
  Tie_C02_mu_circ2.halves_eq 4 (mueller_derivative_circ_row2 (OO:=ROps) j00r j00i j01r j01i j10r j10i j11r j11i g00r g00i g01r g01i g10r g10i g11r g11i t) /\
  Tie_C02_mu_circ3.halves_eq 4 (mueller_derivative_circ_row3 (OO:=ROps) j00r j00i j01r j01i j10r j10i j11r j11i g00r g00i g01r g01i g10r g10i g11r g11i t).
Proof.
  conj_split.
  - apply law_mueller_derivative_lin_row0.
  - apply law_mueller_derivative_lin_row1.
  - apply law_mueller_derivative_lin_row2.
  - apply law_mueller_derivative_lin_row3.
  - apply law_mueller_derivative_circ_row0.
  - apply law_mueller_derivative_circ_row1.
  - apply law_mueller_derivative_circ_row2.
  - apply law_mueller_derivative_circ_row3.
Qed.
Print Assumptions C02_mueller_directional_derivative.

(* 5. the Mueller matrix is the trace formula of the paper (linear basis) *)
Theorem C02_mueller_is_trace_formula j00r j00i j01r j01i j10r j10i j11r j11i :
  mueller_lin (OO:=ROps) j00r j00i j01r j01i j10r j10i j11r j11i
  = grid16 (mueller_spec (M2of j00r j00i j01r j01i j10r j10i j11r j11i)).
Proof. apply tie_mueller_lin. Qed.

(* 6. the process-wide basis: every setting and every history of settings *)
Theorem C02_basis_states o e :
  basis_ok (basis_lin (OO:=ROps)) /\ basis_ok (basis_circ (OO:=ROps)) /\ basis_ok (basis_ell (OO:=ROps) o e).
Proof. conj_split.
  - apply tie_basis_lin.
  - apply tie_basis_circ.
  - apply tie_basis_ell. Qed.
Theorem C02_basis_history_sample o1 e1 o2 e2 o3 e3 :
  Tie_C02_basis.halves_eq 18 (basis_history_ECE (OO:=ROps) o1 e1 o2 e2 o3 e3) /\
  Tie_C02_basis.halves_eq 18 (basis_history_LEC (OO:=ROps) o1 e1 o2 e2 o3 e3) /\
  Tie_C02_basis.halves_eq 18 (basis_history_CEL (OO:=ROps) o1 e1 o2 e2 o3 e3).
Proof. conj_split.
  - apply law_basis_history_ECE.
  - apply law_basis_history_LEC.
  - apply law_basis_history_CEL. Qed.
Print Assumptions C02_basis_states.

(* spec level: for EVERY orthogonal basis matrix the round trip holds *)
Theorem C02_any_orthogonal_basis (b : nat -> nat -> R) (v : nat -> R) :
  (forall i j, (i < 3)%nat -> (j < 3)%nat ->
     b i 0%nat * b j 0%nat + b i 1%nat * b j 1%nat + b i 2%nat * b j 2%nat = if Nat.eqb i j then 1 else 0) ->
  (forall i j, (i < 3)%nat -> (j < 3)%nat ->
     b 0%nat i * b 0%nat j + b 1%nat i * b 1%nat j + b 2%nat i * b 2%nat j = if Nat.eqb i j then 1 else 0) ->
  forall i, (i < 3)%nat ->
  (* into (outof v) with outof = into^T *)
  b i 0%nat * (b 0%nat 0%nat * v 0%nat + b 1%nat 0%nat * v 1%nat + b 2%nat 0%nat * v 2%nat)
  + b i 1%nat * (b 0%nat 1%nat * v 0%nat + b 1%nat 1%nat * v 1%nat + b 2%nat 1%nat * v 2%nat)
  + b i 2%nat * (b 0%nat 2%nat * v 0%nat + b 1%nat 2%nat * v 1%nat + b 2%nat 2%nat * v 2%nat) = v i.
Proof.
  intros Hr _ i Hi.
  pose proof (Hr i 0%nat Hi ltac:(Lia.lia)) as H0. pose proof (Hr i 1%nat Hi ltac:(Lia.lia)) as H1. pose proof (Hr i 2%nat Hi ltac:(Lia.lia)) as H2.
  destruct i as [|[|[|i]]]; cbn [Nat.eqb] in *; try (exfalso; Lia.lia);
  match goal with |- ?l = _ =>
    replace l with ((b _ 0%nat * b 0%nat 0%nat + b _ 1%nat * b 0%nat 1%nat + b _ 2%nat * b 0%nat 2%nat) * v 0%nat
                  + (b _ 0%nat * b 1%nat 0%nat + b _ 1%nat * b 1%nat 1%nat + b _ 2%nat * b 1%nat 2%nat) * v 1%nat
                  + (b _ 0%nat * b 2%nat 0%nat + b _ 1%nat * b 2%nat 1%nat + b _ 2%nat * b 2%nat 2%nat) * v 2%nat) by ring end;
  rewrite H0, H1, H2; ring.
Qed.
