(* Tie_C14.v -- ties the rotation and basis matrices generated from Matrix.h /
   Basis.h / Vector.h (Gen_C14) to their mathematical definitions, for every
   unit axis, every angle and every orientation / ellipticity. *)
From Coq Require Import Reals Lra List.
From Epsic Require Import Scalar Gen_C14.
Import ListNotations.
Local Open Scope R_scope.

Definition halves_eq (n : nat) (l : list R) : Prop := firstn n l = skipn n l.

Ltac trig_abs :=
  repeat match goal with
  | |- context [cos ?x] => let c := fresh "c" in let s := fresh "s" in let H := fresh "Htrig" in
       assert (H : sin x * sin x = 1 - cos x * cos x) by (pose proof (sin2_cos2 x) as H; unfold Rsqr in H; lra);
       set (c := cos x) in *; set (s := sin x) in *; clearbody c s
  end.
Ltac rel_ring := match goal with
  | H1 : _ * _ = 1 - _ - _, H2 : _ * _ = 1 - _, H3 : _ * _ = 1 - _ |- _ => first [ring [H1 H2 H3] | field [H1 H2 H3]]
  | H1 : _ * _ = 1 - _ - _, H2 : _ * _ = 1 - _ |- _ => first [ring [H1 H2] | field [H1 H2]]
  | H1 : _ * _ = 1 - _, H2 : _ * _ = 1 - _ |- _ => first [ring [H1 H2] | field [H1 H2]]
  | H1 : _ * _ = 1 - _ |- _ => first [ring [H1] | field [H1]]
  end.
Ltac solve_entry := first [ ring | field | rel_ring | lazymatch goal with |- ?a = ?a => reflexivity end ].
Ltac law := intros; unfold halves_eq; autounfold with gen; ops_R; cbn [firstn skipn]; trig_abs; list_eq solve_entry.
Ltac unit_axis H := match type of H with ?a * ?a + ?b + ?c = 1 =>
  let H' := fresh "Hv" in assert (H' : a * a = 1 - b - c) by lra; clear H end.

(* the rotation matrix is c 1 + (1-c) v v^T + s [v]_x *)
Lemma tie_rotation v0 v1 v2 th :
  rotation (OO:=ROps) v0 v1 v2 th =
  let c := cos th in let s := sin th in let u := 1 - c in
  [v0*v0*u + c;     v1*v0*u - v2*s;  v2*v0*u + v1*s;
   v0*v1*u + v2*s;  v1*v1*u + c;     v2*v1*u - v0*s;
   v0*v2*u - v1*s;  v1*v2*u + v0*s;  v2*v2*u + c].
Proof. intros; autounfold with gen; ops_R; cbv zeta; list_eq solve_entry. Qed.

Lemma tie_cross a0 a1 a2 b0 b1 b2 :
  cross (OO:=ROps) a0 a1 a2 b0 b1 b2 = [a1*b2 - a2*b1; a2*b0 - a0*b2; a0*b1 - a1*b0; a0*b0 + a1*b1 + a2*b2].
Proof. intros; autounfold with gen; ops_R; list_eq solve_entry. Qed.

(* for a unit axis: orthogonal, determinant +1, axis fixed -- all angles *)
Lemma tie_rotation_orthogonal v0 v1 v2 th : v0*v0 + v1*v1 + v2*v2 = 1 ->
  rotation_orthogonal (OO:=ROps) v0 v1 v2 th = [1;0;0; 0;1;0; 0;0;1] ++ [1] ++ [v0; v1; v2].
Proof. intros H; unit_axis H; autounfold with gen; ops_R; cbn [app]; trig_abs; list_eq solve_entry. Qed.

(* Rodrigues' formula built from the code's own cross and dot products: every axis, angle and vector *)
Lemma law_rotation_rodrigues v0 v1 v2 x0 x1 x2 th :
  halves_eq 3 (rotation_rodrigues (OO:=ROps) v0 v1 v2 x0 x1 x2 th).
Proof. law. Qed.

(* additive in the angle about a common unit axis *)
Lemma law_rotation_compose v0 v1 v2 t1 t2 : v0*v0 + v1*v1 + v2*v2 = 1 ->
  halves_eq 9 (rotation_compose (OO:=ROps) v0 v1 v2 t1 t2).
Proof.
  intros H; unit_axis H; unfold halves_eq; autounfold with gen; ops_R; cbn [firstn skipn].
  rewrite ?sin_plus, ?cos_plus; trig_abs; list_eq solve_entry.
Qed.

(* ---- basis matrices ---- *)
Definition basis_ok (l : list R) : Prop :=
  match l with
  | [a00; a01; a02; a10; a11; a12; a20; a21; a22; c00; c01; c02; c10; c11; c12; c20; c21; c22] =>
      [c00; c01; c02; c10; c11; c12; c20; c21; c22] = [a00; a01; a02; a10; a11; a12; a20; a21; a22] /\
      a00*a00 + a01*a01 + a02*a02 = 1 /\ a10*a10 + a11*a11 + a12*a12 = 1 /\ a20*a20 + a21*a21 + a22*a22 = 1 /\
      a00*a10 + a01*a11 + a02*a12 = 0 /\ a00*a20 + a01*a21 + a02*a22 = 0 /\ a10*a20 + a11*a21 + a12*a22 = 0 /\
      a00*(a11*a22 - a12*a21) - a01*(a10*a22 - a12*a20) + a02*(a10*a21 - a11*a20) = 1
  | _ => False
  end.
Ltac basis := intros; autounfold with gen; ops_R; unfold basis_ok; trig_abs;
  conj_split; lazymatch goal with |- cons _ _ = _ => list_eq solve_entry | |- _ => solve_entry end.
Lemma tie_basis_ell o e : basis_ok (basis_ell (OO:=ROps) o e).   Proof. basis. Qed.
Lemma tie_basis_lin : basis_ok (basis_lin (OO:=ROps)).           Proof. basis. Qed.
Lemma tie_basis_circ : basis_ok (basis_circ (OO:=ROps)).         Proof. basis. Qed.
Lemma tie_basis_default : basis_default (OO:=ROps) = basis_lin (OO:=ROps).
Proof. autounfold with gen; ops_R; list_eq solve_entry. Qed.
(* the circular basis coincides with orientation = ellipticity = pi/4 *)
Lemma tie_basis_quarter_pi : basis_quarter_pi (OO:=ROps) = basis_circ (OO:=ROps).
Proof.
  autounfold with gen; ops_R.
  replace (2 * (PI / 4)) with (PI / 2) by field. rewrite cos_PI2, sin_PI2. list_eq solve_entry.
Qed.
Lemma law_basis_roundtrip_ell o e x0 x1 x2 : halves_eq 6 (basis_roundtrip_ell (OO:=ROps) o e x0 x1 x2).
Proof. law. Qed.
Lemma law_basis_roundtrip_circ x0 x1 x2 : halves_eq 6 (basis_roundtrip_circ (OO:=ROps) x0 x1 x2).
Proof. law. Qed.

(* every history of three settings on one object ends in the state of the last call *)
Lemma law_basis_history_LLL o1 e1 o2 e2 o3 e3 :
  halves_eq 20 (basis_history_LLL (OO:=ROps) o1 e1 o2 e2 o3 e3).
Proof. law. Qed.
Lemma law_basis_history_LLC o1 e1 o2 e2 o3 e3 :
  halves_eq 20 (basis_history_LLC (OO:=ROps) o1 e1 o2 e2 o3 e3).
Proof. law. Qed.
Lemma law_basis_history_LLE o1 e1 o2 e2 o3 e3 :
  halves_eq 20 (basis_history_LLE (OO:=ROps) o1 e1 o2 e2 o3 e3).
Proof. law. Qed.
Lemma law_basis_history_LCL o1 e1 o2 e2 o3 e3 :
  halves_eq 20 (basis_history_LCL (OO:=ROps) o1 e1 o2 e2 o3 e3).
Proof. law. Qed.
Lemma law_basis_history_LCC o1 e1 o2 e2 o3 e3 :
  halves_eq 20 (basis_history_LCC (OO:=ROps) o1 e1 o2 e2 o3 e3).
Proof. law. Qed.
Lemma law_basis_history_LCE o1 e1 o2 e2 o3 e3 :
  halves_eq 20 (basis_history_LCE (OO:=ROps) o1 e1 o2 e2 o3 e3).
Proof. law. Qed.
Lemma law_basis_history_LEL o1 e1 o2 e2 o3 e3 :
  halves_eq 20 (basis_history_LEL (OO:=ROps) o1 e1 o2 e2 o3 e3).
Proof. law. Qed.
Lemma law_basis_history_LEC o1 e1 o2 e2 o3 e3 :
  halves_eq 20 (basis_history_LEC (OO:=ROps) o1 e1 o2 e2 o3 e3).
Proof. law. Qed.
Lemma law_basis_history_LEE o1 e1 o2 e2 o3 e3 :
  halves_eq 20 (basis_history_LEE (OO:=ROps) o1 e1 o2 e2 o3 e3).
Proof. law. Qed.
Lemma law_basis_history_CLL o1 e1 o2 e2 o3 e3 :
  halves_eq 20 (basis_history_CLL (OO:=ROps) o1 e1 o2 e2 o3 e3).
Proof. law. Qed.
Lemma law_basis_history_CLC o1 e1 o2 e2 o3 e3 :
  halves_eq 20 (basis_history_CLC (OO:=ROps) o1 e1 o2 e2 o3 e3).
Proof. law. Qed.
Lemma law_basis_history_CLE o1 e1 o2 e2 o3 e3 :
  halves_eq 20 (basis_history_CLE (OO:=ROps) o1 e1 o2 e2 o3 e3).
Proof. law. Qed.
Lemma law_basis_history_CCL o1 e1 o2 e2 o3 e3 :
  halves_eq 20 (basis_history_CCL (OO:=ROps) o1 e1 o2 e2 o3 e3).
Proof. law. Qed.
Lemma law_basis_history_CCC o1 e1 o2 e2 o3 e3 :
  halves_eq 20 (basis_history_CCC (OO:=ROps) o1 e1 o2 e2 o3 e3).
Proof. law. Qed.
Lemma law_basis_history_CCE o1 e1 o2 e2 o3 e3 :
  halves_eq 20 (basis_history_CCE (OO:=ROps) o1 e1 o2 e2 o3 e3).
Proof. law. Qed.
Lemma law_basis_history_CEL o1 e1 o2 e2 o3 e3 :
  halves_eq 20 (basis_history_CEL (OO:=ROps) o1 e1 o2 e2 o3 e3).
Proof. law. Qed.
Lemma law_basis_history_CEC o1 e1 o2 e2 o3 e3 :
  halves_eq 20 (basis_history_CEC (OO:=ROps) o1 e1 o2 e2 o3 e3).
Proof. law. Qed.
Lemma law_basis_history_CEE o1 e1 o2 e2 o3 e3 :
  halves_eq 20 (basis_history_CEE (OO:=ROps) o1 e1 o2 e2 o3 e3).
Proof. law. Qed.
Lemma law_basis_history_ELL o1 e1 o2 e2 o3 e3 :
  halves_eq 20 (basis_history_ELL (OO:=ROps) o1 e1 o2 e2 o3 e3).
Proof. law. Qed.
Lemma law_basis_history_ELC o1 e1 o2 e2 o3 e3 :
  halves_eq 20 (basis_history_ELC (OO:=ROps) o1 e1 o2 e2 o3 e3).
Proof. law. Qed.
Lemma law_basis_history_ELE o1 e1 o2 e2 o3 e3 :
  halves_eq 20 (basis_history_ELE (OO:=ROps) o1 e1 o2 e2 o3 e3).
Proof. law. Qed.
Lemma law_basis_history_ECL o1 e1 o2 e2 o3 e3 :
  halves_eq 20 (basis_history_ECL (OO:=ROps) o1 e1 o2 e2 o3 e3).
Proof. law. Qed.
Lemma law_basis_history_ECC o1 e1 o2 e2 o3 e3 :
  halves_eq 20 (basis_history_ECC (OO:=ROps) o1 e1 o2 e2 o3 e3).
Proof. law. Qed.
Lemma law_basis_history_ECE o1 e1 o2 e2 o3 e3 :
  halves_eq 20 (basis_history_ECE (OO:=ROps) o1 e1 o2 e2 o3 e3).
Proof. law. Qed.
Lemma law_basis_history_EEL o1 e1 o2 e2 o3 e3 :
  halves_eq 20 (basis_history_EEL (OO:=ROps) o1 e1 o2 e2 o3 e3).
Proof. law. Qed.
Lemma law_basis_history_EEC o1 e1 o2 e2 o3 e3 :
  halves_eq 20 (basis_history_EEC (OO:=ROps) o1 e1 o2 e2 o3 e3).
Proof. law. Qed.
Lemma law_basis_history_EEE o1 e1 o2 e2 o3 e3 :
  halves_eq 20 (basis_history_EEE (OO:=ROps) o1 e1 o2 e2 o3 e3).
Proof. law. Qed.
