(* Tie_C13.v -- GENERATED ONCE by harness/gen_tie_C13.py and committed.
   Vector.h / Matrix.h as generated at representative (rectangular) shapes: entries tied to
   the defining sums, laws with both sides computed by the code, Gauss-Jordan on every pivot path. *)
From Coq Require Import Reals Lra List.
From Epsic Require Import Scalar SpecPauli Gen_C13.
Import ListNotations.
Local Open Scope R_scope.

Definition halves_eq (n : nat) (l : list R) : Prop := firstn n l = skipn n l.
Ltac solve_entry := first [ ring | field; nz_auto ].
Ltac tie := intros; autounfold with gen; ops_R; list_eq solve_entry.
(* |x| <= |y| as x^2 <= y^2, so that nra can use the pivot comparisons *)
Lemma abs_sq_eq x : Rabs x * Rabs x = x * x.
Proof. unfold Rabs; destruct (Rcase_abs x); ring. Qed.
Lemma abs_le_sq x y : Rabs x <= Rabs y -> x * x <= y * y.
Proof. intros H. rewrite <- (abs_sq_eq x), <- (abs_sq_eq y). pose proof (Rabs_pos x). nra. Qed.
Lemma abs_nle_sq x y : ~ (Rabs y <= Rabs x) -> x * x < y * y.
Proof. intros H. apply Rnot_le_lt in H. rewrite <- (abs_sq_eq x), <- (abs_sq_eq y). pose proof (Rabs_pos x). nra. Qed.
Ltac abs_sq := repeat match goal with
  | H : Rabs _ <= Rabs _ |- _ => apply abs_le_sq in H
  | H : ~ (Rabs _ <= Rabs _) |- _ => apply abs_nle_sq in H
  end.
(* det = 0 on a throwing path: either every candidate pivot is zero, or det = +- pivot * (reduced element) *)
Ltac zero_prop := repeat match goal with
  | E : ?x = 0 |- _ => is_var x; subst x
  | H : ?y * ?y <= 0 * 0 |- _ => assert (y = 0) by nra; clear H
  | H : _ * _ < 0 * 0 |- _ => exfalso; nra
  end.
Ltac gj_zero :=
  first [ solve [ abs_sq; zero_prop; first [ ring | nra ] ]
        | match goal with E : ?e = 0, P : ?p <> 0 |- ?d = 0 =>
            first [ replace d with (p * e) by (field; exact P) | replace d with (- p * e) by (field; exact P) ]; rewrite E; ring end ].
Ltac gj_nonzero D :=
  match type of D with ?d = 0 =>
    match goal with H2 : ?e <> 0, P : ?p <> 0 |- _ =>
      apply H2; first [ replace e with (d / p) by (field; exact P) | replace e with (- d / p) by (field; exact P) ]; rewrite D; field; exact P end end.
(* side conditions of field on an elimination path: the cleared-denominator form of a pivot *)
Ltac nz_pivot := repeat split; try assumption;
  let E := fresh "E" in intro E;
  match goal with H : ?q <> 0 |- _ =>
    apply H; field_simplify_eq; [ first [ lra | nra | (rewrite <- E; ring) | (etransitivity; [ | exact E ]; ring) ] | repeat split; assumption ] end.
Ltac law := intros; unfold halves_eq; autounfold with gen; ops_R; cbn [firstn skipn]; list_eq solve_entry.

Lemma tie_mul_2x3_3x2 a00 a01 a02 a10 a11 a12 b00 b01 b10 b11 b20 b21 :
  mul_2x3_3x2 (OO:=ROps) a00 a01 a02 a10 a11 a12 b00 b01 b10 b11 b20 b21 = [a00 * b00 + a01 * b10 + a02 * b20; a00 * b01 + a01 * b11 + a02 * b21; a10 * b00 + a11 * b10 + a12 * b20; a10 * b01 + a11 * b11 + a12 * b21].
Proof. tie. Qed.

Lemma tie_mulvec_2x3 a00 a01 a02 a10 a11 a12 v0 v1 v2 :
  mulvec_2x3 (OO:=ROps) a00 a01 a02 a10 a11 a12 v0 v1 v2 = [a00 * v0 + a01 * v1 + a02 * v2; a10 * v0 + a11 * v1 + a12 * v2].
Proof. tie. Qed.

Lemma tie_vecmul_2x3 a00 a01 a02 a10 a11 a12 v0 v1 :
  vecmul_2x3 (OO:=ROps) a00 a01 a02 a10 a11 a12 v0 v1 = [a00 * v0 + a10 * v1; a01 * v0 + a11 * v1; a02 * v0 + a12 * v1].
Proof. tie. Qed.

Lemma tie_transpose_2x3 a00 a01 a02 a10 a11 a12 :
  transpose_2x3 (OO:=ROps) a00 a01 a02 a10 a11 a12 = [a00; a10; a01; a11; a02; a12].
Proof. tie. Qed.

Lemma tie_herm_2x2c a00r a00i a01r a01i a10r a10i a11r a11i :
  herm_2x2c (OO:=ROps) a00r a00i a01r a01i a10r a10i a11r a11i = [a00r; - a00i; a10r; - a10i; a01r; - a01i; a11r; - a11i].
Proof. tie. Qed.

Lemma tie_trace_3 a00 a01 a02 a10 a11 a12 a20 a21 a22 :
  trace_3 (OO:=ROps) a00 a01 a02 a10 a11 a12 a20 a21 a22 = [a00 + a11 + a22].
Proof. tie. Qed.

Lemma tie_outer_2_3 a0 a1 b0 b1 b2 :
  outer_2_3 (OO:=ROps) a0 a1 b0 b1 b2 = [a0 * b0; a0 * b1; a0 * b2; a1 * b0; a1 * b1; a1 * b2].
Proof. tie. Qed.

Lemma tie_dot_cross_3 a0 a1 a2 b0 b1 b2 :
  dot_cross_3 (OO:=ROps) a0 a1 a2 b0 b1 b2 = [a0 * b0 + a1 * b1 + a2 * b2; a1 * b2 - a2 * b1; a2 * b0 - a0 * b2; a0 * b1 - a1 * b0; a0 * a0 + a1 * a1 + a2 * a2].
Proof. tie. Qed.

Lemma tie_direct_2x2_2x2 a00 a01 a10 a11 b00 b01 b10 b11 :
  direct_2x2_2x2 (OO:=ROps) a00 a01 a10 a11 b00 b01 b10 b11 = [a00 * b00; a00 * b01; a01 * b00; a01 * b01; a00 * b10; a00 * b11; a01 * b10; a01 * b11; a10 * b00; a10 * b01; a11 * b00; a11 * b01; a10 * b10; a10 * b11; a11 * b10; a11 * b11].
Proof. tie. Qed.

Lemma tie_direct_2x3_1x2 a00 a01 a02 a10 a11 a12 b00 b01 :
  direct_2x3_1x2 (OO:=ROps) a00 a01 a02 a10 a11 a12 b00 b01 = [a00 * b00; a00 * b01; a01 * b00; a01 * b01; a02 * b00; a02 * b01; a10 * b00; a10 * b01; a11 * b00; a11 * b01; a12 * b00; a12 * b01].
Proof. tie. Qed.

Lemma tie_scalar_ctor_2x3 s :
  scalar_ctor_2x3 (OO:=ROps) s = [s; 0; 0; 0; s; 0].
Proof. tie. Qed.

Lemma tie_scalar_ctor_3x3 s :
  scalar_ctor_3x3 (OO:=ROps) s = [s; 0; 0; 0; s; 0; 0; 0; s].
Proof. tie. Qed.

Lemma tie_identity_3 : identity_3 (OO:=ROps) = [1; 0; 0; 0; 1; 0; 0; 0; 1].
Proof. tie. Qed.

Lemma tie_vector_ops_3 a0 a1 a2 b0 b1 b2 c (Hc : c <> 0) :
  vector_ops_3 (OO:=ROps) a0 a1 a2 b0 b1 b2 c = [a0 + b0; a1 + b1; a2 + b2; a0 - b0; a1 - b1; a2 - b2; a0 * c; a1 * c; a2 * c; a0 * c; a1 * c; a2 * c; a0 / c; a1 / c; a2 / c; - a0; - a1; - a2].
Proof. tie. Qed.

Lemma tie_dirac_12 :
  dirac_12 (OO:=ROps) =
  flat_map (fun r => flat_map (fun c => clist (cmul (nth (c / 2) (nth (r / 2) [[m00 (sigma 1); m01 (sigma 1)]; [m10 (sigma 1); m11 (sigma 1)]] []) c0)
                                                    (nth (c mod 2) (nth (r mod 2) [[m00 (sigma 2); m01 (sigma 2)]; [m10 (sigma 2); m11 (sigma 2)]] []) c0))) [0;1;2;3]%nat) [0;1;2;3]%nat.
Proof.
  autounfold with gen; ops_R. unfold sigma.
  cbv beta iota delta [flat_map nth Nat.div Nat.modulo Nat.divmod fst snd Nat.sub app clist cmul cre cim cneg c0 c1 ci m00 m01 m10 m11].
  list_eq solve_entry.
Qed.

Lemma law_assoc a00 a01 a02 a10 a11 a12 b00 b01 b10 b11 b20 b21 c00 c01 c02 c10 c11 c12 :
  halves_eq 6 (law_assoc (OO:=ROps) a00 a01 a02 a10 a11 a12 b00 b01 b10 b11 b20 b21 c00 c01 c02 c10 c11 c12).
Proof. law. Qed.

Lemma law_distrib a00 a01 a02 a10 a11 a12 b00 b01 b10 b11 b20 b21 c00 c01 c10 c11 c20 c21 :
  halves_eq 4 (law_distrib (OO:=ROps) a00 a01 a02 a10 a11 a12 b00 b01 b10 b11 b20 b21 c00 c01 c10 c11 c20 c21).
Proof. law. Qed.

Lemma law_matvec a00 a01 a02 a10 a11 a12 b00 b01 b10 b11 b20 b21 v0 v1 :
  halves_eq 2 (law_matvec (OO:=ROps) a00 a01 a02 a10 a11 a12 b00 b01 b10 b11 b20 b21 v0 v1).
Proof. law. Qed.

Lemma law_vecmat_transpose a00 a01 a02 a10 a11 a12 v0 v1 :
  halves_eq 3 (law_vecmat_transpose (OO:=ROps) a00 a01 a02 a10 a11 a12 v0 v1).
Proof. law. Qed.

Lemma law_transpose_product a00 a01 a02 a10 a11 a12 b00 b01 b10 b11 b20 b21 :
  halves_eq 4 (law_transpose_product (OO:=ROps) a00 a01 a02 a10 a11 a12 b00 b01 b10 b11 b20 b21).
Proof. law. Qed.

Lemma law_herm_product a00r a00i a01r a01i a10r a10i a11r a11i b00r b00i b01r b01i b10r b10i b11r b11i :
  halves_eq 8 (law_herm_product (OO:=ROps) a00r a00i a01r a01i a10r a10i a11r a11i b00r b00i b01r b01i b10r b10i b11r b11i).
Proof. law. Qed.

Lemma law_trace_cyclic a00 a01 a02 a10 a11 a12 b00 b01 b10 b11 b20 b21 :
  halves_eq 1 (law_trace_cyclic (OO:=ROps) a00 a01 a02 a10 a11 a12 b00 b01 b10 b11 b20 b21).
Proof. law. Qed.

Lemma law_outer_trace_dot a0 a1 a2 b0 b1 b2 :
  halves_eq 1 (law_outer_trace_dot (OO:=ROps) a0 a1 a2 b0 b1 b2).
Proof. law. Qed.

Lemma law_cross a0 a1 a2 b0 b1 b2 c0 c1 c2 :
  halves_eq 7 (law_cross (OO:=ROps) a0 a1 a2 b0 b1 b2 c0 c1 c2).
Proof. law. Qed.

Lemma law_kronecker_mixed a00 a01 a10 a11 b00 b01 b10 b11 c00 c01 c10 c11 d00 d01 d10 d11 :
  halves_eq 16 (law_kronecker_mixed (OO:=ROps) a00 a01 a10 a11 b00 b01 b10 b11 c00 c01 c10 c11 d00 d01 d10 d11).
Proof. law. Qed.

Lemma law_kronecker_rect a00 a01 b00 b10 c00 c10 d00 d01 :
  halves_eq 4 (law_kronecker_rect (OO:=ROps) a00 a01 b00 b10 c00 c10 d00 d01).
Proof. law. Qed.

Lemma law_partition_compose a00 a01 a02 a03 a10 a11 a12 a13 a20 a21 a22 a23 :
  let l := law_partition_compose (OO:=ROps) a00 a01 a02 a03 a10 a11 a12 a13 a20 a21 a22 a23 in
  firstn 12 l = firstn 12 (skipn 12 l) /\
  skipn 24 l = [a00; a01; a02] ++ [a03] ++ [a10; a11; a12; a20; a21; a22] ++ [a13; a23].
Proof. intros l; subst l. autounfold with gen; ops_R; cbn [firstn skipn app]. split; list_eq solve_entry. Qed.

Lemma law_partition_compose_sym a00 a01 a02 a10 a11 a12 a20 a21 a22 : a01 = a10 -> a02 = a20 ->
  law_partition_compose_sym (OO:=ROps) a00 a01 a02 a10 a11 a12 a20 a21 a22 = [a00] ++ [a01; a02] ++ [a11; a12; a21; a22] ++ [a00; a01; a02; a10; a11; a12; a20; a21; a22].
Proof. intros H1 H2. autounfold with gen; ops_R; cbn [app]. subst. list_eq solve_entry. Qed.

(* Gauss-Jordan, N = 2: on every pivot path that does not throw, inv(A) A = A inv(A) = 1;
   a path throws exactly when det A = 0 *)
Definition gj_ok (l : list R) : Prop :=
  l = [] \/ (firstn 4 (skipn 4 l) = [1; 0; 0; 1] /\ firstn 4 (skipn 8 l) = [1; 0; 0; 1]).
Lemma tie_gj2 a00 a01 a10 a11 :
  Forall (fun c : Prop * list R => fst c -> gj_ok (snd c)) (gj2_cases (OO:=ROps) a00 a01 a10 a11).
Proof.
  unfold gj_ok. autounfold with gen; ops_R.
  repeat (apply Forall_cons; [ cbn [fst snd firstn skipn]; intros PC;
    first [ left; reflexivity
          | right; decompose [and] PC; split; list_eq ltac:(first [ ring | field; nz_auto | field; nz_pivot ]) ] | ]).
  apply Forall_nil.
Qed.
Lemma tie_gj2_singular a00 a01 a10 a11 :
  Forall (fun c : Prop * bool => fst c -> (snd c = true <-> a00 * a11 - a01 * a10 = 0)) (gj2_throwcases (OO:=ROps) a00 a01 a10 a11).
Proof.
  autounfold with gen; ops_R.
  repeat (apply Forall_cons; [ cbn [fst snd]; intros PC; decompose [and] PC; clear PC; split;
    [ intros E; first [ (vm_compute in E; discriminate E) | gj_zero ]
    | intros D; first [ reflexivity | exfalso; gj_nonzero D ] ] | ]).
  apply Forall_nil.
Qed.

(* Gauss-Jordan, N = 3: outputs are inv (9), inv A (9), A inv (9) *)
Definition gj3_ok (l : list R) : Prop :=
  firstn 9 (skipn 9 l) = [1;0;0;0;1;0;0;0;1] /\ skipn 18 l = [1;0;0;0;1;0;0;0;1].
(* side conditions of field: the cleared-denominator form of each pivot follows from the pivot test of the path *)
Ltac nz3 := repeat split;
  first [ assumption
        | let E := fresh "E" in intro E;
          match goal with H : ?q <> 0 |- _ =>
            apply H; field_simplify_eq;
            [ first [ (etransitivity; [ | exact E ]; ring) | (rewrite <- E; ring) ] | nz3 ] end ].
Ltac gj3 := unfold gj3_ok; autounfold with gen; ops_R; intros PC; decompose [and] PC; clear PC;
  repeat match goal with H : ~ (_ <= _) |- _ => clear H | H : _ <= _ |- _ => clear H end;
  cbn [firstn skipn]; split; list_eq ltac:(first [ ring | field; nz3 ]).

(* parts of complex vectors, squared norms of vectors and matrices *)
Lemma tie_complex_vector_parts v0r v0i v1r v1i v2r v2i :
  complex_vector_parts (OO:=ROps) v0r v0i v1r v1i v2r v2i =
  [v0r; v1r; v2r; v0i; v1i; v2i; v0r; - v0i; v1r; - v1i; v2r; - v2i;
   v0r*v0r + v0i*v0i + v1r*v1r + v1i*v1i + v2r*v2r + v2i*v2i; v0r*v0r + v1r*v1r + v2r*v2r; v0r*v0r + v1r*v1r + v2r*v2r].
Proof. intros; autounfold with gen; ops_R; list_eq ltac:(first [ ring | (rewrite sqrt_sqrt by nra; ring) ]). Qed.
Lemma tie_matrix_normsq a00 a01 a02 a10 a11 a12 b00 b01 b10 b11 b20 b21 c00r c00i c01r c01i c10r c10i c11r c11i :
  matrix_normsq (OO:=ROps) a00 a01 a02 a10 a11 a12 b00 b01 b10 b11 b20 b21 c00r c00i c01r c01i c10r c10i c11r c11i =
  [a00*a00 + a01*a01 + a02*a02 + a10*a10 + a11*a11 + a12*a12; b00*b00 + b01*b01 + b10*b10 + b11*b11 + b20*b20 + b21*b21;
   c00r*c00r + c00i*c00i + c01r*c01r + c01i*c01i + c10r*c10r + c10i*c10i + c11r*c11r + c11i*c11i; 0].
Proof. tie. Qed.
Lemma tie_matrix_negate_zero_assign a00 a01 a02 a10 a11 a12 :
  matrix_negate_zero_assign (OO:=ROps) a00 a01 a02 a10 a11 a12 =
  [- a00; - a01; - a02; - a10; - a11; - a12; 0; 0; 0; 0; 0; 0;
   a00; 0; a01; 0; a02; 0; a10; 0; a11; 0; a12; 0; a00; 0; a01; 0; a02; 0; a10; 0; a11; 0; a12; 0].
Proof. tie. Qed.
