(* Tie_C06.v -- GENERATED ONCE by harness/gen_tie_C06.py and committed.
   Pattern G ties: the unrolled code of sample::get_covariance /
   get_crosscovariance at concrete sample sizes n and lags L, run on a stub mode
   with symbolic per-instance statistics c, x0, x1, ..., equals the spec formulas
   of SampleModel at that (n, L), entry by entry. *)
From Coq Require Import Reals Lra List.
From Epsic Require Import Scalar SampleModel Gen_C06.
Import ListNotations.
Local Open Scope R_scope.

Definition pat (i j : nat) : R := 1 + 4 * INR i + INR j.
Definition seqf (l : list R) : nat -> R := fun k => nth k l 0.
Definition grid16 {T} (f : nat -> nat -> T) : list T :=
  flat_map (fun i => map (fun j => f i j) [0;1;2;3]%nat) [0;1;2;3]%nat.
Definition halves_eq (n : nat) (l : list R) : Prop := firstn n l = skipn n l.

Ltac tie := intros; autounfold with gen; ops_R;
  unfold grid16, pat, seqf, cov_formula, xcov_formula, brute;
  cbv beta iota delta [sumf absdiff nth Nat.leb Nat.sub Nat.add Nat.mul INR flat_map map app];
  list_eq ltac:(first [field | ring]).
Ltac law := intros; unfold halves_eq; autounfold with gen; ops_R; cbn [firstn skipn]; list_eq ltac:(first [ring | field]).

Lemma tie_cov_n1 c x0 x1 :
  cov_n1 (OO:=ROps) c x0 x1 = grid16 (fun i j => pat i j * cov_formula c (seqf [x0; x1]) 1).
Proof. tie. Qed.

Lemma tie_xcov_n1_L0 c x0 x1 :
  xcov_n1_L0 (OO:=ROps) c x0 x1 = grid16 (fun i j => pat i j * xcov_formula (seqf [x0; x1]) 1 0).
Proof. tie. Qed.

Lemma tie_xcov_n1_L1 c x0 x1 x2 :
  xcov_n1_L1 (OO:=ROps) c x0 x1 x2 = grid16 (fun i j => pat i j * xcov_formula (seqf [x0; x1; x2]) 1 1).
Proof. tie. Qed.

Lemma tie_xcov_n1_L2 c x0 x1 x2 x3 :
  xcov_n1_L2 (OO:=ROps) c x0 x1 x2 x3 = grid16 (fun i j => pat i j * xcov_formula (seqf [x0; x1; x2; x3]) 1 2).
Proof. tie. Qed.

Lemma tie_xcov_n1_L3 c x0 x1 x2 x3 x4 :
  xcov_n1_L3 (OO:=ROps) c x0 x1 x2 x3 x4 = grid16 (fun i j => pat i j * xcov_formula (seqf [x0; x1; x2; x3; x4]) 1 3).
Proof. tie. Qed.

Lemma tie_cov_n2 c x0 x1 x2 :
  cov_n2 (OO:=ROps) c x0 x1 x2 = grid16 (fun i j => pat i j * cov_formula c (seqf [x0; x1; x2]) 2).
Proof. tie. Qed.

Lemma tie_xcov_n2_L0 c x0 x1 x2 :
  xcov_n2_L0 (OO:=ROps) c x0 x1 x2 = grid16 (fun i j => pat i j * xcov_formula (seqf [x0; x1; x2]) 2 0).
Proof. tie. Qed.

Lemma tie_xcov_n2_L1 c x0 x1 x2 x3 x4 :
  xcov_n2_L1 (OO:=ROps) c x0 x1 x2 x3 x4 = grid16 (fun i j => pat i j * xcov_formula (seqf [x0; x1; x2; x3; x4]) 2 1).
Proof. tie. Qed.

Lemma tie_xcov_n2_L2 c x0 x1 x2 x3 x4 x5 x6 :
  xcov_n2_L2 (OO:=ROps) c x0 x1 x2 x3 x4 x5 x6 = grid16 (fun i j => pat i j * xcov_formula (seqf [x0; x1; x2; x3; x4; x5; x6]) 2 2).
Proof. tie. Qed.

Lemma tie_xcov_n2_L3 c x0 x1 x2 x3 x4 x5 x6 x7 x8 :
  xcov_n2_L3 (OO:=ROps) c x0 x1 x2 x3 x4 x5 x6 x7 x8 = grid16 (fun i j => pat i j * xcov_formula (seqf [x0; x1; x2; x3; x4; x5; x6; x7; x8]) 2 3).
Proof. tie. Qed.

Lemma tie_cov_n3 c x0 x1 x2 x3 :
  cov_n3 (OO:=ROps) c x0 x1 x2 x3 = grid16 (fun i j => pat i j * cov_formula c (seqf [x0; x1; x2; x3]) 3).
Proof. tie. Qed.

Lemma tie_xcov_n3_L0 c x0 x1 x2 x3 :
  xcov_n3_L0 (OO:=ROps) c x0 x1 x2 x3 = grid16 (fun i j => pat i j * xcov_formula (seqf [x0; x1; x2; x3]) 3 0).
Proof. tie. Qed.

Lemma tie_xcov_n3_L1 c x0 x1 x2 x3 x4 x5 x6 :
  xcov_n3_L1 (OO:=ROps) c x0 x1 x2 x3 x4 x5 x6 = grid16 (fun i j => pat i j * xcov_formula (seqf [x0; x1; x2; x3; x4; x5; x6]) 3 1).
Proof. tie. Qed.

Lemma tie_xcov_n3_L2 c x0 x1 x2 x3 x4 x5 x6 x7 x8 x9 :
  xcov_n3_L2 (OO:=ROps) c x0 x1 x2 x3 x4 x5 x6 x7 x8 x9 = grid16 (fun i j => pat i j * xcov_formula (seqf [x0; x1; x2; x3; x4; x5; x6; x7; x8; x9]) 3 2).
Proof. tie. Qed.

Lemma tie_xcov_n3_L3 c x0 x1 x2 x3 x4 x5 x6 x7 x8 x9 x10 x11 x12 :
  xcov_n3_L3 (OO:=ROps) c x0 x1 x2 x3 x4 x5 x6 x7 x8 x9 x10 x11 x12 = grid16 (fun i j => pat i j * xcov_formula (seqf [x0; x1; x2; x3; x4; x5; x6; x7; x8; x9; x10; x11; x12]) 3 3).
Proof. tie. Qed.

Lemma tie_cov_n4 c x0 x1 x2 x3 x4 :
  cov_n4 (OO:=ROps) c x0 x1 x2 x3 x4 = grid16 (fun i j => pat i j * cov_formula c (seqf [x0; x1; x2; x3; x4]) 4).
Proof. tie. Qed.

Lemma tie_xcov_n4_L0 c x0 x1 x2 x3 x4 :
  xcov_n4_L0 (OO:=ROps) c x0 x1 x2 x3 x4 = grid16 (fun i j => pat i j * xcov_formula (seqf [x0; x1; x2; x3; x4]) 4 0).
Proof. tie. Qed.

Lemma tie_xcov_n4_L1 c x0 x1 x2 x3 x4 x5 x6 x7 x8 :
  xcov_n4_L1 (OO:=ROps) c x0 x1 x2 x3 x4 x5 x6 x7 x8 = grid16 (fun i j => pat i j * xcov_formula (seqf [x0; x1; x2; x3; x4; x5; x6; x7; x8]) 4 1).
Proof. tie. Qed.

Lemma tie_xcov_n4_L2 c x0 x1 x2 x3 x4 x5 x6 x7 x8 x9 x10 x11 x12 :
  xcov_n4_L2 (OO:=ROps) c x0 x1 x2 x3 x4 x5 x6 x7 x8 x9 x10 x11 x12 = grid16 (fun i j => pat i j * xcov_formula (seqf [x0; x1; x2; x3; x4; x5; x6; x7; x8; x9; x10; x11; x12]) 4 2).
Proof. tie. Qed.

Lemma tie_xcov_n4_L3 c x0 x1 x2 x3 x4 x5 x6 x7 x8 x9 x10 x11 x12 x13 x14 x15 x16 :
  xcov_n4_L3 (OO:=ROps) c x0 x1 x2 x3 x4 x5 x6 x7 x8 x9 x10 x11 x12 x13 x14 x15 x16 = grid16 (fun i j => pat i j * xcov_formula (seqf [x0; x1; x2; x3; x4; x5; x6; x7; x8; x9; x10; x11; x12; x13; x14; x15; x16]) 4 3).
Proof. tie. Qed.

Lemma tie_cov_n5 c x0 x1 x2 x3 x4 x5 :
  cov_n5 (OO:=ROps) c x0 x1 x2 x3 x4 x5 = grid16 (fun i j => pat i j * cov_formula c (seqf [x0; x1; x2; x3; x4; x5]) 5).
Proof. tie. Qed.

Lemma tie_xcov_n5_L0 c x0 x1 x2 x3 x4 x5 :
  xcov_n5_L0 (OO:=ROps) c x0 x1 x2 x3 x4 x5 = grid16 (fun i j => pat i j * xcov_formula (seqf [x0; x1; x2; x3; x4; x5]) 5 0).
Proof. tie. Qed.

Lemma tie_xcov_n5_L1 c x0 x1 x2 x3 x4 x5 x6 x7 x8 x9 x10 :
  xcov_n5_L1 (OO:=ROps) c x0 x1 x2 x3 x4 x5 x6 x7 x8 x9 x10 = grid16 (fun i j => pat i j * xcov_formula (seqf [x0; x1; x2; x3; x4; x5; x6; x7; x8; x9; x10]) 5 1).
Proof. tie. Qed.

Lemma tie_xcov_n5_L2 c x0 x1 x2 x3 x4 x5 x6 x7 x8 x9 x10 x11 x12 x13 x14 x15 :
  xcov_n5_L2 (OO:=ROps) c x0 x1 x2 x3 x4 x5 x6 x7 x8 x9 x10 x11 x12 x13 x14 x15 = grid16 (fun i j => pat i j * xcov_formula (seqf [x0; x1; x2; x3; x4; x5; x6; x7; x8; x9; x10; x11; x12; x13; x14; x15]) 5 2).
Proof. tie. Qed.

Lemma tie_xcov_n5_L3 c x0 x1 x2 x3 x4 x5 x6 x7 x8 x9 x10 x11 x12 x13 x14 x15 x16 x17 x18 x19 x20 :
  xcov_n5_L3 (OO:=ROps) c x0 x1 x2 x3 x4 x5 x6 x7 x8 x9 x10 x11 x12 x13 x14 x15 x16 x17 x18 x19 x20 = grid16 (fun i j => pat i j * xcov_formula (seqf [x0; x1; x2; x3; x4; x5; x6; x7; x8; x9; x10; x11; x12; x13; x14; x15; x16; x17; x18; x19; x20]) 5 3).
Proof. tie. Qed.

Lemma tie_cov_n6 c x0 x1 x2 x3 x4 x5 x6 :
  cov_n6 (OO:=ROps) c x0 x1 x2 x3 x4 x5 x6 = grid16 (fun i j => pat i j * cov_formula c (seqf [x0; x1; x2; x3; x4; x5; x6]) 6).
Proof. tie. Qed.

Lemma tie_xcov_n6_L0 c x0 x1 x2 x3 x4 x5 x6 :
  xcov_n6_L0 (OO:=ROps) c x0 x1 x2 x3 x4 x5 x6 = grid16 (fun i j => pat i j * xcov_formula (seqf [x0; x1; x2; x3; x4; x5; x6]) 6 0).
Proof. tie. Qed.

Lemma tie_xcov_n6_L1 c x0 x1 x2 x3 x4 x5 x6 x7 x8 x9 x10 x11 x12 :
  xcov_n6_L1 (OO:=ROps) c x0 x1 x2 x3 x4 x5 x6 x7 x8 x9 x10 x11 x12 = grid16 (fun i j => pat i j * xcov_formula (seqf [x0; x1; x2; x3; x4; x5; x6; x7; x8; x9; x10; x11; x12]) 6 1).
Proof. tie. Qed.

Lemma tie_xcov_n6_L2 c x0 x1 x2 x3 x4 x5 x6 x7 x8 x9 x10 x11 x12 x13 x14 x15 x16 x17 x18 :
  xcov_n6_L2 (OO:=ROps) c x0 x1 x2 x3 x4 x5 x6 x7 x8 x9 x10 x11 x12 x13 x14 x15 x16 x17 x18 = grid16 (fun i j => pat i j * xcov_formula (seqf [x0; x1; x2; x3; x4; x5; x6; x7; x8; x9; x10; x11; x12; x13; x14; x15; x16; x17; x18]) 6 2).
Proof. tie. Qed.

Lemma tie_xcov_n6_L3 c x0 x1 x2 x3 x4 x5 x6 x7 x8 x9 x10 x11 x12 x13 x14 x15 x16 x17 x18 x19 x20 x21 x22 x23 x24 :
  xcov_n6_L3 (OO:=ROps) c x0 x1 x2 x3 x4 x5 x6 x7 x8 x9 x10 x11 x12 x13 x14 x15 x16 x17 x18 x19 x20 x21 x22 x23 x24 = grid16 (fun i j => pat i j * xcov_formula (seqf [x0; x1; x2; x3; x4; x5; x6; x7; x8; x9; x10; x11; x12; x13; x14; x15; x16; x17; x18; x19; x20; x21; x22; x23; x24]) 6 3).
Proof. tie. Qed.

Lemma law_stokes_n1 ex0r ex0i ey0r ey0i ex1r ex1i ey1r ey1i ex2r ex2i ey2r ey2i mu0 mu1 mu2 mu3 :
  hd 0 (stokes_n1 (OO:=ROps) ex0r ex0i ey0r ey0i ex1r ex1i ey1r ey1i ex2r ex2i ey2r ey2i mu0 mu1 mu2 mu3) = 1 /\ halves_eq 8 (tl (stokes_n1 (OO:=ROps) ex0r ex0i ey0r ey0i ex1r ex1i ey1r ey1i ex2r ex2i ey2r ey2i mu0 mu1 mu2 mu3)).
Proof. split; [ autounfold with gen; ops_R; reflexivity | intros; unfold halves_eq; autounfold with gen; ops_R; cbn [tl firstn skipn]; list_eq ltac:(first [field | ring]) ]. Qed.

Lemma law_stokes_n2 ex0r ex0i ey0r ey0i ex1r ex1i ey1r ey1i ex2r ex2i ey2r ey2i ex3r ex3i ey3r ey3i mu0 mu1 mu2 mu3 :
  hd 0 (stokes_n2 (OO:=ROps) ex0r ex0i ey0r ey0i ex1r ex1i ey1r ey1i ex2r ex2i ey2r ey2i ex3r ex3i ey3r ey3i mu0 mu1 mu2 mu3) = 2 /\ halves_eq 8 (tl (stokes_n2 (OO:=ROps) ex0r ex0i ey0r ey0i ex1r ex1i ey1r ey1i ex2r ex2i ey2r ey2i ex3r ex3i ey3r ey3i mu0 mu1 mu2 mu3)).
Proof. split; [ autounfold with gen; ops_R; reflexivity | intros; unfold halves_eq; autounfold with gen; ops_R; cbn [tl firstn skipn]; list_eq ltac:(first [field | ring]) ]. Qed.

Lemma law_stokes_n3 ex0r ex0i ey0r ey0i ex1r ex1i ey1r ey1i ex2r ex2i ey2r ey2i ex3r ex3i ey3r ey3i ex4r ex4i ey4r ey4i mu0 mu1 mu2 mu3 :
  hd 0 (stokes_n3 (OO:=ROps) ex0r ex0i ey0r ey0i ex1r ex1i ey1r ey1i ex2r ex2i ey2r ey2i ex3r ex3i ey3r ey3i ex4r ex4i ey4r ey4i mu0 mu1 mu2 mu3) = 3 /\ halves_eq 8 (tl (stokes_n3 (OO:=ROps) ex0r ex0i ey0r ey0i ex1r ex1i ey1r ey1i ex2r ex2i ey2r ey2i ex3r ex3i ey3r ey3i ex4r ex4i ey4r ey4i mu0 mu1 mu2 mu3)).
Proof. split; [ autounfold with gen; ops_R; reflexivity | intros; unfold halves_eq; autounfold with gen; ops_R; cbn [tl firstn skipn]; list_eq ltac:(first [field | ring]) ]. Qed.

Lemma law_stokes_n4 ex0r ex0i ey0r ey0i ex1r ex1i ey1r ey1i ex2r ex2i ey2r ey2i ex3r ex3i ey3r ey3i ex4r ex4i ey4r ey4i ex5r ex5i ey5r ey5i mu0 mu1 mu2 mu3 :
  hd 0 (stokes_n4 (OO:=ROps) ex0r ex0i ey0r ey0i ex1r ex1i ey1r ey1i ex2r ex2i ey2r ey2i ex3r ex3i ey3r ey3i ex4r ex4i ey4r ey4i ex5r ex5i ey5r ey5i mu0 mu1 mu2 mu3) = 4 /\ halves_eq 8 (tl (stokes_n4 (OO:=ROps) ex0r ex0i ey0r ey0i ex1r ex1i ey1r ey1i ex2r ex2i ey2r ey2i ex3r ex3i ey3r ey3i ex4r ex4i ey4r ey4i ex5r ex5i ey5r ey5i mu0 mu1 mu2 mu3)).
Proof. split; [ autounfold with gen; ops_R; reflexivity | intros; unfold halves_eq; autounfold with gen; ops_R; cbn [tl firstn skipn]; list_eq ltac:(first [field | ring]) ]. Qed.

(* lag zero: the per-instance cross-covariance at lag 0 is the covariance, for every mode type *)
Definition lag0_ok (l : list R) : Prop := firstn 16 l = firstn 16 (skipn 16 l).
Ltac lag0 := intros; unfold lag0_ok; autounfold with gen; ops_R; cbn [firstn skipn]; list_eq ltac:(first [ring | field]).
Lemma law_lag0_mode s0 s1 s2 s3 : lag0_ok (lag0_mode (OO:=ROps) s0 s1 s2 s3) /\ skipn 32 (lag0_mode (OO:=ROps) s0 s1 s2 s3) = repeat 0 16.
Proof. split; [ lag0 | autounfold with gen; ops_R; cbn [skipn repeat]; list_eq ltac:(ring) ]. Qed.
Lemma law_lag0_lognormal s0 s1 s2 s3 beta : lag0_ok (lag0_lognormal (OO:=ROps) s0 s1 s2 s3 beta) /\ skipn 32 (lag0_lognormal (OO:=ROps) s0 s1 s2 s3 beta) = repeat 0 16.
Proof. split; [ lag0 | autounfold with gen; ops_R; cbn [skipn repeat]; list_eq ltac:(ring) ]. Qed.

Lemma law_lag0_boxcar_w1 s0 s1 s2 s3 beta : lag0_ok (lag0_boxcar_w1 (OO:=ROps) s0 s1 s2 s3 beta).
Proof. lag0. Qed.

Lemma law_lag0_square_w1 s0 s1 s2 s3 beta : lag0_ok (lag0_square_w1 (OO:=ROps) s0 s1 s2 s3 beta).
Proof. lag0. Qed.

Lemma law_lag0_boxcar_w2 s0 s1 s2 s3 beta : lag0_ok (lag0_boxcar_w2 (OO:=ROps) s0 s1 s2 s3 beta).
Proof. lag0. Qed.

Lemma law_lag0_square_w2 s0 s1 s2 s3 beta : lag0_ok (lag0_square_w2 (OO:=ROps) s0 s1 s2 s3 beta).
Proof. lag0. Qed.

Lemma law_lag0_boxcar_w3 s0 s1 s2 s3 beta : lag0_ok (lag0_boxcar_w3 (OO:=ROps) s0 s1 s2 s3 beta).
Proof. lag0. Qed.

Lemma law_lag0_square_w3 s0 s1 s2 s3 beta : lag0_ok (lag0_square_w3 (OO:=ROps) s0 s1 s2 s3 beta).
Proof. lag0. Qed.

Lemma law_lag0_single c x0 x1 x2 x3 : lag0_ok (lag0_single (OO:=ROps) c x0 x1 x2 x3).
Proof. lag0. Qed.
