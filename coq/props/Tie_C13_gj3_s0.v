(* Tie_C13_gj3_s0.v -- GENERATED ONCE by harness/gen_tie_C13_gj3.py and committed. *)
From Coq Require Import Reals Lra List.
From Epsic Require Import Scalar SpecPauli Gen_C13 Tie_C13.
Import ListNotations.
Local Open Scope R_scope.

Lemma tie_gj3_o00 a00 a01 a02 a10 a11 a12 a20 a21 a22 : gj3_o00_pc (OO:=ROps) a00 a01 a02 a10 a11 a12 a20 a21 a22 -> gj3_ok (gj3_o00 (OO:=ROps) a00 a01 a02 a10 a11 a12 a20 a21 a22).
Proof. gj3. Qed.
Lemma tie_gj3_o01 a00 a01 a02 a10 a11 a12 a20 a21 a22 : gj3_o01_pc (OO:=ROps) a00 a01 a02 a10 a11 a12 a20 a21 a22 -> gj3_ok (gj3_o01 (OO:=ROps) a00 a01 a02 a10 a11 a12 a20 a21 a22).
Proof. gj3. Qed.
Lemma tie_gj3_o02 a00 a01 a02 a10 a11 a12 a20 a21 a22 : gj3_o02_pc (OO:=ROps) a00 a01 a02 a10 a11 a12 a20 a21 a22 -> gj3_ok (gj3_o02 (OO:=ROps) a00 a01 a02 a10 a11 a12 a20 a21 a22).
Proof. gj3. Qed.
Lemma tie_gj3_o03 a00 a01 a02 a10 a11 a12 a20 a21 a22 : gj3_o03_pc (OO:=ROps) a00 a01 a02 a10 a11 a12 a20 a21 a22 -> gj3_ok (gj3_o03 (OO:=ROps) a00 a01 a02 a10 a11 a12 a20 a21 a22).
Proof. gj3. Qed.
Lemma tie_gj3_o04 a00 a01 a02 a10 a11 a12 a20 a21 a22 : gj3_o04_pc (OO:=ROps) a00 a01 a02 a10 a11 a12 a20 a21 a22 -> gj3_ok (gj3_o04 (OO:=ROps) a00 a01 a02 a10 a11 a12 a20 a21 a22).
Proof. gj3. Qed.
Lemma tie_gj3_o05 a00 a01 a02 a10 a11 a12 a20 a21 a22 : gj3_o05_pc (OO:=ROps) a00 a01 a02 a10 a11 a12 a20 a21 a22 -> gj3_ok (gj3_o05 (OO:=ROps) a00 a01 a02 a10 a11 a12 a20 a21 a22).
Proof. gj3. Qed.
