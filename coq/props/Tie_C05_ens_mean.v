(* Tie_C05_ens_mean.v -- GENERATED ONCE by harness/gen_tie_C05_ens.py and committed.
   Exact ensemble mean of one superposed instance: S_A + S_B. *)
From Coq Require Import Reals Lra List.
From Epsic Require Import Scalar SpecPauli Quadrature Quadrature8 Gen_C05 Tie_C05_ens.
Import ListNotations.
Local Open Scope R_scope.

Lemma meanA0 ra0 ra1 ra2 ra3 rb0 rb1 rb2 rb3 : E4 (partA (F0 ra0 ra1 ra2 ra3 rb0 rb1 rb2 rb3)) = v4nth (SA ra0 ra1 ra2 ra3 rb0 rb1 rb2 rb3) 0.
Proof. pose proof r3_sq as H. unfold partA, F0, SA, E4, E1, Smean. cbn [v4nth v0 v1 v2 v3]. autounfold with gen; ops_R. field_simplify_eq; ring [H]. Qed.
Lemma meanB0 ra0 ra1 ra2 ra3 rb0 rb1 rb2 rb3 : E4 (partB (F0 ra0 ra1 ra2 ra3 rb0 rb1 rb2 rb3)) = v4nth (SB ra0 ra1 ra2 ra3 rb0 rb1 rb2 rb3) 0.
Proof. pose proof r3_sq as H. unfold partB, F0, SB, E4, E1, Smean. cbn [v4nth v0 v1 v2 v3]. autounfold with gen; ops_R. field_simplify_eq; ring [H]. Qed.
Theorem ens_sup_mean0 ra0 ra1 ra2 ra3 rb0 rb1 rb2 rb3 : E8 (F0 ra0 ra1 ra2 ra3 rb0 rb1 rb2 rb3) = v4nth (SA ra0 ra1 ra2 ra3 rb0 rb1 rb2 rb3) 0 + v4nth (SB ra0 ra1 ra2 ra3 rb0 rb1 rb2 rb3) 0.
Proof. rewrite mean_split by apply decomp0. rewrite meanA0, meanB0. reflexivity. Qed.

Lemma meanA1 ra0 ra1 ra2 ra3 rb0 rb1 rb2 rb3 : E4 (partA (F1 ra0 ra1 ra2 ra3 rb0 rb1 rb2 rb3)) = v4nth (SA ra0 ra1 ra2 ra3 rb0 rb1 rb2 rb3) 1.
Proof. pose proof r3_sq as H. unfold partA, F1, SA, E4, E1, Smean. cbn [v4nth v0 v1 v2 v3]. autounfold with gen; ops_R. field_simplify_eq; ring [H]. Qed.
Lemma meanB1 ra0 ra1 ra2 ra3 rb0 rb1 rb2 rb3 : E4 (partB (F1 ra0 ra1 ra2 ra3 rb0 rb1 rb2 rb3)) = v4nth (SB ra0 ra1 ra2 ra3 rb0 rb1 rb2 rb3) 1.
Proof. pose proof r3_sq as H. unfold partB, F1, SB, E4, E1, Smean. cbn [v4nth v0 v1 v2 v3]. autounfold with gen; ops_R. field_simplify_eq; ring [H]. Qed.
Theorem ens_sup_mean1 ra0 ra1 ra2 ra3 rb0 rb1 rb2 rb3 : E8 (F1 ra0 ra1 ra2 ra3 rb0 rb1 rb2 rb3) = v4nth (SA ra0 ra1 ra2 ra3 rb0 rb1 rb2 rb3) 1 + v4nth (SB ra0 ra1 ra2 ra3 rb0 rb1 rb2 rb3) 1.
Proof. rewrite mean_split by apply decomp1. rewrite meanA1, meanB1. reflexivity. Qed.

Lemma meanA2 ra0 ra1 ra2 ra3 rb0 rb1 rb2 rb3 : E4 (partA (F2 ra0 ra1 ra2 ra3 rb0 rb1 rb2 rb3)) = v4nth (SA ra0 ra1 ra2 ra3 rb0 rb1 rb2 rb3) 2.
Proof. pose proof r3_sq as H. unfold partA, F2, SA, E4, E1, Smean. cbn [v4nth v0 v1 v2 v3]. autounfold with gen; ops_R. field_simplify_eq; ring [H]. Qed.
Lemma meanB2 ra0 ra1 ra2 ra3 rb0 rb1 rb2 rb3 : E4 (partB (F2 ra0 ra1 ra2 ra3 rb0 rb1 rb2 rb3)) = v4nth (SB ra0 ra1 ra2 ra3 rb0 rb1 rb2 rb3) 2.
Proof. pose proof r3_sq as H. unfold partB, F2, SB, E4, E1, Smean. cbn [v4nth v0 v1 v2 v3]. autounfold with gen; ops_R. field_simplify_eq; ring [H]. Qed.
Theorem ens_sup_mean2 ra0 ra1 ra2 ra3 rb0 rb1 rb2 rb3 : E8 (F2 ra0 ra1 ra2 ra3 rb0 rb1 rb2 rb3) = v4nth (SA ra0 ra1 ra2 ra3 rb0 rb1 rb2 rb3) 2 + v4nth (SB ra0 ra1 ra2 ra3 rb0 rb1 rb2 rb3) 2.
Proof. rewrite mean_split by apply decomp2. rewrite meanA2, meanB2. reflexivity. Qed.

Lemma meanA3 ra0 ra1 ra2 ra3 rb0 rb1 rb2 rb3 : E4 (partA (F3 ra0 ra1 ra2 ra3 rb0 rb1 rb2 rb3)) = v4nth (SA ra0 ra1 ra2 ra3 rb0 rb1 rb2 rb3) 3.
Proof. pose proof r3_sq as H. unfold partA, F3, SA, E4, E1, Smean. cbn [v4nth v0 v1 v2 v3]. autounfold with gen; ops_R. field_simplify_eq; ring [H]. Qed.
Lemma meanB3 ra0 ra1 ra2 ra3 rb0 rb1 rb2 rb3 : E4 (partB (F3 ra0 ra1 ra2 ra3 rb0 rb1 rb2 rb3)) = v4nth (SB ra0 ra1 ra2 ra3 rb0 rb1 rb2 rb3) 3.
Proof. pose proof r3_sq as H. unfold partB, F3, SB, E4, E1, Smean. cbn [v4nth v0 v1 v2 v3]. autounfold with gen; ops_R. field_simplify_eq; ring [H]. Qed.
Theorem ens_sup_mean3 ra0 ra1 ra2 ra3 rb0 rb1 rb2 rb3 : E8 (F3 ra0 ra1 ra2 ra3 rb0 rb1 rb2 rb3) = v4nth (SA ra0 ra1 ra2 ra3 rb0 rb1 rb2 rb3) 3 + v4nth (SB ra0 ra1 ra2 ra3 rb0 rb1 rb2 rb3) 3.
Proof. rewrite mean_split by apply decomp3. rewrite meanA3, meanB3. reflexivity. Qed.
