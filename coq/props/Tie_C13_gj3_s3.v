(* Tie_C13_gj3_s3.v -- GENERATED ONCE by harness/gen_tie_C13_gj3.py and committed. *)
From Coq Require Import Reals Lra List.
From Epsic Require Import Scalar SpecPauli Gen_C13 Tie_C13.
Import ListNotations.
Local Open Scope R_scope.

Lemma tie_gj3_o30 a00 a01 a02 a10 a11 a12 a20 a21 a22 : gj3_o30_pc (OO:=ROps) a00 a01 a02 a10 a11 a12 a20 a21 a22 -> gj3_ok (gj3_o30 (OO:=ROps) a00 a01 a02 a10 a11 a12 a20 a21 a22).
Proof. gj3. Qed.
Lemma tie_gj3_o31 a00 a01 a02 a10 a11 a12 a20 a21 a22 : gj3_o31_pc (OO:=ROps) a00 a01 a02 a10 a11 a12 a20 a21 a22 -> gj3_ok (gj3_o31 (OO:=ROps) a00 a01 a02 a10 a11 a12 a20 a21 a22).
Proof. gj3. Qed.
Lemma tie_gj3_o32 a00 a01 a02 a10 a11 a12 a20 a21 a22 : gj3_o32_pc (OO:=ROps) a00 a01 a02 a10 a11 a12 a20 a21 a22 -> gj3_ok (gj3_o32 (OO:=ROps) a00 a01 a02 a10 a11 a12 a20 a21 a22).
Proof. gj3. Qed.
Lemma tie_gj3_o33 a00 a01 a02 a10 a11 a12 a20 a21 a22 : gj3_o33_pc (OO:=ROps) a00 a01 a02 a10 a11 a12 a20 a21 a22 -> gj3_ok (gj3_o33 (OO:=ROps) a00 a01 a02 a10 a11 a12 a20 a21 a22).
Proof. gj3. Qed.
Lemma tie_gj3_o34 a00 a01 a02 a10 a11 a12 a20 a21 a22 : gj3_o34_pc (OO:=ROps) a00 a01 a02 a10 a11 a12 a20 a21 a22 -> gj3_ok (gj3_o34 (OO:=ROps) a00 a01 a02 a10 a11 a12 a20 a21 a22).
Proof. gj3. Qed.
Lemma tie_gj3_o35 a00 a01 a02 a10 a11 a12 a20 a21 a22 : gj3_o35_pc (OO:=ROps) a00 a01 a02 a10 a11 a12 a20 a21 a22 -> gj3_ok (gj3_o35 (OO:=ROps) a00 a01 a02 a10 a11 a12 a20 a21 a22).
Proof. gj3. Qed.
