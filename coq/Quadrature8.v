(* Quadrature8.v -- the exact Gaussian expectation over two independent sets of four deviates
   (E8 = E4 o E4, each the three-point Gauss-Hermite rule of Quadrature.v), and its value on
   products of observables of the form  a(p) + b(q) + p^T X q  (the Stokes parameters of the sum
   of two independent Gaussian fields are of this form): the covariance is the sum of the two
   single-set covariances and the contraction of the bilinear coefficients.  Source independent. *)
From Coq Require Import Reals Lra.
From Epsic Require Import Quadrature.
Local Open Scope R_scope.

Definition lin4 (c0 c1 c2 c3 q0 q1 q2 q3 : R) : R := c0 * q0 + c1 * q1 + c2 * q2 + c3 * q3.
Definition E8 (h : R -> R -> R -> R -> R -> R -> R -> R -> R) : R :=
  E4 (fun p0 p1 p2 p3 => E4 (fun q0 q1 q2 q3 => h p0 p1 p2 p3 q0 q1 q2 q3)).

Section StageB.
Variables b b' : R -> R -> R -> R -> R.
Variables u u' l0 l1 l2 l3 m0 m1 m2 m3 : R.
Lemma stageB :
  E4 (fun q0 q1 q2 q3 => (u + b q0 q1 q2 q3 + lin4 l0 l1 l2 l3 q0 q1 q2 q3) * (u' + b' q0 q1 q2 q3 + lin4 m0 m1 m2 m3 q0 q1 q2 q3))
  = u * u' + u * E4 b' + u' * E4 b + E4 (fun q0 q1 q2 q3 => b q0 q1 q2 q3 * b' q0 q1 q2 q3)
    + (m0 * E4 (fun q0 q1 q2 q3 => b q0 q1 q2 q3 * q0) + m1 * E4 (fun q0 q1 q2 q3 => b q0 q1 q2 q3 * q1)
       + m2 * E4 (fun q0 q1 q2 q3 => b q0 q1 q2 q3 * q2) + m3 * E4 (fun q0 q1 q2 q3 => b q0 q1 q2 q3 * q3))
    + (l0 * E4 (fun q0 q1 q2 q3 => b' q0 q1 q2 q3 * q0) + l1 * E4 (fun q0 q1 q2 q3 => b' q0 q1 q2 q3 * q1)
       + l2 * E4 (fun q0 q1 q2 q3 => b' q0 q1 q2 q3 * q2) + l3 * E4 (fun q0 q1 q2 q3 => b' q0 q1 q2 q3 * q3))
    + (l0 * m0 + l1 * m1 + l2 * m2 + l3 * m3).
Proof. pose proof r3_sq as H. unfold lin4, E4, E1. field_simplify_eq; ring [H]. Qed.
Lemma stageB_mean :
  E4 (fun q0 q1 q2 q3 => u + b q0 q1 q2 q3 + lin4 l0 l1 l2 l3 q0 q1 q2 q3) = u + E4 b.
Proof. unfold lin4, E4, E1. field. Qed.
End StageB.

Section StageA.
Variables a a' : R -> R -> R -> R -> R.
Variables x00 x01 x02 x03 x10 x11 x12 x13 x20 x21 x22 x23 x30 x31 x32 x33 : R.
Variables y00 y01 y02 y03 y10 y11 y12 y13 y20 y21 y22 y23 y30 y31 y32 y33 : R.
Variables Eb Eb' Ebb' be0 be1 be2 be3 bf0 bf1 bf2 bf3 : R.
(* coefficient of q_k in the bilinear form for fixed p *)
Definition lx (k : nat) p0 p1 p2 p3 : R :=
  match k with O => lin4 x00 x10 x20 x30 p0 p1 p2 p3 | 1%nat => lin4 x01 x11 x21 x31 p0 p1 p2 p3
             | 2%nat => lin4 x02 x12 x22 x32 p0 p1 p2 p3 | _ => lin4 x03 x13 x23 x33 p0 p1 p2 p3 end.
Definition ly (k : nat) p0 p1 p2 p3 : R :=
  match k with O => lin4 y00 y10 y20 y30 p0 p1 p2 p3 | 1%nat => lin4 y01 y11 y21 y31 p0 p1 p2 p3
             | 2%nat => lin4 y02 y12 y22 y32 p0 p1 p2 p3 | _ => lin4 y03 y13 y23 y33 p0 p1 p2 p3 end.
Lemma stageA :
  E4 (fun p0 p1 p2 p3 =>
        a p0 p1 p2 p3 * a' p0 p1 p2 p3 + a p0 p1 p2 p3 * Eb' + a' p0 p1 p2 p3 * Eb + Ebb'
        + (ly 0 p0 p1 p2 p3 * be0 + ly 1 p0 p1 p2 p3 * be1 + ly 2 p0 p1 p2 p3 * be2 + ly 3 p0 p1 p2 p3 * be3)
        + (lx 0 p0 p1 p2 p3 * bf0 + lx 1 p0 p1 p2 p3 * bf1 + lx 2 p0 p1 p2 p3 * bf2 + lx 3 p0 p1 p2 p3 * bf3)
        + (lx 0 p0 p1 p2 p3 * ly 0 p0 p1 p2 p3 + lx 1 p0 p1 p2 p3 * ly 1 p0 p1 p2 p3 + lx 2 p0 p1 p2 p3 * ly 2 p0 p1 p2 p3 + lx 3 p0 p1 p2 p3 * ly 3 p0 p1 p2 p3))
  = E4 (fun p0 p1 p2 p3 => a p0 p1 p2 p3 * a' p0 p1 p2 p3) + E4 a * Eb' + E4 a' * Eb + Ebb'
    + (x00 * y00 + x01 * y01 + x02 * y02 + x03 * y03 + x10 * y10 + x11 * y11 + x12 * y12 + x13 * y13
       + x20 * y20 + x21 * y21 + x22 * y22 + x23 * y23 + x30 * y30 + x31 * y31 + x32 * y32 + x33 * y33).
Proof. pose proof r3_sq as H. unfold lx, ly, lin4, E4, E1. field_simplify_eq; ring [H]. Qed.
End StageA.


Lemma E4_plus_const (u : R -> R -> R -> R -> R) (c : R) : E4 (fun p0 p1 p2 p3 => u p0 p1 p2 p3 + c) = E4 u + c.
Proof. unfold E4, E1. field. Qed.

Section Decomp.
Variables a a' b b' : R -> R -> R -> R -> R.
Variables x00 x01 x02 x03 x10 x11 x12 x13 x20 x21 x22 x23 x30 x31 x32 x33 : R.
Variables y00 y01 y02 y03 y10 y11 y12 y13 y20 y21 y22 y23 y30 y31 y32 y33 : R.
Notation LX := (lx x00 x01 x02 x03 x10 x11 x12 x13 x20 x21 x22 x23 x30 x31 x32 x33).
Notation LY := (ly y00 y01 y02 y03 y10 y11 y12 y13 y20 y21 y22 y23 y30 y31 y32 y33).
Definition fX p0 p1 p2 p3 q0 q1 q2 q3 : R :=
  a p0 p1 p2 p3 + b q0 q1 q2 q3 + lin4 (LX 0%nat p0 p1 p2 p3) (LX 1%nat p0 p1 p2 p3) (LX 2%nat p0 p1 p2 p3) (LX 3%nat p0 p1 p2 p3) q0 q1 q2 q3.
Definition fY p0 p1 p2 p3 q0 q1 q2 q3 : R :=
  a' p0 p1 p2 p3 + b' q0 q1 q2 q3 + lin4 (LY 0%nat p0 p1 p2 p3) (LY 1%nat p0 p1 p2 p3) (LY 2%nat p0 p1 p2 p3) (LY 3%nat p0 p1 p2 p3) q0 q1 q2 q3.

Theorem E8_mean : E8 fX = E4 a + E4 b.
Proof.
  unfold E8, fX.
  rewrite (E4_ext _ (fun p0 p1 p2 p3 => a p0 p1 p2 p3 + E4 b)) by (intros; apply stageB_mean).
  apply E4_plus_const.
Qed.

Theorem E8_product :
  E8 (fun p0 p1 p2 p3 q0 q1 q2 q3 => fX p0 p1 p2 p3 q0 q1 q2 q3 * fY p0 p1 p2 p3 q0 q1 q2 q3)
  = E4 (fun p0 p1 p2 p3 => a p0 p1 p2 p3 * a' p0 p1 p2 p3) + E4 a * E4 b' + E4 a' * E4 b
    + E4 (fun q0 q1 q2 q3 => b q0 q1 q2 q3 * b' q0 q1 q2 q3)
    + (x00 * y00 + x01 * y01 + x02 * y02 + x03 * y03 + x10 * y10 + x11 * y11 + x12 * y12 + x13 * y13
       + x20 * y20 + x21 * y21 + x22 * y22 + x23 * y23 + x30 * y30 + x31 * y31 + x32 * y32 + x33 * y33).
Proof.
  unfold E8, fX, fY.
  erewrite E4_ext; [ | intros p0 p1 p2 p3; apply stageB ].
  rewrite <- (stageA a a' x00 x01 x02 x03 x10 x11 x12 x13 x20 x21 x22 x23 x30 x31 x32 x33
                     y00 y01 y02 y03 y10 y11 y12 y13 y20 y21 y22 y23 y30 y31 y32 y33 (E4 b) (E4 b')
                     (E4 (fun q0 q1 q2 q3 => b q0 q1 q2 q3 * b' q0 q1 q2 q3))
                     (E4 (fun q0 q1 q2 q3 => b q0 q1 q2 q3 * q0)) (E4 (fun q0 q1 q2 q3 => b q0 q1 q2 q3 * q1))
                     (E4 (fun q0 q1 q2 q3 => b q0 q1 q2 q3 * q2)) (E4 (fun q0 q1 q2 q3 => b q0 q1 q2 q3 * q3))
                     (E4 (fun q0 q1 q2 q3 => b' q0 q1 q2 q3 * q0)) (E4 (fun q0 q1 q2 q3 => b' q0 q1 q2 q3 * q1))
                     (E4 (fun q0 q1 q2 q3 => b' q0 q1 q2 q3 * q2)) (E4 (fun q0 q1 q2 q3 => b' q0 q1 q2 q3 * q3))).
  apply E4_ext. intros. ring.
Qed.

(* covariance of the two observables = sum of the single-mode covariances + the contraction of the cross terms *)
Theorem E8_covariance :
  E8 (fun p0 p1 p2 p3 q0 q1 q2 q3 => fX p0 p1 p2 p3 q0 q1 q2 q3 * fY p0 p1 p2 p3 q0 q1 q2 q3) - E8 fX * E8 (fun p0 p1 p2 p3 q0 q1 q2 q3 => fY p0 p1 p2 p3 q0 q1 q2 q3)
  = (E4 (fun p0 p1 p2 p3 => a p0 p1 p2 p3 * a' p0 p1 p2 p3) - E4 a * E4 a')
    + (E4 (fun q0 q1 q2 q3 => b q0 q1 q2 q3 * b' q0 q1 q2 q3) - E4 b * E4 b')
    + (x00 * y00 + x01 * y01 + x02 * y02 + x03 * y03 + x10 * y10 + x11 * y11 + x12 * y12 + x13 * y13
       + x20 * y20 + x21 * y21 + x22 * y22 + x23 * y23 + x30 * y30 + x31 * y31 + x32 * y32 + x33 * y33).
Proof.
  rewrite E8_product, E8_mean.
  assert (HY : E8 (fun p0 p1 p2 p3 q0 q1 q2 q3 => fY p0 p1 p2 p3 q0 q1 q2 q3) = E4 a' + E4 b').
  { unfold E8, fY. rewrite (E4_ext _ (fun p0 p1 p2 p3 => a' p0 p1 p2 p3 + E4 b')) by (intros; apply stageB_mean). apply E4_plus_const. }
  rewrite HY. ring.
Qed.
End Decomp.

Theorem E8_ext h h' : (forall p0 p1 p2 p3 q0 q1 q2 q3, h p0 p1 p2 p3 q0 q1 q2 q3 = h' p0 p1 p2 p3 q0 q1 q2 q3) -> E8 h = E8 h'.
Proof. intros H. unfold E8. apply E4_ext. intros. apply E4_ext. intros. apply H. Qed.
