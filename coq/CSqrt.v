(* CSqrt.v -- the principal complex square root used to interpret std::sqrt(complex):
   (re + i im)^2 = x + i y, and it vanishes only at 0. *)
From Coq Require Import Reals Lra.
From Epsic Require Import Scalar.
Local Open Scope R_scope.

Lemma mod_ge_abs x y : Rabs x <= sqrt (x * x + y * y).
Proof.
  rewrite <- (sqrt_Rsqr_abs x). apply sqrt_le_1_alt. unfold Rsqr. nra.
Qed.

Theorem Rcsqrt_sq x y :
  Rcsqrt_re x y * Rcsqrt_re x y - Rcsqrt_im x y * Rcsqrt_im x y = x /\
  2 * (Rcsqrt_re x y * Rcsqrt_im x y) = y.
Proof.
  unfold Rcsqrt_re, Rcsqrt_im.
  set (m := sqrt (x * x + y * y)).
  assert (Hm : m * m = x * x + y * y) by (apply sqrt_sqrt; nra).
  assert (Hmx : Rabs x <= m) by apply mod_ge_abs.
  assert (Hp : 0 <= (m + x) / 2) by (pose proof (Rle_abs (- x)); rewrite Rabs_Ropp in *; lra).
  assert (Hn : 0 <= (m - x) / 2) by (pose proof (Rle_abs x); lra).
  assert (A : sqrt ((m + x) / 2) * sqrt ((m + x) / 2) = (m + x) / 2) by (apply sqrt_sqrt; exact Hp).
  assert (B : sqrt ((m - x) / 2) * sqrt ((m - x) / 2) = (m - x) / 2) by (apply sqrt_sqrt; exact Hn).
  assert (AB : sqrt ((m + x) / 2) * sqrt ((m - x) / 2) = Rabs y / 2).
  { rewrite <- sqrt_mult by assumption.
    replace ((m + x) / 2 * ((m - x) / 2)) with ((y / 2) * (y / 2)) by (field_simplify; nra).
    change (y / 2 * (y / 2)) with (Rsqr (y / 2)). rewrite sqrt_Rsqr_abs.
    unfold Rdiv. rewrite Rabs_mult, (Rabs_right (/ 2)) by lra. reflexivity. }
  set (a := sqrt ((m + x) / 2)) in *. set (b := sqrt ((m - x) / 2)) in *.
  destruct (Rle_dec 0 y) as [Hy|Hy].
  - rewrite Rabs_right in AB by lra. split; nra.
  - rewrite Rabs_left in AB by lra. split; nra.
Qed.
