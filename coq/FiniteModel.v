(* FiniteModel.v -- C20 spec: the finiteness and sign-bit predicates on classified floating-point
   values, and the container logic (a container is finite iff every stored component is; an
   estimate iff its value is). *)
From Coq Require Import List Bool Floats ZArith.
Import ListNotations.

Inductive kind := QNaN | PInf | NInf | PZero | NZero | PDenorm | NDenorm | PMax | NMax | POne | NOne.
Definition kinds : list kind := [QNaN; PInf; NInf; PZero; NZero; PDenorm; NDenorm; PMax; NMax; POne; NOne].
(* false exactly on NaN and the infinities *)
Definition kfinite (k : kind) : bool := match k with QNaN | PInf | NInf => false | _ => true end.
(* true exactly on negative zero, negative infinity and negative values *)
Definition ksign (k : kind) : bool := match k with NInf | NZero | NDenorm | NMax | NOne => true | _ => false end.
Definition container_finite (components : list kind) : bool := forallb kfinite components.

Theorem container_finite_false_iff l : container_finite l = false <-> exists k, In k l /\ kfinite k = false.
Proof.
  unfold container_finite. split.
  - induction l as [|k l IH]; cbn [forallb]; [discriminate|]. destruct (kfinite k) eqn:E.
    + intros H. destruct (IH H) as [k' [I F]]. exists k'. split; [right; exact I | exact F].
    + intros _. exists k. split; [left; reflexivity | exact E].
  - intros [k [I F]]. induction l as [|k' l IH]; [destruct I|]. cbn [forallb]. destruct I as [->|I].
    + rewrite F. reflexivity.
    + rewrite (IH I). apply andb_false_r.
Qed.

(* binary64: the kinds classify Coq's primitive floats, and the model predicates are what
   isfinite && !isnan / signbit compute on them *)
Local Open Scope float_scope.
Definition float_of_kind (k : kind) : float :=
  match k with
  | QNaN => nan | PInf => infinity | NInf => neg_infinity | PZero => 0 | NZero => -0
  | PDenorm => 0x1p-1074 | NDenorm => -0x1p-1074 | PMax => 0x1.fffffffffffffp1023 | NMax => -0x1.fffffffffffffp1023
  | POne => 1 | NOne => -1 end.
Definition float_finite (x : float) : bool := negb (is_nan x) && negb (is_infinity x).
Theorem binary64_finite_matches : forallb (fun k => Bool.eqb (float_finite (float_of_kind k)) (kfinite k)) kinds = true.
Proof. vm_compute. reflexivity. Qed.
Theorem binary64_sign_matches : forallb (fun k => Bool.eqb (get_sign (float_of_kind k)) (ksign k)) kinds = true.
Proof. vm_compute. reflexivity. Qed.
(* for every binary64 value: finite is false exactly on NaN and the two infinities *)
Theorem binary64_finite_exact x : float_finite x = false <-> (is_nan x = true \/ is_infinity x = true).
Proof. unfold float_finite. destruct (is_nan x), (is_infinity x); cbn; intuition congruence. Qed.

(* the expected verdict table consumed by the correspondence harness (harness/corr_C20.py) *)
Definition kname (k : kind) : nat := match k with QNaN => 0 | PInf => 1 | NInf => 2 | PZero => 3 | NZero => 4 | PDenorm => 5 | NDenorm => 6 | PMax => 7 | NMax => 8 | POne => 9 | NOne => 10 end.
Definition place (n pos : nat) (k : kind) : list kind := map (fun i => if Nat.eqb i pos then k else POne) (seq 0 n).
Definition expected_table : list (nat * nat * nat * bool) :=   (* container arity, position, kind, finite *)
  flat_map (fun n => flat_map (fun pos => map (fun k => (n, pos, kname k, container_finite (place n pos k))) kinds) (seq 0 n)) [1; 2; 3; 8]%nat.
Definition expected_scalar : list (nat * bool * bool) := map (fun k => (kname k, kfinite k, ksign k)) kinds.
(* an estimate is finite iff its value is: the variance does not matter *)
Definition expected_estimate : list (nat * nat * bool) :=
  flat_map (fun k => [(0%nat, kname k, kfinite k); (1%nat, kname k, true)]) kinds.
