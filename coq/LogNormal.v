(* LogNormal.v -- C07/C08 spec: moments of log-normal modulation factors.
   The Gaussian expectation enters as an abstract functional with the Gaussian
   moment generating function as a Section hypothesis (no axiom is declared):
   the closed theorems read  forall E2, (mgf hypotheses) -> ...  *)
From Coq Require Import Reals Lra.
Local Open Scope R_scope.

Lemma ln_le x y : 0 < x -> x <= y -> ln x <= ln y.
Proof. intros Hx [H|H]; [left; apply ln_increasing; assumption | subst; right; reflexivity]. Qed.
Lemma ln_nonneg x : 1 <= x -> 0 <= ln x.
Proof. intros H. rewrite <- ln_1. apply ln_le; lra. Qed.

(* exp(sigma^2) - 1 = beta^2 for sigma = sqrt(ln(beta^2+1)): set_beta makes the variance beta^2 *)
Definition log_sigma (beta : R) : R := sqrt (ln (beta * beta + 1)).
Lemma log_sigma_sq beta : log_sigma beta * log_sigma beta = ln (beta * beta + 1).
Proof. unfold log_sigma. apply sqrt_sqrt. apply ln_nonneg. nra. Qed.
Theorem lognormal_variance_is_beta_sq beta : exp (log_sigma beta * log_sigma beta) - 1 = beta * beta.
Proof. rewrite log_sigma_sq, exp_ln by nra. ring. Qed.
Lemma log_sigma_nonneg beta : 0 <= log_sigma beta.
Proof. unfold log_sigma; apply sqrt_pos. Qed.
(* the modulation index recovered from the variance is |beta| *)
Lemma beta_recovered beta : sqrt (exp (log_sigma beta * log_sigma beta) - 1) = Rabs beta.
Proof. rewrite lognormal_variance_is_beta_sq. apply sqrt_Rsqr_abs. Qed.

Section Gaussian.
(* expectation over two independent standard normal deviates *)
Variable E2 : (R -> R -> R) -> R.
Hypothesis E2_ext : forall f g, (forall x y, f x y = g x y) -> E2 f = E2 g.
Hypothesis E2_mgf : forall a b c, E2 (fun x y => exp (a * x + b * y + c)) = exp (c + a * a / 2 + b * b / 2).

(* a pair of factors exp(r.g - C_ii/2) built from a symmetric root R of the log-covariance C *)
Variables r00 r01 r11 c00 c01 c11 : R.
Hypothesis R2_00 : r00 * r00 + r01 * r01 = c00.
Hypothesis R2_11 : r01 * r01 + r11 * r11 = c11.
Hypothesis R2_01 : r00 * r01 + r01 * r11 = c01.
Definition fA (x y : R) : R := exp (r00 * x + r01 * y - c00 / 2).
Definition fB (x y : R) : R := exp (r01 * x + r11 * y - c11 / 2).

Theorem pair_unit_means : E2 fA = 1 /\ E2 fB = 1.
Proof.
  unfold fA, fB. split.
  - rewrite (E2_ext _ (fun x y => exp (r00 * x + r01 * y + (- c00 / 2)))) by (intros; f_equal; field).
    rewrite E2_mgf. rewrite <- exp_0. f_equal. rewrite <- R2_00. field.
  - rewrite (E2_ext _ (fun x y => exp (r01 * x + r11 * y + (- c11 / 2)))) by (intros; f_equal; field).
    rewrite E2_mgf. rewrite <- exp_0. f_equal. rewrite <- R2_11. field.
Qed.
Theorem pair_second_moments :
  E2 (fun x y => fA x y * fA x y) = exp c00 /\ E2 (fun x y => fB x y * fB x y) = exp c11 /\
  E2 (fun x y => fA x y * fB x y) = exp c01.
Proof.
  unfold fA, fB. split; [|split].
  - rewrite (E2_ext _ (fun x y => exp ((2 * r00) * x + (2 * r01) * y + (- c00)))) by (intros; rewrite <- exp_plus; f_equal; field).
    rewrite E2_mgf. f_equal. rewrite <- R2_00. field.
  - rewrite (E2_ext _ (fun x y => exp ((2 * r01) * x + (2 * r11) * y + (- c11)))) by (intros; rewrite <- exp_plus; f_equal; field).
    rewrite E2_mgf. f_equal. rewrite <- R2_11. field.
  - rewrite (E2_ext _ (fun x y => exp ((r00 + r01) * x + (r01 + r11) * y + (- c00 / 2 - c11 / 2)))) by (intros; rewrite <- exp_plus; f_equal; field).
    rewrite E2_mgf. f_equal. rewrite <- R2_00, <- R2_11, <- R2_01. field.
Qed.
End Gaussian.

(* one factor of a single log-normal mode: exp(sigma (g - sigma/2)), one deviate *)
Section Gaussian1.
Variable E1 : (R -> R) -> R.
Hypothesis E1_ext : forall f g, (forall x, f x = g x) -> E1 f = E1 g.
Hypothesis E1_mgf : forall a c, E1 (fun x => exp (a * x + c)) = exp (c + a * a / 2).
Variable sigma : R.
Definition lnf (g : R) : R := exp (sigma * (g - / 2 * sigma)).
Theorem lognormal_mean_one : E1 lnf = 1.
Proof.
  unfold lnf. rewrite (E1_ext _ (fun x => exp (sigma * x + (- sigma * sigma / 2)))) by (intros; f_equal; field).
  rewrite E1_mgf, <- exp_0. f_equal. field.
Qed.
Theorem lognormal_second_moment : E1 (fun g => lnf g * lnf g) = exp (sigma * sigma).
Proof.
  unfold lnf. rewrite (E1_ext _ (fun x => exp ((2 * sigma) * x + (- sigma * sigma)))) by (intros; rewrite <- exp_plus; f_equal; field).
  rewrite E1_mgf. f_equal. field.
Qed.
End Gaussian1.

(* ---- the admissible range of the correlation coefficient ---- *)
(* with s0, s1 >= 0 and d = beta0 beta1 > 0: min <= rho <= max implies
   |ln(rho d + 1)| <= s0 s1, so the determinant of the log-covariance is >= 0 *)
Theorem admissible_range s0 s1 d rho : 0 <= s0 -> 0 <= s1 -> 0 < d ->
  ~ (rho > (exp (s0 * s1) - 1) / d) -> ~ (rho < (exp (- s0 * s1) - 1) / d) ->
  0 < rho * d + 1 /\ - (s0 * s1) <= ln (rho * d + 1) <= s0 * s1 /\
  0 <= (s0 * s0) * (s1 * s1) - ln (rho * d + 1) * ln (rho * d + 1).
Proof.
  intros H0 H1 Hd Hmax Hmin.
  assert (U : rho * d + 1 <= exp (s0 * s1)).
  { apply Rnot_gt_le in Hmax. apply (Rmult_le_compat_r d) in Hmax; [|lra].
    unfold Rdiv in Hmax. rewrite Rmult_assoc, Rinv_l, Rmult_1_r in Hmax by lra. lra. }
  assert (L : exp (- s0 * s1) <= rho * d + 1).
  { apply Rnot_lt_ge, Rge_le in Hmin. apply (Rmult_le_compat_r d) in Hmin; [|lra].
    unfold Rdiv in Hmin. rewrite Rmult_assoc, Rinv_l, Rmult_1_r in Hmin by lra. lra. }
  assert (P : 0 < rho * d + 1) by (pose proof (exp_pos (- s0 * s1)); lra).
  assert (C1 : ln (rho * d + 1) <= s0 * s1) by (rewrite <- (ln_exp (s0 * s1)); apply ln_le; assumption).
  assert (C2 : - (s0 * s1) <= ln (rho * d + 1)).
  { replace (- (s0 * s1)) with (ln (exp (- s0 * s1))) by (rewrite ln_exp; ring). apply ln_le; [apply exp_pos | exact L]. }
  split; [exact P|]. split; [lra|].
  assert (0 <= s0 * s1) by nra. nra.
Qed.
(* and then exp(c01) - 1 = rho d: the covariance of the factors is the requested one *)
Theorem requested_covariance rho d : 0 < rho * d + 1 -> exp (ln (rho * d + 1)) - 1 = rho * d.
Proof. intros H. rewrite exp_ln by exact H. ring. Qed.

(* ---- the symmetric square root of a 2x2 symmetric matrix ---- *)
(* R = (C + s 1)/t with s^2 = det C, t^2 = tr C + 2 s, t <> 0  ==>  R R = C (Cayley-Hamilton) *)
Theorem msqrt_squares c00 c01 c11 s t : s * s = c00 * c11 - c01 * c01 -> t * t = c00 + c11 + 2 * s -> t <> 0 ->
  let r00 := (s + c00) / t in let r01 := c01 / t in let r11 := (s + c11) / t in
  r00 * r00 + r01 * r01 = c00 /\ r01 * r01 + r11 * r11 = c11 /\ r00 * r01 + r01 * r11 = c01.
Proof.
  intros Hs Ht Hnz r00 r01 r11; subst r00 r01 r11.
  assert (T : forall x, x / t / t = x / (c00 + c11 + 2 * s)) by (intros; rewrite <- Ht; field; exact Hnz).
  assert (Hd : c00 + c11 + 2 * s <> 0) by (rewrite <- Ht; apply Rmult_integral_contrapositive_currified; exact Hnz).
  split; [|split].
  - replace ((s + c00) / t * ((s + c00) / t) + c01 / t * (c01 / t)) with (((s + c00) * (s + c00) + c01 * c01) / t / t) by (field; exact Hnz).
    rewrite T. apply (Rmult_eq_reg_r (c00 + c11 + 2 * s)); [|exact Hd]. unfold Rdiv. rewrite Rmult_assoc, Rinv_l, Rmult_1_r by exact Hd. nra.
  - replace (c01 / t * (c01 / t) + (s + c11) / t * ((s + c11) / t)) with ((c01 * c01 + (s + c11) * (s + c11)) / t / t) by (field; exact Hnz).
    rewrite T. apply (Rmult_eq_reg_r (c00 + c11 + 2 * s)); [|exact Hd]. unfold Rdiv. rewrite Rmult_assoc, Rinv_l, Rmult_1_r by exact Hd. nra.
  - replace ((s + c00) / t * (c01 / t) + c01 / t * ((s + c11) / t)) with (((s + c00) * c01 + c01 * (s + c11)) / t / t) by (field; exact Hnz).
    rewrite T. apply (Rmult_eq_reg_r (c00 + c11 + 2 * s)); [|exact Hd]. unfold Rdiv. rewrite Rmult_assoc, Rinv_l, Rmult_1_r by exact Hd. nra.
Qed.

Example admissible_premises : 0 <= 0 /\ 0 <= 0 /\ 0 < 1 /\ ~ (0 > (exp (0 * 0) - 1) / 1) /\ ~ (0 < (exp (- 0 * 0) - 1) / 1).
Proof.
  replace (0 * 0) with 0 by ring. replace (- 0 * 0) with 0 by ring. rewrite exp_0.
  repeat split; lra.
Qed.
