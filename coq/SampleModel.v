(* SampleModel.v -- C06 spec: statistics of the mean of n consecutive instances
   of a stationary sequence with per-instance covariance C and cross-covariance
   X l at instance lag l >= 1.  Entrywise (one scalar entry of the 4x4 matrices),
   for every n, every sample lag L and every sequence. *)
From Coq Require Import Reals Lra Lia List Arith.
Local Open Scope R_scope.

Fixpoint sumf (f : nat -> R) (n : nat) : R :=
  match n with O => 0 | S k => sumf f k + f k end.

Definition absdiff (a b : nat) : nat := if Nat.leb a b then (b - a)%nat else (a - b)%nat.

(* the exact double sum over all pairs of instances in the two samples, / n^2 *)
Definition brute (K : nat -> R) (n L : nat) : R :=
  sumf (fun i => sumf (fun j => K (absdiff (L * n + i) j)) n) n / (INR n * INR n).

(* what sample::get_covariance computes *)
Definition cov_formula (C : R) (X : nat -> R) (n : nat) : R :=
  (INR n * C + sumf (fun k => 2 * INR (n - S k) * X (S k)) (n - 1)) / (INR n * INR n).

(* what sample::get_crosscovariance computes (it never looks at C) *)
Definition xcov_formula (X : nat -> R) (n L : nat) : R := brute X n L.

(* the sequence with K 0 = C and K l = X l for l >= 1 *)
Definition withC (C : R) (X : nat -> R) : nat -> R := fun l => match l with O => C | _ => X l end.

Lemma sumf_ext f g n : (forall i, (i < n)%nat -> f i = g i) -> sumf f n = sumf g n.
Proof.
  induction n as [|n IH]; intros H; cbn [sumf]; [reflexivity|].
  rewrite IH by (intros; apply H; lia). rewrite H by lia. reflexivity.
Qed.
Lemma sumf_plus f g n : sumf (fun i => f i + g i) n = sumf f n + sumf g n.
Proof. induction n as [|n IH]; cbn [sumf]; [ring | rewrite IH; ring]. Qed.
Lemma sumf_scal c f n : sumf (fun i => c * f i) n = c * sumf f n.
Proof. induction n as [|n IH]; cbn [sumf]; [ring | rewrite IH; ring]. Qed.
Lemma sumf_const c n : sumf (fun _ => c) n = INR n * c.
Proof. induction n as [|n IH]; [cbn [sumf INR]; ring | cbn [sumf]; rewrite IH, S_INR; ring]. Qed.

Lemma absdiff_sym a b : absdiff a b = absdiff b a.
Proof. unfold absdiff; destruct (Nat.leb_spec a b), (Nat.leb_spec b a); lia. Qed.
Lemma absdiff_same a : absdiff a a = O.
Proof. unfold absdiff; rewrite Nat.leb_refl; lia. Qed.

(* unnormalised double sum at sample lag 0 *)
Definition dsum (K : nat -> R) (n : nat) : R := sumf (fun i => sumf (fun j => K (absdiff i j)) n) n.
(* sum over the last row: j -> K (n - j), j < n, i.e. K n + ... + K 1 *)
Definition tail (K : nat -> R) (n : nat) : R := sumf (fun j => K (n - j)%nat) n.

Lemma sumf_first f n : sumf f (S n) = f O + sumf (fun i => f (S i)) n.
Proof. induction n as [|n IH]; [cbn [sumf]; ring | cbn [sumf] in *; rewrite IH; ring]. Qed.

Lemma tail_shift K n : tail K (S n) = K (S n) + tail K n.
Proof.
  unfold tail. rewrite sumf_first. replace (S n - 0)%nat with (S n) by lia. f_equal.
Qed.

Lemma tail_sum K n : tail K n = sumf (fun k => K (S k)) n.
Proof.
  induction n as [|n IH]; [reflexivity|]. rewrite tail_shift, IH. cbn [sumf]. ring.
Qed.

Lemma dsum_step K n : dsum K (S n) = dsum K n + 2 * tail K n + K O.
Proof.
  unfold dsum, tail. cbn [sumf]. rewrite absdiff_same.
  assert (E : sumf (fun i => sumf (fun j => K (absdiff i j)) n + K (absdiff i n)) n
            = sumf (fun i => sumf (fun j => K (absdiff i j)) n) n + sumf (fun i => K (absdiff i n)) n).
  { apply sumf_plus. }
  rewrite E.
  assert (E1 : sumf (fun i => K (absdiff i n)) n = sumf (fun j => K (n - j)%nat) n).
  { apply sumf_ext; intros i Hi. f_equal. unfold absdiff. destruct (Nat.leb_spec i n); lia. }
  assert (E2 : sumf (fun j => K (absdiff n j)) n = sumf (fun j => K (n - j)%nat) n).
  { apply sumf_ext; intros i Hi. f_equal. unfold absdiff. destruct (Nat.leb_spec n i); lia. }
  rewrite E1, E2. ring.
Qed.

(* closed form of the double sum *)
Definition closed (K : nat -> R) (n : nat) : R :=
  INR n * K O + sumf (fun k => 2 * INR (n - S k) * K (S k)) (n - 1).

Lemma closed_step K n : closed K (S n) = closed K n + 2 * tail K n + K O.
Proof.
  unfold closed. rewrite S_INR. replace (S n - 1)%nat with n by lia.
  destruct n as [|n].
  - cbn [sumf tail INR Nat.sub]. unfold tail; cbn [sumf]. ring.
  - replace (S n - 1)%nat with n by lia. cbn [sumf].
    replace (S (S n) - S n)%nat with 1%nat by lia.
    assert (E : sumf (fun k => 2 * INR (S (S n) - S k) * K (S k)) n
              = sumf (fun k => 2 * INR (S n - S k) * K (S k)) n + 2 * sumf (fun k => K (S k)) n).
    { rewrite <- sumf_scal, <- sumf_plus. apply sumf_ext; intros i Hi.
      replace (S (S n) - S i)%nat with (S (S n - S i)) by lia. rewrite S_INR. ring. }
    rewrite E.
    (* tail K (S n) = K (S n) + ... + K 1 = sum_{k<S n} K (S k) *)
    rewrite (tail_sum K (S n)). cbn [sumf INR]. ring.
Qed.

Theorem dsum_closed K n : dsum K n = closed K n.
Proof.
  induction n as [|n IH].
  - unfold dsum, closed; cbn [sumf INR Nat.sub]. ring.
  - rewrite dsum_step, closed_step, IH. reflexivity.
Qed.

(* C06, covariance: the predicted covariance of the sample mean is the exact
   double sum over all pairs of instances, for every n >= 1 and every sequence *)
Theorem cov_is_double_sum C X n : cov_formula C X n = brute (withC C X) n 0.
Proof.
  unfold cov_formula, brute. f_equal.
  change (0 * n)%nat with O. cbn [Nat.add].
  change (sumf (fun i => sumf (fun j => withC C X (absdiff i j)) n) n) with (dsum (withC C X) n).
  rewrite dsum_closed. unfold closed. cbn [withC]. reflexivity.
Qed.

(* C06, cross-covariance at sample lag L >= 1: the zero instance lag never
   occurs, so the code's double sum over X is the exact double sum whatever X 0 is *)
Theorem xcov_is_double_sum C X n L : (1 <= L)%nat -> xcov_formula X n L = brute (withC C X) n L.
Proof.
  intros HL. unfold xcov_formula, brute. f_equal.
  apply sumf_ext; intros i Hi. apply sumf_ext; intros j Hj.
  unfold withC. destruct (absdiff (L * n + i) j) eqn:E; [|reflexivity].
  exfalso. unfold absdiff in E. destruct (Nat.leb_spec (L * n + i) j); nia.
Qed.

(* C06, lag zero: the predicted cross-covariance at lag 0 equals the predicted
   covariance exactly when the mode reports X 0 = C *)
Theorem xcov0_eq_cov_iff C X n : (1 <= n)%nat -> (xcov_formula X n 0 = cov_formula C X n <-> X O = C).
Proof.
  intros Hn. rewrite cov_is_double_sum. unfold xcov_formula, brute.
  change (0 * n)%nat with O. cbn [Nat.add].
  change (sumf (fun i => sumf (fun j => X (absdiff i j)) n) n) with (dsum X n).
  change (sumf (fun i => sumf (fun j => withC C X (absdiff i j)) n) n) with (dsum (withC C X) n).
  rewrite !dsum_closed. unfold closed. cbn [withC].
  assert (Hpos : 0 < INR n) by (apply lt_0_INR; lia).
  assert (Hnn : INR n * INR n <> 0) by nra.
  split.
  - intros H. apply (f_equal (fun t => t * (INR n * INR n))) in H.
    unfold Rdiv in H. rewrite !Rmult_assoc, !Rinv_l, !Rmult_1_r in H by exact Hnn.
    assert (INR n * X O = INR n * C) by lra. nra.
  - intros ->. reflexivity.
Qed.

Example xcov0_premise_satisfiable : (1 <= 3)%nat. Proof. lia. Qed.
