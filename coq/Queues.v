(* Queues.v -- C08 spec (pairing): two consumers A and B request modulation
   factors in any order; a joint draw (a_k, b_k) is made whenever the requesting
   consumer's queue is empty and is enqueued for both.  Theorems for every finite
   request sequence (every interleaving). *)
From Coq Require Import List Arith Lia.
Import ListNotations.

Section Pairing.
Variable T : Type.
Variable draws : nat -> T * T.         (* the k-th joint draw *)

Inductive req := ReqA | ReqB.
Record st := { qA : list T; qB : list T; drawn : nat; outA : list T; outB : list T }.
Definition st0 : st := {| qA := []; qB := []; drawn := 0; outA := []; outB := [] |}.

(* coordinator::get -- one joint draw, pushed on both queues *)
Definition get (s : st) : st :=
  {| qA := qA s ++ [fst (draws (drawn s))]; qB := qB s ++ [snd (draws (drawn s))];
     drawn := S (drawn s); outA := outA s; outB := outB s |}.

(* covariant_mode::modulation for consumer A / B *)
Definition step (s : st) (r : req) : st :=
  match r with
  | ReqA => let s' := match qA s with [] => get s | _ => s end in
            match qA s' with
            | x :: q => {| qA := q; qB := qB s'; drawn := drawn s'; outA := outA s' ++ [x]; outB := outB s' |}
            | [] => s'
            end
  | ReqB => let s' := match qB s with [] => get s | _ => s end in
            match qB s' with
            | x :: q => {| qA := qA s'; qB := q; drawn := drawn s'; outA := outA s'; outB := outB s' ++ [x] |}
            | [] => s'
            end
  end.
Definition run (rs : list req) : st := fold_left step rs st0.

(* the values delivered, in request order (what a driver observes) *)
Fixpoint deliveries (s : st) (rs : list req) : list T :=
  match rs with
  | [] => []
  | r :: rest => let s' := step s r in
      (match r with ReqA => last (outA s') (fst (draws 0)) | ReqB => last (outB s') (snd (draws 0)) end) :: deliveries s' rest
  end.

Definition firstA (k : nat) : list T := map (fun i => fst (draws i)) (seq 0 k).
Definition firstB (k : nat) : list T := map (fun i => snd (draws i)) (seq 0 k).

Definition Inv (s : st) : Prop :=
  outA s ++ qA s = firstA (drawn s) /\ outB s ++ qB s = firstB (drawn s).

Lemma firstA_S k : firstA (S k) = firstA k ++ [fst (draws k)].
Proof. unfold firstA. rewrite seq_S, map_app. reflexivity. Qed.
Lemma firstB_S k : firstB (S k) = firstB k ++ [snd (draws k)].
Proof. unfold firstB. rewrite seq_S, map_app. reflexivity. Qed.

Lemma inv_get s : Inv s -> Inv (get s).
Proof.
  intros [HA HB]. unfold Inv, get; cbn [qA qB drawn outA outB].
  rewrite firstA_S, firstB_S, !app_assoc, HA, HB. split; reflexivity.
Qed.

Lemma inv_step s r : Inv s -> Inv (step s r).
Proof.
  intros H. destruct r; unfold step.
  - assert (H' : Inv (match qA s with [] => get s | _ => s end)) by (destruct (qA s); [apply inv_get|]; exact H).
    destruct (match qA s with [] => get s | _ => s end) as [a b k oa ob] eqn:E; cbn [qA].
    destruct a as [|x q]; [exact H'|]. destruct H' as [HA HB]; cbn [qA qB drawn outA outB] in *.
    split; cbn [qA qB drawn outA outB]; [rewrite <- HA, <- app_assoc; reflexivity | exact HB].
  - assert (H' : Inv (match qB s with [] => get s | _ => s end)) by (destruct (qB s); [apply inv_get|]; exact H).
    destruct (match qB s with [] => get s | _ => s end) as [a b k oa ob] eqn:E; cbn [qB].
    destruct b as [|x q]; [exact H'|]. destruct H' as [HA HB]; cbn [qA qB drawn outA outB] in *.
    split; cbn [qA qB drawn outA outB]; [exact HA | rewrite <- HB, <- app_assoc; reflexivity].
Qed.

Lemma inv_fold rs : forall s, Inv s -> Inv (fold_left step rs s).
Proof. induction rs as [|r rs IH]; intros s H; cbn [fold_left]; [exact H | apply IH, inv_step, H]. Qed.

(* every interleaving: what has been delivered to A (resp. B), followed by what is
   still queued for it, is exactly the first (second) components of the joint draws
   made so far, in order -- so the i-th factor delivered to A and the i-th delivered
   to B come from the same joint draw, and each draw goes exactly once to each *)
Theorem pairing_invariant rs : Inv (run rs).
Proof. apply inv_fold. unfold Inv, st0, firstA, firstB; cbn. split; reflexivity. Qed.

Lemma firstn_app_exact {X} (a b : list X) : firstn (length a) (a ++ b) = a.
Proof. induction a as [|x a IH]; cbn [length firstn app]; [destruct b; reflexivity | rewrite IH; reflexivity]. Qed.

Theorem delivered_A_is_prefix rs : outA (run rs) = firstn (length (outA (run rs))) (firstA (drawn (run rs))).
Proof. destruct (pairing_invariant rs) as [HA _]. rewrite <- HA. symmetry. apply firstn_app_exact. Qed.
Theorem delivered_B_is_prefix rs : outB (run rs) = firstn (length (outB (run rs))) (firstB (drawn (run rs))).
Proof. destruct (pairing_invariant rs) as [_ HB]. rewrite <- HB. symmetry. apply firstn_app_exact. Qed.

(* the i-th value delivered to A and the i-th delivered to B are the two components of draw i *)
Lemma nth_firstA i k d : (i < k)%nat -> nth i (firstA k) d = fst (draws i).
Proof.
  intros H. unfold firstA. rewrite (nth_indep _ d (fst (draws 0))) by (rewrite map_length, seq_length; exact H).
  change (fst (draws 0)) with ((fun j => fst (draws j)) O). rewrite map_nth, seq_nth by exact H. reflexivity.
Qed.
Lemma nth_firstB i k d : (i < k)%nat -> nth i (firstB k) d = snd (draws i).
Proof.
  intros H. unfold firstB. rewrite (nth_indep _ d (snd (draws 0))) by (rewrite map_length, seq_length; exact H).
  change (snd (draws 0)) with ((fun j => snd (draws j)) O). rewrite map_nth, seq_nth by exact H. reflexivity.
Qed.

Theorem same_joint_draw rs i d : (i < length (outA (run rs)))%nat -> (i < length (outB (run rs)))%nat ->
  (nth i (outA (run rs)) (fst d), nth i (outB (run rs)) (snd d)) = draws i.
Proof.
  intros HA HB. destruct (pairing_invariant rs) as [IA IB].
  assert (LA : (i < drawn (run rs))%nat).
  { apply (f_equal (@length T)) in IA. rewrite app_length in IA. unfold firstA in IA. rewrite map_length, seq_length in IA. lia. }
  rewrite <- (app_nth1 _ (qA (run rs)) (fst d) HA), IA, nth_firstA by exact LA.
  rewrite <- (app_nth1 _ (qB (run rs)) (snd d) HB), IB, nth_firstB by exact LA.
  destruct (draws i); reflexivity.
Qed.
End Pairing.

Arguments qA {T}. Arguments qB {T}. Arguments drawn {T}. Arguments outA {T}. Arguments outB {T}.
Arguments run {T}. Arguments step {T}. Arguments st0 {T}. Arguments deliveries {T}.
Example pairing_example : outA (run (fun k => (k, k + 100)) [ReqA; ReqA; ReqB; ReqA]) = [0; 1; 2].
Proof. reflexivity. Qed.
