(* DualModel.v -- moment-level model of samples that combine two modes (source independent).

   Entries (i, j) of 4x4 covariance matrices are treated one at a time: a mode contributes a
   stationary sequence K l of per-instance (cross-)covariances (K 0 the covariance) and the
   components a_i, a_j of its mean Stokes vector.  The ensemble covariance of a sum of
   instances is the double sum of the pairwise covariances (bilinearity of covariance); the
   theorems below show that the closed forms computed by superposed / composite / disjoint
   are those double sums, for every sample size and every split. *)
From Coq Require Import Reals Lra Lia List Arith.
From Epsic Require Import Scalar SampleModel.
Local Open Scope R_scope.

(* ------------------------------------------------------------------------------------- *)
(* what the code computes (one entry)                                                      *)

(* superposed.cpp: C_A(n) + C_B(n) + ((1+ic)/n) (M_ij + M_ji) + (ic/n) (a_i b_j + a_j b_i) *)
Definition sup_cov (n : nat) (CA : R) (XA : nat -> R) (CB : R) (XB : nat -> R) (Mij Mji ab ba ic : R) : R :=
  cov_formula CA XA n + cov_formula CB XB n + (1 + ic) / INR n * (Mij + Mji) + ic / INR n * (ab + ba).

(* composite.cpp: f_A^2 C_A(n_A) + f_B^2 C_B(n_B) + min(f_A, f_B) ic / n (a_i b_j + a_j b_i), f_X = n_X / n *)
Definition part_cov (C : R) (X : nat -> R) (k : nat) : R := match k with O => 0 | _ => cov_formula C X k end.
Definition comp_cov (n nA : nat) (CA : R) (XA : nat -> R) (CB : R) (XB : nat -> R) (ab ba ic : R) : R :=
  let nB := (n - nA)%nat in
  (INR nA / INR n) * (INR nA / INR n) * part_cov CA XA nA + (INR nB / INR n) * (INR nB / INR n) * part_cov CB XB nB
  + Rmin (INR nA / INR n) (INR nB / INR n) * ic / INR n * (ab + ba).
Definition comp_mean (n nA : nat) (a b : R) : R := (INR nA * a + INR (n - nA) * b) / INR n.

(* disjoint.cpp *)
Definition dis_mean (f a b : R) : R := f * a + (1 - f) * b.
Definition dis_cov (f : R) (n : nat) (CA : R) (XA : nat -> R) (CB : R) (XB : nat -> R) (ai aj bi bj : R) : R :=
  f * cov_formula CA XA n + (1 - f) * cov_formula CB XB n + f * (1 - f) * ((ai - bi) * (aj - bj)).
Definition dis_xcov (f : R) (n L : nat) (XA XB : nat -> R) : R :=
  f * f * xcov_formula XA n L + (1 - f) * (1 - f) * xcov_formula XB n L.

(* ------------------------------------------------------------------------------------- *)
(* ensemble moments of what is generated                                                   *)

(* the covariance of the mean of k consecutive instances of one mode: the double sum / k^2 *)
Lemma part_cov_is_double_sum C X k : part_cov C X k = match k with O => 0 | _ => brute (withC C X) k 0 end.
Proof. destruct k; [reflexivity|]. unfold part_cov. apply cov_is_double_sum. Qed.

(* composite: the sample is (sum_{k<nA} ZA_k + sum_{l<nB} ZB_l) / n, the two modes being drawn in
   lock-step: Cov (ZA_k, ZB_l) = ic a_i b_j when k = l and 0 otherwise (covariant unit-mean modulation
   factors of the same draw), Cov (ZA_k, ZA_l) = KA |k-l|, Cov (ZB_k, ZB_l) = KB |k-l| *)
Definition lockstep (v : R) (nA nB : nat) : R := sumf (fun k => sumf (fun l => if Nat.eqb k l then v else 0) nB) nA.
Definition comp_ensemble (n nA : nat) (KA KB : nat -> R) (ab ba ic : R) : R :=
  let nB := (n - nA)%nat in
  (dsum KA nA + dsum KB nB + lockstep (ic * ab) nA nB + lockstep (ic * ba) nA nB) / (INR n * INR n).

Lemma sumf_delta v k n : sumf (fun l => if Nat.eqb k l then v else 0) n = if Nat.ltb k n then v else 0.
Proof.
  induction n as [|n IH]; [reflexivity|]. cbn [sumf]. rewrite IH.
  destruct (Nat.ltb_spec k n) as [L|G]; destruct (Nat.eqb_spec k n) as [E|N]; destruct (Nat.ltb_spec k (S n)) as [L'|G']; try lia; ring.
Qed.
Lemma sumf_below v m n : sumf (fun k => if Nat.ltb k m then v else 0) n = INR (Nat.min n m) * v.
Proof.
  induction n as [|n IH]; [cbn; ring|]. cbn [sumf]. rewrite IH.
  destruct (Nat.ltb_spec n m) as [L|G].
  - rewrite (Nat.min_l n m) by lia. rewrite (Nat.min_l (S n) m) by lia. rewrite S_INR. ring.
  - rewrite (Nat.min_r n m) by lia. rewrite (Nat.min_r (S n) m) by lia. ring.
Qed.
Lemma lockstep_min v nA nB : lockstep v nA nB = INR (Nat.min nA nB) * v.
Proof. unfold lockstep. rewrite (sumf_ext _ (fun k => if Nat.ltb k nB then v else 0)); [ apply sumf_below | intros; apply sumf_delta ]. Qed.

Lemma dsum_brute K k : (1 <= k)%nat -> dsum K k = INR k * INR k * brute K k 0.
Proof.
  intros Hk. unfold brute, dsum. assert (INR k <> 0) by (apply not_0_INR; lia).
  rewrite Nat.mul_0_l. cbn [Nat.add]. field. assumption.
Qed.
Lemma dsum_0 K : dsum K 0 = 0. Proof. reflexivity. Qed.

Theorem composite_covariance_is_ensemble n nA CA XA CB XB ab ba ic : (1 <= n)%nat -> (nA <= n)%nat ->
  comp_cov n nA CA XA CB XB ab ba ic = comp_ensemble n nA (withC CA XA) (withC CB XB) ab ba ic.
Proof.
  intros Hn Ha. unfold comp_cov, comp_ensemble. cbv zeta. set (nB := (n - nA)%nat).
  rewrite !lockstep_min, !part_cov_is_double_sum.
  assert (Nn : INR n <> 0) by (apply not_0_INR; lia).
  assert (Hmin : Rmin (INR nA / INR n) (INR nB / INR n) = INR (Nat.min nA nB) / INR n).
  { assert (Pn : 0 < INR n) by (apply lt_0_INR; lia).
    destruct (Nat.le_ge_cases nA nB) as [L|G].
    - rewrite Nat.min_l by exact L. apply Rmin_left. apply Rmult_le_compat_r; [ left; apply Rinv_0_lt_compat; exact Pn | apply le_INR; exact L ].
    - rewrite Nat.min_r by exact G. apply Rmin_right. apply Rmult_le_compat_r; [ left; apply Rinv_0_lt_compat; exact Pn | apply le_INR; exact G ]. }
  rewrite Hmin.
  destruct nA as [|a]; destruct nB as [|b] eqn:EB.
  - rewrite !dsum_0. cbn [INR Nat.min]. field. exact Nn.
  - rewrite dsum_0, (dsum_brute _ (S b)) by lia. cbn [Nat.min]. replace (INR 0) with 0 by reflexivity. field. exact Nn.
  - rewrite dsum_0, (dsum_brute _ (S a)) by lia. rewrite Nat.min_0_r. replace (INR 0) with 0 by reflexivity. field. exact Nn.
  - rewrite (dsum_brute _ (S a)), (dsum_brute _ (S b)) by lia. field. exact Nn.
Qed.

(* the number of instances of each mode entering the sample: nA and n - nA, nA = trunc (f n) *)
Theorem composite_mean_is_ensemble n nA a b : (1 <= n)%nat ->
  comp_mean n nA a b = (sumf (fun _ => a) nA + sumf (fun _ => b) (n - nA)) / INR n.
Proof. intros Hn. unfold comp_mean. rewrite !sumf_const. reflexivity. Qed.

(* superposed: per instance Z_k = S (eA_k + eB_k); Cov (Z_k, Z_l) = KA |k-l| + KB |k-l| for k <> l (independent
   modes) and C_A + C_B + W for k = l, W the instance-level cross term; the sample is the mean of n instances *)
Lemma cov_formula_linear C C' X X' n : (1 <= n)%nat ->
  cov_formula (C + C') (fun l => X l + X' l) n = cov_formula C X n + cov_formula C' X' n.
Proof.
  intros Hn. unfold cov_formula. assert (INR n <> 0) by (apply not_0_INR; lia).
  rewrite (sumf_ext _ (fun k => 2 * INR (n - S k) * X (S k) + 2 * INR (n - S k) * X' (S k))) by (intros; ring).
  rewrite sumf_plus. field. assumption.
Qed.
Lemma cov_formula_const W n : (1 <= n)%nat -> cov_formula W (fun _ => 0) n = W / INR n.
Proof.
  intros Hn. unfold cov_formula. assert (INR n <> 0) by (apply not_0_INR; lia).
  rewrite (sumf_ext _ (fun _ => 0)) by (intros; ring). rewrite sumf_const. field. assumption.
Qed.
Theorem superposed_covariance_is_ensemble n CA XA CB XB Mij Mji ab ba ic : (1 <= n)%nat ->
  sup_cov n CA XA CB XB Mij Mji ab ba ic
  = brute (withC (CA + CB + ((1 + ic) * (Mij + Mji) + ic * (ab + ba))) (fun l => XA l + XB l)) n 0.
Proof.
  intros Hn. rewrite <- cov_is_double_sum. unfold sup_cov.
  replace (fun l => XA l + XB l) with (fun l => (XA l + XB l) + 0) by (apply FunctionalExtensionality.functional_extensionality; intro; ring).
  rewrite (cov_formula_linear (CA + CB) _ (fun l => XA l + XB l) (fun _ => 0)) by exact Hn.
  rewrite cov_formula_linear by exact Hn. rewrite cov_formula_const by exact Hn.
  assert (INR n <> 0) by (apply not_0_INR; lia). field. assumption.
Qed.

(* disjoint: the whole sample is drawn from A with probability f, from B otherwise (mixture): with
   CA, CB the covariances of the two sample means and a, b their means *)
Theorem disjoint_covariance_is_mixture f CA CB ai aj bi bj :
  let Ei := f * ai + (1 - f) * bi in let Ej := f * aj + (1 - f) * bj in
  let Eij := f * (CA + ai * aj) + (1 - f) * (CB + bi * bj) in
  Eij - Ei * Ej = f * CA + (1 - f) * CB + f * (1 - f) * ((ai - bi) * (aj - bj)).
Proof. cbv zeta. ring. Qed.
(* two samples one lag apart select their modes independently *)
Theorem disjoint_crosscovariance_is_mixture f XA XB ai aj bi bj :
  let Ei := f * ai + (1 - f) * bi in let Ej := f * aj + (1 - f) * bj in
  let Eij := f * f * (XA + ai * aj) + (1 - f) * (1 - f) * (XB + bi * bj) + f * (1 - f) * (ai * bj) + (1 - f) * f * (bi * aj) in
  Eij - Ei * Ej = f * f * XA + (1 - f) * (1 - f) * XB.
Proof. cbv zeta. ring. Qed.
Theorem disjoint_cov_spec f n CA XA CB XB ai aj bi bj :
  dis_cov f n CA XA CB XB ai aj bi bj =
  f * cov_formula CA XA n + (1 - f) * cov_formula CB XB n + f * (1 - f) * ((ai - bi) * (aj - bj)).
Proof. reflexivity. Qed.

(* ------------------------------------------------------------------------------------- *)
(* mode selection: random () is uniform on the integers 0 .. N-1 (N = RAND_MAX + 1) and mode A is
   selected when  r / (N - 1) < f.  The number of selecting values is within one of f N.        *)
Fixpoint count_below (y : R) (n : nat) : nat :=
  match n with O => O | S k => (count_below y k + (if Rlt_dec (INR k) y then 1 else 0))%nat end.

Lemma count_below_le y n : (count_below y n <= n)%nat.
Proof. induction n as [|n IH]; cbn [count_below]; [lia|]. destruct (Rlt_dec (INR n) y); lia. Qed.
Lemma count_below_all y n : INR n <= y -> count_below y n = n.
Proof.
  induction n as [|n IH]; intros H; cbn [count_below]; [reflexivity|].
  rewrite S_INR in H. rewrite IH by lra. destruct (Rlt_dec (INR n) y); [lia | lra].
Qed.
Lemma count_below_spec y n : count_below y n = O \/ INR (count_below y n) - 1 < y.
Proof.
  induction n as [|n IH]; cbn [count_below]; [left; reflexivity|].
  destruct (Rlt_dec (INR n) y) as [L|G].
  - right. rewrite count_below_all by lra. rewrite plus_INR. cbn [INR]. lra.
  - replace (count_below y n + 0)%nat with (count_below y n) by lia. exact IH.
Qed.
Lemma count_below_lower y n : y <= INR n -> y <= INR (count_below y n).
Proof.
  induction n as [|n IH]; intros H; cbn [count_below]; [exact H|].
  destruct (Rlt_dec (INR n) y) as [L|G].
  - rewrite count_below_all by lra. rewrite plus_INR. cbn [INR]. rewrite S_INR in H. lra.
  - replace (count_below y n + 0)%nat with (count_below y n) by lia. apply IH. lra.
Qed.

(* P (mode A) = count / N with  f (N-1) <= count < f (N-1) + 1:  |P - f| <= 1/N *)
Theorem selection_probability f N : (2 <= N)%nat -> 0 <= f <= 1 ->
  let cnt := count_below (f * INR (N - 1)) N in
  Rabs (INR cnt / INR N - f) <= 1 / INR N.
Proof.
  intros HN Hf cnt. assert (PN : 0 < INR N) by (apply lt_0_INR; lia).
  assert (H2 : 2 <= INR N) by (apply (le_INR 2 N) in HN; cbn [INR] in HN; lra).
  assert (EN : INR (N - 1) = INR N - 1) by (rewrite minus_INR by lia; reflexivity).
  assert (Hy : 0 <= f * INR (N - 1)) by (rewrite EN; nra).
  assert (Hup : f * INR (N - 1) <= INR N) by (rewrite EN; nra).
  pose proof (count_below_lower _ N Hup) as Hlo. fold cnt in Hlo.
  pose proof (count_below_spec (f * INR (N - 1)) N) as Hhi. fold cnt in Hhi.
  rewrite EN in *. apply Rabs_le. split.
  - apply Rle_trans with ((f * (INR N - 1)) / INR N - f).
    + replace ((f * (INR N - 1)) / INR N - f) with (- f / INR N) by (field; lra).
      unfold Rdiv. assert (Pi : 0 < / INR N) by (apply Rinv_0_lt_compat; exact PN).
      assert (Hle : f * / INR N <= 1 * / INR N) by (apply Rmult_le_compat_r; lra). lra.
    + unfold Rdiv. apply Rplus_le_compat_r. apply Rmult_le_compat_r; [ left; apply Rinv_0_lt_compat; exact PN | exact Hlo ].
  - destruct Hhi as [H|H].
    + rewrite H. cbn [INR]. unfold Rdiv. rewrite Rmult_0_l. assert (0 < / INR N) by (apply Rinv_0_lt_compat; exact PN). nra.
    + apply Rle_trans with ((f * (INR N - 1) + 1) / INR N - f).
      * unfold Rdiv. apply Rplus_le_compat_r. apply Rmult_le_compat_r; [ left; apply Rinv_0_lt_compat; exact PN | lra ].
      * replace ((f * (INR N - 1) + 1) / INR N - f) with ((1 - f) / INR N) by (field; lra).
        unfold Rdiv. apply Rmult_le_compat_r; [ left; apply Rinv_0_lt_compat; exact PN | lra ].
Qed.

(* ------------------------------------------------------------------------------------- *)
(* superposition with modulated modes.  One instance is  Z = mu a + nu b + sqrt(mu nu) x  where a, b, x are the
   single-mode parts and the cross term of the unmodulated fields (E a = A, E b = B, E x = 0, Cov a = CA,
   Cov b = CB, E x_i x_j = W_ij, and the cross moments of x with a and b vanish: Quadrature8.E8_covariance) and
   (mu, nu) are modulation factors independent of the fields with E mu = E nu = 1, Var mu = vA, Var nu = vB,
   Cov (mu, nu) = ic.  Second moments multiply (independence), so with
     Emm = 1 + vA, Enn = 1 + vB, Emn = 1 + ic (= E sqrt(mu nu)^2)
   the covariance of Z is the sum of the two modulated single-mode covariances, ic (A_i B_j + A_j B_i) and
   (1 + ic) W -- what superposed::get_covariance adds to the modes' own predictions. *)
Theorem modulated_superposed_instance vA vB ic CAij CBij Wij Ai Aj Bi Bj :
  let Emm := 1 + vA in let Enn := 1 + vB in let Emn := 1 + ic in
  let EZi := Ai + Bi in let EZj := Aj + Bj in
  let EZZ := Emm * (CAij + Ai * Aj) + Enn * (CBij + Bi * Bj) + Emn * (Ai * Bj + Bi * Aj) + Emn * Wij in
  EZZ - EZi * EZj
  = ((1 + vA) * CAij + vA * (Ai * Aj)) + ((1 + vB) * CBij + vB * (Bi * Bj)) + (1 + ic) * Wij + ic * (Ai * Bj + Aj * Bi).
Proof. cbv zeta. ring. Qed.
