(* Accum.v -- C12 spec: weighted-mean accumulators.  Entries are (value, variance)
   pairs; entries of zero variance carry no weight by convention.  Theorems for
   every finite sequence, every permutation and every binary merge tree. *)
From Coq Require Import Reals Lra List Permutation.
Import ListNotations.
Local Open Scope R_scope.

Definition est : Type := (R * R)%type.        (* value, variance *)
Definition st : Type := (R * R)%type.         (* sum x/v, sum 1/v *)
Definition st0 : st := (0, 0).

Definition add_est (s : st) (e : est) : st :=
  if Req_EM_T (snd e) 0 then s else (fst s + fst e * (1 / snd e), snd s + 1 / snd e).
Definition merge (s t : st) : st := (fst s + fst t, snd s + snd t).
Definition acc (l : list est) : st := fold_left add_est l st0.
Definition get_estimate (s : st) : est :=
  if Req_EM_T (snd s) 0 then (fst s * 0, 0) else (fst s * (1 / snd s), 1 / snd s).

(* weights of one entry *)
Definition wx (e : est) : R := if Req_EM_T (snd e) 0 then 0 else fst e * (1 / snd e).
Definition w1 (e : est) : R := if Req_EM_T (snd e) 0 then 0 else 1 / snd e.
Fixpoint rsum (l : list R) : R := match l with [] => 0 | x :: t => x + rsum t end.

Lemma st_eq (a b : st) : fst a = fst b -> snd a = snd b -> a = b.
Proof. destruct a, b; cbn [fst snd]; intros; subst; reflexivity. Qed.

Lemma add_est_weights s e : add_est s e = (fst s + wx e, snd s + w1 e).
Proof.
  unfold add_est, wx, w1. destruct (Req_EM_T (snd e) 0); [| reflexivity].
  apply st_eq; cbn [fst snd]; ring.
Qed.

Lemma fold_add s l : fold_left add_est l s = (fst s + rsum (map wx l), snd s + rsum (map w1 l)).
Proof.
  revert s; induction l as [|e l IH]; intros s; cbn [fold_left map rsum].
  - apply st_eq; cbn [fst snd]; ring.
  - rewrite IH, add_est_weights. apply st_eq; cbn [fst snd]; ring.
Qed.

(* the accumulator of any sequence is (sum x_i/v_i, sum 1/v_i) over the entries of non-zero variance *)
Theorem acc_closed l : acc l = (rsum (map wx l), rsum (map w1 l)).
Proof. unfold acc. rewrite fold_add. apply st_eq; cbn [fst snd st0]; ring. Qed.

Lemma rsum_perm l l' : Permutation l l' -> rsum l = rsum l'.
Proof. induction 1; cbn [rsum]; lra. Qed.

(* independent of the order of insertion *)
Theorem acc_permutation l l' : Permutation l l' -> acc l = acc l'.
Proof.
  intros P. rewrite !acc_closed. apply st_eq; cbn [fst snd]; apply rsum_perm; apply Permutation_map; exact P.
Qed.

Lemma rsum_app a b : rsum (a ++ b) = rsum a + rsum b.
Proof. induction a as [|x a IH]; cbn [app rsum]; [ring | rewrite IH; ring]. Qed.

Theorem acc_app a b : acc (a ++ b) = merge (acc a) (acc b).
Proof. rewrite !acc_closed, !map_app, !rsum_app. reflexivity. Qed.

(* independent of how partial accumulators are merged: every binary merge tree *)
Inductive tree : Type := Empty | Leaf (e : est) | Node (l r : tree).
Fixpoint eval (t : tree) : st :=
  match t with Empty => st0 | Leaf e => add_est st0 e | Node l r => merge (eval l) (eval r) end.
Fixpoint flatten (t : tree) : list est :=
  match t with Empty => [] | Leaf e => [e] | Node l r => flatten l ++ flatten r end.

Theorem eval_flatten t : eval t = acc (flatten t).
Proof.
  induction t as [| e | l IHl r IHr]; cbn [eval flatten].
  - reflexivity.
  - reflexivity.
  - rewrite IHl, IHr, acc_app. reflexivity.
Qed.

Theorem tree_independence t t' : Permutation (flatten t) (flatten t') -> eval t = eval t'.
Proof. intros P. rewrite !eval_flatten. apply acc_permutation; exact P. Qed.

(* the estimate: inverse-variance weighted mean with variance 1 / sum(1/v); empty -> (0,0) *)
Theorem estimate_weighted_mean l : rsum (map w1 l) <> 0 ->
  get_estimate (acc l) = (rsum (map wx l) / rsum (map w1 l), / rsum (map w1 l)).
Proof.
  intros H. rewrite acc_closed. unfold get_estimate; cbn [fst snd].
  destruct (Req_EM_T (rsum (map w1 l)) 0) as [E|_]; [contradiction|].
  apply st_eq; cbn [fst snd]; field; exact H.
Qed.
Theorem estimate_empty : get_estimate (acc []) = (0, 0).
Proof.
  unfold get_estimate, acc; cbn [fold_left st0 fst snd].
  destruct (Req_EM_T 0 0) as [_|N]; [| exfalso; apply N; reflexivity].
  apply st_eq; cbn [fst snd]; ring.
Qed.
(* zero-variance entries carry no weight *)
Theorem zero_variance_ignored l x : acc (l ++ [(x, 0)]) = acc l.
Proof.
  rewrite acc_app. unfold acc at 2; cbn [fold_left]. unfold add_est; cbn [snd].
  destruct (Req_EM_T 0 0) as [_|N]; [| exfalso; apply N; reflexivity].
  unfold merge, st0; cbn [fst snd]. apply st_eq; cbn [fst snd]; ring.
Qed.

(* positive variances give a positive total weight (so the hypothesis above is satisfiable) *)
Example weights_example : rsum (map w1 [(1, 2); (3, 0); (5, 4)]) <> 0.
Proof.
  unfold w1; cbn [map rsum snd].
  destruct (Req_EM_T 2 0); [lra|]. destruct (Req_EM_T 0 0) as [_|N]; [| exfalso; apply N; reflexivity].
  destruct (Req_EM_T 4 0); [lra|]. lra.
Qed.

(* ---- circular mean ---- *)
(* the cosine and sine estimates the code forms from an angle estimate (x, v) *)
(* first-order variances: the squared derivative itself (as Estimate.h evaluates it since fix 200c664) *)
Definition cos_est (e : est) : est := (cos (fst e), sin (fst e) * sin (fst e) * snd e).
Definition sin_est (e : est) : est := (sin (fst e), cos (fst e) * cos (fst e) * snd e).
Definition racc (l : list est) : st * st := (acc (map cos_est l), acc (map sin_est l)).

Theorem racc_permutation l l' : Permutation l l' -> racc l = racc l'.
Proof. intros P. unfold racc. f_equal; apply acc_permutation; apply Permutation_map; exact P. Qed.
Theorem racc_app a b : racc (a ++ b) = (merge (fst (racc a)) (fst (racc b)), merge (snd (racc a)) (snd (racc b))).
Proof. unfold racc; cbn [fst snd]. rewrite !map_app, !acc_app. reflexivity. Qed.

(* unchanged by adding any multiple of 2 pi to any input *)
Theorem cos_sin_est_period x v (k : nat) :
  cos_est (x + 2 * INR k * PI, v) = cos_est (x, v) /\ sin_est (x + 2 * INR k * PI, v) = sin_est (x, v).
Proof. unfold cos_est, sin_est; cbn [fst snd]. rewrite cos_period, sin_period. split; reflexivity. Qed.
Theorem cos_sin_est_period_neg x v (k : nat) :
  cos_est (x - 2 * INR k * PI, v) = cos_est (x, v) /\ sin_est (x - 2 * INR k * PI, v) = sin_est (x, v).
Proof.
  unfold cos_est, sin_est; cbn [fst snd].
  assert (C : cos (x - 2 * INR k * PI) = cos x).
  { rewrite <- (cos_period (x - 2 * INR k * PI) k). f_equal; ring. }
  assert (S : sin (x - 2 * INR k * PI) = sin x).
  { rewrite <- (sin_period (x - 2 * INR k * PI) k). f_equal; ring. }
  rewrite C, S. split; reflexivity.
Qed.
