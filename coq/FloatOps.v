(* FloatOps.v -- interpretation of generated terms over Coq's primitive
   binary64 floats: used to replay the code's floating-point behaviour inside
   the kernel (translator validation, refutation witnesses, boundary sweeps). *)
From Coq Require Import ZArith List Floats Bool.
From Epsic Require Import Scalar.
Import ListNotations.
Local Open Scope float_scope.

Fixpoint pos_to_float (p : positive) : float :=
  match p with
  | xH => 1
  | xO p => 2 * pos_to_float p
  | xI p => 2 * pos_to_float p + 1
  end.
Definition Z_to_float (z : Z) : float :=
  match z with Z0 => 0 | Zpos p => pos_to_float p | Zneg p => - pos_to_float p end.

Definition fnan : float := 0 / 0.

#[export] Instance FOps : Ops float := {|
  oadd := PrimFloat.add; osub := PrimFloat.sub; omul := PrimFloat.mul; odiv := PrimFloat.div;
  oneg := PrimFloat.opp;
  oint := Z_to_float;
  osqrt := PrimFloat.sqrt;
  oexp := fun _ => fnan; olog := fun _ => fnan; osin := fun _ => fnan; ocos := fun _ => fnan;
  oacos := fun _ => fnan; oatan := fun _ => fnan; osinh := fun _ => fnan; ocosh := fun _ => fnan;
  oatanh := fun _ => fnan;
  ofabs := PrimFloat.abs; ofloor := fun _ => fnan;
  oatan2 := fun _ _ => fnan; ocopysign := fun _ _ => fnan;
  ornd32 := fun _ => fnan;
  ocsqrt_re := fun _ _ => fnan; ocsqrt_im := fun _ _ => fnan;
  opi := fnan; onan := fnan; oinf := infinity;
  olt := fun a b => PrimFloat.ltb a b = true;
  ole := fun a b => PrimFloat.leb a b = true;
  oeq := fun a b => PrimFloat.eqb a b = true;
  otrunc := fun _ _ => True;
  ofinite := fun a _ => (negb (is_nan a) && negb (is_infinity a)) = true;
  osignbit := fun a _ => get_sign a = true;
|}.

(* bitwise equality (NaN equals NaN, +0 differs from -0) *)
Definition feq (a b : float) : bool :=
  match Prim2SF a, Prim2SF b with
  | S754_nan, S754_nan => true
  | S754_zero s, S754_zero t => Bool.eqb s t
  | S754_infinity s, S754_infinity t => Bool.eqb s t
  | S754_finite s m e, S754_finite t n f => Bool.eqb s t && Pos.eqb m n && Z.eqb e f
  | _, _ => false
  end.
Fixpoint feq_list (a b : list float) : bool :=
  match a, b with
  | [], [] => true
  | x :: a, y :: b => feq x y && feq_list a b
  | _, _ => false
  end.
Definition is_nan_b (a : float) : bool := is_nan a.
Definition finite_b (a : float) : bool := negb (is_nan a) && negb (is_infinity a).
