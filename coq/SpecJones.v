(* SpecJones.v -- the algebra of 2x2 complex matrices (spec level, all matrices):
   ring laws, det, trace, Cayley-Hamilton, conj/herm, Frobenius norm, inverse.
   Source independent: compiled once by setup_cmd. *)
From Coq Require Import Reals Lra List.
From Epsic Require Import Scalar SpecPauli.
Import ListNotations.
Local Open Scope R_scope.

Definition M2of (a b c d e f g h : R) : M2 := mkM2 (a, b) (c, d) (e, f) (g, h).
Definition m2oflist (l : list R) : M2 :=
  match l with
  | [a; b; c; d; e; f; g; h] => M2of a b c d e f g h
  | _ => m2zero
  end.
Lemma m2oflist_m2list a : m2oflist (m2list a) = a.
Proof. destruct a as [[a1 a2] [a3 a4] [a5 a6] [a7 a8]]; reflexivity. Qed.

Ltac m2_destruct :=
  repeat match goal with
  | a : M2 |- _ => destruct a as [[? ?] [? ?] [? ?] [? ?]]
  | z : C |- _ => destruct z as [? ?]
  end.
Ltac m2_crush := intros; m2_destruct; apply m2_eq; spec_cbv; list_eq ltac:(first [ring | field]).
Ltac c_crush := intros; m2_destruct; apply c_eq; spec_cbv; first [ring | field].

Theorem m2add_assoc a b c : m2add (m2add a b) c = m2add a (m2add b c).            Proof. m2_crush. Qed.
Theorem m2add_comm a b : m2add a b = m2add b a.                                   Proof. m2_crush. Qed.
Theorem m2add_zero a : m2add a m2zero = a.                                        Proof. m2_crush. Qed.
Theorem m2add_neg a : m2add a (m2neg a) = m2zero.                                 Proof. m2_crush. Qed.
Theorem m2sub_add_neg a b : m2sub a b = m2add a (m2neg b).                        Proof. m2_crush. Qed.
Theorem m2mul_assoc a b c : m2mul (m2mul a b) c = m2mul a (m2mul b c).            Proof. m2_crush. Qed.
Theorem m2mul_id_l a : m2mul m2id a = a.                                          Proof. m2_crush. Qed.
Theorem m2mul_id_r a : m2mul a m2id = a.                                          Proof. m2_crush. Qed.
Theorem m2mul_add_l a b c : m2mul a (m2add b c) = m2add (m2mul a b) (m2mul a c).  Proof. m2_crush. Qed.
Theorem m2mul_add_r a b c : m2mul (m2add a b) c = m2add (m2mul a c) (m2mul b c).  Proof. m2_crush. Qed.
Theorem m2scale_mul_l z a b : m2scale z (m2mul a b) = m2mul (m2scale z a) b.      Proof. m2_crush. Qed.
Theorem m2scale_mul_r z a b : m2scale z (m2mul a b) = m2mul a (m2scale z b).      Proof. m2_crush. Qed.
Theorem m2scale_scale z w a : m2scale z (m2scale w a) = m2scale (cmul z w) a.     Proof. m2_crush. Qed.
Theorem m2det_mul a b : m2det (m2mul a b) = cmul (m2det a) (m2det b).             Proof. c_crush. Qed.
Theorem m2det_id : m2det m2id = c1.                                               Proof. c_crush. Qed.
Theorem m2trace_add a b : m2trace (m2add a b) = cadd (m2trace a) (m2trace b).     Proof. c_crush. Qed.
Theorem m2trace_scale z a : m2trace (m2scale z a) = cmul z (m2trace a).           Proof. c_crush. Qed.
Theorem m2trace_cyclic a b : m2trace (m2mul a b) = m2trace (m2mul b a).           Proof. c_crush. Qed.
(* Cayley-Hamilton: A^2 - tr(A) A + det(A) 1 = 0 *)
Theorem m2_cayley_hamilton a :
  m2add (m2sub (m2mul a a) (m2scale (m2trace a) a)) (m2scale (m2det a) m2id) = m2zero.
Proof. m2_crush. Qed.
Theorem m2conj_mul a b : m2conj (m2mul a b) = m2mul (m2conj a) (m2conj b).        Proof. m2_crush. Qed.
Theorem m2conj_add a b : m2conj (m2add a b) = m2add (m2conj a) (m2conj b).        Proof. m2_crush. Qed.
Theorem m2herm_mul a b : m2herm (m2mul a b) = m2mul (m2herm b) (m2herm a).        Proof. m2_crush. Qed.
Theorem m2herm_add a b : m2herm (m2add a b) = m2add (m2herm a) (m2herm b).        Proof. m2_crush. Qed.
Theorem m2herm_invol a : m2herm (m2herm a) = a.                                   Proof. m2_crush. Qed.
Theorem m2conj_invol a : m2conj (m2conj a) = a.                                   Proof. m2_crush. Qed.
Theorem m2norm_trace a : (m2norm a, 0) = m2trace (m2mul a (m2herm a)).            Proof. c_crush. Qed.
Theorem m2det_herm a : m2det (m2herm a) = cconj (m2det a).                        Proof. c_crush. Qed.

Theorem m2det_scale z a : m2det (m2scale z a) = cmul (cmul z z) (m2det a).             Proof. c_crush. Qed.
Theorem m2scale_id a : m2scale c1 a = a.                                               Proof. m2_crush. Qed.

Definition cnz (z : C) : Prop := fst z * fst z + snd z * snd z <> 0.
Lemma cnz_iff z : cnz z <-> z <> c0.
Proof.
  destruct z as [x y]; unfold cnz, c0; cbn [fst snd]; split.
  - intros H E; inversion E; subst; apply H; ring.
  - intros H E; apply H. assert (x = 0) by nra. assert (y = 0) by nra. subst; reflexivity.
Qed.
Theorem m2inv_l a : cnz (m2det a) -> m2mul (m2inv a) a = m2id.
Proof.
  intros H; m2_destruct; unfold cnz in H; revert H; spec_cbv; intros H.
  apply m2_eq; spec_cbv; list_eq ltac:(field; nz_auto).
Qed.
Theorem m2inv_r a : cnz (m2det a) -> m2mul a (m2inv a) = m2id.
Proof.
  intros H; m2_destruct; unfold cnz in H; revert H; spec_cbv; intros H.
  apply m2_eq; spec_cbv; list_eq ltac:(field; nz_auto).
Qed.
Theorem cmul_inv z : cnz z -> cmul z (cinv z) = c1.
Proof. intros H; destruct z as [x y]; unfold cnz in H; cbn [fst snd] in H; apply c_eq; spec_cbv; field; nz_auto. Qed.

Theorem cinv_mul z w : cnz z -> cnz w -> cinv (cmul z w) = cmul (cinv z) (cinv w).
Proof.
  intros Hz Hw; destruct z as [a b], w as [c d]; unfold cnz in *; cbn [fst snd] in *.
  apply c_eq; spec_cbv; field; repeat split; try assumption;
  replace ((a * c - b * d) * (a * c - b * d) + (a * d + b * c) * (a * d + b * c)) with ((a * a + b * b) * (c * c + d * d)) by ring;
  apply Rmult_integral_contrapositive_currified; assumption.
Qed.
Theorem cmul_comm z w : cmul z w = cmul w z.        Proof. c_crush. Qed.
Theorem cmul_assoc z w u : cmul (cmul z w) u = cmul z (cmul w u).  Proof. c_crush. Qed.
Theorem cmul_1_l z : cmul c1 z = z.                 Proof. c_crush. Qed.
Theorem cnz_mul z w : cnz z -> cnz w -> cnz (cmul z w).
Proof.
  intros Hz Hw; destruct z as [a b], w as [c d]; unfold cnz in *; cbn [fst snd cmul] in *.
  replace ((a * c - b * d) * (a * c - b * d) + (a * d + b * c) * (a * d + b * c)) with ((a * a + b * b) * (c * c + d * d)) by ring.
  apply Rmult_integral_contrapositive_currified; assumption.
Qed.
Theorem cnz_sq_inv z : cnz (cmul z z) -> cnz z.
Proof.
  destruct z as [a b]; unfold cnz; cbn [fst snd cmul]. intros H E. apply H.
  replace ((a * a - b * b) * (a * a - b * b) + (a * b + b * a) * (a * b + b * a)) with ((a * a + b * b) * (a * a + b * b)) by ring.
  rewrite E; ring.
Qed.

(* ---- quaternion images ---- *)
(* Hermitian basis: s0 + s1 sigma1 + s2 sigma2 + s3 sigma3, complex components *)
Definition phiHc (s0 s1 s2 s3 : C) : M2 :=
  mkM2 (cadd s0 s1) (csub s2 (cmul ci s3)) (cadd s2 (cmul ci s3)) (csub s0 s1).
(* Unitary basis: s0 + i (s1 sigma1 + s2 sigma2 + s3 sigma3) *)
Definition phiUc (s0 s1 s2 s3 : C) : M2 :=
  mkM2 (cadd s0 (cmul ci s1)) (cadd s3 (cmul ci s2)) (cadd (cneg s3) (cmul ci s2)) (csub s0 (cmul ci s1)).

Lemma phiHc_sum s0 s1 s2 s3 :
  phiHc s0 s1 s2 s3 = m2add (m2add (m2add (m2scale s0 (sigma 0)) (m2scale s1 (sigma 1))) (m2scale s2 (sigma 2))) (m2scale s3 (sigma 3)).
Proof. unfold phiHc, sigma. m2_crush. Qed.
Lemma phiUc_sum s0 s1 s2 s3 :
  phiUc s0 s1 s2 s3 = m2add (m2scale s0 (sigma 0))
     (m2scale ci (m2add (m2add (m2scale s1 (sigma 1)) (m2scale s2 (sigma 2))) (m2scale s3 (sigma 3)))).
Proof. unfold phiUc, sigma. m2_crush. Qed.

(* a real Hermitian-basis quaternion maps to a Hermitian matrix *)
Theorem phiH_real_hermitian a b c d :
  m2herm (phiHc (cofR a) (cofR b) (cofR c) (cofR d)) = phiHc (cofR a) (cofR b) (cofR c) (cofR d).
Proof. unfold phiHc. m2_crush. Qed.
(* a real unitary-basis quaternion maps to a scaled unitary matrix: U U^dagger = det * 1 *)
Theorem phiU_real_scaled_unitary a b c d :
  let u := phiUc (cofR a) (cofR b) (cofR c) (cofR d) in
  m2mul u (m2herm u) = m2scale (cofR (a*a + b*b + c*c + d*d)) m2id
  /\ m2det u = cofR (a*a + b*b + c*c + d*d).
Proof. unfold phiUc; split; [m2_crush | c_crush]. Qed.
