(* SpecPauli.v -- hand-written mathematical objects the generated code is tied
   to: complex numbers, 2x2 complex matrices, the Pauli basis, coherency
   matrices, Stokes four-vectors and the Minkowski forms.  Nothing here mentions
   the code's evaluation order. *)
From Coq Require Import Reals Lra Lia List.
Import ListNotations.
Local Open Scope R_scope.

(* ---- complex numbers ---- *)
Definition C : Type := (R * R)%type.
Definition c0 : C := (0, 0).
Definition c1 : C := (1, 0).
Definition ci : C := (0, 1).
Definition cre (z : C) := fst z.
Definition cim (z : C) := snd z.
Definition cadd (z w : C) : C := (fst z + fst w, snd z + snd w).
Definition csub (z w : C) : C := (fst z - fst w, snd z - snd w).
Definition cneg (z : C) : C := (- fst z, - snd z).
Definition cmul (z w : C) : C := (fst z * fst w - snd z * snd w, fst z * snd w + snd z * fst w).
Definition cconj (z : C) : C := (fst z, - snd z).
Definition cnorm2 (z : C) : R := fst z * fst z + snd z * snd z.
Definition cinv (z : C) : C := (fst z / cnorm2 z, - snd z / cnorm2 z).
Definition cdiv (z w : C) : C := cmul z (cinv w).
Definition cscale (r : R) (z : C) : C := (r * fst z, r * snd z).
Definition cofR (r : R) : C := (r, 0).

Ltac pair_simpl := cbn [fst snd].
Lemma c_eq (z w : C) : fst z = fst w -> snd z = snd w -> z = w.
Proof. destruct z, w; pair_simpl; intros; subst; reflexivity. Qed.

(* ---- 2x2 complex matrices, row major ---- *)
Record M2 : Type := mkM2 { m00 : C; m01 : C; m10 : C; m11 : C }.
Definition m2zero := mkM2 c0 c0 c0 c0.
Definition m2id := mkM2 c1 c0 c0 c1.
Definition m2add (a b : M2) := mkM2 (cadd (m00 a) (m00 b)) (cadd (m01 a) (m01 b)) (cadd (m10 a) (m10 b)) (cadd (m11 a) (m11 b)).
Definition m2sub (a b : M2) := mkM2 (csub (m00 a) (m00 b)) (csub (m01 a) (m01 b)) (csub (m10 a) (m10 b)) (csub (m11 a) (m11 b)).
Definition m2neg (a : M2) := mkM2 (cneg (m00 a)) (cneg (m01 a)) (cneg (m10 a)) (cneg (m11 a)).
Definition m2mul (a b : M2) := mkM2
  (cadd (cmul (m00 a) (m00 b)) (cmul (m01 a) (m10 b))) (cadd (cmul (m00 a) (m01 b)) (cmul (m01 a) (m11 b)))
  (cadd (cmul (m10 a) (m00 b)) (cmul (m11 a) (m10 b))) (cadd (cmul (m10 a) (m01 b)) (cmul (m11 a) (m11 b))).
Definition m2scale (z : C) (a : M2) := mkM2 (cmul z (m00 a)) (cmul z (m01 a)) (cmul z (m10 a)) (cmul z (m11 a)).
Definition m2conj (a : M2) := mkM2 (cconj (m00 a)) (cconj (m01 a)) (cconj (m10 a)) (cconj (m11 a)).
Definition m2herm (a : M2) := mkM2 (cconj (m00 a)) (cconj (m10 a)) (cconj (m01 a)) (cconj (m11 a)).
Definition m2trace (a : M2) : C := cadd (m00 a) (m11 a).
Definition m2det (a : M2) : C := csub (cmul (m00 a) (m11 a)) (cmul (m01 a) (m10 a)).
Definition m2norm (a : M2) : R := cnorm2 (m00 a) + cnorm2 (m01 a) + cnorm2 (m10 a) + cnorm2 (m11 a).
Definition m2inv (a : M2) : M2 :=
  let d := cinv (m2det a) in
  mkM2 (cmul d (m11 a)) (cneg (cmul d (m01 a))) (cneg (cmul d (m10 a))) (cmul d (m00 a)).

Ltac proj_simpl := cbn [fst snd m00 m01 m10 m11 Nat.eqb].
(* the order in which the drivers print a Jones matrix *)
Definition m2list (a : M2) : list R :=
  [cre (m00 a); cim (m00 a); cre (m01 a); cim (m01 a); cre (m10 a); cim (m10 a); cre (m11 a); cim (m11 a)].
Definition clist (z : C) : list R := [cre z; cim z].

Lemma m2_eq (a b : M2) : m2list a = m2list b -> a = b.
Proof.
  destruct a as [[a1 a2] [a3 a4] [a5 a6] [a7 a8]], b as [[b1 b2] [b3 b4] [b5 b6] [b7 b8]].
  unfold m2list, cre, cim; proj_simpl. intros H; injection H; intros; subst; reflexivity.
Qed.

(* ---- Pauli basis (Hermitian): sigma_0 = 1, sigma_1 = diag(1,-1) [Q],
        sigma_2 = offdiag(1,1) [U], sigma_3 = offdiag(-i,i) [V] ---- *)
Definition sigma (k : nat) : M2 :=
  match k with
  | 0%nat => mkM2 c1 c0 c0 c1
  | 1%nat => mkM2 c1 c0 c0 (cneg c1)
  | 2%nat => mkM2 c0 c1 c1 c0
  | 3%nat => mkM2 c0 (cneg ci) ci c0
  | _ => m2zero
  end.

(* four-vectors *)
Record V4 : Type := mkV4 { v0 : R; v1 : R; v2 : R; v3 : R }.
Definition v4nth (a : V4) (k : nat) : R :=
  match k with 0%nat => v0 a | 1%nat => v1 a | 2%nat => v2 a | 3%nat => v3 a | _ => 0 end.
Definition v4list (a : V4) : list R := [v0 a; v1 a; v2 a; v3 a].
Definition v4add (a b : V4) := mkV4 (v0 a + v0 b) (v1 a + v1 b) (v2 a + v2 b) (v3 a + v3 b).
Definition v4scale (r : R) (a : V4) := mkV4 (r * v0 a) (r * v1 a) (r * v2 a) (r * v3 a).

Ltac proj_simpl ::= cbn [fst snd m00 m01 m10 m11 v0 v1 v2 v3 Nat.eqb].
(* call-by-value unfolding of the spec vocabulary (projections reduce as soon
   as their argument is a constructor, so terms do not blow up) *)
Ltac spec_cbv :=
  cbv beta iota zeta delta
    [fst snd cre cim cadd csub cneg cmul cconj cnorm2 cinv cdiv cscale cofR c0 c1 ci
     m00 m01 m10 m11 m2zero m2id m2add m2sub m2neg m2mul m2scale m2conj m2herm m2trace m2det m2norm m2inv
     m2list clist v0 v1 v2 v3 v4nth v4list v4add v4scale Nat.eqb
     List.map List.flat_map List.app].
(* quaternion image: s0 + s1 sigma1 + s2 sigma2 + s3 sigma3 (Hermitian basis) *)
Definition phiH (a : V4) : M2 :=
  mkM2 (v0 a + v1 a, 0) (v2 a, - v3 a) (v2 a, v3 a) (v0 a - v1 a, 0).
(* coherency matrix of a Stokes vector (linear basis): rho = 1/2 sum S_k sigma_k *)
Definition rho (s : V4) : M2 := phiH (v4scale (/2) s).

Lemma rho_sum (s : V4) :
  rho s = m2scale (cofR (/2))
            (m2add (m2add (m2add (m2scale (cofR (v0 s)) (sigma 0)) (m2scale (cofR (v1 s)) (sigma 1)))
                          (m2scale (cofR (v2 s)) (sigma 2))) (m2scale (cofR (v3 s)) (sigma 3))).
Proof.
  apply m2_eq; destruct s; unfold rho, phiH, sigma; spec_cbv.
  repeat (apply f_equal2; [ring|]); reflexivity.
Qed.

Ltac spec_cbv_in H :=
  cbv beta iota zeta delta
    [fst snd cre cim cadd csub cneg cmul cconj cnorm2 cinv cdiv cscale cofR c0 c1 ci
     m00 m01 m10 m11 m2zero m2id m2add m2sub m2neg m2mul m2scale m2conj m2herm m2trace m2det m2norm m2inv
     m2list clist v0 v1 v2 v3 v4nth v4list v4add v4scale Nat.eqb
     List.map List.flat_map List.app] in H.

(* Stokes vector of P^2 = 2 rho for the polarizer P = phiH(q0,q1,q2,q3) *)
Definition Smean (q0 q1 q2 q3 : R) : V4 := mkV4 (q0*q0 + q1*q1 + q2*q2 + q3*q3) (2*q0*q1) (2*q0*q2) (2*q0*q3).

(* ---- Minkowski forms ---- *)
Definition eta (i j : nat) : R :=
  if Nat.eqb i j then (if Nat.eqb i 0 then 1 else -1) else 0.
Definition mink_inner_spec (a b : V4) : R := v0 a * v0 b - v1 a * v1 b - v2 a * v2 b - v3 a * v3 b.
Definition lorentz_invariant (a : V4) : R := v0 a * v0 a - (v1 a * v1 a + v2 a * v2 a + v3 a * v3 a).
(* A (x) B - 1/2 eta (A.B) *)
Definition mink_outer_spec (a b : V4) (i j : nat) : R :=
  v4nth a i * v4nth b j - / 2 * eta i j * mink_inner_spec a b.
Definition idx4 : list nat := [0; 1; 2; 3]%nat.
Definition grid16 {T} (f : nat -> nat -> T) : list T :=
  flat_map (fun i => map (fun j => f i j) idx4) idx4.

(* tr (sigma_i X sigma_j Y) *)
Definition tr4 (x y : M2) (i j : nat) : C :=
  m2trace (m2mul (m2mul (m2mul (sigma i) x) (sigma j)) y).

Ltac c_simpl :=
  unfold tr4, rho, phiH, sigma, mink_outer_spec, mink_inner_spec, eta; spec_cbv.

(* outer(A,A)_ij = tr(sigma_i rho_A sigma_j rho_A), a real number *)
Theorem outer_self_is_trace (a : V4) (i j : nat) : (i < 4)%nat -> (j < 4)%nat ->
  tr4 (rho a) (rho a) i j = (mink_outer_spec a a i j, 0).
Proof.
  intros Hi Hj. destruct a as [a0 a1 a2 a3].
  do 4 (destruct i as [|i]; [ do 4 (destruct j as [|j]; [ c_simpl; apply c_eq; pair_simpl; field | ]); exfalso; lia | ]).
  exfalso; lia.
Qed.

(* (outer(A,B)+outer(B,A))_ij = tr(s_i rho_A s_j rho_B) + tr(s_i rho_B s_j rho_A) *)
Theorem outer_sym_is_trace (a b : V4) (i j : nat) : (i < 4)%nat -> (j < 4)%nat ->
  cadd (tr4 (rho a) (rho b) i j) (tr4 (rho b) (rho a) i j)
  = (mink_outer_spec a b i j + mink_outer_spec b a i j, 0).
Proof.
  intros Hi Hj. destruct a as [a0 a1 a2 a3], b as [b0 b1 b2 b3].
  do 4 (destruct i as [|i]; [ do 4 (destruct j as [|j]; [ c_simpl; apply c_eq; pair_simpl; field | ]); exfalso; lia | ]).
  exfalso; lia.
Qed.

Theorem mink_inner_sym (a b : V4) : mink_inner_spec a b = mink_inner_spec b a.
Proof. unfold mink_inner_spec; ring. Qed.
Theorem mink_inner_bilinear (r s : R) (a b c : V4) :
  mink_inner_spec (v4add (v4scale r a) (v4scale s b)) c = r * mink_inner_spec a c + s * mink_inner_spec b c.
Proof. unfold mink_inner_spec, v4add, v4scale; proj_simpl; ring. Qed.
Theorem mink_inner_self_invariant (a : V4) : mink_inner_spec a a = lorentz_invariant a.
Proof. unfold mink_inner_spec, lorentz_invariant; ring. Qed.
Theorem mink_outer_transpose (a b : V4) (i j : nat) : mink_outer_spec a b i j = mink_outer_spec b a j i.
Proof.
  unfold mink_outer_spec, eta. rewrite (mink_inner_sym a b).
  destruct (Nat.eqb i j) eqn:E.
  - apply Nat.eqb_eq in E; subst. rewrite Nat.eqb_refl. ring.
  - rewrite Nat.eqb_sym in E. rewrite E. ring.
Qed.
Theorem mink_outer_bilinear_l (r s : R) (a b c : V4) (i j : nat) :
  mink_outer_spec (v4add (v4scale r a) (v4scale s b)) c i j
  = r * mink_outer_spec a c i j + s * mink_outer_spec b c i j.
Proof.
  unfold mink_outer_spec. rewrite mink_inner_bilinear.
  destruct a, b, c; destruct i as [|[|[|[|i]]]]; unfold v4nth, v4add, v4scale; proj_simpl; ring.
Qed.
Theorem mink_outer_bilinear_r (r s : R) (a b c : V4) (i j : nat) :
  mink_outer_spec c (v4add (v4scale r a) (v4scale s b)) i j
  = r * mink_outer_spec c a i j + s * mink_outer_spec c b i j.
Proof.
  rewrite (mink_outer_transpose c _ i j), mink_outer_bilinear_l,
    (mink_outer_transpose a c j i), (mink_outer_transpose b c j i). reflexivity.
Qed.
