(* PolarModel.v -- the polar decomposition of a non-singular 2x2 complex matrix, as composed by
   polar() in Pauli.h (source independent):

     d   = a square root of det J,          j = J / d            (unimodular)
     H   = a Hermitian square root of j j^dagger with det H = 1
     w   = H^-1 j
     u   = the unitary-basis quaternion of w, real parts kept

   Theorems: w is unitary with determinant 1; a unitary matrix of determinant 1 has the SU(2) form
   [[a, b], [-b*, a*]], hence its unitary-basis quaternion is real (real() drops nothing) and has unit
   norm; and d H phiU(u) = J. *)
From Coq Require Import Reals Lra List.
From Epsic Require Import Scalar SpecPauli SpecJones.
Import ListNotations.
Local Open Scope R_scope.

Definition m2adj (a : M2) : M2 := mkM2 (m11 a) (cneg (m01 a)) (cneg (m10 a)) (m00 a).
Lemma m2adj_mul_l a : m2mul (m2adj a) a = m2scale (m2det a) m2id.
Proof. unfold m2adj. m2_crush. Qed.
Lemma m2herm_id : m2herm m2id = m2id.
Proof. apply m2_eq; spec_cbv; list_eq ltac:(ring). Qed.

(* a right-unitary matrix of determinant one: adj w = w^dagger *)
Lemma unitary_det1_adj w : m2mul w (m2herm w) = m2id -> m2det w = c1 -> m2adj w = m2herm w.
Proof.
  intros HU HD.
  rewrite <- (m2mul_id_r (m2adj w)), <- HU, <- m2mul_assoc, m2adj_mul_l, HD.
  rewrite <- m2scale_mul_l, m2scale_id. apply m2mul_id_l.
Qed.
Theorem su2_form w : m2mul w (m2herm w) = m2id -> m2det w = c1 ->
  m11 w = cconj (m00 w) /\ m10 w = cneg (cconj (m01 w)).
Proof.
  intros HU HD. pose proof (unitary_det1_adj w HU HD) as E.
  pose proof (f_equal m00 E) as E1. pose proof (f_equal m01 E) as E2.
  destruct w as [a b c d]. unfold m2adj, m2herm in E1, E2. cbn [m00 m01 m10 m11] in *.
  split; [ exact E1 | ].
  (* E2 : - b = conj c *)
  destruct b as [br bi], c as [cr ci']. unfold cneg, cconj in *. cbn [fst snd] in *.
  pose proof (f_equal fst E2) as F1. pose proof (f_equal snd E2) as F2. cbn [fst snd] in F1, F2.
  apply c_eq; cbn [fst snd]; lra.
Qed.

(* the unitary-basis quaternion of a matrix: w = s0 + i (s1 sigma1 + s2 sigma2 + s3 sigma3) *)
Definition half : C := cofR (/ 2).
Definition mhi : C := (0, - / 2).                     (* 1/(2i) = -i/2 *)
Definition uq0 (w : M2) : C := cmul half (cadd (m00 w) (m11 w)).
Definition uq1 (w : M2) : C := cmul mhi (csub (m00 w) (m11 w)).
Definition uq2 (w : M2) : C := cmul mhi (cadd (m01 w) (m10 w)).
Definition uq3 (w : M2) : C := cmul half (csub (m01 w) (m10 w)).
Lemma phiUc_uq w : phiUc (uq0 w) (uq1 w) (uq2 w) (uq3 w) = w.
Proof. unfold phiUc, uq0, uq1, uq2, uq3, half, mhi. m2_crush. Qed.

(* for an SU(2) matrix the four components are real: taking real parts loses nothing *)
Theorem su2_quaternion_real w : m2mul w (m2herm w) = m2id -> m2det w = c1 ->
  snd (uq0 w) = 0 /\ snd (uq1 w) = 0 /\ snd (uq2 w) = 0 /\ snd (uq3 w) = 0 /\
  phiUc (cofR (fst (uq0 w))) (cofR (fst (uq1 w))) (cofR (fst (uq2 w))) (cofR (fst (uq3 w))) = w /\
  fst (uq0 w) * fst (uq0 w) + fst (uq1 w) * fst (uq1 w) + fst (uq2 w) * fst (uq2 w) + fst (uq3 w) * fst (uq3 w) = 1.
Proof.
  intros HU HD. destruct (su2_form w HU HD) as [E11 E10].
  destruct w as [[ar ai] [br bi] c d]. cbn [m00 m01 m10 m11] in *. subst c d.
  assert (N : ar * ar + ai * ai + br * br + bi * bi = 1).
  { revert HD. unfold m2det, c1; cbn [m00 m01 m10 m11]. unfold csub, cmul, cconj, cneg; cbn [fst snd].
    intros HD. inversion HD as [[H1 H2]]. lra. }
  unfold uq0, uq1, uq2, uq3, half, mhi, phiUc. cbn [m00 m01 m10 m11].
  conj_split; first [ spec_cbv; lra | apply m2_eq; spec_cbv; list_eq ltac:(first [ring | field | lra]) | spec_cbv; nra ].
Qed.

Lemma m2herm_inv a : cnz (m2det a) -> m2herm (m2inv a) = m2inv (m2herm a).
Proof.
  intros H; m2_destruct; unfold cnz in H; revert H; spec_cbv; intros H.
  apply m2_eq; spec_cbv; list_eq ltac:(field; nz_auto).
Qed.
Lemma m2det_inv a : cnz (m2det a) -> m2det (m2inv a) = cinv (m2det a).
Proof.
  intros H; m2_destruct; unfold cnz in H; revert H; spec_cbv; intros H.
  apply c_eq; spec_cbv; field; nz_auto.
Qed.
Lemma cinv_c1 : cinv c1 = c1.
Proof. apply c_eq; spec_cbv; field. Qed.
Lemma cnz_c1 : cnz c1.
Proof. unfold cnz, c1; cbn [fst snd]; lra. Qed.

Section Polar.
Variables (J H : M2) (d : C).
Hypothesis Hd : cmul d d = m2det J.
Hypothesis HJ : cnz (m2det J).
Let j := m2scale (cinv d) J.
Hypothesis HH : m2herm H = H.
Hypothesis Hsq : m2mul H H = m2mul j (m2herm j).
Hypothesis HdetH : m2det H = c1.
Let w := m2mul (m2inv H) j.

Lemma polar_dnz : cnz d.
Proof. apply cnz_sq_inv. rewrite Hd. exact HJ. Qed.
Lemma polar_j_unimodular : m2det j = c1.
Proof.
  subst j. rewrite m2det_scale, <- cinv_mul by exact polar_dnz. rewrite Hd, cmul_comm. apply cmul_inv. exact HJ.
Qed.
Lemma polar_dj : m2scale d j = J.
Proof. subst j. rewrite m2scale_scale, cmul_inv by exact polar_dnz. apply m2scale_id. Qed.
Lemma polar_Hnz : cnz (m2det H).
Proof. rewrite HdetH. exact cnz_c1. Qed.

Theorem polar_w_unitary : m2mul w (m2herm w) = m2id.
Proof.
  subst w. rewrite m2herm_mul, m2herm_inv by exact polar_Hnz. rewrite HH.
  rewrite m2mul_assoc, <- (m2mul_assoc j), <- Hsq.
  rewrite (m2mul_assoc H H), m2inv_r by exact polar_Hnz. rewrite m2mul_id_r. apply m2inv_l. exact polar_Hnz.
Qed.
Theorem polar_w_det : m2det w = c1.
Proof.
  subst w. rewrite m2det_mul, m2det_inv by exact polar_Hnz. rewrite HdetH, cinv_c1, polar_j_unimodular. apply cmul_1_l.
Qed.
(* d H w = J, and w is the image of a real unit unitary-basis quaternion *)
Theorem polar_reconstruction :
  m2scale d (m2mul H w) = J /\
  snd (uq0 w) = 0 /\ snd (uq1 w) = 0 /\ snd (uq2 w) = 0 /\ snd (uq3 w) = 0 /\
  phiUc (cofR (fst (uq0 w))) (cofR (fst (uq1 w))) (cofR (fst (uq2 w))) (cofR (fst (uq3 w))) = w /\
  fst (uq0 w) * fst (uq0 w) + fst (uq1 w) * fst (uq1 w) + fst (uq2 w) * fst (uq2 w) + fst (uq3 w) * fst (uq3 w) = 1.
Proof.
  split.
  - subst w. rewrite <- m2mul_assoc, m2inv_r by exact polar_Hnz. rewrite m2mul_id_l. exact polar_dj.
  - apply su2_quaternion_real; [ exact polar_w_unitary | exact polar_w_det ].
Qed.
End Polar.

(* a Hermitian H with non-negative determinant and H^2 = j j^dagger for unimodular j has determinant one *)
Lemma herm_det_real H : m2herm H = H -> snd (m2det H) = 0.
Proof.
  intros E. pose proof (m2det_herm H) as D. rewrite E in D.
  destruct (m2det H) as [x y]. unfold cconj in D; cbn [fst snd] in *. inversion D. lra.
Qed.
Theorem det_of_hermitian_root H j : m2herm H = H -> m2mul H H = m2mul j (m2herm j) -> m2det j = c1 ->
  0 <= fst (m2det H) -> m2det H = c1.
Proof.
  intros HH Hsq Hj Hpos. pose proof (herm_det_real H HH) as Him.
  assert (D : cmul (m2det H) (m2det H) = c1).
  { rewrite <- m2det_mul, Hsq, m2det_mul, m2det_herm, Hj. apply c_eq; spec_cbv; ring. }
  destruct (m2det H) as [x y]. cbn [fst snd] in *. subst y.
  pose proof (f_equal fst D) as D1. unfold cmul, c1 in D1; cbn [fst snd] in D1.
  assert (E : x = 1) by nra. rewrite E. reflexivity.
Qed.
