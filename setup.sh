#!/bin/sh
# setup_cmd: build the committed, source-independent Coq library (offline)
set -e
cd "$(dirname "$0")/coq"
coq_makefile -f _CoqProject -o Makefile >/dev/null
timeout 3000 make -j16
