// nothing: the preamble (sympre.h / plainpre.h) is force-included by the build
