// Driver for C05: predicted moments of dual-mode samples equal the moments of what is generated.
#include "Pauli.h"
#include "random.h"
#include "drv_common.h"
#include "drv_gauss.h"
// the polarizer of a mode is private: the instance-level ensemble moments are stated for a mode whose
// polarizer is convert (r) for an arbitrary Hermitian root quaternion r (what set_Stokes builds: C01)
#define private public
#include "mode.h"
#undef private
#include "sample.h"
#include "modulated.h"
#include "covariant.h"
using namespace symx;
using namespace epsic;

// ---- scripted uniform sources (random() for mode selection, drand48 for the coherent phase)
static symx::real_t random_script = 0;
static bool random_symbolic = false;
symx::scalar_t sym_random_scalar () { if (random_symbolic) return symx::in_at ("rnd", random_script); return symx::scalar_t (random_script); }
static symx::real_t drand_script = 0.0;
static bool drand_symbolic = false;
symx::scalar_t sym_drand48 () { if (drand_symbolic) return symx::in_at ("uphase", drand_script); return symx::scalar_t (drand_script); }


// a mode with arbitrary (symbolic) stationary per-instance statistics and scripted fields:
// covariance c * P, cross-covariance x[l] * P, P a fixed pattern matrix P[i][j] = p0 + pi*i + pj*j
struct stub_mode : public mode
{
  Matrix<4,4,double> P; double c; std::vector<double> x; Stokes<double> mu; unsigned calls;
  std::vector< Spinor<double> > fields;
  stub_mode (int p0, int pi, int pj) : calls (0) { for (unsigned i=0; i<4; i++) for (unsigned j=0; j<4; j++) P[i][j] = double (p0 + pi*int (i) + pj*int (j)); }
  Matrix<4,4,double> get_covariance () const { Matrix<4,4,double> r = P; r *= c; return r; }
  Matrix<4,4,double> get_crosscovariance (unsigned l) const { Matrix<4,4,double> r = P; r *= x.at (l); return r; }
  Stokes<double> get_mean () const { return mu; }
  Spinor<double> get_field () { return fields.at (calls ++); }
};
static void fill_stub (stub_mode* m, const std::string& tag, unsigned maxlag)
{
  m->mu = stokes_in (tag + "m");
  m->c = in ((tag + "c").c_str ());
  for (unsigned l=0; l<=maxlag; l++) m->x.push_back (in (nm (tag + "x", l).c_str ()));
}
static void fill_fields (stub_mode* m, const std::string& tag, unsigned count)
{
  for (unsigned k=0; k<count; k++) { std::complex<double> a = complex_in (nm (tag + "x", k)), b = complex_in (nm (tag + "y", k)); m->fields.push_back (Spinor<double> (a, b)); }
}

#ifndef SYMX_SYMBOLIC
// ---------------------------------------------------------------------------------------------
// exact ensemble moments by cubature over the injected deviates: a fully symmetric rule of degree 5
// for the standard normal weight in N dimensions with generators (1), (2), (2,2) -- every node is
// exactly representable in single precision (BoxMuller::evaluate returns float) -- so that the mean
// and the second moments of a sample (polynomials of degree 2 and 4 in the deviates) are integrated
// exactly up to binary64 rounding.
//   weights: w_(2,2) = 1/64, w_(2) = (11 - 3N)/96, w_(1) = 1/6, w_0 = 1 - 2N (w_1 + w_2) - 2N(N-1) w_22
template<class F> static void cubature5 (unsigned N, F f)
{
  const double w22 = 1.0/64, w2 = (11.0 - 3.0*N)/96, w1 = 1.0/6, w0 = 1.0 - 2.0*N*(w1 + w2) - 2.0*N*(N - 1.0)*w22;
  std::vector<double> g (N, 0.0);
  f (g, w0);
  for (unsigned i=0; i<N; i++) for (int s=-1; s<=1; s+=2) { g[i] = s; f (g, w1); g[i] = 2*s; f (g, w2); g[i] = 0; }
  for (unsigned i=0; i<N; i++) for (unsigned j=i+1; j<N; j++) for (int si=-1; si<=1; si+=2) for (int sj=-1; sj<=1; sj+=2)
    { g[i] = 2*si; g[j] = 2*sj; f (g, w22); g[i] = g[j] = 0; }
}
// ---- scripted discrete sources for modulation factors: every draw picks one outcome of a finite table
struct draw_table { std::vector<double> prob; };
static std::vector<draw_table> draw_tables;      // recorded during the dry run, one per draw
static std::vector<unsigned> draw_script; static unsigned draw_pos = 0; static bool draw_dry = false;
static unsigned draw (const std::vector<double>& prob)
{
  if (draw_dry) { draw_table t; t.prob = prob; draw_tables.push_back (t); draw_pos ++; return 0; }
  return draw_script.at (draw_pos ++);
}
// an i.i.d. two-point modulation 1 -+ d (mean 1, variance d^2)
struct twopoint_mode : public modulated_mode
{
  double d;
  twopoint_mode (mode* s, double _d) : modulated_mode (s), d (_d) { }
  double modulation () { unsigned k = draw ({ 0.5, 0.5 }); return k ? 1 + d : 1 - d; }
  double get_mod_mean () const { return 1.0; }
  double get_mod_variance () const { return d*d; }
};
// a pair of two-point modulations with correlation rho, through the library's covariant_coordinator
struct twopoint_pair : public covariant_coordinator
{
  double d[2];
  twopoint_pair (double rho, double dA, double dB) : covariant_coordinator (rho) { d[0] = dA; d[1] = dB; }
  void get_modulation (double& A, double& B)
  { double r = get_correlation (); unsigned k = draw ({ (1+r)/4, (1-r)/4, (1-r)/4, (1+r)/4 });
    A = (k & 1) ? 1 + d[0] : 1 - d[0]; B = (k & 2) ? 1 + d[1] : 1 - d[1]; }
  double get_mod_mean (unsigned) const { return 1.0; }
  double get_mod_variance (unsigned i) const { return d[i]*d[i]; }
};

enum kind { SUPERPOSED, COMPOSITE, DISJOINT, COHERENT };
static const char* kind_name[] = { "superposed", "composite", "disjoint", "coherent" };
enum modulation_kind { NONE, PAIR, BOXCAR, SQUARE };
struct config { kind k; double sa[4], sb[4]; double f; unsigned n; double coherence;
  modulation_kind mk; double dA, dB, rho; unsigned width; unsigned lag; unsigned skip;
  config () { f = 0.5; n = 1; coherence = 0; mk = NONE; dA = dB = rho = 0; width = 1; lag = 0; skip = 0; k = SUPERPOSED; } };
struct built { combination* s; covariant_coordinator* co; built () : s (0), co (0) { } };
static built make (const config& c, BoxMuller* g)
{
  built r; combination* s = 0;
  switch (c.k) { case SUPERPOSED: s = new superposed; break; case COMPOSITE: s = new composite (c.f); break;
                 case DISJOINT: s = new disjoint (c.f); break; case COHERENT: s = new coherent (c.coherence); break; }
  s->sample_size = c.n;
  s->A->set_Stokes (Stokes<double> (c.sa[0], c.sa[1], c.sa[2], c.sa[3]));
  s->B->set_Stokes (Stokes<double> (c.sb[0], c.sb[1], c.sb[2], c.sb[3]));
  if (c.mk == PAIR) { twopoint_pair* co = new twopoint_pair (c.rho, c.dA, c.dB); r.co = co;
    s->A = co->get_modulated_mode (0, s->A); s->B = co->get_modulated_mode (1, s->B);
    s->set_intensity_covariance (co->get_intensity_covariance ()); }
  if (c.mk == BOXCAR) { if (c.dA > 0) s->A = new boxcar_modulated_mode (new twopoint_mode (s->A, c.dA), c.width);
                        if (c.dB > 0) s->B = new boxcar_modulated_mode (new twopoint_mode (s->B, c.dB), c.width); }
  if (c.mk == SQUARE) { if (c.dA > 0) s->A = new square_modulated_mode (new twopoint_mode (s->A, c.dA), c.width, c.n);
                        if (c.dB > 0) s->B = new square_modulated_mode (new twopoint_mode (s->B, c.dB), c.width, c.n); }
  s->set_normal (g);
  r.s = s; return r;
}
struct moments2 { double m0[4], m1[4]; double mm[4][4]; double wsum;    // first sample, sample at the requested lag, their cross moments
  moments2 () { wsum = 0; for (int i=0; i<4; i++) { m0[i] = m1[i] = 0; for (int j=0; j<4; j++) mm[i][j] = 0; } }
  void add (double w, const Stokes<double>& S0, const Stokes<double>& S1) { wsum += w; for (int i=0; i<4; i++) { m0[i] += w*S0[i]; m1[i] += w*S1[i]; for (int j=0; j<4; j++) mm[i][j] += w*S0[i]*S1[j]; } }
  void add (double w, const moments2& o) { wsum += w*o.wsum; for (int i=0; i<4; i++) { m0[i] += w*o.m0[i]; m1[i] += w*o.m1[i]; for (int j=0; j<4; j++) mm[i][j] += w*o.mm[i][j]; } }
  double cov (int i, int j) const { return mm[i][j] - m0[i]*m1[j]; } };

// one realisation: the first sample and the sample `lag` later, for the scripted sources as they stand
static void realise (const config& c, BoxMuller* g, const std::vector<double>& rnd, Stokes<double>& S0, Stokes<double>& S1)
{
  built b = make (c, g); sample* sp = b.s;
  unsigned ir = 0;
  for (unsigned k=0; k<c.skip; k++) { random_script = rnd.at (0); sp->get_Stokes (); }     // samples generated (and discarded) before the observed one
  random_script = rnd.at (ir ++); S0 = sp->get_Stokes (); S1 = S0;
  for (unsigned l=0; l<c.lag; l++) { random_script = rnd.at (ir ++); S1 = sp->get_Stokes (); }
  // release everything the realisation allocated (hundreds of thousands of realisations per configuration)
  mode* ends[2] = { b.s->A, b.s->B }; delete b.s;
  for (mode* m : ends) while (m) { mode_decorator* d = dynamic_cast<mode_decorator*> (m); mode* inner = d ? d->get_source () : 0;
    if (boxcar_modulated_mode* bx = dynamic_cast<boxcar_modulated_mode*> (m)) (void) bx;
    delete m; m = inner; }
  delete b.co;
}
// expectation over the Gaussian deviates and the modulation draws, for fixed uniform draws
static moments2 inner_moments (const config& c, BoxMuller* g, const std::vector<double>& rnd)
{
  Stokes<double> S0, S1;
  gauss_reset (); gauss_queue.assign (8192, 0.0); draw_dry = true; draw_tables.clear (); draw_pos = 0;
  realise (c, g, rnd, S0, S1);
  unsigned N = gauss_qpos; draw_dry = false; std::vector<draw_table> tables = draw_tables;
  moments2 M;
  std::vector<unsigned> idx (tables.size (), 0);
  while (true) {
    double wd = 1; for (unsigned t=0; t<tables.size (); t++) wd *= tables[t].prob[idx[t]];
    if (wd != 0) cubature5 (N, [&] (const std::vector<double>& dev, double w) {
      gauss_reset (); gauss_queue.assign (dev.begin (), dev.end ()); draw_script = idx; draw_pos = 0;
      realise (c, g, rnd, S0, S1); M.add (w * wd, S0, S1); });
    unsigned t = 0; while (t < idx.size ()) { if (++ idx[t] < tables[t].prob.size ()) break; idx[t] = 0; t ++; }
    if (t == idx.size ()) break;
  }
  return M;
}
static moments2 ensemble (const config& c, BoxMuller* g)
{
  moments2 M;
  if (c.k == DISJOINT) {
    // random_double () = random () / RAND_MAX < f: the number of values of random () in [0, 2^31) that select mode A
    double kf = c.f * double (RAND_MAX); double cnt = std::ceil (kf); if (cnt < 0) cnt = 0; if (cnt > 2147483648.0) cnt = 2147483648.0;
    double pA = cnt / 2147483648.0;
    unsigned nsel = c.lag + 1;
    for (unsigned mask=0; mask < (1u << nsel); mask++) { double w = 1; std::vector<double> rnd;
      for (unsigned t=0; t<nsel; t++) { bool selA = mask & (1u << t); w *= selA ? pA : 1 - pA; rnd.push_back (selA ? 0 : RAND_MAX); }
      if (w != 0) M.add (w, inner_moments (c, g, rnd)); }
  } else if (c.k == COHERENT) {
    const unsigned K = 8;     // the phase is drawn once per sample: lag 0 only
    for (unsigned k=0; k<K; k++) { drand_script = double (k) / K; M.add (1.0 / K, inner_moments (c, g, std::vector<double> (c.lag + 1, 0.0))); }
  } else M = inner_moments (c, g, std::vector<double> (c.lag + 1, 0.0));
  return M;
}
static std::string describe (const config& c)
{
  char b[400]; const char* mkn[] = { "unmodulated", "two-point pair", "boxcar", "square" };
  snprintf (b, 400, "%s A=(%g,%g,%g,%g) B=(%g,%g,%g,%g) f=%g n=%u coh=%g modulation=%s dA=%g dB=%g rho=%g width=%u lag=%u after %u earlier sample(s)", kind_name[c.k], c.sa[0], c.sa[1], c.sa[2], c.sa[3],
            c.sb[0], c.sb[1], c.sb[2], c.sb[3], c.f, c.n, c.coherence, mkn[c.mk], c.dA, c.dB, c.rho, c.width, c.lag, c.skip);
  return b;
}
static void compare (const config& c, BoxMuller* g, bool mean_only = false, double tol = 1e-9)
{
  moments2 M = ensemble (c, g);
  built b = make (c, g); sample* sp = b.s;
  Vector<4,double> pm = sp->get_mean (); Matrix<4,4,double> pc = c.lag ? sp->get_crosscovariance (c.lag) : sp->get_covariance ();
  Matrix<4,4,double> x0 = sp->get_crosscovariance (0), c0 = sp->get_covariance ();
  double scale = (c.sa[0] + c.sb[0]); if (scale < 1e-300) scale = 1;
  std::string d = describe (c); char what[64];
  for (int i=0; i<4; i++) {
    snprintf (what, 64, ": predicted mean[%d]", i);
    expect_true (d + what + " is finite", std::isfinite (pm[i]));
    expect_true (d + what + " = ensemble mean", std::fabs (pm[i] - M.m0[i]) <= tol * scale && std::fabs (pm[i] - M.m1[i]) <= tol * scale);
    if (!mean_only) for (int j=0; j<4; j++) {
      snprintf (what, 64, ": predicted %scovariance[%d][%d]", c.lag ? "cross-" : "", i, j);
      expect_true (d + what + " is finite", std::isfinite (pc[i][j]));
      expect_true (d + what + " = ensemble value", std::fabs (pc[i][j] - M.cov (i, j)) <= tol * scale * scale);
      if (!c.lag) expect_true (d + what + " = cross-covariance at lag 0", x0[i][j] == c0[i][j]); }
  }
  delete b.s;
}
#endif

int main (int argc, char** argv)
{
  symx::init ("C05", argc > 1 ? argv[1] : ".");
  BoxMuller gasdev;


  // one superposed instance from two real modes with Hermitian root quaternions ra, rb and the eight deviates it consumes
  fn ("sup_instance", [&] { gauss_reset ();
    Quaternion<double,Hermitian> ra = quat_in<Hermitian> ("ra"), rb = quat_in<Hermitian> ("rb");
    gauss_preload (8);
    superposed* s = new superposed; s->sample_size = 1; s->set_normal (&gasdev);
    s->A->polarizer = convert (ra); s->B->polarizer = convert (rb);
    sample* sp = s; out_vec ("st", sp->get_Stokes ()); out_int ("deviates", gauss_count);
  }, 2);
  // ---- predictions on stub modes with symbolic statistics: per-instance covariance c * P, cross-covariance x[l] * P
  for (unsigned n=1; n<=3; n++) {
    fn (nm ("pred_sup_n", n), [n] {
      superposed* s = new superposed; s->sample_size = n; delete s->A; delete s->B;
      stub_mode* a = new stub_mode (1, 4, 1); stub_mode* b = new stub_mode (2, 1, 3); s->A = a; s->B = b;
      fill_stub (a, "a", n); fill_stub (b, "b", n); double ic = in ("ic", 0.1, 0.9); s->set_intensity_covariance (ic);
      sample* sp = s; out_vec ("mean", sp->get_mean ()); out_mat ("cov", sp->get_covariance ()); out_mat ("x0", sp->get_crosscovariance (0));
    }, 2);
    fn (nm ("pred_dis_n", n), [n] {
      double f = in ("f", 0.1, 0.9);
      disjoint* s = new disjoint (f); s->sample_size = n; delete s->A; delete s->B;
      stub_mode* a = new stub_mode (1, 4, 1); stub_mode* b = new stub_mode (2, 1, 3); s->A = a; s->B = b;
      fill_stub (a, "a", 2*n); fill_stub (b, "b", 2*n);
      sample* sp = s; out_vec ("mean", sp->get_mean ()); out_mat ("cov", sp->get_covariance ()); out_mat ("x0", sp->get_crosscovariance (0)); out_mat ("x1", sp->get_crosscovariance (1));
    }, 2);
  }
  { const unsigned pairs[][2] = { {1,0}, {1,1}, {2,0}, {2,1}, {2,2}, {3,1}, {3,2}, {4,2} };
    for (auto& pr : pairs) { unsigned n = pr[0], na = pr[1];
      fn ("pred_comp_n" + std::to_string (n) + "_a" + std::to_string (na), [n, na] {
        double f = in_at ("f", na == n ? 1.0 : (na + 0.5) / n);
        composite* s = new composite (f); s->sample_size = n; delete s->A; delete s->B;
        stub_mode* a = new stub_mode (1, 4, 1); stub_mode* b = new stub_mode (2, 1, 3); s->A = a; s->B = b;
        fill_stub (a, "a", n); fill_stub (b, "b", n); double ic = in ("ic", 0.1, 0.9); s->set_intensity_covariance (ic);
        sample* sp = s; out_vec ("mean", sp->get_mean ()); out_mat ("cov", sp->get_covariance ()); out_mat ("x0", sp->get_crosscovariance (0));
      }, 1);
      // the generator: exactly na instances of A and n - na of B enter the sample, drawn in lock-step
      fn ("gen_comp_n" + std::to_string (n) + "_a" + std::to_string (na), [n, na] {
        double f = in_at ("f", na == n ? 1.0 : (na + 0.5) / n);
        composite* s = new composite (f); s->sample_size = n; delete s->A; delete s->B;
        stub_mode* a = new stub_mode (1, 4, 1); stub_mode* b = new stub_mode (2, 1, 3); s->A = a; s->B = b;
        fill_fields (a, "ea", n + 1); fill_fields (b, "eb", n + 1);
        sample* sp = s; Stokes<double> got = sp->get_Stokes ();
        out_vec ("g", got); out_int ("calls_a", a->calls); out_int ("calls_b", b->calls);
        Stokes<double> want;
        for (unsigned k=0; k<na; k++) { Vector<4,double> t; compute_stokes (t, a->fields[k]); for (unsigned i=0; i<4; i++) want[i] += t[i]; }
        for (unsigned k=0; k<n-na; k++) { Vector<4,double> t; compute_stokes (t, b->fields[k]); for (unsigned i=0; i<4; i++) want[i] += t[i]; }
        for (unsigned i=0; i<4; i++) want[i] = want[i] / double (n);
        out_vec ("w", want); out_int ("wcalls_a", std::max (na, n - na)); out_int ("wcalls_b", std::max (na, n - na));
        if (!symbolic) { expect ("composite: get_field calls of A", a->calls, std::max (na, n - na)); expect ("composite: get_field calls of B", b->calls, std::max (na, n - na));
          for (unsigned i=0; i<4; i++) expect ("composite sample = (sum of na instances of A + n - na instances of B)/n", got[i], want[i]); }
      }, 1);
    } }
  for (unsigned n=1; n<=2; n++)
    fn (nm ("gen_sup_n", n), [n] {
      superposed* s = new superposed; s->sample_size = n; delete s->A; delete s->B;
      stub_mode* a = new stub_mode (1, 4, 1); stub_mode* b = new stub_mode (2, 1, 3); s->A = a; s->B = b;
      fill_fields (a, "ea", n + 1); fill_fields (b, "eb", n + 1);
      sample* sp = s; Stokes<double> got = sp->get_Stokes ();
      out_vec ("g", got); out_int ("calls_a", a->calls); out_int ("calls_b", b->calls);
      Stokes<double> want;
      for (unsigned k=0; k<n; k++) { Vector<4,double> t; compute_stokes (t, a->fields[k] + b->fields[k]); for (unsigned i=0; i<4; i++) want[i] += t[i]; }
      for (unsigned i=0; i<4; i++) want[i] = want[i] / double (n);
      out_vec ("w", want); out_int ("wcalls_a", n); out_int ("wcalls_b", n);
      if (!symbolic) { expect ("superposed: get_field calls of A", a->calls, n); for (unsigned i=0; i<4; i++) expect ("superposed sample = mean of the Stokes parameters of the summed fields", got[i], want[i]); }
    }, 2);
  // disjoint: the whole sample comes from A when random () / RAND_MAX < f, from B otherwise
  random_symbolic = true;
  fn_paths ("gen_dis_n2", [] {
    double f = in ("f", 0.1, 0.9); random_script = 1000.0;
    disjoint* s = new disjoint (f); s->sample_size = 2; delete s->A; delete s->B;
    stub_mode* a = new stub_mode (1, 4, 1); stub_mode* b = new stub_mode (2, 1, 3); s->A = a; s->B = b;
    fill_fields (a, "ea", 2); fill_fields (b, "eb", 2);
    sample* sp = s; Stokes<double> got = sp->get_Stokes ();
    out_vec ("g", got); out_int ("calls_a", a->calls); out_int ("calls_b", b->calls);
    for (int m=0; m<2; m++) { stub_mode* e = m ? b : a; Stokes<double> want;
      for (unsigned k=0; k<2; k++) { Vector<4,double> t; compute_stokes (t, e->fields[k]); for (unsigned i=0; i<4; i++) want[i] += t[i]; }
      for (unsigned i=0; i<4; i++) want[i] = want[i] / 2.0;
      out_vec (m ? "wb" : "wa", want); }
  });
  fn ("gen_dis_run", [] {
    double f = in ("f", 0.1, 0.9); random_script = 1000.0 + 2147483647.0 * in_at ("zero", 0.0);
    disjoint* s = new disjoint (f); s->sample_size = 2; delete s->A; delete s->B;
    stub_mode* a = new stub_mode (1, 4, 1); stub_mode* b = new stub_mode (2, 1, 3); s->A = a; s->B = b;
    fill_fields (a, "ea", 2); fill_fields (b, "eb", 2);
    sample* sp = s; out_vec ("g", sp->get_Stokes ()); out_int ("calls_a", a->calls); out_int ("calls_b", b->calls);
  }, 2);
  random_symbolic = false;

#ifndef SYMX_SYMBOLIC
  fn ("cubature_selftest_plain", [&] {   // the rule integrates the monomials of degree <= 5 exactly
    for (unsigned N : { 1u, 2u, 8u, 16u, 24u }) { double one = 0, x2 = 0, x4 = 0, x2y2 = 0, x3y = 0, x = 0;
      cubature5 (N, [&] (const std::vector<double>& g, double w) { one += w; x += w*g[0]; x2 += w*g[0]*g[0]; x4 += w*g[0]*g[0]*g[0]*g[0];
        if (N > 1) { x2y2 += w*g[0]*g[0]*g[N-1]*g[N-1]; x3y += w*g[0]*g[0]*g[0]*g[N-1]; } });
      expect ("cubature: E[1]", one, 1.0); expect ("cubature: E[x]", x, 0.0); expect ("cubature: E[x^2]", x2, 1.0); expect ("cubature: E[x^4]", x4, 3.0);
      if (N > 1) { expect ("cubature: E[x^2 y^2]", x2y2, 1.0); expect ("cubature: E[x^3 y]", x3y, 0.0); } } }, 1);

  fn ("dual_exact_plain", [&] {
    const double st[][4] = { {1,0,0,0}, {1,0.3,-0.2,0.4}, {2,1,1,-1}, {1,0.6,0,0.8}, {3,-1,2,2}, {0.5,0.1,0.2,-0.3} };
    const int ns = 6;
    for (int ia=0; ia<ns; ia++) for (int ib=0; ib<ns; ib++) { if ((ia*7 + ib*3) % 4 != 0 && ia != ib) continue;
      for (unsigned n=1; n<=3; n++) {
        config c; c.n = n; for (int i=0; i<4; i++) { c.sa[i] = st[ia][i]; c.sb[i] = st[ib][i]; }
        c.k = SUPERPOSED; compare (c, &gasdev);
        for (double f : { 0.0, 0.2, 0.5, 0.7, 1.0 }) { c.f = f; c.k = COMPOSITE; compare (c, &gasdev); c.k = DISJOINT; compare (c, &gasdev, false, 1e-8); }
      } } }, 1);
  // covariant modulation factors (intensity covariance) and modulation with memory; lagged cross-covariance
  fn ("dual_modulated_exact_plain", [&] {
    const double st[][4] = { {1,0.3,-0.2,0.4}, {2,1,1,-1}, {1,0.6,0,0.8} };
    for (int ia=0; ia<3; ia++) for (int ib=0; ib<3; ib++) for (unsigned n=1; n<=2; n++) for (double rho : { 0.0, 0.6, -1.0 }) {
      config c; c.n = n; for (int i=0; i<4; i++) { c.sa[i] = st[ia][i]; c.sb[i] = st[ib][i]; }
      c.mk = PAIR; c.dA = 0.5; c.dB = 0.25; c.rho = rho;
      c.k = SUPERPOSED; compare (c, &gasdev);
      for (double f : { 0.0, 0.5, 0.7, 1.0 }) { c.f = f; c.k = COMPOSITE; compare (c, &gasdev); c.k = DISJOINT; compare (c, &gasdev, false, 1e-8); } } }, 1);
  // the statistics of a sample do not depend on how many samples the same object produced before it (the covariant
  // factors of the two modes stay paired from sample to sample): the second sample of one object, unequal counts
  fn ("dual_later_sample_exact_plain", [&] {
    const double st[][4] = { {1,0.3,-0.2,0.4}, {2,1,1,-1} };
    for (double f : { 0.25, 0.7 }) { config c; c.k = COMPOSITE; c.n = 3; c.f = f; c.skip = 1; for (int i=0; i<4; i++) { c.sa[i] = st[0][i]; c.sb[i] = st[1][i]; }
      c.mk = PAIR; c.dA = 0.5; c.dB = 0.25; c.rho = 0.6; compare (c, &gasdev); }
    { config c; c.k = SUPERPOSED; c.n = 2; c.skip = 1; for (int i=0; i<4; i++) { c.sa[i] = st[0][i]; c.sb[i] = st[1][i]; } c.mk = PAIR; c.dA = 0.5; c.dB = 0.25; c.rho = -0.5; compare (c, &gasdev); }
  }, 1);
  fn ("dual_lagged_exact_plain", [&] {
    const double st[][4] = { {1,0.3,-0.2,0.4}, {2,1,1,-1} };
    for (unsigned n=1; n<=2; n++) for (unsigned lag=0; lag<=1; lag++) for (int mk=0; mk<3; mk++) {
      config c; c.n = n; c.lag = lag; for (int i=0; i<4; i++) { c.sa[i] = st[0][i]; c.sb[i] = st[1][i]; }
      c.mk = mk == 0 ? NONE : (mk == 1 ? BOXCAR : SQUARE); c.dA = 0.5; c.dB = mk ? 0.25 : 0; c.width = 2;
      if (c.mk == SQUARE && lag) continue;      // lag statistics of the square-wave modulation are C07's subject (known finding there)
      c.k = SUPERPOSED; compare (c, &gasdev);
      for (double f : { 0.5, 1.0 }) { c.f = f; c.k = DISJOINT; compare (c, &gasdev, false, 1e-8);
        if (c.mk == BOXCAR && lag) continue;    // composite with memory at lag >= 1: composite_lagged_plain (known finding)
        c.k = COMPOSITE; compare (c, &gasdev); } } }, 1);
  // known finding: composite inherits combination::get_crosscovariance, which ignores the mixing fraction and the lock-step stride
  fn ("composite_lagged_plain", [&] {
    const double st[][4] = { {1,0.3,-0.2,0.4}, {2,1,1,-1} };
    for (unsigned n=1; n<=2; n++) for (double f : { 0.5, 1.0 }) {
      config c; c.n = n; c.lag = 1; c.k = COMPOSITE; c.f = f; for (int i=0; i<4; i++) { c.sa[i] = st[0][i]; c.sb[i] = st[1][i]; }
      c.mk = BOXCAR; c.dA = 0.5; c.dB = 0.25; c.width = 2; compare (c, &gasdev); } }, 1);
  // known finding: disjoint at lag >= 2 -- a mode's instance stream only advances when that mode is selected
  fn ("disjoint_lag2_plain", [&] {
    const double st[][4] = { {1,0.3,-0.2,0.4}, {2,1,1,-1} };
    config c; c.n = 1; c.lag = 2; c.k = DISJOINT; c.f = 0.5; for (int i=0; i<4; i++) { c.sa[i] = st[0][i]; c.sb[i] = st[1][i]; }
    c.mk = BOXCAR; c.dA = 0.5; c.dB = 0.25; c.width = 3; compare (c, &gasdev, false, 1e-8); }, 1);
  // sizes beyond the grid at which predictions and generators are tied symbolically (n <= 3 / 4): the closed forms of
  // DualModel evaluated in binary64 against the code, on stub modes with pseudo-random statistics and fields
  fn ("dual_large_plain", [&] {
    uint64_t st = 7; auto rnd = [&st] () { st = st * 6364136223846793005ULL + 1442695040888963407ULL; return double ((st >> 33) % 2000001) / 1e6 - 1.0; };
    auto covn = [] (const stub_mode* m, unsigned n) { double sum = 0; for (unsigned i=0; i<n; i++) for (unsigned j=0; j<n; j++) { unsigned l = i > j ? i - j : j - i; sum += l ? m->x[l] : m->c; } return n ? sum / (double (n) * n) : 0.0; };
    auto xcovn = [] (const stub_mode* m, unsigned n, unsigned L) { double sum = 0; for (unsigned i=0; i<n; i++) for (unsigned j=0; j<n; j++) { long l = long (L*n + i) - long (j); if (l < 0) l = -l; sum += m->x[l]; } return sum / (double (n) * n); };
    for (unsigned n : { 4u, 5u, 8u, 17u, 50u, 128u }) for (double f : { 0.0, 0.1, 0.37, 0.5, 0.93, 1.0 }) for (int kd=0; kd<3; kd++) {
      stub_mode* a = new stub_mode (1, 4, 1); stub_mode* b = new stub_mode (2, 1, 3);
      for (stub_mode* m : { a, b }) { m->mu = Stokes<double> (2 + rnd (), rnd (), rnd (), rnd ()); m->c = 1 + rnd (); for (unsigned l=0; l<=2*n+2; l++) m->x.push_back (rnd () / (1.0 + l));
        for (unsigned k=0; k<n+2; k++) m->fields.push_back (Spinor<double> (std::complex<double> (rnd (), rnd ()), std::complex<double> (rnd (), rnd ()))); }
      double ic = 0.3 * rnd (); combination* s = 0; const char* kn = kd == 0 ? "superposed" : (kd == 1 ? "composite" : "disjoint");
      if (kd == 0) s = new superposed; else if (kd == 1) s = new composite (f); else s = new disjoint (f);
      s->sample_size = n; delete s->A; delete s->B; s->A = a; s->B = b; s->set_intensity_covariance (ic);
      sample* sp = s; Vector<4,double> pm = sp->get_mean (); Matrix<4,4,double> pc = sp->get_covariance (), px = sp->get_crosscovariance (1);
      unsigned na = unsigned (f * n), nb = n - na; double fa = na / double (n), fb = nb / double (n); char what[200];
      for (unsigned i=0; i<4; i++) { double wm = kd == 0 ? a->mu[i] + b->mu[i] : (kd == 1 ? (na * a->mu[i] + nb * b->mu[i]) / n : f * a->mu[i] + (1 - f) * b->mu[i]);
        snprintf (what, 200, "%s n = %u f = %g: predicted mean", kn, n, f); expect (what, pm[i], wm, 1e-12);
        for (unsigned j=0; j<4; j++) { double wc, wx; double ab = a->mu[i]*b->mu[j], ba = a->mu[j]*b->mu[i];
          if (kd == 0) { double mij = ab - 0.5 * (i == j ? (i == 0 ? 1.0 : -1.0) : 0.0) * (a->mu[0]*b->mu[0] - a->mu[1]*b->mu[1] - a->mu[2]*b->mu[2] - a->mu[3]*b->mu[3]);
                         double mji = ba - 0.5 * (i == j ? (i == 0 ? 1.0 : -1.0) : 0.0) * (a->mu[0]*b->mu[0] - a->mu[1]*b->mu[1] - a->mu[2]*b->mu[2] - a->mu[3]*b->mu[3]);
                         wc = a->P[i][j]*covn (a, n) + b->P[i][j]*covn (b, n) + (1 + ic) / n * (mij + mji) + ic / n * (ab + ba);
                         wx = a->P[i][j]*xcovn (a, n, 1) + b->P[i][j]*xcovn (b, n, 1); }
          else if (kd == 1) { wc = fa*fa*a->P[i][j]*covn (a, na) + fb*fb*b->P[i][j]*covn (b, nb) + std::min (fa, fb) * ic / n * (ab + ba); wx = px[i][j]; /* lagged composite: known finding */ }
          else { wc = f*a->P[i][j]*covn (a, n) + (1 - f)*b->P[i][j]*covn (b, n) + f*(1 - f)*(a->mu[i] - b->mu[i])*(a->mu[j] - b->mu[j]);
                 wx = f*f*a->P[i][j]*xcovn (a, n, 1) + (1 - f)*(1 - f)*b->P[i][j]*xcovn (b, n, 1); }
          snprintf (what, 200, "%s n = %u f = %g: predicted covariance", kn, n, f); expect (what, pc[i][j], wc, 1e-12);
          snprintf (what, 200, "%s n = %u f = %g: predicted lag-1 cross-covariance", kn, n, f); expect (what, px[i][j], wx, 1e-12); } }
      // the generator: instances consumed per mode and the sample itself
      random_script = 0.0; Stokes<double> got = sp->get_Stokes (); Stokes<double> want; unsigned wa, wb;
      if (kd == 0) { wa = wb = n; for (unsigned k=0; k<n; k++) { Vector<4,double> t; compute_stokes (t, a->fields[k] + b->fields[k]); for (unsigned i=0; i<4; i++) want[i] += t[i]; } }
      else if (kd == 1) { wa = wb = std::max (na, nb); for (unsigned k=0; k<na; k++) { Vector<4,double> t; compute_stokes (t, a->fields[k]); for (unsigned i=0; i<4; i++) want[i] += t[i]; }
                          for (unsigned k=0; k<nb; k++) { Vector<4,double> t; compute_stokes (t, b->fields[k]); for (unsigned i=0; i<4; i++) want[i] += t[i]; } }
      else { bool selA = 0.0 < f; wa = selA ? n : 0; wb = selA ? 0 : n; stub_mode* e = selA ? a : b;
             for (unsigned k=0; k<n; k++) { Vector<4,double> t; compute_stokes (t, e->fields[k]); for (unsigned i=0; i<4; i++) want[i] += t[i]; } }
      snprintf (what, 200, "%s n = %u f = %g: instances of A consumed", kn, n, f); expect (what, a->calls, wa);
      snprintf (what, 200, "%s n = %u f = %g: instances of B consumed", kn, n, f); expect (what, b->calls, wb);
      snprintf (what, 200, "%s n = %u f = %g: the sample is the mean of the instances the prediction assumes", kn, n, f);
      for (unsigned i=0; i<4; i++) expect (what, got[i], want[i] / double (n), 1e-12);
    } }, 1);
  // coherent: the mean for 100% polarized modes at every coherence, the covariance at zero coherence
  fn ("coherent_exact_plain", [&] {
    const double st[][4] = { {1,0.6,0,0.8}, {1,1,0,0}, {3,-1,2,2}, {2,0,-2,0}, {1,0,0,-1} };
    for (int ia=0; ia<5; ia++) for (int ib=0; ib<5; ib++) for (unsigned n=1; n<=2; n++) for (double coh : { 0.0, 0.3, 0.9, 1.0 }) {
      config c; c.k = COHERENT; c.n = n; c.coherence = coh; for (int i=0; i<4; i++) { c.sa[i] = st[ia][i]; c.sb[i] = st[ib][i]; }
      compare (c, &gasdev, coh != 0.0); } }, 1);
#endif
  symx::finish ();
  return 0;
}
