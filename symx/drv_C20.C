// Driver for C20: the container logic of the finiteness predicate -- a container is finite exactly
// when every stored component is; an estimate exactly when its value is.  (The scalar predicate is a
// decision of the symbolic scalar; its bit-level meaning and the compiler flags are the subject of
// the correspondence harness/corr_C20.py.)
#include "Jones.h"
#include "Vector.h"
#include "Estimate.h"
#include "complex_math.h"
#include "drv_common.h"
using namespace symx;
int main (int argc, char** argv)
{
  symx::init ("C20", argc > 1 ? argv[1] : ".");
  fn_paths ("fin_complex", [] { std::complex<double> z = complex_in ("z"); out_int ("f", true_math::finite (z) ? 1 : 0); });
  fn_paths ("fin_vector", [] { Vector<3,double> v; for (unsigned i=0; i<3; i++) v[i] = in (nm ("v", i).c_str()); out_int ("f", true_math::finite (v) ? 1 : 0); });
  fn_paths ("fin_jones", [] { Jones<double> j = jones_in ("j"); out_int ("f", true_math::finite (j) ? 1 : 0); }, 10, 64);
  fn_paths ("fin_estimate", [] { double v = in ("val"), s = in ("var", 0.1, 1); Estimate<double> e (v, s); out_int ("f", finite (e) ? 1 : 0); });
  symx::finish ();
  return 0;
}
