// Driver for C06: sample-mean statistics from per-instance (cross-)covariances.
#include "sample.h"
#include "modulated.h"
#include "Pauli.h"
#include "drv_common.h"
#include "drv_gauss.h"

using namespace symx;
using namespace epsic;

// a mode with arbitrary (symbolic) stationary per-instance statistics:
// covariance c * P and cross-covariance x[l] * P, P a fixed pattern matrix
struct stub_mode : public mode
{
  Matrix<4,4,double> P; double c; std::vector<double> x; Stokes<double> mu; unsigned calls;
  std::vector< Spinor<double> > fields;
  stub_mode () : calls (0) { for (unsigned i=0; i<4; i++) for (unsigned j=0; j<4; j++) P[i][j] = 1.0 + 4*i + j; }
  Matrix<4,4,double> get_covariance () const { Matrix<4,4,double> r = P; r *= c; return r; }
  Matrix<4,4,double> get_crosscovariance (unsigned l) const { Matrix<4,4,double> r = P; r *= x.at (l); return r; }
  Stokes<double> get_mean () const { return mu; }
  Spinor<double> get_field () { return fields.at (calls ++); }
};

static void fill_stub (stub_mode* m, unsigned maxlag)
{
  m->c = in ("c");
  for (unsigned l=0; l<=maxlag; l++) m->x.push_back (in (nm ("x", l).c_str()));
}

int main (int argc, char** argv)
{
  symx::init ("C06", argc > 1 ? argv[1] : ".");
  const char* tier = getenv ("VERIF_TIER");
  unsigned nmax = (tier && std::string (tier) == "thorough") ? 10 : 6;

  // predicted covariance of the mean of n instances, n = 1..nmax
  for (unsigned n=1; n<=nmax; n++)
    fn (nm ("cov_n", n), [n] {
      stub_mode* m = new stub_mode; fill_stub (m, n);
      single s (m); s.sample_size = n;
      Matrix<4,4,double> C = s.get_covariance ();
      out_mat ("m", C);
      if (!symbolic) { double sum = 0; for (unsigned i=0; i<n; i++) for (unsigned j=0; j<n; j++) { unsigned l = i > j ? i - j : j - i; sum += (l == 0) ? m->c : m->x[l]; }
        expect ("predicted covariance of the sample mean = double sum of per-instance (cross-)covariances / n^2", C[1][2], m->P[1][2] * sum / double (n*n)); }
    }, 2);
  // predicted cross-covariance at sample lag L = 0..3
  for (unsigned n=1; n<=nmax; n++) for (unsigned L=0; L<=3; L++)
    fn ("xcov_n" + std::to_string (n) + "_L" + std::to_string (L), [n, L] {
      stub_mode* m = new stub_mode; fill_stub (m, L*n + n);
      single s (m); s.sample_size = n;
      Matrix<4,4,double> C = s.get_crosscovariance (L);
      out_mat ("m", C);
      if (!symbolic) { double sum = 0; for (unsigned i=0; i<n; i++) for (unsigned j=0; j<n; j++) { int l = int (L*n + i) - int (j); if (l < 0) l = -l; sum += m->x[l]; }
        expect ("predicted cross-covariance at sample lag L = double sum of per-instance cross-covariances / n^2", C[1][2], m->P[1][2] * sum / double (n*n)); }
    }, 2);
  // a sample is generated from exactly n instances, and is their mean; predicted mean = mode mean
  for (unsigned n=1; n<=4; n++)
    fn (nm ("stokes_n", n), [n] {
      stub_mode* m = new stub_mode;
      for (unsigned k=0; k<n+2; k++) { std::complex<double> a = complex_in (nm ("ex", k)), b = complex_in (nm ("ey", k)); m->fields.push_back (Spinor<double> (a, b)); }
      m->mu = stokes_in ("mu");
      single s (m); s.sample_size = n;
      Stokes<double> got = s.get_Stokes ();
      out_int ("calls", m->calls);
      Stokes<double> want;
      for (unsigned k=0; k<n; k++) { Vector<4,double> t; compute_stokes (t, m->fields[k]); for (unsigned i=0; i<4; i++) want[i] += t[i]; }
      for (unsigned i=0; i<4; i++) want[i] = want[i] / double (n);
      out_vec ("g", got); out_vec ("gm", s.get_mean ());
      out_vec ("w", want); out_vec ("wm", m->mu);
      if (!symbolic) { expect ("instances consumed", m->calls, n); for (unsigned i=0; i<4; i++) expect ("sample = mean of n instances", got[i], want[i]); }
    }, 2);

  // lag-0 obligations X(0) = C for every real mode type
  BoxMuller gasdev;
  fn ("lag0_mode", [&] { mode m; m.set_normal (&gasdev); m.set_Stokes (stokes_valid_in ("s"));
    out_mat ("g", m.get_crosscovariance (0)); out_mat ("w", m.get_covariance ()); out_mat ("z", m.get_crosscovariance (1));
    if (!symbolic) { Matrix<4,4,double> g = m.get_crosscovariance (0), w = m.get_covariance (); for (unsigned i=0; i<4; i++) for (unsigned j=0; j<4; j++) expect ("mode: get_crosscovariance(0) = get_covariance()", g[i][j], w[i][j]); } });
  fn ("lag0_lognormal", [&] { mode* m = new mode; m->set_normal (&gasdev); m->set_Stokes (stokes_valid_in ("s"));
    lognormal_mode ln (m, in ("beta", 0.5, 1.5));
    out_mat ("g", ln.get_crosscovariance (0)); out_mat ("w", ln.get_covariance ()); out_mat ("z", ln.get_crosscovariance (1));
    if (!symbolic) { Matrix<4,4,double> g = ln.get_crosscovariance (0), w = ln.get_covariance (); for (unsigned i=0; i<4; i++) for (unsigned j=0; j<4; j++) expect ("lognormal_mode: get_crosscovariance(0) = get_covariance()", g[i][j], w[i][j]);
      single sg (new lognormal_mode (new mode, 0.8)); sg.sample_size = 3; Matrix<4,4,double> sx = sg.get_crosscovariance (0), sc = sg.get_covariance ();
      for (unsigned i=0; i<4; i++) for (unsigned j=0; j<4; j++) expect ("single sample of a lognormal mode: predicted cross-covariance at lag 0 = predicted covariance", sx[i][j], sc[i][j]); } });
  for (unsigned w=1; w<=3; w++) {
    fn (nm ("lag0_boxcar_w", w), [&, w] { mode* m = new mode; m->set_normal (&gasdev); m->set_Stokes (stokes_valid_in ("s"));
      lognormal_mode* ln = new lognormal_mode (m, in ("beta", 0.5, 1.5));
      boxcar_modulated_mode bm (ln, w);
      Matrix<4,4,double> g = bm.get_crosscovariance (0), wv = bm.get_covariance ();
      out_mat ("g", g); out_mat ("w", wv);
      if (!symbolic) for (unsigned i=0; i<4; i++) for (unsigned j=0; j<4; j++) expect ("boxcar_modulated_mode: get_crosscovariance(0) = get_covariance()", g[i][j], wv[i][j]); });
    fn (nm ("lag0_square_w", w), [&, w] { mode* m = new mode; m->set_normal (&gasdev); m->set_Stokes (stokes_valid_in ("s"));
      lognormal_mode* ln = new lognormal_mode (m, in ("beta", 0.5, 1.5));
      square_modulated_mode sm (ln, w, 4);
      Matrix<4,4,double> g = sm.get_crosscovariance (0), wv = sm.get_covariance ();
      out_mat ("g", g); out_mat ("w", wv);
      if (!symbolic) for (unsigned i=0; i<4; i++) for (unsigned j=0; j<4; j++) expect ("square_modulated_mode: get_crosscovariance(0) = get_covariance()", g[i][j], wv[i][j]); });
  }
  // ... and for every sample type built on stub modes with X(0) = C
  fn ("lag0_single", [] { stub_mode* m = new stub_mode; fill_stub (m, 3); m->x[0] = m->c;
    single s (m); s.sample_size = 3;
    out_mat ("g", s.get_crosscovariance (0)); out_mat ("w", s.get_covariance ()); });

#ifndef SYMX_SYMBOLIC
  // sizes beyond the grid at which the unrolled loops are tied to the all-n formulas: the same statements,
  // numerically, against the brute-force double sum (the loops have no size-dependent branch; this is what
  // would notice one)
  fn ("large_sizes_plain", [] {
    uint64_t st = 99; auto rnd = [&st] () { st = st * 6364136223846793005ULL + 1442695040888963407ULL; return double ((st >> 33) % 2000001) / 1e6 - 1.0; };
    for (unsigned n : { 7u, 8u, 9u, 11u, 12u, 16u, 17u, 31u, 33u, 64u, 100u, 255u, 256u, 257u, 1000u }) {
      unsigned Lmax = n <= 64 ? 3 : 1;
      stub_mode* m = new stub_mode; m->c = 1.0 + rnd ();
      for (unsigned l=0; l<=(Lmax + 1)*n; l++) m->x.push_back (rnd () / (1.0 + l));
      single s (m); s.sample_size = n; char what[200];
      { Matrix<4,4,double> C = s.get_covariance (); double sum = 0;
        for (unsigned i=0; i<n; i++) for (unsigned j=0; j<n; j++) { unsigned l = i > j ? i - j : j - i; sum += (l == 0) ? m->c : m->x[l]; }
        snprintf (what, 200, "n = %u: predicted covariance of the sample mean = double sum / n^2", n);
        for (unsigned i=0; i<4; i++) for (unsigned j=0; j<4; j++) expect (what, C[i][j], m->P[i][j] * sum / (double (n) * double (n)), 1e-12); }
      for (unsigned L=0; L<=Lmax; L++) { Matrix<4,4,double> X = s.get_crosscovariance (L); double sum = 0;
        for (unsigned i=0; i<n; i++) for (unsigned j=0; j<n; j++) { long l = long (L*n + i) - long (j); if (l < 0) l = -l; sum += m->x[l]; }
        snprintf (what, 200, "n = %u, sample lag %u: predicted cross-covariance = double sum / n^2", n, L);
        for (unsigned i=0; i<4; i++) for (unsigned j=0; j<4; j++) expect (what, X[i][j], m->P[i][j] * sum / (double (n) * double (n)), 1e-12); }
      // the generator consumes exactly n instances and returns their mean
      if (n <= 257) { stub_mode* g = new stub_mode; for (unsigned k=0; k<n+3; k++) g->fields.push_back (Spinor<double> (std::complex<double> (rnd (), rnd ()), std::complex<double> (rnd (), rnd ())));
        single sg (g); sg.sample_size = n; Stokes<double> got = sg.get_Stokes (); Stokes<double> want;
        for (unsigned k=0; k<n; k++) { Vector<4,double> t; compute_stokes (t, g->fields[k]); for (unsigned i=0; i<4; i++) want[i] += t[i]; }
        snprintf (what, 200, "n = %u: a sample consumes exactly n instances", n); expect (what, g->calls, n);
        snprintf (what, 200, "n = %u: a sample is the mean of its n instances", n); for (unsigned i=0; i<4; i++) expect (what, got[i], want[i] / double (n), 1e-12); }
    } }, 1);
#endif
  symx::finish ();
  return 0;
}
