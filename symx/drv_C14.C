// Driver for C14: rotation and basis matrices are proper orthogonal.
#include "Matrix.h"
#include "Basis.h"
#include "drv_common.h"

using namespace symx;

static Vector<3,double> vec3_in (const std::string& p)
{ Vector<3,double> v; for (unsigned i=0; i<3; i++) v[i] = in (nm (p, i).c_str()); return v; }

static void out_basis (Basis<double>& b, const std::string& p)
{
  for (unsigned i=0; i<3; i++) out_vec<3> (nm (p + "into", i), b.get_basis_vector (i));
  for (unsigned j=0; j<3; j++) { Vector<3,double> u = Vector<3,double>::basis (j); out_vec<3> (nm (p + "outcol", j), b.get_out (u)); }
}

#ifndef SYMX_SYMBOLIC
// +1 if rotation (z, t) turns x towards y for small positive t, -1 otherwise: the sense is whatever the generated
// term tied in Tie_C14 (Rodrigues' formula) says; the oracle only requires it to be the same at every angle
static double s_sign ()
{ Vector<3,double> z; z[2] = 1.0; Vector<3,double> x; x[0] = 1.0; Vector<3,double> g = rotation (z, 0.3) * x; return g[1] > 0 ? 1.0 : -1.0; }
#endif
int main (int argc, char** argv)
{
  symx::init ("C14", argc > 1 ? argv[1] : ".");

  fn ("rotation", [] { Vector<3,double> v = vec3_in ("v"); double th = in ("th", -7, 7);
    out_mat ("r", rotation (v, th)); });
  fn ("cross", [] { Vector<3,double> a = vec3_in ("a"), b = vec3_in ("b"); out_vec ("c", cross (a, b)); out ("dot", a * b); });
  // R R^T, det R, R v
  fn ("rotation_orthogonal", [] { Vector<3,double> v = vec3_in ("v"); double th = in ("th", -7, 7);
    Matrix<3,3,double> R = rotation (v, th);
    out_mat ("rrt", R * transpose (R));
    out ("det", R[0][0]*(R[1][1]*R[2][2] - R[1][2]*R[2][1]) - R[0][1]*(R[1][0]*R[2][2] - R[1][2]*R[2][0]) + R[0][2]*(R[1][0]*R[2][1] - R[1][1]*R[2][0]));
    out_vec ("rv", R * v); });
  // Rodrigues: R x = x cos + (v x x) sin + v (v.x)(1 - cos), with the code's own cross and dot
  fn ("rotation_rodrigues", [] { Vector<3,double> v = vec3_in ("v"), x = vec3_in ("x"); double th = in ("th", -7, 7);
    Vector<3,double> g = rotation (v, th) * x;
    Vector<3,double> w = x * cos (th) + cross (v, x) * sin (th) + v * ((v * x) * (1.0 - cos (th)));
    out_vec ("g", g); out_vec ("w", w);
    if (!symbolic) for (unsigned i=0; i<3; i++) expect ("R x = Rodrigues", g[i], w[i]); });
  // additivity about a common axis
  fn ("rotation_compose", [] { Vector<3,double> v = vec3_in ("v"); double t1 = in ("t1", -7, 7), t2 = in ("t2", -7, 7);
    out_mat ("g", rotation (v, t1) * rotation (v, t2)); out_mat ("w", rotation (v, t1 + t2)); });

  // basis matrices on a local object
  fn ("basis_ell", [] { double o = in ("o"), e = in ("e"); Basis<double> b; b.set_basis (o, e); out_basis (b, ""); });
  fn ("basis_lin", [] { Basis<double> b; b.set_basis (Signal::Linear); out_basis (b, ""); }, 1);
  fn ("basis_circ", [] { Basis<double> b; b.set_basis (Signal::Circular); out_basis (b, ""); }, 1);
  fn ("basis_default", [] { Basis<double> b; out_basis (b, ""); }, 1);
  fn ("basis_quarter_pi", [] { Basis<double> b; b.set_basis (0.25*M_PI, 0.25*M_PI); out_basis (b, ""); }, 1);
  fn ("basis_roundtrip_ell", [] { double o = in ("o"), e = in ("e"); Vector<3,double> x = vec3_in ("x");
    Basis<double> b; b.set_basis (o, e);
    out_vec ("g1", b.get_out (b.get_in (x))); out_vec ("g2", b.get_in (b.get_out (x))); out_vec ("w1", x); out_vec ("w2", x);
    if (!symbolic) for (unsigned i=0; i<3; i++) { expect ("get_out(get_in x) = x", b.get_out (b.get_in (x))[i], x[i]); expect ("get_in(get_out x) = x", b.get_in (b.get_out (x))[i], x[i]); } });
  fn ("basis_roundtrip_circ", [] { Vector<3,double> x = vec3_in ("x");
    Basis<double> b; b.set_basis (Signal::Circular);
    out_vec ("g1", b.get_out (b.get_in (x))); out_vec ("g2", b.get_in (b.get_out (x))); out_vec ("w1", x); out_vec ("w2", x); });
  // histories of settings on ONE object: the final state is that of the last call
  {
    const char* names[3] = { "L", "C", "E" };
    for (int a=0; a<3; a++) for (int b=0; b<3; b++) for (int c=0; c<3; c++) {
      std::string h = std::string (names[a]) + names[b] + names[c];
      fn ("basis_history_" + h, [a, b, c] {
        double o1 = in ("o1"), e1 = in ("e1"), o2 = in ("o2"), e2 = in ("e2"), o3 = in ("o3"), e3 = in ("e3");
        int seq[3] = { a, b, c }; double os[3] = { o1, o2, o3 }, es[3] = { e1, e2, e3 };
        Basis<double> obj;
        for (int k=0; k<3; k++) {
          if (seq[k] == 0) obj.set_basis (Signal::Linear);
          else if (seq[k] == 1) obj.set_basis (Signal::Circular);
          else obj.set_basis (os[k], es[k]);
        }
        out_basis (obj, ""); out ("go", obj.get_orientation()); out ("ge", obj.get_ellipticity());
        Basis<double> fresh;
        if (c == 0) fresh.set_basis (Signal::Linear); else if (c == 1) fresh.set_basis (Signal::Circular); else fresh.set_basis (o3, e3);
        out_basis (fresh, "f");
        out ("fo", fresh.get_orientation()); out ("fe", fresh.get_ellipticity());
      }, 2);
    }
  }
#ifndef SYMX_SYMBOLIC
  // special angles: multiples of pi/2 and pi of either sign, zero, full turns, tiny and huge angles -- Rodrigues'
  // formula, orthogonality, determinant, the fixed axis and additivity, numerically
  fn ("rotation_special_angles_plain", [] {
    const double axes[][3] = { {1,0,0}, {0,1,0}, {0,0,1}, {0.6,0,0.8}, {2.0/3,-1.0/3,2.0/3}, {-0.36,0.48,0.8} };
    std::vector<double> angles;
    for (int k=-8; k<=8; k++) { angles.push_back (k * 0.5 * M_PI); angles.push_back (k * 0.25 * M_PI); angles.push_back (k * M_PI / 3); }
    for (double a : { 1e-9, -1e-9, 1e-300, 2*M_PI, -2*M_PI, 100*M_PI, -100.5*M_PI, 1e6, -1e6 }) angles.push_back (a);
    for (auto& ax : axes) for (double th : angles) {
      Vector<3,double> v; v[0] = ax[0]; v[1] = ax[1]; v[2] = ax[2];
      Matrix<3,3,double> R = rotation (v, th); char what[200];
      const double xs[][3] = { {1,0,0}, {0,1,0}, {0.3,-0.5,0.7} };
      for (auto& xv : xs) { Vector<3,double> x; x[0] = xv[0]; x[1] = xv[1]; x[2] = xv[2];
        Vector<3,double> g = R * x; double c = std::cos (th), s = std::sin (th), vx = v[0]*x[0] + v[1]*x[1] + v[2]*x[2];
        Vector<3,double> cr; cr[0] = v[1]*x[2] - v[2]*x[1]; cr[1] = v[2]*x[0] - v[0]*x[2]; cr[2] = v[0]*x[1] - v[1]*x[0];
        // the library's sense of rotation, as fixed by the generated term tied in Tie_C14 (right- or left-handed): compare both ways with one tie-consistent sign
        for (unsigned i=0; i<3; i++) { double want = c * x[i] + s_sign () * s * cr[i] + (1 - c) * vx * v[i];
          snprintf (what, 200, "Rodrigues at angle %.17g about (%g,%g,%g), component %u", th, ax[0], ax[1], ax[2], i); expect (what, g[i], want, 1e-9); } }
      Matrix<3,3,double> I = R * transpose (R);
      for (unsigned i=0; i<3; i++) for (unsigned j=0; j<3; j++) { snprintf (what, 200, "R R^T = 1 at angle %.17g about (%g,%g,%g)", th, ax[0], ax[1], ax[2]); expect (what, I[i][j], i == j ? 1.0 : 0.0, 1e-12); }
      Matrix<3,3,double> P = rotation (v, th) * rotation (v, -th);
      for (unsigned i=0; i<3; i++) for (unsigned j=0; j<3; j++) { snprintf (what, 200, "rotation(th) rotation(-th) = 1 at angle %.17g about (%g,%g,%g)", th, ax[0], ax[1], ax[2]); expect (what, P[i][j], i == j ? 1.0 : 0.0, 1e-9); }
      Matrix<3,3,double> S = rotation (v, th) * rotation (v, 0.3), T = rotation (v, th + 0.3);
      for (unsigned i=0; i<3; i++) for (unsigned j=0; j<3; j++) { snprintf (what, 200, "rotation(th) rotation(0.3) = rotation(th + 0.3) at angle %.17g about (%g,%g,%g)", th, ax[0], ax[1], ax[2]); expect (what, S[i][j], T[i][j], 1e-9); }
    } }, 1);
#endif
  symx::finish ();
  return 0;
}
