// Driver for C18 (part a): the real BoxMuller.C and random.C under scripted
// uniform sources.  drand48 and random() are renamed by the preamble.
#include "BoxMuller.h"
#include "random.h"
using namespace symx;

// ---- scripted drand48: uniform k is the variable u<k>, with the shadow value of the script
static std::vector<symx::real_t> script_vals;
static unsigned script_pos = 0;
symx::scalar_t sym_drand48 ()
{
  std::string name = "u" + std::to_string (script_pos);
  symx::real_t v = script_pos < script_vals.size() ? script_vals[script_pos] : 0.25;
  script_pos ++;
  return symx::in_at (name.c_str(), v);
}
static std::string nm (const std::string& p, unsigned i) { return p + std::to_string (i); }

static long random_script = 0;
long sym_random () { return random_script; }

static void set_script (std::initializer_list<symx::real_t> l)
{ script_vals.clear (); for (symx::real_t v : l) script_vals.push_back (v); script_pos = 0; }

// pairs: A = accepted (0.75, 0.5): w = 0.25;  R = rejected (0.95, 0.9): w = 1.45
#define ACC 0.75, 0.5
#define ACC2 0.4, 0.6
#define REJ 0.95, 0.9
#define REJ2 0.05, 0.02

static void run_calls (const std::string& name, std::initializer_list<symx::real_t> s, unsigned ncalls)
{
  fn (name, [s, ncalls] {
    set_script (s);
    BoxMuller g;
    std::vector<double> got;
    for (unsigned k=0; k<ncalls; k++) { double d = g.evaluate (); got.push_back (d); out (nm ("d", k), d); }
    out_int ("uniforms_consumed", script_pos);
    if (!symbolic) {   // reference: two deviates per accepted pair of the scripted stream, in order
      std::vector<symx::real_t> want; std::vector<symx::real_t> u (s);
      for (size_t i=0; i+1 < u.size() && want.size() < ncalls; i+=2) {
        float v1 = 2.0*u[i] - 1.0, v2 = 2.0*u[i+1] - 1.0; float w = v1*v1 + v2*v2;
        if (w >= 1.0 || w == 0.0) continue;
        float f = std::sqrt ((-2.0 * std::log (w)) / w); want.push_back (v1*f); want.push_back (v2*f); }
      for (unsigned k=0; k<ncalls && k<want.size(); k++) expect ("deviate " + std::to_string (k) + " of the stream = polar transform of the accepted pairs", got[k], want[k], 1e-6);
    }
  }, 1);
}

int main (int argc, char** argv)
{
  symx::init ("C18a", argc > 1 ? argv[1] : ".");

  run_calls ("bm_A_1", { ACC }, 1);                 // one call: first deviate of the pair
  run_calls ("bm_A_2", { ACC }, 2);                 // second call returns the cached deviate, no uniforms drawn
  run_calls ("bm_AA_4", { ACC, ACC2 }, 4);
  run_calls ("bm_AA_3", { ACC, ACC2 }, 3);
  run_calls ("bm_RA_2", { REJ, ACC }, 2);           // a rejection run of length 1
  run_calls ("bm_RRA_2", { REJ, REJ2, ACC }, 2);
  run_calls ("bm_RRRRA_1", { REJ, REJ2, REJ, REJ2, ACC }, 1);
  run_calls ("bm_ARA_4", { ACC, REJ, ACC2 }, 4);
  run_calls ("bm_ARRA_3", { ACC, REJ, REJ2, ACC2 }, 3);
  run_calls ("bm_near1_2", { 0.5, 0.99999 }, 2);     // w just below 1
  run_calls ("bm_on1_RA_2", { 1.0, 0.5, ACC }, 2);   // w = 1 exactly: rejected
  run_calls ("bm_origin_RA_2", { 0.5, 0.5, ACC }, 2);// w = 0 exactly (u1 = u2 = 1/2): must be rejected

  // two generators interleaved: each keeps its own cached deviate
  fn ("bm_interleaved", [] {
    set_script ({ ACC, ACC2, REJ, ACC });
    BoxMuller a, b;
    out ("a0", double (a.evaluate ())); out ("b0", double (b.evaluate ())); out ("a1", double (a.evaluate ()));
    out ("b1", double (b.evaluate ())); out ("b2", double (b.evaluate ())); out ("a2", double (a.evaluate ()));
    out_int ("uniforms_consumed", script_pos);
  }, 1);

#ifndef SYMX_SYMBOLIC
  // finiteness at the acceptance boundary (plain build oracle)
  fn ("bm_origin_plain", [] { set_script ({ 0.5, 0.5, ACC }); BoxMuller g; double d = g.evaluate ();
    expect_true ("the deviate produced from the stream (1/2, 1/2, ...) is finite", std::isfinite (d)); }, 1);
#endif

  // the uniform helper of random.C over scripted random() values: r / RAND_MAX
  for (long r : { 0L, 1L, 12345L, 1073741823L, 1073741824L, 2147483646L, 2147483647L })
    fn ("random_double_r" + std::to_string (r), [r] { random_script = r; out ("u", random_double ()); }, 1);
#ifndef SYMX_SYMBOLIC
  // every value of random () maps into [0, 1] and to r / RAND_MAX at full double precision (values that single
  // precision cannot hold included)
  fn ("random_double_values_plain", [] {
    for (long r : { 0L, 1L, 2L, 16777215L, 16777216L, 16777217L, 33554433L, 123456789L, 1073741823L, 1073741825L, 2147483519L, 2147483583L, 2147483584L, 2147483585L, 2147483600L, 2147483646L, 2147483647L }) {
      random_script = r; double u = random_double (); char what[160];
      snprintf (what, 160, "random_double () for random () = %ld lies in [0, 1]", r); expect_true (what, u >= 0.0 && u <= 1.0);
      snprintf (what, 160, "random_double () for random () = %ld equals r / RAND_MAX", r); expect_true (what, u == double (r) / 2147483647.0); } }, 1);
#endif

  symx::finish ();
  return 0;
}
