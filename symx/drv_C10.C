// Driver for C10: eigen-decompositions.
#include "Pauli.h"
#include "Jacobi.h"
#include "drv_common.h"
using namespace symx;
typedef std::complex<double> cd;

#ifndef SYMX_SYMBOLIC

template<unsigned N> static double jacobi_error_real (const Matrix<N,N,double>& A0, double& ortho)
{
  Matrix<N,N,double> a = A0, E; Vector<N,double> lam;
  Jacobi (a, E, lam);
  Matrix<N,N,double> D = E * A0 * transpose (E), I = E * transpose (E);
  double err = 0; ortho = 0; double nrm = 0;
  for (unsigned i=0; i<N; i++) for (unsigned j=0; j<N; j++) { nrm += A0[i][j]*A0[i][j];
    err = std::max (err, std::fabs (D[i][j] - (i == j ? lam[i] : 0.0))); ortho = std::max (ortho, std::fabs (I[i][j] - (i == j ? 1.0 : 0.0)));
    if (!std::isfinite (D[i][j]) || !std::isfinite (lam[i])) err = 1e300; }
  nrm = std::sqrt (nrm); return nrm > 0 ? err / nrm : err;
}
template<unsigned N> static double jacobi_error_complex (const Matrix<N,N,cd>& A0, double& ortho)
{
  Matrix<N,N,cd> a = A0, E; Vector<N,double> lam;
  Jacobi (a, E, lam);
  Matrix<N,N,cd> D = E * A0 * herm (E), I = E * herm (E);
  double err = 0; ortho = 0; double nrm = 0;
  for (unsigned i=0; i<N; i++) for (unsigned j=0; j<N; j++) { nrm += std::norm (A0[i][j]);
    err = std::max (err, std::abs (D[i][j] - (i == j ? cd (lam[i]) : cd (0.0)))); ortho = std::max (ortho, std::abs (I[i][j] - (i == j ? cd (1.0) : cd (0.0))));
    if (!std::isfinite (D[i][j].real ()) || !std::isfinite (lam[i])) err = 1e300; }
  nrm = std::sqrt (nrm); return nrm > 0 ? err / nrm : err;
}

static uint64_t lcg_state = 12345;
static double rnd () { lcg_state = lcg_state * 6364136223846793005ULL + 1442695040888963407ULL; return double ((lcg_state >> 33) % 2000001) / 1e6 - 1.0; }
static const char* class_name[] = { "dense", "nearly diagonal ascending 1e-12", "nearly diagonal ascending 1e-9", "nearly diagonal ascending 1e-6", "nearly diagonal ascending 1e-3",
  "nearly diagonal descending 1e-9", "diagonally dominant 0.1", "identity plus rank one (repeated eigenvalues)", "rank one", "small integers", "zero", "diagonal ascending", "equal diagonal, small off-diagonal",
  "dense block plus a decoupled pair of equal diagonal entries", "two zero rows and columns", "dense block plus a decoupled triple of equal diagonal entries" };
static const int n_class = 16;
// entry (i,j), i <= j, of structure class cls; im receives the imaginary part of off-diagonal entries
template<unsigned N> static void make_class (int cls, double re[N][N], double im[N][N])
{
  double u[N], w[N]; for (unsigned i=0; i<N; i++) { u[i] = rnd (); w[i] = rnd (); }
  for (unsigned i=0; i<N; i++) for (unsigned j=i; j<N; j++) { double x = rnd (), y = (i == j) ? 0.0 : rnd (); double rel = 0;
    switch (cls) {
    case 0: break;
    case 1: rel = 1e-12; case 2: if (!rel) rel = 1e-9; case 3: if (!rel) rel = 1e-6; case 4: if (!rel) rel = 1e-3;
      x = (i == j) ? double (i + 1) : rel * x; y *= rel; break;
    case 5: x = (i == j) ? double (N - i) : 1e-9 * x; y *= 1e-9; break;
    case 6: x = (i == j) ? 2.0 + x : 0.1 * x; y *= 0.1; break;
    case 7: x = (i == j ? 1.0 : 0.0) + u[i]*u[j] + w[i]*w[j]; y = (i == j) ? 0.0 : w[i]*u[j] - u[i]*w[j]; break;
    case 8: x = u[i]*u[j] + w[i]*w[j]; y = (i == j) ? 0.0 : w[i]*u[j] - u[i]*w[j]; break;
    case 9: x = double (int (3 * x)); y = (i == j) ? 0.0 : double (int (3 * y)); break;
    case 10: x = 0; y = 0; break;
    case 11: x = (i == j) ? double (i + 1) : 0.0; y = 0; break;
    case 12: x = (i == j) ? 1.0 : 1e-7 * x; y *= 1e-7; break;
    case 13: if (N >= 3 && (i >= N-2 || j >= N-2)) { x = (i == j) ? 7.0 : 0.0; y = 0; } else { x = double (int (4 * x)) + (i == j ? 3.0 : 0.0); y = (i == j) ? 0.0 : double (int (3 * y)); } break;
    case 14: if (N >= 3 && (i >= N-2 || j >= N-2)) { x = 0; y = 0; } else { x = double (int (4 * x)) + (i == j ? 2.0 : 0.0); y = (i == j) ? 0.0 : double (int (3 * y)); } break;
    case 15: if (N >= 4 && (i >= N-3 || j >= N-3)) { x = (i == j) ? -2.0 : 0.0; y = 0; } else { x = double (int (4 * x)) + (i == j ? 1.0 : 0.0); y = (i == j) ? 0.0 : double (int (3 * y)); } break;
    }
    re[i][j] = re[j][i] = x; im[i][j] = y; im[j][i] = -y; }
}
template<unsigned N> static void classes ()
{
  const double scales[] = { 1.0, std::ldexp (1.0, -498), std::ldexp (1.0, 498), std::ldexp (1.0, -20), std::ldexp (1.0, 20) };
  for (int cls = 0; cls < n_class; cls ++) { double re[N][N], im[N][N]; make_class<N> (cls, re, im);
    Vector<N,double> lam1r, lam1c;
    for (double scale : scales) { char what[200];
      { Matrix<N,N,double> A; for (unsigned i=0; i<N; i++) for (unsigned j=0; j<N; j++) A[i][j] = re[i][j] * scale;
        double ortho, err = jacobi_error_real (A, ortho);
        snprintf (what, 200, "real symmetric %ux%u, %s, scale %g: E A E^T = diag(lambda) within 1e-12 of |A| (error %.3g)", N, N, class_name[cls], scale, err);
        expect_true (what, err <= 1e-12);
        snprintf (what, 200, "real symmetric %ux%u, %s, scale %g: E E^T = 1 within 1e-12 (error %.3g)", N, N, class_name[cls], scale, ortho); expect_true (what, ortho <= 1e-12); }
      { Matrix<N,N,cd> A; for (unsigned i=0; i<N; i++) for (unsigned j=0; j<N; j++) A[i][j] = cd (re[i][j], im[i][j]) * scale;
        double ortho, err = jacobi_error_complex (A, ortho);
        snprintf (what, 200, "complex Hermitian %ux%u, %s, scale %g: E A E^dagger = diag(lambda) within 1e-8 of |A| (error %.3g)", N, N, class_name[cls], scale, err);
        expect_true (what, err <= 1e-8);
        snprintf (what, 200, "complex Hermitian %ux%u, %s, scale %g: E E^dagger = 1 within 1e-8 (error %.3g)", N, N, class_name[cls], scale, ortho); expect_true (what, ortho <= 1e-8); }
    } }
}

// decoupled index sets and single off-diagonal pairs: every pair (p,q) must be visited by the sweeps and by the
// convergence test, wherever it sits
template<unsigned N> static void check_pair_matrix (const char* tag, const double re[N][N], const double im[N][N])
{
  for (double scale : { 1.0, std::ldexp (1.0, -498), std::ldexp (1.0, 498) }) { char what[240];
    { Matrix<N,N,double> A; for (unsigned i=0; i<N; i++) for (unsigned j=0; j<N; j++) A[i][j] = re[i][j] * scale;
      double ortho, err = jacobi_error_real (A, ortho);
      snprintf (what, 240, "real symmetric %ux%u, %s, scale %g: E A E^T = diag(lambda), E E^T = 1 within 1e-12 (errors %.3g, %.3g)", N, N, tag, scale, err, ortho);
      expect_true (what, err <= 1e-12 && ortho <= 1e-12); }
    { Matrix<N,N,cd> A; for (unsigned i=0; i<N; i++) for (unsigned j=0; j<N; j++) A[i][j] = cd (re[i][j], im[i][j]) * scale;
      double ortho, err = jacobi_error_complex (A, ortho);
      snprintf (what, 240, "complex Hermitian %ux%u, %s, scale %g: E A E^dagger = diag(lambda), E E^dagger = 1 within 1e-8 (errors %.3g, %.3g)", N, N, tag, scale, err, ortho);
      expect_true (what, err <= 1e-8 && ortho <= 1e-8); } }
}
template<unsigned N> static void pairs_and_decoupled ()
{
  char tag[120]; double re[N][N], im[N][N];
  for (unsigned p=0; p<N; p++) for (unsigned q=p+1; q<N; q++) {
    for (unsigned i=0; i<N; i++) for (unsigned j=0; j<N; j++) { re[i][j] = (i == j) ? double (i + 1) : 0.0; im[i][j] = 0.0; }
    re[p][q] = re[q][p] = 0.5; im[p][q] = 0.25; im[q][p] = -0.25;
    snprintf (tag, 120, "diag(1..n) with the single off-diagonal pair (%u,%u)", p, q); check_pair_matrix<N> (tag, re, im); }
  // a decoupled index set (distinct diagonal entries, zero coupling) beside a dense small-integer block
  for (unsigned mask : { 0x1u, 0x3u, 0x2u, 0x5u, 1u | (1u << (N-1)), 1u << (N/2), 0x6u }) {
    if (mask >= (1u << N) || N - __builtin_popcount (mask) < 2) continue;
    for (unsigned i=0; i<N; i++) for (unsigned j=i; j<N; j++) { bool di = mask >> i & 1, dj = mask >> j & 1; double x = rnd (), y = rnd ();
      if (di || dj) { x = (i == j) ? 5.0 + i : 0.0; y = 0; } else { x = double (int (4 * x)) + (i == j ? 2.0 : 0.0); y = (i == j) ? 0.0 : double (int (3 * y)); }
      re[i][j] = re[j][i] = x; im[i][j] = y; im[j][i] = -y; }
    snprintf (tag, 120, "index set 0x%x decoupled from a dense small-integer block", mask); check_pair_matrix<N> (tag, re, im); }
}
#endif

int main (int argc, char** argv)
{
  symx::init ("C10", argc > 1 ? argv[1] : ".");
#ifdef SYMX_SYMBOLIC
  symx::ctx ().memo = true;   // eigen() asks q.s1 < 0 twice
#endif

  // the eigen-rotation of a Hermitian quaternion, every path
  fn_paths ("qeigen", [] {
    Quaternion<double,Hermitian> q = quat_in<Hermitian> ("q");
    Quaternion<double,Unitary> u = eigen (q);
    out_quat ("u", u); out ("detu", det (u));
    Jones<double> R = convert (u);
    out_jones ("d", R * convert (q) * herm (R));
    out_jones ("rr", R * herm (R));
  });
  fn ("qeigen_run", [] { Quaternion<double,Hermitian> q = quat_in<Hermitian> ("q"); Quaternion<double,Unitary> u = eigen (q); out_quat ("u", u);
    if (!symbolic) { Jones<double> R = convert (u), D = R * convert (q) * herm (R); double p = std::sqrt (q.s1*q.s1 + q.s2*q.s2 + q.s3*q.s3);
      expect ("det(eigen q) = 1", det (u), 1.0); expect ("R rho R^dagger off-diagonal", D.j01, cd (0.0)); expect ("larger eigenvalue first", D.j00, cd (q.s0 + p)); expect ("smaller eigenvalue second", D.j11, cd (q.s0 - p)); } });

  // one real Jacobi rotation of a symmetric 2x2 matrix [[p, x], [x, q]], every path
  fn_paths ("jrot2", [] {
    double p = in ("p"), q = in ("q"), x = in ("x", 0.2, 1.5);
    Matrix<2,2,double> a, v; a[0][0] = p; a[1][1] = q; a[0][1] = a[1][0] = x; matrix_identity (v);
    Vector<2,double> d; d[0] = p; d[1] = q;
    JacobiRotation (0, 1, a, v, d);
    out_mat ("a", a); out_mat ("v", v); out_vec ("d", d);
    Matrix<2,2,double> A0; A0[0][0] = p; A0[1][1] = q; A0[0][1] = A0[1][0] = x;
    out_mat ("vavt", v * A0 * transpose (v)); out_mat ("vvt", v * transpose (v));
  });

  // one real Jacobi rotation in the (0,1) plane of a symmetric 3x3 matrix: similarity, orthogonality and the
  // decrease of the off-diagonal norm by exactly 2 a01^2 (the measure that makes the sweeps converge)
  fn_paths ("jrot3", [] {
    double p = in ("p"), q = in ("q"), r = in ("r"), x = in ("x", 0.2, 1.5), y = in ("y"), z = in ("z");
    Matrix<3,3,double> a, v, A0; a[0][0] = p; a[1][1] = q; a[2][2] = r; a[0][1] = a[1][0] = x; a[0][2] = a[2][0] = y; a[1][2] = a[2][1] = z;
    A0 = a; matrix_identity (v);
    Vector<3,double> d; d[0] = p; d[1] = q; d[2] = r;
    JacobiRotation (0, 1, a, v, d);
    out_mat ("a", a); out_mat ("v", v); out_vec ("d", d);
    out_mat ("vavt", v * A0 * transpose (v)); out_mat ("vvt", v * transpose (v));
  });

  // one complex Jacobi rotation of the Hermitian 2x2 matrix [[p, x+iy], [x-iy, q]], every path
  fn_paths ("jrot2c", [] {
    double p = in ("p", 0.7, 2.0), q = in ("q", 0.3, 1.0), x = in ("x", 0.2, 1.5), y = in ("y", 0.1, 1.0);
    Matrix<2,2,cd> a, v, A0; a[0][0] = p; a[1][1] = q; a[0][1] = cd (x, y); a[1][0] = cd (x, -y); A0 = a; matrix_identity (v);
    Vector<2,double> d; d[0] = p; d[1] = q;
    JacobiRotation (0, 1, a, v, d);
    out_cmat ("a", a); out_cmat ("v", v); out_vec ("d", d);
    out_cmat ("vavt", v * A0 * herm (v)); out_cmat ("vvt", v * herm (v));
  });

  // the complex rotation in the (0,1) plane of a Hermitian 3x3 matrix [[p, x+iy, b], [x-iy, q, c], [b*, c*, r]]
  { const char* tier = getenv ("VERIF_TIER"); if (tier && std::string (tier) == "thorough")
  fn_paths ("jrot3c", [] {
    double p = in ("p", 0.7, 2.0), q = in ("q", 0.3, 1.0), r = in ("r"), x = in ("x", 0.2, 1.5), y = in ("y", 0.1, 1.0);
    cd b = complex_in ("b"), c = complex_in ("c");
    Matrix<3,3,cd> a, v, A0; a[0][0] = p; a[1][1] = q; a[2][2] = r; a[0][1] = cd (x, y); a[1][0] = cd (x, -y); a[0][2] = b; a[2][0] = std::conj (b); a[1][2] = c; a[2][1] = std::conj (c);
    A0 = a; matrix_identity (v);
    Vector<3,double> d; d[0] = p; d[1] = q; d[2] = r;
    JacobiRotation (0, 1, a, v, d);
    out_cmat ("a", a); out_cmat ("v", v); out_vec ("d", d);
    out_cmat ("vavt", v * A0 * herm (v)); out_cmat ("vvt", v * herm (v));
  }); }

#ifndef SYMX_SYMBOLIC
  // degenerate and axis-aligned Hermitian quaternions: finite unit-determinant eigen-rotation
  fn ("qeigen_special_plain", [] {
    const double qs[][4] = { {1,0,0,0}, {2,0,0,0}, {1,1,0,0}, {1,-1,0,0}, {1,0,1,0}, {1,0,0,-1}, {3,-2,0,0}, {0,1,0,0}, {0,0,1,0}, {0.5,-0.5,0,0}, {0,-1,0,0}, {0,-3,0,0}, {0,-1,1e-9,0}, {0,-1,0,-1e-7}, {0,0,0,0}, {5,-1,1e-10,1e-10} };
    for (auto& v : qs) { Quaternion<double,Hermitian> q (v[0], v[1], v[2], v[3]); Quaternion<double,Unitary> u = eigen (q);
      char what[160]; snprintf (what, 160, "eigen(%g,%g,%g,%g) is a finite unit-determinant rotation", v[0], v[1], v[2], v[3]);
      bool fin = std::isfinite (u.s0) && std::isfinite (u.s1) && std::isfinite (u.s2) && std::isfinite (u.s3);
      expect_true (what, fin && std::fabs (det (u) - 1.0) < 1e-12);
      if (fin) { Jones<double> R = convert (u), D = R * convert (q) * herm (R); double p = std::sqrt (v[1]*v[1] + v[2]*v[2] + v[3]*v[3]);
        expect (std::string (what) + ": diagonalises", D.j01, cd (0.0)); expect (std::string (what) + ": larger eigenvalue first", D.j00, cd (v[0] + p)); } } }, 1);
  // the Jacobi solver over structure classes, dimensions 2..8 and scales (accuracy relative to the norm of A)
  fn ("jacobi_classes_plain", [] { lcg_state = 12345; classes<2> (); classes<3> (); classes<4> (); classes<5> (); classes<6> (); classes<7> (); classes<8> (); }, 1);
  fn ("jacobi_pairs_plain", [] { lcg_state = 777; pairs_and_decoupled<2> (); pairs_and_decoupled<3> (); pairs_and_decoupled<4> (); pairs_and_decoupled<5> (); pairs_and_decoupled<6> (); pairs_and_decoupled<7> (); pairs_and_decoupled<8> (); }, 1);
#endif
  symx::finish ();
  return 0;
}
