// Driver for C15: Minkowski forms and the Pauli-trace identities they stand for.
#include "Minkowski.h"
#include "Pauli.h"
#include "Stokes.h"
#include "drv_common.h"

using namespace symx;

// independent oracle (search only): A_i B_j - 1/2 eta_ij (A.B)
static double oracle_outer (const Stokes<double>& A, const Stokes<double>& B, unsigned i, unsigned j)
{
  double dot = A[0]*B[0] - A[1]*B[1] - A[2]*B[2] - A[3]*B[3];
  double eta = (i == j) ? (i == 0 ? 1.0 : -1.0) : 0.0;
  return A[i]*B[j] - 0.5*eta*dot;
}

int main (int argc, char** argv)
{
  symx::init ("C15", argc > 1 ? argv[1] : ".");

  symx::fn ("mink_inner", [] {
    Stokes<double> A = stokes_in ("a"), B = stokes_in ("b");
    double r = Minkowski::inner (A, B);
    out ("r", r);
    if (!symbolic) {
      expect ("inner(A,B) = I_A I_B - p_A.p_B", r, A[0]*B[0] - A[1]*B[1] - A[2]*B[2] - A[3]*B[3]);
      expect ("inner symmetric", r, Minkowski::inner (B, A));
    }
  });

  symx::fn ("mink_inner_self", [] {
    Stokes<double> A = stokes_in ("a");
    out ("inner", Minkowski::inner (A, A));
    out ("invariant", A.invariant());
    if (!symbolic) expect ("inner(A,A) = invariant", Minkowski::inner (A, A), A.invariant());
  });

  symx::fn ("mink_outer", [] {
    Stokes<double> A = stokes_in ("a"), B = stokes_in ("b");
    Matrix<4,4,double> M = Minkowski::outer (A, B);
    out_mat ("m", M);
    if (!symbolic) {
      Matrix<4,4,double> N = Minkowski::outer (B, A);
      for (unsigned i=0; i<4; i++) for (unsigned j=0; j<4; j++) {
        expect (nm ("outer(A,B)_", i, j), M[i][j], oracle_outer (A, B, i, j));
        expect (nm ("outer(A,B)^T = outer(B,A) at ", i, j), M[i][j], N[j][i]);
      }
    }
  });

  // coherency matrix of a Stokes vector in the (default) linear basis
  symx::fn ("rho", [] {
    Stokes<double> A = stokes_in ("a");
    out_jones ("j", convert (A));
  });

  // the four Pauli basis matrices
  symx::fn ("pauli", [] {
    for (unsigned i=0; i<4; i++)
      out_jones (nm("s",i)+"_j", Pauli::matrix (i));
  }, 1);

  // trace (sigma_i rho_A sigma_j rho_B), all from the code's own Jones algebra
  for (unsigned i=0; i<4; i++)
    symx::fn (nm ("trace4_", i), [i] {
      Stokes<double> A = stokes_in ("a"), B = stokes_in ("b");
      Jones<double> rA = convert (A), rB = convert (B);
      Matrix<4,4,double> M = Minkowski::outer (A, B), N = Minkowski::outer (B, A);
      for (unsigned j=0; j<4; j++) {
        std::complex<double> t = trace (Pauli::matrix(i) * rA * Pauli::matrix(j) * rB);
        out (nm ("t", j), t);
        if (!symbolic) {
          std::complex<double> u = trace (Pauli::matrix(i) * rB * Pauli::matrix(j) * rA);
          expect (nm ("outer(A,B)+outer(B,A) = tr+tr at ", i, j), std::complex<double> (M[i][j] + N[i][j], 0.0), t + u);
        }
      }
    });

#ifndef SYMX_SYMBOLIC
  // rounding: the forms are bilinear, so scaling A by 2^e and B by 2^f scales every entry by 2^(e+f) exactly
  // (no over/underflow at these exponents); and the defining formula at mixed magnitudes
  symx::fn ("mink_scales_plain", [] {
    Stokes<double> A (1.75, 0.5, -0.25, 1.125), B (0.875, -1.5, 0.75, 0.0625);
    Matrix<4,4,double> M0 = Minkowski::outer (A, B); double i0 = Minkowski::inner (A, B);
    for (int e : { -300, -150, -40, 40, 150, 300 }) for (int f : { -300, -40, 0, 40, 300 }) { double sa = std::ldexp (1.0, e), sb = std::ldexp (1.0, f), sab = std::ldexp (1.0, e + f);
      Stokes<double> As = A; As *= sa; Stokes<double> Bs = B; Bs *= sb; char what[200];
      snprintf (what, 200, "inner (2^%d A, 2^%d B) = 2^%d inner (A, B), exactly", e, f, e + f); symx::expect_true (what, Minkowski::inner (As, Bs) == i0 * sab);
      Matrix<4,4,double> M = Minkowski::outer (As, Bs); bool ok = true; for (unsigned i=0; i<4; i++) for (unsigned j=0; j<4; j++) ok = ok && M[i][j] == M0[i][j] * sab;
      snprintf (what, 200, "outer (2^%d A, 2^%d B) = 2^%d outer (A, B), exactly", e, f, e + f); symx::expect_true (what, ok); }
    // mixed element types (single with double precision, double with long double): the forms are evaluated in the
    // promoted type whichever argument comes first -- exact dyadic data whose products need the wider type
    { Stokes<float> Af (1.0f, 1.0f, 0.0f, 0.0f); Stokes<double> Bd (1.0 + std::ldexp (1.0, -30), 1.0, 0.0, 0.0);
      symx::expect ("inner (single A, double B) keeps double precision", Minkowski::inner (Af, Bd), std::ldexp (1.0, -30), 1e-15);
      symx::expect ("inner (double B, single A) keeps double precision", Minkowski::inner (Bd, Af), std::ldexp (1.0, -30), 1e-15);
      Stokes<float> Hf (std::ldexp (1.0f, 100), 0.0f, 0.0f, 0.0f); Stokes<double> Hd (std::ldexp (1.0, 100), 0.0, 0.0, 0.0);
      symx::expect_true ("inner (single 2^100, double 2^100) = 2^200 (no overflow in single precision)", Minkowski::inner (Hf, Hd) == std::ldexp (1.0, 200));
      symx::expect_true ("inner (double 2^100, single 2^100) = 2^200", Minkowski::inner (Hd, Hf) == std::ldexp (1.0, 200));
      Stokes<float> Cf (1.5f, 0.5f, -0.25f, 1.0f); Stokes<double> Dd (1.0 + std::ldexp (1.0, -40), 0.75, 0.5 + std::ldexp (1.0, -45), -0.125);
      Stokes<double> Cd (1.5, 0.5, -0.25, 1.0);
      Matrix<4,4,double> Mfd = Minkowski::outer (Cf, Dd), Mdd = Minkowski::outer (Cd, Dd), Mdf = Minkowski::outer (Dd, Cf), Mdd2 = Minkowski::outer (Dd, Cd);
      for (unsigned i=0; i<4; i++) for (unsigned j=0; j<4; j++) { char w2[160];
        snprintf (w2, 160, "outer (single A, double B)[%u][%u] = outer (double A, double B)", i, j); symx::expect (w2, Mfd[i][j], Mdd[i][j], 1e-15);
        snprintf (w2, 160, "outer (double B, single A)[%u][%u] = outer (double B, double A)", i, j); symx::expect (w2, Mdf[i][j], Mdd2[i][j], 1e-15);
        snprintf (w2, 160, "outer (single A, double B)^T = outer (double B, single A) at [%u][%u]", i, j); symx::expect (w2, Mfd[i][j], Mdf[j][i], 1e-15); }
      Stokes<long double> Ll (1.0L + std::ldexp (1.0L, -60), 1.0L, 0.0L, 0.0L); Stokes<double> Ld (1.0, 1.0, 0.0, 0.0);
      symx::expect_true ("inner (double A, long double B) keeps extended precision", Minkowski::inner (Ld, Ll) == std::ldexp (1.0L, -60));
      symx::expect_true ("inner (long double B, double A) keeps extended precision", Minkowski::inner (Ll, Ld) == std::ldexp (1.0L, -60)); }
    const double vals[][4] = { {1e150, 1e-150, 3, -2}, {1, 1e-8, 1e-16, 0}, {1e-200, 1e-200, 0, 1e-200}, {5, -5, 0, 0}, {0, 0, 0, 0}, {2, 0, 0, 0} };
    for (auto& a : vals) for (auto& b : vals) { Stokes<double> P (a[0], a[1], a[2], a[3]), Q (b[0], b[1], b[2], b[3]); Matrix<4,4,double> M = Minkowski::outer (P, Q), N = Minkowski::outer (Q, P); char what[240];
      double in = a[0]*b[0] - a[1]*b[1] - a[2]*b[2] - a[3]*b[3];
      for (unsigned i=0; i<4; i++) for (unsigned j=0; j<4; j++) { double eta = i == j ? (i == 0 ? 1.0 : -1.0) : 0.0; double w = a[i]*b[j] - 0.5 * eta * in;
        snprintf (what, 240, "outer(A,B)[%u][%u] = A_i B_j - eta_ij inner/2 for A = (%g,%g,%g,%g), B = (%g,%g,%g,%g)", i, j, a[0],a[1],a[2],a[3], b[0],b[1],b[2],b[3]);
        symx::expect_true (what, std::fabs (M[i][j] - w) <= 1e-15 * (std::fabs (a[i]*b[j]) + std::fabs (in)) + 0.0);
        snprintf (what, 240, "outer(A,B)^T = outer(B,A) at [%u][%u] for A = (%g,%g,%g,%g), B = (%g,%g,%g,%g)", i, j, a[0],a[1],a[2],a[3], b[0],b[1],b[2],b[3]); symx::expect_true (what, M[i][j] == N[j][i]); } }
  }, 1);
#endif
  symx::finish ();
  return 0;
}
