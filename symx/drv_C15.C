// Driver for C15: Minkowski forms and the Pauli-trace identities they stand for.
#include "Minkowski.h"
#include "Pauli.h"
#include "Stokes.h"
#include "drv_common.h"

using namespace symx;

// independent oracle (search only): A_i B_j - 1/2 eta_ij (A.B)
static double oracle_outer (const Stokes<double>& A, const Stokes<double>& B, unsigned i, unsigned j)
{
  double dot = A[0]*B[0] - A[1]*B[1] - A[2]*B[2] - A[3]*B[3];
  double eta = (i == j) ? (i == 0 ? 1.0 : -1.0) : 0.0;
  return A[i]*B[j] - 0.5*eta*dot;
}

int main (int argc, char** argv)
{
  symx::init ("C15", argc > 1 ? argv[1] : ".");

  symx::fn ("mink_inner", [] {
    Stokes<double> A = stokes_in ("a"), B = stokes_in ("b");
    double r = Minkowski::inner (A, B);
    out ("r", r);
    if (!symbolic) {
      expect ("inner(A,B) = I_A I_B - p_A.p_B", r, A[0]*B[0] - A[1]*B[1] - A[2]*B[2] - A[3]*B[3]);
      expect ("inner symmetric", r, Minkowski::inner (B, A));
    }
  });

  symx::fn ("mink_inner_self", [] {
    Stokes<double> A = stokes_in ("a");
    out ("inner", Minkowski::inner (A, A));
    out ("invariant", A.invariant());
    if (!symbolic) expect ("inner(A,A) = invariant", Minkowski::inner (A, A), A.invariant());
  });

  symx::fn ("mink_outer", [] {
    Stokes<double> A = stokes_in ("a"), B = stokes_in ("b");
    Matrix<4,4,double> M = Minkowski::outer (A, B);
    out_mat ("m", M);
    if (!symbolic) {
      Matrix<4,4,double> N = Minkowski::outer (B, A);
      for (unsigned i=0; i<4; i++) for (unsigned j=0; j<4; j++) {
        expect (nm ("outer(A,B)_", i, j), M[i][j], oracle_outer (A, B, i, j));
        expect (nm ("outer(A,B)^T = outer(B,A) at ", i, j), M[i][j], N[j][i]);
      }
    }
  });

  // coherency matrix of a Stokes vector in the (default) linear basis
  symx::fn ("rho", [] {
    Stokes<double> A = stokes_in ("a");
    out_jones ("j", convert (A));
  });

  // the four Pauli basis matrices
  symx::fn ("pauli", [] {
    for (unsigned i=0; i<4; i++)
      out_jones (nm("s",i)+"_j", Pauli::matrix (i));
  }, 1);

  // trace (sigma_i rho_A sigma_j rho_B), all from the code's own Jones algebra
  for (unsigned i=0; i<4; i++)
    symx::fn (nm ("trace4_", i), [i] {
      Stokes<double> A = stokes_in ("a"), B = stokes_in ("b");
      Jones<double> rA = convert (A), rB = convert (B);
      Matrix<4,4,double> M = Minkowski::outer (A, B), N = Minkowski::outer (B, A);
      for (unsigned j=0; j<4; j++) {
        std::complex<double> t = trace (Pauli::matrix(i) * rA * Pauli::matrix(j) * rB);
        out (nm ("t", j), t);
        if (!symbolic) {
          std::complex<double> u = trace (Pauli::matrix(i) * rB * Pauli::matrix(j) * rA);
          expect (nm ("outer(A,B)+outer(B,A) = tr+tr at ", i, j), std::complex<double> (M[i][j] + N[i][j], 0.0), t + u);
        }
      }
    });

  symx::finish ();
  return 0;
}
