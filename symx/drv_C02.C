// Driver for C02: Stokes, coherency-matrix, Mueller and spinor pictures agree.
#include "Pauli.h"
#include "Spinor.h"
#include "drv_common.h"

using namespace symx;
typedef std::complex<double> cd;

static void set_lin () { Pauli::basis().set_basis (Signal::Linear); }
static void set_circ () { Pauli::basis().set_basis (Signal::Circular); }
static void set_ell () { double o = in ("o"), e = in ("e"); Pauli::basis().set_basis (o, e); }

static Stokes<cd> cstokes_in (const std::string& p)
{ Stokes<cd> s; for (unsigned i=0; i<4; i++) s[i] = complex_in (nm (p, i)); return s; }

template<class F> static void per_basis (const std::string& name, F body, bool with_ell = true)
{
  fn (name + "_lin", [body] { set_lin (); body (); });
  fn (name + "_circ", [body] { set_circ (); body (); set_lin (); });
  if (with_ell) fn (name + "_ell", [body] { set_ell (); body (); set_lin (); });
}

static void out_basis ()
{
  Basis<double>& b = Pauli::basis();
  for (unsigned i=0; i<3; i++) out_vec<3> (nm ("into", i), b.get_basis_vector (i));
  // outof is observable through get_out on the unit vectors (columns)
  for (unsigned j=0; j<3; j++) { Vector<3,double> u = Vector<3,double>::basis (j); out_vec<3> (nm ("outcol", j), b.get_out (u)); }
}

int main (int argc, char** argv)
{
  symx::init ("C02", argc > 1 ? argv[1] : ".");

  // round trips
  per_basis ("roundtrip", [] {
    Stokes<double> s = stokes_in ("s");
    Stokes<double> r = coherency (convert (s));
    out_vec ("g", r); out_vec ("w", s);
    if (!symbolic) for (unsigned i=0; i<4; i++) expect ("coherency(convert(S)) = S", r[i], s[i]);
  });
  per_basis ("roundtrip_complex", [] {
    Stokes<cd> s = cstokes_in ("s");
    Stokes<cd> r = complex_coherency (convert (s));
    out_cvec ("g", r); out_cvec ("w", s);
    if (!symbolic) for (unsigned i=0; i<4; i++) expect ("complex_coherency(convert(S)) = S", r[i], s[i]);
  });
  per_basis ("roundtrip_natural", [] {
    Stokes<double> s = stokes_in ("s");
    Stokes<double> r = standard (natural (s));
    out_vec ("g", r); out_vec ("w", s);
    if (!symbolic) for (unsigned i=0; i<4; i++) expect ("standard(natural(S)) = S", r[i], s[i]);
  });
  // trace = I, 4 det = I^2 - Q^2 - U^2 - V^2
  per_basis ("trace_det", [] {
    Stokes<double> s = stokes_in ("s");
    Jones<double> rho = convert (s);
    out ("tr", trace (rho)); out ("det4", 4.0 * det (rho));
    out ("wtr", cd (s[0], 0.0)); out ("wdet4", cd (s.invariant(), 0.0));
    if (!symbolic) { expect ("trace(convert S) = I", trace (rho), cd (s[0], 0.0)); expect ("4 det = invariant", 4.0 * det (rho), cd (s.invariant(), 0.0)); }
  });
  // transform(S,J) = Mueller(J) S
  per_basis ("transform_mueller", [] {
    Stokes<double> s = stokes_in ("s"); Jones<double> j = jones_in ("j");
    Stokes<double> t = transform (s, j);
    Vector<4,double> m2 = Mueller (j) * s;
    out_vec ("g", t); out_vec ("w", m2);
    if (!symbolic) for (unsigned i=0; i<4; i++) expect ("transform(S,J) = Mueller(J) S", t[i], m2[i]);
  }, false);
  // transform (Mueller (J), rho) = J rho J^dagger: the coherency matrix transformed through the Mueller matrix
  per_basis ("transform_coherency_mueller", [] {
    Jones<double> j = jones_in ("j"), rho = jones_in ("p");
    Jones<double> r = transform (Mueller (j), rho), w = j * rho * herm (j);
    out_jones ("g", r); out_jones ("w", w);
    if (!symbolic) for (unsigned i=0; i<4; i++) expect ("transform(Mueller(J), rho) = J rho J^dagger", r[i], w[i]);
  }, false);
  // accessors of Stokes: scalar and vector parts, their setters, squared and absolute polarization, invariant
  fn ("stokes_accessors", [] { Stokes<double> s = stokes_in ("s"); Vector<3,double> v; for (unsigned i=0; i<3; i++) v[i] = in (nm ("v", i).c_str()); double t = in ("t");
    out ("scalar", s.get_scalar ()); out_vec<3> ("vector", s.get_vector ()); out ("sqr", s.sqr_vect ()); out ("abs2", s.abs_vect () * s.abs_vect ()); out ("inv", s.invariant ());
    Stokes<double> u = s; u.set_scalar (t); out_vec ("u", u); Stokes<double> w = s; w.set_vector (v); out_vec ("w", w);
    if (!symbolic) { expect ("get_scalar", s.get_scalar (), s[0]); expect ("set_scalar keeps the vector", u[2], s[2]); expect ("set_scalar", u[0], t);
      for (unsigned i=0; i<3; i++) { expect ("get_vector", s.get_vector ()[i], s[i+1]); expect ("set_vector", w[i+1], v[i]); } expect ("set_vector keeps the scalar", w[0], s[0]);
      expect ("invariant", s.invariant (), s[0]*s[0] - s[1]*s[1] - s[2]*s[2] - s[3]*s[3]); } });
  // coherency vector (rho00, rho11, Re rho10, Im rho10) to Jones matrix
  fn ("coherency_vector_convert", [] { std::vector<double> c (4); for (unsigned i=0; i<4; i++) c[i] = in (nm ("c", i).c_str());
    Jones<double> r = convert (c), w (c[0], cd (c[2], -c[3]), cd (c[2], c[3]), c[1]);
    out_jones ("g", r); out_jones ("w", w);
    if (!symbolic) for (unsigned i=0; i<4; i++) expect ("convert(coherency vector)", r[i], w[i]); });
  // the congruence J rho J^dagger on the coherency matrix
  per_basis ("transform_congruence", [] {
    Stokes<double> s = stokes_in ("s"); Jones<double> j = jones_in ("j");
    out_jones ("g", convert (transform (s, j)));
    out_jones ("w", j * convert (s) * herm (j));
  }, false);
  // the other direction of the round trip: any Jones matrix survives Jones -> complex Stokes -> Jones
  // (so the complex transform, defined as complex_coherency(J rho J^dagger), converts back to J rho J^dagger)
  per_basis ("roundtrip_jones", [] {
    Jones<double> j = jones_in ("j");
    Jones<double> r = convert (complex_coherency (j));
    out_jones ("g", r); out_jones ("w", j);
    if (!symbolic) for (unsigned i=0; i<4; i++) expect ("convert(complex_coherency(J)) = J", r[i], j[i]);
  });
  // Lorentz invariant scales by |det J|^2
  per_basis ("invariant_scaling", [] {
    Stokes<double> s = stokes_in ("s"); Jones<double> j = jones_in ("j");
    out ("g", transform (s, j).invariant());
    out ("w", std::norm (det (j)) * s.invariant());
    if (!symbolic) expect ("invariant(transform(S,J)) = |det J|^2 invariant(S)", transform (s, j).invariant(), std::norm (det (j)) * s.invariant());
  }, false);
  // Mueller(J) rows, tied to the trace formula in Coq
  per_basis ("mueller", [] { Jones<double> j = jones_in ("j"); out_mat ("m", Mueller (j)); }, false);
  // Mueller matrices compose like their Jones matrices (S' = M S)
  for (unsigned row=0; row<4; row++) {
    fn (nm ("mueller_compose_lin_row", row), [row] { set_lin ();
      Jones<double> a = jones_in ("a"), b = jones_in ("b");
      Matrix<4,4,double> L = Mueller (a * b), R = Mueller (a) * Mueller (b);
      out_vec ("g", L[row]); out_vec ("w", R[row]);
      if (!symbolic) for (unsigned c=0; c<4; c++) expect ("Mueller(AB) = Mueller(A) Mueller(B)", L[row][c], R[row][c]);
    });
    fn (nm ("mueller_compose_circ_row", row), [row] { set_circ ();
      Jones<double> a = jones_in ("a"), b = jones_in ("b");
      Matrix<4,4,double> L = Mueller (a * b), R = Mueller (a) * Mueller (b);
      out_vec ("g", L[row]); out_vec ("w", R[row]); set_lin ();
    });
    // two-argument form: exact directional derivative
    fn (nm ("mueller_derivative_lin_row", row), [row] { set_lin ();
      Jones<double> j = jones_in ("j"), g = jones_in ("g"); double t = in ("t");
      Matrix<4,4,double> L = Mueller (j + t * g);
      Matrix<4,4,double> M0 = Mueller (j), M1 = Mueller (j, g), M2 = Mueller (g);
      Vector<4,double> R = M0[row] + t * M1[row] + (t*t) * M2[row];
      out_vec ("g", L[row]); out_vec ("w", R);
      if (!symbolic) for (unsigned c=0; c<4; c++) expect ("Mueller(J+tG) = Mueller(J) + t Mueller(J,G) + t^2 Mueller(G)", L[row][c], R[c]);
    });
    fn (nm ("mueller_derivative_circ_row", row), [row] { set_circ ();
      Jones<double> j = jones_in ("j"), g = jones_in ("g"); double t = in ("t");
      Matrix<4,4,double> L = Mueller (j + t * g);
      Matrix<4,4,double> M0 = Mueller (j), M1 = Mueller (j, g), M2 = Mueller (g);
      Vector<4,double> R = M0[row] + t * M1[row] + (t*t) * M2[row];
      out_vec ("g", L[row]); out_vec ("w", R); set_lin ();
    });
  }
  // field picture (linear basis): detect(J e) = transform(detect e, J)
  fn ("spinor_lin", [] { set_lin ();
    cd x = complex_in ("x"), y = complex_in ("y"); Spinor<double> e (x, y); Jones<double> j = jones_in ("j");
    Vector<4,double> s0, s1;
    compute_stokes (s0, e); compute_stokes (s1, j * e);
    Stokes<double> t = transform (Stokes<double> (s0), j);
    out_vec ("g", s1); out_vec ("w", t);
    if (!symbolic) for (unsigned i=0; i<4; i++) expect ("compute_stokes(J e) = transform(compute_stokes e, J)", s1[i], t[i]);
  });
  // scalar multiples and sums of spinors: a e, e a, e + f, e / a, component by component
  fn ("spinor_linear_ops", [] { cd x = complex_in ("x"), y = complex_in ("y"), u = complex_in ("u"), v = complex_in ("v"); double a = in ("a", 0.5, 2);
    Spinor<double> e (x, y), f (u, v); Spinor<double> l = a * e, r = e * a, sm = e + f, q = e; q /= a;
    out ("lx", l.x); out ("ly", l.y); out ("rx", r.x); out ("ry", r.y); out ("sx", sm.x); out ("sy", sm.y); out ("qx", q.x); out ("qy", q.y);
    out ("wlx", a * x); out ("wly", a * y); out ("wrx", x * a); out ("wry", y * a); out ("wsx", x + u); out ("wsy", y + v); out ("wqx", x / a); out ("wqy", y / a);
    if (!symbolic) { expect ("a e", l.x, a * x); expect ("a e", l.y, a * y); expect ("e a", r.x, x * a); expect ("e a", r.y, y * a); expect ("e + f", sm.x, x + u); expect ("e + f", sm.y, y + v); expect ("e / a", q.x, x / a); expect ("e / a", q.y, y / a); } });
  // detection agrees with the coherency matrix e e^dagger
  fn ("detect_lin", [] { set_lin ();
    cd x = complex_in ("x"), y = complex_in ("y"); Spinor<double> e (x, y);
    Vector<4,double> s; compute_stokes (s, e);
    Jones<double> rho (x * std::conj (x), x * std::conj (y), y * std::conj (x), y * std::conj (y));
    out_vec ("g", s); out_vec ("w", coherency (rho));
  });

  // basis state: every setting, and every history of settings, leaves into
  // orthonormal and outof = into^T
  fn ("basis_lin", [] { set_lin (); out_basis (); }, 1);
  fn ("basis_circ", [] { set_circ (); out_basis (); set_lin (); }, 1);
  fn ("basis_ell", [] { set_ell (); out_basis (); set_lin (); });
  {
    // histories of length <= 3 over {Linear, Circular, Elliptical(o_k,e_k)}: the final
    // state depends on the last call only
    const char* names[3] = { "L", "C", "E" };
    for (int a=0; a<3; a++) for (int b=0; b<3; b++) for (int c=0; c<3; c++) {
      std::string h = std::string (names[a]) + names[b] + names[c];
      fn ("basis_history_" + h, [a, b, c] {
        double o1 = in ("o1"), e1 = in ("e1"), o2 = in ("o2"), e2 = in ("e2"), o3 = in ("o3"), e3 = in ("e3");
        int seq[3] = { a, b, c }; double os[3] = { o1, o2, o3 }, es[3] = { e1, e2, e3 };
        for (int k=0; k<3; k++) {
          if (seq[k] == 0) Pauli::basis().set_basis (Signal::Linear);
          else if (seq[k] == 1) Pauli::basis().set_basis (Signal::Circular);
          else Pauli::basis().set_basis (os[k], es[k]);
        }
        out_basis ();
        // the same final setting on a fresh object
        Basis<double> fresh;
        if (c == 0) fresh.set_basis (Signal::Linear); else if (c == 1) fresh.set_basis (Signal::Circular); else fresh.set_basis (o3, e3);
        for (unsigned i=0; i<3; i++) out_vec<3> (nm ("finto", i), fresh.get_basis_vector (i));
        for (unsigned j=0; j<3; j++) { Vector<3,double> u = Vector<3,double>::basis (j); out_vec<3> (nm ("foutcol", j), fresh.get_out (u)); }
        set_lin ();
      }, 2);
    }
  }

#ifndef SYMX_SYMBOLIC
  // converting constructors of Stokes: every component carried over, in order
  fn ("stokes_conversion_plain", [] { Stokes<float> sf (1.5f, -0.25f, 0.5f, 0.75f); Stokes<double> sd (sf); Stokes<float> back (sd);
    const double want[4] = { 1.5, -0.25, 0.5, 0.75 };
    for (unsigned i=0; i<4; i++) { expect ("Stokes<double> from Stokes<float>", sd[i], want[i]); expect ("Stokes<float> from Stokes<double>", double (back[i]), want[i]); }
    Stokes<cd> sc (sd); for (unsigned i=0; i<4; i++) expect ("Stokes<complex> from Stokes<double>", sc[i], cd (want[i])); }, 1);
#endif
#ifndef SYMX_SYMBOLIC
  // every history of basis settings (length <= 4 over linear, circular and three different elliptical bases), every
  // derived function evaluated after every step: the pictures must agree in the state the process is in now, whatever it
  // computed in earlier states (process-wide caches keyed too coarsely would show here)
  fn ("derived_history_plain", [] {
    typedef std::complex<double> cdd;
    Jones<double> J (cdd (1, 2), cdd (-3, 0.5), cdd (0.25, -1), cdd (2, 2)), G (cdd (0.5, -1), cdd (1, 1), cdd (-2, 0.25), cdd (0, 3)); Stokes<double> S (1.75, 0.5, -0.25, 1.125);
    Stokes<cdd> Sc (cdd (1.75, 0.5), cdd (0.5, -1), cdd (-0.25, 2), cdd (1.125, 0.25));
    auto setb = [] (int k) { if (k == 0) Pauli::basis().set_basis (Signal::Linear); else if (k == 1) Pauli::basis().set_basis (Signal::Circular);
                             else if (k == 2) Pauli::basis().set_basis (0.3, 0.2); else if (k == 3) Pauli::basis().set_basis (-0.7, 0.4); else Pauli::basis().set_basis (1.1, -0.3); };
    for (int a=0; a<5; a++) for (int b=0; b<5; b++) for (int c=0; c<5; c++) for (int d=0; d<5; d++) { int seq[4] = { a, b, c, d };
      for (int k=0; k<4; k++) { setb (seq[k]); char what[200]; snprintf (what, 200, "history %d%d%d%d, after step %d: ", a, b, c, d, k + 1);
        Stokes<double> back = coherency (convert (S)); for (unsigned i=0; i<4; i++) expect (std::string (what) + "coherency (convert S) = S", back[i], S[i], 1e-12);
        Stokes<cdd> backc = complex_coherency (convert (Sc)); for (unsigned i=0; i<4; i++) expect (std::string (what) + "complex coherency (convert S) = S", backc[i], Sc[i], 1e-12);
        Matrix<4,4,double> M = Mueller (J), MG = Mueller (G), MJG = Mueller (J, G); Jones<double> JG = J + G; Matrix<4,4,double> MS = Mueller (JG);
        Stokes<double> T = transform (S, J); Vector<4,double> MSv = M * S; Stokes<double> C = coherency (J * convert (S) * herm (J));
        for (unsigned i=0; i<4; i++) { expect (std::string (what) + "Mueller (J) S = transform (S, J)", MSv[i], T[i], 1e-11); expect (std::string (what) + "transform (S, J) = coherency (J rho J^dagger)", T[i], C[i], 1e-11);
          for (unsigned j=0; j<4; j++) expect (std::string (what) + "Mueller (J + G) = Mueller (J) + Mueller (J, G) + Mueller (G)", MS[i][j], M[i][j] + MJG[i][j] + MG[i][j], 1e-10); } } }
    Pauli::basis().set_basis (Signal::Linear); }, 1);
  // all element magnitudes: conversions are linear in the Stokes vector, the transformation by J is linear in S and
  // quadratic in J, the Mueller matrix quadratic in J -- scaling by powers of two must scale the results exactly
  fn ("homogeneity_plain", [] {
    typedef std::complex<double> cdd;
    Jones<double> J (cdd (1, 2), cdd (-3, 0.5), cdd (0.25, -1), cdd (2, 2)); Stokes<double> S (1.75, 0.5, -0.25, 1.125);
    for (int bsel=0; bsel<3; bsel++) { if (bsel == 0) Pauli::basis().set_basis (Signal::Linear); else if (bsel == 1) Pauli::basis().set_basis (Signal::Circular); else Pauli::basis().set_basis (0.3, -0.2);
      Jones<double> R0 = convert (S); Stokes<double> T0 = transform (S, J); Matrix<4,4,double> M0 = Mueller (J); Stokes<double> C0 = coherency (R0);
      for (int e : { -400, -200, -60, 60, 200, 400 }) { double sc = std::ldexp (1.0, e); char what[200];
        Stokes<double> Ss = S; Ss *= sc; Jones<double> R = convert (Ss); bool ok = true;
        for (unsigned i=0; i<4; i++) ok = ok && R[i].real () == R0[i].real () * sc && R[i].imag () == R0[i].imag () * sc;
        snprintf (what, 200, "basis %d: convert (2^%d S) = 2^%d convert (S), exactly", bsel, e, e); expect_true (what, ok);
        Stokes<double> C = coherency (R); ok = true; for (unsigned i=0; i<4; i++) ok = ok && C[i] == C0[i] * sc;
        snprintf (what, 200, "basis %d: coherency (2^%d rho) = 2^%d coherency (rho), exactly", bsel, e, e); expect_true (what, ok);
        Stokes<double> T = transform (Ss, J); ok = true; for (unsigned i=0; i<4; i++) ok = ok && T[i] == T0[i] * sc;
        snprintf (what, 200, "basis %d: transform (2^%d S, J) = 2^%d transform (S, J), exactly", bsel, e, e); expect_true (what, ok);
        if (e >= -200 && e <= 200) { double sc2 = std::ldexp (1.0, 2*e); Jones<double> Js = J; Js *= sc;
          Stokes<double> U = transform (S, Js); ok = true; for (unsigned i=0; i<4; i++) ok = ok && U[i] == T0[i] * sc2;
          snprintf (what, 200, "basis %d: transform (S, 2^%d J) = 2^%d transform (S, J), exactly", bsel, e, 2*e); expect_true (what, ok);
          Matrix<4,4,double> M = Mueller (Js); ok = true; for (unsigned i=0; i<4; i++) for (unsigned j=0; j<4; j++) ok = ok && M[i][j] == M0[i][j] * sc2;
          snprintf (what, 200, "basis %d: Mueller (2^%d J) = 2^%d Mueller (J), exactly", bsel, e, 2*e); expect_true (what, ok); } } }
    Pauli::basis().set_basis (Signal::Linear); }, 1);
#endif
  symx::finish ();
  return 0;
}
