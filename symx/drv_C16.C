// Driver for C16: compound assignment under aliasing.
// For every (type, operator, alias shape) the real operator runs on a real
// object whose right-hand operand is the object itself or one of its own
// elements ("got"), and the binary operator runs on distinct copies ("want").
#include "Pauli.h"
#include "Spinor.h"
#include "Estimate.h"
#include "drv_common.h"

using namespace symx;

template<unsigned N> static Vector<N,double> vec_in (const std::string& p)
{ Vector<N,double> v; for (unsigned i=0; i<N; i++) v[i] = in (nm(p,i).c_str(), 0.5, 2.0); return v; }

static Matrix<2,2,double> mat_in (const std::string& p)
{ Matrix<2,2,double> m; for (unsigned i=0; i<2; i++) for (unsigned j=0; j<2; j++) m[i][j] = in (nm(p,i,j).c_str(), 0.5, 2.0); return m; }

template<class V, class W> static void cmp_vec (const std::string& what, const V& got, const W& want, unsigned n)
{ if (!symbolic) for (unsigned i=0; i<n; i++) expect (what + " component " + std::to_string(i), got[i], want[i]); }

int main (int argc, char** argv)
{
  symx::init ("C16", argc > 1 ? argv[1] : ".");

  // ---------------- Vector<4>, Stokes -------------------------------------
  for (unsigned k=0; k<4; k++) {
    fn (nm ("vec4_mul_elem", k), [k] {
      Vector<4,double> v = vec_in<4> ("x"), o = v; double c = o[k];
      v *= v[k];
      Vector<4,double> w = o * c;
      out_vec ("g", v); out_vec ("w", w); cmp_vec ("Vector<4>: v *= v[k]", v, w, 4);
    });
    fn (nm ("vec4_div_elem", k), [k] {
      Vector<4,double> v = vec_in<4> ("x"), o = v; double c = o[k];
      v /= v[k];
      Vector<4,double> w = o / c;
      out_vec ("g", v); out_vec ("w", w); cmp_vec ("Vector<4>: v /= v[k]", v, w, 4);
    });
    fn (nm ("stokes_div_elem", k), [k] {
      Stokes<double> s = stokes_in ("x", 0.5, 2.0), o = s; double c = o[k];
      s /= s[k];
      Vector<4,double> w = o / c;
      out_vec ("g", s); out_vec ("w", w); cmp_vec ("Stokes: s /= s[k]", s, w, 4);
    });
    fn (nm ("stokes_mul_elem", k), [k] {
      Stokes<double> s = stokes_in ("x", 0.5, 2.0), o = s; double c = o[k];
      s *= s[k];
      Vector<4,double> w = o * c;
      out_vec ("g", s); out_vec ("w", w); cmp_vec ("Stokes: s *= s[k]", s, w, 4);
    });
  }
  fn ("vec4_add_self", [] {
    Vector<4,double> v = vec_in<4> ("x"), o = v, o2 = v;
    v += v; Vector<4,double> w = o + o2;
    out_vec ("g", v); out_vec ("w", w); cmp_vec ("Vector<4>: v += v", v, w, 4);
  });
  fn ("vec4_sub_self", [] {
    Vector<4,double> v = vec_in<4> ("x"), o = v, o2 = v;
    v -= v; Vector<4,double> w = o - o2;
    out_vec ("g", v); out_vec ("w", w); cmp_vec ("Vector<4>: v -= v", v, w, 4);
  });
  fn ("vec4_mul_distinct", [] {
    Vector<4,double> v = vec_in<4> ("x"), o = v; double c = in ("c", 0.5, 2);
    v *= c; Vector<4,double> w = o * c;
    out_vec ("g", v); out_vec ("w", w); cmp_vec ("Vector<4>: v *= c", v, w, 4);
  });
  fn ("vec4_div_distinct", [] {
    Vector<4,double> v = vec_in<4> ("x"), o = v; double c = in ("c", 0.5, 2);
    v /= c; Vector<4,double> w = o / c;
    out_vec ("g", v); out_vec ("w", w); cmp_vec ("Vector<4>: v /= c", v, w, 4);
  });
  // the property's headline case: fractional polarization vector
  fn ("stokes_fractional", [] {
    Stokes<double> s = stokes_in ("x", 0.5, 2.0), o = s;
    s /= s[0];
    out_vec ("g", s);
    out ("w0", o[0]/o[0]); out ("w1", o[1]/o[0]); out ("w2", o[2]/o[0]); out ("w3", o[3]/o[0]);
    if (!symbolic) for (unsigned i=0; i<4; i++) expect ("Stokes: (s /= s[0])[i] = s[i]/I, i=" + std::to_string(i), s[i], o[i]/o[0]);
  });

  // ---------------- Matrix<2,2> ------------------------------------------------
  for (unsigned k=0; k<4; k++) {
    fn (nm ("mat2_mul_elem", k), [k] {
      Matrix<2,2,double> m = mat_in ("m"), o = m; double c = o[k/2][k%2];
      m *= m[k/2][k%2];
      for (unsigned i=0; i<2; i++) for (unsigned j=0; j<2; j++) out (nm("g",i,j), m[i][j]);
      for (unsigned i=0; i<2; i++) for (unsigned j=0; j<2; j++) out (nm("w",i,j), o[i][j]*c);
      if (!symbolic) for (unsigned i=0; i<2; i++) for (unsigned j=0; j<2; j++) expect ("Matrix<2,2>: m *= m[r][c] at " + nm("",i,j), m[i][j], o[i][j]*c);
    });
    fn (nm ("mat2_div_elem", k), [k] {
      Matrix<2,2,double> m = mat_in ("m"), o = m; double c = o[k/2][k%2];
      m /= m[k/2][k%2];
      for (unsigned i=0; i<2; i++) for (unsigned j=0; j<2; j++) out (nm("g",i,j), m[i][j]);
      for (unsigned i=0; i<2; i++) for (unsigned j=0; j<2; j++) out (nm("w",i,j), o[i][j]/c);
      if (!symbolic) for (unsigned i=0; i<2; i++) for (unsigned j=0; j<2; j++) expect ("Matrix<2,2>: m /= m[r][c] at " + nm("",i,j), m[i][j], o[i][j]/c);
    });
  }
  fn ("mat2_add_self", [] {
    Matrix<2,2,double> m = mat_in ("m"), o = m;
    m += m;
    for (unsigned i=0; i<2; i++) for (unsigned j=0; j<2; j++) out (nm("g",i,j), m[i][j]);
    for (unsigned i=0; i<2; i++) for (unsigned j=0; j<2; j++) out (nm("w",i,j), o[i][j]+o[i][j]);
  });

  // ---------------- Jones -----------------------------------------------------------
  fn ("jones_mul_self", [] {
    Jones<double> j = jones_in ("j"), o = j, o2 = j;
    j *= j; Jones<double> w = o * o2;
    out_jones ("g", j); out_jones ("w", w);
    if (!symbolic) for (unsigned i=0; i<4; i++) expect ("Jones: j *= j element " + std::to_string(i), j[i], w[i]);
  });
  fn ("jones_add_self", [] {
    Jones<double> j = jones_in ("j"), o = j, o2 = j;
    j += j; Jones<double> w = o + o2;
    out_jones ("g", j); out_jones ("w", w);
  });
  fn ("jones_sub_self", [] {
    Jones<double> j = jones_in ("j"), o = j, o2 = j;
    j -= j; Jones<double> w = o - o2;
    out_jones ("g", j); out_jones ("w", w);
  });
  for (unsigned k=0; k<4; k++) {
    fn (nm ("jones_mul_celem", k), [k] {
      Jones<double> j = jones_in ("j"), o = j; std::complex<double> c = o[k];
      j *= j[k]; Jones<double> w = o * c;
      out_jones ("g", j); out_jones ("w", w);
      if (!symbolic) for (unsigned i=0; i<4; i++) expect ("Jones: j *= j[k] element " + std::to_string(i), j[i], w[i]);
    });
    fn (nm ("jones_div_celem", k), [k] {
      Jones<double> j = jones_in ("j"), o = j; std::complex<double> c = o[k];
      j /= j[k]; Jones<double> w = o / c;
      out_jones ("g", j); out_jones ("w", w);
      if (!symbolic) for (unsigned i=0; i<4; i++) expect ("Jones: j /= j[k] element " + std::to_string(i), j[i], w[i]);
    });
  }
  fn ("jones_mul_distinct", [] {
    Jones<double> j = jones_in ("j"), o = j, b = jones_in ("b");
    j *= b; Jones<double> w = o * b;
    out_jones ("g", j); out_jones ("w", w);
  });

  // ---------------- Quaternion -----------------------------------------------------------
  for (unsigned k=0; k<4; k++) {
    fn (nm ("quat_mul_elem", k), [k] {
      Quaternion<double,Hermitian> q = quat_in<Hermitian> ("q", 0.5, 2), o = q; double c = o[k];
      q *= q[k]; Quaternion<double,Hermitian> w = o * c;
      out_quat ("g", q); out_quat ("w", w);
      if (!symbolic) for (unsigned i=0; i<4; i++) expect ("Quaternion: q *= q[k] component " + std::to_string(i), q[i], w[i]);
    });
    fn (nm ("quat_div_elem", k), [k] {
      Quaternion<double,Hermitian> q = quat_in<Hermitian> ("q", 0.5, 2), o = q; double c = o[k];
      q /= q[k]; Quaternion<double,Hermitian> w = o / c;
      out_quat ("g", q); out_quat ("w", w);
      if (!symbolic) for (unsigned i=0; i<4; i++) expect ("Quaternion: q /= q[k] component " + std::to_string(i), q[i], w[i]);
    });
  }
  fn ("quat_addscalar_s0", [] {
    Quaternion<double,Unitary> q = quat_in<Unitary> ("q"), o = q;
    q += q.s0;
    out_quat ("g", q); out ("w0", o.s0 + o.s0); out ("w1", o.s1); out ("w2", o.s2); out ("w3", o.s3);
  });
  fn ("quat_subscalar_s0", [] {
    Quaternion<double,Unitary> q = quat_in<Unitary> ("q"), o = q;
    q -= q.s0;
    out_quat ("g", q); out ("w0", o.s0 - o.s0); out ("w1", o.s1); out ("w2", o.s2); out ("w3", o.s3);
  });
  fn ("quat_mul_self_U", [] {
    Quaternion<double,Unitary> q = quat_in<Unitary> ("q"), o = q, o2 = q;
    q *= q; Quaternion<double,Unitary> w = o * o2;
    out_quat ("g", q); out_quat ("w", w);
  });
  fn ("quat_add_self", [] {
    Quaternion<double,Unitary> q = quat_in<Unitary> ("q"), o = q, o2 = q;
    q += q; Quaternion<double,Unitary> w = o + o2;
    out_quat ("g", q); out_quat ("w", w);
  });
  fn ("quat_sub_self", [] {
    Quaternion<double,Unitary> q = quat_in<Unitary> ("q"), o = q, o2 = q;
    q -= q; Quaternion<double,Unitary> w = o - o2;
    out_quat ("g", q); out_quat ("w", w);
  });
  fn ("biquat_mul_self_H", [] {
    Quaternion<std::complex<double>,Hermitian> q = biquat_in<Hermitian> ("q"), o = q, o2 = q;
    q *= q; Quaternion<std::complex<double>,Hermitian> w = o * o2;
    out_biquat ("g", q); out_biquat ("w", w);
  });

  // ---------------- Estimate ------------------------------------------------------------------
  auto est_in = [] (const std::string& p) { double v = in ((p+"v").c_str(), 0.5, 2), s = in ((p+"s").c_str(), 0.1, 1); return Estimate<double> (v, s); };
  fn ("est_add_self", [est_in] { Estimate<double> e = est_in ("e"), o = e, o2 = e; e += e; Estimate<double> w = o + o2;
    out ("gv", e.val); out ("gs", e.var); out ("wv", w.val); out ("ws", w.var); });
  fn ("est_sub_self", [est_in] { Estimate<double> e = est_in ("e"), o = e, o2 = e; e -= e; Estimate<double> w = o - o2;
    out ("gv", e.val); out ("gs", e.var); out ("wv", w.val); out ("ws", w.var); });
  fn ("est_mul_self", [est_in] { Estimate<double> e = est_in ("e"), o = e, o2 = e; e *= e; Estimate<double> w = o * o2;
    out ("gv", e.val); out ("gs", e.var); out ("wv", w.val); out ("ws", w.var);
    if (!symbolic) { expect ("Estimate: e *= e value", e.val, w.val); expect ("Estimate: e *= e variance", e.var, w.var); } });
  fn ("est_div_self", [est_in] { Estimate<double> e = est_in ("e"), o = e, o2 = e; e /= e; Estimate<double> w = o / o2;
    out ("gv", e.val); out ("gs", e.var); out ("wv", w.val); out ("ws", w.var);
    if (!symbolic) { expect ("Estimate: e /= e value", e.val, w.val); expect ("Estimate: e /= e variance", e.var, w.var); } });
  fn ("meanest_add_self", [] { double a = in ("nv", 0.5, 2), b = in ("iv", 0.5, 2);
    MeanEstimate<double> m (a, b); m += m;
    out ("gn", m.norm_val); out ("gi", m.inv_var); out ("wn", a + a); out ("wi", b + b); });

  // ---------------- Spinor -----------------------------------------------------------------------
  fn ("spinor_add_self", [] {
    std::complex<double> x = complex_in ("x"), y = complex_in ("y"); Spinor<double> s (x, y);
    s += s;
    out ("gx", s.x); out ("gy", s.y); out ("wx", x + x); out ("wy", y + y);
  });
  fn ("spinor_mul_own_x", [] {
    std::complex<double> x = complex_in ("x"), y = complex_in ("y"); Spinor<double> s (x, y);
    s *= s.x;
    out ("gx", s.x); out ("gy", s.y); out ("wx", x * x); out ("wy", y * x);
    if (!symbolic) { expect ("Spinor: s *= s.x, x", s.x, x*x); expect ("Spinor: s *= s.x, y", s.y, y*x); }
  });
  fn ("spinor_div_own_re", [] {
    std::complex<double> x = complex_in ("x", 0.5, 2), y = complex_in ("y", 0.5, 2); Spinor<double> s (x, y);
    double r = x.real();
    s /= reinterpret_cast<double*>(&s.x)[0];
    out ("gx", s.x); out ("gy", s.y); out ("wx", x / r); out ("wy", y / r);
    if (!symbolic) { expect ("Spinor: s /= Re s.x, x", s.x, x/r); expect ("Spinor: s /= Re s.x, y", s.y, y/r); }
  });

  symx::finish ();
  return 0;
}
