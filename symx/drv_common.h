// symx/drv_common.h -- helpers shared by the drivers (both builds).
// Inputs are created one statement at a time so that their order (and hence
// the parameter order of the generated definitions) is the textual order.
#ifndef SYMX_DRV_COMMON_H
#define SYMX_DRV_COMMON_H

#include "Stokes.h"
#include "Jones.h"
#include "Quaternion.h"

namespace symx {

inline std::string nm (const std::string& p, unsigned i) { return p + std::to_string (i); }
inline std::string nm (const std::string& p, unsigned i, unsigned j) { return p + std::to_string (i) + std::to_string (j); }

inline Stokes<double> stokes_in (const std::string& p, real_t lo = -2, real_t hi = 2)
{
  Stokes<double> s;
  for (unsigned i=0; i<4; i++) s[i] = in (nm(p,i).c_str(), lo, hi);
  return s;
}
// a physically valid Stokes vector: I in (2,3), |Q|,|U|,|V| < 1
inline Stokes<double> stokes_valid_in (const std::string& p)
{
  Stokes<double> s;
  s[0] = in (nm(p,0).c_str(), 2, 3);
  for (unsigned i=1; i<4; i++) s[i] = in (nm(p,i).c_str(), -1, 1);
  return s;
}
inline std::complex<double> complex_in (const std::string& p, real_t lo = -2, real_t hi = 2)
{
  double re = in ((p+"r").c_str(), lo, hi);
  double im = in ((p+"i").c_str(), lo, hi);
  return std::complex<double> (re, im);
}
inline Jones<double> jones_in (const std::string& p)
{
  std::complex<double> a = complex_in (p+"00"), b = complex_in (p+"01"),
                       c = complex_in (p+"10"), d = complex_in (p+"11");
  return Jones<double> (a, b, c, d);
}
template<QBasis B>
inline Quaternion<double,B> quat_in (const std::string& p, real_t lo = -2, real_t hi = 2)
{
  double a = in (nm(p,0).c_str(), lo, hi), b = in (nm(p,1).c_str(), lo, hi),
         c = in (nm(p,2).c_str(), lo, hi), d = in (nm(p,3).c_str(), lo, hi);
  return Quaternion<double,B> (a, b, c, d);
}
template<QBasis B>
inline Quaternion<std::complex<double>,B> biquat_in (const std::string& p)
{
  std::complex<double> a = complex_in (nm(p,0)), b = complex_in (nm(p,1)),
                       c = complex_in (nm(p,2)), d = complex_in (nm(p,3));
  return Quaternion<std::complex<double>,B> (a, b, c, d);
}

inline void out_jones (const std::string& p, const Jones<double>& j)
{ out (p+"00", j.j00); out (p+"01", j.j01); out (p+"10", j.j10); out (p+"11", j.j11); }

template<unsigned N>
inline void out_vec (const std::string& p, const Vector<N,double>& v)
{ for (unsigned i=0; i<N; i++) out (nm(p,i), v[i]); }
template<unsigned N>
inline void out_cvec (const std::string& p, const Vector<N,std::complex<double> >& v)
{ for (unsigned i=0; i<N; i++) out (nm(p,i), v[i]); }

template<unsigned R, unsigned C>
inline void out_mat (const std::string& p, const Matrix<R,C,double>& m)
{ for (unsigned i=0; i<R; i++) for (unsigned j=0; j<C; j++) out (nm(p,i,j), m[i][j]); }

template<unsigned R, unsigned C>
inline void out_cmat (const std::string& p, const Matrix<R,C,std::complex<double> >& m)
{ for (unsigned i=0; i<R; i++) for (unsigned j=0; j<C; j++) out (nm(p,i,j), m[i][j]); }

template<QBasis B>
inline void out_quat (const std::string& p, const Quaternion<double,B>& q)
{ out (p+"0", q.s0); out (p+"1", q.s1); out (p+"2", q.s2); out (p+"3", q.s3); }
template<QBasis B>
inline void out_biquat (const std::string& p, const Quaternion<std::complex<double>,B>& q)
{ out (p+"0", q.s0); out (p+"1", q.s1); out (p+"2", q.s2); out (p+"3", q.s3); }

} // namespace symx
#endif
