// Driver for C11: estimates propagate variances to first order.
// Only Estimate.h / Stokes.h are included (as the library's own test does).
#include "Estimate.h"
#include "Stokes.h"
using namespace symx;
typedef Estimate<double> E;

static E est_in (const std::string& p, symx::real_t lo = 0.3, symx::real_t hi = 0.8)
{ double v = in ((p + "val").c_str(), lo, hi); double s = in ((p + "var").c_str(), 0.1, 1); return E (v, s); }
static void out_est (const std::string& n, const E& e) { out (n + "_val", e.val); out (n + "_var", e.var); }

int main (int argc, char** argv)
{
  symx::init ("C11", argc > 1 ? argv[1] : ".");
#define BIN(NAME, EXPR) fn (NAME, [] { E x = est_in ("x"), y = est_in ("y"); out_est ("r", EXPR); });
#define UN(NAME, EXPR)  fn (NAME, [] { E x = est_in ("x"); out_est ("r", EXPR); });
  BIN ("e_add", x + y) BIN ("e_sub", x - y) BIN ("e_mul", x * y)
  fn ("e_div", [] { E x = est_in ("x"), y = est_in ("y"); E r = x / y; out_est ("r", r);
    if (!symbolic) expect ("quotient variance", r.var, x.var/(y.val*y.val) + x.val*x.val*y.var/(y.val*y.val*y.val*y.val)); });
  UN ("e_neg", -x) UN ("e_inverse", x.inverse ())
  UN ("e_exp", exp (x)) UN ("e_log", log (x)) UN ("e_sqrt", sqrt (x)) UN ("e_sin", sin (x)) UN ("e_cos", cos (x))
  UN ("e_acos", acos (x)) UN ("e_atan", atan (x)) UN ("e_sinh", sinh (x)) UN ("e_cosh", cosh (x)) UN ("e_atanh", atanh (x))
  fn ("e_atan2", [] { E x = est_in ("x", -1.5, 1.5), y = est_in ("y", 0.2, 1.5); E r = atan2 (x, y); out_est ("r", r);
    if (!symbolic) { double h = x.val*x.val + y.val*y.val; expect ("atan2 variance = (c/h)^2 var_s + (s/h)^2 var_c", r.var, (y.val/h)*(y.val/h)*x.var + (x.val/h)*(x.val/h)*y.var); } });
  BIN ("e_copysign", copysign (x, y))
  // product of complex estimates (independent real and imaginary parts)
  fn ("e_cmul", [] { E a = est_in ("a"), b = est_in ("b"), c = est_in ("c"), d = est_in ("d");
    std::complex<E> z (a, b), w (c, d); std::complex<E> p = z * w;
    out_est ("re", p.real ()); out_est ("im", p.imag ()); });
  // the noise-bias-corrected Lorentz invariant of Stokes estimates
  fn ("e_invariant", [] { Stokes<E> s; for (unsigned i=0; i<4; i++) s[i] = est_in ("s" + std::to_string (i), i == 0 ? 2.0 : -1.0, i == 0 ? 3.0 : 1.0);
    E r = invariant (s); out_est ("r", r);
    if (!symbolic) { double want = 0; for (unsigned i=0; i<4; i++) want += 4 * s[i].val * s[i].val * s[i].var;
      expect ("invariant(): first-order variance sum_i (2 S_i)^2 var_i", r.var, want); } });
  symx::finish ();
  return 0;
}
