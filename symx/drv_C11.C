// Driver for C11: estimates propagate variances to first order.
// Only Estimate.h / Stokes.h are included (as the library's own test does).
#include "Estimate.h"
#include "Stokes.h"
using namespace symx;
typedef Estimate<double> E;

static E est_in (const std::string& p, symx::real_t lo = 0.3, symx::real_t hi = 0.8)
{ double v = in ((p + "val").c_str(), lo, hi); double s = in ((p + "var").c_str(), 0.1, 1); return E (v, s); }
static void out_est (const std::string& n, const E& e) { out (n + "_val", e.val); out (n + "_var", e.var); }

int main (int argc, char** argv)
{
  symx::init ("C11", argc > 1 ? argv[1] : ".");
#define BIN(NAME, EXPR) fn (NAME, [] { E x = est_in ("x"), y = est_in ("y"); out_est ("r", EXPR); });
#define UN(NAME, EXPR)  fn (NAME, [] { E x = est_in ("x"); out_est ("r", EXPR); });
  BIN ("e_add", x + y) BIN ("e_sub", x - y) BIN ("e_mul", x * y)
  fn ("e_div", [] { E x = est_in ("x"), y = est_in ("y"); E r = x / y; out_est ("r", r);
    if (!symbolic) expect ("quotient variance", r.var, x.var/(y.val*y.val) + x.val*x.val*y.var/(y.val*y.val*y.val*y.val)); });
  UN ("e_neg", -x) UN ("e_inverse", x.inverse ())
  UN ("e_exp", exp (x)) UN ("e_log", log (x)) UN ("e_sqrt", sqrt (x)) UN ("e_sin", sin (x)) UN ("e_cos", cos (x))
  UN ("e_acos", acos (x)) UN ("e_atan", atan (x)) UN ("e_sinh", sinh (x)) UN ("e_cosh", cosh (x)) UN ("e_atanh", atanh (x))
  fn ("e_atan2", [] { E x = est_in ("x", -1.5, 1.5), y = est_in ("y", 0.2, 1.5); E r = atan2 (x, y); out_est ("r", r);
    if (!symbolic) { double h = x.val*x.val + y.val*y.val; expect ("atan2 variance = (c/h)^2 var_s + (s/h)^2 var_c", r.var, (y.val/h)*(y.val/h)*x.var + (x.val/h)*(x.val/h)*y.var); } });
  BIN ("e_copysign", copysign (x, y))
  // product of complex estimates (independent real and imaginary parts)
  fn ("e_cmul", [] { E a = est_in ("a"), b = est_in ("b"), c = est_in ("c"), d = est_in ("d");
    std::complex<E> z (a, b), w (c, d); std::complex<E> p = z * w;
    out_est ("re", p.real ()); out_est ("im", p.imag ()); });
  // the noise-bias-corrected Lorentz invariant of Stokes estimates
  fn ("e_invariant", [] { Stokes<E> s; for (unsigned i=0; i<4; i++) s[i] = est_in ("s" + std::to_string (i), i == 0 ? 2.0 : -1.0, i == 0 ? 3.0 : 1.0);
    E r = invariant (s); out_est ("r", r);
    if (!symbolic) { double want = 0; for (unsigned i=0; i<4; i++) want += 4 * s[i].val * s[i].val * s[i].var;
      expect ("invariant(): first-order variance sum_i (2 S_i)^2 var_i", r.var, want); } });
#ifndef SYMX_SYMBOLIC
  // large and tiny magnitudes, negative and zero values: value and first-order variance against the analytic
  // derivatives evaluated in extended precision (skipped where the exact result is not representable in binary64)
  // comparisons of estimates go by value
  fn ("estimate_comparisons_plain", [] {
    const double vals[] = { -2.5, 0.0, 1.0, 1.0, 3.75 };
    for (double x : vals) for (double y : vals) for (double vx : { 0.0, 0.5 }) for (double vy : { 0.25, 4.0 }) { Estimate<double> a (x, vx), b (y, vy); char what[160];
      snprintf (what, 160, "comparisons of (%g +- %g) and (%g +- %g) follow the values", x, std::sqrt (vx), y, std::sqrt (vy));
      expect_true (what, (a == b) == (x == y) && (a != b) == (x != y) && (a < b) == (x < y) && (a > b) == (x > y)); }
    // accessors: the error is the square root of the variance, the setters touch one field each
    Estimate<double> e (1.5, 0.25); e.set_value (-2.0); expect ("set_value", e.get_value (), -2.0); expect ("set_value keeps the variance", e.get_variance (), 0.25); expect ("get_error", e.get_error (), 0.5);
    e.set_error (3.0); expect ("set_error stores the square", e.get_variance (), 9.0); expect ("set_error keeps the value", e.get_value (), -2.0); e.set_variance (16.0); expect ("set_variance", e.get_error (), 4.0); }, 1);
  fn ("e_magnitudes_plain", [] {
    typedef long double L;
    auto check = [] (const char* op, double x, double vx, double y, double vy, const E& r, L val, L dx, L dy) {
      L var = dx*dx*vx + dy*dy*vy; char what[240];
      if (!(std::fabs (val) < 1e300L) || !(var < 1e300L) || (var != 0 && var < 1e-300L) || (val != 0 && std::fabs (val) < 1e-300L)) return;
      snprintf (what, 240, "%s at x = %g +- var %g, y = %g +- var %g: value", op, x, vx, y, vy); expect_true (what, std::fabs (L (r.val) - val) <= 1e-13L * std::fabs (val) + 0.0L);
      snprintf (what, 240, "%s at x = %g +- var %g, y = %g +- var %g: variance = sum (df/dx_i)^2 var_i", op, x, vx, y, vy); expect_true (what, std::fabs (L (r.var) - var) <= 1e-12L * var); };
    // magnitudes whose fourth powers are representable (the quotient and atan2 form them)
    const double vals[] = { 0.0, 1.0, -1.0, 0.3, -2.5, 1e-4, 1e-8, -1e-8, 1e-12, 1e-40, 1e-70, -1e-70, 1e40, -1e40, 1e70, 7.25, 1.5707963267948966, 3.141592653589793 };
    const double vars[] = { 0.0, 1.0, 0.04, 1e-20, 1e20 };
    for (double x : vals) for (double y : vals) for (double vx : vars) for (double vy : { 0.0, 0.5, 1e-10, 1e10 }) {
      E a (x, vx), b (y, vy);
      check ("x + y", x, vx, y, vy, a + b, L (x) + y, 1, 1); check ("x - y", x, vx, y, vy, a - b, L (x) - y, 1, -1);
      check ("x * y", x, vx, y, vy, a * b, L (x) * y, y, x);
      if (y != 0) check ("x / y", x, vx, y, vy, a / b, L (x) / y, 1 / L (y), - L (x) / (L (y) * y));
      if (y != 0) check ("copysign (x, y)", x, vx, y, vy, copysign (a, b), std::copysign (L (x), L (y)), (std::signbit (x) == std::signbit (y)) ? 1 : -1, 0);
      if (vy == 0.0 && y == 1.0) {      // unary functions of x
        check ("- x", x, vx, y, vy, -a, - L (x), -1, 0);
        if (x != 0) check ("1 / x", x, vx, y, vy, a.inverse (), 1 / L (x), -1 / (L (x) * x), 0);
        if (std::fabs (x) < 700) check ("exp x", x, vx, y, vy, exp (a), std::exp (L (x)), std::exp (L (x)), 0);
        if (x > 0) { check ("log x", x, vx, y, vy, log (a), std::log (L (x)), 1 / L (x), 0); check ("sqrt x", x, vx, y, vy, sqrt (a), std::sqrt (L (x)), 1 / (2 * std::sqrt (L (x))), 0); }
        check ("sin x", x, vx, y, vy, sin (a), std::sin (L (x)), std::cos (L (x)), 0); check ("cos x", x, vx, y, vy, cos (a), std::cos (L (x)), - std::sin (L (x)), 0);
        check ("atan x", x, vx, y, vy, atan (a), std::atan (L (x)), 1 / (1 + L (x) * x), 0);
        if (std::fabs (x) < 1) { check ("acos x", x, vx, y, vy, acos (a), std::acos (L (x)), -1 / std::sqrt (1 - L (x) * x), 0); check ("atanh x", x, vx, y, vy, atanh (a), std::atanh (L (x)), 1 / (1 - L (x) * x), 0); }
        if (std::fabs (x) < 300) { check ("sinh x", x, vx, y, vy, sinh (a), std::sinh (L (x)), std::cosh (L (x)), 0); check ("cosh x", x, vx, y, vy, cosh (a), std::cosh (L (x)), std::sinh (L (x)), 0); } }
      if (x != 0 || y != 0) { L h = L (x) * x + L (y) * y; check ("atan2 (x, y)", x, vx, y, vy, atan2 (a, b), std::atan2 (L (x), L (y)), y / h, - L (x) / h); }
    } }, 1);
#endif
  symx::finish ();
  return 0;
}
